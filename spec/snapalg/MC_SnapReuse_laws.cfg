INIT InitSnapReuse
NEXT Next
CONSTANTS
  MaxItems = 1024
  MaxSize = 65536
CHECK_DEADLOCK FALSE
INVARIANTS
  BuilderLaw
  SerialLaw
  RecycleLaw
