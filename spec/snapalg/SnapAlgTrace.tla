---------------------------- MODULE SnapAlgTrace ----------------------------
(***************************************************************************)
(* Judges events recorded from the real code (harness vh-snapalg) with the *)
(* operators of SnapAlg. One state per event.                              *)
(*                                                                         *)
(* Every event is the input of one case together with everything the code  *)
(* did with it. Judge(e) is the set of complaints:                         *)
(*   "V:..."  the property as stated is broken (panic, wrong result,       *)
(*            warning, limit breach, over-allocation, unequal re-read)     *)
(*   "D:..."  the code differs from the detailed spec in something the     *)
(*            property does not talk about (other error class, other       *)
(*            legal wire order, other type numbers): drift                 *)
(* Complaints are printed; the trace is REJECTED iff a "V:" was printed or  *)
(* not every event was consumed.                                           *)
(***************************************************************************)
EXTENDS SnapAlg, Json, IOUtils

CONSTANTS AllocC, AllocK      \* allocation bound: peak <= AllocC * input bytes + AllocK

Rec == ndJsonDeserialize(IOEnv.TRACE)

VARIABLES i, nv
vars == <<i, nv>>

CV(cond, name) == IF cond THEN {} ELSE {<<"V", name>>}
CD(cond, name) == IF cond THEN {} ELSE {<<"D", name>>}
Has(e, f) == f \in DOMAIN e

\* ---- projections of logged values
SnapOfItems(its) == FoldLeft(LAMBDA f, it : (<<it.t, it.i>> :> it.d) @@ f, EmptySnap, its)
ItemsAre(its, S) == Len(its) = Cardinality(DOMAIN S) /\ SameSnap(SnapOfItems(its), S)
ViewOfItems(its) == FoldLeft(LAMBDA f, it : (<<it.ty, it.i>> :> it.d) @@ f, EmptySnap, its)
OszOf(p) == FoldLeft(LAMBDA f, x : (x[1] :> x[2]) @@ f, EmptySnap, p)
NoPacker(ws) == {w \in ToSet(ws) : w \notin {"PackerOverlongIntEncoding", "PackerNonZeroIntPadding", "PackerExcessData"}}
AllocOK(peak, inb) == peak <= AllocC * inb + AllocK
\* byte strings longer than this are not decoded a second time by the spec (the code's own reader
\* decodes them and the result is judged); shorter ones must be the exact encoding of the integers
ByteCheckMax == 6000

\* ------------------------------------------------------------------ op "pair" (C09)
\* what applying a logged delta wire form gave (r: read/apply outcomes, result items, crc)
AppliedIs(r, B, tag) ==
  CV(r.read = "ok", "" \o tag \o ":delta-read-" \o r.read) \cup
  (IF r.read # "ok" THEN {} ELSE
   CV(ToSet(r.read_warn) = {}, "" \o tag \o ":delta-read-warning") \cup
   CV(r.apply = "ok", "" \o tag \o ":apply-" \o r.apply) \cup
   (IF r.apply # "ok" THEN {} ELSE
    CV(ToSet(r.apply_warn) = {}, "" \o tag \o ":apply-warning") \cup
    CV(ItemsAre(r.res.items, B), "" \o tag \o ":result-differs-from-target") \cup
    CV(r.res.crc_out = "ok" /\ r.res.crc = Crc(B), "" \o tag \o ":checksum-differs") \cup
    \* the snapshot obtained by the delta serialises like the target (the format fixes the integers)
    CV(~Has(r, "res_wi") \/ (r.res_wi.out = "ok" /\ r.res_wi.v = WireInts(B)), "" \o tag \o ":result-serialises-differently-from-target")))

JudgePair(e) ==
  LET A == SnapOfItems(e.A)
      B == SnapOfItems(e.B)
      osz == OszOf(e.osz)
  IN
  IF ~e.build THEN CD(~(WithinLimits(A) /\ WithinLimits(B)), "builder-refused-items-within-limits") ELSE
  LET D == Delta(A, B)
      pd == ParseDelta(e.dw.v, FALSE, osz)
      ap == Apply(A, pd.d)
  IN
  CV(e.create = "ok", "create-panic") \cup
  CV(e.wa.out = "ok" /\ e.wa.v = WireInts(A) /\ e.wb.out = "ok" /\ e.wb.v = WireInts(B), "snapshot-wire-ints-differ-from-format") \cup
  CV(e.crc_a = Crc(A) /\ e.crc_b = Crc(B), "checksum-of-built-snapshot") \cup
  (IF e.create # "ok" THEN {} ELSE
   CV(e.dw.out = "ok" /\ e.dwb.out = "ok", "delta-write-" \o e.dw.out \o "-" \o e.dwb.out) \cup
   (IF e.dw.out # "ok" \/ e.dwb.out # "ok" THEN {} ELSE
    \* the spec reads the wire form the code wrote
    CV(pd.ok, "delta-wire-unreadable-by-format") \cup
    (IF ~pd.ok THEN {} ELSE
     CV(pd.warn = {}, "delta-wire-warning-by-format") \cup
     CV(ap.ok /\ ap.warn = {} /\ SameSnap(ap.s, B), "delta-wire-does-not-yield-target-by-format")) \cup
    CV(Len(e.dwb.v) > ByteCheckMax \/ DecodeAll(e.dwb.v) = [ints |-> e.dw.v, tail |-> FALSE], "delta-bytes-differ-from-delta-ints") \cup
    \* the code reads what it wrote and applies it
    AppliedIs(e.r_ints, B, "ints") \cup AppliedIs(e.r_bytes, B, "bytes") \cup
    \* detailed form of the delta
    CD(e.dw.v = DeltaWire(D, osz), "delta-wire-form-differs"))) \cup
  \* the bundled DDNet reference on the same pair
  (IF ~Has(e, "ref") THEN {} ELSE
   CV(e.ref.wa = WireInts(A) /\ e.ref.wb = WireInts(B), "reference-snapshot-ints-differ") \cup
   (IF e.ref.dw_out # "ok" THEN {<<"D", "reference-delta-capacity">>} ELSE
    LET rpd == IF e.ref.dw = <<>> THEN [ok |-> TRUE, d |-> EmptyDelta, warn |-> {}]
               ELSE ParseDelta(e.ref.dw, FALSE, osz)
        rap == Apply(A, rpd.d)
    IN CV(rpd.ok, "reference-delta-unreadable-by-format") \cup
       (IF ~rpd.ok THEN {} ELSE CV(rap.ok /\ SameSnap(rap.s, B), "reference-delta-does-not-yield-target-by-format")) \cup
       (IF ~Has(e, "r_ref") THEN {<<"V", "reference-delta-not-applied">>} ELSE
        \* warnings are not part of the reference clause
        CV(e.r_ref.read = "ok" /\ e.r_ref.apply = "ok", "reference-delta-read-" \o e.r_ref.read \o (IF Has(e.r_ref, "apply") THEN "-apply-" \o e.r_ref.apply ELSE "")) \cup
        (IF e.r_ref.read # "ok" \/ e.r_ref.apply # "ok" THEN {} ELSE
         CV(ItemsAre(e.r_ref.res.items, B), "reference-delta-result-differs-from-target") \cup
         CV(e.r_ref.res.crc = Crc(B), "reference-delta-checksum-differs") \cup
         CV(~Has(e.r_ref, "res_wi") \/ (e.r_ref.res_wi.out = "ok" /\ e.r_ref.res_wi.v = e.ref.wb),
            "reference-delta-result-serialises-differently-from-reference")))))

\* ------------------------------------------------------------------ op "snap" (C10)
OkNess(outs) == [j \in 1..Len(outs) |-> outs[j] = "ok"]
\* what the public API must show of the raw snapshot T: enumeration, look-ups of the probes, checksum
Expect(T, probes) == LET reg == Reg(T) IN
  [view |-> View(T), look |-> [j \in 1..Len(probes) |-> LookupR(T, reg, probes[j].ty, probes[j].i)], crc |-> Crc(T)]
\* observation of a Snap through the public API against the expectation x
ObsIsX(o, x, tag) ==
  CV(o.view_out = "ok" /\ o.look_out = "ok" /\ o.crc_out = "ok", "" \o tag \o ":panic-in-items-item-crc") \cup
  (IF ~(o.view_out = "ok" /\ o.look_out = "ok" /\ o.crc_out = "ok") THEN {} ELSE
   CV(Len(o.view.items) = Cardinality(DOMAIN x.view) /\ SameSnap(ViewOfItems(o.view.items), x.view),
     "" \o tag \o ":enumerated-items-differ") \cup
   CV(o.view.n = Len(o.view.items), "" \o tag \o ":announced-length-differs") \cup
   CV(o.look = x.look, "" \o tag \o ":lookup-differs") \cup
   CV(o.crc = x.crc, "" \o tag \o ":checksum-differs"))
ObsIs(o, T, probes, tag) == ObsIsX(o, Expect(T, probes), tag)
\* "still knows its UUID types": every UUID type of the registry `reg` (UUID -> number) is in the
\* registry of the snapshot written as `w`, under the same number
KeepsTypes(w, reg) ==
  LET p == ParseInts(w.v) IN
  w.out = "ok" /\ p.ok /\ CheckRegistry(p.s).ok /\
  LET r2 == Reg(p.s) IN \A u \in DOMAIN reg : u \in DOMAIN r2 /\ r2[u] = reg[u]
\* T: BAddAll(Recycle(S), adds2), xT: Expect(T.b.raw, probes), wT: WireInts(T.b.raw),
\* reg: the registry of the recycled snapshot as the code numbered it
RecycleIsX(r, T, xT, wT, reg, tag) ==
  CV(r.out = "ok", "" \o tag \o ":recycle-panic") \cup
  (IF r.out # "ok" THEN {} ELSE
   CV(\A j \in 1..Len(r.outs) : r.outs[j] # "panic", "" \o tag \o ":add-after-recycle-panic") \cup
   CV(OkNess(r.outs) = OkNess(T.outs), "" \o tag \o ":add-after-recycle-outcome") \cup
   (IF OkNess(r.outs) # OkNess(T.outs) THEN {} ELSE
    \* which registry items a recycled builder carries along is not visible to the user: the
    \* checksum is judged against the snapshot's own wire form, the spec's choice is detail
    ObsIsX(r.obs, [xT EXCEPT !.crc = IF r.wi.out = "ok" /\ ParseInts(r.wi.v).ok THEN Crc(ParseInts(r.wi.v).s) ELSE xT.crc],
           tag \o ":recycled") \cup
    CV(r.wi.out = "ok", "" \o tag \o ":recycled-write-" \o r.wi.out) \cup
    CV(r.wi.out # "ok" \/ KeepsTypes(r.wi, reg), "" \o tag \o ":recycled-builder-forgot-uuid-types") \cup
    CD(\A j \in 1..Len(r.outs) : r.outs[j] = "panic" \/ r.outs[j] = T.outs[j], "" \o tag \o ":add-after-recycle-error-class") \cup
    CD(r.wi.out = "ok" /\ r.wi.v = wT, "" \o tag \o ":recycled-wire-form-differs")))

JudgeSnap(e) ==
  LET bb == BAddAll(NewBuilder, e.adds)
      S == bb.b.raw
      probes == e.probes
      xS == Expect(S, probes)
      T == BAddAll(Recycle(S), e.adds2)
      xT == Expect(T.b.raw, probes)
      wT == WireInts(T.b.raw)
  IN
  CV(\A j \in 1..Len(e.outs) : e.outs[j] # "panic", "builder-add-panic") \cup
  CV(OkNess(e.outs) = OkNess(bb.outs), "builder-add-outcome") \cup
  (IF OkNess(e.outs) # OkNess(bb.outs) THEN {} ELSE
   CD(e.outs = bb.outs, "builder-error-class") \cup
   ObsIsX(e.built, xS, "built") \cup
   CV(e.wi.out = "ok" /\ e.wb.out = "ok", "write-" \o e.wi.out \o "-" \o e.wb.out) \cup
   (IF e.wi.out # "ok" \/ e.wb.out # "ok" THEN {} ELSE
    CD(e.wi.v = WireInts(S), "wire-ints-differ") \cup
    CV(Len(e.wb.v) > ByteCheckMax \/ DecodeAll(e.wb.v) = [ints |-> e.wi.v, tail |-> FALSE], "wire-bytes-differ-from-wire-ints")) \cup
   UNION {CV(c.out = "ok", "copy-" \o c.src \o ":read-" \o c.out) \cup
          (IF c.out # "ok" THEN {} ELSE
           CV(ToSet(c.warn) = {}, "copy-" \o c.src \o ":warning") \cup ObsIsX(c.obs, xS, "copy-" \o c.src))
          : c \in ToSet(e.copies)} \cup
   (IF e.wi.out # "ok" \/ ~ParseInts(e.wi.v).ok THEN {} ELSE
    LET reg == Reg(ParseInts(e.wi.v).s) IN
    UNION {RecycleIsX(r, T, xT, wT, reg, "copy-" \o r.src) : r \in ToSet(e.rec)}))

\* ------------------------------------------------------------------ op "parse" (C11)
\* an accepted raw snapshot: limits, written and read back equal
AcceptedRawIs(obs, follow, tag) ==
  LET S == SnapOfItems(obs.items) IN
  CV(Len(obs.items) = Cardinality(DOMAIN S), "" \o tag \o ":duplicate-items") \cup
  CV(Len(obs.items) <= MaxItems /\ SnapSize(S) <= MaxSize, "" \o tag \o ":limit-breach") \cup
  CV(obs.crc_out = "ok", "" \o tag \o ":crc-panic") \cup
  CV(follow.wi.out = "ok" /\ follow.wb_out = "ok", "" \o tag \o ":write-" \o follow.wi.out \o "-" \o follow.wb_out) \cup
  (IF follow.wi.out # "ok" \/ follow.wb_out # "ok" THEN {} ELSE
   CV(follow.re_i.out = "ok" /\ ItemsAre(follow.re_i.items, S), "" \o tag \o ":reread-ints-unequal") \cup
   CV(follow.re_b.out = "ok" /\ ItemsAre(follow.re_b.items, S), "" \o tag \o ":reread-bytes-unequal") \cup
   CD(obs.crc = Crc(S), "" \o tag \o ":checksum") \cup
   CD(follow.wi.v = WireInts(S), "" \o tag \o ":wire-form"))
\* whatever the code accepted (even where the spec's registry check refuses it): the follow-up
\* operations of a client end without a panic
NoPanicSnap(o, tag) ==
  CV(o.obs.view_out = "ok" /\ o.obs.look_out = "ok" /\ o.obs.crc_out = "ok", "" \o tag \o ":panic-in-items-item-crc") \cup
  CV(o.rec.out = "ok", "" \o tag \o ":recycle-panic") \cup
  (IF o.rec.out # "ok" THEN {} ELSE
   CV(\A j \in 1..Len(o.rec.outs) : o.rec.outs[j] # "panic", "" \o tag \o ":add-after-recycle-panic") \cup
   CV(o.rec.obs.view_out = "ok" /\ o.rec.obs.look_out = "ok" /\ o.rec.obs.crc_out = "ok",
      "" \o tag \o ":recycled:panic-in-items-item-crc"))
\* follow-up operations on an accepted Snap (registry well-formed): enumerate, look up, recycle, add
AcceptedSnapIs(o, S, adds2, tag) ==
  LET probes == [j \in 1..Len(adds2) |-> [ty |-> adds2[j].ty, i |-> adds2[j].i]] IN
  ObsIs(o.obs, S, probes, tag) \cup
  CV(o.rec.out = "ok", "" \o tag \o ":recycle-panic") \cup
  (IF o.rec.out # "ok" THEN {} ELSE
   LET T == BAddAll(Recycle(S), adds2) IN
   CV(\A j \in 1..Len(o.rec.outs) : o.rec.outs[j] # "panic", "" \o tag \o ":add-after-recycle-panic") \cup
   (IF OkNess(o.rec.outs) # OkNess(T.outs) THEN {<<"D", "" \o tag \o ":add-after-recycle-outcome">>} ELSE
    ObsIs(o.rec.obs, T.b.raw, probes, tag \o ":recycled") \cup
    CV(o.rec.wi.out # "ok" \/ KeepsTypes(o.rec.wi, Reg(S)), "" \o tag \o ":recycled-builder-forgot-uuid-types") \cup
    CD(\A j \in 1..Len(o.rec.outs) : o.rec.outs[j] = "panic" \/ o.rec.outs[j] = T.outs[j], "" \o tag \o ":add-after-recycle-error-class")))

JudgeParseSnap(e) ==
  LET isb == e.kind = "sb"
      p == IF isb THEN ParseBytes(e.w) ELSE ParseInts(e.w)
      raw == e.raw
  IN
  CV(raw.out # "panic", "raw:read-panic") \cup
  CV(AllocOK(raw.peak, e.inb), "raw:over-allocation") \cup
  CD(p.ok = (raw.out = "ok"), "raw:verdict-differs") \cup
  (IF raw.out = "panic" THEN {} ELSE
   IF raw.out # "ok" THEN (IF p.ok THEN {} ELSE CD(raw.out = p.e, "raw:error-class")) ELSE
   AcceptedRawIs(raw.obs, raw.follow, "raw") \cup
   (IF ~p.ok THEN {} ELSE
    CD(ItemsAre(raw.obs.items, p.s), "raw:items-differ-from-format") \cup
    CD(NoPacker(raw.warn) = p.warn, "raw:warnings")) \cup
   (IF ~Has(raw, "diff") THEN {} ELSE
    CV(raw.diff.create = "ok", "raw:delta-create-panic") \cup
    (IF raw.diff.create # "ok" \/ ~Has(raw.diff, "r") THEN {} ELSE
     CV(raw.diff.r.read = "ok" /\ raw.diff.r.apply = "ok", "raw:own-delta-rejected") \cup
     (IF raw.diff.r.read # "ok" \/ raw.diff.r.apply # "ok" THEN {} ELSE
      CV(ItemsAre(raw.diff.r.res.items, SnapOfItems(raw.obs.items)), "raw:own-delta-result-differs"))))) \cup
  \* the Snap level: registry check, then the follow-up operations
  (LET sn == e.snap IN
   CV(sn.out # "panic", "snap:read-panic") \cup
   CV(AllocOK(sn.peak, e.inb), "snap:over-allocation") \cup
   (IF sn.out = "panic" \/ raw.out # "ok" THEN {} ELSE
    LET S == SnapOfItems(raw.obs.items)
        q == CheckRegistry(S)
    IN CD(q.ok = (sn.out = "ok"), "snap:verdict-differs") \cup
       (IF sn.out # "ok" THEN (IF q.ok THEN {} ELSE CD(sn.out = q.e, "snap:error-class")) ELSE
        IF ~q.ok THEN NoPanicSnap(sn, "snap:accepted-ill-formed-registry") \cup
                      CV(sn.wi.out # "panic" /\ sn.wb_out # "panic", "snap:accepted-ill-formed-registry:write-panic") ELSE
        CV(sn.wi.out = "ok" /\ sn.wb_out = "ok", "snap:write-" \o sn.wi.out) \cup
        AcceptedSnapIs(sn, S, e.adds2, "snap"))))

JudgeParseDelta(e) ==
  LET isb == e.kind = "db"
      osz == OszOf(e.osz)
      base == SnapOfItems(e.base_items)
      pd == IF isb THEN ParseDeltaBytes(e.w, osz) ELSE ParseDelta(e.w, FALSE, osz)
      d == e.d
  IN
  IF ~e.base_ok THEN {<<"D", "base-snapshot-rejected">>} ELSE
  CV(d.read # "panic", "delta:read-panic") \cup
  CV(AllocOK(d.peak, e.inb), "delta:over-allocation") \cup
  CD(pd.ok = (d.read = "ok"), "delta:verdict-differs") \cup
  (IF d.read = "panic" THEN {} ELSE
   IF d.read # "ok" THEN (IF pd.ok THEN {} ELSE CD(d.read = pd.e, "delta:error-class")) ELSE
   CV(d.rewrite.out # "panic", "delta:write-panic") \cup
   CV(d.apply # "panic", "delta:apply-panic") \cup
   CV(AllocOK(d.apply_peak, e.inb + 4 * Len(e.base)), "delta:apply-over-allocation") \cup
   (IF d.apply = "ok" THEN AcceptedRawIs(d.res, d.res_follow, "delta:result") ELSE {}) \cup
   (IF ~pd.ok \/ d.apply = "panic" THEN {} ELSE
    LET ap == Apply(base, pd.d) IN
    CD(NoPacker(d.read_warn) = pd.warn, "delta:warnings") \cup
    CD(d.rewrite.out = "ok" /\ d.rewrite.v = DeltaWire(pd.d, osz), "delta:rewritten-form") \cup
    CD(ap.ok = (d.apply = "ok"), "delta:apply-verdict-differs") \cup
    (IF d.apply # "ok" THEN (IF ap.ok THEN {} ELSE CD(d.apply = ap.e, "delta:apply-error-class")) ELSE
     IF ~ap.ok THEN {} ELSE
     CD(ItemsAre(d.res.items, ap.s), "delta:result-differs-from-format") \cup
     CD(ToSet(d.apply_warn) = ap.warn, "delta:apply-warnings") \cup
     \* the same through the Snap level
     (IF ~Has(e, "snap") THEN {} ELSE
      LET q == CheckRegistry(ap.s) IN
      CV(e.snap.out # "panic", "delta:snap-apply-panic") \cup
      CD(q.ok = (e.snap.out = "ok"), "delta:snap-verdict-differs") \cup
      (IF e.snap.out # "ok" THEN {} ELSE
       IF ~q.ok THEN NoPanicSnap(e.snap, "delta:snap:accepted-ill-formed-registry")
       ELSE AcceptedSnapIs(e.snap, ap.s, e.adds2, "delta:snap"))))))

Judge(e) ==
  CASE e.op = "pair" -> JudgePair(e)
    [] e.op = "snap" -> JudgeSnap(e)
    [] e.op = "parse" -> IF e.kind \in {"si", "sb"} THEN JudgeParseSnap(e) ELSE JudgeParseDelta(e)
    [] OTHER -> {<<"V", "unknown-event">>}

IsV(c) == c[1] = "V"

Init == i = 0 /\ nv = 0
Next == /\ i < Len(Rec)
        /\ i' = i + 1
        /\ LET cs == Judge(Rec[i + 1]) IN
           /\ \A c \in cs : PrintT(<<"COMPLAINT", i + 1, c[1], c[2]>>)
           /\ nv' = nv + Cardinality({c \in cs : IsV(c)})
           /\ (i + 1 = Len(Rec) => TLCSet(7, nv'))
Spec == Init /\ [][Next]_vars

ASSUME TLCSet(7, -1)
\* accepted iff every event was consumed and no property-level complaint was raised
Post == IF TLCGet("stats").diameter - 1 = Len(Rec) /\ (Len(Rec) = 0 \/ TLCGet(7) = 0)
        THEN TRUE
        ELSE PrintT(<<"TRACE REJECTED", "consumed", TLCGet("stats").diameter - 1, "of", Len(Rec),
                      "violations", TLCGet(7)>>)
=============================================================================
