---------------------------- MODULE SnapAlgTrace ----------------------------
(***************************************************************************)
(* Judges events recorded from the real code (harness vh-snapalg) with the *)
(* operators of SnapAlg. One state per event.                              *)
(*                                                                         *)
(* Every event is the input of one case together with everything the code  *)
(* did with it. Judge(e) is the set of complaints:                         *)
(*   "V:..."  the property as stated is broken (panic, wrong result,       *)
(*            warning, limit breach, over-allocation, unequal re-read)     *)
(*   "D:..."  the code differs from the detailed spec in something the     *)
(*            property does not talk about (other error class, other       *)
(*            legal wire order, other type numbers): drift                 *)
(* Complaints are printed; the trace is REJECTED iff a "V:" was printed or  *)
(* not every event was consumed.                                           *)
(***************************************************************************)
EXTENDS SnapChainOps, Json, IOUtils

CONSTANTS AllocC, AllocK      \* allocation bound: peak <= AllocC * input bytes + AllocK

Rec == ndJsonDeserialize(IOEnv.TRACE)

\* i: events consumed, nv: property-level complaints so far; the rest is the state of the chain the
\* events of op "chain" belong to (the snapshots of the sender, the snapshots the receiver obtained,
\* the receiver chain fed by the deltas of the DDNet reference, the delta that travelled last)
VARIABLES i, nv, hist, store, rstore, last
vars == <<i, nv, hist, store, rstore, last>>

CV(cond, name) == IF cond THEN {} ELSE {<<"V", name>>}
CD(cond, name) == IF cond THEN {} ELSE {<<"D", name>>}
Has(e, f) == f \in DOMAIN e

\* ---- projections of logged values
ItemsAre(its, S) == Len(its) = Cardinality(DOMAIN S) /\ SameSnap(SnapOfItems(its), S)
ViewOfItems(its) == FoldLeft(LAMBDA f, it : (<<it.ty, it.i>> :> it.d) @@ f, EmptySnap, its)
NoPacker(ws) == {w \in ToSet(ws) : w \notin {"PackerOverlongIntEncoding", "PackerNonZeroIntPadding", "PackerExcessData"}}
AllocOK(peak, inb) == peak <= AllocC * inb + AllocK
\* byte strings longer than this are not decoded a second time by the spec (the code's own reader
\* decodes them and the result is judged); shorter ones must be the exact encoding of the integers
ByteCheckMax == 6000

\* ------------------------------------------------------------------ op "pair" (C09)
\* what applying a logged delta wire form gave (r: read/apply outcomes, result items, crc)
AppliedIs(r, B, tag) ==
  CV(r.read = "ok", "" \o tag \o ":delta-read-" \o r.read) \cup
  (IF r.read # "ok" THEN {} ELSE
   CV(ToSet(r.read_warn) = {}, "" \o tag \o ":delta-read-warning") \cup
   CV(r.apply = "ok", "" \o tag \o ":apply-" \o r.apply) \cup
   (IF r.apply # "ok" THEN {} ELSE
    CV(ToSet(r.apply_warn) = {}, "" \o tag \o ":apply-warning") \cup
    CV(ItemsAre(r.res.items, B), "" \o tag \o ":result-differs-from-target") \cup
    CV(r.res.crc_out = "ok" /\ r.res.crc = Crc(B), "" \o tag \o ":checksum-differs") \cup
    \* the snapshot obtained by the delta serialises like the target (the format fixes the integers)
    CV(~Has(r, "res_wi") \/ (r.res_wi.out = "ok" /\ r.res_wi.v = WireInts(B)), "" \o tag \o ":result-serialises-differently-from-target")))

JudgePair(e) ==
  LET A == SnapOfItems(e.A)
      B == SnapOfItems(e.B)
      osz == OszOf(e.osz)
  IN
  IF ~e.build THEN CD(~(WithinLimits(A) /\ WithinLimits(B)), "builder-refused-items-within-limits") ELSE
  LET D == Delta(A, B)
      pd == ParseDelta(e.dw.v, FALSE, osz)
      ap == Apply(A, pd.d)
  IN
  CV(e.create = "ok", "create-panic") \cup
  CV(e.wa.out = "ok" /\ e.wa.v = WireInts(A) /\ e.wb.out = "ok" /\ e.wb.v = WireInts(B), "snapshot-wire-ints-differ-from-format") \cup
  CV(e.crc_a = Crc(A) /\ e.crc_b = Crc(B), "checksum-of-built-snapshot") \cup
  (IF e.create # "ok" THEN {} ELSE
   CV(e.dw.out = "ok" /\ e.dwb.out = "ok", "delta-write-" \o e.dw.out \o "-" \o e.dwb.out) \cup
   (IF e.dw.out # "ok" \/ e.dwb.out # "ok" THEN {} ELSE
    \* the spec reads the wire form the code wrote
    CV(pd.ok, "delta-wire-unreadable-by-format") \cup
    (IF ~pd.ok THEN {} ELSE
     CV(pd.warn = {}, "delta-wire-warning-by-format") \cup
     CV(ap.ok /\ ap.warn = {} /\ SameSnap(ap.s, B), "delta-wire-does-not-yield-target-by-format")) \cup
    CV(Len(e.dwb.v) > ByteCheckMax \/ DecodeAll(e.dwb.v) = [ints |-> e.dw.v, tail |-> FALSE], "delta-bytes-differ-from-delta-ints") \cup
    \* the code reads what it wrote and applies it
    AppliedIs(e.r_ints, B, "ints") \cup AppliedIs(e.r_bytes, B, "bytes") \cup
    \* detailed form of the delta
    CD(e.dw.v = DeltaWire(D, osz), "delta-wire-form-differs"))) \cup
  \* the bundled DDNet reference on the same pair
  (IF ~Has(e, "ref") THEN {} ELSE
   CV(e.ref.wa = WireInts(A) /\ e.ref.wb = WireInts(B), "reference-snapshot-ints-differ") \cup
   (IF e.ref.dw_out # "ok" THEN {<<"D", "reference-delta-capacity">>} ELSE
    LET rpd == IF e.ref.dw = <<>> THEN [ok |-> TRUE, d |-> EmptyDelta, warn |-> {}]
               ELSE ParseDelta(e.ref.dw, FALSE, osz)
        rap == Apply(A, rpd.d)
    IN CV(rpd.ok, "reference-delta-unreadable-by-format") \cup
       (IF ~rpd.ok THEN {} ELSE CV(rap.ok /\ SameSnap(rap.s, B), "reference-delta-does-not-yield-target-by-format")) \cup
       (IF ~Has(e, "r_ref") THEN {<<"V", "reference-delta-not-applied">>} ELSE
        \* warnings are not part of the reference clause
        CV(e.r_ref.read = "ok" /\ e.r_ref.apply = "ok", "reference-delta-read-" \o e.r_ref.read \o (IF Has(e.r_ref, "apply") THEN "-apply-" \o e.r_ref.apply ELSE "")) \cup
        (IF e.r_ref.read # "ok" \/ e.r_ref.apply # "ok" THEN {} ELSE
         CV(ItemsAre(e.r_ref.res.items, B), "reference-delta-result-differs-from-target") \cup
         CV(e.r_ref.res.crc = Crc(B), "reference-delta-checksum-differs") \cup
         CV(~Has(e.r_ref, "res_wi") \/ (e.r_ref.res_wi.out = "ok" /\ e.r_ref.res_wi.v = e.ref.wb),
            "reference-delta-result-serialises-differently-from-reference")))))

\* ------------------------------------------------------------------ op "snap" (C10)
OkNess(outs) == [j \in 1..Len(outs) |-> outs[j] = "ok"]
\* what the public API must show of the raw snapshot T: enumeration, look-ups of the probes, checksum
Expect(T, probes) == LET reg == Reg(T) IN
  [view |-> View(T), look |-> [j \in 1..Len(probes) |-> LookupR(T, reg, probes[j].ty, probes[j].i)], crc |-> Crc(T)]
\* observation of a Snap through the public API against the expectation x
ObsIsX(o, x, tag) ==
  CV(o.view_out = "ok" /\ o.look_out = "ok" /\ o.crc_out = "ok", "" \o tag \o ":panic-in-items-item-crc") \cup
  (IF ~(o.view_out = "ok" /\ o.look_out = "ok" /\ o.crc_out = "ok") THEN {} ELSE
   CV(Len(o.view.items) = Cardinality(DOMAIN x.view) /\ SameSnap(ViewOfItems(o.view.items), x.view),
     "" \o tag \o ":enumerated-items-differ") \cup
   CV(o.view.n = Len(o.view.items), "" \o tag \o ":announced-length-differs") \cup
   CV(o.look = x.look, "" \o tag \o ":lookup-differs") \cup
   CV(o.crc = x.crc, "" \o tag \o ":checksum-differs"))
ObsIs(o, T, probes, tag) == ObsIsX(o, Expect(T, probes), tag)
\* "still knows its UUID types": every UUID type of the registry `reg` (UUID -> number) is in the
\* registry of the snapshot written as `w`, under the same number
KeepsTypes(w, reg) ==
  LET p == ParseInts(w.v) IN
  w.out = "ok" /\ p.ok /\ CheckRegistry(p.s).ok /\
  LET r2 == Reg(p.s) IN \A u \in DOMAIN reg : u \in DOMAIN r2 /\ r2[u] = reg[u]
\* T: BAddAll(Recycle(S), adds2), xT: Expect(T.b.raw, probes), wT: WireInts(T.b.raw),
\* reg: the registry of the recycled snapshot as the code numbered it
RecycleIsX(r, T, xT, wT, reg, tag) ==
  CV(r.out = "ok", "" \o tag \o ":recycle-panic") \cup
  (IF r.out # "ok" THEN {} ELSE
   CV(\A j \in 1..Len(r.outs) : r.outs[j] # "panic", "" \o tag \o ":add-after-recycle-panic") \cup
   CV(OkNess(r.outs) = OkNess(T.outs), "" \o tag \o ":add-after-recycle-outcome") \cup
   (IF OkNess(r.outs) # OkNess(T.outs) THEN {} ELSE
    \* which registry items a recycled builder carries along is not visible to the user: the
    \* checksum is judged against the snapshot's own wire form, the spec's choice is detail
    ObsIsX(r.obs, [xT EXCEPT !.crc = IF r.wi.out = "ok" /\ ParseInts(r.wi.v).ok THEN Crc(ParseInts(r.wi.v).s) ELSE xT.crc],
           tag \o ":recycled") \cup
    CV(r.wi.out = "ok", "" \o tag \o ":recycled-write-" \o r.wi.out) \cup
    CV(r.wi.out # "ok" \/ KeepsTypes(r.wi, reg), "" \o tag \o ":recycled-builder-forgot-uuid-types") \cup
    CD(\A j \in 1..Len(r.outs) : r.outs[j] = "panic" \/ r.outs[j] = T.outs[j], "" \o tag \o ":add-after-recycle-error-class") \cup
    CD(r.wi.out = "ok" /\ r.wi.v = wT, "" \o tag \o ":recycled-wire-form-differs")))

JudgeSnap(e) ==
  LET bb == BAddAll(NewBuilder, e.adds)
      S == bb.b.raw
      probes == e.probes
      xS == Expect(S, probes)
      T == BAddAll(Recycle(S), e.adds2)
      xT == Expect(T.b.raw, probes)
      wT == WireInts(T.b.raw)
  IN
  CV(\A j \in 1..Len(e.outs) : e.outs[j] # "panic", "builder-add-panic") \cup
  CV(OkNess(e.outs) = OkNess(bb.outs), "builder-add-outcome") \cup
  (IF OkNess(e.outs) # OkNess(bb.outs) THEN {} ELSE
   CD(e.outs = bb.outs, "builder-error-class") \cup
   ObsIsX(e.built, xS, "built") \cup
   CV(e.wi.out = "ok" /\ e.wb.out = "ok", "write-" \o e.wi.out \o "-" \o e.wb.out) \cup
   (IF e.wi.out # "ok" \/ e.wb.out # "ok" THEN {} ELSE
    CD(e.wi.v = WireInts(S), "wire-ints-differ") \cup
    CV(Len(e.wb.v) > ByteCheckMax \/ DecodeAll(e.wb.v) = [ints |-> e.wi.v, tail |-> FALSE], "wire-bytes-differ-from-wire-ints")) \cup
   UNION {CV(c.out = "ok", "copy-" \o c.src \o ":read-" \o c.out) \cup
          (IF c.out # "ok" THEN {} ELSE
           CV(ToSet(c.warn) = {}, "copy-" \o c.src \o ":warning") \cup ObsIsX(c.obs, xS, "copy-" \o c.src) \cup
           \* the copy itself is written out and read back (the laws hold for every snapshot, also for
           \* one obtained by a delta that deleted, replaced or shrank items)
           (IF ~Has(c, "rewi") THEN {} ELSE
            CV(c.rewi.out = "ok" /\ e.wi.out = "ok" /\ c.rewi.v = e.wi.v, "copy-" \o c.src \o ":serialises-differently-from-the-original") \cup
            UNION {CV(r.out = "ok", "copy-" \o c.src \o ":rewritten-" \o r.form \o "-read-" \o r.out) \cup
                   (IF r.out # "ok" THEN {} ELSE
                    CV(ToSet(r.warn) = {}, "copy-" \o c.src \o ":rewritten-" \o r.form \o "-warning") \cup
                    ObsIsX(r.obs, xS, "copy-" \o c.src \o ":rewritten-" \o r.form))
                   : r \in ToSet(c.re)}))
          : c \in ToSet(e.copies)} \cup
   (IF e.wi.out # "ok" \/ ~ParseInts(e.wi.v).ok THEN {} ELSE
    LET reg == Reg(ParseInts(e.wi.v).s) IN
    UNION {RecycleIsX(r, T, xT, wT, reg, "copy-" \o r.src) : r \in ToSet(e.rec)}))

\* ------------------------------------------------------------------ op "parse" (C11)
\* an accepted raw snapshot: limits, written and read back equal
AcceptedRawIs(obs, follow, tag) ==
  LET S == SnapOfItems(obs.items) IN
  CV(Len(obs.items) = Cardinality(DOMAIN S), "" \o tag \o ":duplicate-items") \cup
  CV(Len(obs.items) <= MaxItems /\ SnapSize(S) <= MaxSize, "" \o tag \o ":limit-breach") \cup
  CV(obs.crc_out = "ok", "" \o tag \o ":crc-panic") \cup
  CV(follow.wi.out = "ok" /\ follow.wb_out = "ok", "" \o tag \o ":write-" \o follow.wi.out \o "-" \o follow.wb_out) \cup
  (IF follow.wi.out # "ok" \/ follow.wb_out # "ok" THEN {} ELSE
   CV(follow.re_i.out = "ok" /\ ItemsAre(follow.re_i.items, S), "" \o tag \o ":reread-ints-unequal") \cup
   CV(follow.re_b.out = "ok" /\ ItemsAre(follow.re_b.items, S), "" \o tag \o ":reread-bytes-unequal") \cup
   CD(obs.crc = Crc(S), "" \o tag \o ":checksum") \cup
   CD(follow.wi.v = WireInts(S), "" \o tag \o ":wire-form"))
\* whatever the code accepted (even where the spec's registry check refuses it): the follow-up
\* operations of a client end without a panic
NoPanicSnap(o, tag) ==
  CV(o.obs.view_out = "ok" /\ o.obs.look_out = "ok" /\ o.obs.crc_out = "ok", "" \o tag \o ":panic-in-items-item-crc") \cup
  CV(o.rec.out = "ok", "" \o tag \o ":recycle-panic") \cup
  (IF o.rec.out # "ok" THEN {} ELSE
   CV(\A j \in 1..Len(o.rec.outs) : o.rec.outs[j] # "panic", "" \o tag \o ":add-after-recycle-panic") \cup
   CV(o.rec.obs.view_out = "ok" /\ o.rec.obs.look_out = "ok" /\ o.rec.obs.crc_out = "ok",
      "" \o tag \o ":recycled:panic-in-items-item-crc"))
\* follow-up operations on an accepted Snap (registry well-formed): enumerate, look up, recycle, add
AcceptedSnapIs(o, S, adds2, tag) ==
  LET probes == [j \in 1..Len(adds2) |-> [ty |-> adds2[j].ty, i |-> adds2[j].i]] IN
  ObsIs(o.obs, S, probes, tag) \cup
  CV(o.rec.out = "ok", "" \o tag \o ":recycle-panic") \cup
  (IF o.rec.out # "ok" THEN {} ELSE
   LET T == BAddAll(Recycle(S), adds2) IN
   CV(\A j \in 1..Len(o.rec.outs) : o.rec.outs[j] # "panic", "" \o tag \o ":add-after-recycle-panic") \cup
   (IF OkNess(o.rec.outs) # OkNess(T.outs) THEN {<<"D", "" \o tag \o ":add-after-recycle-outcome">>} ELSE
    ObsIs(o.rec.obs, T.b.raw, probes, tag \o ":recycled") \cup
    CV(o.rec.wi.out # "ok" \/ KeepsTypes(o.rec.wi, Reg(S)), "" \o tag \o ":recycled-builder-forgot-uuid-types") \cup
    CD(\A j \in 1..Len(o.rec.outs) : o.rec.outs[j] = "panic" \/ o.rec.outs[j] = T.outs[j], "" \o tag \o ":add-after-recycle-error-class")))

JudgeParseSnap(e) ==
  LET isb == e.kind = "sb"
      p == IF isb THEN ParseBytes(e.w) ELSE ParseInts(e.w)
      raw == e.raw
  IN
  CV(raw.out # "panic", "raw:read-panic") \cup
  CV(AllocOK(raw.peak, e.inb), "raw:over-allocation") \cup
  CD(p.ok = (raw.out = "ok"), "raw:verdict-differs") \cup
  (IF raw.out = "panic" THEN {} ELSE
   IF raw.out # "ok" THEN (IF p.ok THEN {} ELSE CD(raw.out = p.e, "raw:error-class")) ELSE
   AcceptedRawIs(raw.obs, raw.follow, "raw") \cup
   (IF ~p.ok THEN {} ELSE
    CD(ItemsAre(raw.obs.items, p.s), "raw:items-differ-from-format") \cup
    CD(NoPacker(raw.warn) = p.warn, "raw:warnings")) \cup
   (IF ~Has(raw, "diff") THEN {} ELSE
    CV(raw.diff.create = "ok", "raw:delta-create-panic") \cup
    (IF raw.diff.create # "ok" \/ ~Has(raw.diff, "r") THEN {} ELSE
     CV(raw.diff.r.read = "ok" /\ raw.diff.r.apply = "ok", "raw:own-delta-rejected") \cup
     (IF raw.diff.r.read # "ok" \/ raw.diff.r.apply # "ok" THEN {} ELSE
      CV(ItemsAre(raw.diff.r.res.items, SnapOfItems(raw.obs.items)), "raw:own-delta-result-differs"))))) \cup
  \* the Snap level: registry check, then the follow-up operations
  (LET sn == e.snap IN
   CV(sn.out # "panic", "snap:read-panic") \cup
   CV(AllocOK(sn.peak, e.inb), "snap:over-allocation") \cup
   (IF sn.out = "panic" \/ raw.out # "ok" THEN {} ELSE
    LET S == SnapOfItems(raw.obs.items)
        q == CheckRegistry(S)
    IN CD(q.ok = (sn.out = "ok"), "snap:verdict-differs") \cup
       (IF sn.out # "ok" THEN (IF q.ok THEN {} ELSE CD(sn.out = q.e, "snap:error-class")) ELSE
        IF ~q.ok THEN NoPanicSnap(sn, "snap:accepted-ill-formed-registry") \cup
                      CV(sn.wi.out # "panic" /\ sn.wb_out # "panic", "snap:accepted-ill-formed-registry:write-panic") ELSE
        CV(sn.wi.out = "ok" /\ sn.wb_out = "ok", "snap:write-" \o sn.wi.out) \cup
        AcceptedSnapIs(sn, S, e.adds2, "snap"))))

JudgeParseDelta(e) ==
  LET isb == e.kind = "db"
      osz == OszOf(e.osz)
      base == SnapOfItems(e.base_items)
      pd == IF isb THEN ParseDeltaBytes(e.w, osz) ELSE ParseDelta(e.w, FALSE, osz)
      d == e.d
  IN
  IF ~e.base_ok THEN {<<"D", "base-snapshot-rejected">>} ELSE
  CV(d.read # "panic", "delta:read-panic") \cup
  CV(AllocOK(d.peak, e.inb), "delta:over-allocation") \cup
  CD(pd.ok = (d.read = "ok"), "delta:verdict-differs") \cup
  (IF d.read = "panic" THEN {} ELSE
   IF d.read # "ok" THEN (IF pd.ok THEN {} ELSE CD(d.read = pd.e, "delta:error-class")) ELSE
   CV(d.rewrite.out # "panic", "delta:write-panic") \cup
   CV(d.apply # "panic", "delta:apply-panic") \cup
   CV(AllocOK(d.apply_peak, e.inb + 4 * Len(e.base)), "delta:apply-over-allocation") \cup
   (IF d.apply = "ok" THEN AcceptedRawIs(d.res, d.res_follow, "delta:result") ELSE {}) \cup
   (IF ~pd.ok \/ d.apply = "panic" THEN {} ELSE
    LET ap == Apply(base, pd.d) IN
    CD(NoPacker(d.read_warn) = pd.warn, "delta:warnings") \cup
    CD(d.rewrite.out = "ok" /\ d.rewrite.v = DeltaWire(pd.d, osz), "delta:rewritten-form") \cup
    CD(ap.ok = (d.apply = "ok"), "delta:apply-verdict-differs") \cup
    (IF d.apply # "ok" THEN (IF ap.ok THEN {} ELSE CD(d.apply = ap.e, "delta:apply-error-class")) ELSE
     IF ~ap.ok THEN {} ELSE
     CD(ItemsAre(d.res.items, ap.s), "delta:result-differs-from-format") \cup
     CD(ToSet(d.apply_warn) = ap.warn, "delta:apply-warnings") \cup
     \* the same through the Snap level
     (IF ~Has(e, "snap") THEN {} ELSE
      LET q == CheckRegistry(ap.s) IN
      CV(e.snap.out # "panic", "delta:snap-apply-panic") \cup
      CD(q.ok = (e.snap.out = "ok"), "delta:snap-verdict-differs") \cup
      (IF e.snap.out # "ok" THEN {} ELSE
       IF ~q.ok THEN NoPanicSnap(e.snap, "delta:snap:accepted-ill-formed-registry")
       ELSE AcceptedSnapIs(e.snap, ap.s, e.adds2, "delta:snap"))))))

\* ------------------------------------------------------------------ op "chain" (C09 / C10 / C11 on chains)
\* The state of the judge is what the real objects held after the previous steps (as they wrote it
\* out): every step is judged against the spec applied to *that*, so a deviation is reported once
\* and the rest of the chain is still judged.
Keep == 4
Forget(seq) == [j \in 1..Len(seq) |-> IF j = 1 \/ j + Keep + 1 >= Len(seq) THEN seq[j] ELSE EmptySnap]
ForgetR(seq) == [j \in 1..Len(seq) |-> IF j = 1 \/ j + Keep + 1 >= Len(seq) THEN seq[j] ELSE [has |-> FALSE, s |-> EmptySnap]]
NoLast == [some |-> FALSE, d |-> EmptyDelta]
\* the raw snapshot an object wrote out (w: [out, v])
Written(w) == IF w.out = "ok" /\ ParseInts(w.v).ok THEN ParseInts(w.v).s ELSE EmptySnap
WrittenOK(w) == w.out = "ok" /\ ParseInts(w.v).ok /\ ParseInts(w.v).warn = {}
\* the snapshot the receiver keeps after a step that stored one
KeptOf(rc) == IF Has(rc, "rr") /\ rc.rr.out = "ok" THEN Written(rc.rr.wi) ELSE Written(rc.res_wi)
\* the written / re-read intermediate equals what was obtained
RereadIs(rc, T, probes, lvl) ==
  IF ~Has(rc, "rr") THEN {} ELSE
  CV(rc.rr.out = "ok", "chain:reread-" \o rc.rr.form \o "-" \o rc.rr.out) \cup
  (IF rc.rr.out # "ok" THEN {} ELSE
   CV(ToSet(rc.rr.warn) = {}, "chain:reread-warning") \cup
   CV(WrittenOK(rc.rr.wi) /\ SameSnap(Written(rc.rr.wi), T), "chain:reread-unequal") \cup
   (IF lvl = "snap" THEN ObsIs(rc.rr.obs, T, probes, "chain:reread") ELSE CV(rc.rr.crc = Crc(T), "chain:reread-checksum")))
\* in sync: the target must come out (C09; C10 at level "snap")
ChainInSync(e, rc, B) ==
  CV(rc.read = "ok", "chain:delta-read-" \o rc.read) \cup
  (IF rc.read # "ok" THEN {} ELSE
   CV(ToSet(rc.read_warn) = {}, "chain:delta-read-warning") \cup
   CV(rc.apply = "ok", "chain:apply-" \o rc.apply) \cup
   (IF rc.apply # "ok" THEN {} ELSE
    LET T == Written(rc.res_wi) IN
    CV(ToSet(rc.apply_warn) = {}, "chain:apply-warning") \cup
    CV(WrittenOK(rc.res_wi) /\ SameSnap(T, B), "chain:result-differs-from-target") \cup
    (IF e.lvl = "raw"
     THEN CV(ItemsAre(rc.res.items, B), "chain:result-items-differ-from-target") \cup
          CV(rc.res.crc_out = "ok" /\ rc.res.crc = Crc(B), "chain:checksum-differs") \cup
          CV(rc.res_wi.out = "ok" /\ rc.res_wi.v = WireInts(B), "chain:result-serialises-differently-from-target")
     ELSE ObsIs(rc.obs, B, e.probes, "chain:result") \cup
          (LET TT == BAddAll(Recycle(B), e.adds2)
           IN RecycleIsX(rc.rec, TT, Expect(TT.b.raw, e.probes), WireInts(TT.b.raw), Reg(B), "chain:result"))) \cup
    RereadIs(rc, T, IF e.lvl = "snap" THEN e.probes ELSE <<>>, e.lvl)))
\* out of sync (wrong base, the same delta once more): total, within the limits, re-read equal (C11);
\* what comes out is the format's Apply (detail)
ChainOutOfSync(e, rc, X, dl) ==
  CV(rc.read # "panic", "chain:delta-read-panic") \cup
  (IF rc.read \notin {"ok", "kept"} THEN {} ELSE
   CV(rc.apply # "panic", "chain:apply-panic") \cup
   (IF ~dl.some \/ rc.apply = "panic" THEN {} ELSE
    LET ap == Apply(X, dl.d) IN
    CD(ap.ok = (rc.apply = "ok"), "chain:out-of-sync-apply-verdict-differs") \cup
    (IF rc.apply # "ok" THEN (IF ap.ok THEN {} ELSE CD(rc.apply = ap.e, "chain:out-of-sync-apply-error-class")) ELSE
     LET T == Written(rc.res_wi) IN
     CV(WrittenOK(rc.res_wi), "chain:out-of-sync-result-not-written-or-not-readable") \cup
     CV(WithinLimits(T), "chain:out-of-sync-limit-breach") \cup
     (IF ~ap.ok THEN {} ELSE
      CD(SameSnap(T, ap.s), "chain:out-of-sync-result-differs-from-format") \cup
      CD(ToSet(rc.apply_warn) = ap.warn, "chain:out-of-sync-apply-warnings")) \cup
     (IF e.lvl = "raw" THEN CV(rc.res.crc_out = "ok", "chain:out-of-sync-crc-panic") \cup CD(rc.res.crc = Crc(T), "chain:out-of-sync-checksum")
      ELSE IF CheckRegistry(T).ok THEN ObsIs(rc.obs, T, e.probes, "chain:out-of-sync-result")
      ELSE NoPanicSnap(rc, "chain:out-of-sync:accepted-ill-formed-registry")) \cup
     RereadIs(rc, T, IF e.lvl = "snap" THEN e.probes ELSE <<>>, IF e.lvl = "snap" /\ CheckRegistry(T).ok THEN "snap" ELSE "rawcrc"))))
ChainAlloc(rc) ==
  (IF Has(rc, "peak") THEN CV(AllocOK(rc.peak, rc.inb), "chain:delta-read-over-allocation") ELSE {}) \cup
  (IF Has(rc, "apply_peak") /\ Has(rc, "base_ints") /\ Has(rc, "inb")
   THEN CV(AllocOK(rc.apply_peak, rc.inb + 4 * rc.base_ints), "chain:apply-over-allocation") ELSE {})

\* the sender's side of a "next" step at level "snap": the Builder (fresh / recycled / recycle_like)
ChainBuiltSnap(e, H0, tg, B) ==
  LET st == e.step IN
  CV(e.snd.src_out = "ok", "chain:recycle-panic") \cup
  (IF e.snd.src_out # "ok" THEN {} ELSE
   CV(\A j \in 1..Len(e.snd.outs) : e.snd.outs[j] # "panic", "chain:builder-add-panic") \cup
   CV(OkNess(e.snd.outs) = OkNess(tg.outs), "chain:builder-add-outcome") \cup
   (IF OkNess(e.snd.outs) # OkNess(tg.outs) THEN {} ELSE
    CD(e.snd.outs = tg.outs, "chain:builder-error-class") \cup
    CV(WrittenOK(e.snd.wi), "chain:built-snapshot-not-written-or-not-readable") \cup
    CV(CheckRegistry(B).ok, "chain:built-snapshot-registry-ill-formed") \cup
    (IF ~CheckRegistry(B).ok THEN {} ELSE
     \* the user's view is the spec's (numbering aside); a recycled builder still knows the UUID types
     ObsIsX(e.snd.obs, [Expect(B, e.probes) EXCEPT !.view = View(tg.s),
                                                     !.look = Expect(tg.s, e.probes).look], "chain:built") \cup
     CV(st.src.k = "fresh" \/ KeepsTypes(e.snd.wi, Reg(H0[st.src.j])), "chain:recycled-builder-forgot-uuid-types") \cup
     CD(e.snd.wi.v = WireInts(tg.s), "chain:built-wire-ints-differ"))))
ChainBuiltRaw(e, tg, B) ==
  CV(\A j \in 1..Len(e.snd.outs) : e.snd.outs[j] # "panic", "chain:builder-add-panic") \cup
  CD(OkNess(e.snd.outs) = OkNess(tg.outs), "chain:raw-builder-add-outcome") \cup
  (IF OkNess(e.snd.outs) # OkNess(tg.outs) THEN {} ELSE
   CD(e.snd.outs = tg.outs, "chain:builder-error-class") \cup
   CV(e.snd.wi.out = "ok" /\ e.snd.wi.v = WireInts(tg.s), "chain:snapshot-wire-ints-differ-from-format") \cup
   CV(e.snd.crc = Crc(tg.s), "chain:checksum-of-built-snapshot"))

\* the DDNet reference on the step: its integers of the target, its delta by the format, and its
\* delta applied by the real code to the snapshot obtained from the *previous reference deltas*
ChainRef(e, A, B, RX, osz) ==
  IF ~Has(e, "ref") THEN {} ELSE
  CV(e.ref.wb = WireInts(B), "chain:reference-snapshot-ints-differ") \cup
  (IF e.ref.dw_out # "ok" THEN {<<"D", "chain:reference-delta-capacity">>} ELSE
   LET rpd == IF e.ref.dw = <<>> THEN [ok |-> TRUE, d |-> EmptyDelta, warn |-> {}] ELSE ParseDelta(e.ref.dw, FALSE, osz)
       rap == Apply(A, rpd.d)
   IN CV(rpd.ok, "chain:reference-delta-unreadable-by-format") \cup
      (IF ~rpd.ok THEN {} ELSE CV(rap.ok /\ SameSnap(rap.s, B), "chain:reference-delta-does-not-yield-target-by-format")) \cup
      (IF ~Has(e, "r_ref") \/ ~RX.has \/ ~SameSnap(RX.s, A) THEN {} ELSE
       CV(e.r_ref.read = "ok" /\ e.r_ref.apply = "ok", "chain:reference-delta-read-" \o e.r_ref.read \o (IF Has(e.r_ref, "apply") THEN "-apply-" \o e.r_ref.apply ELSE "")) \cup
       (IF e.r_ref.read # "ok" \/ e.r_ref.apply # "ok" THEN {} ELSE
        CV(ItemsAre(e.r_ref.res.items, B), "chain:reference-delta-result-differs-from-target") \cup
        CV(e.r_ref.res.crc = Crc(B), "chain:reference-delta-checksum-differs") \cup
        CV(e.r_ref.res_wi.out = "ok" /\ e.r_ref.res_wi.v = e.ref.wb, "chain:reference-delta-result-serialises-differently-from-reference"))))

\* one step: complaints and the next state of the judge
ChainStep(e) ==
  LET H0 == IF e.n = 1 THEN <<EmptySnap>> ELSE hist
      S0 == IF e.n = 1 THEN <<EmptySnap>> ELSE store
      R0 == IF e.n = 1 THEN << [has |-> TRUE, s |-> EmptySnap] >> ELSE rstore
      L0 == IF e.n = 1 THEN NoLast ELSE last
      st == e.step
      same(cs) == [cs |-> cs, hist |-> H0, store |-> S0, rstore |-> R0, last |-> L0]
  IN
  IF Has(e, "bad_index") \/ st.rb > Len(S0) \/ (st.k # "again" /\ st.sb > Len(H0))
  THEN same({<<"D", "chain:step-refers-to-a-forgotten-snapshot">>}) ELSE
  IF st.k = "again" THEN
    LET X == S0[st.rb]
        rc == e.rcv
        stored == rc.stored
    IN [cs |-> (IF rc.read = "none" THEN CD(~L0.some, "chain:again-without-a-delta") ELSE ChainOutOfSync(e, rc, X, L0) \cup ChainAlloc(rc)),
        hist |-> H0,
        store |-> IF stored THEN Forget(Append(S0, KeptOf(rc))) ELSE S0,
        rstore |-> IF stored THEN ForgetR(Append(R0, [has |-> FALSE, s |-> EmptySnap])) ELSE R0,
        last |-> L0]
  ELSE
    LET tg == Target(H0, st)
        \* the target as the real sender wrote it out (at level "snap" the numbering is the code's)
        B == IF Has(e.snd, "wi") /\ WrittenOK(e.snd.wi) THEN Written(e.snd.wi) ELSE tg.s
        A == H0[st.sb]
        X == S0[st.rb]
        osz == OszOf(st.osz)
        built == IF e.lvl = "snap" THEN ChainBuiltSnap(e, H0, tg, B) ELSE ChainBuiltRaw(e, tg, B)
        H1 == Forget(Append(H0, B))
    IN
    IF e.lvl = "snap" /\ e.snd.src_out # "ok" THEN same(built) ELSE
    LET contract == Compatible(A, B) /\ Writable(Delta(A, B), osz) IN
    IF ~Has(e, "contract") THEN same(built) ELSE
    IF ~e.contract \/ ~contract THEN
      [cs |-> built \cup CD(e.contract = contract, "chain:contract-verdict-differs") \cup {<<"D", "chain:step-outside-the-contract-of-create-or-write">>},
       hist |-> H1, store |-> S0, rstore |-> R0, last |-> L0]
    ELSE IF e.create # "ok" THEN
      [cs |-> built \cup {<<"V", "chain:create-panic">>}, hist |-> H1, store |-> S0, rstore |-> R0, last |-> L0]
    ELSE
    LET isb == Has(e, "dwb")
        wrote == e.dw.out = "ok" /\ (~isb \/ e.dwb.out = "ok")
        pd == IF e.dw.out = "ok" THEN ParseDelta(e.dw.v, FALSE, osz) ELSE Err("none")
        ap == IF pd.ok THEN Apply(A, pd.d) ELSE Err("none")
        wire == CV(wrote, "chain:delta-write-" \o e.dw.out \o (IF isb THEN "-" \o e.dwb.out ELSE "")) \cup
                (IF ~wrote THEN {} ELSE
                 CV(pd.ok, "chain:delta-wire-unreadable-by-format") \cup
                 (IF ~pd.ok THEN {} ELSE
                  CV(pd.warn = {}, "chain:delta-wire-warning-by-format") \cup
                  CV(ap.ok /\ ap.warn = {} /\ SameSnap(ap.s, B), "chain:delta-wire-does-not-yield-target-by-format")) \cup
                 CV(~isb \/ Len(e.dwb.v) > ByteCheckMax \/ DecodeAll(e.dwb.v) = [ints |-> e.dw.v, tail |-> FALSE], "chain:delta-bytes-differ-from-delta-ints") \cup
                 CD(e.dw.v = DeltaWire(Delta(A, B), osz), "chain:delta-wire-form-differs"))
    IN
    IF ~Has(e, "rcv") THEN [cs |-> built \cup wire, hist |-> H1, store |-> S0, rstore |-> R0, last |-> L0] ELSE
    LET rc == e.rcv
        sync == SameSnap(X, A)
        L1 == IF rc.read = "ok" THEN [some |-> pd.ok, d |-> IF pd.ok THEN pd.d ELSE EmptyDelta] ELSE NoLast
        recv == IF sync THEN ChainInSync(e, rc, B) ELSE ChainOutOfSync(e, rc, X, L1)
        stored == rc.stored
        rnew == IF Has(e, "r_ref") /\ e.r_ref.read = "ok" /\ Has(e.r_ref, "apply") /\ e.r_ref.apply = "ok"
                THEN [has |-> TRUE, s |-> SnapOfItems(e.r_ref.res.items)] ELSE [has |-> FALSE, s |-> EmptySnap]
    IN [cs |-> built \cup wire \cup recv \cup ChainAlloc(rc) \cup
               (IF e.lvl = "raw" /\ st.rb <= Len(R0) THEN ChainRef(e, A, B, R0[st.rb], osz) ELSE {}),
        hist |-> H1,
        store |-> IF stored THEN Forget(Append(S0, KeptOf(rc))) ELSE S0,
        rstore |-> IF stored THEN ForgetR(Append(R0, rnew)) ELSE R0,
        last |-> L1]

\* ------------------------------------------------------------------ op "api" (public helpers of snap.rs / format.rs)
SeqAll(s, P(_)) == \A j \in 1..Len(s) : P(s[j])
JudgeApi(e) ==
  LET S == SnapOfItems(e.items)                       \* needs distinct keys; duplicates: the first stays
      rb == RawBuild(e.items)
      R == rb.b.raw
      osz == OszOf(e.osz)
      osz2 == OszOf(e.osz2)
      bb == BAddAll(NewBuilder, e.adds)
      SS == bb.b.raw
  IN
  \* key helpers
  UNION {LET k == e.keys[j] o == e.keys_out[j] IN
         CV(~Has(o, "panic"), "api:key-helper-panic") \cup
         (IF Has(o, "panic") THEN {} ELSE
          CD(o.key = KeyInt(<<k[1], k[2]>>) /\ o.t = k[1] /\ o.i = k[2] /\ o.rk = o.key /\ o.fk = <<k[1], k[2]>>, "api:key-helpers"))
         : j \in 1..Len(e.keys)} \cup
  UNION {LET x == e.kints[j] o == e.kints_out[j] IN
         CV(~Has(o, "panic"), "api:key-helper-panic") \cup
         (IF Has(o, "panic") THEN {} ELSE CD(<<o.t, o.i>> = KeyOfInt(x) /\ o.back = x, "api:key-helpers-of-integer"))
         : j \in 1..Len(e.kints)} \cup
  \* UUID <-> item data
  UNION {LET d == e.udata[j] o == e.udata_out[j] IN
         CV(~Has(o, "panic"), "api:uuid-helper-panic") \cup
         (IF Has(o, "panic") THEN {} ELSE
          CD(o.some = (Len(d) >= 4), "api:item-data-to-uuid-verdict") \cup
          (IF ~o.some \/ Len(d) < 4 THEN {} ELSE
           CD(o.bytes = UuidBytes(d) /\ o.back = UuidOf(d) /\ o.ty = UuidOf(d), "api:uuid-item-data-round-trip") \cup
           CD((ToSet(o.warn) = {"ExcessUuidItemData"}) = (Len(d) > 4) /\ ToSet(o.warn) \subseteq {"ExcessUuidItemData"}, "api:uuid-warning")))
         : j \in 1..Len(e.udata)} \cup
  \* item deltas
  UNION {LET p == e.dpairs[j] o == e.dpairs_out[j]
             a == IF Has(p, "a") THEN Some(p.a) ELSE None
             x == ItemDiff(a, p.b)
             y == ItemPatch(a, p.b)
         IN
         CV(o.create # "panic" /\ o.patch # "panic" /\ (~Has(o, "apply") \/ o.apply # "panic"), "api:item-delta-panic") \cup
         CD(x.ok = (o.create = "ok") /\ y.ok = (o.patch = "ok"), "api:item-delta-verdict") \cup
         (IF ~x.ok \/ o.create # "ok" THEN {} ELSE
          CD(o.delta = x.d, "api:create-item-delta") \cup
          CD(Has(o, "apply") /\ o.apply = "ok" /\ o.out = p.b, "api:apply-of-created-item-delta")) \cup
         (IF ~y.ok \/ o.patch # "ok" THEN {} ELSE CD(o.patched = y.d, "api:apply-item-delta"))
         : j \in 1..Len(e.dpairs)} \cup
  \* header codecs
  (IF ~Has(e, "hdr_out") THEN {} ELSE
   LET h == e.hdr_out
       sh == SnapHeaderOf(e.hw)
       dh == DeltaHeaderOf(e.hw)
       snapis(o) == CV(o.out # "panic", "api:snap-header-panic") \cup
                    CD((o.out = "ok") = sh.ok, "api:snap-header-verdict") \cup
                    (IF o.out = "ok" /\ sh.ok THEN CD(o.data_size = sh.data_size /\ o.num_items = sh.num_items, "api:snap-header-fields")
                     ELSE IF o.out # "ok" /\ ~sh.ok THEN CD(o.out = sh.e, "api:snap-header-error-class") ELSE {})
       deltais(o) == CV(o.out # "panic", "api:delta-header-panic") \cup
                     CD((o.out = "ok") = dh.ok, "api:delta-header-verdict") \cup
                     (IF o.out = "ok" /\ dh.ok THEN CD(o.nd = dh.nd /\ o.nu = dh.nu /\ NoPacker(o.warn) = dh.warn, "api:delta-header-fields")
                      ELSE IF o.out # "ok" /\ ~dh.ok THEN CD(o.out = dh.e, "api:delta-header-error-class") ELSE {})
   IN snapis(h.snap_obj) \cup snapis(h.snap_bytes) \cup deltais(h.delta_obj) \cup deltais(h.delta_bytes) \cup
      CD(DecodeAll(h.bytes) = [ints |-> e.hw, tail |-> FALSE], "api:packer-encoding-of-integers") \cup
      (IF ~Has(h, "enc_obj") THEN {} ELSE
       CD(h.enc_obj = <<e.hw[1], e.hw[2], 0>>, "api:delta-header-encode-obj") \cup
       CV(h.enc_bytes.out # "panic", "api:delta-header-encode-panic") \cup
       CD(h.enc_bytes.out = "ok" /\ DecodeAll(h.enc_bytes.v) = [ints |-> <<e.hw[1], e.hw[2], 0>>, tail |-> FALSE], "api:delta-header-encode"))) \cup
  \* the raw snapshot
  (LET r == e.raw IN
   CD(OkNess(r.outs) = OkNess(rb.outs), "api:raw-builder-add-outcome") \cup
   (IF OkNess(r.outs) # OkNess(rb.outs) THEN {} ELSE
    CD(r.outs = rb.outs, "api:raw-builder-error-class") \cup
    CV(r.enum_out = "ok" /\ r.look_out = "ok", "api:raw-enumeration-or-lookup-panic") \cup
    (IF r.enum_out # "ok" \/ r.look_out # "ok" THEN {} ELSE
     LET order == [j \in 1..Len(r.enum.order) |-> <<r.enum.order[j][1], r.enum.order[j][2]>>]
         n == Cardinality(DOMAIN R)
     IN CV(ToSet(order) = DOMAIN R /\ Len(order) = n, "api:raw-enumerated-keys-differ") \cup
        CD(order = SignedKeySeq(DOMAIN R), "api:raw-enumeration-order") \cup
        CD(r.enum.lens = [j \in 1..(n + 1) |-> n + 1 - j], "api:raw-announced-lengths") \cup
        CD(r.enum.hints = [j \in 1..(n + 1) |-> <<n + 1 - j, n + 1 - j>>], "api:raw-size-hints") \cup
        CD(r.look = [j \in 1..Len(e.probe) |-> RawLookup(R, e.probe[j][1], e.probe[j][2])], "api:raw-lookup")) \cup
    CV(r.crc = Crc(R), "api:checksum") \cup
    CV(r.wi.out = "ok" /\ r.wi.v = WireInts(R), "api:snapshot-wire-ints-differ-from-format") \cup
    CV(r.wb.out = "ok" /\ (Len(r.wb.v) > ByteCheckMax \/ DecodeAll(r.wb.v) = [ints |-> WireInts(R), tail |-> FALSE]), "api:snapshot-wire-bytes-differ-from-format") \cup
    (IF ~Has(r, "short_ints") THEN {} ELSE
     CV(r.short_ints # "panic" /\ r.short_bytes # "panic" /\ r.exact_ints.out # "panic", "api:write-into-short-buffer-panic") \cup
     CD(r.short_ints = "capacity" /\ r.short_bytes = "capacity", "api:short-buffer-not-refused") \cup
     CD(r.exact_ints.out = "ok" /\ r.exact_ints.v = WireInts(R), "api:exact-buffer-refused")) \cup
    CV(r.recycled_out = "ok", "api:raw-recycle-panic") \cup
    (IF r.recycled_out # "ok" THEN {} ELSE
     LET rv == RawBuild([j \in 1..Len(e.items) |-> e.items[Len(e.items) + 1 - j]])
     IN CD(OkNess(r.recycled.outs) = OkNess(rv.outs) /\ r.recycled.wi.out = "ok" /\ r.recycled.wi.v = WireInts(rv.b.raw), "api:recycled-raw-builder")) \cup
    CD(r.empty_finish = [out |-> "ok", v |-> <<0, 0>>] /\ r.empty = [out |-> "ok", v |-> <<0, 0>>], "api:empty-raw-snapshot"))) \cup
  \* one delta, several size tables
  (LET d == e.delta
       D == Delta(EmptySnap, R)
   IN CV(d.create = "ok", "api:create-panic") \cup
      (IF d.create # "ok" \/ OkNess(e.raw.outs) # OkNess(rb.outs) THEN {} ELSE
       CD(d.fits1 = Writable(D, osz) /\ d.fits2 = Writable(D, osz2), "api:writable-verdict") \cup
       (IF ~Has(d, "w1") THEN {} ELSE
        CV(d.w1.out = "ok", "api:delta-write-" \o d.w1.out) \cup
        (IF d.w1.out # "ok" THEN {} ELSE
         CD(d.w1.v = DeltaWire(D, osz), "api:delta-wire-form-differs") \cup
         AppliedIs(d.r11, R, "api:table-1") \cup
         CV(d.r12.read # "panic" /\ (~Has(d.r12, "apply") \/ d.r12.apply # "panic"), "api:delta-read-with-another-table-panic") \cup
         (LET px == ParseDelta(d.w1.v, FALSE, osz2) IN
          CD(px.ok = (d.r12.read = "ok"), "api:delta-read-with-another-table-verdict")))) \cup
       (IF ~Has(d, "w2") THEN {} ELSE
        CV(d.w2.out = "ok" /\ d.w2b.out = "ok", "api:delta-write-" \o d.w2.out \o "-" \o d.w2b.out) \cup
        (IF d.w2.out # "ok" \/ d.w2b.out # "ok" THEN {} ELSE
         CD(d.w2.v = DeltaWire(D, osz2), "api:delta-wire-form-differs") \cup
         CV(Len(d.w2b.v) > ByteCheckMax \/ DecodeAll(d.w2b.v) = [ints |-> d.w2.v, tail |-> FALSE], "api:delta-bytes-differ-from-delta-ints") \cup
         AppliedIs(d.r22, R, "api:table-2"))) \cup
       CV(d.clear = "ok", "api:clear-panic") \cup
       CD(d.cleared = [out |-> "ok", v |-> <<0, 0, 0>>] /\ d.new = [out |-> "ok", v |-> <<0, 0, 0>>], "api:cleared-delta"))) \cup
  \* the Snap level
  (LET sn == e.snap
       probes == [j \in 1..Len(e.sprobe) |-> [ty |-> e.sprobe[j][1], i |-> e.sprobe[j][2]]]
       x == Expect(SS, probes)
   IN CV(\A j \in 1..Len(sn.outs) : sn.outs[j] # "panic", "api:builder-add-panic") \cup
      CV(OkNess(sn.outs) = OkNess(bb.outs), "api:builder-add-outcome") \cup
      (IF OkNess(sn.outs) # OkNess(bb.outs) THEN {} ELSE
       CV(sn.enum_out = "ok" /\ sn.look_out = "ok", "api:panic-in-items-item") \cup
       (IF sn.enum_out # "ok" \/ sn.look_out # "ok" THEN {} ELSE
        LET n == Cardinality(DOMAIN x.view)
            order == [j \in 1..Len(sn.enum.order) |-> <<sn.enum.order[j].ty, sn.enum.order[j].i>>]
            \* the order of the signed key of the raw items behind the view
            vk == SelectSeq(SignedKeySeq(DOMAIN SS), LAMBDA k : k[1] # TypeEx)
        IN CV(Len(sn.enum.order) = n /\ SameSnap(ViewOfItems(sn.enum.order), x.view), "api:enumerated-items-differ") \cup
           CV(sn.enum.lens = [j \in 1..(n + 1) |-> n + 1 - j], "api:announced-length-differs") \cup
           CD(sn.enum.hints = [j \in 1..(n + 1) |-> <<n + 1 - j, n + 1 - j>>], "api:size-hints") \cup
           CD(order = [j \in 1..Len(vk) |-> <<TypeOfRaw(SS, vk[j][1]), vk[j][2]>>], "api:enumeration-order") \cup
           CV(sn.look = x.look, "api:lookup-differs")) \cup
       CV(sn.crc = x.crc, "api:checksum-differs") \cup
       CD(sn.wi.out = "ok" /\ sn.wi.v = WireInts(SS), "api:wire-ints-differ") \cup
       CD(sn.empty_finish = [out |-> "ok", v |-> <<0, 0>>] /\ sn.empty = [out |-> "ok", v |-> <<0, 0>>] /\ sn.empty_n = 0, "api:empty-snapshot") \cup
       CD(\A j \in 1..Len(e.adds) : sn.tyconv[j].from = e.adds[j].ty, "api:type-id-conversion")))

Judge(e) ==
  CASE e.op = "pair" -> JudgePair(e)
    [] e.op = "snap" -> JudgeSnap(e)
    [] e.op = "parse" -> IF e.kind \in {"si", "sb"} THEN JudgeParseSnap(e) ELSE JudgeParseDelta(e)
    [] e.op = "api" -> JudgeApi(e)
    [] OTHER -> {<<"V", "unknown-event">>}

IsV(c) == c[1] = "V"

Init == i = 0 /\ nv = 0 /\ hist = <<EmptySnap>> /\ store = <<EmptySnap>> /\ rstore = << [has |-> TRUE, s |-> EmptySnap] >> /\ last = NoLast
Tell(cs) == /\ \A c \in cs : PrintT(<<"COMPLAINT", i + 1, c[1], c[2]>>)
            /\ nv' = nv + Cardinality({c \in cs : IsV(c)})
            /\ (i + 1 = Len(Rec) => TLCSet(7, nv'))
Next == /\ i < Len(Rec)
        /\ i' = i + 1
        /\ LET e == Rec[i + 1] IN
           IF e.op = "chain"
           THEN LET x == ChainStep(e) IN
                /\ Tell(x.cs)
                /\ hist' = x.hist /\ store' = x.store /\ rstore' = x.rstore /\ last' = x.last
           ELSE /\ Tell(Judge(e))
                /\ UNCHANGED <<hist, store, rstore, last>>
Spec == Init /\ [][Next]_vars

ASSUME TLCSet(7, -1)
\* accepted iff every event was consumed and no property-level complaint was raised
Post == IF TLCGet("stats").diameter - 1 = Len(Rec) /\ (Len(Rec) = 0 \/ TLCGet(7) = 0)
        THEN TRUE
        ELSE PrintT(<<"TRACE REJECTED", "consumed", TLCGet("stats").diameter - 1, "of", Len(Rec),
                      "violations", TLCGet(7)>>)
=============================================================================
