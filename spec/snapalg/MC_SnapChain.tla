---------------------------- MODULE MC_SnapChain ----------------------------
(***************************************************************************)
(* Small universes for SnapChain: TLC explores every chain of a family up   *)
(* to ChainLen steps, checks the chain laws in every state                   *)
(* (MC_Chain<Fam>_laws.cfg) and exports every complete chain as a test      *)
(* vector for the real objects (MC_Chain<Fam>_exp.cfg, piped into           *)
(* `vh-snapalg run`): every transition of the model is replayed.            *)
(*   RawQuick / RawThorough    (C09) in-sync chains of raw snapshots         *)
(*   SnapQuick / SnapThorough  (C10) in-sync chains through Builder / Snap   *)
(*   WrongQuick / WrongThorough (C11) wrong bases, the same delta twice      *)
(***************************************************************************)
EXTENDS SnapChain, Json

CONSTANTS Fam, ChainLen

ItemsOf(S) == LET ks == SortedKeys(S) IN [j \in 1..Len(ks) |-> [t |-> ks[j][1], i |-> ks[j][2], d |-> S[ks[j]]]]
\* insertion order of the builder: order of the unsigned key, or its reverse
ItemsIn(S, rev) == LET s == ItemsOf(S) IN IF rev THEN [j \in 1..Len(s) |-> s[Len(s) + 1 - j]] ELSE s
OszPairs(osz) == LET ts == SetToSeq(DOMAIN osz) IN [j \in 1..Len(ts) |-> <<ts[j], osz[ts[j]]>>]
OszSmall == (1 :> 1) @@ (2 :> 2) @@ (3 :> 3)
OszZero == (1 :> 1) @@ (6 :> 0) @@ (3 :> 3)
OszNone == [t \in {} |-> 0]
OszSnap == (5 :> 1)

Absent == [p |-> FALSE, d |-> <<>>]
Present(d) == [p |-> TRUE, d |-> d]
MkSnap(keys, os) == [k \in {keys[j] : j \in {jj \in 1..Len(keys) : os[jj].p}} |->
                       os[CHOOSE j \in 1..Len(keys) : keys[j] = k].d]

\* ---- how the real objects are handled (no meaning in the spec)
Mode(via, rr, bld, reuse, back) == [via |-> via, rr |-> rr, bld |-> bld, reuse |-> reuse, back |-> back]
M1 == Mode("ints", "no", "fresh", "none", 0)
M2 == Mode("bytes", "no", "recycle", "prev", 0)
M3 == Mode("ints", "ints", "recycle", "prev", 1)
M4 == Mode("bytes", "bytes", "fresh", "prev", 0)
M5 == Mode("ints", "bytes", "recycle", "none", 1)
ModeVecs == << <<M1, M1, M1, M1>>, <<M2, M2, M2, M2>>, <<M3, M4, M3, M2>>, <<M4, M3, M5, M3>> >>

N == Len(log) + 1                                \* number of the step about to be taken
Mvi == IF N = 1 THEN {} ELSE {log[1].mv}         \* the chain keeps the mode vector of its first step

\* ------------------------------------------------------------------ raw chains (C09)
\* pre-agreed size 1 (type 1), explicit sizes 0 / 2 beyond the signed-key boundary: an item of an
\* explicit-size type is deleted and comes back with another size (never changes size in place:
\* contract of Delta::create), items are added, removed, changed and untouched along the chain
RKq == << <<1, 7>>, <<32769, 65535>> >>
RawTargetsQ == {MkSnap(RKq, <<a, b>>) : a \in {Absent, Present(<<5>>), Present(<<MIN>>)},
                                       b \in {Absent, Present(<<>>), Present(<<MAX, -1>>)}}
RKt == << <<1, 7>>, <<32769, 65535>>, <<6, 3>>, <<4, 0>> >>
RawTargetsT == {MkSnap(RKt, <<a, b, z, e>>) : a \in {Absent, Present(<<5>>), Present(<<MIN>>)},
                                             b \in {Absent, Present(<<>>), Present(<<MAX, -1>>)},
                                             z \in {Absent, Present(<<>>)},
                                             e \in {Absent, Present(<<1>>)}}
RawStep(B, mvi, osz) ==
  LET m == ModeVecs[mvi][N]
      sb == IF m.back = 1 /\ Len(hist) >= 2 THEN Len(hist) - 1 ELSE Len(hist)
  IN [k |-> "next", lvl |-> "raw", items |-> ItemsIn(B, N % 2 = 0), sb |-> sb, rb |-> sb, osz |-> OszPairs(osz),
      via |-> m.via, reread |-> m.rr, bld |-> m.bld, reuse |-> m.reuse, mv |-> mvi]
OptsRawQuick == {RawStep(B, mvi, OszSmall) : B \in (IF N = 1 THEN RawTargetsQ \ {EmptySnap} ELSE RawTargetsQ), mvi \in (IF N = 1 THEN {3, 4} ELSE Mvi)}
OptsRawThorough == {RawStep(B, mvi, OszZero) : B \in RawTargetsT, mvi \in (IF N = 1 THEN {1, 3, 4} ELSE Mvi)}

\* ------------------------------------------------------------------ snap chains (C10)
U1 == <<1, -1, MIN, MAX>>
U2 == <<1, -1, MIN, 0>>
U3 == <<0, 0, 0, 0>>
DataAt(n) == CASE n = 1 -> <<7>> [] n = 2 -> <<MIN>> [] n = 3 -> <<-1>> [] OTHER -> <<7>>
AO(n) == [ty |-> <<5>>, i |-> 0, d |-> DataAt(n)]
A1(n) == [ty |-> U1, i |-> 0, d |-> DataAt(n)]
A2(n) == [ty |-> U2, i |-> 65535, d |-> DataAt(n)]
A3(n) == [ty |-> U3, i |-> 1, d |-> DataAt(n)]
\* UUID types appear, disappear and come back (with a fresh builder: under another number)
AddsQ(n) == {<<>>, <<A1(n)>>, <<A2(n), A1(n)>>, <<A1(n), AO(n), A2(n)>>}
AddsT(n) == AddsQ(n) \cup {<<AO(n)>>, <<A2(n)>>, <<A3(n), A2(n), A1(n)>>, <<A1(n), A1(n)>>}
\* where the builder comes from: fresh, recycled from the previous snapshot, or an older snapshot
\* object recycled with the numbering of the previous one (recycle_like)
SrcsAt == IF N = 1 THEN {[k |-> "fresh"]}
          ELSE IF N = 2 THEN {[k |-> "fresh"], [k |-> "recycle", j |-> Len(hist)]}
          ELSE {[k |-> "fresh"], [k |-> "recycle", j |-> Len(hist)], [k |-> "like", j |-> Len(hist), o |-> Len(hist) - 1]} \cup
               (IF Fam = "SnapQuick" THEN {} ELSE {[k |-> "recycle", j |-> Len(hist) - 1]})
SnapStep(adds, src, mvi) ==
  LET m == ModeVecs[mvi][N]
      sb == IF m.back = 1 /\ Len(hist) >= 2 THEN Len(hist) - 1 ELSE Len(hist)
  IN [k |-> "next", lvl |-> "snap", src |-> src, adds |-> adds, sb |-> sb, rb |-> sb, osz |-> OszPairs(OszSnap),
      via |-> m.via, reread |-> m.rr, bld |-> "fresh", reuse |-> m.reuse, mv |-> mvi]
\* one mode vector per chain, chosen by the first step's content (keeps the family small)
OptsSnapQuick == {SnapStep(a, s, mvi) : a \in AddsQ(N), s \in SrcsAt,
                                       mvi \in (IF N = 1 THEN {3} ELSE Mvi)}
OptsSnapThorough == {SnapStep(a, s, mvi) : a \in AddsT(N), s \in SrcsAt,
                                          mvi \in (IF N = 1 THEN {2, 3, 4} ELSE Mvi)}

\* ------------------------------------------------------------------ wrong bases (C11)
\* every base the receiver holds, for every delta; the same delta once more
WKq == << <<1, 7>>, <<32769, 65535>> >>
WrongTargetsQ == {MkSnap(WKq, <<a, b>>) : a \in {Absent, Present(<<5>>)},
                                         b \in {Absent, Present(<<>>), Present(<<MAX, -1>>)}}
WrongStep(B, rb, mvi) ==
  LET m == ModeVecs[mvi][N]
  IN [k |-> "next", lvl |-> "raw", items |-> ItemsIn(B, N % 2 = 0), sb |-> Len(hist), rb |-> rb, osz |-> OszPairs(OszSmall),
      via |-> m.via, reread |-> m.rr, bld |-> m.bld, reuse |-> m.reuse, mv |-> mvi]
AgainStep(rb, mvi) == [k |-> "again", rb |-> rb, reuse |-> ModeVecs[mvi][N].reuse, reread |-> ModeVecs[mvi][N].rr, mv |-> mvi]
OptsWrong(targets, mvs) ==
  LET mv == IF N = 1 THEN mvs ELSE Mvi IN
  {WrongStep(B, rb, mvi) : B \in targets, rb \in 1..Len(store), mvi \in mv} \cup
  (IF N = 1 THEN {} ELSE {AgainStep(rb, mvi) : rb \in 1..Len(store), mvi \in mv})
OptsWrongQuick == OptsWrong(WrongTargetsQ \ {EmptySnap}, {3})
OptsWrongThorough == OptsWrong(RawTargetsQ, {2, 3})

Opts == CASE Fam = "RawQuick" -> OptsRawQuick
          [] Fam = "RawThorough" -> OptsRawThorough
          [] Fam = "SnapQuick" -> OptsSnapQuick
          [] Fam = "SnapThorough" -> OptsSnapThorough
          [] Fam = "WrongQuick" -> OptsWrongQuick
          [] Fam = "WrongThorough" -> OptsWrongThorough

ChainNext == /\ Len(log) < ChainLen
             /\ \E st \in Opts : Do(st)

\* every complete chain is one test vector
ExportChain == Len(log) < ChainLen \/ PrintT(<<"C", ToJson([op |-> "chain", steps |-> log])>>)
\* counted by the check: wrong results nothing tells the caller about / wrong bases that do no harm
CountUndetected == ~Undetected \/ PrintT(<<"UNDETECTED", Len(log)>>)
CountHarmless == ~Harmless \/ PrintT(<<"HARMLESS", Len(log)>>)
CountWrong == (res.k = "none" \/ res.sync) \/ PrintT(<<"OUTOFSYNC", res.k, IF res.r.ok THEN "ok" ELSE res.r.e>>)
=============================================================================
