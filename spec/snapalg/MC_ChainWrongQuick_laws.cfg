INIT ChainInit
NEXT ChainNext
CONSTANTS
  MaxItems = 1024
  MaxSize = 65536
  Fam = "WrongQuick"
  ChainLen = 3
CHECK_DEADLOCK FALSE
INVARIANTS
  SyncLaw
  ChainWireLaw
  ParallelLaw
  WrongBaseLaw
  AgainLaw
  SnapLevelLaw
  CountUndetected
  CountHarmless
  CountWrong
PROPERTIES
  StoreStable
