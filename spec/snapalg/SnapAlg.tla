---------------------------- MODULE SnapAlg ----------------------------
(***************************************************************************)
(* Snapshot algebra and wire formats of libtw2 (properties C09, C10, C11). *)
(*                                                                         *)
(* Transcribed from doc/snapshot.md and snapshot/src/{snap,format}.rs:     *)
(*   - a snapshot is a partial function  <<type, id>> -> Seq(Int32)        *)
(*   - checksum, integer wire form, byte wire form (variable-length ints)  *)
(*   - the snapshot parser with its error alphabet and limits              *)
(*   - delta algebra: Delta, Apply; delta wire form with pre-agreed and    *)
(*     explicit item sizes; the delta parser with errors and warnings      *)
(*   - the UUID type registry (type-0 items): View, Lookup, Recycle and    *)
(*     the builder                                                         *)
(* Format-shape spec: everything is an operator; the modules MC_*.tla      *)
(* enumerate small universes and check the algebraic laws; SnapAlgTrace    *)
(* judges events recorded from the real code with the same operators.      *)
(*                                                                         *)
(* TLC integers are 32 bit and trap on overflow: all arithmetic on item    *)
(* data is wrapping arithmetic on 16-bit limbs.                            *)
(***************************************************************************)
EXTENDS Integers, Sequences, FiniteSets, TLC, SequencesExt, FiniteSetsExt, Functions

CONSTANTS MaxItems,   \* 1024 in the code (MAX_SNAPSHOT_ITEMS)
          MaxSize     \* 65536 in the code (MAX_SNAPSHOT_SIZE), bytes of the integer wire form

\* ------------------------------------------------------------------ 32-bit wrapping arithmetic
MIN == -2147483647 - 1
MAX == 2147483647
Hi(a) == IF a >= 0 THEN a \div 65536 ELSE -(((-(a + 1)) \div 65536) + 1)
Lo(a) == a - Hi(a) * 65536
Join(h, l) == LET hh == ((h + 32768) % 65536) - 32768
              IN IF hh = -32768 /\ l = 0 THEN MIN ELSE hh * 65536 + l
WrapAdd(a, b) == LET l == Lo(a) + Lo(b) IN Join(Hi(a) + Hi(b) + l \div 65536, l % 65536)
WrapSub(a, b) == LET l == Lo(a) - Lo(b) + 65536 IN Join(Hi(a) - Hi(b) - 1 + l \div 65536, l % 65536)
IsI32(x) == x \in Int /\ MIN <= x /\ x <= MAX

\* ------------------------------------------------------------------ keys and snapshots
\* key <<t, i>>, both 0..65535; on the wire (t << 16 | i) as a signed 32-bit integer
KeyInt(k) == Join(IF k[1] >= 32768 THEN k[1] - 65536 ELSE k[1], k[2])
KeyOfInt(x) == LET h == Hi(x) IN <<IF h < 0 THEN h + 65536 ELSE h, Lo(x)>>
KeyLess(a, b) == a[1] < b[1] \/ (a[1] = b[1] /\ a[2] < b[2])          \* unsigned key order
EmptySnap == [k \in {} |-> <<>>]

\* Sorted key sequence. TLC enumerates a set of integer pairs in exactly this order, which
\* is checked (cheaply) before it is used; otherwise the keys are sorted explicitly.
SortedKeySeq(K) == LET s == SetToSeq(K)
                   IN IF \A i \in 1..(Len(s) - 1) : KeyLess(s[i], s[i + 1]) THEN s ELSE SortSeq(s, KeyLess)
SortedKeys(S) == SortedKeySeq(DOMAIN S)
\* the order of a BTreeMap<i32, _>: keys with type >= 0x8000 are negative and come first
SignedKeySeq(K) == LET s == SortedKeySeq(K)
                   IN SelectSeq(s, LAMBDA k : k[1] >= 32768) \o SelectSeq(s, LAMBDA k : k[1] < 32768)

NumInts(S) == FoldLeft(LAMBDA acc, k : acc + Len(S[k]), 0, SortedKeys(S))
SizeOf(n, ints) == 4 * (2 + 2 * n + ints)              \* bytes of the integer wire form
SnapSize(S) == SizeOf(Cardinality(DOMAIN S), NumInts(S))
WithinLimits(S) == Cardinality(DOMAIN S) <= MaxItems /\ SnapSize(S) <= MaxSize

\* checksum: wrapping sum of all data integers. The 16-bit limbs are summed separately (at most
\* 16384 integers fit a snapshot, so neither sum leaves the 32-bit range) and joined at the end;
\* CrcSlow is the definition, CrcFast is what is evaluated on long inputs (equal: MC_*_laws).
CrcSlow(S) == FoldLeft(LAMBDA acc, k : FoldLeft(WrapAdd, acc, S[k]), 0, SortedKeys(S))
CrcFast(S) == LET r == FoldLeft(LAMBDA acc, k : FoldLeft(LAMBDA a, x : LET h == Hi(x) IN [h |-> a.h + h, l |-> a.l + (x - h * 65536)],
                                                       acc, S[k]),
                              [h |-> 0, l |-> 0], SortedKeys(S))
              IN Join(r.h + r.l \div 65536, r.l % 65536)
Crc(S) == IF NumInts(S) <= 16384 THEN CrcFast(S) ELSE CrcSlow(S)

\* Long sequences are accumulated as ropes (blocks of at most 256 elements): appending to a long
\* TLC tuple copies it, which makes a plain fold with Append quadratic.
RopeNew == [bs |-> <<>>, cur |-> <<>>]
RopePush(r, x) == IF Len(r.cur) >= 256 THEN [bs |-> Append(r.bs, r.cur), cur |-> <<x>>]
                  ELSE [bs |-> r.bs, cur |-> Append(r.cur, x)]
RopePushAll(r, seq) == FoldLeft(RopePush, r, seq)
RopeSeq(r) == FoldLeft(LAMBDA acc, b : acc \o b, <<>>, r.bs) \o r.cur
Norm(S) == [k \in DOMAIN S |-> S[k] \o <<>>]
SameSnap(S, T) == DOMAIN S = DOMAIN T /\ \A k \in DOMAIN S : S[k] = T[k]

\* ------------------------------------------------------------------ integer wire form
\* data_size, num_items, offsets (bytes), items (key, data...) in unsigned key order
WireInts(S) ==
  LET ks == SortedKeys(S)
      offs == FoldLeft(LAMBDA acc, k : [o |-> RopePush(acc.o, acc.n), n |-> acc.n + 4 * (1 + Len(S[k]))],
                       [o |-> RopeNew, n |-> 0], ks)
      items == FoldLeft(LAMBDA acc, k : RopePushAll(RopePush(acc, KeyInt(k)), S[k]), RopeNew, ks)
  IN <<offs.n, Len(ks)>> \o RopeSeq(offs.o) \o RopeSeq(items)

Err(e) == [ok |-> FALSE, e |-> e]

\* RawSnap::read_from_ints: total, sequential (the first failing check decides the error)
ParseInts(w) ==
  IF Len(w) < 1 THEN Err("UnexpectedEnd") ELSE
  IF w[1] < 0 THEN Err("IntOutOfRange") ELSE
  IF Len(w) < 2 THEN Err("UnexpectedEnd") ELSE
  IF w[2] < 0 THEN Err("IntOutOfRange") ELSE
  LET n == w[2]
      rest == Len(w) - 2
  IN
  IF rest < n THEN Err("OffsetsUnpacking") ELSE
  IF w[1] % 4 # 0 THEN Err("InvalidOffset") ELSE
  LET m == w[1] \div 4 IN
  IF m > rest - n THEN Err("ItemsUnpacking") ELSE
  LET off(i) == IF i <= n THEN w[2 + i] ELSE 4 * m           \* i = n + 1: end sentinel
      item(j) == w[2 + n + j]                                \* j-th integer of the item area
      step(acc, i) ==
        IF acc.e # "" THEN acc ELSE
        LET o == off(i) IN
        IF i <= n /\ (o < 0 \/ o % 4 # 0) THEN [acc EXCEPT !.e = "InvalidOffset"] ELSE
        LET q == o \div 4 IN
        IF i = 1 THEN (IF q # 0 THEN [acc EXCEPT !.e = "InvalidOffset"] ELSE acc) ELSE
        IF q <= acc.prev \/ q > m THEN [acc EXCEPT !.e = "InvalidOffset"] ELSE
        LET k == KeyOfInt(item(acc.prev + 1))
            d == SubSeq(w, 2 + n + acc.prev + 2, 2 + n + q)
        IN IF k \in DOMAIN acc.s THEN [acc EXCEPT !.e = "DuplicateKey"] ELSE
           IF acc.cnt + 1 > MaxItems THEN [acc EXCEPT !.e = "TooManyItems"] ELSE
           IF SizeOf(acc.cnt + 1, acc.ints + Len(d)) > MaxSize THEN [acc EXCEPT !.e = "TooLongSnap"] ELSE
           [e |-> "", prev |-> q, s |-> (k :> d) @@ acc.s, cnt |-> acc.cnt + 1, ints |-> acc.ints + Len(d)]
      r == FoldLeft(step, [e |-> "", prev |-> 0, s |-> EmptySnap, cnt |-> 0, ints |-> 0],
                    [i \in 1..(n + 1) |-> i])
  IN IF r.e # "" THEN Err(r.e)
     ELSE [ok |-> TRUE, s |-> r.s, warn |-> IF n + m < rest THEN {"ExcessSnapData"} ELSE {}]

\* ------------------------------------------------------------------ byte wire form (variable-length ints)
\* ESDD_DDDD EDDD_DDDD EDDD_DDDD EDDD_DDDD PPPP_DDDD  (packer/src/lib.rs)
RECURSIVE EncTail(_)
EncTail(r) == IF r = 0 THEN <<>> ELSE <<(r % 128) + (IF r \div 128 > 0 THEN 128 ELSE 0)>> \o EncTail(r \div 128)
EncInt(v) == LET s == IF v < 0 THEN 1 ELSE 0
                 u == IF v < 0 THEN -(v + 1) ELSE v                     \* v XOR -sign, 0..MAX
             IN <<(u % 64) + 64 * s + (IF u \div 64 > 0 THEN 128 ELSE 0)>> \o EncTail(u \div 64)
EncodeAll(ints) == RopeSeq(FoldLeft(LAMBDA acc, v : RopePushAll(acc, EncInt(v)), RopeNew, ints))

P2(i) == CASE i = 0 -> 64 [] i = 1 -> 8192 [] i = 2 -> 1048576 [] i = 3 -> 134217728
\* value of a completed integer from its bytes (1..5 of them), as the real decoder computes it
DecValue(bs) ==
  LET sign == (bs[1] \div 64) % 2
      low == FoldLeft(LAMBDA acc, i : acc + (IF i = 1 THEN bs[1] % 64 ELSE (bs[i] % 128) * P2(i - 2)),
                      0, [i \in 1..(IF Len(bs) > 4 THEN 4 ELSE Len(bs)) |-> i])
      h5 == IF Len(bs) = 5 THEN bs[5] % 32 ELSE 0
      r == IF h5 >= 16 THEN low + (h5 - 32) * 134217728 ELSE low + h5 * 134217728
  IN IF sign = 1 THEN (-1) - r ELSE r
\* all integers of a byte string; `tail`: the string ends inside an integer
DecodeAll(b) ==
  LET step(acc, x) ==
        LET cur == Append(acc.cur, x) IN
        IF x < 128 \/ Len(cur) = 5 THEN [out |-> RopePush(acc.out, DecValue(cur)), cur |-> <<>>]
        ELSE [out |-> acc.out, cur |-> cur]
      r == FoldLeft(step, [out |-> RopeNew, cur |-> <<>>], b)
  IN [ints |-> RopeSeq(r.out), tail |-> r.cur # <<>>]

WireBytes(S) == EncodeAll(WireInts(S))
\* RawSnap::read: every complete integer is decoded first; an incomplete one only warns
ParseBytes(b) == LET d == DecodeAll(b) p == ParseInts(d.ints)
                 IN IF p.ok /\ d.tail THEN [p EXCEPT !.warn = @ \cup {"ExcessSnapData"}] ELSE p

\* ------------------------------------------------------------------ delta algebra
\* a delta: deleted keys + for every key of the target either the wrapping difference
\* (same key present before, same length) or the new data
Delta(A, B) == LET da == DOMAIN A IN
               [del |-> da \ DOMAIN B,
                upd |-> [k \in DOMAIN B |->
                           LET b == B[k] IN
                           IF k \notin da THEN b ELSE
                           LET a == A[k] IN
                           IF Len(a) = Len(b) THEN [j \in 1..Len(b) |-> WrapSub(b[j], a[j])] ELSE b]]
EmptyDelta == [del |-> {}, upd |-> EmptySnap]

\* RawSnap::read_with_delta: undeleted items of A are copied, then the updates are applied in
\* the order of the signed key. An update of an item of A needs the same length (the doc: "the
\* new size must be the same as the old size"); the result obeys the snapshot limits.
Apply(A, D) ==
  LET kept == DOMAIN A \ D.del
      nk == Cardinality(kept)
      ik == FoldLeft(LAMBDA acc, k : IF k \in kept THEN acc + Len(A[k]) ELSE acc, 0, SortedKeys(A))
      step(acc, k) ==
        IF acc.e # "" THEN acc ELSE
        IF k \in kept THEN
          (IF Len(A[k]) # Len(D.upd[k]) THEN [acc EXCEPT !.e = "DeltaDifferingSizes"] ELSE acc)
        ELSE
          IF acc.cnt + 1 > MaxItems THEN [acc EXCEPT !.e = "TooManyItems"] ELSE
          IF SizeOf(acc.cnt + 1, acc.ints + Len(D.upd[k])) > MaxSize THEN [acc EXCEPT !.e = "TooLongSnap"] ELSE
          IF k \in DOMAIN A /\ Len(A[k]) # Len(D.upd[k]) THEN [acc EXCEPT !.e = "DeltaDifferingSizes"] ELSE
          [e |-> "", cnt |-> acc.cnt + 1, ints |-> acc.ints + Len(D.upd[k])]
      r == FoldLeft(step, [e |-> "", cnt |-> nk, ints |-> ik], SignedKeySeq(DOMAIN D.upd))
      du == DOMAIN D.upd
      da == DOMAIN A
  IN IF r.e # "" THEN Err(r.e)
     ELSE [ok |-> TRUE,
           s |-> [k \in kept \cup du |->
                    IF k \notin du THEN A[k] ELSE
                    LET u == D.upd[k] IN
                    IF k \notin da THEN u ELSE
                    LET a == A[k] IN [j \in 1..Len(a) |-> WrapAdd(a[j], u[j])]],
           warn |-> IF D.del \subseteq DOMAIN A THEN {} ELSE {"UnknownDelete"}]

\* ------------------------------------------------------------------ delta wire form
\* osz: function type -> pre-agreed item length (the types outside its domain carry their length)
\* header (deleted, updated, 0), deleted keys, updates (type, id, [size], data...) both in the
\* order of the signed key (BTreeSet/BTreeMap<i32>)
DeltaWire(D, osz) ==
  LET dk == SignedKeySeq(D.del)
      uk == SignedKeySeq(DOMAIN D.upd)
  IN <<Len(dk), Len(uk), 0>> \o [i \in 1..Len(dk) |-> KeyInt(dk[i])] \o
     RopeSeq(FoldLeft(LAMBDA acc, k : RopePushAll(RopePushAll(acc, <<k[1], k[2]>> \o
                                          (IF k[1] \in DOMAIN osz THEN <<>> ELSE <<Len(D.upd[k])>>)), D.upd[k]),
              RopeNew, uk))
\* what Delta::write requires of its caller
Writable(D, osz) == \A k \in DOMAIN D.upd : k[1] \in DOMAIN osz => Len(D.upd[k]) = osz[k[1]]

\* Delta::read / read_from_ints on the integers `w`; tail: the byte string ended inside an integer
ParseDelta(w, tail, osz) ==
  IF Len(w) < 1 THEN Err("UnexpectedEnd") ELSE
  IF w[1] < 0 THEN Err("IntOutOfRange") ELSE
  IF Len(w) < 2 THEN Err("UnexpectedEnd") ELSE
  IF w[2] < 0 THEN Err("IntOutOfRange") ELSE
  IF Len(w) < 3 THEN Err("UnexpectedEnd") ELSE
  LET nd == w[1]
      L == Len(w)
  IN
  IF nd > L - 3 THEN Err("DeletedItemsUnpacking") ELSE
  LET delseq == [i \in 1..nd |-> KeyOfInt(w[3 + i])]
      del == ToSet(delseq)
      p0 == 4 + nd
      \* one fold over the positions; work is done at the positions where an update starts
      step(acc, i) ==
        IF acc.e # "" \/ i # acc.next THEN acc ELSE
        IF i + 1 > L THEN [acc EXCEPT !.e = "ItemDiffsUnpacking"] ELSE
        LET t == w[i]
            id == w[i + 1]
        IN
        IF t < 0 \/ t > 65535 THEN [acc EXCEPT !.e = "TypeIdRange"] ELSE
        IF id < 0 \/ id > 65535 THEN [acc EXCEPT !.e = "IdRange"] ELSE
        LET pre == t \in DOMAIN osz IN
        IF ~pre /\ i + 2 > L THEN [acc EXCEPT !.e = "ItemDiffsUnpacking"] ELSE
        LET sz == IF pre THEN osz[t] ELSE w[i + 2]
            ds == IF pre THEN i + 2 ELSE i + 3               \* first data position
        IN
        IF sz < 0 THEN [acc EXCEPT !.e = "NegativeSize"] ELSE
        IF sz > L - (ds - 1) THEN [acc EXCEPT !.e = "ItemDiffsUnpacking"] ELSE
        LET k == <<t, id>> IN
        \* in case of a repeated key the later update wins
        [e |-> "", next |-> ds + sz, n |-> acc.n + 1,
         upd |-> (k :> SubSeq(w, ds, ds + sz - 1)) @@ acc.upd,
         warn |-> acc.warn \cup (IF k \in DOMAIN acc.upd THEN {"DuplicateUpdate"} ELSE {})
                           \cup (IF k \in del THEN {"DeleteUpdate"} ELSE {})]
      r == FoldLeft(step, [e |-> "", next |-> p0, n |-> 0, upd |-> EmptySnap, warn |-> {}],
                    [j \in 1..(L - p0 + 1) |-> p0 + j - 1])
  IN IF r.e # "" THEN Err(r.e) ELSE
     IF tail THEN Err("ItemDiffsUnpacking") ELSE
     [ok |-> TRUE,
      d |-> [del |-> del, upd |-> r.upd],
      warn |-> r.warn \cup (IF w[3] # 0 THEN {"NonZeroPadding"} ELSE {})
                      \cup (IF Cardinality(del) # nd THEN {"DuplicateDelete"} ELSE {})
                      \cup (IF r.n # w[2] THEN {"NumUpdatedItems"} ELSE {})]
ParseDeltaBytes(b, osz) == LET d == DecodeAll(b) IN ParseDelta(d.ints, d.tail, osz)

\* ------------------------------------------------------------------ UUID type registry
\* A UUID-identified type is represented by an item of type 0 whose id is the number assigned
\* to the type in this snapshot (>= 0x4000) and whose data is the UUID (four big-endian ints).
\* User-visible type ids: <<t>> (ordinal, 0 < t < 0x4000) or <<a, b, c, d>> (UUID).
TypeEx == 0
OffsetExt == 16384
RegKeys(S) == {k \in DOMAIN S : k[1] = TypeEx}
UuidOf(d) == SubSeq(d, 1, 4)
\* Snap::build_from_raw: one pass in the order of the signed key
CheckRegistry(S) ==
  LET step(acc, k) ==
        IF acc.e # "" THEN acc ELSE
        IF k[1] = TypeEx THEN
          (IF Len(S[k]) < 4 THEN [acc EXCEPT !.e = "InvalidUuidType"] ELSE
           IF UuidOf(S[k]) \in acc.seen THEN [acc EXCEPT !.e = "DuplicateUuidType"] ELSE
           [acc EXCEPT !.seen = @ \cup {UuidOf(S[k])}])
        ELSE IF k[1] >= OffsetExt /\ <<TypeEx, k[1]>> \notin DOMAIN S THEN [acc EXCEPT !.e = "MissingUuidType"]
        ELSE acc
      r == FoldLeft(step, [e |-> "", seen |-> {}], SignedKeySeq(DOMAIN S))
  IN IF r.e # "" THEN Err(r.e)
     ELSE [ok |-> TRUE, warn |-> IF \E k \in RegKeys(S) : Len(S[k]) > 4 THEN {"ExcessUuidItemData"} ELSE {}]
\* UUID -> assigned number (needs CheckRegistry(S).ok)
Reg(S) == FoldLeft(LAMBDA acc, k : (UuidOf(S[k]) :> k[2]) @@ acc, EmptySnap, SortedKeySeq(RegKeys(S)))
\* what Snap::items() enumerates: registry items hidden, numbers >= 0x4000 replaced by their UUID
TypeOfRaw(S, t) == IF t < OffsetExt THEN <<t>> ELSE UuidOf(S[<<TypeEx, t>>])
ViewKeys(S) == {k \in DOMAIN S : k[1] # TypeEx}
View(S) == FoldLeft(LAMBDA acc, k : (<<TypeOfRaw(S, k[1]), k[2]>> :> S[k]) @@ acc, EmptySnap,
                    SortedKeySeq(ViewKeys(S)))
None == [some |-> FALSE, d |-> <<>>]
Some(d) == [some |-> TRUE, d |-> d]
RawLookup(S, t, id) == IF <<t, id>> \in DOMAIN S THEN Some(S[<<t, id>>]) ELSE None
\* Snap::item(type_id, id)
LookupR(S, reg, ty, id) == IF Len(ty) = 1 THEN RawLookup(S, ty[1], id)
                           ELSE IF ty \in DOMAIN reg THEN RawLookup(S, reg[ty], id) ELSE None
Lookup(S, ty, id) == LookupR(S, Reg(S), ty, id)

\* ---- builder: [raw, reg, next, cnt, ints]  (cnt / ints: number of items / data integers of raw)
BuilderOf(raw, reg, next) == [raw |-> raw, reg |-> reg, next |-> next,
                              cnt |-> Cardinality(DOMAIN raw), ints |-> NumInts(raw)]
NewBuilder == BuilderOf(EmptySnap, EmptySnap, OffsetExt)
\* RawSnap::add_item on the raw snapshot of builder b: "" or the error
RawAddErr(b, k, d) ==
  IF k \in DOMAIN b.raw THEN "DuplicateKey" ELSE
  IF b.cnt + 1 > MaxItems THEN "TooManyItems" ELSE
  IF SizeOf(b.cnt + 1, b.ints + Len(d)) > MaxSize THEN "TooLongSnap" ELSE ""
RawAdded(b, k, d) == [b EXCEPT !.raw = (k :> d) @@ @, !.cnt = @ + 1, !.ints = @ + Len(d)]
\* Builder::add_item; result [b, out]; out = "ok" or the error; "Refused": the call is outside
\* what the builder can express (no free type number in 0x4000..0x7fff)
BAdd(b, ty, id, d) ==
  IF Len(ty) = 1 \/ ty \in DOMAIN b.reg THEN
    LET k == <<IF Len(ty) = 1 THEN ty[1] ELSE b.reg[ty], id>>
        e == RawAddErr(b, k, d)
    IN IF e = "" THEN [b |-> RawAdded(b, k, d), out |-> "ok"] ELSE [b |-> b, out |-> e]
  ELSE IF b.next < OffsetExt \/ b.next >= 32768 THEN [b |-> b, out |-> "Refused"]
  ELSE
    LET e1 == RawAddErr(b, <<TypeEx, b.next>>, ty) IN
    IF e1 # "" THEN [b |-> b, out |-> e1] ELSE
    LET b1 == [RawAdded(b, <<TypeEx, b.next>>, ty) EXCEPT !.reg = (ty :> b.next) @@ @, !.next = @ + 1]
        k == <<b.next, id>>
        e2 == RawAddErr(b1, k, d)
    IN IF e2 = "" THEN [b |-> RawAdded(b1, k, d), out |-> "ok"] ELSE [b |-> b1, out |-> e2]
\* adds: sequence of [ty, i, d]; result: builder and the sequence of outcomes
BAddAll(b0, adds) ==
  FoldLeft(LAMBDA acc, a : LET r == BAdd(acc.b, a.ty, a.i, a.d)
                           IN [b |-> r.b, outs |-> Append(acc.outs, r.out)],
           [b |-> b0, outs |-> <<>>], adds)

\* Snap::recycle (of a snapshot whose registry is well-formed): the builder keeps exactly the
\* registry; numbering continues after the used numbers. Only numbers a builder can assign
\* (0x4000..0x7fff) count, in ascending order; a number more than 255 above the running maximum
\* or in the topmost 256 is not counted ("space for at least 256 additional extended types").
RecycleNext(S) ==
  FoldLeft(LAMBDA nx, k : IF k[2] < nx + 256 /\ k[2] + 256 < 32768 THEN k[2] + 1 ELSE nx, OffsetExt,
           SortedKeySeq({k \in RegKeys(S) : k[2] >= OffsetExt /\ k[2] < 32768}))
Recycle(S) ==
  LET reg == Reg(S) IN
  BuilderOf([k \in {<<TypeEx, reg[u]>> : u \in DOMAIN reg} |-> UuidOf(S[k])], reg, RecycleNext(S))

\* ------------------------------------------------------------------ small public helpers (format.rs)
\* create_item_delta / apply_item_delta: a is None or Some(old data)
ItemDiff(a, b) == IF ~a.some THEN [ok |-> TRUE, d |-> b] ELSE
                  IF Len(a.d) # Len(b) THEN Err("DeltaDifferingSizes")
                  ELSE [ok |-> TRUE, d |-> [j \in 1..Len(b) |-> WrapSub(b[j], a.d[j])]]
ItemPatch(a, u) == IF ~a.some THEN [ok |-> TRUE, d |-> u] ELSE
                   IF Len(a.d) # Len(u) THEN Err("DeltaDifferingSizes")
                   ELSE [ok |-> TRUE, d |-> [j \in 1..Len(u) |-> WrapAdd(a.d[j], u[j])]]
\* SnapHeader::decode_obj / DeltaHeader::decode_obj on the integers w (decode: on the complete
\* integers of a byte string)
SnapHeaderOf(w) ==
  IF Len(w) < 1 THEN Err("UnexpectedEnd") ELSE
  IF w[1] < 0 THEN Err("IntOutOfRange") ELSE
  IF Len(w) < 2 THEN Err("UnexpectedEnd") ELSE
  IF w[2] < 0 THEN Err("IntOutOfRange") ELSE [ok |-> TRUE, data_size |-> w[1], num_items |-> w[2]]
DeltaHeaderOf(w) ==
  IF Len(w) < 1 THEN Err("UnexpectedEnd") ELSE
  IF w[1] < 0 THEN Err("IntOutOfRange") ELSE
  IF Len(w) < 2 THEN Err("UnexpectedEnd") ELSE
  IF w[2] < 0 THEN Err("IntOutOfRange") ELSE
  IF Len(w) < 3 THEN Err("UnexpectedEnd") ELSE
  [ok |-> TRUE, nd |-> w[1], nu |-> w[2], warn |-> IF w[3] # 0 THEN {"NonZeroPadding"} ELSE {}]
\* the four bytes of an integer, most significant first (UUIDs are four big-endian integers)
BeBytes(x) == LET h == Hi(x)
                  hu == IF h < 0 THEN h + 65536 ELSE h
                  l == Lo(x)
              IN <<hu \div 256, hu % 256, l \div 256, l % 256>>
UuidBytes(d) == BeBytes(d[1]) \o BeBytes(d[2]) \o BeBytes(d[3]) \o BeBytes(d[4])
=========================================================================
