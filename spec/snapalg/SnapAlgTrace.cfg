SPECIFICATION Spec
CONSTANTS
  MaxItems = 1024
  MaxSize = 65536
  AllocC = 64
  AllocK = 65536
POSTCONDITION Post
CHECK_DEADLOCK FALSE
