---------------------------- MODULE MC_SnapAlg ----------------------------
(***************************************************************************)
(* Small universes for SnapAlg: TLC enumerates every case of a family as   *)
(* an initial state `c`, checks the algebraic laws of the family on it     *)
(* (INVARIANTS in *_laws.cfg) and exports it as a test vector for the real *)
(* code (Export in *_exp.cfg, piped into `vh-snapalg run`).                *)
(*   family pair    (C09): pairs of raw snapshots A, B                     *)
(*   family snap    (C10): builder call sequences with UUID types          *)
(*   family corrupt (C11): single-field corruptions / truncations of valid *)
(*                         snapshot and delta wire forms (ints and bytes)  *)
(*   family big     (C11, C09): cases at the real limits 1024 / 64 KiB     *)
(***************************************************************************)
EXTENDS SnapChainOps, Json

VARIABLE c
Next == UNCHANGED c

ItemsOf(S) == LET ks == SortedKeys(S) IN [j \in 1..Len(ks) |-> [t |-> ks[j][1], i |-> ks[j][2], d |-> S[ks[j]]]]
OszPairs(osz) == LET ts == SetToSeq(DOMAIN osz) IN [j \in 1..Len(ts) |-> <<ts[j], osz[ts[j]]>>]
Export == PrintT(<<"C", ToJson(c)>>)

\* pre-agreed sizes used with the small universes: type t has length t, for t = 1, 2, 3
OszSmall == (1 :> 1) @@ (2 :> 2) @@ (3 :> 3)
OszNone == [t \in {} |-> 0]
\* a size table with a pre-agreed size of 0 (a data-less marker type) next to non-zero sizes
OszZero == (1 :> 1) @@ (6 :> 0) @@ (3 :> 3)

\* ------------------------------------------------------------------ family pair
Absent == [p |-> FALSE, d |-> <<>>]
Present(d) == [p |-> TRUE, d |-> d]
Seqs(vals, n) == [1..n -> vals]
Vals5 == {0, 1, -1, MIN, MAX}
Vals3 == {0, -1, MIN}
Vals2 == {1, MAX}
\* options of one key (data of the allowed lengths), and compatible pairs of options
OptsOf(lens, vals) == {Absent} \cup {Present(d) : d \in UNION {Seqs(vals, n) : n \in lens}}
PairOpts(opts) == {<<a, b>> \in opts \X opts : a.p /\ b.p => Len(a.d) = Len(b.d)}
MkSnap(keys, os) == [k \in {keys[j] : j \in {jj \in 1..Len(keys) : os[jj].p}} |->
                       os[CHOOSE j \in 1..Len(keys) : keys[j] = k].d]
MkPair(keys, ps, osz) ==
  [op |-> "pair", A |-> ItemsOf(MkSnap(keys, [j \in 1..Len(keys) |-> ps[j][1]])),
   B |-> ItemsOf(MkSnap(keys, [j \in 1..Len(keys) |-> ps[j][2]])), osz |-> OszPairs(osz)]

\* quick: 3 keys: pre-agreed type 1 (length 1, five values), explicit type beyond the signed
\* boundary (lengths 0..2), explicit type 4 (length 0..1)
PKq == << <<1, 7>>, <<32769, 65535>>, <<4, 0>> >>
InitPairQuick ==
  \E p1 \in PairOpts(OptsOf({1}, Vals5)),
     p2 \in PairOpts(OptsOf({0, 1}, Vals3) \cup OptsOf({2}, {MAX})),
     p3 \in PairOpts(OptsOf({0, 1}, {1})) :
    c = MkPair(PKq, <<p1, p2, p3>>, OszSmall)
InitPairMedium ==
  \E p1 \in PairOpts(OptsOf({1}, Vals5)),
     p2 \in PairOpts(OptsOf({0, 1}, Vals3) \cup OptsOf({2}, Vals2)),
     p3 \in PairOpts(OptsOf({0, 1}, Vals2)) :
    c = MkPair(PKq, <<p1, p2, p3>>, OszSmall)
\* thorough: 4 keys, lengths 0..3, pre-agreed types 1 and 3, types 0x8000 / 0xffff
PKt == << <<1, 0>>, <<3, 65535>>, <<32768, 0>>, <<65535, 65535>> >>
InitPairThorough ==
  \E p1 \in PairOpts(OptsOf({1}, Vals5)),
     p2 \in PairOpts(OptsOf({3}, {MAX})),
     p3 \in PairOpts(OptsOf({0, 1}, Vals3)),
     p4 \in PairOpts(OptsOf({0, 1}, Vals2) \cup OptsOf({3}, {-1})) :
    c = MkPair(PKt, <<p1, p2, p3, p4>>, OszSmall)
\* no pre-agreed sizes at all (every item carries its length), two ids of the same type
PKn == << <<2, 0>>, <<2, 1>>, <<16384, 3>> >>
InitPairExplicit ==
  \E p1 \in PairOpts(OptsOf({0, 2}, Vals3)),
     p2 \in PairOpts(OptsOf({1}, Vals3)),
     p3 \in PairOpts(OptsOf({0, 1}, Vals3)) :
    c = MkPair(PKn, <<p1, p2, p3>>, OszNone)

\* pre-agreed size 0 (two ids of the data-less type 6, so that an update of it is followed by
\* another update, by an update of another type, or by the end of the delta), pre-agreed size 1,
\* explicit sizes 0 and 1 (type 4) in one table
PKz == << <<6, 3>>, <<6, 65535>>, <<1, 7>>, <<4, 0>> >>
InitPairZero ==
  \E p1 \in PairOpts(OptsOf({0}, {0})),
     p2 \in PairOpts(OptsOf({0}, {0})),
     p3 \in PairOpts(OptsOf({1}, {1, MIN})),
     p4 \in PairOpts(OptsOf({0, 1}, {1})) :
    c = MkPair(PKz, <<p1, p2, p3, p4>>, OszZero)

\* insertion order as a dimension: the items of A and of B are handed to the builder in every
\* order (the lists of the case are the insertion orders; the snapshot is their set). Keys on both
\* sides of the signed boundary, pre-agreed and explicit sizes; B changes some values, so kept,
\* changed, added and removed items occur in every order, additions before and after kept keys.
OKeys3 == {<<1, 7>>, <<4, 0>>, <<32769, 5>>}
OKeys4 == OKeys3 \cup {<<2, 2>>}
ODataA(k) == CASE k = <<1, 7>> -> <<5>> [] k = <<4, 0>> -> <<MAX>> [] k = <<32769, 5>> -> <<>> [] k = <<2, 2>> -> <<1, -1>>
ODataB(k) == CASE k = <<1, 7>> -> <<5>> [] k = <<4, 0>> -> <<MIN>> [] k = <<32769, 5>> -> <<>> [] k = <<2, 2>> -> <<0, MIN>>
OrderedSubsets(K) == UNION {SetToSeqs(sub) : sub \in SUBSET K}
OItems(ks, D(_)) == [j \in 1..Len(ks) |-> [t |-> ks[j][1], i |-> ks[j][2], d |-> D(ks[j])]]
InitPairOrderQuick ==
  \E ka \in OrderedSubsets(OKeys3), kb \in OrderedSubsets(OKeys3) :
    c = [op |-> "pair", A |-> OItems(ka, ODataA), B |-> OItems(kb, ODataB), osz |-> OszPairs(OszSmall)]
InitPairOrderThorough ==
  \E ka \in OrderedSubsets(OKeys4), kb \in OrderedSubsets(OKeys4) :
    c = [op |-> "pair", A |-> OItems(ka, ODataA), B |-> OItems(kb, ODataB), osz |-> OszPairs(OszSmall)]

\* C09 on the model
DeltaLaw == LET PA == SnapOfItems(c.A)
                PB == SnapOfItems(c.B)
                r == Apply(PA, Delta(PA, PB))
            IN r.ok /\ r.warn = {} /\ SameSnap(r.s, PB) /\ Crc(r.s) = Crc(PB)
DeltaWireLaw ==
  LET PA == SnapOfItems(c.A)
      PB == SnapOfItems(c.B)
      POsz == OszOf(c.osz)
      D == Delta(PA, PB)
      w == DeltaWire(D, POsz)
      p == ParseDelta(w, FALSE, POsz)
      pb == ParseDeltaBytes(EncodeAll(w), POsz)
  IN /\ Writable(D, POsz)
     /\ p.ok /\ p.warn = {} /\ p.d.del = D.del /\ SameSnap(p.d.upd, D.upd)
     /\ pb.ok /\ pb.warn = {} /\ pb.d.del = D.del /\ SameSnap(pb.d.upd, D.upd)
WireLaw == LET PA == SnapOfItems(c.A)
               p == ParseInts(WireInts(PA))
               pb == ParseBytes(WireBytes(PA))
           IN /\ p.ok /\ p.warn = {} /\ SameSnap(p.s, PA) /\ Crc(p.s) = Crc(PA) /\ CrcFast(PA) = CrcSlow(PA)
              /\ pb.ok /\ pb.warn = {} /\ SameSnap(pb.s, PA)
              /\ DecodeAll(WireBytes(PA)) = [ints |-> WireInts(PA), tail |-> FALSE]
\* a delta that leaves out unchanged items (as the DDNet reference does) also yields the target
SparseDelta(A, B) ==
  LET D == Delta(A, B)
      ch == {k \in DOMAIN D.upd : k \notin DOMAIN A \/ \E j \in 1..Len(D.upd[k]) : D.upd[k][j] # 0}
  IN [del |-> D.del, upd |-> [k \in ch |-> D.upd[k]]]
SparseDeltaLaw == LET PA == SnapOfItems(c.A)
                      PB == SnapOfItems(c.B)
                      r == Apply(PA, SparseDelta(PA, PB))
                  IN r.ok /\ SameSnap(r.s, PB)

\* ------------------------------------------------------------------ family snap
U1 == <<1, -1, MIN, MAX>>
U2 == <<1, -1, MIN, 0>>
U3 == <<0, 0, 0, 0>>
AddOpt(tys, ids, ds) == [ty : tys, i : ids, d : ds]
SnapCase(a, a2, probes) == [op |-> "snap", adds |-> a, adds2 |-> a2, probe |-> probes]
ProbesOf(tys, ids) == SetToSeq({<<ty, id>> : ty \in tys, id \in ids})
STq == {<<5>>, U1, U2}
SIq == {0, 65535}
SDq == {<<>>, <<MIN, 7>>}
InitSnapQuick ==
  \E a \in BoundedSeq(AddOpt(STq, SIq, SDq), 2), a2 \in BoundedSeq(AddOpt({<<5>>, U1, U3}, {0}, {<<3>>}), 2) :
    c = SnapCase(a, a2, ProbesOf(STq \cup {U3}, SIq))
InitSnapThorough ==
  \E a \in BoundedSeq(AddOpt(STq, SIq, SDq), 3), a2 \in BoundedSeq(AddOpt({<<5>>, U1, U2, U3}, {0}, {<<3>>}), 2) :
    c = SnapCase(a, a2, ProbesOf(STq \cup {U3}, SIq))

\* the user's view: the first successful add of every (type, id)
Expected(adds, outs) ==
  FoldLeft(LAMBDA f, j : IF outs[j] = "ok" THEN (<<adds[j].ty, adds[j].i>> :> adds[j].d) @@ f ELSE f,
           EmptySnap, [j \in 1..Len(adds) |-> j])
ProbeSet == {<<c.probe[j][1], c.probe[j][2]>> : j \in 1..Len(c.probe)}
ExpLookup(f, ty, id) == IF <<ty, id>> \in DOMAIN f THEN Some(f[<<ty, id>>]) ELSE None
LooksOf(T) == LET reg == Reg(T) IN [pr \in ProbeSet |-> LookupR(T, reg, pr[1], pr[2])]
\* C10 on the model
BuilderLaw == LET SB == BAddAll(NewBuilder, c.adds)
                  SS == SB.b.raw
                  q == CheckRegistry(SS)
                  exp == Expected(c.adds, SB.outs)
              IN /\ q.ok /\ q.warn = {}
                 /\ SameSnap(View(SS), exp)
                 /\ \A j \in 1..Len(c.adds) : SB.outs[j] \in {"ok", "DuplicateKey"}
                 /\ LooksOf(SS) = [pr \in ProbeSet |-> ExpLookup(exp, pr[1], pr[2])]
SerialLaw == LET SS == BAddAll(NewBuilder, c.adds).b.raw
                 p == ParseInts(WireInts(SS))
                 pb == ParseBytes(WireBytes(SS))
                 pd == Apply(EmptySnap, ParseDeltaBytes(EncodeAll(DeltaWire(Delta(EmptySnap, SS), OszNone)), OszNone).d)
                 v == View(SS)
                 crc == Crc(SS)
                 looks == LooksOf(SS)
             IN /\ p.ok /\ pb.ok /\ pd.ok
                /\ \A T \in {p.s, pb.s, pd.s} :
                     /\ CheckRegistry(T).ok
                     /\ SameSnap(View(T), v) /\ Crc(T) = crc
                     /\ LooksOf(T) = looks
RecycleLaw == LET SB == BAddAll(NewBuilder, c.adds)
                  SS == SB.b.raw
                  R == Recycle(SS)
                  T == BAddAll(R, c.adds2)
                  exp == Expected(c.adds2, T.outs)
                  rk == RegKeys(SS)
              IN /\ R.reg = SB.b.reg /\ R.next = SB.b.next          \* knows exactly the UUID types, continues numbering
                 /\ DOMAIN R.raw = rk /\ \A k \in rk : R.raw[k] = SS[k]
                 /\ CheckRegistry(T.b.raw).ok
                 /\ SameSnap(View(T.b.raw), exp)
                 /\ \A k \in rk : k \in DOMAIN T.b.raw /\ T.b.raw[k] = SS[k]   \* old numbers are kept
                 /\ LooksOf(T.b.raw) = [pr \in ProbeSet |-> ExpLookup(exp, pr[1], pr[2])]

\* ------------------------------------------------------------------ family snapbase (the copy obtained by applying a delta)
\* The delta leg of C10 starts from a base snapshot built by its own call sequence: the base has
\* more, fewer, the same or other UUID types than the target (UUID types appear and disappear,
\* also all of them). All items carry one integer, so that common keys agree on the length.
BaseCase(base, a, a2, probes) == [op |-> "snap", adds |-> a, adds2 |-> a2, probe |-> probes, base |-> base,
                                  copies |-> <<"delta">>]
BaseAdds2 == << [ty |-> U1, i |-> 1, d |-> <<3>>], [ty |-> U3, i |-> 0, d |-> <<1>>] >>
InitSnapBaseQuick ==
  \E b \in BoundedSeq(AddOpt(STq, {0}, {<<7>>}), 2), a \in BoundedSeq(AddOpt(STq, {0}, {<<MIN>>}), 2) :
    c = BaseCase(b, a, BaseAdds2, ProbesOf(STq \cup {U3}, {0, 1}))
InitSnapBaseThorough ==
  \E b \in BoundedSeq(AddOpt(STq, {0, 1}, {<<7>>}), 2), a \in BoundedSeq(AddOpt(STq, {0, 1}, {<<MIN>>}), 3) :
    c = BaseCase(b, a, BaseAdds2, ProbesOf(STq \cup {U3}, {0, 1}))
\* C10 "the same holds for snapshots obtained by applying a delta", on the model
BaseDeltaLaw ==
  LET A == BAddAll(NewBuilder, c.base).b.raw
      S == BAddAll(NewBuilder, c.adds).b.raw
      D == Delta(A, S)
      pd == ParseDeltaBytes(EncodeAll(DeltaWire(D, OszNone)), OszNone)
      r == Apply(A, pd.d)
  IN /\ \A k \in DOMAIN A \cap DOMAIN S : Len(A[k]) = Len(S[k])
     /\ pd.ok /\ pd.warn = {} /\ r.ok /\ r.warn = {}
     /\ SameSnap(r.s, S) /\ CheckRegistry(r.s).ok
     /\ Reg(r.s) = Reg(S) /\ SameSnap(View(r.s), View(S)) /\ Crc(r.s) = Crc(S)
     /\ LooksOf(r.s) = LooksOf(S)
     /\ Recycle(r.s) = Recycle(S)

\* ------------------------------------------------------------------ family snaplimit (builder at the limits)
\* The builder is filled so that r bytes (one filler item) or k items (empty filler items) of room
\* are left, for every r around the cost of a registry item (24 bytes), an empty item (8) and a
\* small item (12); then every short continuation of adds follows: a new UUID type, the same UUID
\* type again, another new UUID type, an ordinal item. The spec's rule: a refused add leaves the
\* builder unchanged (BAdd); a registered type whose item is refused stays registered.
Filler(r, v) == << [ty |-> <<5>>, i |-> 0, d |-> [j \in 1..((65520 - r) \div 4) |-> IF v = 0 THEN 0 ELSE IF j % 2 = 0 THEN MAX - j ELSE MIN + j]] >>
FillerItems(k) == [j \in 1..(1024 - k) |-> [ty |-> <<5>>, i |-> j - 1, d |-> <<>>]]
LimOps == {[ty |-> U1, i |-> 0, d |-> <<>>], [ty |-> U1, i |-> 1, d |-> <<7>>], [ty |-> U2, i |-> 0, d |-> <<>>],
           [ty |-> <<9>>, i |-> 0, d |-> <<>>]}
LimAdds2 == << [ty |-> U1, i |-> 2, d |-> <<>>], [ty |-> U3, i |-> 0, d |-> <<1>>] >>
LimProbes == ProbesOf({<<5>>, <<9>>, U1, U2, U3}, {0, 1})
LimCaseC(fill, cont, copies) == [op |-> "snap", adds |-> fill \o cont, adds2 |-> LimAdds2, probe |-> LimProbes, copies |-> copies]
LimCase(fill, cont) == LimCaseC(fill, cont, <<"built", "ints", "bytes">>)
\* quick: the byte form is read back in the size cases (one copy keeps the 64 KiB events small), both
\* forms in the item-count cases
LimOps3 == LimOps \ {[ty |-> <<9>>, i |-> 0, d |-> <<>>]}
InitSnapLimitQuick ==
  \/ \E r \in {8, 16, 24, 32}, cont \in BoundedSeq(LimOps3, 2) : c = LimCaseC(Filler(r, 0), cont, <<"built", "bytes">>)
  \/ \E cont \in {<< >>, << [ty |-> U1, i |-> 0, d |-> <<>>] >>} : c = LimCaseC(Filler(24, 1), cont, <<"built", "bytes">>)
  \/ \E k \in {1, 2}, cont \in BoundedSeq(LimOps3, 2) : c = LimCase(FillerItems(k), cont)
\* thorough, in two halves that are exported in parallel: (A) size limit, (B) maximal byte form and item limit
InitSnapLimitThoroughA ==
  \/ \E r \in {8, 16, 24, 32}, cont \in BoundedSeq(LimOps, 3) : c = LimCase(Filler(r, 0), cont)
  \/ \E r \in {0, 4, 12, 20, 28, 36, 40, 44, 56}, cont \in BoundedSeq(LimOps, 2) : c = LimCase(Filler(r, 0), cont)
InitSnapLimitThoroughB ==
  \/ \E r \in {0, 20, 24, 3280}, cont \in BoundedSeq(LimOps, 1) : c = LimCase(Filler(r, 1), cont)
  \/ \E k \in {1, 2}, cont \in BoundedSeq(LimOps, 3) : c = LimCase(FillerItems(k), cont)
  \/ \E k \in {0, 3, 4}, cont \in BoundedSeq(LimOps, 2) : c = LimCase(FillerItems(k), cont)
\* on the model: the registry stays well-formed, the limits hold, the view is what was accepted, refused
\* adds are errors of the limit kind, the integer form is read back equal
LimitLaw == LET SB == BAddAll(NewBuilder, c.adds)
                SS == SB.b.raw
                q == CheckRegistry(SS)
                p == ParseInts(WireInts(SS))
            IN /\ q.ok /\ WithinLimits(SS)
               /\ SameSnap(View(SS), Expected(c.adds, SB.outs))
               /\ \A j \in 1..Len(c.adds) : SB.outs[j] \in {"ok", "DuplicateKey", "TooLongSnap", "TooManyItems"}
               /\ \E j \in 1..Len(c.adds) : TRUE
               /\ DOMAIN Reg(SS) = DOMAIN SB.b.reg /\ SB.b.cnt = Cardinality(DOMAIN SS) /\ SB.b.ints = NumInts(SS)
               /\ p.ok /\ SameSnap(p.s, SS)
               /\ CheckRegistry(BAddAll(Recycle(SS), c.adds2).b.raw).ok

\* ------------------------------------------------------------------ family corrupt
Boundary == {-1, 0, 1, 2, 3, 4, 5, 8, 12, 16383, 16384, 32767, 32768, 65535, 65536, 1024, MIN, MAX}
ByteVals == {0, 64, 128, 255}
Replace(w, p, v) == [w EXCEPT ![p] = v]
\* every single-position replacement by a boundary value or by the value of another position, every
\* position +-4 (offsets) and +-1, every truncation, every single insertion of a copy
Corruptions(w) ==
  {w} \cup
  {Replace(w, p, v) : p \in 1..Len(w), v \in Boundary} \cup
  {Replace(w, p, w[q]) : p \in 1..Len(w), q \in 1..Len(w)} \cup
  {Replace(w, p, WrapAdd(w[p], dv)) : p \in 1..Len(w), dv \in {-4, -1, 1, 4}} \cup
  {SubSeq(w, 1, p) : p \in 0..(Len(w) - 1)} \cup
  {SubSeq(w, 1, p) \o <<w[p]>> \o SubSeq(w, p + 1, Len(w)) : p \in 1..Len(w)}
ByteCorruptions(b) ==
  {SubSeq(b, 1, p) : p \in 0..(Len(b) - 1)} \cup
  {Replace(b, p, v) : p \in 1..Len(b), v \in ByteVals}

\* base snapshots: ordinal + UUID types with registry, types beyond the signed boundary
CS1 == (<<0, 16384>> :> U1) @@ (<<0, 16385>> :> U2) @@ (<<5, 1>> :> <<7, -1>>) @@ (<<16384, 0>> :> <<9>>) @@ (<<16385, 65535>> :> <<>>)
CS2 == (<<1, 0>> :> <<5>>) @@ (<<4, 2>> :> <<MIN, MAX>>) @@ (<<32769, 3>> :> <<1>>) @@ (<<0, 32769>> :> U1)
CS3 == (<<2, 0>> :> <<1, 2>>) @@ (<<2, 1>> :> <<3, 4>>)
CAdds2 == << [ty |-> U1, i |-> 9, d |-> <<1>>], [ty |-> U3, i |-> 0, d |-> <<2, 3>>], [ty |-> <<5>>, i |-> 1, d |-> <<4>>] >>
COther == WireInts((<<5, 1>> :> <<0, 1>>) @@ (<<6, 6>> :> <<>>))
ParseSnapCase(kind, w) == [op |-> "parse", kind |-> kind, w |-> w, adds2 |-> CAdds2, other |-> COther]
InitCorruptSnap ==
  \E S \in {CS1, CS2, CS3, EmptySnap} :
    \/ \E w \in Corruptions(WireInts(S)) : c = ParseSnapCase("si", w)
    \/ \E b \in ByteCorruptions(WireBytes(S)) : c = ParseSnapCase("sb", b)
\* base deltas: (from, to, sizes)
CD1 == [a |-> CS2, b |-> (<<1, 0>> :> <<6>>) @@ (<<4, 2>> :> <<MIN, 0>>) @@ (<<7, 7>> :> <<1, 2, 3>>) @@ (<<0, 32769>> :> U1), osz |-> OszSmall]
CD2 == [a |-> CS3, b |-> (<<2, 1>> :> <<3, 5>>) @@ (<<3, 0>> :> <<0, 0, 1>>) @@ (<<9, 9>> :> <<>>), osz |-> OszSmall]
CD4 == [a |-> (<<6, 1>> :> <<>>) @@ (<<1, 0>> :> <<5>>),
        b |-> (<<6, 1>> :> <<>>) @@ (<<6, 2>> :> <<>>) @@ (<<1, 0>> :> <<6>>) @@ (<<9, 9>> :> <<>>) @@ (<<3, 3>> :> <<1, 2, 3>>),
        osz |-> OszZero]
CD3 == [a |-> CS1, b |-> CS1 @@ (<<0, 16386>> :> U3) @@ (<<16386, 1>> :> <<1>>), osz |-> OszNone]
ParseDeltaCase(kind, w, x) == [op |-> "parse", kind |-> kind, w |-> w, adds2 |-> CAdds2, base |-> WireInts(x.a), osz |-> OszPairs(x.osz)]
InitCorruptDelta ==
  \E x \in {CD1, CD2, CD3, CD4} :
    LET w0 == DeltaWire(Delta(x.a, x.b), x.osz) IN
    \/ \E w \in Corruptions(w0) : c = ParseDeltaCase("di", w, x)
    \/ \E b \in ByteCorruptions(EncodeAll(w0)) : c = ParseDeltaCase("db", b, x)

SnapErrors == {"UnexpectedEnd", "IntOutOfRange", "OffsetsUnpacking", "InvalidOffset", "ItemsUnpacking",
               "DuplicateKey", "TooManyItems", "TooLongSnap"}
RegErrors == {"InvalidUuidType", "DuplicateUuidType", "MissingUuidType"}
DeltaErrors == {"UnexpectedEnd", "IntOutOfRange", "DeletedItemsUnpacking", "ItemDiffsUnpacking",
                "TypeIdRange", "IdRange", "NegativeSize"}
ApplyErrors == {"TooManyItems", "TooLongSnap", "DeltaDifferingSizes"}
AcceptedOK(S) == /\ WithinLimits(S)
                 /\ LET p == ParseInts(WireInts(S)) pb == ParseBytes(WireBytes(S))
                    IN p.ok /\ SameSnap(p.s, S) /\ p.warn = {} /\ pb.ok /\ SameSnap(pb.s, S)
                 /\ LET q == CheckRegistry(S) IN IF q.ok THEN BAddAll(Recycle(S), c.adds2).outs \in Seq(STRING) ELSE q.e \in RegErrors
\* C11 on the model: the parsers are total, errors come from the alphabet, what is accepted obeys
\* the limits and is read back equal
TotalSnapLaw ==
  LET p == IF c.kind = "sb" THEN ParseBytes(c.w) ELSE ParseInts(c.w)
  IN IF p.ok THEN AcceptedOK(p.s) ELSE p.e \in SnapErrors
TotalDeltaLaw ==
  LET osz == OszOf(c.osz)
      p == IF c.kind = "db" THEN ParseDeltaBytes(c.w, osz) ELSE ParseDelta(c.w, FALSE, osz)
      base == ParseInts(c.base).s
  IN IF ~p.ok THEN p.e \in DeltaErrors ELSE
     /\ p.warn \subseteq {"NonZeroPadding", "DuplicateDelete", "DuplicateUpdate", "DeleteUpdate", "NumUpdatedItems"}
     /\ LET w2 == DeltaWire(p.d, osz) p2 == ParseDelta(w2, FALSE, osz)
        IN p2.ok /\ p2.d.del = p.d.del /\ SameSnap(p2.d.upd, p.d.upd)
     /\ LET ap == Apply(base, p.d) IN IF ap.ok THEN AcceptedOK(ap.s) ELSE ap.e \in ApplyErrors

\* hostile registries (C11 follow-up operations: recycle + add_item of a new UUID type): numbers
\* below 0x4000, above 0x7fff, climbing in steps of 255 up to 0x8000 / 0xffff, types beyond the
\* signed-key boundary next to taken numbers
RegChain(start, step, upto) == {start + step * j : j \in 0..((upto - start) \div step)}
RegSnap(ids, extra) == [k \in {<<TypeEx, id>> : id \in ids} |-> <<k[2], 0, 0, 0>>] @@ extra
RegCases ==
  {RegSnap({12}, EmptySnap), RegSnap({16383}, EmptySnap), RegSnap({16384, 16385}, EmptySnap),
   RegSnap({16384, 32768}, (<<32768, 0>> :> <<>>)), RegSnap({32767}, (<<32767, 1>> :> <<1>>)),
   RegSnap({65535}, (<<65535, 65535>> :> <<>>)), RegSnap({16384, 16700}, EmptySnap),
   RegSnap(RegChain(16639, 255, 32768) \cup {32768}, EmptySnap),
   RegSnap(RegChain(16639, 255, 32767), EmptySnap),
   RegSnap(RegChain(16639, 255, 65535) \cup {65535}, EmptySnap),
   RegSnap(RegChain(16384, 1, 16384 + 300), (<<16400, 0>> :> <<7>>))}
RegAdds2 == << [ty |-> U1, i |-> 9, d |-> <<1>>], [ty |-> U3, i |-> 0, d |-> <<2, 3>>], [ty |-> <<16384, 0, 0, 0>>, i |-> 1, d |-> <<>>] >>
InitRegistry ==
  \E S \in RegCases :
    \/ c = [op |-> "parse", kind |-> "si", w |-> WireInts(S), adds2 |-> RegAdds2, other |-> COther]
    \/ c = [op |-> "parse", kind |-> "sb", w |-> WireBytes(S), adds2 |-> RegAdds2, other |-> COther]
    \* the same snapshots arriving as a delta from the empty snapshot
    \/ c = [op |-> "parse", kind |-> "di", w |-> DeltaWire(Delta(EmptySnap, S), OszNone), adds2 |-> RegAdds2,
            other |-> COther, base |-> WireInts(EmptySnap), osz |-> <<>>]
RegistryLaw == IF c.kind = "di" THEN TotalDeltaLaw ELSE TotalSnapLaw

\* type numbers across the whole 16-bit range x {defined, undefined}: an item (in a snapshot) or an
\* update (in a delta) of type t with and without its type-definition item (0, t). An undefined type
\* >= 0x4000 is MissingUuidType for the whole range 0x4000..0xffff; whatever the code accepts goes
\* through the follow-up operations.
SweepTypes == {16383, 16384, 32767, 32768, 32769, 36864, 65535}
TSnap(t, def) == (<<5, 1>> :> <<7>>) @@ (<<t, 3>> :> <<1>>) @@ (IF def THEN (<<TypeEx, t>> :> U1) ELSE EmptySnap)
TBase == (<<5, 1>> :> <<7>>)
InitTypeSweep ==
  \E t \in SweepTypes, def \in BOOLEAN :
    LET S == TSnap(t, def) IN
    \/ c = [op |-> "parse", kind |-> "si", w |-> WireInts(S), adds2 |-> RegAdds2, other |-> COther, t |-> t, def |-> def]
    \/ c = [op |-> "parse", kind |-> "sb", w |-> WireBytes(S), adds2 |-> RegAdds2, other |-> COther, t |-> t, def |-> def]
    \/ c = [op |-> "parse", kind |-> "di", w |-> DeltaWire(Delta(TBase, S), OszSmall), adds2 |-> RegAdds2,
            other |-> COther, base |-> WireInts(TBase), osz |-> OszPairs(OszSmall), t |-> t, def |-> def]
    \/ c = [op |-> "parse", kind |-> "db", w |-> EncodeAll(DeltaWire(Delta(TBase, S), OszSmall)), adds2 |-> RegAdds2,
            other |-> COther, base |-> WireInts(TBase), osz |-> OszPairs(OszSmall), t |-> t, def |-> def]
TypeSweepLaw ==
  /\ (IF c.kind \in {"di", "db"} THEN TotalDeltaLaw ELSE TotalSnapLaw)
  /\ LET q == CheckRegistry(TSnap(c.t, c.def))
     IN IF c.def \/ c.t < OffsetExt THEN q.ok ELSE ~q.ok /\ q.e = "MissingUuidType"

\* object reuse: the objects the input is read into held another snapshot before (none, empty,
\* ordinal-only, one / two UUID types, larger); the result depends on the input only, so the laws
\* and the judge do not look at `prev`
PU1 == (<<TypeEx, 16384>> :> U2) @@ (<<16384, 0>> :> <<1>>)
Big6 == [k \in {<<5, id>> : id \in 0..5} |-> <<k[2], 1>>]
PrevSet == {<<>>, WireInts(EmptySnap), WireInts(CS3), WireInts(PU1), WireInts(CS1), WireInts(Big6)}
ReuseInputs == {EmptySnap, CS3, CS1, PU1, TSnap(32768, FALSE), (<<5, 1>> :> <<7>>)}
InitReuse ==
  \E prev \in PrevSet, S \in ReuseInputs :
    \/ c = [op |-> "parse", kind |-> "si", w |-> WireInts(S), adds2 |-> RegAdds2, other |-> COther, prev |-> prev]
    \/ c = [op |-> "parse", kind |-> "sb", w |-> WireBytes(S), adds2 |-> RegAdds2, other |-> COther, prev |-> prev]
    \/ c = [op |-> "parse", kind |-> "si", w |-> SubSeq(WireInts(S), 1, Len(WireInts(S)) - 1), adds2 |-> RegAdds2, other |-> COther, prev |-> prev]
    \/ c = [op |-> "parse", kind |-> "di", w |-> DeltaWire(Delta(CS1, S), OszNone), adds2 |-> RegAdds2,
            other |-> COther, base |-> WireInts(CS1), osz |-> <<>>, prev |-> prev]
ReuseLaw == IF c.kind = "di" THEN TotalDeltaLaw ELSE TotalSnapLaw
\* the same for the copies of C10
InitSnapReuse ==
  \E prev \in PrevSet, a \in BoundedSeq(AddOpt(STq, {0}, {<<7>>}), 2) :
    c = [op |-> "snap", adds |-> a, adds2 |-> BaseAdds2, probe |-> ProbesOf(STq \cup {U3}, {0, 1}), prev |-> prev]

\* ------------------------------------------------------------------ family api (public helpers; attached to C10)
\* key helpers over the 16-bit boundaries, UUID <-> item data for every length 0..6, item deltas with
\* and without an old item (equal and differing lengths, wrapping), header words, enumeration order /
\* announced lengths / look-ups for every insertion order, one delta written with two size tables
ApiBnd == {0, 1, 16383, 16384, 32767, 32768, 65535}
ApiCase(keys, kints, udata, dpairs, hw, items, adds) ==
  [op |-> "api", keys |-> keys, kints |-> kints, udata |-> udata, dpairs |-> dpairs, hw |-> hw, items |-> items,
   probe |-> << <<1, 7>>, <<4, 0>>, <<32769, 5>>, <<2, 2>>, <<0, 0>>, <<65535, 65535>> >>,
   adds |-> adds, sprobe |-> ProbesOf(STq \cup {U3, <<3>>}, SIq), osz |-> OszPairs(OszSmall), osz2 |-> OszPairs((1 :> 1)), cap |-> 1]
ApiNoHw == <<0, 0, 0>>
ApiDPairs == SetToSeq({[b |-> b] : b \in UNION {Seqs(Vals3, n) : n \in 0..2}} \cup
                      {[a |-> a, b |-> b] : a \in UNION {Seqs({1, MAX}, n) : n \in 0..2}, b \in UNION {Seqs({-1, MIN, MAX}, n) : n \in 0..2}})
InitApi ==
  \/ c = ApiCase(SetToSeq(ApiBnd \X ApiBnd), SetToSeq(Boundary \cup {-65536, -65537, 65537}), <<>>, <<>>, ApiNoHw, <<>>, <<>>)
  \/ c = ApiCase(<<>>, <<>>, SetToSeq(UNION {Seqs({0, -1, MIN}, n) : n \in 0..3} \cup {U1, U2, U1 \o <<7>>, U2 \o <<0, 0>>}), ApiDPairs, ApiNoHw, <<>>, <<>>)
  \/ \E hw \in UNION {Seqs({-1, 0, 1, MAX}, n) : n \in 0..3} : c = ApiCase(<<>>, <<>>, <<>>, <<>>, hw, <<>>, <<>>)
  \/ \E ks \in OrderedSubsets(OKeys3), a \in BoundedSeq(AddOpt(STq, {0}, {<<MIN, 7>>}), 2) :
       c = ApiCase(<<>>, <<>>, <<>>, <<>>, ApiNoHw, OItems(ks, ODataA), a)
  \* the same key twice: the second add is refused, the first stays
  \/ \E ks \in OrderedSubsets(OKeys3) : Len(ks) >= 1 /\ c = ApiCase(<<>>, <<>>, <<>>, <<>>, ApiNoHw, OItems(ks, ODataA) \o OItems(<<ks[1]>>, ODataB), <<>>)
FromBe(b) == Join((IF b[1] >= 128 THEN b[1] - 256 ELSE b[1]) * 256 + b[2], b[3] * 256 + b[4])
ApiLaw ==
  /\ \A j \in 1..Len(c.keys) : KeyOfInt(KeyInt(c.keys[j])) = c.keys[j]
  /\ \A j \in 1..Len(c.kints) : KeyInt(KeyOfInt(c.kints[j])) = c.kints[j]
  /\ \A j \in 1..Len(c.udata) : Len(c.udata[j]) >= 4 =>
        LET b == UuidBytes(c.udata[j]) IN
        Len(b) = 16 /\ (\A q \in 1..16 : b[q] \in 0..255) /\
        \A q \in 1..4 : FromBe(SubSeq(b, 4 * q - 3, 4 * q)) = c.udata[j][q]
  /\ \A j \in 1..Len(c.dpairs) :
        LET p == c.dpairs[j]
            a == IF "a" \in DOMAIN p THEN Some(p.a) ELSE None
            x == ItemDiff(a, p.b)
        IN (x.ok = (~a.some \/ Len(a.d) = Len(p.b))) /\ (x.ok => ItemPatch(a, x.d) = [ok |-> TRUE, d |-> p.b])
  \* the header decoders are the first stage of the parsers
  /\ LET sh == SnapHeaderOf(c.hw) dh == DeltaHeaderOf(c.hw) IN
     /\ (~sh.ok => ParseInts(c.hw) = Err(sh.e))
     /\ (~dh.ok => ParseDelta(c.hw, FALSE, OszNone) = Err(dh.e))
     /\ (dh.ok /\ ParseDelta(c.hw, FALSE, OszNone).ok => dh.warn \subseteq ParseDelta(c.hw, FALSE, OszNone).warn)
  /\ LET rb == RawBuild(c.items)
         R == rb.b.raw
         D == Delta(EmptySnap, R)
         t1 == OszOf(c.osz) t2 == OszOf(c.osz2)
     IN /\ ToSet(SignedKeySeq(DOMAIN R)) = DOMAIN R /\ Len(SignedKeySeq(DOMAIN R)) = Cardinality(DOMAIN R)
        /\ \A j \in 1..Len(c.items) : rb.outs[j] \in {"ok", "DuplicateKey"}
        /\ \A k \in DOMAIN R : R[k] = c.items[CHOOSE j \in 1..Len(c.items) : <<c.items[j].t, c.items[j].i>> = k /\ \A q \in 1..(j - 1) : <<c.items[q].t, c.items[q].i>> # k].d
        /\ ParseInts(WireInts(R)).ok /\ SameSnap(ParseInts(WireInts(R)).s, R)
        /\ \A t \in {t1, t2} : Writable(D, t) =>
             LET p == ParseDelta(DeltaWire(D, t), FALSE, t) IN p.ok /\ p.warn = {} /\ SameSnap(Apply(EmptySnap, p.d).s, R)

\* ------------------------------------------------------------------ family big (real limits)
\* n items of type ty (ids 0..n-1), lengths chosen so that the total number of data integers is `ints`
BigSnap(ty, n, ints) ==
  LET base == ints \div n  extra == ints % n
  IN [k \in {<<ty, id>> : id \in 0..(n - 1)} |-> [j \in 1..(base + (IF k[2] < extra THEN 1 ELSE 0)) |-> k[2] + j]]
\* the same with values of large magnitude (five bytes each in the byte form: a legal snapshot is
\* then up to 5/4 * 64 KiB long as bytes)
BigSnapV(ty, n, ints) ==
  LET S == BigSnap(ty, n, ints)
  IN [k \in DOMAIN S |-> [j \in 1..Len(S[k]) |-> IF j % 2 = 0 THEN MAX - j ELSE MIN + j]]
\* 2 * n + ints <= 16382 is the size limit
BigSnapCases ==
  {[n |-> 1, ints |-> 16379], [n |-> 1, ints |-> 16380], [n |-> 1, ints |-> 16381],
   [n |-> 1023, ints |-> 14336], [n |-> 1024, ints |-> 14334], [n |-> 1024, ints |-> 14335],
   [n |-> 1025, ints |-> 0], [n |-> 1024, ints |-> 0], [n |-> 1025, ints |-> 1025], [n |-> 2000, ints |-> 0]}
\* limits are only reachable by parsing (the builder refuses): the wire form is written by the spec
RawWire(S) == WireInts(S)
BigValueCases == {[n |-> 1, ints |-> 13100], [n |-> 1, ints |-> 13110], [n |-> 1, ints |-> 16380], [n |-> 900, ints |-> 14000]}
InitBigSnap ==
  \E w \in {RawWire(BigSnap(6, x.n, x.ints)) : x \in BigSnapCases} \cup
            {RawWire(BigSnapV(6, x.n, x.ints)) : x \in BigValueCases} :
    \/ c = [op |-> "parse", kind |-> "si", w |-> w, adds2 |-> CAdds2, other |-> COther]
    \/ c = [op |-> "parse", kind |-> "sb", w |-> EncodeAll(w), adds2 |-> CAdds2, other |-> COther]
\* deltas that push a snapshot at the limits over them (one more item / one more integer), exactly
\* to them, and a pair at the limits
BigDeltaCases ==
  {[n |-> 1024, ints |-> 0, add |-> (<<7, 0>> :> <<>>)],
   [n |-> 1023, ints |-> 0, add |-> (<<7, 0>> :> <<>>)],
   [n |-> 1023, ints |-> 14334, add |-> (<<7, 0>> :> <<1>>)],
   [n |-> 1023, ints |-> 14334, add |-> (<<7, 0>> :> <<1, 2, 3>>)],
   [n |-> 1, ints |-> 16379, add |-> (<<65535, 65535>> :> <<>>)],
   [n |-> 1, ints |-> 16376, add |-> (<<65535, 65535>> :> <<1, 2>>)],
   \* updates of items kept from the old snapshot at the limits: accepted
   [n |-> 1024, ints |-> 1024, add |-> (<<6, 0>> :> <<7>>)],
   [n |-> 1, ints |-> 16380, add |-> (<<6, 0>> :> [j \in 1..16380 |-> 1])]}
InitBigDelta ==
  \E x \in BigDeltaCases :
    LET A == BigSnap(6, x.n, x.ints)
        w == DeltaWire([del |-> {}, upd |-> x.add], OszNone)
    IN \/ c = [op |-> "parse", kind |-> "di", w |-> w, adds2 |-> CAdds2, base |-> WireInts(A), osz |-> <<>>]
       \/ c = [op |-> "parse", kind |-> "db", w |-> EncodeAll(w), adds2 |-> CAdds2, base |-> WireInts(A), osz |-> <<>>]
InitBigPair ==
  \E x \in {[n |-> 1024, ints |-> 14334], [n |-> 1, ints |-> 16380], [n |-> 700, ints |-> 3000]} :
    LET A == BigSnap(6, x.n, x.ints)
        B == [k \in DOMAIN A |-> [j \in 1..Len(A[k]) |-> IF j % 2 = 0 THEN WrapAdd(A[k][j], MAX) ELSE A[k][j]]]
    IN c = [op |-> "pair", A |-> ItemsOf(A), B |-> ItemsOf(B), osz |-> <<>>]
\* ---- pairs at the limits (C09): fill levels around both limits x {no-op, update of a kept item, addition
\* that reaches the limit, delete + add}; a target beyond the limits cannot be built, it becomes the
\* one-over case: the delta is applied to A as received from the wire and must be refused
ItemsSnap(n) == [k \in {<<6, id>> : id \in 0..(n - 1)} |-> <<k[2]>>]              \* n items of one integer
\* one big item and one small item, r bytes of room: 4 * (2 + 2 * 2 + K + 1) = 65536 - r
SizeSnap(r) == (<<6, 0>> :> [j \in 1..((65508 - r) \div 4) |-> j]) @@ (<<6, 1>> :> <<5>>)
LimOp(A, op) ==
  CASE op = "noop" -> A
    [] op = "upd" -> [A EXCEPT ![<<6, 1>>] = <<MIN>>]                               \* a kept item changes
    [] op = "updbig" -> [A EXCEPT ![<<6, 0>>] = [j \in 1..Len(@) |-> WrapAdd(@[j], MAX)]]
    [] op = "add0" -> (<<7, 0>> :> <<>>) @@ A
    [] op = "add1" -> (<<65535, 65535>> :> <<1>>) @@ A
    [] op = "deladd" -> (<<7, 0>> :> <<9>>) @@ [k \in DOMAIN A \ {<<6, 1>>} |-> A[k]]
    [] op = "deladd2" -> (<<7, 0>> :> <<9, 9>>) @@ [k \in DOMAIN A \ {<<6, 1>>} |-> A[k]]
LimPairCase(A, B) ==
  IF WithinLimits(B) THEN [op |-> "pair", A |-> ItemsOf(A), B |-> ItemsOf(B), osz |-> <<>>]
  ELSE [op |-> "parse", kind |-> "di", w |-> DeltaWire(Delta(A, B), OszNone), adds2 |-> <<>>, base |-> WireInts(A), osz |-> <<>>]
InitPairLimitQuick ==
  \/ \E op \in {"upd", "deladd", "add0"} : c = LimPairCase(ItemsSnap(1024), LimOp(ItemsSnap(1024), op))
  \/ c = LimPairCase(ItemsSnap(1023), LimOp(ItemsSnap(1023), "add1"))
  \/ \E op \in {"upd", "add1", "deladd"} : c = LimPairCase(SizeSnap(0), LimOp(SizeSnap(0), op))
  \/ \E op \in {"upd", "add1"} : c = LimPairCase(SizeSnap(12), LimOp(SizeSnap(12), op))
InitPairLimitThorough ==
  \/ \E n \in {1022, 1023, 1024}, op \in {"noop", "upd", "add0", "add1", "deladd"} : c = LimPairCase(ItemsSnap(n), LimOp(ItemsSnap(n), op))
  \/ \E r \in {0, 4, 8, 12, 16, 20, 24}, op \in {"noop", "upd", "updbig", "add0", "add1", "deladd", "deladd2"} :
        c = LimPairCase(SizeSnap(r), LimOp(SizeSnap(r), op))
PairLimitLaw ==
  IF c.op = "pair" THEN DeltaLaw /\ DeltaWireLaw
  ELSE LET p == ParseDelta(c.w, FALSE, OszNone) IN
       /\ p.ok /\ p.warn = {}
       /\ LET ap == Apply(ParseInts(c.base).s, p.d) IN ~ap.ok /\ ap.e \in {"TooManyItems", "TooLongSnap"}

BigLaw == IF c.op = "pair" THEN DeltaLaw /\ DeltaWireLaw
          ELSE IF c.kind \in {"si", "sb"} THEN TotalSnapLaw ELSE TotalDeltaLaw
=============================================================================
