INIT InitApi
NEXT Next
CONSTANTS
  MaxItems = 1024
  MaxSize = 65536
CHECK_DEADLOCK FALSE
INVARIANTS
  ApiLaw
