---------------------------- MODULE SnapChainOps ----------------------------
(***************************************************************************)
(* Operators shared by the chain state machine (SnapChain.tla), its model   *)
(* universes (MC_SnapChain.tla) and the judge of recorded events            *)
(* (SnapAlgTrace.tla): projections of logged values, the contracts of       *)
(* Delta::create / Delta::write, the builders of a chain step.              *)
(***************************************************************************)
EXTENDS SnapAlg

SnapOfItems(its) == FoldLeft(LAMBDA f, it : (<<it.t, it.i>> :> it.d) @@ f, EmptySnap, its)
OszOf(p) == FoldLeft(LAMBDA f, x : (x[1] :> x[2]) @@ f, EmptySnap, p)
Compatible(A, B) == \A k \in DOMAIN A \cap DOMAIN B : Len(A[k]) = Len(B[k])
OnKeys(S, K) == [k \in K |-> S[k]]
CrcOn(S, K) == Crc(OnKeys(S, K))

\* RawBuilder: add_item in the order of the list; a refused add leaves the builder unchanged
RawBuild(its) ==
  FoldLeft(LAMBDA acc, it : LET k == <<it.t, it.i>>
                                e == RawAddErr(acc.b, k, it.d)
                            IN IF e = "" THEN [b |-> RawAdded(acc.b, k, it.d), outs |-> Append(acc.outs, "ok")]
                               ELSE [b |-> acc.b, outs |-> Append(acc.outs, e)],
           [b |-> NewBuilder, outs |-> <<>>], its)

\* the Builder a step of level "snap" starts from
BuilderFor(h, src) == IF src.k = "fresh" THEN NewBuilder ELSE Recycle(h[src.j])
\* the snapshot a "next" step builds, and the outcomes of the add calls
Target(h, st) ==
  IF st.lvl = "raw" THEN LET r == RawBuild(st.items) IN [s |-> r.b.raw, outs |-> r.outs]
  ELSE LET r == BAddAll(BuilderFor(h, st.src), st.adds) IN [s |-> r.b.raw, outs |-> r.outs]

=========================================================================
