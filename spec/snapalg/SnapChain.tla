---------------------------- MODULE SnapChain ----------------------------
(***************************************************************************)
(* Chains of snapshots and deltas (properties C09, C10, C11): a sender      *)
(* builds snapshots A1, A2, ... one after another, diffs every new one       *)
(* against one of its earlier ones; a receiver applies every delta to one   *)
(* of the snapshots it *obtained by the previous applications* (never to a   *)
(* freshly built one).                                                      *)
(*                                                                         *)
(* History-shaped state machine: the state is the history itself            *)
(*   hist   the sender's snapshots  (hist[1] = the empty snapshot)          *)
(*   store  the receiver's accepted snapshots (store[1] = the empty one)    *)
(*   last   the delta that travelled last                                   *)
(*   log    the steps taken (the behaviour; exported as the test vector)    *)
(*   res    what the last step did (for the laws)                           *)
(*                                                                         *)
(* A step (record):                                                         *)
(*   k      "next": a new snapshot is built, diffed against hist[sb], the   *)
(*                  delta is applied to store[rb]                            *)
(*          "again": the delta that travelled last is applied once more, to *)
(*                  store[rb]                                                *)
(*   lvl    "raw": the target is built from `items` (RawBuilder)            *)
(*          "snap": from `adds` by a Builder obtained as `src` says:        *)
(*                  fresh / recycle(hist[j]) / hist[o].recycle_like(hist[j])*)
(*   osz    the size table sender and receiver use for this delta           *)
(*   via, reread, bld, reuse: how the real objects are handled (wire form,  *)
(*          written/re-read intermediate, recycled builder, previous        *)
(*          content of the receiving object); no meaning in the spec: the   *)
(*          result depends on the snapshots only                            *)
(* in sync: store[rb] equals hist[sb]. Then C09 / C10 demand the target.    *)
(* Out of sync (wrong base, the same delta twice) the code guarantees what  *)
(* WrongBaseLaw states: an error of the apply alphabet, or a snapshot       *)
(* within the limits whose checksum differs from the target's by exactly    *)
(* (sum of the kept items of the wrong base) - (sum of the items of the     *)
(* right base that the target keeps): a wrong base is visible to a caller   *)
(* that compares checksums iff these two sums differ.                       *)
(***************************************************************************)
EXTENDS SnapChainOps

NoDelta == [some |-> FALSE, d |-> EmptyDelta, from |-> EmptySnap, to |-> EmptySnap]
NoRes == [k |-> "none", sync |-> FALSE]

VARIABLES hist, store, last, log, res
cvars == <<hist, store, last, log, res>>

ChainInit == /\ hist = <<EmptySnap>>
             /\ store = <<EmptySnap>>
             /\ last = NoDelta
             /\ log = <<>>
             /\ res = NoRes

\* the receiver's side: the delta D applied to X
Received(X, D) == Apply(X, D)

DoNext(st) ==
  LET tg == Target(hist, st)
      B == tg.s
      A == hist[st.sb]
      X == store[st.rb]
      osz == OszOf(st.osz)
      D == Delta(A, B)
      r == Received(X, D)
  IN /\ st.k = "next"
     /\ Compatible(A, B)               \* contract of Delta::create
     /\ Writable(D, osz)               \* contract of Delta::write
     /\ hist' = Append(hist, B)
     /\ store' = IF r.ok THEN Append(store, r.s) ELSE store
     /\ last' = [some |-> TRUE, d |-> D, from |-> A, to |-> B]
     /\ log' = Append(log, st)
     /\ res' = [k |-> "next", sync |-> SameSnap(X, A), r |-> r, A |-> A, B |-> B, X |-> X, D |-> D,
                osz |-> osz, outs |-> tg.outs, st |-> st]

DoAgain(st) ==
  LET X == store[st.rb]
      r == Received(X, last.d)
  IN /\ st.k = "again"
     /\ last.some
     /\ hist' = hist
     /\ store' = IF r.ok THEN Append(store, r.s) ELSE store
     /\ last' = last
     /\ log' = Append(log, st)
     /\ res' = [k |-> "again", sync |-> FALSE, r |-> r, A |-> last.from, B |-> last.to, X |-> X, D |-> last.d,
                osz |-> EmptySnap, outs |-> <<>>, st |-> st]

Do(st) == DoNext(st) \/ DoAgain(st)

\* ------------------------------------------------------------------ laws
\* C09 on chains: in sync, the receiver obtains the target (items, data, checksum), without a warning
SyncLaw == (res.k = "next" /\ res.sync) =>
             /\ res.r.ok /\ res.r.warn = {}
             /\ SameSnap(res.r.s, res.B) /\ Crc(res.r.s) = Crc(res.B)
\* the delta survives both wire forms with the step's size table
ChainWireLaw == res.k = "next" =>
  LET w == DeltaWire(res.D, res.osz)
      p == ParseDelta(w, FALSE, res.osz)
      pb == ParseDeltaBytes(EncodeAll(w), res.osz)
  IN /\ p.ok /\ p.warn = {} /\ p.d.del = res.D.del /\ SameSnap(p.d.upd, res.D.upd)
     /\ pb.ok /\ pb.warn = {} /\ pb.d.del = res.D.del /\ SameSnap(pb.d.upd, res.D.upd)
\* in sync, store and hist run in parallel
ParallelLaw == (\A j \in 1..Len(log) : log[j].k = "next" /\ log[j].sb = log[j].rb) =>
                 /\ Len(store) = Len(hist)
                 /\ \A j \in 1..Len(hist) : SameSnap(store[j], hist[j])
\* what the code guarantees out of sync (wrong base, the same delta once more)
WrongBaseLaw == (res.k # "none" /\ ~res.sync) =>
  IF res.r.ok
  THEN /\ WithinLimits(res.r.s)
       /\ DOMAIN res.r.s = (DOMAIN res.X \ res.D.del) \cup DOMAIN res.B
       /\ Crc(res.r.s) = WrapAdd(WrapSub(Crc(res.B), CrcOn(res.A, DOMAIN res.A \cap DOMAIN res.B)),
                                 CrcOn(res.X, DOMAIN res.X \ res.D.del))
       /\ (res.r.warn = {}) = (res.D.del \subseteq DOMAIN res.X)
       /\ res.r.warn \subseteq {"UnknownDelete"}
  ELSE /\ res.r.e \in {"DeltaDifferingSizes", "TooManyItems", "TooLongSnap"}
       /\ (res.r.e = "DeltaDifferingSizes" =>
             \E k \in DOMAIN res.X \cap DOMAIN res.B : Len(res.X[k]) # Len(res.B[k]))
\* the same delta applied to its own result: never refused; every item of the target receives its
\* difference once more (a new item its data once more); visible only through the warning (iff the
\* delta deleted something) and through the checksum
AgainLaw == (res.k = "again" /\ SameSnap(res.X, res.B)) =>
  /\ res.r.ok /\ DOMAIN res.r.s = DOMAIN res.B
  /\ (res.r.warn = {}) = (res.D.del = {})
  /\ \A k \in DOMAIN res.B :
       res.r.s[k] = [j \in 1..Len(res.B[k]) |-> WrapAdd(res.B[k][j], res.D.upd[k][j])]
\* a wrong result that carries the checksum of the target and no warning: nothing tells the caller
Undetected == /\ res.k # "none" /\ ~res.sync /\ res.r.ok /\ res.r.warn = {}
              /\ ~SameSnap(res.r.s, res.B) /\ Crc(res.r.s) = Crc(res.B)
Harmless == res.k # "none" /\ ~res.sync /\ res.r.ok /\ SameSnap(res.r.s, res.B)
\* C10 on chains: the snapshot obtained from the chain has the target's registry, view and recycles alike
SnapLevelLaw == (res.k = "next" /\ res.sync /\ res.st.lvl = "snap") =>
  /\ res.r.ok
  /\ CheckRegistry(res.B).ok /\ CheckRegistry(res.r.s).ok
  /\ Reg(res.r.s) = Reg(res.B) /\ SameSnap(View(res.r.s), View(res.B))
  /\ Recycle(res.r.s) = Recycle(res.B)
  \* the view of the target: the accepted adds of this step (registry items carried along are hidden)
  /\ SameSnap(View(res.B),
              FoldLeft(LAMBDA f, j : IF res.outs[j] = "ok"
                                     THEN (<<res.st.adds[j].ty, res.st.adds[j].i>> :> res.st.adds[j].d) @@ f ELSE f,
                       EmptySnap, [j \in 1..Len(res.st.adds) |-> j]))
  \* a builder recycled from a snapshot still knows that snapshot's UUID types, under their numbers
  /\ (res.st.src.k # "fresh" =>
        LET old == Reg(hist[res.st.src.j]) new == Reg(res.B)
        IN \A u \in DOMAIN old : u \in DOMAIN new /\ new[u] = old[u])

\* action properties: accepted snapshots and built snapshots are never changed by later steps
StoreStable == [][/\ Len(store') >= Len(store) /\ \A j \in 1..Len(store) : store'[j] = store[j]
                  /\ Len(hist') >= Len(hist) /\ \A j \in 1..Len(hist) : hist'[j] = hist[j]
                  /\ Len(log') = Len(log) + 1]_cvars
=========================================================================
