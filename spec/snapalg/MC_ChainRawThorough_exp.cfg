INIT ChainInit
NEXT ChainNext
CONSTANTS
  MaxItems = 1024
  MaxSize = 65536
  Fam = "RawThorough"
  ChainLen = 3
CHECK_DEADLOCK FALSE
INVARIANTS
  ExportChain
