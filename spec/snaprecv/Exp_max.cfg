SPECIFICATION Spec
CONSTANTS
  Transfers <- TrMax
  Extra <- None
  MaxMsgs = 2
  Track = FALSE
VIEW View
INVARIANTS TypeOK HistoryTracked
PROPERTIES PropertyHolds OldInert PrevOnlyOnDone DoneIncreasing
ACTION_CONSTRAINT Export
