------------------------------- MODULE I32 -------------------------------
(* 32-bit two's complement helpers.  TLC's integers are 32-bit and *trap* on
   overflow, so wrapping subtraction/addition is done by case analysis with
   intermediate values that provably stay in range.                          *)
EXTENDS Integers
MAXI == 2147483647
MINI == -2147483647 - 1

\* a - b with wrap-around (Rust: a.wrapping_sub(b))
WSub(a, b) ==
  IF b >= 0
  THEN IF a >= MINI + b THEN a - b
       ELSE ((MAXI - b) + (a - MINI)) + 1               \* a - b + 2^32
  ELSE IF a <= MAXI + b THEN a - b
       ELSE ((a - MAXI) + (MINI - b)) - 1               \* a - b - 2^32

\* TRUE iff the mathematical a - b does not fit 32 bits (Rust `a - b` panics with overflow checks)
SubOverflows(a, b) == IF b >= 0 THEN a < MINI + b ELSE a > MAXI + b

\* a + b with wrap-around
WAdd(a, b) ==
  IF b >= 0
  THEN IF a <= MAXI - b THEN a + b
       ELSE ((a - MAXI) + (b + MINI)) - 1               \* a + b - 2^32
  ELSE IF a >= MINI - b THEN a + b
       ELSE ((a - MINI) + (b + MAXI)) + 1               \* a + b + 2^32
=============================================================================
