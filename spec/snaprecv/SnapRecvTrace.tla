-------------------------- MODULE SnapRecvTrace --------------------------
(* Direction B and the verdict on every deviation found in direction A:
   validates an NDJSON trace recorded from the real `delta_chunks` /
   `DeltaReceiver` against BOTH layers of SnapRecv.

   One TLC state per logged event.  The trace is a deterministic run of the
   specification: each "recv"/"extra" event is the action Recv/RecvExtra of
   SnapRecv constrained to the logged message, so TLC evaluates

     * the detailed layer:  Step(state, logged message).out  vs. the logged output
                            ChunkSeq(T)                       vs. the logged cut
       (differences are collected in `drift`), and
     * the property layer:  PJudge(PStep(history, T, j), T, logged output)
       (broken clauses are collected in `viol`)

   and prints both as JSON with the last event.  Events:
     {"e":"reset","run":k,"consistent":bool,"transfers":[T..]}   fresh receiver
     {"e":"cut","T":T,"ok":bool,"panic":s,"msgs":[m..]}          what delta_chunks(T) yielded
     {"e":"recv","tr":id,"j":j,"m":m,"out":o}                    message j of transfer id delivered
     {"e":"extra","tr":0,"j":0,"m":m,"out":o}                    a raw message delivered
     {"e":"skip",...}                                            schedule step without a message  *)
EXTENDS SnapRecvOps, Json, IOUtils, TLCExt

Rec == ndJsonDeserialize(IOEnv.TRACE)
MaxKeep == 200

VARIABLES i, prev, cur, parts, newest, got, ndone, trs, nmsgs, cons, run, drift, viol, ndrift, nviol, njudged

vars == <<i, prev, cur, parts, newest, got, ndone, trs, nmsgs, cons, run, drift, viol, ndrift, nviol, njudged>>

SeqToSet(s) == {s[k] : k \in DOMAIN s}

\* the logged output in the spec's shape (JSON arrays are sequences; warnings are a set)
OutOf(o) == [r |-> o.r, e |-> o.e, t |-> o.t, b |-> o.b, hd |-> o.hd, crc |-> o.crc,
             data |-> [k \in DOMAIN o.data |-> [tr |-> o.data[k].tr, lo |-> o.data[k].lo, hi |-> o.data[k].hi]],
             w |-> SeqToSet(o.w)]
MsgOf(m) == [k |-> m.k, t |-> m.t, dt |-> m.dt, n |-> m.n, i |-> m.i, crc |-> m.crc, tr |-> m.tr, lo |-> m.lo, hi |-> m.hi]
TrOf(T) == [id |-> T.id, t |-> T.t, b |-> T.b, len |-> T.len, crc |-> T.crc]

DiffFields(x, y) == {f \in {"r", "e", "t", "b", "hd", "crc", "data", "w"} : x[f] # y[f]}

Keep(s, n, x) == IF n < MaxKeep THEN Append(s, x) ELSE s

Init == /\ i = 1 /\ prev = <<>> /\ cur = <<>> /\ parts = NoParts
        /\ newest = <<>> /\ got = {} /\ ndone = FALSE
        /\ trs = <<>> /\ nmsgs = <<>> /\ cons = TRUE /\ run = 0
        /\ drift = <<>> /\ viol = <<>> /\ ndrift = 0 /\ nviol = 0 /\ njudged = 0

Report == PrintT(<<"RESULT", ToJson([events |-> Len(Rec), judged |-> njudged', ndrift |-> ndrift', nviol |-> nviol',
                                      drift |-> drift', viol |-> viol'])>>)

Reset(ev) ==
  /\ prev' = <<>> /\ cur' = <<>> /\ parts' = NoParts
  /\ newest' = <<>> /\ got' = {} /\ ndone' = FALSE
  /\ trs' = [k \in DOMAIN ev.transfers |-> TrOf(ev.transfers[k])]
  /\ nmsgs' = [k \in DOMAIN ev.transfers |-> -1]
  /\ cons' = (ev.consistent /\ \A a, b \in DOMAIN ev.transfers : a # b => ev.transfers[a].t # ev.transfers[b].t)
  /\ run' = ev.run
  /\ UNCHANGED <<drift, viol, ndrift, nviol, njudged>>

Cut(ev) ==
  LET T == TrOf(ev.T)
      k == CHOOSE k \in DOMAIN trs : trs[k].id = T.id
      want == ChunkSeq(T)
      gotm == [x \in DOMAIN ev.msgs |-> MsgOf(ev.msgs[x])]
      same == ev.ok /\ gotm = want
  IN /\ nmsgs' = [nmsgs EXCEPT ![k] = IF ev.ok THEN Len(ev.msgs) ELSE -1]
     /\ IF same THEN UNCHANGED <<drift, ndrift>>
        ELSE /\ drift' = Keep(drift, ndrift, [i |-> i, run |-> run, what |-> IF ev.ok THEN "chunks" ELSE "chunks-panic", fields |-> {}])
             /\ ndrift' = ndrift + 1
     \* the sender must not panic on values the API can express, and every data length (0 included)
     \* must be cut into at least one message: a tick without messages can never be handed out
     /\ IF ev.ok /\ Len(ev.msgs) > 0 THEN UNCHANGED <<viol, nviol>>
        ELSE /\ viol' = Keep(viol, nviol, [i |-> i, run |-> run,
                                            clauses |-> IF ev.ok THEN {"sender-no-messages"} ELSE {"sender-panic"},
                                            w |-> {}, k |-> "cut", t |-> T.t, b |-> T.b, n |-> NumParts(T.len),
                                            detail |-> IF ev.ok THEN "" ELSE ev.panic])
             /\ nviol' = nviol + 1
     /\ UNCHANGED <<prev, cur, parts, newest, got, ndone, trs, cons, run, njudged>>

Deliver(ev) ==
  LET m == MsgOf(ev.m)
      o == OutOf(ev.out)
      s == Step(prev, cur, parts, m)
      df == DiffFields(s.out, o)
      isrecv == ev.e = "recv"
      k == IF isrecv THEN CHOOSE k \in DOMAIN trs : trs[k].id = ev.tr ELSE 0
      judge == isrecv /\ cons /\ nmsgs[k] > 0
      T == trs[k]
      e == PStepN(newest, got, ndone, T, ev.j, nmsgs[k])
      bad == IF judge THEN PJudge(e, T, o) ELSE
             IF o.r \notin {"done", "none", "err"} THEN {"outcome-" \o o.r} ELSE {}
  IN /\ prev' = s.prev /\ cur' = s.cur /\ parts' = s.parts
     /\ IF judge THEN newest' = e.newest /\ got' = e.got /\ ndone' = e.ndone
                 ELSE UNCHANGED <<newest, got, ndone>>
     /\ njudged' = IF judge THEN njudged + 1 ELSE njudged
     /\ IF df = {} THEN UNCHANGED <<drift, ndrift>>
        ELSE /\ drift' = Keep(drift, ndrift, [i |-> i, run |-> run, what |-> "out", fields |-> df])
             /\ ndrift' = ndrift + 1
     /\ IF bad = {} THEN UNCHANGED <<viol, nviol>>
        ELSE /\ viol' = Keep(viol, nviol, [i |-> i, run |-> run, clauses |-> bad, w |-> o.w, k |-> m.k,
                                            t |-> m.t, b |-> IF isrecv THEN T.b ELSE 0, n |-> m.n, detail |-> o.e])
             /\ nviol' = nviol + 1
     /\ UNCHANGED <<trs, nmsgs, cons, run>>

Next ==
  /\ i <= Len(Rec)
  /\ i' = i + 1
  /\ LET ev == Rec[i] IN
       CASE ev.e = "reset" -> Reset(ev)
         [] ev.e = "cut" -> Cut(ev)
         [] ev.e \in {"recv", "extra"} -> Deliver(ev)
         [] OTHER -> UNCHANGED <<prev, cur, parts, newest, got, ndone, trs, nmsgs, cons, run, drift, viol, ndrift, nviol, njudged>>
  /\ (i = Len(Rec) => Report)

Spec == Init /\ [][Next]_vars

\* every event was consumed (the trace is one behaviour of Len(Rec)+1 states)
Consumed == IF TLCGet("stats").diameter = Len(Rec) + 1 THEN TRUE
            ELSE PrintT(<<"TRACE REJECTED: not all events consumed", TLCGet("stats").diameter, Len(Rec)>>) /\ FALSE
=========================================================================
