SPECIFICATION Spec
CONSTANTS
  Transfers <- TrBasic
  Extra <- None
  MaxMsgs = 8
  Track = FALSE
VIEW View
INVARIANTS TypeOK HistoryTracked
PROPERTIES PropertyHolds OldInert PrevOnlyOnDone DoneIncreasing
ACTION_CONSTRAINT Export
