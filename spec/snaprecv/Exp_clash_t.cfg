SPECIFICATION Spec
CONSTANTS
  Transfers <- TrClash
  Extra <- ExMalformed
  MaxMsgs = 5
  Track = FALSE
VIEW View
INVARIANTS TypeOK HistoryTracked
PROPERTIES PropertyHolds OldInert PrevOnlyOnDone DoneIncreasing
ACTION_CONSTRAINT Export
