---------------------------- MODULE SnapRecv ----------------------------
(* Multi-part snapshot transfer (property C12): the model.  The operators
   (sender `ChunkSeq`, detailed receiver `Step`, property layer `PStep`/`PJudge`)
   are in SnapRecvOps; this module lets TLC deliver the messages of a set of
   transfers in every order with every repetition and states the properties. *)
EXTENDS SnapRecvOps

CONSTANTS Transfers,   \* set of [id, t, b, len, crc]: id, tick, absolute base tick, data length, checksum
          Extra,       \* set of raw messages outside any consistent transfer (malformed / forged), detailed layer only
          MaxMsgs,     \* bound on the number of deliveries
          Track        \* TRUE: the whole delivery history is part of the state (every sequence is a state)

VARIABLES prev, cur, parts,          \* detailed receiver state
          newest, got, ndone,        \* property-level history
          cnt, hist, act, out

dvars == <<prev, cur, parts>>
pvars == <<newest, got, ndone>>
vars == <<prev, cur, parts, newest, got, ndone, cnt, hist, act, out>>

Consistent == \A T1, T2 \in Transfers : T1.t = T2.t => T1 = T2

------------------------------------------------------------------------
(* The model: any sequence of deliveries, with repetition, of messages of the
   transfers (and of the extra raw messages). *)

TrOf(id) == CHOOSE T \in Transfers : T.id = id

Init == /\ prev = <<>> /\ cur = <<>> /\ parts = NoParts
        /\ newest = <<>> /\ got = {} /\ ndone = FALSE
        /\ cnt = 0 /\ hist = <<>> /\ act = [a |-> "init"] /\ out = NoOut

Recv(T, j) ==
  LET m == ChunkSeq(T)[j + 1]
      s == Step(prev, cur, parts, m)
      e == PStep(newest, got, ndone, T, j)
  IN /\ cnt < MaxMsgs /\ cnt' = cnt + 1
     /\ prev' = s.prev /\ cur' = s.cur /\ parts' = s.parts /\ out' = s.out
     /\ newest' = e.newest /\ got' = e.got /\ ndone' = e.ndone
     /\ act' = [a |-> "recv", tr |-> T.id, j |-> j, m |-> m]
     /\ hist' = IF Track THEN Append(hist, <<T.id, j>>) ELSE hist

RecvExtra(m) ==
  LET s == Step(prev, cur, parts, m) IN
  /\ cnt < MaxMsgs /\ cnt' = cnt + 1
  /\ prev' = s.prev /\ cur' = s.cur /\ parts' = s.parts /\ out' = s.out
  /\ UNCHANGED pvars
  /\ act' = [a |-> "extra", tr |-> 0, j |-> 0, m |-> m]
  /\ hist' = IF Track THEN Append(hist, <<0, m.t, m.n, m.i>>) ELSE hist

Next == \/ \E T \in Transfers : \E j \in 0..(NumMsgs(T) - 1) : Recv(T, j)
        \/ \E m \in Extra : RecvExtra(m)

Spec == Init /\ [][Next]_vars

------------------------------------------------------------------------
(* Properties.  `out` and `act` are not part of the VIEW, so everything about an
   output is an action property (TLC evaluates those on every generated
   transition, also when the successor state was seen before). *)

\* the sender cuts every data length, 0 included, into at least one message (length 0: exactly one "empty")
ASSUME CutNonEmpty == \A T \in Transfers : /\ NumMsgs(T) >= 1
                                          /\ (T.len = 0 => NumMsgs(T) = 1 /\ ChunkSeq(T)[1].k = "empty")

\* C12 on the model: for consistent transfers the detailed receiver does what the property layer expects
PropertyHolds ==
  [][(Consistent /\ act'.a = "recv") =>
        LET T == TrOf(act'.tr) IN PJudge(PStep(newest, got, ndone, T, act'.j), T, out') = {}]_vars

\* a message for a tick older than the newest seen is refused and changes nothing
OldInert ==
  [][(act'.a = "recv" /\ newest # <<>> /\ TrOf(act'.tr).t < newest[1])
        => (out'.r = "err" /\ UNCHANGED dvars)]_vars

\* an error never changes what was or will be handed out: prev only moves on Done
PrevOnlyOnDone == [][prev' # prev => out'.r = "done"]_vars

\* the data of a tick is handed out at most once and ticks handed out increase
DoneIncreasing == [][out'.r = "done" => (prev = <<>> \/ prev[1] < out'.t) /\ prev' = <<out'.t>>]_vars

\* the property-level history is a function of the detailed state (so hiding nothing is lost)
HistoryTracked ==
  Consistent /\ Extra = {} =>
    /\ newest = (IF cur # <<>> THEN <<cur[1].t>> ELSE prev)
    /\ (cur # <<>> => got = DOMAIN parts /\ ~ndone)
    /\ (cur = <<>> /\ prev # <<>> => ndone)

TypeOK == /\ prev \in {<<>>} \cup {<<x>> : x \in {T.t : T \in Transfers} \cup {m.t : m \in Extra}}
          /\ Len(cur) <= 1
          /\ (cur = <<>> => parts = NoParts)
          /\ (cur # <<>> => Cardinality(DOMAIN parts) < cur[1].n)
          /\ cnt \in 0..MaxMsgs

View == <<prev, cur, parts, newest, got, ndone, cnt, hist>>
=========================================================================
