-------------------------- MODULE SnapRecvOps ----------------------------
(* Multi-part snapshot transfer (property C12).

   Sender side:  snapshot/src/snap.rs  delta_chunks / DeltaChunks::next
   Receiver:     snapshot/src/receiver.rs  DeltaReceiver::{snap_empty, snap_single, snap}

   The module has two layers.

   * The DETAILED layer (`Step`) is the receiver as a total function
     (state, message) -> (state, output) with the *intended* warning behaviour
     (attributes of later parts are compared like with like), and `ChunkSeq`,
     the sender's cutting of a data block into messages.
   * The PROPERTY layer (`PStep`, `PJudge`) is what the user relies on, phrased
     over operational history only (which message of which transfer was
     delivered, and what came out).  It never looks at wire fields, so it can
     judge executions of code that no longer matches the detailed layer.

   Data is abstract: a transfer T stands for a block of T.len bytes identified by
   T.id; a piece of data is a segment [tr, lo, hi) of that block.  The harness
   derives the real bytes from (id, len) and maps received bytes back to
   segments. *)
EXTENDS Integers, Sequences, FiniteSets, TLC, I32

PartSize == 900        \* libtw2_gamenet_snap::MAX_SNAPSHOT_PACKSIZE
MaxParts == 32

Min2(a, b) == IF a < b THEN a ELSE b

------------------------------------------------------------------------
(* Sender: delta_chunks *)

NumParts(len) == (len + PartSize - 1) \div PartSize

Msg(k, T, n, i, crc, lo, hi) ==
  [k |-> k, t |-> T.t, dt |-> WSub(T.t, T.b), n |-> n, i |-> i, crc |-> crc,
   tr |-> T.id, lo |-> lo, hi |-> hi]

\* the messages of transfer T, in the order DeltaChunks yields them
ChunkSeq(T) ==
  LET n == NumParts(T.len) IN
  IF n = 0 THEN << Msg("empty", T, 0, 0, 0, 0, 0) >>
  ELSE IF n = 1 THEN << Msg("single", T, 1, 0, T.crc, 0, T.len) >>
  ELSE [j \in 1..n |-> Msg("part", T, n, j - 1, T.crc, PartSize * (j - 1), Min2(PartSize * j, T.len))]

NumMsgs(T) == Len(ChunkSeq(T))

\* sender-side arithmetic `tick - delta_tick` must not overflow (snap.rs delta_chunks)
CutOverflows(T) == SubOverflows(T.t, T.b)

------------------------------------------------------------------------
(* Detailed receiver *)

NoOut == [r |-> "init", e |-> "", t |-> 0, b |-> 0, hd |-> FALSE, crc |-> 0, data |-> <<>>, w |-> {}]
Err(e, w) == [NoOut EXCEPT !.r = "err", !.e = e, !.w = w]
NoneOut(w) == [NoOut EXCEPT !.r = "none", !.w = w]
Done(t, b, hd, crc, data, w) == [r |-> "done", e |-> "", t |-> t, b |-> b, hd |-> hd, crc |-> crc, data |-> data, w |-> w]

Seg(m) == [tr |-> m.tr, lo |-> m.lo, hi |-> m.hi]

\* concatenation of the stored parts in part order (VecMap::values)
RECURSIVE Concat(_, _)
Concat(ps, idxs) ==
  IF idxs = {} THEN <<>>
  ELSE LET i == CHOOSE x \in idxs : \A y \in idxs : x <= y
       IN <<ps[i]>> \o Concat(ps, idxs \ {i})

CanReceive(p, c, t) == IF c # <<>> THEN c[1].t <= t ELSE IF p # <<>> THEN p[1] < t ELSE TRUE

NoParts == [i \in {} |-> 0]

(* one call of snap_empty / snap_single / snap *)
Step(p, c, ps, m) ==
  IF ~CanReceive(p, c, m.t)
  THEN [prev |-> p, cur |-> c, parts |-> ps, out |-> Err("OldDelta", {})]
  ELSE IF m.k \in {"empty", "single"}
  THEN LET w == IF c # <<>> /\ c[1].t = m.t THEN {"DuplicateSnap"} ELSE {} IN
       [prev |-> <<m.t>>, cur |-> <<>>, parts |-> NoParts,
        out |-> IF m.k = "empty" THEN Done(m.t, WSub(m.t, m.dt), FALSE, 0, <<>>, w)
                ELSE Done(m.t, WSub(m.t, m.dt), TRUE, m.crc, <<Seg(m)>>, w)]
  ELSE IF ~(0 <= m.n /\ m.n <= MaxParts)
  THEN [prev |-> p, cur |-> c, parts |-> ps, out |-> Err("InvalidNumParts", {})]
  ELSE IF ~(0 <= m.i /\ m.i < m.n)
  THEN [prev |-> p, cur |-> c, parts |-> ps, out |-> Err("InvalidPart", {})]
  ELSE LET fresh == c = <<>> \/ c[1].t # m.t
           c1 == IF fresh THEN [t |-> m.t, b |-> WSub(m.t, m.dt), n |-> m.n, crc |-> m.crc] ELSE c[1]
           p1 == IF fresh THEN NoParts ELSE ps
           \* intended: absolute base of this part vs. absolute base of the first part
           w == IF WSub(m.t, m.dt) # c1.b \/ m.n # c1.n \/ m.crc # c1.crc THEN {"DifferingAttributes"} ELSE {}
       IN IF m.i \in DOMAIN p1
          THEN [prev |-> p, cur |-> <<c1>>, parts |-> p1, out |-> Err("DuplicatePart", w)]
          ELSE LET p2 == [i \in DOMAIN p1 \cup {m.i} |-> IF i = m.i THEN Seg(m) ELSE p1[i]] IN
               IF Cardinality(DOMAIN p2) # c1.n
               THEN [prev |-> p, cur |-> <<c1>>, parts |-> p2, out |-> NoneOut(w)]
               ELSE [prev |-> <<c1.t>>, cur |-> <<>>, parts |-> NoParts,
                     out |-> Done(c1.t, c1.b, TRUE, c1.crc, Concat(p2, DOMAIN p2), w)]

------------------------------------------------------------------------
(* Property layer: operational history only.

   newest : <<>> or <<t>>, the newest tick of any delivered message
   got    : message indices (0-based) of the newest tick's transfer delivered
            since that tick became the newest
   ndone  : the newest tick's data has been handed out                       *)

PStepN(nw, g, nd, T, j, n) ==
  IF nw # <<>> /\ T.t < nw[1] THEN [newest |-> nw, got |-> g, ndone |-> nd, expDone |-> FALSE, old |-> TRUE]
  ELSE IF nw # <<>> /\ T.t = nw[1] /\ nd THEN [newest |-> nw, got |-> g, ndone |-> nd, expDone |-> FALSE, old |-> FALSE]
  ELSE LET g0 == IF nw = <<>> \/ T.t > nw[1] THEN {} ELSE g
           g1 == g0 \cup {j}
           full == g1 = 0..(n - 1)
       IN [newest |-> <<T.t>>, got |-> g1, ndone |-> full, expDone |-> full, old |-> FALSE]

PStep(nw, g, nd, T, j) == PStepN(nw, g, nd, T, j, NumMsgs(T))

\* the whole data block of T as the sequence of segments the sender cut
WholeOf(T) == LET cs == ChunkSeq(T) IN
              IF cs[1].k = "empty" THEN <<>> ELSE [j \in 1..Len(cs) |-> Seg(cs[j])]

\* segments are adjacent pieces of one block and cover it: equal as data to the whole block
SameData(d, T) ==
  IF T.len = 0 THEN d = <<>>
  ELSE /\ d # <<>>
       /\ \A k \in 1..Len(d) : d[k].tr = T.id
       /\ d[1].lo = 0 /\ d[Len(d)].hi = T.len
       /\ \A k \in 1..(Len(d) - 1) : d[k].hi = d[k + 1].lo

(* verdict on one observed output `o` for the delivery of message j of T, given
   the expectation e = PStep(...).  Returns the set of broken clauses (empty = fine). *)
PJudge(e, T, o) ==
     (IF o.r \notin {"done", "none", "err"} THEN {"outcome-" \o o.r} ELSE {})
  \cup (IF e.expDone /\ o.r # "done" THEN {"not-handed-out"} ELSE {})
  \cup (IF ~e.expDone /\ o.r = "done" THEN {IF e.old THEN "old-tick-completed" ELSE "handed-out-again-or-early"} ELSE {})
  \cup (IF o.r = "done" /\ o.t # T.t THEN {"wrong-tick"} ELSE {})
  \cup (IF o.r = "done" /\ o.b # T.b THEN {"wrong-base-tick"} ELSE {})
  \cup (IF o.r = "done" /\ T.len > 0 /\ (~o.hd \/ o.crc # T.crc) THEN {"wrong-crc"} ELSE {})
  \cup (IF o.r = "done" /\ T.len = 0 /\ o.hd THEN {"data-for-empty"} ELSE {})
  \cup (IF o.r = "done" /\ ~SameData(o.data, T) THEN {"wrong-data"} ELSE {})
  \cup (IF o.w # {} THEN {"warning"} ELSE {})

=========================================================================
