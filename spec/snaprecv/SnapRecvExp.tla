--------------------------- MODULE SnapRecvExp ---------------------------
(* Export of every generated transition of SnapRecv for direction A
   (ACTION_CONSTRAINT Export; needs -workers 1; piped, never stored).

   <<"C", transfers>>                      once: the constants
   <<"K", transfer, chunk sequence>>       once per transfer: what delta_chunks must yield
   <<"S", state>>                          whenever the source state changes
   <<"T", act, out, state'>>               one per generated transition               *)
EXTENDS SnapRecv, Json, TLCExt

St == [prev |-> prev, cur |-> cur, parts |-> parts, cnt |-> cnt, hist |-> hist]
StP == [prev |-> prev', cur |-> cur', parts |-> parts', cnt |-> cnt', hist |-> hist']

Export == /\ IF TLCGet(1) # St THEN PrintT(<<"S", ToJson(St)>>) /\ TLCSet(1, St) ELSE TRUE
          /\ PrintT(<<"T", ToJson(act'), ToJson(out'), ToJson(StP)>>)

ASSUME TLCSet(1, [prev |-> 0])
ASSUME PrintT(<<"C", ToJson([transfers |-> Transfers, consistent |-> Consistent, maxmsgs |-> MaxMsgs])>>)
ASSUME \A T \in Transfers : PrintT(<<"K", ToJson(T), ToJson(ChunkSeq(T))>>)
=========================================================================
