SPECIFICATION Spec
POSTCONDITION Consumed
