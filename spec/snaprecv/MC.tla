------------------------------- MODULE MC -------------------------------
(* Constant sets for the SnapRecv configurations (cfg files cannot hold records). *)
EXTENDS SnapRecvExp

Tr(id, t, b, len, crc) == [id |-> id, t |-> t, b |-> b, len |-> len, crc |-> crc]
Raw(k, t, dt, n, i, crc, tr, lo, hi) ==
  [k |-> k, t |-> t, dt |-> dt, n |-> n, i |-> i, crc |-> crc, tr |-> tr, lo |-> lo, hi |-> hi]

\* the four transfers of DESIGN A.5 (one of each message form; tick-base = base only for the first)
TrBasic == { Tr(1, 2, 1, 1801, 3), Tr(2, 10, 3, 901, -7), Tr(3, 11, -1, 5, 99), Tr(4, 12, 10, 0, 0) }

\* three multi-part transfers, three ticks, 3 + 3 + 2 parts
TrMulti == { Tr(1, 5, 4, 2700, 11), Tr(2, 7, 5, 1801, -12), Tr(3, 8, -1, 1800, 13) }

\* extreme tick values: wrap-around of tick - base on the wire and back
TrExtreme == { Tr(1, MAXI - 1, 0, 901, 1), Tr(2, MAXI, MAXI - 1, 1800, MINI), Tr(3, -5, -7, 901, MAXI),
               Tr(4, MINI, MINI, 0, 0), Tr(5, MINI + 1, -1, 1, 5) }

\* the part-count limit: 32 parts (full last part) and 31 parts
TrMax == { Tr(1, 5, 3, 28800, 17), Tr(2, 7, -1, 27900, 18) }

\* sender-side overflow: tick - base does not fit 32 bits
TrOverflow == { Tr(1, MAXI, -1, 901, 1), Tr(2, MINI, 1, 3, 2), Tr(3, 5, 3, 901, 4) }

\* two transfers on one tick with differing attributes, a single on the same tick (detailed layer only)
TrClash == { Tr(1, 10, 3, 901, 7), Tr(2, 10, 3, 1000, 8), Tr(3, 10, 4, 1700, 7), Tr(4, 10, 3, 2000, 7),
             Tr(5, 10, 9, 5, 1), Tr(6, 12, 10, 901, 2) }

ExMalformed == { Raw("part", 11, 1, 33, 0, 5, 90, 0, 3), Raw("part", 11, 1, -1, 0, 5, 91, 0, 3),
                 Raw("part", 11, 1, 2, 2, 5, 92, 0, 3), Raw("part", 11, 1, 2, -1, 5, 93, 0, 3),
                 Raw("part", 11, 1, 0, 0, 5, 94, 0, 3), Raw("part", 11, 1, 1, 0, 5, 95, 0, 3),
                 Raw("part", 10, 7, 3, 2, 7, 96, 0, 3), Raw("part", 9, 1, 2, 0, 5, 97, 0, 3) }
None == {}
=========================================================================
