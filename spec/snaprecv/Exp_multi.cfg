SPECIFICATION Spec
CONSTANTS
  Transfers <- TrMulti
  Extra <- None
  MaxMsgs = 9
  Track = FALSE
VIEW View
INVARIANTS TypeOK HistoryTracked
PROPERTIES PropertyHolds OldInert PrevOnlyOnDone DoneIncreasing
ACTION_CONSTRAINT Export
