SPECIFICATION Spec
CONSTANTS
  Transfers <- TrBasic
  Extra <- None
  MaxMsgs = 4
  Track = TRUE
VIEW View
INVARIANTS TypeOK HistoryTracked
PROPERTIES PropertyHolds OldInert PrevOnlyOnDone DoneIncreasing
ACTION_CONSTRAINT Export
