SPECIFICATION Spec
CONSTANTS
  Transfers <- TrExtreme
  Extra <- None
  MaxMsgs = 7
  Track = FALSE
VIEW View
INVARIANTS TypeOK HistoryTracked
PROPERTIES PropertyHolds OldInert PrevOnlyOnDone DoneIncreasing
ACTION_CONSTRAINT Export
