SPECIFICATION Spec
CONSTANTS
  Transfers <- TrMulti
  Extra <- None
  MaxMsgs = 6
  Track = TRUE
VIEW View
INVARIANTS TypeOK HistoryTracked
PROPERTIES PropertyHolds OldInert PrevOnlyOnDone DoneIncreasing
ACTION_CONSTRAINT Export
