------------------------------- MODULE VarInt -------------------------------
(* Variable-length integer of doc/int.md, transcribed from DESIGN.md Appendix A.8
   (own copy of the gamenet component; position-based so that the message parser
   of GameNet.tla can thread a cursor through a byte sequence).

       ESDD_DDDD EDDD_DDDD EDDD_DDDD EDDD_DDDD PPPP_DDDD

   E extend, S sign (all bits flipped), D digits little-endian, P padding.
   "Always use the least amount of bytes possible ... The padding must always be
   zeroed." "The bits of the final integer are the `bits` fields combined": the
   document's value of an integer with non-zero padding is the value of its bits
   fields (v below, padding ignored); it adds that the reference implementation
   "interprets the padding as part of the number, which leads to weird results".
   libtw2 (packer/src/lib.rs read_int) warns NonZeroIntPadding when any of the four
   bits above the last digits is set and computes ((b5 & 0x7f) as i32) << 27: the
   lowest padding bit lands on bit 31, the others fall off (vimpl below; the same
   reading as spec/varint/VarInt.tla of C08; vimpl = v whenever that bit is clear).
   TLC integers are 32 bit: nothing below leaves -2^31 .. 2^31-1. *)
EXTENDS Integers, Sequences

MinInt == -2147483647 - 1
MaxInt == 2147483647

\* sign folded by complement: the payload of x < 0 is ~x = -(x+1); never overflows
Payload(x) == IF x < 0 THEN -(x + 1) ELSE x

RECURSIVE VRest(_)
VRest(m) == IF m = 0 THEN <<>>
            ELSE <<(m % 128) + (IF m \div 128 # 0 THEN 128 ELSE 0)>> \o VRest(m \div 128)

Encode(x) == LET m == Payload(x) IN
             <<(m % 64) + (IF x < 0 THEN 64 ELSE 0) + (IF m \div 64 # 0 THEN 128 ELSE 0)>>
             \o VRest(m \div 64)

(* Decode the integer that starts at index p of b (1-based).
   [r |-> "end"]                      the sequence ends inside the integer
   [r |-> "ok", v, vimpl, n, over, pad]   documented value, libtw2's value, bytes used,
                                          overlong?, non-zero padding? *)
DecodeAt(b, p) ==
  IF p > Len(b) THEN [r |-> "end"] ELSE
  LET n == CHOOSE k \in 1..5 : /\ \A j \in 1..(k - 1) : p + j - 1 <= Len(b) /\ b[p + j - 1] >= 128
                               /\ (k = 5 \/ p + k - 1 > Len(b) \/ b[p + k - 1] < 128)
  IN IF p + n - 1 > Len(b) THEN [r |-> "end"] ELSE
     LET B(i)  == b[p + i - 1]
         sign  == (B(1) \div 64) % 2
         lo27  == (B(1) % 64)
                  + (IF n >= 2 THEN (B(2) % 128) * 64 ELSE 0)
                  + (IF n >= 3 THEN (B(3) % 128) * 8192 ELSE 0)
                  + (IF n >= 4 THEN (B(4) % 128) * 1048576 ELSE 0)
         hi4   == IF n = 5 THEN B(5) % 16 ELSE 0
         mag   == lo27 + hi4 * 134217728
         padb  == IF n = 5 THEN B(5) \div 16 ELSE 0            \* PPPP
         raw   == IF padb % 2 = 1 THEN (mag - 1073741824) - 1073741824 ELSE mag
     IN [r     |-> "ok",
         v     |-> IF sign = 1 THEN -mag - 1 ELSE mag,
         vimpl |-> IF sign = 1 THEN -1 - raw ELSE raw,
         n     |-> n,
         over  |-> n > 1 /\ B(n) = 0,
         pad   |-> padb # 0]

Decode(b) == DecodeAt(b, 1)

VarIntBoundaries ==
  {0, 1, -1, 63, 64, -64, -65, 8191, 8192, -8192, -8193, 1048575, 1048576, -1048576, -1048577,
   134217727, 134217728, -134217728, -134217729, MaxInt, MaxInt - 1, MinInt, MinInt + 1}

RoundTrip(x) == LET e == Encode(x) d == Decode(e) IN
                /\ Len(e) \in 1..5 /\ d.r = "ok" /\ d.v = x /\ d.n = Len(e) /\ ~d.over /\ ~d.pad

ASSUME \A x \in VarIntBoundaries : RoundTrip(x)
ASSUME Encode(0) = <<0>> /\ Encode(1) = <<1>> /\ Encode(-1) = <<64>> /\ Encode(64) = <<128, 1>>
ASSUME Decode(<<128>>).r = "end" /\ Decode(<<>>).r = "end"
ASSUME Decode(<<128, 0>>).over /\ Decode(<<128, 128, 128, 128, 16>>).pad /\ Decode(<<128, 128, 128, 128, 128>>).pad
\* the two padding examples of the repository's unit tests (int_quirk1, int_quirk2), and one where
\* the padding does not reach the value
ASSUME Decode(<<255, 255, 255, 255, 255>>).vimpl = 0 /\ Decode(<<191, 255, 255, 255, 255>>).vimpl = -1
ASSUME Decode(<<255, 255, 255, 255, 255>>).v = MinInt /\ Decode(<<191, 255, 255, 255, 255>>).v = MaxInt
ASSUME LET d == Decode(<<133, 128, 128, 128, 96>>) IN d.pad /\ d.v = 5 /\ d.vimpl = 5 /\ ~d.over

(* The five-byte form of x with the given padding bits (0..15); pad = 0 gives the overlong
   five-byte form when x needs fewer bytes. Overlong(x): the shortest form followed by one
   more (zero) digit byte. *)
FiveBytes(x, pad) == LET m == Payload(x) IN
  << (m % 64) + (IF x < 0 THEN 64 ELSE 0) + 128, ((m \div 64) % 128) + 128, ((m \div 8192) % 128) + 128,
     ((m \div 1048576) % 128) + 128, ((m \div 134217728) % 16) + 16 * pad >>
Overlong(x) == LET e == Encode(x) IN
               IF Len(e) = 5 THEN e ELSE [e EXCEPT ![Len(e)] = @ + 128] \o <<0>>
ASSUME \A x \in {0, 1, -1, 63, 64, -65, 8191, 1048576, MaxInt, MinInt} :
         /\ \A pd \in {2, 4, 8, 14} : LET d == Decode(FiveBytes(x, pd)) IN d.v = x /\ d.vimpl = x /\ d.pad /\ d.n = 5
         /\ LET d == Decode(FiveBytes(x, 1)) IN d.v = x /\ d.pad /\ d.vimpl # x
         /\ LET d == Decode(Overlong(x)) IN d.v = x /\ d.vimpl = x /\ ~d.pad /\ (d.over <=> Len(Encode(x)) < 5)
=============================================================================
