INIT TInit
NEXT TNextAll
POSTCONDITION Post
CHECK_DEADLOCK FALSE
