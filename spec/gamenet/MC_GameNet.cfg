INIT Init
NEXT Next
INVARIANT LawInv
CHECK_DEADLOCK FALSE
