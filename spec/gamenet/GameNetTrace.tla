----------------------------- MODULE GameNetTrace -----------------------------
(* Direction B for C14: validation of a trace recorded from the real generated
   crates. One event per call of a generic decode entry point
   (msg::decode, Connless::decode, SnapObj::decode_obj) followed by `encode` of the
   decoded value:

     {k: "ev", n, src, entry: msg|system|game|tsystem|tgame|connless|obj|tobj, ord, uuid, data,
      r: ok|err|panic, e, w, enc: ok|panic|cap|none, re, sec, tname, idok}
   (system/game = inherent System::decode / Game::decode, t* = the same through the traits of
   gamenet/common; idok = obj_type_id() of a decoded object is the identifier it was decoded with)
     {k: "bulk", n, count, ok, err, panic, hang}   outcomes of inputs that are not logged one by one
   (n = position in the trace: a dropped event is noticed)

   Property level (an event that fails it is not a step of this spec -> TRACE REJECTED):
     * only the outcomes ok / err exist (a panic or a hang is not an action);
     * an input that the description makes canonical (Parse: ok, no warning,
       re-encoding = input) decodes, without warning, and re-encodes to the same data;
     * an input on which a described constraint fails (range / enum / bool /
       control character / integer string) or whose identifier is not described is an error;
     * encode of a decoded value that the description makes encodable does not panic.
   Detailed level (PrintT "DRIFT", the step is still taken): outcome, error class,
   warnings, message and re-encoding equal those of Parse for *every* input, including
   truncations, mutations and random bytes. Inputs containing an integer with non-zero
   padding are not predicted (doc/int.md leaves the value open). *)
EXTENDS GameNet

Rec == ndJsonDeserialize(IOEnv.TRACE)

SpecCanon(ev, x) == x.r = "ok" /\ x.w = {} /\ x.enc /\ x.re = ev.data
SpecReject(x)    == x.r = "err" /\ x.e \in {"range", "cc", "intstr", "unknown_id"}

PropOK(ev, x) ==
  /\ ev.r \in {"ok", "err"}
  /\ SpecCanon(ev, x) => ev.r = "ok" /\ ev.w = <<>> /\ ev.enc = "ok" /\ ev.re = ev.data /\ ev.idok
  /\ SpecReject(x) => ev.r = "err"
  /\ (x.r = "ok" /\ x.enc /\ ev.r = "ok") => ev.enc # "panic"

DetailOK(ev, x) ==
  CASE x.r = "ok"  -> /\ ev.r = "ok"
                      /\ Range(ev.w) = x.w
                      /\ ev.sec = x.sec
                      /\ ev.tname = Title(SecMsgs(x.sec)[x.mi].name)
                      /\ x.enc => ev.enc = "ok" /\ ev.re = x.re
    [] x.r = "err" -> ev.r = "err" /\ ev.e = x.e
    [] OTHER -> TRUE

BulkOK(ev) == ev.panic = 0 /\ ev.hang = 0 /\ ev.ok + ev.err = ev.count

Accept(ev, k) ==
  /\ ev.n = k
  /\ IF ev.k = "bulk" THEN BulkOK(ev)
     ELSE LET x == ParseAny(ev.entry, ev.ord, ev.uuid, ev.data) IN
          /\ PropOK(ev, x)
          /\ IF DetailOK(ev, x) THEN TRUE
             ELSE PrintT(<<"DRIFT", k, ToJson([src |-> ev.src, entry |-> ev.entry, ord |-> ev.ord, data |-> ev.data,
                           got |-> [r |-> ev.r, e |-> ev.e, w |-> ev.w, enc |-> ev.enc, re |-> ev.re, sec |-> ev.sec, tname |-> ev.tname],
                           spec |-> IF x.r = "ok" THEN [r |-> "ok", w |-> x.w, enc |-> x.enc, re |-> x.re, sec |-> x.sec,
                                                       tname |-> Title(SecMsgs(x.sec)[x.mi].name)]
                                    ELSE x])>>)

VARIABLE i
TInit == i = 0
TNext == /\ i < Len(Rec)
         /\ Accept(Rec[i + 1], i + 1)
         /\ i' = i + 1
\* Diagnosis only (Trace_all.cfg, after the strict run rejected a trace): every
\* event is consumed, the ones that are not steps of TNext are listed.
TNextAll == /\ i < Len(Rec)
            /\ IF Accept(Rec[i + 1], i + 1) THEN TRUE
               ELSE PrintT(<<"TRACE REJECTED event", i + 1, ToJson(Rec[i + 1])>>)
            /\ i' = i + 1

Post == LET d == TLCGet("stats").diameter IN
        IF d - 1 = Len(Rec) THEN TRUE
        ELSE /\ PrintT(<<"TRACE REJECTED at event", d, "of", Len(Rec)>>)
             /\ PrintT(<<"TRACE REJECTED event", d, ToJson(Rec[d])>>)
             /\ FALSE
=============================================================================
