----------------------------- MODULE GameNetTrace -----------------------------
(* Direction B for C14: validation of a trace recorded from the real generated
   crates. One event per call of a generic decode entry point
   (msg::decode, Connless::decode, SnapObj::decode_obj) followed by `encode` of the
   decoded value:

     {k: "ev", n, src, entry: msg|system|game|tsystem|tgame|connless|obj|tobj, ord, uuid, data,
      r: ok|err|panic, e, w, enc: ok|panic|cap|none, re, sec, tname, idok}
   (system/game = inherent System::decode / Game::decode, t* = the same through the traits of
   gamenet/common; idok = obj_type_id() of a decoded object is the identifier it was decoded with)
     {k: "bulk", n, count, ok, err, panic, hang}   outcomes of inputs that are not logged one by one
   (n = position in the trace: a dropped event is noticed)

   Property level (an event that fails it is not a step of this spec -> TRACE REJECTED):
     * only the outcomes ok / err exist (a panic or a hang is not an action);
     * an input that the description makes canonical (Parse: ok, no warning,
       re-encoding = input) decodes, without warning, and re-encodes to the same data;
     * an input on which a described constraint fails (range / enum / bool /
       control character / integer string) or whose identifier is not described is an error;
     * encode of a decoded value that the description makes encodable does not panic.
   Detailed level (PrintT "DRIFT", the step is still taken): outcome, error class,
   warnings, message and re-encoding equal those of Parse for *every* input, including
   truncations, mutations and random bytes (an integer with non-zero padding is read the way
   VarInt!DecodeAt.vimpl says, with the warning NonZeroIntPadding). Entry points with a leading
   "d" read behind Unpacker::new_from_demo (zero padding up to three bytes is not excess data).

     {k: "benc", n, src, sec, mi, vals, r: ok|panic|cap|unrep, bytes, msg}
   `encode` of message / object mi of section sec built through the public struct fields from the
   value tuple vals. Property level: a tuple that satisfies the assertions of encode (GameNet!BuildExp;
   it is then the value the bytes BuildExp.bytes decode to) is encoded to exactly those bytes.
   Detailed level: a tuple the field types cannot hold is not constructible (unrep), a tuple that
   violates an assertion makes encode panic. *)
EXTENDS GameNet

Rec == ndJsonDeserialize(IOEnv.TRACE)

SpecCanon(ev, x) == x.r = "ok" /\ x.w = {} /\ x.enc /\ x.re = ev.data
SpecReject(x)    == x.r = "err" /\ x.e \in {"range", "cc", "intstr", "unknown_id"}

PropOK(ev, x) ==
  /\ ev.r \in {"ok", "err"} \/ (ev.r = "precond" /\ x.r = "precond")   \* documented precondition of new_from_demo
  /\ SpecCanon(ev, x) => ev.r = "ok" /\ ev.w = <<>> /\ ev.enc = "ok" /\ ev.re = ev.data /\ ev.idok
  /\ SpecReject(x) => ev.r = "err"
  /\ (x.r = "ok" /\ x.enc /\ ev.r = "ok") => ev.enc # "panic"

DetailOK(ev, x) ==
  CASE x.r = "ok"  -> /\ ev.r = "ok"
                      /\ Range(ev.w) = x.w
                      /\ ev.sec = x.sec
                      /\ ev.tname = Title(SecMsgs(x.sec)[x.mi].name)
                      /\ x.enc => ev.enc = "ok" /\ ev.re = x.re
    [] x.r = "err" -> ev.r = "err" /\ ev.e = x.e
    [] OTHER -> ev.r = x.r

BulkOK(ev) == ev.panic = 0 /\ ev.hang = 0 /\ ev.ok + ev.err = ev.count

BuildProp(ev, e)   == e.ok => ev.r = "ok" /\ ev.bytes = e.bytes
BuildDetail(ev, e) == /\ (ev.r = "unrep") <=> ~e.rep
                      /\ (e.rep /\ ~e.ok) => ev.r = "panic"
AcceptBuild(ev, k) ==
  LET e == BuildExp(ev.sec, SecMsgs(ev.sec)[ev.mi], ev.vals) IN
  /\ BuildProp(ev, e)
  /\ IF BuildDetail(ev, e) THEN TRUE
     ELSE PrintT(<<"DRIFT", k, ToJson([src |-> ev.src, entry |-> "build " \o ev.sec, ord |-> ev.mi, data |-> ev.vals,
                   got |-> [r |-> ev.r, bytes |-> ev.bytes, msg |-> ev.msg], spec |-> e])>>)

Accept(ev, k) ==
  /\ ev.n = k
  /\ IF ev.k = "bulk" THEN BulkOK(ev)
     ELSE IF ev.k = "benc" THEN AcceptBuild(ev, k)
     ELSE LET x == ParseAny(ev.entry, ev.ord, ev.uuid, ev.data) IN
          /\ PropOK(ev, x)
          /\ IF DetailOK(ev, x) THEN TRUE
             ELSE PrintT(<<"DRIFT", k, ToJson([src |-> ev.src, entry |-> ev.entry, ord |-> ev.ord, data |-> ev.data,
                           got |-> [r |-> ev.r, e |-> ev.e, w |-> ev.w, enc |-> ev.enc, re |-> ev.re, sec |-> ev.sec, tname |-> ev.tname],
                           spec |-> IF x.r = "ok" THEN [r |-> "ok", w |-> x.w, enc |-> x.enc, re |-> x.re, sec |-> x.sec,
                                                       tname |-> Title(SecMsgs(x.sec)[x.mi].name)]
                                    ELSE x])>>)

VARIABLE i
TInit == i = 0
TNext == /\ i < Len(Rec)
         /\ Accept(Rec[i + 1], i + 1)
         /\ i' = i + 1
\* Diagnosis only (Trace_all.cfg, after the strict run rejected a trace): every
\* event is consumed, the ones that are not steps of TNext are listed.
TNextAll == /\ i < Len(Rec)
            /\ IF Accept(Rec[i + 1], i + 1) THEN TRUE
               ELSE PrintT(<<"TRACE REJECTED event", i + 1, ToJson(Rec[i + 1])>>)
            /\ i' = i + 1

Post == LET d == TLCGet("stats").diameter IN
        IF d - 1 = Len(Rec) THEN TRUE
        ELSE /\ PrintT(<<"TRACE REJECTED at event", d, "of", Len(Rec)>>)
             /\ PrintT(<<"TRACE REJECTED event", d, ToJson(Rec[d])>>)
             /\ FALSE
=============================================================================
