INIT TInit
NEXT TNext
POSTCONDITION Post
CHECK_DEADLOCK FALSE
