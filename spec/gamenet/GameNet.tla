------------------------------- MODULE GameNet -------------------------------
(* Interpreter of the protocol descriptions gamenet/generate/spec/*.json (C14).

   The description is loaded as it is shipped (JsonDeserialize) and every member
   kind is given the meaning gamenet/generate/datatypes.py gives it when it
   generates the Rust codecs:

     * Valid*   the constraints a generated decoder checks (in_range / at_least /
                positive, Enum::from_i32, to_bool, sanitize, int_from_string);
     * Enc*     the bytes (messages: doc/int.md integers, NUL-terminated strings,
                length-prefixed data, raw fields) / 32-bit words (snapshot objects);
     * Parse*   the operational reading of an arbitrary byte / word sequence by the
                description: value, warnings, error class, re-encoding.

   TLC checks on the model (MC_*.cfg) that the declarative and the operational
   reading agree on every vector of the boundary sweep (Law), and emits the
   vectors (GameNetExp) for the real crates; GameNetTrace validates recorded
   executions of the real crates with the same Parse operators.

   Values: integer kinds -> Int; string / data / rest / raw kinds -> sequence of
   bytes; optional -> <<>> (absent) or <<v>>; array / snapshot_object -> sequence. *)
EXTENDS Integers, Sequences, FiniteSets, TLC, Json, IOUtils, SequencesExt, Functions, VarInt

Desc == JsonDeserialize(IOEnv.GAMENET_DESC)

Has(r, f) == f \in DOMAIN r
Flat(ss) == FoldLeft(LAMBDA a, x : a \o x, <<>>, ss)
Rep(n, x) == [i \in 1..n |-> x]

Sections == <<"system", "game", "connless", "obj">>
SecMsgs(sec) == CASE sec = "system"   -> Desc.system_messages
                  [] sec = "game"     -> Desc.game_messages
                  [] sec = "connless" -> Desc.connless_messages
                  [] sec = "obj"      -> Desc.snapshot_objects

KnownEnum(n) == \E e \in Range(Desc.game_enumerations) : e.name = n
EnumOf(n)    == CHOOSE e \in Range(Desc.game_enumerations) : e.name = n
EnumVals(n)  == {EnumOf(n).values[i].value : i \in DOMAIN EnumOf(n).values}
KnownFlags(n) == \E e \in Range(Desc.game_flags) : e.name = n
FlagsOf(n)   == CHOOSE e \in Range(Desc.game_flags) : e.name = n
FlagVals(n)  == [i \in DOMAIN FlagsOf(n).values |-> FlagsOf(n).values[i].value]
KnownObj(n)  == \E o \in Range(Desc.snapshot_objects) : o.name = n
ObjOf(n)     == CHOOSE o \in Range(Desc.snapshot_objects) : o.name = n

MemberTypes(m) == [i \in DOMAIN m.members |-> m.members[i].type]
RECURSIVE ObjTypes(_)          \* members of the parent object first (datatypes.py: decode_inner of super)
ObjTypes(o) == (IF Has(o, "super") THEN ObjTypes(ObjOf(o.super)) ELSE <<>>) \o MemberTypes(o)
RECURSIVE ObjMemberNames(_)
ObjMemberNames(o) == (IF Has(o, "super") THEN ObjMemberNames(ObjOf(o.super)) ELSE <<>>)
                     \o [i \in DOMAIN o.members |-> o.members[i].name]
SecTypes(sec, m) == IF sec = "obj" THEN ObjTypes(m) ELSE MemberTypes(m)

IntKinds == {"int32", "enum", "flags", "boolean", "tune_param", "tick"}
RawKinds == {"rest", "serverinfo_client", "packed_addresses"}

-----------------------------------------------------------------------------
(* Which member kinds this interpreter covers (everything else is reported as
   uncovered, never dropped silently). Byte context = messages, word context =
   snapshot objects. *)
IntCovered(t) == CASE t.kind = "int32" -> (Has(t, "max") => Has(t, "min"))   \* datatypes.py: max alone is a KeyError
                   [] t.kind = "enum"  -> KnownEnum(t.enum)
                   [] OTHER -> TRUE
RECURSIVE CoveredW(_)
CoveredW(t) == CASE t.kind \in IntKinds \ {"tune_param"} -> IntCovered(t)
                 [] t.kind = "array" -> CoveredW(t.member_type)
                 [] t.kind = "int32_twstring" -> TRUE
                 [] OTHER -> FALSE
RECURSIVE CoveredB(_)
CoveredB(t) ==
  CASE t.kind \in IntKinds -> IntCovered(t)
    [] t.kind \in {"string", "data", "sha256", "uuid", "be_uint16", "uint8", "int32_string"} \cup RawKinds -> TRUE
    [] t.kind = "optional" ->          \* `<inner decode>.ok()`: only inner kinds with a single fallible step
         \/ t.inner.kind \in {"flags", "tune_param", "tick"}
         \/ t.inner.kind = "int32" /\ ~Has(t.inner, "min") /\ ~Has(t.inner, "max")
         \/ t.inner.kind = "string" /\ ~t.inner.disallow_cc
    [] t.kind = "array" -> CoveredB(t.member_type)
    [] t.kind = "snapshot_object" ->   \* `Obj::decode_msg`: members only, no parent
         /\ KnownObj(t.name) /\ ~Has(ObjOf(t.name), "super")
         /\ \A u \in Range(MemberTypes(ObjOf(t.name))) : u.kind \in IntKinds \cup {"array"} /\ CoveredB(u)
    [] OTHER -> FALSE
Covered(sec, m) == IF sec = "obj"
                   THEN (Has(m, "super") => KnownObj(m.super)) /\ \A t \in Range(ObjTypes(m)) : CoveredW(t)
                   ELSE \A t \in Range(MemberTypes(m)) : CoveredB(t)

-----------------------------------------------------------------------------
(* Declared constraints *)
ValidInt(t, v) == CASE t.kind = "int32"   -> (Has(t, "min") => v >= t.min) /\ (Has(t, "max") => v <= t.max)
                    [] t.kind = "enum"    -> v \in EnumVals(t.enum)
                    [] t.kind = "boolean" -> v \in {0, 1}
                    [] OTHER -> TRUE        \* flags, tune_param, tick: any 32-bit integer

\* Rust `str::parse::<i32>`: optional single sign, at least one ASCII digit, no overflow.
\* Accumulated in the negative range so that -2^31 is representable; 1 = overflow.
NegVal(ds) == FoldLeft(LAMBDA a, d : IF a = 1 \/ a < -214748364 THEN 1
                                     ELSE IF a * 10 < MinInt + (d - 48) THEN 1 ELSE a * 10 - (d - 48), 0, ds)
I32Str(s) == LET neg == Len(s) > 0 /\ s[1] = 45
                 pos == Len(s) > 0 /\ s[1] = 43
                 ds  == IF neg \/ pos THEN Tail(s) ELSE s
             IN IF Len(ds) = 0 \/ \E i \in DOMAIN ds : ds[i] \notin 48..57 THEN [ok |-> FALSE]
                ELSE LET nv == NegVal(ds) IN
                     IF nv = 1 \/ (~neg /\ nv = MinInt) THEN [ok |-> FALSE]
                     ELSE [ok |-> TRUE, v |-> IF neg THEN nv ELSE -nv]
RECURSIVE DecDigits(_)
DecDigits(n) == IF n < 10 THEN <<48 + n>> ELSE Append(DecDigits(n \div 10), 48 + (n % 10))
Dec(n) == IF n = MinInt THEN <<45, 50, 49, 52, 55, 52, 56, 51, 54, 52, 56>>
          ELSE IF n < 0 THEN <<45>> \o DecDigits(-n) ELSE DecDigits(n)
ASSUME Dec(0) = <<48>> /\ Dec(-12) = <<45, 49, 50>> /\ I32Str(Dec(MinInt)).v = MinInt /\ I32Str(Dec(MaxInt)).v = MaxInt
ASSUME ~I32Str(<<50, 49, 52, 55, 52, 56, 51, 54, 52, 56>>).ok /\ ~I32Str(<<45>>).ok /\ I32Str(<<43, 48, 55>>).v = 7

RECURSIVE ValidB(_, _)
ValidB(t, v) ==
  CASE t.kind \in IntKinds -> ValidInt(t, v)
    [] t.kind = "string" -> t.disallow_cc => \A i \in DOMAIN v : v[i] >= 32
    [] t.kind = "int32_string" -> I32Str(v).ok
    [] t.kind = "optional" -> v = <<>> \/ ValidB(t.inner, v[1])
    [] t.kind = "array" -> \A i \in 1..t.count : ValidB(t.member_type, v[i])
    [] t.kind = "snapshot_object" -> LET ts == MemberTypes(ObjOf(t.name)) IN \A i \in DOMAIN ts : ValidB(ts[i], v[i])
    [] OTHER -> TRUE
RECURSIVE ValidW(_, _)
ValidW(t, v) == CASE t.kind \in IntKinds -> ValidInt(t, v)
                  [] t.kind = "array" -> \A i \in 1..t.count : ValidW(t.member_type, v[i])
                  [] OTHER -> TRUE

-----------------------------------------------------------------------------
(* Encoding of a value *)
RECURSIVE EncB(_, _)
EncB(t, v) ==
  CASE t.kind \in IntKinds -> Encode(v)
    [] t.kind \in {"string", "int32_string"} -> v \o <<0>>
    [] t.kind = "data" -> Encode(Len(v)) \o v
    [] t.kind \in RawKinds \cup {"sha256", "uuid"} -> v
    [] t.kind = "be_uint16" -> <<v \div 256, v % 256>>
    [] t.kind = "uint8" -> <<v>>
    [] t.kind = "optional" -> IF v = <<>> THEN <<>> ELSE EncB(t.inner, v[1])
    [] t.kind = "array" -> Flat([i \in 1..t.count |-> EncB(t.member_type, v[i])])
    [] t.kind = "snapshot_object" -> LET ts == MemberTypes(ObjOf(t.name)) IN Flat([i \in DOMAIN ts |-> EncB(ts[i], v[i])])
RECURSIVE EncW(_, _)
EncW(t, v) == CASE t.kind \in IntKinds -> <<v>>
                [] t.kind = "array" -> Flat([i \in 1..t.count |-> EncW(t.member_type, v[i])])
                [] t.kind = "int32_twstring" -> v
RECURSIVE SizeW(_)
SizeW(t) == CASE t.kind \in IntKinds -> 1
              [] t.kind = "array" -> t.count * SizeW(t.member_type)
              [] t.kind = "int32_twstring" -> t.count
ObjSize(o) == FoldLeft(LAMBDA a, t : a + SizeW(t), 0, ObjTypes(o))

(* What `encode(decode(x))` writes for a decoded value: the integer of an
   int32_string is printed in decimal, packed addresses lose a partial record. *)
RECURSIVE Norm(_, _)
Norm(t, v) == CASE t.kind = "int32_string" -> Dec(I32Str(v).v)
                [] t.kind = "packed_addresses" -> SubSeq(v, 1, Len(v) - (Len(v) % 18))
                [] OTHER -> v
\* `encode` asserts that every optional member is present
Encodable(t, v) == t.kind = "optional" => v # <<>>

-----------------------------------------------------------------------------
(* Operational reading *)
POk(v, p, w) == [r |-> "ok", v |-> v, p |-> p, w |-> w]
PErr(e)      == [r |-> "err", e |-> e]
\* An integer with non-zero padding bits is read the way libtw2's packer reads it (VarInt!DecodeAt:
\* vimpl, warning NonZeroIntPadding); vimpl is doc/int.md's value unless the lowest padding bit is set.
ReadInt(b, p) == LET d == DecodeAt(b, p) IN
                 IF d.r = "end" THEN PErr("end")
                 ELSE POk(d.vimpl, p + d.n, (IF d.over THEN {"OverlongIntEncoding"} ELSE {})
                                            \cup (IF d.pad THEN {"NonZeroIntPadding"} ELSE {}))
ReadRaw(b, p, n) == IF n > Len(b) - p + 1 THEN PErr("end") ELSE POk(SubSeq(b, p, p + n - 1), p + n, {})
ReadString(b, p) == IF p > Len(b) THEN PErr("end") ELSE
                    LET k == SelectInSeq(SubSeq(b, p, Len(b)), LAMBDA x : x = 0) IN     \* first NUL at b[p + k - 1]
                    IF k = 0 THEN PErr("end") ELSE POk(SubSeq(b, p, p + k - 2), p + k, {})
ReadData(b, p) == LET l == ReadInt(b, p) IN
                  IF l.r # "ok" THEN l
                  ELSE IF l.v < 0 \/ l.v > Len(b) - l.p + 1 THEN PErr("end")
                  ELSE POk(SubSeq(b, l.p, l.p + l.v - 1), l.p + l.v, l.w)
ReadRest(b, p) == POk(SubSeq(b, p, Len(b)), Len(b) + 1, {})

(* `finish` of the byte unpacker (packer/src/lib.rs): whatever is left is excess data - except
   behind Unpacker::new_from_demo (dm = TRUE; messages stored in demo files are zero-padded to a
   multiple of four bytes), where up to three zero bytes are padding: "rest.len() >= 4 ||
   rest.iter().any(|&b| b != 0)" warns. *)
ExcessB(b, p, dm) == LET n == Len(b) - p + 1 IN
                     IF dm THEN n >= 4 \/ \E i \in p..Len(b) : b[i] # 0 ELSE n > 0

RECURSIVE ParseB(_, _, _, _)
ParseSeqB(ts, b, p0, dm) ==
  FoldLeft(LAMBDA a, t : IF a.r # "ok" THEN a ELSE
                         LET x == ParseB(t, b, a.p, dm) IN
                         IF x.r # "ok" THEN x ELSE POk(Append(a.v, x.v), x.p, a.w \cup x.w),
           POk(<<>>, p0, {}), ts)
ParseB(t, b, p, dm) ==
  CASE t.kind \in IntKinds ->
         LET i == ReadInt(b, p) IN IF i.r # "ok" THEN i ELSE IF ValidInt(t, i.v) THEN i ELSE PErr("range")
    [] t.kind = "string" ->
         LET s == ReadString(b, p) IN
         IF s.r # "ok" THEN s ELSE IF t.disallow_cc /\ \E i \in DOMAIN s.v : s.v[i] < 32 THEN PErr("cc") ELSE s
    [] t.kind = "int32_string" ->
         LET s == ReadString(b, p) IN IF s.r # "ok" THEN s ELSE IF I32Str(s.v).ok THEN s ELSE PErr("intstr")
    [] t.kind = "data" -> ReadData(b, p)
    [] t.kind \in {"rest", "serverinfo_client"} -> ReadRest(b, p)
    [] t.kind = "packed_addresses" ->
         LET x == ReadRest(b, p) IN [x EXCEPT !.w = IF Len(x.v) % 18 # 0 THEN {"ExcessData"} ELSE {}]
    [] t.kind = "sha256" -> ReadRaw(b, p, 32)
    [] t.kind = "uuid" -> ReadRaw(b, p, 16)
    [] t.kind = "be_uint16" -> LET x == ReadRaw(b, p, 2) IN IF x.r # "ok" THEN x ELSE [x EXCEPT !.v = x.v[1] * 256 + x.v[2]]
    [] t.kind = "uint8" -> LET x == ReadRaw(b, p, 1) IN IF x.r # "ok" THEN x ELSE [x EXCEPT !.v = x.v[1]]
    [] t.kind = "optional" ->       \* `.ok()`: a failing inner read exhausts the input and yields None
         LET i == ParseB(t.inner, b, p, dm) IN
         IF i.r = "ok" THEN [i EXCEPT !.v = <<i.v>>]
         ELSE IF i.r = "err" THEN POk(<<>>, Len(b) + 1, {}) ELSE i
    [] t.kind = "array" -> ParseSeqB(Rep(t.count, t.member_type), b, p, dm)
    [] t.kind = "snapshot_object" ->  \* decode_msg ends with `_p.finish(..)`: the rest of the input is excess data
         LET x == ParseSeqB(MemberTypes(ObjOf(t.name)), b, p, dm) IN
         IF x.r # "ok" THEN x
         ELSE [x EXCEPT !.p = Len(b) + 1, !.w = @ \cup (IF ExcessB(b, x.p, dm) THEN {"ExcessData"} ELSE {})]

RECURSIVE ParseW(_, _, _)
ParseSeqW(ts, ws, p0) ==
  FoldLeft(LAMBDA a, t : IF a.r # "ok" THEN a ELSE
                         LET x == ParseW(t, ws, a.p) IN
                         IF x.r # "ok" THEN x ELSE POk(Append(a.v, x.v), x.p, {}),
           POk(<<>>, p0, {}), ts)
ParseW(t, ws, p) ==
  CASE t.kind \in IntKinds -> IF p > Len(ws) THEN PErr("end")
                              ELSE IF ValidInt(t, ws[p]) THEN POk(ws[p], p + 1, {}) ELSE PErr("range")
    [] t.kind = "array" -> ParseSeqW(Rep(t.count, t.member_type), ws, p)
    [] t.kind = "int32_twstring" -> ReadRaw(ws, p, t.count)

-----------------------------------------------------------------------------
(* Message identifiers (gamenet/common/src/msg.rs): integer (ordinal << 1 | system),
   ordinal 0 = a 16-byte UUID follows. Connless: 8 raw bytes. *)
HexVal == [c \in {"0","1","2","3","4","5","6","7","8","9","a","b","c","d","e","f","A","B","C","D","E","F"} |->
             CASE c = "0" -> 0 [] c = "1" -> 1 [] c = "2" -> 2 [] c = "3" -> 3 [] c = "4" -> 4 [] c = "5" -> 5
               [] c = "6" -> 6 [] c = "7" -> 7 [] c = "8" -> 8 [] c = "9" -> 9
               [] c \in {"a", "A"} -> 10 [] c \in {"b", "B"} -> 11 [] c \in {"c", "C"} -> 12
               [] c \in {"d", "D"} -> 13 [] c \in {"e", "E"} -> 14 [] c \in {"f", "F"} -> 15]
HexPos == SelectSeq([i \in 1..36 |-> i], LAMBDA i : i \notin {9, 14, 19, 24})
UuidBytes(s) == [k \in 1..16 |-> 16 * HexVal[SubSeq(s, HexPos[2 * k - 1], HexPos[2 * k - 1])]
                                  + HexVal[SubSeq(s, HexPos[2 * k], HexPos[2 * k])]]
ASSUME UuidBytes("e05ddaaa-c4e6-4cfb-b642-5d48e80c0029") =
         <<224, 93, 218, 170, 196, 230, 76, 251, 182, 66, 93, 72, 232, 12, 0, 41>>

IsUuidId(m) == Has(m, "id_from")
IdOrd(m)  == IF IsUuidId(m) THEN 0 ELSE m.id
IdUuid(m) == IF IsUuidId(m) THEN UuidBytes(m.id) ELSE <<>>
Header(sec, m) ==
  CASE sec \in {"system", "game"} -> LET f == IF sec = "system" THEN 1 ELSE 0 IN
                                     IF IsUuidId(m) THEN Encode(f) \o UuidBytes(m.id) ELSE Encode(m.id * 2 + f)
    [] sec = "connless" -> m.id
    [] sec = "obj" -> <<>>

\* index of the message of a section with this identifier, 0 if there is none
Lookup(sec, ord, uuid) ==
  LET ms == SecMsgs(sec)
      hit == {i \in DOMAIN ms : IF IsUuidId(ms[i]) THEN ord = 0 /\ uuid = UuidBytes(ms[i].id)
                                                     ELSE ord # 0 /\ ms[i].id = ord}
  IN IF hit = {} THEN 0 ELSE CHOOSE i \in hit : \A j \in hit : i <= j
LookupConnless(id8) ==
  LET ms == Desc.connless_messages
      hit == {i \in DOMAIN ms : ms[i].id = id8}
  IN IF hit = {} THEN 0 ELSE CHOOSE i \in hit : \A j \in hit : i <= j

-----------------------------------------------------------------------------
(* Whole messages / objects *)
Finish(x, n) == IF x.r # "ok" THEN x
                ELSE [x EXCEPT !.p = n + 1, !.w = @ \cup (IF x.p <= n THEN {"ExcessData"} ELSE {})]
FinishB(x, b, dm) == IF x.r # "ok" THEN x
                     ELSE [x EXCEPT !.p = Len(b) + 1, !.w = @ \cup (IF ExcessB(b, x.p, dm) THEN {"ExcessData"} ELSE {})]

ReEncBody(sec, m, vals) ==
  LET ts == SecTypes(sec, m) IN
  IF sec = "obj" THEN Flat([i \in DOMAIN ts |-> EncW(ts[i], vals[i])])
  ELSE Flat([i \in DOMAIN ts |-> EncB(ts[i], Norm(ts[i], vals[i]))])
EncBody(sec, m, vals) ==
  LET ts == SecTypes(sec, m) IN
  IF sec = "obj" THEN Flat([i \in DOMAIN ts |-> EncW(ts[i], vals[i])])
  ELSE Flat([i \in DOMAIN ts |-> EncB(ts[i], vals[i])])
ValidVals(sec, m, vals) ==
  LET ts == SecTypes(sec, m) IN
  \A i \in DOMAIN ts : IF sec = "obj" THEN ValidW(ts[i], vals[i]) ELSE ValidB(ts[i], vals[i])
EncodableVals(sec, m, vals) ==
  LET ts == SecTypes(sec, m) IN \A i \in DOMAIN ts : Encodable(ts[i], vals[i])

\* Result of reading `b` as message `mi` of `sec` from position p (after the identifier).
\* [r |-> "ok", sec, mi, v, w, enc (TRUE iff encode is defined), re (the re-encoding incl. identifier)]
ParseBody(sec, mi, b, p, w0, dm) ==
  LET m == SecMsgs(sec)[mi]
      x == IF ~Covered(sec, m) THEN [r |-> "uncovered"]
           ELSE IF sec = "obj" THEN Finish(ParseSeqW(ObjTypes(m), b, p), Len(b))
           ELSE FinishB(ParseSeqB(MemberTypes(m), b, p, dm), b, dm)
  IN IF x.r # "ok" THEN x
     ELSE [r |-> "ok", sec |-> sec, mi |-> mi, v |-> x.v, w |-> w0 \cup x.w,
           enc |-> EncodableVals(sec, m, x.v),
           re |-> IF EncodableVals(sec, m, x.v) THEN Header(sec, m) \o ReEncBody(sec, m, x.v) ELSE <<>>]

\* generic entry points for system and game messages: `msg::decode` (want = "any") and the
\* inherent `System::decode` / `Game::decode` (decode_id, then UnknownId for the other kind)
ParseMsgAs(want, b, dm) ==
  LET i == ReadInt(b, 1) IN
  IF i.r # "ok" THEN i ELSE
  LET sec == IF i.v % 2 = 1 THEN "system" ELSE "game"
      ord == i.v \div 2
      u   == IF ord # 0 THEN POk(<<>>, i.p, {}) ELSE ReadRaw(b, i.p, 16)
  IN IF u.r # "ok" THEN u ELSE
     IF want # "any" /\ want # sec THEN PErr("unknown_id") ELSE
     LET mi == Lookup(sec, ord, u.v) IN
     IF mi = 0 THEN PErr("unknown_id") ELSE ParseBody(sec, mi, b, u.p, i.w, dm)
ParseMsg(b) == ParseMsgAs("any", b, FALSE)
ParseConnless(b, dm) ==
  LET h == ReadRaw(b, 1, 8) IN
  IF h.r # "ok" THEN h ELSE
  LET mi == LookupConnless(h.v) IN
  IF mi = 0 THEN PErr("unknown_id") ELSE ParseBody("connless", mi, b, 9, {}, dm)
ParseObj(ord, uuid, ws) ==
  LET mi == Lookup("obj", ord, uuid) IN
  IF mi = 0 THEN PErr("unknown_id") ELSE ParseBody("obj", mi, ws, 1, {}, FALSE)
\* obj_size(type id): described size of objects with an ordinal identifier, -1 = None
ObjSizeOf(ord) == LET mi == Lookup("obj", ord, <<>>) IN
                  IF ord = 0 \/ mi = 0 \/ ~Covered("obj", Desc.snapshot_objects[mi]) THEN -1
                  ELSE ObjSize(Desc.snapshot_objects[mi])

\* The entry points behind Unpacker::new_from_demo (names with a leading "d"): the constructor asserts
\* that the length is a multiple of four ("demo data must be padded to a multiple of four bytes").
DemoEntries == {"dmsg", "dsystem", "dgame", "dtsystem", "dtgame", "dconnless"}
PPrecond == [r |-> "precond"]
ParseAny(sec, ord, uuid, b) == CASE sec = "msg" -> ParseMsg(b)
                                 [] sec \in {"system", "game"} -> ParseMsgAs(sec, b, FALSE)
                                 \* the same through libtw2_gamenet_common::traits (MessageExt, SnapObj)
                                 [] sec = "tsystem" -> ParseMsgAs("system", b, FALSE)
                                 [] sec = "tgame" -> ParseMsgAs("game", b, FALSE)
                                 [] sec = "tobj" -> ParseObj(ord, uuid, b)
                                 [] sec = "connless" -> ParseConnless(b, FALSE)
                                 [] sec = "obj" -> ParseObj(ord, uuid, b)
                                 [] sec \in DemoEntries ->
                                      IF Len(b) % 4 # 0 THEN PPrecond
                                      ELSE CASE sec = "dmsg" -> ParseMsgAs("any", b, TRUE)
                                             [] sec \in {"dsystem", "dtsystem"} -> ParseMsgAs("system", b, TRUE)
                                             [] sec \in {"dgame", "dtgame"} -> ParseMsgAs("game", b, TRUE)
                                             [] sec = "dconnless" -> ParseConnless(b, TRUE)

-----------------------------------------------------------------------------
(* Canonical values and the boundary sweep *)
Clamp(t, x) == IF Has(t, "min") /\ x < t.min THEN t.min ELSE IF Has(t, "max") /\ x > t.max THEN t.max ELSE x
NthOf(S, n) == CHOOSE v \in S : Cardinality({w \in S : w < v}) = n % Cardinality(S)
FlagAll(n) == FoldLeft(LAMBDA a, x : a + x, 0, FlagVals(n))

RECURSIVE Canon(_, _)
Canon(t, s) ==
  CASE t.kind = "int32" -> IF Has(t, "min") /\ Has(t, "max") /\ t.min >= -1000000 /\ t.max <= 1000000
                           THEN t.min + ((100 + s) % (t.max - t.min + 1)) ELSE Clamp(t, 100 + s)
    [] t.kind = "enum" -> NthOf(EnumVals(t.enum), s)
    [] t.kind = "boolean" -> 1
    [] t.kind = "flags" -> IF KnownFlags(t.flags) THEN FlagAll(t.flags) ELSE 5
    [] t.kind = "tune_param" -> 100 + s
    [] t.kind = "tick" -> 1000 + s
    [] t.kind = "string" -> <<115, 48 + (s % 10)>>
    [] t.kind = "data" -> <<1, 0, 255, s % 256>>
    [] t.kind = "rest" -> <<7, 0, s % 256>>
    [] t.kind = "sha256" -> [i \in 1..32 |-> (i * 7 + s) % 256]
    [] t.kind = "uuid" -> [i \in 1..16 |-> (i * 11 + s) % 256]
    [] t.kind = "be_uint16" -> 258 + s
    [] t.kind = "uint8" -> 200 + (s % 50)
    [] t.kind = "int32_string" -> Dec(12 + s)
    [] t.kind = "packed_addresses" -> [i \in 1..18 |-> (i + s) % 256]
    [] t.kind = "serverinfo_client" -> <<110, 0, 99, 0, 49, 0, 50, 0, 48, 0>>
    [] t.kind = "optional" -> <<Canon(t.inner, s)>>
    [] t.kind = "array" -> [i \in 1..t.count |-> Canon(t.member_type, s + i - 1)]
    [] t.kind = "snapshot_object" ->
         LET ts == MemberTypes(ObjOf(t.name)) IN [i \in DOMAIN ts |-> Canon(ts[i], s + i)]
    [] t.kind = "int32_twstring" -> [i \in 1..t.count |-> IF i = t.count THEN -2139062144 + s ELSE i * 16843009 - 2139062144]

\* Full = TRUE adds the doc/int.md length boundaries to every integer member
Full == IF "GAMENET_FULL" \in DOMAIN IOEnv THEN IOEnv.GAMENET_FULL = "1" ELSE FALSE

IntPoints(t) ==
  LET base == {0, -1, MinInt, MaxInt} \cup (IF Full THEN VarIntBoundaries ELSE {64, -65})
      own  == CASE t.kind = "int32" ->
                     (IF Has(t, "min") THEN {t.min} \cup (IF t.min > MinInt THEN {t.min - 1} ELSE {}) ELSE {})
                     \cup (IF Has(t, "max") THEN {t.max} \cup (IF t.max < MaxInt THEN {t.max + 1} ELSE {}) ELSE {})
                [] t.kind = "enum" -> (LET S == EnumVals(t.enum) IN
                     S \cup {v - 1 : v \in S} \cup {v + 1 : v \in S})
                [] t.kind = "boolean" -> {0, 1, 2, -1}
                [] t.kind = "flags" -> (IF KnownFlags(t.flags)
                     THEN (LET fv == FlagVals(t.flags) IN
                           Range(fv) \cup {FlagAll(t.flags)}
                           \cup (IF Len(fv) < 31 THEN {fv[Len(fv)] * 2} ELSE {}))     \* first undeclared bit
                     ELSE {})
                [] OTHER -> {}
  IN SetToSortSeq(base \cup own, <)

Tagged(tag, v) == [tag |-> tag, v |-> v]
Str(n, c) == Rep(n, c)
LongLen == IF Full THEN 3000 ELSE 300

(* The key points of a sweep S of a member of type t: first and last point that satisfy the declared
   constraint, and the violating points next to them (the last one below, the first one above; any
   violating point when there is none on that side). Integer sweeps are sorted by value, so for a
   range these are min, max, min-1, max+1. Used where the full sweep would be too large: the inner
   indices of arrays (quick tier) and the pairs of members. *)
SetMin(S) == CHOOSE x \in S : \A y \in S : x <= y
SetMax(S) == CHOOSE x \in S : \A y \in S : y <= x
KeyIdx(t, S) ==
  LET V == {k \in DOMAIN S : ValidB(t, S[k].v)}
      X == DOMAIN S \ V
      below == IF V = {} THEN {} ELSE {k \in X : k < SetMin(V)}
      above == IF V = {} THEN X ELSE {k \in X : k > SetMax(V)}
      near  == (IF below = {} THEN {} ELSE {SetMax(below)}) \cup (IF above = {} THEN {} ELSE {SetMin(above)})
  IN SetToSortSeq((IF V = {} THEN {} ELSE {SetMin(V), SetMax(V)})
                  \cup (IF near = {} /\ X # {} THEN {SetMin(X)} ELSE near), <)

RECURSIVE Sweep(_, _)
Sweep(t, s) ==
  CASE t.kind \in IntKinds -> LET ps == IntPoints(t) IN [i \in DOMAIN ps |-> Tagged("int " \o ToString(ps[i]), ps[i])]
    [] t.kind = "string" ->
         << Tagged("empty", <<>>), Tagged("one", <<97>>), Tagged("long", Str(LongLen, 120)),
            Tagged("space del high", <<32, 126, 127, 128, 255>>), Tagged("utf8", <<195, 164, 226, 130, 172>>),
            \* spaces are ordinary bytes wherever they stand (a strict string only forbids bytes < 0x20)
            Tagged("leading spaces", <<32, 32, 104, 105>>), Tagged("trailing spaces", <<104, 105, 32, 32>>),
            Tagged("inner spaces", <<104, 32, 32, 105>>), Tagged("only spaces", <<32, 32, 32>>),
            Tagged("one space", <<32>>), Tagged("63", Str(63, 65)), Tagged("64", Str(64, 66)),
            Tagged("1024", Str(1024, 121)),
            Tagged("cc 1f", <<97, 31, 98>>), Tagged("cc 01", <<1>>), Tagged("cc tab", <<97, 9>>),
            Tagged("cc lf", <<10, 97>>), Tagged("cc cr", <<13>>) >>
    [] t.kind = "data" ->
         \* lengths around the sizes of the length prefix (63/64, 8191/8192), powers of two and the
         \* round sizes protocol implementations use for parts and packets (900, 1024, 1400)
         LET lens == <<63, 64, 255, 256, 899, 900, 901, 1023, 1024, 1025, 1400>>
                     \o (IF Full THEN <<300, 2047, 2048, 3000, 8191, 8192>> ELSE <<>>) IN
         << Tagged("empty", <<>>), Tagged("one zero", <<0>>) >>
         \o [k \in DOMAIN lens |-> Tagged(ToString(lens[k]), [i \in 1..lens[k] |-> (i + lens[k]) % 256])]
    [] t.kind = "rest" -> << Tagged("empty", <<>>), Tagged("zero", <<0>>), Tagged("some", <<1, 2, 3, 0, 255>>) >>
    [] t.kind = "serverinfo_client" -> << Tagged("empty", <<>>), Tagged("odd", <<110, 0, 99>>) >>
    [] t.kind = "packed_addresses" ->
         << Tagged("none", <<>>), Tagged("two", [i \in 1..36 |-> 255 - i]),
            Tagged("partial record", [i \in 1..19 |-> i]), Tagged("short", <<1, 2, 3>>) >>
    [] t.kind = "sha256" -> << Tagged("zeros", Str(32, 0)), Tagged("ones", Str(32, 255)) >>
    [] t.kind = "uuid" -> << Tagged("zeros", Str(16, 0)), Tagged("ones", Str(16, 255)) >>
    [] t.kind = "be_uint16" -> [i \in 1..5 |-> LET v == <<0, 1, 255, 256, 65535>>[i] IN Tagged("u16 " \o ToString(v), v)]
    [] t.kind = "uint8" -> [i \in 1..5 |-> LET v == <<0, 1, 127, 128, 255>>[i] IN Tagged("u8 " \o ToString(v), v)]
    [] t.kind = "int32_string" ->
         << Tagged("0", Dec(0)), Tagged("-1", Dec(-1)), Tagged("max", Dec(MaxInt)), Tagged("min", Dec(MinInt)),
            Tagged("plus sign", <<43, 53>>), Tagged("leading zeros", <<48, 48, 55>>), Tagged("minus zero", <<45, 48>>),
            Tagged("empty", <<>>), Tagged("only minus", <<45>>), Tagged("only plus", <<43>>),
            Tagged("max+1", <<50, 49, 52, 55, 52, 56, 51, 54, 52, 56>>),
            Tagged("min-1", <<45, 50, 49, 52, 55, 52, 56, 51, 54, 52, 57>>),
            Tagged("trailing letter", <<49, 97>>), Tagged("leading space", <<32, 49>>), Tagged("trailing space", <<49, 32>>),
            Tagged("hex", <<48, 120, 49, 48>>), Tagged("double sign", <<45, 45, 49>>), Tagged("not utf8", <<49, 255>>),
            Tagged("twenty digits", Str(20, 57)) >>
    [] t.kind = "optional" ->
         LET in == Sweep(t.inner, s) IN [i \in DOMAIN in |-> Tagged("some " \o in[i].tag, <<in[i].v>>)]
    [] t.kind = "array" ->
         LET c == Canon(t, s)
             at(j) == LET in == Sweep(t.member_type, s + j - 1) IN
                      [i \in DOMAIN in |-> Tagged("[" \o ToString(j) \o "] " \o in[i].tag, [c EXCEPT ![j] = in[i].v])]
             \* an inner index: the key points only (every point in the thorough tier)
             key(j) == LET in == Sweep(t.member_type, s + j - 1)
                           ks == KeyIdx(t.member_type, in) IN
                       [n \in DOMAIN ks |-> Tagged("[" \o ToString(j) \o "] " \o in[ks[n]].tag, [c EXCEPT ![j] = in[ks[n]].v])]
         IN Flat([j \in 1..t.count |-> IF j \in {1, t.count} \/ Full THEN at(j) ELSE key(j)])
    [] t.kind = "snapshot_object" ->
         LET ts == MemberTypes(ObjOf(t.name))
             c == Canon(t, s)
             at(j) == LET in == Sweep(ts[j], s + j) IN
                      [i \in DOMAIN in |-> Tagged("." \o ToString(j) \o " " \o in[i].tag, [c EXCEPT ![j] = in[i].v])]
         IN Flat([j \in DOMAIN ts |-> at(j)])
    [] t.kind = "int32_twstring" ->
         << Tagged("zeros", Str(t.count, 0)), Tagged("min max", [i \in 1..t.count |-> IF i % 2 = 1 THEN MinInt ELSE MaxInt]) >>

CanonVals(sec, m) == LET ts == SecTypes(sec, m) IN [i \in DOMAIN ts |-> Canon(ts[i], i)]

(* A vector is <<sec, mi, slot, k>>:
     slot 0: k = 1 canonical value tuple, k = 2 canonical followed by one excess byte / word,
             k = 3 the identifier next to the largest ordinal of the section (unknown)
     slot i >= 1: member i takes the k-th value of its sweep, the others stay canonical;
             k = 0: optional member i and everything after it absent. *)
SlotCount(sec, m, i) == Len(Sweep(SecTypes(sec, m)[i], i))
AbsentOK(sec, m, i) == LET ts == SecTypes(sec, m) IN
                       sec # "obj" /\ \A j \in i..Len(ts) : ts[j].kind = "optional"
\* a member that takes the rest of the input: nothing can be "excess" after it
HasTail(sec, m) == \E t \in Range(SecTypes(sec, m)) : t.kind \in RawKinds
VecIds ==
  UNION {
    UNION { IF ~Covered(sec, SecMsgs(sec)[mi]) THEN {}
            ELSE LET m == SecMsgs(sec)[mi] IN
                 {<<sec, mi, 0, 1>>} \cup (IF HasTail(sec, m) THEN {} ELSE {<<sec, mi, 0, 2>>})
                 \cup UNION { {<<sec, mi, i, k>> : k \in 1..SlotCount(sec, m, i)}
                              \cup (IF AbsentOK(sec, m, i) THEN {<<sec, mi, i, 0>>} ELSE {})
                              : i \in DOMAIN SecTypes(sec, m) }
          : mi \in DOMAIN SecMsgs(sec) }
    \cup (IF sec # "connless" /\ Len(SecMsgs(sec)) > 0 THEN {<<sec, 0, 0, 3>>} ELSE {})
    : sec \in Range(Sections) }

Uncovered == { <<sec, mi>> \in UNION {{<<sec, mi>> : mi \in DOMAIN SecMsgs(sec)} : sec \in Range(Sections)} :
               ~Covered(sec, SecMsgs(sec)[mi]) }

MaxOrd(sec) == LET ms == SecMsgs(sec)
                   S == {ms[i].id : i \in {j \in DOMAIN ms : ~IsUuidId(ms[j])}}
               IN IF S = {} THEN 0 ELSE CHOOSE x \in S : \A y \in S : y <= x

VecVals(id) ==
  LET sec == id[1] m == SecMsgs(sec)[id[2]] i == id[3] k == id[4]
      c == CanonVals(sec, m) ts == SecTypes(sec, m)
  IN IF i = 0 THEN c
     ELSE IF k = 0 THEN [j \in DOMAIN c |-> IF j >= i THEN <<>> ELSE c[j]]
     ELSE [c EXCEPT ![i] = Sweep(ts[i], i)[k].v]
VecTag(id) ==
  LET sec == id[1] i == id[3] k == id[4] IN
  IF id[2] = 0 THEN "unknown id"
  ELSE LET m == SecMsgs(sec)[id[2]] ts == SecTypes(sec, m) IN
       IF i = 0 THEN (IF k = 1 THEN "canonical" ELSE "excess")
       ELSE IF k = 0 THEN "absent from " \o ToString(i)
       ELSE ToString(i) \o ": " \o Sweep(ts[i], i)[k].tag

\* the input of a vector: bytes incl. identifier (messages) / words (objects), object identifier
VecInput(id) ==
  LET sec == id[1] IN
  IF id[2] = 0
  THEN [ord |-> MaxOrd(sec) + 1, uuid |-> <<>>,
        data |-> IF sec = "obj" THEN <<1, 2>>
                 ELSE Encode((MaxOrd(sec) + 1) * 2 + (IF sec = "system" THEN 1 ELSE 0)) \o <<1, 2>>]
  ELSE LET m == SecMsgs(sec)[id[2]]
           body == EncBody(sec, m, VecVals(id))
       IN [ord |-> IF sec = "connless" THEN 0 ELSE IdOrd(m), uuid |-> IF sec = "connless" THEN <<>> ELSE IdUuid(m),
           data |-> Header(sec, m) \o body \o (IF id[3] = 0 /\ id[4] = 2 THEN <<5>> ELSE <<>>)]
EntryOf(sec) == IF sec \in {"system", "game"} THEN "msg" ELSE sec
-----------------------------------------------------------------------------
(* Families of vectors beyond the single-member sweep ("main": <<sec, mi, slot, k>> above). The first
   element of an identifier names the family:

     <<"pair", sec, mi, i, ki, j, kj>>   members i < j (adjacent, or first and last) both at a key point
                                         of their sweep (KeyIdx: both boundaries, both nearest violations)
     <<"ienc", sec, mi, i, var>>         the canonical tuple with the integer of member i (0 = the message
                                         identifier) in a non-canonical encoding: 1 overlong, 2..4 non-zero
                                         padding bits that do not reach the value (2, 8, 14), 5 padding bit
                                         that libtw2 moves to bit 31
     <<"demo", sec, mi, var>>            the canonical bytes as stored in a demo file, read behind
                                         Unpacker::new_from_demo: 1 zero-padded to a multiple of four,
                                         2 one more zero word, 3..5 a non-zero byte at padding position
                                         var - 2, 6 not a multiple of four (precondition of the constructor)
     <<"build", sec, mi, i, k>>          a value tuple that no decoder produces, built through the public
                                         struct fields and given to `encode` (k-th BuildExtra point of member i) *)
MsgSections == {"system", "game", "connless"}
Fam(id) == IF id[1] \in Range(Sections) THEN "main" ELSE id[1]
CoveredMsgs(secs) == UNION {{<<sec, mi>> : mi \in {j \in DOMAIN SecMsgs(sec) : Covered(sec, SecMsgs(sec)[j])}} : sec \in secs}

PairsOf(n) == IF n < 2 THEN {} ELSE {<<i, i + 1>> : i \in 1..(n - 1)} \cup (IF n > 2 THEN {<<1, n>>} ELSE {})
\* quick tier: without the lower boundary (the upper boundary and both violations remain)
PairPts(sec, m, i) == LET ts == SecTypes(sec, m)
                          S  == Sweep(ts[i], i)
                          ks == KeyIdx(ts[i], S)
                          V  == {k \in Range(ks) : ValidB(ts[i], S[k].v)}
                      IN IF Full \/ Cardinality(V) < 2 THEN Range(ks) ELSE Range(ks) \ {SetMin(V)}
PairIds == UNION { LET sec == sm[1] mi == sm[2] m == SecMsgs(sec)[mi] IN
                   UNION { {<<"pair", sec, mi, pr[1], ki, pr[2], kj>> :
                               ki \in PairPts(sec, m, pr[1]), kj \in PairPts(sec, m, pr[2])}
                           : pr \in PairsOf(Len(SecTypes(sec, m))) }
                   : sm \in CoveredMsgs(Range(Sections)) }

IntMembers(m) == {i \in DOMAIN m.members : m.members[i].type.kind \in IntKinds}
IencMembers(sec, m) == LET S == IntMembers(m) IN
                       (IF Full \/ S = {} THEN S ELSE {SetMin(S), SetMax(S)})
                       \cup (IF sec = "connless" THEN {} ELSE {0})
IencIds == UNION { {<<"ienc", sm[1], sm[2], i, var>> : i \in IencMembers(sm[1], SecMsgs(sm[1])[sm[2]]), var \in 1..5}
                   : sm \in CoveredMsgs(MsgSections) }
AltInt(x, var) == CASE var = 1 -> Overlong(x)
                    [] var = 2 -> FiveBytes(x, 2)
                    [] var = 3 -> FiveBytes(x, 8)
                    [] var = 4 -> FiveBytes(x, 14)
                    [] var = 5 -> FiveBytes(x, 1)
IencTag(var) == CASE var = 1 -> "overlong" [] var = 2 -> "padding 2" [] var = 3 -> "padding 8"
                  [] var = 4 -> "padding 14" [] var = 5 -> "padding 1"

CanonData(sec, m) == Header(sec, m) \o EncBody(sec, m, CanonVals(sec, m))
DemoPad(d) == (4 - (Len(d) % 4)) % 4
DemoIds == UNION { LET p == DemoPad(CanonData(sm[1], SecMsgs(sm[1])[sm[2]])) IN
                   {<<"demo", sm[1], sm[2], var>> : var \in {1, 2, 6} \cup {2 + q : q \in 1..p}}
                   : sm \in CoveredMsgs(MsgSections) }
DemoTag(var) == CASE var = 1 -> "zero padded" [] var = 2 -> "one more zero word" [] var = 6 -> "not a multiple of four"
                  [] OTHER -> "non-zero padding byte " \o ToString(var - 2)

RECURSIVE BuildExtra(_)
BuildExtra(t) ==
  CASE t.kind = "string" -> << Tagged("nul inside", <<97, 0, 98>>), Tagged("only nul", <<0>>) >>
    [] t.kind = "optional" ->
         LET in == BuildExtra(t.inner) IN
         <<Tagged("none", <<>>)>> \o [i \in DOMAIN in |-> Tagged("some " \o in[i].tag, <<in[i].v>>)]
    [] t.kind = "array" ->
         LET in == BuildExtra(t.member_type)
             c == Canon(t, 1)
             at(j) == [i \in DOMAIN in |-> Tagged("[" \o ToString(j) \o "] " \o in[i].tag, [c EXCEPT ![j] = in[i].v])]
         IN IF t.count = 0 THEN <<>> ELSE IF t.count = 1 THEN at(1) ELSE at(1) \o at(t.count)
    [] OTHER -> <<>>
BuildIds == UNION { LET sec == sm[1] mi == sm[2] ts == SecTypes(sec, SecMsgs(sec)[mi]) IN
                    UNION { {<<"build", sec, mi, i, k>> : k \in DOMAIN BuildExtra(ts[i])} : i \in DOMAIN ts }
                    : sm \in CoveredMsgs(MsgSections) }

\* which families a run enumerates (environment GAMENET_FAMS, default all)
Fams == IF "GAMENET_FAMS" \in DOMAIN IOEnv THEN IOEnv.GAMENET_FAMS ELSE "main,pair,ienc,demo,build"
HasFam(f) == \E k \in 1..(Len(Fams) - Len(f) + 1) : SubSeq(Fams, k, k + Len(f) - 1) = f
AllIds == (IF HasFam("main") THEN VecIds ELSE {}) \cup (IF HasFam("pair") THEN PairIds ELSE {})
          \cup (IF HasFam("ienc") THEN IencIds ELSE {}) \cup (IF HasFam("demo") THEN DemoIds ELSE {})
          \cup (IF HasFam("build") THEN BuildIds ELSE {})

\* section, message and value tuple of an identifier of any family
FSec(id) == IF Fam(id) = "main" THEN id[1] ELSE id[2]
FMi(id)  == IF Fam(id) = "main" THEN id[2] ELSE id[3]
FVals(id) ==
  LET f == Fam(id) IN
  IF f = "main" THEN VecVals(id) ELSE
  LET sec == id[2] m == SecMsgs(sec)[id[3]] ts == SecTypes(sec, m) c == CanonVals(sec, m) IN
  CASE f = "pair"  -> [c EXCEPT ![id[4]] = Sweep(ts[id[4]], id[4])[id[5]].v, ![id[6]] = Sweep(ts[id[6]], id[6])[id[7]].v]
    [] f = "build" -> [c EXCEPT ![id[4]] = BuildExtra(ts[id[4]])[id[5]].v]
    [] OTHER -> c
FTag(id) ==
  LET f == Fam(id) IN
  IF f = "main" THEN VecTag(id) ELSE
  LET sec == id[2] m == SecMsgs(sec)[id[3]] ts == SecTypes(sec, m) IN
  CASE f = "pair"  -> "pair " \o ToString(id[4]) \o ": " \o Sweep(ts[id[4]], id[4])[id[5]].tag
                      \o " & " \o ToString(id[6]) \o ": " \o Sweep(ts[id[6]], id[6])[id[7]].tag
    [] f = "ienc"  -> "integer of member " \o ToString(id[4]) \o " " \o IencTag(id[5])
    [] f = "demo"  -> "demo " \o DemoTag(id[4])
    [] f = "build" -> "build " \o ToString(id[4]) \o ": " \o BuildExtra(ts[id[4]])[id[5]].tag
FEntry(id) == IF Fam(id) = "demo" THEN "d" \o EntryOf(id[2]) ELSE EntryOf(FSec(id))
\* the input of a vector of any family (the build family has none: its values go to `encode`)
FInput(id) ==
  LET f == Fam(id) IN
  IF f = "main" THEN VecInput(id) ELSE
  LET sec == id[2] m == SecMsgs(sec)[id[3]] ts == SecTypes(sec, m) c == CanonVals(sec, m)
      idn == [ord |-> IF sec = "connless" THEN 0 ELSE IdOrd(m), uuid |-> IF sec = "connless" THEN <<>> ELSE IdUuid(m)]
      data ==
        CASE f \in {"pair", "build"} -> Header(sec, m) \o EncBody(sec, m, FVals(id))
          [] f = "ienc" ->
               LET i == id[4] var == id[5] fl == IF sec = "system" THEN 1 ELSE 0 IN
               (IF i # 0 THEN Header(sec, m)
                ELSE IF IsUuidId(m) THEN AltInt(fl, var) \o UuidBytes(m.id) ELSE AltInt(m.id * 2 + fl, var))
               \o Flat([j \in DOMAIN ts |-> IF j = i THEN AltInt(c[j], var) ELSE EncB(ts[j], c[j])])
          [] f = "demo" ->
               LET d == CanonData(sec, m) p == DemoPad(d) var == id[4] IN
               d \o (CASE var = 1 -> Rep(p, 0) [] var = 2 -> Rep(p + 4, 0) [] var = 6 -> Rep(p + 1, 0)
                       [] OTHER -> [q \in 1..p |-> IF q = var - 2 THEN 1 ELSE 0])
  IN [ord |-> idn.ord, uuid |-> idn.uuid, data |-> data]

-----------------------------------------------------------------------------
(* `encode` of a value built through the public struct fields (datatypes.py emit_assert / assert_expr,
   packer write_string). o = TRUE inside a snapshot object, whose fields are all i32 (int_sized).
   RepV:    the Rust type of the field can hold the value (an enum field only holds described values,
            a `bool` only 0/1, the i32 of an int32_string only what a decimal string denotes);
   AssertV: the assertions of `encode` hold: declared ranges (assert!(min <= x && x <= max), x >= min),
            sanitize(&mut Panic, s).unwrap() for strings that disallow control characters,
            assert!(opt.is_some()), and write_string's assert that a string has no NUL. *)
RECURSIVE RepV(_, _, _)
RepV(o, t, v) ==
  CASE t.kind = "enum" -> v \in EnumVals(t.enum)
    [] t.kind = "boolean" -> o \/ v \in {0, 1}
    [] t.kind = "int32_string" -> I32Str(v).ok
    [] t.kind = "be_uint16" -> v \in 0..65535
    [] t.kind = "uint8" -> v \in 0..255
    [] t.kind = "optional" -> v = <<>> \/ RepV(o, t.inner, v[1])
    [] t.kind = "array" -> \A i \in 1..t.count : RepV(o, t.member_type, v[i])
    [] t.kind = "snapshot_object" -> LET ts == MemberTypes(ObjOf(t.name)) IN \A i \in DOMAIN ts : RepV(TRUE, ts[i], v[i])
    [] OTHER -> TRUE
RECURSIVE AssertV(_, _, _)
AssertV(o, t, v) ==
  CASE t.kind = "int32" -> ValidInt(t, v)
    [] t.kind = "boolean" -> o => v \in {0, 1}
    [] t.kind = "string" -> (\A i \in DOMAIN v : v[i] # 0) /\ (t.disallow_cc => \A i \in DOMAIN v : v[i] >= 32)
    [] t.kind = "optional" -> v # <<>> /\ AssertV(o, t.inner, v[1])
    [] t.kind = "array" -> \A i \in 1..t.count : AssertV(o, t.member_type, v[i])
    [] t.kind = "snapshot_object" -> LET ts == MemberTypes(ObjOf(t.name)) IN \A i \in DOMAIN ts : AssertV(TRUE, ts[i], v[i])
    [] OTHER -> TRUE
RECURSIVE NulFree(_, _)
NulFree(t, v) ==
  CASE t.kind = "string" -> \A i \in DOMAIN v : v[i] # 0
    [] t.kind = "optional" -> v = <<>> \/ NulFree(t.inner, v[1])
    [] t.kind = "array" -> \A i \in 1..t.count : NulFree(t.member_type, v[i])
    [] OTHER -> TRUE
\* [rep, ok, bytes]: representable; encode returns (else: panics); what it writes (identifier included)
BuildExp(sec, m, vals) ==
  LET ts == SecTypes(sec, m) o == sec = "obj"
      rp == \A i \in DOMAIN ts : RepV(o, ts[i], vals[i])
      ok == rp /\ \A i \in DOMAIN ts : AssertV(o, ts[i], vals[i])
  IN [rep |-> rp, ok |-> ok, bytes |-> IF ok THEN Header(sec, m) \o ReEncBody(sec, m, vals) ELSE <<>>]
NormVals(sec, m, vals) == LET ts == SecTypes(sec, m) IN
                          [i \in DOMAIN ts |-> IF sec = "obj" THEN vals[i] ELSE Norm(ts[i], vals[i])]

(* First-error order: the class of the first violated constraint of a value tuple, in member order
   (declarative counterpart of the operational ParseSeqB, ParseSeqW). "" = none. *)
FirstNonEmpty(ss) == FoldLeft(LAMBDA a, x : IF a # "" THEN a ELSE x, "", ss)
RECURSIVE ErrOf(_, _)
ErrOf(t, v) ==
  CASE t.kind \in IntKinds -> IF ValidInt(t, v) THEN "" ELSE "range"
    [] t.kind = "string" -> IF t.disallow_cc /\ \E i \in DOMAIN v : v[i] < 32 THEN "cc" ELSE ""
    [] t.kind = "int32_string" -> IF I32Str(v).ok THEN "" ELSE "intstr"
    [] t.kind = "optional" -> IF v = <<>> THEN "" ELSE ErrOf(t.inner, v[1])
    [] t.kind = "array" -> FirstNonEmpty([i \in 1..t.count |-> ErrOf(t.member_type, v[i])])
    [] t.kind = "snapshot_object" ->
         LET ts == MemberTypes(ObjOf(t.name)) IN FirstNonEmpty([i \in DOMAIN ts |-> ErrOf(ts[i], v[i])])
    [] OTHER -> ""
FirstErr(sec, m, vals) == LET ts == SecTypes(sec, m) IN FirstNonEmpty([i \in DOMAIN ts |-> ErrOf(ts[i], vals[i])])

-----------------------------------------------------------------------------
(* Name of the generated Rust type: datatypes.py `title(name)` = "".join(p.title()). *)
LowerCase == <<"a","b","c","d","e","f","g","h","i","j","k","l","m","n","o","p","q","r","s","t","u","v","w","x","y","z">>
UpperCase == <<"A","B","C","D","E","F","G","H","I","J","K","L","M","N","O","P","Q","R","S","T","U","V","W","X","Y","Z">>
IsLower(c) == \E j \in 1..26 : LowerCase[j] = c
IsUpper(c) == \E j \in 1..26 : UpperCase[j] = c
ToUpper(c) == IF IsLower(c) THEN UpperCase[CHOOSE j \in 1..26 : LowerCase[j] = c] ELSE c
ToLower(c) == IF IsUpper(c) THEN LowerCase[CHOOSE j \in 1..26 : UpperCase[j] = c] ELSE c
\* Python str.title(): a letter is upper-cased iff it does not follow a letter
TitleWord(w) ==
  FoldLeft(LAMBDA a, j : LET c == SubSeq(w, j, j)
                             l == IsLower(c) \/ IsUpper(c) IN
                         [s |-> a.s \o (IF a.prev THEN ToLower(c) ELSE ToUpper(c)), prev |-> l],
           [s |-> "", prev |-> FALSE], [j \in 1..Len(w) |-> j]).s
Title(name) == FoldLeft(LAMBDA a, w : a \o TitleWord(w), "", name)
ASSUME Title(<<"sv", "motd">>) = "SvMotd" /\ Title(<<"v1x", "ab2c">>) = "V1XAb2C"
=============================================================================
