INIT Init
NEXT Next
INVARIANT ExpInv
CHECK_DEADLOCK FALSE
