------------------------------ MODULE GameNetMC ------------------------------
(* Model checking of the description interpreter (C14) and export of the boundary
   sweep. One state per vector: <<section, message, slot, k>> (GameNet!VecIds, family "main") and
   the families pair / ienc / demo / build (GameNet!AllIds).

   MC_GameNet.cfg   INVARIANT LawInv   the law below on every vector
   Exp_GameNet.cfg  INVARIANT ExpInv   the same law, and every vector is printed
                                       (<<"V", json>>) for the replay on the real crates *)
EXTENDS GameNet

(* Classification of the expectation (DESIGN 2 / verdict policy):
     canon    well-formed by the description, no warning, encode(decode) = input       -> must hold
     reject   a constraint for which datatypes.py generates a check is violated         -> must be Err
     unknown  identifier not in the description                                          -> must be Err
     accept   readable but not canonical (warning / different re-encoding / no encode)   -> detailed spec only
     soft     a reading the property text does not talk about (demo padding, an integer whose padding
              bit changes the value): every difference is a deviation from the detailed spec only
     precond  the precondition of Unpacker::new_from_demo fails (documented assertion)
     none     no input (build family: the values go to `encode`) *)
Eval(id) == LET in == IF Fam(id) = "build" THEN [ord |-> 0, uuid |-> <<>>, data |-> <<>>] ELSE FInput(id) IN
            [in |-> in, x |-> IF Fam(id) = "build" THEN [r |-> "none"]
                              ELSE ParseAny(FEntry(id), in.ord, in.uuid, in.data)]
Soft(id) == \/ Fam(id) = "ienc" /\ id[5] = 5
            \/ Fam(id) = "demo" /\ ~(id[4] = 1 /\ DemoPad(CanonData(id[2], SecMsgs(id[2])[id[3]])) = 0)
ExpectOf(id, ev) ==
  LET x == ev.x IN
  IF x.r = "ok"
  THEN [r |-> "ok", e |-> "", w |-> x.w, enc |-> x.enc, re |-> x.re, sec |-> x.sec,
        tname |-> Title(SecMsgs(x.sec)[x.mi].name),
        class |-> IF Soft(id) THEN "soft"
                  ELSE IF x.w = {} /\ x.enc /\ x.re = ev.in.data THEN "canon" ELSE "accept"]
  ELSE IF x.r = "err"
  THEN [r |-> "err", e |-> x.e, w |-> {}, enc |-> FALSE, re |-> <<>>, sec |-> "", tname |-> "",
        class |-> IF Soft(id) THEN "soft" ELSE IF x.e = "unknown_id" THEN "unknown" ELSE "reject"]
  ELSE [r |-> x.r, e |-> "", w |-> {}, enc |-> FALSE, re |-> <<>>, sec |-> "", tname |-> "", class |-> x.r]
Expect(ev) == ExpectOf(<<"system", 0, 0, 0>>, ev)

(* `encode` of a value tuple built through the public struct fields (GameNet!BuildExp): when the
   assertions of `encode` hold, the bytes it writes are read back as the same message with the same
   (normalised) values, without a warning, and re-encode to themselves; the assertions hold exactly
   when the declared constraints hold, every optional member is present and no string contains NUL. So
   encode either writes bytes that decode to the same value or panics. *)
LawBuild(sec, mi, vals) ==
  LET m == SecMsgs(sec)[mi] e == BuildExp(sec, m, vals) ts == SecTypes(sec, m) IN
     /\ e.rep => (e.ok <=> /\ ValidVals(sec, m, vals) /\ EncodableVals(sec, m, vals)
                          /\ (sec # "obj" => \A i \in DOMAIN ts : NulFree(ts[i], vals[i])))
     /\ e.ok => LET x == ParseAny(EntryOf(sec), IF sec = "connless" THEN 0 ELSE IdOrd(m),
                                 IF sec = "connless" THEN <<>> ELSE IdUuid(m), e.bytes) IN
                /\ x.r = "ok" /\ x.sec = sec /\ x.mi = mi /\ x.w = {} /\ x.enc /\ x.re = e.bytes
                /\ x.v = NormVals(sec, m, vals)

(* Truncation law (checked on the canonical vector of every message and object):
   every proper prefix of a canonical encoding is either refused as too short, or -
   when the cut falls where only optional / rest-of-input members remain (or inside
   a rest-of-input member) - read as the same message with a shorter tail. No prefix
   is read as another message, with a warning other than a dropped partial address
   record, or refused for a constraint. *)
TailFrom(sec, m, i) == \A j \in i..Len(SecTypes(sec, m)) : SecTypes(sec, m)[j].kind \in RawKinds \cup {"optional"}
TruncLaw(id, ev) ==
  LET sec == id[1] m == SecMsgs(sec)[id[2]] d == ev.in.data IN
  \A cut \in 0..(Len(d) - 1) :
    LET x == ParseAny(EntryOf(sec), ev.in.ord, ev.in.uuid, SubSeq(d, 1, cut)) IN
    \/ x.r = "err" /\ x.e = "end"
    \/ /\ x.r = "ok" /\ x.sec = sec /\ x.mi = id[2]
       /\ x.w \subseteq {"ExcessData"}
       /\ \E i \in 1..(Len(x.v) + 1) :
            /\ TailFrom(sec, m, i)
            /\ \A j \in 1..(i - 1) : x.v[j] = VecVals(id)[j]

(* The law TLC checks on every vector: the operational reading of the encoded
   value tuple succeeds exactly when the declared constraints hold, returns the
   same message and the same values, and the canonical tuple of every message is
   really canonical. (A description whose layout is ambiguous - e.g. a `rest`
   member that is not last - fails this law.) *)
Law(id, ev) ==
  LET x == ev.x IN
  IF id[2] = 0 THEN x.r = "err" /\ x.e = "unknown_id" ELSE
  LET sec == id[1] m == SecMsgs(sec)[id[2]] vals == VecVals(id) IN
     /\ x.r \in {"ok", "err"}
     /\ (x.r = "ok") <=> ValidVals(sec, m, vals)
     /\ x.r = "ok" => /\ x.sec = sec /\ x.mi = id[2]
                      /\ x.v = vals
                      /\ x.enc <=> EncodableVals(sec, m, vals)
     /\ (id[3] = 0 /\ id[4] = 1) => Expect(ev).class = "canon" /\ TruncLaw(id, ev)
     /\ (id[3] = 0 /\ id[4] = 2) => x.r = "ok" /\ x.w = {"ExcessData"}
     /\ x.r = "err" => x.e \in {"range", "cc", "intstr"} /\ x.e = FirstErr(sec, m, vals)
     /\ (sec = "obj" /\ ~IsUuidId(m) /\ id[3] = 0) => ObjSizeOf(m.id) = Len(EncBody(sec, m, CanonVals(sec, m)))
     /\ LawBuild(sec, id[2], vals)

(* Two members at key points at once: the reading succeeds iff both satisfy their constraints; a
   violation in the earlier member is reported as such whatever the later member holds, a violation
   in the later one is not masked by a valid or boundary value of the earlier one (first-error order:
   the class is that of the first violated constraint in member order). *)
LawPair(id, ev) ==
  LET x == ev.x sec == id[2] m == SecMsgs(sec)[id[3]] vals == FVals(id) ts == SecTypes(sec, m) i == id[4] j == id[6] IN
     /\ x.r \in {"ok", "err"}
     /\ (x.r = "ok") <=> (ValidB(ts[i], vals[i]) /\ ValidB(ts[j], vals[j]))
     /\ (x.r = "ok") <=> ValidVals(sec, m, vals)
     /\ x.r = "ok" => x.sec = sec /\ x.mi = id[3] /\ x.v = vals /\ (x.enc <=> EncodableVals(sec, m, vals))
     /\ x.r = "err" => /\ x.e = FirstErr(sec, m, vals)
                        /\ x.e = (IF ~ValidB(ts[i], vals[i]) THEN ErrOf(ts[i], vals[i]) ELSE ErrOf(ts[j], vals[j]))
     /\ LawBuild(sec, id[3], vals)

(* Non-canonical integer encodings: an overlong integer or one with padding bits that do not reach
   the value is read as the same value with exactly one warning, and the message re-encodes
   canonically; with the padding bit that libtw2 moves to bit 31 the reading is still ok / err. *)
LawIenc(id, ev) ==
  LET x == ev.x sec == id[2] m == SecMsgs(sec)[id[3]] i == id[4] var == id[5] c == CanonVals(sec, m)
      val == IF i = 0 THEN (IF IsUuidId(m) THEN 0 ELSE m.id * 2) + (IF sec = "system" THEN 1 ELSE 0) ELSE c[i]
  IN /\ x.r \in {"ok", "err"}
     /\ var \in 1..4 => /\ x.r = "ok" /\ x.sec = sec /\ x.mi = id[3] /\ x.v = c
                         /\ x.w = (IF var = 1 THEN (IF Len(Encode(val)) < 5 THEN {"OverlongIntEncoding"} ELSE {})
                                    ELSE {"NonZeroIntPadding"})
                         /\ x.enc /\ x.re = CanonData(sec, m)
     /\ (var = 5 /\ x.r = "ok") => "NonZeroIntPadding" \in x.w

(* Messages stored in demo files: canonical bytes zero-padded to a multiple of four are read without a
   warning as the same values and re-encode to the unpadded bytes; a non-zero padding byte or a whole
   extra word gives exactly ExcessData; a length that is not a multiple of four is outside the
   precondition. (Where a member takes the rest of the input or may be absent, the padding is read as
   member data: only ok / err is required there.) *)
NoTail(sec, m) == \A t \in Range(MemberTypes(m)) : t.kind \notin RawKinds \cup {"optional"}
LawDemo(id, ev) ==
  LET x == ev.x sec == id[2] m == SecMsgs(sec)[id[3]] var == id[4] c == CanonVals(sec, m) IN
  IF var = 6 THEN x.r = "precond" ELSE
     /\ x.r \in {"ok", "err"}
     /\ NoTail(sec, m) => /\ x.r = "ok" /\ x.sec = sec /\ x.mi = id[3] /\ x.v = c
                          /\ x.w = (IF var = 1 THEN {} ELSE {"ExcessData"})
                          /\ x.enc /\ x.re = CanonData(sec, m)

LawAny(id, ev) == CASE Fam(id) = "main"  -> Law(id, ev)
                    [] Fam(id) = "pair"  -> LawPair(id, ev)
                    [] Fam(id) = "ienc"  -> LawIenc(id, ev)
                    [] Fam(id) = "demo"  -> LawDemo(id, ev)
                    [] Fam(id) = "build" -> LawBuild(id[2], id[3], FVals(id))

NameOf(id) == IF FMi(id) = 0 THEN <<"?">> ELSE SecMsgs(FSec(id))[FMi(id)].name
\* vals / bexp: the value tuple for `encode` through the struct fields and what the spec expects of it
HasBuild(id) == Fam(id) \in {"main", "pair", "build"} /\ FMi(id) # 0
VecOut(id, ev) ==
  [id |-> id, fam |-> Fam(id), sec |-> FSec(id), mi |-> FMi(id), name |-> NameOf(id), tag |-> FTag(id),
   entry |-> FEntry(id), canonvec |-> Fam(id) = "main" /\ id[3] = 0 /\ id[4] = 1,
   ord |-> ev.in.ord, uuid |-> ev.in.uuid, data |-> ev.in.data,
   size |-> IF FSec(id) = "obj" THEN ObjSizeOf(ev.in.ord) ELSE -1,
   exp |-> ExpectOf(id, ev),
   hasb |-> HasBuild(id),
   vals |-> IF HasBuild(id) THEN FVals(id) ELSE <<>>,
   bexp |-> IF HasBuild(id) THEN BuildExp(FSec(id), SecMsgs(FSec(id))[FMi(id)], FVals(id))
            ELSE [rep |-> FALSE, ok |-> FALSE, bytes |-> <<>>]]

UncoveredList == LET S == Uncovered IN
                 [k \in 1..Cardinality(S) |->
                    LET u == SetToSortSeq(S, LAMBDA a, b : a[1] < b[1] \/ (a[1] = b[1] /\ a[2] < b[2]))[k]
                    IN [sec |-> u[1], mi |-> u[2], name |-> SecMsgs(u[1])[u[2]].name]]
Counts == [sec \in Range(Sections) |-> [total |-> Len(SecMsgs(sec)),
                                         covered |-> Cardinality({mi \in DOMAIN SecMsgs(sec) : Covered(sec, SecMsgs(sec)[mi])})]]
\* which member kinds the description uses (per context) and how many vectors sweep a member of that kind:
\* a kind with members but no vector would be a vacuous config
RECURSIVE KindsIn(_)
KindsIn(t) == {t.kind} \cup (CASE t.kind = "array" -> KindsIn(t.member_type)
                               [] t.kind = "optional" -> KindsIn(t.inner)
                               [] t.kind = "snapshot_object" -> UNION {KindsIn(u) : u \in Range(MemberTypes(ObjOf(t.name)))}
                               [] OTHER -> {})
AllKinds == UNION {UNION {UNION {KindsIn(t) : t \in Range(SecTypes(sec, SecMsgs(sec)[mi]))}
                          : mi \in DOMAIN SecMsgs(sec)} : sec \in Range(Sections)}
KindVectors == [k \in AllKinds |->
                 Cardinality({id \in VecIds : id[2] # 0 /\ id[3] # 0 /\ id[4] # 0
                                               /\ k \in KindsIn(SecTypes(id[1], SecMsgs(id[1])[id[2]])[id[3]])})]
\* vectors per family, and how many demo vectors exist per padding length (vacuity: all of 0..3 occur)
FamCounts == [main |-> Cardinality(AllIds \cap VecIds), pair |-> Cardinality(AllIds \cap PairIds),
              ienc |-> Cardinality(AllIds \cap IencIds), demo |-> Cardinality(AllIds \cap DemoIds),
              build |-> Cardinality(AllIds \cap BuildIds)]
DemoPads == [p \in 0..3 |-> Cardinality({id \in DemoIds : id[4] = 1 /\ DemoPad(CanonData(id[2], SecMsgs(id[2])[id[3]])) = p})]
ASSUME PrintT(<<"F", ToJson(FamCounts)>>)
ASSUME HasFam("demo") => PrintT(<<"D", ToJson(DemoPads)>>) /\ \A p \in 0..3 : DemoPads[p] > 0
ASSUME PrintT(<<"K", ToJson(KindVectors)>>)
ASSUME \A k \in AllKinds : KindVectors[k] > 0 \/ Uncovered # {}
ASSUME PrintT(<<"U", ToJson(UncoveredList)>>)
ASSUME PrintT(<<"N", ToJson(Counts)>>)

VARIABLE vec
Init == vec \in AllIds
Next == UNCHANGED vec
LawInv == LawAny(vec, Eval(vec))
ExpInv == LET ev == Eval(vec) IN LawAny(vec, ev) /\ PrintT(<<"V", ToJson(VecOut(vec, ev))>>)
=============================================================================
