------------------------------ MODULE GameNetMC ------------------------------
(* Model checking of the description interpreter (C14) and export of the boundary
   sweep. One state per vector <<section, message, slot, k>> (GameNet!VecIds).

   MC_GameNet.cfg   INVARIANT LawInv   the law below on every vector
   Exp_GameNet.cfg  INVARIANT ExpInv   the same law, and every vector is printed
                                       (<<"V", json>>) for the replay on the real crates *)
EXTENDS GameNet

(* Classification of the expectation (DESIGN 2 / verdict policy):
     canon    well-formed by the description, no warning, encode(decode) = input       -> must hold
     reject   a constraint for which datatypes.py generates a check is violated         -> must be Err
     unknown  identifier not in the description                                          -> must be Err
     accept   readable but not canonical (warning / different re-encoding / no encode)   -> detailed spec only *)
Eval(id) == LET in == VecInput(id) IN
            [in |-> in, x |-> ParseAny(EntryOf(id[1]), in.ord, in.uuid, in.data)]
Expect(ev) ==
  LET x == ev.x IN
  IF x.r = "ok"
  THEN [r |-> "ok", e |-> "", w |-> x.w, enc |-> x.enc, re |-> x.re, sec |-> x.sec,
        tname |-> Title(SecMsgs(x.sec)[x.mi].name),
        class |-> IF x.w = {} /\ x.enc /\ x.re = ev.in.data THEN "canon" ELSE "accept"]
  ELSE [r |-> "err", e |-> x.e, w |-> {}, enc |-> FALSE, re |-> <<>>, sec |-> "", tname |-> "",
        class |-> IF x.e = "unknown_id" THEN "unknown" ELSE "reject"]

(* Truncation law (checked on the canonical vector of every message and object):
   every proper prefix of a canonical encoding is either refused as too short, or -
   when the cut falls where only optional / rest-of-input members remain (or inside
   a rest-of-input member) - read as the same message with a shorter tail. No prefix
   is read as another message, with a warning other than a dropped partial address
   record, or refused for a constraint. *)
TailFrom(sec, m, i) == \A j \in i..Len(SecTypes(sec, m)) : SecTypes(sec, m)[j].kind \in RawKinds \cup {"optional"}
TruncLaw(id, ev) ==
  LET sec == id[1] m == SecMsgs(sec)[id[2]] d == ev.in.data IN
  \A cut \in 0..(Len(d) - 1) :
    LET x == ParseAny(EntryOf(sec), ev.in.ord, ev.in.uuid, SubSeq(d, 1, cut)) IN
    \/ x.r = "err" /\ x.e = "end"
    \/ /\ x.r = "ok" /\ x.sec = sec /\ x.mi = id[2]
       /\ x.w \subseteq {"ExcessData"}
       /\ \E i \in 1..(Len(x.v) + 1) :
            /\ TailFrom(sec, m, i)
            /\ \A j \in 1..(i - 1) : x.v[j] = VecVals(id)[j]

(* The law TLC checks on every vector: the operational reading of the encoded
   value tuple succeeds exactly when the declared constraints hold, returns the
   same message and the same values, and the canonical tuple of every message is
   really canonical. (A description whose layout is ambiguous - e.g. a `rest`
   member that is not last - fails this law.) *)
Law(id, ev) ==
  LET x == ev.x IN
  IF id[2] = 0 THEN x.r = "err" /\ x.e = "unknown_id" ELSE
  LET sec == id[1] m == SecMsgs(sec)[id[2]] vals == VecVals(id) IN
     /\ x.r \in {"ok", "err"}
     /\ (x.r = "ok") <=> ValidVals(sec, m, vals)
     /\ x.r = "ok" => /\ x.sec = sec /\ x.mi = id[2]
                      /\ x.v = vals
                      /\ x.enc <=> EncodableVals(sec, m, vals)
     /\ (id[3] = 0 /\ id[4] = 1) => Expect(ev).class = "canon" /\ TruncLaw(id, ev)
     /\ (id[3] = 0 /\ id[4] = 2) => x.r = "ok" /\ x.w = {"ExcessData"}
     /\ x.r = "err" => x.e \in {"range", "cc", "intstr"}
     /\ (sec = "obj" /\ ~IsUuidId(m) /\ id[3] = 0) => ObjSizeOf(m.id) = Len(EncBody(sec, m, CanonVals(sec, m)))

NameOf(id) == IF id[2] = 0 THEN <<"?">> ELSE SecMsgs(id[1])[id[2]].name
VecOut(id, ev) ==
  [id |-> id, name |-> NameOf(id), tag |-> VecTag(id), entry |-> EntryOf(id[1]),
   ord |-> ev.in.ord, uuid |-> ev.in.uuid, data |-> ev.in.data,
   size |-> IF id[1] = "obj" THEN ObjSizeOf(ev.in.ord) ELSE -1,
   exp |-> Expect(ev)]

UncoveredList == LET S == Uncovered IN
                 [k \in 1..Cardinality(S) |->
                    LET u == SetToSortSeq(S, LAMBDA a, b : a[1] < b[1] \/ (a[1] = b[1] /\ a[2] < b[2]))[k]
                    IN [sec |-> u[1], mi |-> u[2], name |-> SecMsgs(u[1])[u[2]].name]]
Counts == [sec \in Range(Sections) |-> [total |-> Len(SecMsgs(sec)),
                                         covered |-> Cardinality({mi \in DOMAIN SecMsgs(sec) : Covered(sec, SecMsgs(sec)[mi])})]]
\* which member kinds the description uses (per context) and how many vectors sweep a member of that kind:
\* a kind with members but no vector would be a vacuous config
RECURSIVE KindsIn(_)
KindsIn(t) == {t.kind} \cup (CASE t.kind = "array" -> KindsIn(t.member_type)
                               [] t.kind = "optional" -> KindsIn(t.inner)
                               [] t.kind = "snapshot_object" -> UNION {KindsIn(u) : u \in Range(MemberTypes(ObjOf(t.name)))}
                               [] OTHER -> {})
AllKinds == UNION {UNION {UNION {KindsIn(t) : t \in Range(SecTypes(sec, SecMsgs(sec)[mi]))}
                          : mi \in DOMAIN SecMsgs(sec)} : sec \in Range(Sections)}
KindVectors == [k \in AllKinds |->
                 Cardinality({id \in VecIds : id[2] # 0 /\ id[3] # 0 /\ id[4] # 0
                                               /\ k \in KindsIn(SecTypes(id[1], SecMsgs(id[1])[id[2]])[id[3]])})]
ASSUME PrintT(<<"K", ToJson(KindVectors)>>)
ASSUME \A k \in AllKinds : KindVectors[k] > 0 \/ Uncovered # {}
ASSUME PrintT(<<"U", ToJson(UncoveredList)>>)
ASSUME PrintT(<<"N", ToJson(Counts)>>)

VARIABLE vec
Init == vec \in VecIds
Next == UNCHANGED vec
LawInv == Law(vec, Eval(vec))
ExpInv == LET ev == Eval(vec) IN Law(vec, ev) /\ PrintT(<<"V", ToJson(VecOut(vec, ev))>>)
=============================================================================
