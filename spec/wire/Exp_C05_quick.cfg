CONSTANTS
  Tier = "quick"
  Export = TRUE
  Fams = {"hf", "hb", "rt"}
  SliceLo = 0
  SliceHi = 1023
INIT Init
NEXT Next
INVARIANT Law
