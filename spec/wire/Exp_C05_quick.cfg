CONSTANTS
  Tier = "quick"
  Export = TRUE
  Fams = {"hf", "hb", "rt", "bulk", "tab", "ctrl", "tie", "wc"}
  SliceLo = 0
  SliceHi = 1023
INIT Init
NEXT Next
INVARIANT Law
