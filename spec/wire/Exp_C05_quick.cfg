CONSTANTS
  Tier = "quick"
  Export = TRUE
  Fams = {"hf", "hb", "rt"}
  SliceLo = 0
  SliceHi = 255
INIT Init
NEXT Next
INVARIANT Law
