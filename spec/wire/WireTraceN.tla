----------------------------- MODULE WireTraceN -----------------------------
(* WireTrace without a tie to the Huffman specification (fallback). *)
EXTENDS WireTrace
NoCodecFails(v, e) == {}
=============================================================================
