CONSTANTS
  Tier = "utf"
  Export = FALSE
  Fams = {}
  SliceLo = 0
  SliceHi = 255
INIT Init
NEXT Next
INVARIANT Law
