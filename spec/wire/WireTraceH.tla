----------------------------- MODULE WireTraceH -----------------------------
(***************************************************************************)
(* WireTrace + the Huffman specification of C07 (spec/huffman, found       *)
(* through -DTLA-Library): for small inputs the codec values recorded in   *)
(* an event -- the compressed form of the writer's input (zs) and the      *)
(* decompressed datagram body (d) -- must be the ones Huffman.tla defines  *)
(* for the code table of doc/huffman.md.  So for small payloads the wire   *)
(* format is judged end to end by specifications; for larger ones the      *)
(* recorded codec values are trusted (C07 checks the codec at real sizes). *)
(***************************************************************************)
EXTENDS WireTrace
H == INSTANCE Huffman
HT == INSTANCE HuffTable

SMALL == 48
HTree == H!Tree(HT!Code)
HZero == H!ZeroSym(HT!Code)

ZsFails(zs) ==
  IF \A j \in 1..Len(zs) : Len(zs[j].in) > SMALL \/ (zs[j].out.ok /\ zs[j].out.data = H!Encode(HT!Code, zs[j].in))
  THEN {} ELSE {"compress-differs-from-Huffman-spec"}

DFails(v, ro) ==
  IF ro.d.k = "none" \/ Len(ro.bytes) < HS(v) \/ Len(ro.bytes) - HS(v) > SMALL THEN {}
  ELSE LET r == H!Decode(HTree, HZero, Drop(ro.bytes, HS(v)), ro.cap - HS(v)) IN
       IF (ro.d.k = "ok" /\ r.r = "ok" /\ r.out = ro.d.data) \/ (ro.d.k = "err" /\ r.r # "ok")
       THEN {} ELSE {"decompress-differs-from-Huffman-spec"}

BlockFails(v, blk) ==
  ZsFails(blk.zs) \cup (IF blk.wr.r = "ok" THEN DFails(v, blk.rd) ELSE {})
  \cup (IF "out" \in DOMAIN blk.rd2 THEN DFails(v, blk.rd2) ELSE {})

HCodecFails(v, e) ==
  CASE e.k = "rt" -> BlockFails(v, e)
    [] e.k = "wc" -> ZsFails(e.zs)
    [] e.k = "rd" -> DFails(v, e) \cup (IF e.out.r = "ok" /\ e.rw.r = "ok" THEN BlockFails(v, e.rw) ELSE {})
    [] OTHER -> {}
=============================================================================
