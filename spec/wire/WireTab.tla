------------------------------ MODULE WireTab ------------------------------
(***************************************************************************)
(* Class tables of the header codecs of Wire.tla / Wire7.tla (C05).        *)
(*                                                                         *)
(* The property quantifies over ALL 2^24 three-byte 0.6 packet headers,    *)
(* all 0.6 / 0.7 chunk headers and all in-range field tuples.  Running     *)
(* 2^24 patterns per header kind through the real code is cheap; shipping  *)
(* 2^24 recorded events per kind to TLC is not.  So the expected result of *)
(* every pattern is exported from this specification in factored form, a   *)
(* *class table*, and the harness sweeps the whole space on the real code  *)
(* against it (table lookup and equality only); every pattern on which the *)
(* code differs from the table, and a regular sample of the others, is     *)
(* recorded as an ordinary hb / hf event and judged by WireTrace.tla.      *)
(*                                                                         *)
(* A table describes a function Out from tuples x = <<x1..xn>> (the swept  *)
(* bytes of a header, mode "hb"; or its field values, mode "hf"; all       *)
(* 0-based) to integer vectors:                                            *)
(*                                                                         *)
(*    Out(x) = base + SUM_k val[k][x_k] + inter[cls_1(x_1), .., cls_n(x_n)] *)
(*                                                                         *)
(* base, val and inter are *computed from the operators of Wire / Wire7*    *)
(* (marginals around the all-zero tuple, class representatives); only the  *)
(* class functions cls_k are written down by hand (which bits of which     *)
(* position interact: the two sequence bits the 0.6 vital chunk header     *)
(* stores twice).  That the factored form equals the operators on the      *)
(* WHOLE space is the law TabLaw, which TLC checks exhaustively            *)
(* (MC_Wire: per case in every hb / hf family, and in bulk, one state per  *)
(* value of the first coordinate, in the "tab" family).  A class function  *)
(* that is too coarse makes TabLaw fail.                                   *)
(*                                                                         *)
(* Vectors                                                                 *)
(*   mode "hb":  fields of Unpack(b) ++ token bytes ++ <<warning mask>>    *)
(*               ++ bytes of Pack(Unpack(b).h)                             *)
(*   mode "hf":  bytes of Pack(h) ++ fields of Unpack(Pack(h)) ++ token    *)
(*               bytes ++ <<warning mask>>                                 *)
(* The warning mask has bit j-1 set iff WNames[j] is in the warning set.   *)
(***************************************************************************)
EXTENDS Integers, Sequences, FiniteSets, SequencesExt, TLC, WireBase

W6 == INSTANCE Wire
W7 == INSTANCE Wire7

Pack(v, hk, h) ==
  CASE v = 6 /\ hk = "ph" -> W6!PackPH(h) [] v = 6 /\ hk = "ch" -> W6!PackCH(h) [] v = 6 /\ hk = "chv" -> W6!PackCHV(h)
    [] v = 7 /\ hk = "ph" -> W7!PackPH(h) [] v = 7 /\ hk = "phc" -> W7!PackPHC(h)
    [] v = 7 /\ hk = "ch" -> W7!PackCH(h) [] v = 7 /\ hk = "chv" -> W7!PackCHV(h)
Unpack(v, hk, b) ==
  CASE v = 6 /\ hk = "ph" -> W6!UnpackPH(b) [] v = 6 /\ hk = "ch" -> W6!UnpackCH(b) [] v = 6 /\ hk = "chv" -> W6!UnpackCHV(b)
    [] v = 7 /\ hk = "ph" -> W7!UnpackPH(b) [] v = 7 /\ hk = "phc" -> W7!UnpackPHC(b)
    [] v = 7 /\ hk = "ch" -> W7!UnpackCH(b) [] v = 7 /\ hk = "chv" -> W7!UnpackCHV(b)

WNames == <<"PacketHeaderPadding", "ChunkHeaderPadding", "ChunkHeaderSequence">>
WMask(w) == FoldLeft(LAMBDA acc, j : acc + (IF WNames[j] \in w THEN 2 ^ (j - 1) ELSE 0), 0, Iota(Len(WNames)))

FieldNames(hk) == CASE hk = "ph" -> <<"flags", "ack", "nc">> [] hk = "ch" -> <<"flags", "size">>
                    [] hk = "chv" -> <<"flags", "size", "seq">> [] hk = "phc" -> <<"flags", "version">>
FieldVec(hk, h) == [j \in 1..Len(FieldNames(hk)) |-> h[FieldNames(hk)[j]]]
\* the tokens a 0.7 packet header carries behind the bit fields (copied through by both directions)
TokVec(v, hk, h) == IF v = 7 /\ hk = "ph" THEN h.token ELSE IF v = 7 /\ hk = "phc" THEN h.token \o h.rtoken ELSE <<>>
NTok(v, hk) == IF v = 7 /\ hk = "ph" THEN 4 ELSE IF v = 7 /\ hk = "phc" THEN 8 ELSE 0

\* the swept coordinates: sizes of their domains
Dom(v, hk, mode) ==
  IF mode = "hb"
  THEN CASE hk = "ch" -> <<256, 256>> [] hk = "phc" -> <<256>> [] OTHER -> <<256, 256, 256>>
  ELSE CASE hk = "ph" -> <<16, 1024, 256>>
         [] hk = "phc" -> <<16, 4>>
         [] hk = "ch" -> <<4, IF v = 6 THEN 1024 ELSE 4096>>
         [] hk = "chv" -> <<4, IF v = 6 THEN 1024 ELSE 4096, 1024>>

\* the header record of a field tuple (mode "hf"); sfx = the token bytes
HOf(v, hk, x, sfx) ==
  CASE hk = "ph" /\ v = 6 -> [flags |-> x[1], ack |-> x[2], nc |-> x[3]]
    [] hk = "ph" /\ v = 7 -> [flags |-> x[1], ack |-> x[2], nc |-> x[3], token |-> sfx]
    [] hk = "phc" -> [flags |-> x[1], version |-> x[2], token |-> Take(sfx, 4), rtoken |-> Drop(sfx, 4)]
    [] hk = "ch" -> [flags |-> x[1], size |-> x[2]]
    [] hk = "chv" -> [flags |-> x[1], size |-> x[2], seq |-> x[3]]

Out(v, hk, mode, sfx, x) ==
  IF mode = "hb"
  THEN LET u == Unpack(v, hk, x \o sfx) IN
       FieldVec(hk, u.h) \o TokVec(v, hk, u.h) \o <<WMask(u.w)>> \o Pack(v, hk, u.h)
  ELSE LET b == Pack(v, hk, HOf(v, hk, x, sfx))
           u == Unpack(v, hk, b)
       IN b \o FieldVec(hk, u.h) \o TokVec(v, hk, u.h) \o <<WMask(u.w)>>

\* names of the vector's components (for the harness and for humans)
ByteNames(n) == [j \in 1..n |-> "b"]
OutNames(v, hk, mode) ==
  LET nb == Len(Dom(v, hk, "hb")) + NTok(v, hk)
      tk == [j \in 1..NTok(v, hk) |-> "t"]
  IN IF mode = "hb" THEN FieldNames(hk) \o tk \o <<"w">> \o ByteNames(nb)
     ELSE ByteNames(nb) \o FieldNames(hk) \o tk \o <<"w">>

---------------------------------------------------------------------------
\* class functions: which values of coordinate k interact with other coordinates in the same way.
\* The only interaction between coordinates in the seven header codecs: the 0.6 vital chunk header
\* stores sequence bits 7..6 twice (low two bits of the high nibble of byte 2, top two bits of byte 3);
\* readers OR them and warn when they differ.  Everything else is a sum of per-coordinate contributions.
Cls(v, hk, mode, k, x) ==
  IF v = 6 /\ hk = "chv" /\ mode = "hb"
  THEN CASE k = 2 -> (x \div 16) % 4 [] k = 3 -> x \div 64 [] OTHER -> 0
  ELSE 0
NCls(v, hk, mode, k) == IF v = 6 /\ hk = "chv" /\ mode = "hb" /\ k \in {2, 3} THEN 4 ELSE 1

VAdd(a, b) == [j \in 1..Len(a) |-> a[j] + b[j]]
VSub(a, b) == [j \in 1..Len(a) |-> a[j] - b[j]]

Table(v, hk, mode, sfx) ==
  LET dom == Dom(v, hk, mode)
      n == Len(dom)
      zero == [k \in 1..n |-> 0]
      At(x) == Out(v, hk, mode, sfx, x)
      base == At(zero)
      val == [k \in 1..n |-> [y \in 1..dom[k] |-> VSub(At([zero EXCEPT ![k] = y - 1]), base)]]
      ncls == [k \in 1..n |-> NCls(v, hk, mode, k)]
      rep(k, c) == CHOOSE y \in 0..(dom[k] - 1) :
                     /\ Cls(v, hk, mode, k, y) = c
                     /\ \A z \in 0..(y - 1) : Cls(v, hk, mode, k, z) # c
      ninter == FoldLeft(LAMBDA acc, k : acc * ncls[k], 1, Iota(n))
      \* class tuple of a flat index (mixed radix, coordinate 1 least significant)
      ClsOf(ix) == [k \in 1..n |-> ((ix - 1) \div FoldLeft(LAMBDA acc, j : acc * ncls[j], 1, Iota(k - 1))) % ncls[k]]
      inter == [ix \in 1..ninter |->
                  LET r == [k \in 1..n |-> rep(k, ClsOf(ix)[k])] IN
                  FoldLeft(LAMBDA acc, k : VSub(acc, val[k][r[k] + 1]), VSub(At(r), base), Iota(n))]
  IN [id |-> mode \o ":" \o ToString(v) \o ":" \o hk, v |-> v, hk |-> hk, mode |-> mode, sfx |-> sfx,
      dom |-> dom, names |-> OutNames(v, hk, mode), wnames |-> WNames,
      base |-> base, val |-> val,
      cls |-> [k \in 1..n |-> [y \in 1..dom[k] |-> Cls(v, hk, mode, k, y - 1)]],
      ncls |-> ncls, inter |-> inter]

\* what the table says for tuple x (written out for the three arities: this is evaluated 10^8 times)
ExpectedAt(tab, x, j) ==
  LET n == Len(tab.dom) IN
  IF n = 1 THEN tab.base[j] + tab.val[1][x[1] + 1][j] + tab.inter[1 + tab.cls[1][x[1] + 1]][j]
  ELSE IF n = 2
  THEN tab.base[j] + tab.val[1][x[1] + 1][j] + tab.val[2][x[2] + 1][j]
       + tab.inter[1 + tab.cls[1][x[1] + 1] + tab.ncls[1] * tab.cls[2][x[2] + 1]][j]
  ELSE tab.base[j] + tab.val[1][x[1] + 1][j] + tab.val[2][x[2] + 1][j] + tab.val[3][x[3] + 1][j]
       + tab.inter[1 + tab.cls[1][x[1] + 1] + tab.ncls[1] * (tab.cls[2][x[2] + 1] + tab.ncls[2] * tab.cls[3][x[3] + 1])][j]
Expected(tab, x) == [j \in 1..Len(tab.base) |-> ExpectedAt(tab, x, j)]
\* Expected(tab, x) = vec, component by component
ExpectedIs(tab, x, vec) == Len(vec) = Len(tab.base) /\ \A j \in 1..Len(vec) : ExpectedAt(tab, x, j) = vec[j]

---------------------------------------------------------------------------
\* the exported tables (constants: TLC evaluates each once)
TKEN4 == <<84, 75, 69, 78>>
NONE4 == <<255, 255, 255, 255>>
Sfx7phc == {TKEN4 \o TKEN4, NONE4 \o TKEN4}

T6phB == Table(6, "ph", "hb", <<>>)      T6phF == Table(6, "ph", "hf", <<>>)
T6chB == Table(6, "ch", "hb", <<>>)      T6chF == Table(6, "ch", "hf", <<>>)
T6chvB == Table(6, "chv", "hb", <<>>)    T6chvF == Table(6, "chv", "hf", <<>>)
T7chB == Table(7, "ch", "hb", <<>>)      T7chF == Table(7, "ch", "hf", <<>>)
T7chvB == Table(7, "chv", "hb", <<>>)    T7chvF == Table(7, "chv", "hf", <<>>)
T7phB1 == Table(7, "ph", "hb", TKEN4)    T7phF1 == Table(7, "ph", "hf", TKEN4)
T7phcB1 == Table(7, "phc", "hb", TKEN4 \o TKEN4)    T7phcF1 == Table(7, "phc", "hf", TKEN4 \o TKEN4)
T7phcB2 == Table(7, "phc", "hb", NONE4 \o TKEN4)    T7phcF2 == Table(7, "phc", "hf", NONE4 \o TKEN4)

\* (the second 0.7 packet-header tables are not exported: their 2^24 space would have to be enumerated once
\*  more for nothing but four copied bytes; other tokens go through the hb / hf families and the packet families)
AllTables == <<T6phB, T6phF, T6chB, T6chF, T6chvB, T6chvF, T7chB, T7chF, T7chvB, T7chvF,
               T7phB1, T7phF1, T7phcB1, T7phcF1, T7phcB2, T7phcF2>>

HasTable(v, hk, sfx) == CASE v = 7 /\ hk = "ph" -> sfx = TKEN4 [] v = 7 /\ hk = "phc" -> sfx \in Sfx7phc [] OTHER -> TRUE
TabOf(v, hk, mode, sfx) ==
  LET B == mode = "hb" IN
  CASE v = 6 /\ hk = "ph" -> IF B THEN T6phB ELSE T6phF
    [] v = 6 /\ hk = "ch" -> IF B THEN T6chB ELSE T6chF
    [] v = 6 /\ hk = "chv" -> IF B THEN T6chvB ELSE T6chvF
    [] v = 7 /\ hk = "ch" -> IF B THEN T7chB ELSE T7chF
    [] v = 7 /\ hk = "chv" -> IF B THEN T7chvB ELSE T7chvF
    [] v = 7 /\ hk = "ph" -> IF B THEN T7phB1 ELSE T7phF1
    [] v = 7 /\ hk = "phc" -> IF sfx = TKEN4 \o TKEN4 THEN (IF B THEN T7phcB1 ELSE T7phcF1) ELSE (IF B THEN T7phcB2 ELSE T7phcF2)

\* the law: on tuple x the factored form is the operators' value
TabLaw(v, hk, mode, sfx, x) == HasTable(v, hk, sfx) => ExpectedIs(TabOf(v, hk, mode, sfx), x, Out(v, hk, mode, sfx, x))

\* the field tuple of a header record / the swept bytes of a header byte string
TupleOfH(hk, h) == FieldVec(hk, h)
SfxOfH(v, hk, h) == TokVec(v, hk, h)
NSweep(hk) == Len(Dom(6, hk, "hb"))

\* bulk form: all tuples whose coordinate sc (the one with the largest domain) is a -- one TLC state per a
SliceCoord(tab) == CHOOSE k \in 1..Len(tab.dom) : \A j \in 1..Len(tab.dom) : tab.dom[j] <= tab.dom[k]
\* L holds on all tuples whose coordinate sc is a
ForSlice(tab, a, L(_)) ==
  LET n == Len(tab.dom)
      sc == SliceCoord(tab)
      oth == SelectSeq(Iota(n), LAMBDA k : k # sc)
  IN IF n = 1 THEN L(<<a>>)
     ELSE IF n = 2 THEN \A y \in 0..(tab.dom[oth[1]] - 1) : L([k \in 1..2 |-> IF k = sc THEN a ELSE y])
     ELSE \A y \in 0..(tab.dom[oth[1]] - 1), z \in 0..(tab.dom[oth[2]] - 1) :
            L([k \in 1..3 |-> IF k = sc THEN a ELSE IF k = oth[1] THEN y ELSE z])
TabLawSlice(tab, a) == ForSlice(tab, a, LAMBDA x : ExpectedIs(tab, x, Out(tab.v, tab.hk, tab.mode, tab.sfx, x)))
=============================================================================
