------------------------------ MODULE WireTrace -----------------------------
(***************************************************************************)
(* Validation of what the real packet code did (recorded by vh-wire as one *)
(* NDJSON event per case) against Wire.tla / Wire7.tla.                    *)
(*                                                                         *)
(* Every event is judged twice:                                            *)
(*   property level (C05 / C06 as stated): round trips are the identity,   *)
(*     no warning on canonical output, headers re-pack to themselves,      *)
(*     the reader returns a value or an error (no panic, no hang), slices  *)
(*     stay inside the buffers, accepted values survive write -> read;     *)
(*   detail level: the bytes, values, error kinds and warning sets are     *)
(*     exactly the ones Wire/Wire7 define.                                 *)
(* PropFails / DetailFails return the names of the clauses an event        *)
(* breaks.  The Huffman codec is not modelled: its values at the points    *)
(* the format needs them are part of the event (zs: compress, d:           *)
(* decompress) -- that the two are inverse is property C07; here a codec   *)
(* that is not inverse shows up as a failed round trip.                    *)
(*                                                                         *)
(* One state per event.  A bad event is consumed too (so that one run      *)
(* judges the whole trace) but counted and printed:                        *)
(*     <<"BAD", index, prop-fails, detail-fails>>                          *)
(* and the POSTCONDITION rejects the trace unless every event was consumed *)
(* and none was bad at the configured Level.                               *)
(***************************************************************************)
EXTENDS Integers, Sequences, FiniteSets, TLC, TLCExt, Json, IOUtils, SequencesExt, WireBase

CONSTANT Level      \* "detail": detail and property clauses;  "prop": property clauses only
\* CodecFails(v, e): detail-level clauses tying the recorded codec values (zs, d) of an event to the
\* Huffman specification of C07 for small inputs; WireTraceH.tla supplies it from spec/huffman,
\* WireTraceN.tla supplies {} (no tie: the codec values are then trusted as recorded)
CONSTANT CodecFails(_, _)

W6 == INSTANCE Wire
W7 == INSTANCE Wire7

Rec == ndJsonDeserialize(IOEnv.TRACE)

VARIABLE i
ASSUME TLCSet(1, 0)

NoZ == [ok |-> FALSE, data |-> <<>>]

---------------------------------------------------------------------------
\* version dispatch

Pack(v, hk, h) ==
  CASE v = 6 /\ hk = "ph" -> W6!PackPH(h) [] v = 6 /\ hk = "ch" -> W6!PackCH(h) [] v = 6 /\ hk = "chv" -> W6!PackCHV(h)
    [] v = 7 /\ hk = "ph" -> W7!PackPH(h) [] v = 7 /\ hk = "phc" -> W7!PackPHC(h)
    [] v = 7 /\ hk = "ch" -> W7!PackCH(h) [] v = 7 /\ hk = "chv" -> W7!PackCHV(h)
Unpack(v, hk, b) ==
  CASE v = 6 /\ hk = "ph" -> W6!UnpackPH(b) [] v = 6 /\ hk = "ch" -> W6!UnpackCH(b) [] v = 6 /\ hk = "chv" -> W6!UnpackCHV(b)
    [] v = 7 /\ hk = "ph" -> W7!UnpackPH(b) [] v = 7 /\ hk = "phc" -> W7!UnpackPHC(b)
    [] v = 7 /\ hk = "ch" -> W7!UnpackCH(b) [] v = 7 /\ hk = "chv" -> W7!UnpackCHV(b)
InRange(v, hk, h) ==
  CASE v = 6 /\ hk = "ph" -> W6!PHInRange(h) [] v = 6 /\ hk = "ch" -> W6!CHInRange(h) [] v = 6 /\ hk = "chv" -> W6!CHVInRange(h)
    [] v = 7 /\ hk = "ph" -> W7!PHInRange(h) [] v = 7 /\ hk = "phc" -> W7!PHCInRange(h)
    [] v = 7 /\ hk = "ch" -> W7!CHInRange(h) [] v = 7 /\ hk = "chv" -> W7!CHVInRange(h)
Canon(v, hk, b) ==
  CASE v = 6 /\ hk = "ph" -> W6!CanonPH(b) [] v = 6 /\ hk = "ch" -> W6!CanonCH(b) [] v = 6 /\ hk = "chv" -> W6!CanonCHV(b)
    [] v = 7 /\ hk = "ph" -> W7!CanonPH(b) [] v = 7 /\ hk = "phc" -> W7!CanonPHC(b)
    [] v = 7 /\ hk = "ch" -> W7!CanonCH(b) [] v = 7 /\ hk = "chv" -> W7!CanonCHV(b)

Expressible(v, p) == IF v = 6 THEN W6!Expressible(p) ELSE W7!Expressible(p)
\* accepted by the reader but refused / asserted on by the writer: known findings F3, F4 of C06
GapName(p) == IF p.t = "connless" THEN "accepted-unwritable:connless-payload-over-1390"
              ELSE "accepted-unwritable:v7-response-token-ffffffff"
KnownGap(v, p) ==
  \/ p.t = "connless" /\ Len(p.data) > MAX_PAYLOAD
  \/ v = 7 /\ p.t = "ctrl" /\ p.c \in {"connect", "token"} /\ p.rt = TOKEN_NONE
AllowedW(v, p) == IF v = 6 THEN W6!AllowedW(p) ELSE W7!AllowedW(p)
ZInput(v, p) == IF v = 6 THEN W6!ZInput(p) ELSE W7!ZInput(p)
WriteWith(v, p, z, cap) == IF v = 6 THEN W6!WriteWith(p, z, cap) ELSE W7!WriteWith(p, z, cap)
ReadWith(v, b, hint, d) == IF v = 6 THEN W6!ReadWith(b, hint, d) ELSE W7!ReadWith(b, d)
Chunks(v, data, nc) == IF v = 6 THEN W6!Chunks(data, nc) ELSE W7!Chunks(data, nc)
Area(v, cl) == IF v = 6 THEN W6!Area(cl) ELSE W7!Area(cl)
NeedsDecompression(v, b) == IF v = 6 THEN W6!NeedsDecompression(b) ELSE W7!NeedsDecompression(b)
FakeHeader(v, b) == IF v = 6 THEN W6!FakeHeader(b) ELSE W7!FakeHeader(b)
TrueHint(v, p) == IF v = 6 THEN W6!TrueHint(p) ELSE "none"
HS(v) == IF v = 6 THEN 3 ELSE 7

Cond(name, ok) == IF ok THEN {} ELSE {name}

---------------------------------------------------------------------------
\* header events
\*   hf : h -> pack -> pk.bytes -> unpack -> un.h, un.w
\*   hb : b -> unpack -> un.h, un.w -> pack -> pk.bytes

PropHF(e) ==
  IF ~InRange(e.v, e.hk, e.h) THEN {}                       \* outside the packer's domain: nothing is promised
  ELSE Cond("pack-panics", e.pk.r = "ok")
       \cup (IF e.pk.r = "ok" THEN
               Cond("unpack-panics", e.un.r = "ok")
               \cup (IF e.un.r = "ok" THEN Cond("header-roundtrip-differs", e.un.h = e.h)
                                           \cup Cond("warning-on-packed-header", e.un.w = <<>>)
                     ELSE {})
             ELSE {})
DetailHF(e) ==
  IF ~InRange(e.v, e.hk, e.h) THEN {}
  ELSE IF e.pk.r # "ok" \/ e.un.r # "ok" THEN {"header-op-failed"}
  ELSE Cond("packed-bytes-differ", e.pk.bytes = Pack(e.v, e.hk, e.h))

PropHB(e) ==
  Cond("unpack-panics", e.un.r = "ok")
  \cup (IF e.un.r = "ok" THEN
          Cond("repack-panics", e.pk.r = "ok")
          \cup (IF e.pk.r = "ok" /\ Canon(e.v, e.hk, e.b)
                THEN Cond("canonical-header-repack-differs", e.pk.bytes = e.b)
                     \cup Cond("warning-on-canonical-header", e.un.w = <<>>)
                ELSE {})
        ELSE {})
DetailHB(e) ==
  IF e.un.r # "ok" \/ e.pk.r # "ok" THEN {"header-op-failed"}
  ELSE LET u == Unpack(e.v, e.hk, e.b) IN
       Cond("unpacked-fields-differ", e.un.h = u.h)
       \cup Cond("unpack-warnings-differ", SeqToSet(e.un.w) = u.w)
       \cup Cond("repacked-bytes-differ", e.pk.bytes = Pack(e.v, e.hk, u.h))

---------------------------------------------------------------------------
\* one observation of the reader ("read object"):
\*   bytes, hint, cap, din (decompress_if_needed), d (the codec on the body, capacity cap - header),
\*   out (Packet::read), rpod (read_panic_on_decompression; "skip" for compressed datagrams),
\*   init (is_initial; "skip" in 0.7), ci (ChunksIter to the first None; "skip" unless chunks were read),
\*   inb (every returned slice inside the input or the scratch buffer), canary (bytes around the scratch untouched)

PropRead(ro) ==
  Cond("read-panics", ro.out.r \in {"ok", "err"})
  \cup Cond("read_panic_on_decompression-panics-on-uncompressed", ro.rpod.r \in {"ok", "err", "skip"})
  \cup Cond("decompress_if_needed-panics", ro.din.r \in {"false", "true", "err"})
  \cup Cond("is_initial-panics", ro.init.r \in {"ok", "skip"})
  \cup Cond("chunks-iter-panics-or-never-ends", ro.ci.r \in {"ok", "skip"})
  \* size_hint / len / clone+count / collect / extend on the same chunk area never panic
  \cup Cond("chunks-iter-size_hint-len-collect-panics", ro.ci.r = "ok" => ro.ci.api.r = "ok")
  \cup Cond("slice-out-of-bounds", ro.inb)
  \cup Cond("write-outside-scratch-buffer", ro.canary)

SameOut(out, exp) ==
  /\ out.r = exp.r
  /\ out.r = "err" => out.e = exp.e
  /\ out.r = "ok" => out.p = exp.p /\ SeqToSet(out.w) = exp.w

DetailRead(v, ro) ==
  LET nd == NeedsDecompression(v, ro.bytes)
      exp == ReadWith(v, ro.bytes, ro.hint, ro.d)
  IN Cond("codec-value-missing", nd => ro.d.k # "none")
     \cup Cond("read-verdict-differs", ro.out.r = exp.r)
     \cup (IF ro.out.r = exp.r /\ exp.r = "err" THEN Cond("read-error-kind-differs", ro.out.e = exp.e) ELSE {})
     \cup (IF ro.out.r = exp.r /\ exp.r = "ok"
           THEN Cond("read-value-differs", ro.out.p = exp.p)
                \cup Cond("read-warnings-differ", SeqToSet(ro.out.w) = exp.w)
                \cup (IF exp.p.t = "chunks" /\ ro.out.p = exp.p
                      THEN IF ro.ci.r # "ok" THEN {"chunk-iteration-missing"}
                           ELSE LET it == Chunks(v, exp.p.data, exp.p.nc) IN
                                Cond("chunk-list-differs", ro.ci.list = it.chunks)
                                \cup Cond("chunks-iter-size-differs",
                                          ro.ci.api.r = "ok" =>
                                            LET n == Len(it.chunks) a == ro.ci.api IN
                                            /\ a.lo = n /\ a.hi = n /\ a.len = n /\ a.count = n
                                            /\ a.collect = n /\ a.extend = n
                                            /\ a.end_lo = 0 /\ a.end_hi = 0 /\ a.bounded)
                                \cup Cond("chunk-warnings-differ", SeqToSet(ro.ci.w) = it.w)
                      ELSE {})
           ELSE {})
     \cup Cond("decompress_if_needed-differs",
               IF ~nd THEN ro.din.r = "false"
               ELSE IF ro.d.k = "ok" THEN ro.din.r = "true" /\ ro.din.buf = FakeHeader(v, ro.bytes) \o ro.d.data
               ELSE ro.din.r = "err")
     \cup Cond("read_panic_on_decompression-differs", nd \/ (ro.rpod.r # "skip" /\ SameOut(ro.rpod, exp)))
     \cup Cond("is_initial-differs", v = 6 => ro.init.r = "ok" /\ ro.init.v = W6!IsInitial(ro.bytes))

---------------------------------------------------------------------------
\* write -> read block:  p, cap, zs (codec samples: [in, out]), wr (Packet::write), rd (read object)

ZOf(v, blk) ==
  IF blk.p.t # "chunks" THEN NoZ
  ELSE LET zin == ZInput(v, blk.p)
           hits == {j \in 1..Len(blk.zs) : blk.zs[j].in = zin}
       IN IF hits = {} THEN [ok |-> FALSE, data |-> <<>>, missing |-> TRUE]
          ELSE blk.zs[CHOOSE j \in hits : TRUE].out

SameChunks(list, data, cl) ==
  /\ Len(list) = Len(cl)
  /\ \A j \in 1..Len(cl) :
       LET x == list[j] IN
       /\ x.vital = cl[j].vital /\ x.seq = cl[j].seq /\ x.resend = cl[j].resend
       /\ x.off + x.len <= Len(data)
       /\ SubSeq(data, x.off + 1, x.off + x.len) = cl[j].data

\* rd2: the written datagram read back under the hint of the reader that accepted the value, when
\* that is not the true token mode (0.6, no hint).  It must be the same value again, except for the
\* one value the format cannot tell apart without hint (Wire!DocumentedAmbiguity).
SameHintFails(v, blk) ==
  IF "out" \notin DOMAIN blk.rd2 THEN {}
  ELSE PropRead(blk.rd2)
       \cup (IF v = 6 /\ W6!DocumentedAmbiguity(blk.p) THEN {}
             ELSE Cond("reread-under-same-hint-differs", blk.rd2.out.r = "ok" /\ blk.rd2.out.p = blk.p))

\* hascl: the chunk area of p was built by the library's write_chunk from the chunk list cl
\* strict: also demand the absence of warnings (C05); C06 only asks that the value survives
PropRT(v, blk, hascl, cl, strict) ==
  \* For generated values (strict, C05) nothing is promised outside the writer's domain Expressible.
  \* Values the reader accepted (C06) must all survive write -> read.
  IF strict /\ ~Expressible(v, blk.p) THEN {}
  ELSE IF ~strict /\ KnownGap(v, blk.p)
  THEN \* the two recorded findings F3 / F4: reported under their own names (unless the value does
       \* survive write -> read, i.e. the gap has been closed); any other unwritable value falls
       \* through to the general clauses below
       IF blk.wr.r = "ok" /\ blk.rd.out.r = "ok" /\ blk.rd.out.p = blk.p THEN {}
       ELSE {GapName(blk.p)}
  ELSE
    Cond("write-panics", blk.wr.r \in {"ok", "err"})
    \cup Cond("write-outside-buffer", blk.wcanary)
    \cup Cond("write-refuses-expressible-value", blk.cap >= MAX_PACKETSIZE => blk.wr.r # "err")
    \cup (IF blk.wr.r # "ok" THEN {}
          ELSE LET ro == blk.rd IN
               PropRead(ro)
               \cup Cond("written-datagram-too-long", Len(blk.wr.bytes) <= MAX_PACKETSIZE)
               \cup Cond("reread-rejects-written-packet", ro.out.r # "err")
               \cup SameHintFails(v, blk)
               \cup (IF ro.out.r # "ok" THEN {}
                     ELSE Cond("roundtrip-value-differs", ro.out.p = blk.p)
                          \cup Cond("warning-on-written-packet", strict => SeqToSet(ro.out.w) \subseteq AllowedW(v, blk.p))
                          \cup (IF strict /\ blk.p.t = "chunks" /\ ro.ci.r = "ok" /\ ro.out.p = blk.p
                                THEN (IF hascl /\ blk.p.nc = Len(cl)
                                      THEN Cond("chunks-read-back-differ", SameChunks(ro.ci.list, blk.p.data, cl))
                                           \cup Cond("warning-on-written-chunks", ro.ci.w = <<>>)
                                      ELSE {})
                                     \cup (IF Chunks(v, blk.p.data, blk.p.nc).w = {}
                                           THEN Cond("warning-on-canonical-chunks", ro.ci.w = <<>>)
                                           ELSE {})
                                ELSE {})))

DetailRT(v, blk, hascl, cl) ==
  \* asserted preconditions of the writer (NUL in a reason, response token ffffffff, ...): no claim
  IF ~Expressible(v, blk.p) /\ blk.p.t # "connless" THEN {} ELSE
  LET z == ZOf(v, blk)
      exp == WriteWith(v, blk.p, z, blk.cap)
  IN Cond("codec-sample-missing", "missing" \notin DOMAIN z)
     \cup Cond("write-verdict-differs", blk.wr.r = exp.r)
     \cup (IF blk.wr.r = exp.r /\ exp.r = "err" THEN Cond("write-error-kind-differs", blk.wr.e = exp.e) ELSE {})
     \* the compression choice: flag set iff the codec's output fits the writer's buffer and is strictly
     \* shorter than its input (a tie goes out uncompressed)
     \cup (IF blk.wr.r = "ok" /\ blk.p.t = "chunks" /\ "missing" \notin DOMAIN z /\ Len(blk.wr.bytes) >= HS(v)
           THEN Cond("compression-choice-differs",
                     NeedsDecompression(v, blk.wr.bytes) <=> (z.ok /\ Len(z.data) < Len(ZInput(v, blk.p))))
           ELSE {})
     \cup (IF blk.wr.r = exp.r /\ exp.r = "ok"
           THEN Cond("written-bytes-differ", blk.wr.bytes = exp.bytes)
                \cup Cond("reread-input-differs", blk.rd.bytes = blk.wr.bytes /\ blk.rd.hint = TrueHint(v, blk.p))
                \cup DetailRead(v, blk.rd)
                \cup (IF "out" \in DOMAIN blk.rd2
                      THEN Cond("reread-input-differs", blk.rd2.bytes = blk.wr.bytes) \cup DetailRead(v, blk.rd2)
                      ELSE {})
           ELSE {})
     \cup (IF hascl THEN Cond("chunk-area-differs", blk.p.data = Area(v, cl)) ELSE {})

---------------------------------------------------------------------------
\* "wc" events: one packet value written into buffers of many capacities.
\*   p, zs, ref (the write into a 2048-byte buffer: r, bytes), ws = <<[cap, r, e, n, same, canary]>>
\*   (n = length of the returned slice, same = its bytes are ref's bytes)
PropWC(e) ==
  IF ~Expressible(e.v, e.p) THEN {}
  ELSE Cond("write-panics", e.ref.r \in {"ok", "err"} /\ \A j \in 1..Len(e.ws) : e.ws[j].r \in {"ok", "err"})
       \cup Cond("write-outside-buffer", \A j \in 1..Len(e.ws) : e.ws[j].canary)
       \cup Cond("write-reports-more-than-capacity", \A j \in 1..Len(e.ws) : e.ws[j].r = "ok" => e.ws[j].n <= e.ws[j].cap)
       \cup Cond("partial-write-reported-as-success",
                 \A j \in 1..Len(e.ws) : e.ws[j].r = "ok" => e.ref.r = "ok" /\ e.ws[j].same)
       \cup Cond("write-refuses-expressible-value", \A j \in 1..Len(e.ws) : e.ws[j].cap >= MAX_PACKETSIZE => e.ws[j].r # "err")
DetailWC(e) ==
  IF ~Expressible(e.v, e.p) THEN {}
  ELSE LET z == ZOf(e.v, e)
           full == WriteWith(e.v, e.p, z, 2048)
           L == Len(full.bytes)
       IN Cond("codec-sample-missing", "missing" \notin DOMAIN z)
          \cup Cond("written-bytes-differ", full.r = "ok" /\ e.ref.r = "ok" /\ e.ref.bytes = full.bytes)
          \cup Cond("write-verdict-differs",
                    \A j \in 1..Len(e.ws) : e.ws[j].r = (IF e.ws[j].cap < L THEN "err" ELSE "ok"))
          \cup Cond("write-error-kind-differs", \A j \in 1..Len(e.ws) : e.ws[j].r = "err" => e.ws[j].e = "Capacity")
          \cup Cond("written-length-differs", \A j \in 1..Len(e.ws) : e.ws[j].r = "ok" => e.ws[j].n = L)

---------------------------------------------------------------------------
\* "it" events: ChunksIter call by call on (data, nc).
\*   r ("ok" | "panic" | "runaway"), steps = <<[pos, rem, c = [off, len, vital, seq, resend], w]>> (one per
\*   call that returned a chunk; pos / rem = pos() / len() before the call), end = [pos, rem, w, pos_after]
\*   (the first call that returned None), after = <<[some, w]>> (two more calls), ci (the same area through
\*   the plain observation used for packets: list, w, api), inb
PropIT(e) ==
  Cond("chunks-iter-panics-or-never-ends", e.r = "ok" /\ e.ci.r = "ok")
  \cup Cond("chunks-iter-size_hint-len-collect-panics", e.ci.r = "ok" => e.ci.api.r = "ok")
  \cup Cond("slice-out-of-bounds", e.inb)
DetailIT(e) ==
  IF e.r # "ok" \/ e.ci.r # "ok" THEN {"chunk-iteration-missing"}
  ELSE LET it == Chunks(e.v, e.data, e.nc)
           m == Len(it.chunks)
       IN Cond("chunk-list-differs", e.ci.list = it.chunks /\ Len(e.steps) = m
                                     /\ \A j \in 1..Len(e.steps) : j <= m => e.steps[j].c = it.chunks[j])
          \cup Cond("chunk-warnings-differ", SeqToSet(e.ci.w) = it.w)
          \cup Cond("chunk-warnings-per-call-differ",
                    /\ \A j \in 1..Len(e.steps) : j <= m => SeqToSet(e.steps[j].w) = it.cw[j]
                    /\ SeqToSet(e.end.w) = it.endw
                    /\ \A k \in 1..Len(e.after) : SeqToSet(e.after[k].w) = IterAfterW(it, e.nc, k))
          \cup Cond("chunks-iter-pos-differs",
                    /\ \A j \in 1..Len(e.steps) : j <= m => e.steps[j].pos = IterPosBefore(it, j)
                    /\ e.end.pos = IterPosBefore(it, m + 1) /\ e.end.pos_after = Len(e.data))
          \cup Cond("chunks-iter-remaining-differs",
                    /\ \A j \in 1..Len(e.steps) : j <= m => e.steps[j].rem = IterLenBefore(it, j)
                    /\ e.end.rem = 0)
          \cup Cond("chunks-iter-not-fused", \A k \in 1..Len(e.after) : ~e.after[k].some)
          \cup Cond("chunks-iter-size-differs",
                    e.ci.api.r = "ok" =>
                      LET a == e.ci.api IN
                      /\ a.lo = m /\ a.hi = m /\ a.len = m /\ a.count = m /\ a.collect = m /\ a.extend = m
                      /\ a.end_lo = 0 /\ a.end_hi = 0 /\ a.bounded)

---------------------------------------------------------------------------
\* events

PropFails(e) ==
  CASE e.k = "hf" -> PropHF(e)
    [] e.k = "hb" -> PropHB(e)
    [] e.k = "rt" -> PropRT(e.v, e, e.hascl, e.cl, TRUE)
    [] e.k = "wc" -> PropWC(e)
    [] e.k = "it" -> PropIT(e)
    [] e.k = "rd" -> PropRead(e)
                     \cup (IF e.out.r = "ok"
                           THEN IF e.rw.r # "ok" THEN {"rewrite-missing"}
                                ELSE Cond("rewrite-of-other-value", e.rw.p = e.out.p)
                                     \cup PropRT(e.v, e.rw, FALSE, <<>>, FALSE)
                           ELSE {})
    [] OTHER -> {"hang-or-unknown-event"}                 \* "hang" events are appended by the driver

DetailFails(e) ==
  CASE e.k = "hf" -> DetailHF(e)
    [] e.k = "hb" -> DetailHB(e)
    [] e.k = "rt" -> DetailRT(e.v, e, e.hascl, e.cl)
    [] e.k = "wc" -> DetailWC(e)
    [] e.k = "it" -> DetailIT(e)
    [] e.k = "rd" -> DetailRead(e.v, e)
                     \cup (IF e.out.r = "ok" /\ e.rw.r = "ok" THEN DetailRT(e.v, e.rw, FALSE, <<>>) ELSE {})
    [] OTHER -> {}

Fails(e) == [p |-> PropFails(e), d |-> IF Level = "detail" THEN DetailFails(e) \cup CodecFails(e.v, e) ELSE {}]

\* An event is either a single case or a batch [k |-> "batch", base, items] of cases (cheaper:
\* one TLC state per batch); bad cases are reported by their position in the whole trace.
Judge(e, pos) ==
  LET f == Fails(e) IN
  (f.p # {} \/ f.d # {}) =>
     /\ TLCSet(1, TLCGet(1) + 1)
     /\ PrintT(<<"BAD", pos, f.p, f.d>>)

Init == i = 0
Next ==
  /\ i < Len(Rec)
  /\ i' = i + 1
  /\ LET e == Rec[i + 1] IN
     IF e.k = "batch" THEN \A j \in 1..Len(e.items) : Judge(e.items[j], e.base + j)
     ELSE Judge(e, i + 1)

Consumed == TLCGet("stats").diameter - 1
Post ==
  IF Consumed = Len(Rec) /\ TLCGet(1) = 0 THEN TRUE
  ELSE /\ PrintT(<<"TRACE REJECTED", "events", Len(Rec), "consumed", Consumed, "bad", TLCGet(1)>>)
       /\ TRUE
=============================================================================
