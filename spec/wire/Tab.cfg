CONSTANTS
  Tier = "tab"
  Export = FALSE
  Fams = {}
  SliceLo = 0
  SliceHi = 1023
INIT Init
NEXT Next
INVARIANT Law
