CONSTANTS
  Tier = "quick"
  Export = TRUE
  Fams = {"short6", "short7", "cor6", "cor7", "heur6", "comp6", "comp7", "max6", "max7", "close", "ctrlx7", "connless7", "tokreq7", "complim6", "complim7"}
  SliceLo = 0
  SliceHi = 1023
INIT Init
NEXT Next
INVARIANT Law
