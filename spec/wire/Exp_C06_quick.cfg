CONSTANTS
  Tier = "quick"
  Export = TRUE
  Fams = {"short", "cor"}
  SliceLo = 0
  SliceHi = 255
INIT Init
NEXT Next
INVARIANT Law
