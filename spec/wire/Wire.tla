-------------------------------- MODULE Wire --------------------------------
(***************************************************************************)
(* Packet wire format of Teeworlds 0.6 / DDNet, transcribed from           *)
(* doc/packet.md (bit layouts) and from the reader/writer contract of      *)
(* net/src/protocol.rs (packet grammar, warnings, error kinds).            *)
(*                                                                         *)
(*   packet_header          FFFF ppAA  AAAA AAAA  nnnn nnnn                *)
(*        FFFF = compression(8) request_resend(4) connless(2) control(1)   *)
(*   chunk_header_nonvital  FFss ssss  PPPP ssss      FF = resend(2) vital(1) *)
(*   chunk_header_vital     FFss ssss  SSSS ssss  SSSS SSSS                *)
(*        first SSSS = sequence bits 9..6, last byte = bits 7..0           *)
(*        (bits 7..6 are stored twice; readers OR them)                    *)
(*                                                                         *)
(* Values:                                                                 *)
(*   packet header  [flags 0..15, ack 0..1023, nc 0..255]                  *)
(*   chunk header   [flags 0..3, size 0..1023]  (+ seq 0..1023 if vital)   *)
(*   packet  [t |-> "connless", data]                                      *)
(*           [t |-> "ctrl", ack, token, c, reason]   token = <<>> | 4 bytes *)
(*                c \in keepalive, connect, connectaccept, accept, close   *)
(*           [t |-> "chunks", ack, token, rr, nc, data]                    *)
(* Compression is not modelled here: writer and reader take the codec's    *)
(* value at the one point they need it as an argument (z, d).              *)
(***************************************************************************)
EXTENDS WireBase, Bitwise

HEADER_SIZE == 3
MAX_BODY == MAX_PACKETSIZE - HEADER_SIZE      \* 1397: payload (+ token) of a connected packet

F_CONTROL == 1
F_CONNLESS == 2
F_RESEND == 4
F_COMPRESSION == 8
Has(flags, f) == (flags \div f) % 2 = 1

---------------------------------------------------------------------------
\* Headers

PHInRange(h) == h.flags \in 0..15 /\ h.ack \in 0..1023 /\ h.nc \in 0..255
PackPH(h) == <<h.flags * 16 + h.ack \div 256, h.ack % 256, h.nc>>
UnpackPH(b) ==
  [h |-> [flags |-> b[1] \div 16, ack |-> (b[1] % 4) * 256 + b[2], nc |-> b[3]],
   \* "padding must be zeroed"; the all-ones header of connless packets is
   \* judged by ConnlessPadding at packet level instead
   w |-> IF ~Has(b[1] \div 16, F_CONNLESS) /\ (b[1] \div 4) % 4 # 0 THEN {"PacketHeaderPadding"} ELSE {}]
CanonPH(b) == (b[1] \div 4) % 4 = 0

CHInRange(h) == h.flags \in 0..3 /\ h.size \in 0..1023
PackCH(h) == <<h.flags * 64 + h.size \div 16, h.size % 16>>
UnpackCH(b) ==
  [h |-> [flags |-> b[1] \div 64, size |-> (b[1] % 64) * 16 + (b[2] % 16)],
   w |-> IF b[2] \div 16 # 0 THEN {"ChunkHeaderPadding"} ELSE {}]
CanonCH(b) == b[2] \div 16 = 0

CHVInRange(h) == CHInRange(h) /\ h.seq \in 0..1023
PackCHV(h) == <<h.flags * 64 + h.size \div 16, (h.seq \div 64) * 16 + (h.size % 16), h.seq % 256>>
UnpackCHV(b) ==
  LET hi == b[2] \div 16 IN
  [h |-> [flags |-> b[1] \div 64, size |-> (b[1] % 64) * 16 + (b[2] % 16),
          seq |-> (hi \div 4) * 256 + ((hi % 4) | (b[3] \div 64)) * 64 + (b[3] % 64)],
   w |-> IF hi % 4 # b[3] \div 64 THEN {"ChunkHeaderSequence"} ELSE {}]
CanonCHV(b) == (b[2] \div 16) % 4 = b[3] \div 64

Chunks(data, nc) == IterChunks(data, nc, UnpackCH, UnpackCHV)
Area(cl) == ChunkArea(cl, PackCH, PackCHV)

---------------------------------------------------------------------------
\* Writer

CtrlCode(c) == CASE c = "keepalive" -> 0 [] c = "connect" -> 1 [] c = "connectaccept" -> 2
                 [] c = "accept" -> 3 [] c = "close" -> 4
CtrlNames == {"keepalive", "connect", "connectaccept", "accept", "close"}

\* what the writer compresses for a chunk packet: the chunk area followed by the token
ZInput(p) == p.data \o p.token

\* the values the writer is specified for (its preconditions / size limits)
Expressible(p) ==
  CASE p.t = "connless" -> Len(p.data) <= MAX_PAYLOAD
    [] p.t = "ctrl" -> /\ p.ack \in 0..1023 /\ Len(p.token) \in {0, 4}
                       /\ p.c \in CtrlNames
                       /\ NulFree(p.reason) /\ Len(p.reason) <= REASON_MAX
                       /\ (p.c # "close" => p.reason = <<>>)
    [] p.t = "chunks" -> /\ p.ack \in 0..1023 /\ Len(p.token) \in {0, 4} /\ p.nc \in 0..255
                         /\ Len(p.data) + Len(p.token) <= MAX_BODY

WOk(b) == [r |-> "ok", bytes |-> b]
WErr(e) == [r |-> "err", e |-> e]

\* z = [ok |-> BOOLEAN, data |-> bytes] : the codec's output for ZInput(p) (chunk packets only)
WriteRaw(p, z) ==
  CASE p.t = "connless" ->
         IF Len(p.data) > MAX_PAYLOAD THEN WErr("TooLongData") ELSE WOk(Rep(6, 255) \o p.data)
    [] p.t = "chunks" ->
         LET pt == ZInput(p)
             comp == z.ok /\ Len(z.data) < Len(pt)         \* only when strictly shorter
         IN WOk(PackPH([flags |-> (IF p.rr THEN F_RESEND ELSE 0) + (IF comp THEN F_COMPRESSION ELSE 0),
                        ack |-> p.ack, nc |-> p.nc])
                \o (IF comp THEN z.data ELSE pt))
    [] p.t = "ctrl" ->
         WOk(PackPH([flags |-> F_CONTROL, ack |-> p.ack, nc |-> 0])
             \o <<CtrlCode(p.c)>>
             \o (IF p.c \in {"connect", "connectaccept"} /\ p.token # <<>> THEN TKEN ELSE <<>>)
             \o (IF p.c = "close" THEN p.reason \o <<0>> ELSE <<>>)
             \o p.token)
WriteWith(p, z, cap) ==
  LET r == WriteRaw(p, z) IN
  IF r.r = "ok" /\ Len(r.bytes) > cap THEN WErr("Capacity") ELSE r

---------------------------------------------------------------------------
\* Reader

ROk(p, w) == [r |-> "ok", p |-> p, w |-> w]
RErr(e) == [r |-> "err", e |-> e]

NeedsDecompression(b) ==
  /\ Len(b) <= MAX_PACKETSIZE /\ Len(b) >= HEADER_SIZE
  /\ LET f == b[1] \div 16 IN ~Has(f, F_CONNLESS) /\ Has(f, F_COMPRESSION)

\* what decompress_if_needed leaves in the buffer in front of the decompressed body
FakeHeader(b) == LET u == UnpackPH(Take(b, 3)).h IN
                 PackPH([flags |-> u.flags - F_COMPRESSION, ack |-> u.ack, nc |-> u.nc])

IsInitial(b) ==
  /\ Len(b) <= MAX_PACKETSIZE /\ Len(b) >= HEADER_SIZE
  /\ LET f == b[1] \div 16 IN
     \/ Has(f, F_CONNLESS)
     \/ /\ f \in {F_CONTROL, F_CONTROL + F_RESEND}
        /\ Len(b) >= 4 /\ b[4] \in {1, 3}

\* token guess of a reader that does not know the connection (hint "none")
HasTokenHeur(control, nc, pl) ==
  IF control
  THEN IF pl = <<>> THEN FALSE
       ELSE LET c == pl[1]
                rest == Drop(pl, 1)
            IN CASE c \in {1, 2} ->
                      IF Len(rest) < 4 \/ Take(rest, 4) # TKEN THEN FALSE
                      ELSE 5 + 4 <= Len(pl)
                 [] c = 4 ->
                      LET nul == FirstNul(rest) IN
                      IF Len(rest) = 4 /\ (nul # 3 \/ ~Utf8Valid3(rest[1], rest[2], rest[3]))
                      THEN TRUE
                      ELSE 1 + nul + 1 + 4 <= Len(pl)
                 [] OTHER -> 1 + 4 <= Len(pl)
  ELSE LET it == Chunks(pl, nc) IN
       IF Len(it.chunks) < nc THEN FALSE
       ELSE (IF nc = 0 THEN 0 ELSE it.chunks[nc].off + it.chunks[nc].len) + 4 <= Len(pl)

\* b : datagram, hint \in {"none", "true", "false"},
\* d = [k |-> "ok" | "err" | "none", data |-> bytes] : the codec's output for Drop(b, 3)
\*     with capacity (scratch size - 3); "none" = not supplied
ReadWith(b, hint, d) ==
  IF Len(b) > MAX_PACKETSIZE THEN RErr("TooLong")
  ELSE IF Len(b) < HEADER_SIZE THEN RErr("TooShort")
  ELSE
  LET u == UnpackPH(Take(b, 3))
      f == u.h.flags
      nc == u.h.nc
      raw == Drop(b, 3)
  IN
  IF Has(f, F_CONNLESS)
  THEN IF Len(raw) < 3 THEN RErr("ShortConnless")
       ELSE ROk([t |-> "connless", data |-> Drop(raw, 3)],
                IF Take(b, 6) # Rep(6, 255) THEN {"ConnlessPadding"} ELSE {})
  ELSE
  IF Has(f, F_COMPRESSION) /\ d.k = "none" THEN [r |-> "need_d"]
  ELSE IF Has(f, F_COMPRESSION) /\ d.k = "err" THEN RErr("Compression")
  ELSE
  LET body == IF Has(f, F_COMPRESSION) THEN d.data ELSE raw IN
  IF Len(body) > MAX_BODY THEN RErr("Compression")
  ELSE
  LET control == Has(f, F_CONTROL)
      hasTok == CASE hint = "true" -> TRUE [] hint = "false" -> FALSE
                  [] OTHER -> HasTokenHeur(control, nc, body)
  IN
  IF hasTok /\ Len(body) < 4 THEN RErr("TokenMissing")
  ELSE
  LET token == IF hasTok THEN Drop(body, Len(body) - 4) ELSE <<>>
      pl == IF hasTok THEN Take(body, Len(body) - 4) ELSE body
      w0 == u.w
  IN
  IF control
  THEN LET w1 == w0 \cup (IF nc # 0 THEN {"ControlNumChunks"} ELSE {})
                    \cup (IF Has(f, F_COMPRESSION) \/ Has(f, F_RESEND) THEN {"ControlFlags"} ELSE {})
       IN IF pl = <<>> THEN RErr("ControlMissing")
          ELSE LET c == pl[1]
                   rest == Drop(pl, 1)
                   Simple(name) == ROk([t |-> "ctrl", ack |-> u.h.ack, token |-> token, c |-> name, reason |-> <<>>],
                                       w1 \cup (IF rest # <<>> THEN {"ControlExcessData"} ELSE {}))
                   Conn(name) ==
                     ROk([t |-> "ctrl", ack |-> u.h.ack, token |-> token, c |-> name, reason |-> <<>>],
                         w1 \cup (IF hasTok
                                  THEN IF Len(rest) >= 4 /\ Take(rest, 4) = TKEN
                                       THEN (IF Len(rest) > 4 THEN {"ControlExcessData"} ELSE {})
                                       ELSE {"ControlConnectMissingTokenMagic"}
                                            \cup (IF rest # <<>> THEN {"ControlExcessData"} ELSE {})
                                  ELSE (IF rest # <<>> THEN {"ControlExcessData"} ELSE {})))
               IN CASE c = 0 -> Simple("keepalive")
                    [] c = 1 -> Conn("connect")
                    [] c = 2 -> Conn("connectaccept")
                    [] c = 3 -> Simple("accept")
                    [] c = 4 ->
                         LET fn == FirstNul(rest)
                             nul == IF fn < REASON_MAX THEN fn ELSE REASON_MAX
                         IN ROk([t |-> "ctrl", ack |-> u.h.ack, token |-> token, c |-> "close",
                                 reason |-> Take(rest, nul)],
                                w1 \cup (IF rest # <<>> /\ nul + 1 # Len(rest)
                                         THEN IF nul + 1 < Len(rest) THEN {"ControlExcessData"}
                                              ELSE {"ControlNulTermination"}
                                         ELSE {}))
                    [] OTHER -> RErr("UnknownControl")
  ELSE LET rr == Has(f, F_RESEND) IN
       ROk([t |-> "chunks", ack |-> u.h.ack, token |-> token, rr |-> rr, nc |-> nc, data |-> pl],
           w0 \cup (IF nc = 0 /\ ~rr THEN {"ChunksNoChunks"} ELSE {}))

\* the hint a reader that knows the connection passes for p
TrueHint(p) == IF p.t = "connless" THEN "false" ELSE IF p.token # <<>> THEN "true" ELSE "false"

\* The one value a reader without hint cannot tell apart by construction (the comment in
\* has_token_heuristic: a 4-byte close payload "might either be a 3-byte reason with nul byte or a 0-byte
\* reason with a 4-byte token"; resolved by the UTF-8 test): a token-less Close whose reason is three
\* bytes that are not UTF-8 is written as 04 r1 r2 r3 00 and read back, without hint, as Close("") with
\* token r1 r2 r3 00.  Every other accepted value must be re-read as itself under hint "none" too.
DocumentedAmbiguity(p) ==
  /\ p.t = "ctrl" /\ p.c = "close" /\ p.token = <<>> /\ Len(p.reason) = 3
  /\ ~Utf8Valid3(p.reason[1], p.reason[2], p.reason[3])

\* warnings a freshly written expressible packet may produce when read back
\* (the library warns on purpose about a chunk packet that carries nothing)
AllowedW(p) == IF p.t = "chunks" /\ p.nc = 0 /\ ~p.rr THEN {"ChunksNoChunks"} ELSE {}
=============================================================================
