CONSTANT Level = "prop"
CONSTANT CodecFails <- NoCodecFails
INIT Init
NEXT Next
POSTCONDITION Post
