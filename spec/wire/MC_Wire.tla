------------------------------- MODULE MC_Wire ------------------------------
(***************************************************************************)
(* Model-checking harness for Wire.tla / Wire7.tla (C05, C06).             *)
(*                                                                         *)
(* Every enumerated case is one initial state <<fam, c>>; the invariant    *)
(* Law evaluates the law of the case's family.  When Export is TRUE the    *)
(* invariant also prints the case as a test vector                         *)
(*     <<"V", ToJson(case)>>                                               *)
(* which the harness (vh-wire exec) runs through the real code; what the   *)
(* real code did is judged by WireTrace.tla with the same operators.       *)
(*                                                                         *)
(* Families                                                                *)
(*   hf   header fields -> Pack -> Unpack = fields, no warning             *)
(*   hb   header bytes  -> Unpack -> Pack = bytes  <=> canonical,          *)
(*        no warning <=> canonical                                         *)
(*   rt   packet value -> Write -> Read(true hint) = value, no warning     *)
(*        (toy codec in place of Huffman, both compression branches)       *)
(*   rd   arbitrary datagram -> Read is a value or an error, and an        *)
(*        accepted expressible value survives Write -> Read                *)
(*   utf  the three-byte UTF-8 predicate of the token heuristic            *)
(***************************************************************************)
EXTENDS Integers, Sequences, FiniteSets, TLC, SequencesExt, Json, WireBase, WireTab

CONSTANTS Tier,       \* "quick" | "thorough" (both exported) | "deep" | "full6" | "full7" | "utf" (model only)
          Export,     \* BOOLEAN: print the exported subset as vectors
          Fams        \* subset of {"hf", "hb", "rt", "short6", "short7", "cor6", "cor7", "heur6", "comp6", "comp7", "max6", "max7", "close"}: the families of this run

\* W6 == INSTANCE Wire, W7 == INSTANCE Wire7 and the header dispatch Pack / Unpack come from WireTab

VARIABLES fam, cas
vars == <<fam, cas>>

Quick == Tier = "quick"

---------------------------------------------------------------------------
\* value sets

BB == {0, 1, 2, 15, 16, 17, 63, 64, 127, 128, 191, 192, 254, 255}       \* byte boundaries
B4 == {0, 1, 64, 128, 255}
AckB == {0, 1, 2, 3, 255, 256, 257, 511, 512, 767, 768, 1022, 1023}
NcB == {0, 1, 2, 127, 128, 254, 255}
Size6B == {0, 1, 15, 16, 17, 31, 32, 63, 64, 255, 256, 1008, 1022, 1023}
Size7B == {0, 1, 15, 16, 17, 31, 32, 48, 63, 64, 65, 127, 128, 1023, 1024, 4032, 4094, 4095}
SeqB == {0, 1, 63, 64, 65, 127, 128, 191, 192, 255, 256, 511, 512, 767, 768, 1022, 1023}
Tok == {<<1, 2, 3, 4>>, TOKEN_NONE, <<0, 0, 0, 0>>, TKEN}
Tok6 == Tok \cup {<<>>}
AckS == {0, 1, 255, 256, 1023}

NoZ == [ok |-> FALSE, data |-> <<>>]
NoD == [k |-> "none", data |-> <<>>]
CAP == 2048

---------------------------------------------------------------------------
\* header families (as initial-state predicates: TLC enumerates them without building the sets)

Mk(x) == cas = x /\ fam = x.k
Deep == Tier = "deep"
\* T3(q, t, d): the value set of the quick / thorough (exported) / deep (model only) tier
T3(q, t, d) == IF Quick THEN q ELSE IF Deep THEN d ELSE t
CONSTANTS SliceLo, SliceHi          \* deep and full runs are sliced over a leading coordinate (parallel TLC processes)
Slice(S) == {x \in S : x >= SliceLo /\ x <= SliceHi}
Tok2 == {TKEN, TOKEN_NONE}

InitHF ==
  \/ \E f \in 0..15, a \in T3(AckB, 0..1023, Slice(0..1023)), n \in T3(NcB, {0, 255}, Byte) :
       Mk([k |-> "hf", v |-> 6, hk |-> "ph", h |-> [flags |-> f, ack |-> a, nc |-> n]])
  \/ \E f \in 0..3, s \in T3(Size6B \cup 0..70, 0..1023, Slice(0..1023)) :
       Mk([k |-> "hf", v |-> 6, hk |-> "ch", h |-> [flags |-> f, size |-> s]])
  \/ \E f \in T3({1, 3}, 0..3, 0..3), s \in T3(Size6B, Size6B, Slice(0..1023)), q \in T3(SeqB, 0..1023, 0..1023) :
       Mk([k |-> "hf", v |-> 6, hk |-> "chv", h |-> [flags |-> f, size |-> s, seq |-> q]])
  \/ \E f \in 0..15, a \in T3(AckB, AckB, Slice(0..1023)), n \in T3(NcB, NcB, Byte), t \in T3(Tok2, Tok, {TKEN}) :
       Mk([k |-> "hf", v |-> 7, hk |-> "ph", h |-> [flags |-> f, ack |-> a, nc |-> n, token |-> t]])
  \/ \E f \in 0..15, ver \in 0..3, t \in T3(Tok2, Tok, Tok), r \in T3(Tok2, Tok, Tok) :
       (Deep => SliceLo = 0)
       /\ Mk([k |-> "hf", v |-> 7, hk |-> "phc", h |-> [flags |-> f, version |-> ver, token |-> t, rtoken |-> r]])
  \/ \E f \in 0..3, s \in T3(Size7B \cup 0..130, 0..4095, {x \in 0..4095 : (x % 1024) >= SliceLo /\ (x % 1024) <= SliceHi}) :
       Mk([k |-> "hf", v |-> 7, hk |-> "ch", h |-> [flags |-> f, size |-> s]])
  \/ \E f \in T3({1, 3}, 0..3, 0..3), s \in T3(Size7B, Size7B, 0..4095), q \in T3(SeqB, SeqB \cup 0..300, Slice(0..1023)) :
       Mk([k |-> "hf", v |-> 7, hk |-> "chv", h |-> [flags |-> f, size |-> s, seq |-> q]])

InitHB ==
  \/ \E b1 \in Byte, b2 \in T3(B4, BB, BB), b3 \in T3({0, 1, 255}, BB, BB) :
       Mk([k |-> "hb", v |-> 6, hk |-> "ph", b |-> <<b1, b2, b3>>])
  \/ \E b1 \in Byte, b2 \in T3(BB, Byte, Byte) :
       Mk([k |-> "hb", v |-> 6, hk |-> "ch", b |-> <<b1, b2>>])
  \/ \E b1 \in T3({0, 64, 255}, BB, BB), b2 \in Byte, b3 \in T3(B4, BB, BB) :
       Mk([k |-> "hb", v |-> 6, hk |-> "chv", b |-> <<b1, b2, b3>>])
  \/ \E b1 \in Byte, b2 \in T3({0, 255}, B4, B4), b3 \in T3({0, 255}, B4, B4), t \in Tok2 :
       Mk([k |-> "hb", v |-> 7, hk |-> "ph", b |-> <<b1, b2, b3>> \o t])
  \/ \E b1 \in Byte, t \in Tok2, r \in T3({TKEN}, Tok, Tok) :
       Mk([k |-> "hb", v |-> 7, hk |-> "phc", b |-> <<b1>> \o t \o r])
  \/ \E b1 \in Byte, b2 \in T3(BB, Byte, Byte) :
       Mk([k |-> "hb", v |-> 7, hk |-> "ch", b |-> <<b1, b2>>])
  \/ \E b1 \in T3({0, 64, 255}, BB, BB), b2 \in Byte, b3 \in T3({0, 255}, B4, B4) :
       Mk([k |-> "hb", v |-> 7, hk |-> "chv", b |-> <<b1, b2, b3>>])

\* exhaustive byte spaces (separate runs, sliced over the first byte: no export)
InitFull6 ==
  \E b1 \in SliceLo..SliceHi, b2 \in Byte, b3 \in Byte :
    \/ Mk([k |-> "hb", v |-> 6, hk |-> "ph", b |-> <<b1, b2, b3>>])
    \/ Mk([k |-> "hb", v |-> 6, hk |-> "chv", b |-> <<b1, b2, b3>>])
InitFull7 ==
  \E b1 \in SliceLo..SliceHi, b2 \in Byte, b3 \in Byte :
    \/ Mk([k |-> "hb", v |-> 7, hk |-> "ph", b |-> <<b1, b2, b3>> \o TKEN])
    \/ Mk([k |-> "hb", v |-> 7, hk |-> "chv", b |-> <<b1, b2, b3>>])

Ops(v, hk) ==   \* the header operators of a version / header kind
  CASE v = 6 /\ hk = "ph" -> [n |-> 3]
    [] v = 6 /\ hk = "ch" -> [n |-> 2]
    [] v = 6 /\ hk = "chv" -> [n |-> 3]
    [] v = 7 /\ hk = "ph" -> [n |-> 7]
    [] v = 7 /\ hk = "phc" -> [n |-> 9]
    [] v = 7 /\ hk = "ch" -> [n |-> 2]
    [] v = 7 /\ hk = "chv" -> [n |-> 3]

InRange(v, hk, h) ==
  CASE v = 6 /\ hk = "ph" -> W6!PHInRange(h) [] v = 6 /\ hk = "ch" -> W6!CHInRange(h) [] v = 6 /\ hk = "chv" -> W6!CHVInRange(h)
    [] v = 7 /\ hk = "ph" -> W7!PHInRange(h) [] v = 7 /\ hk = "phc" -> W7!PHCInRange(h)
    [] v = 7 /\ hk = "ch" -> W7!CHInRange(h) [] v = 7 /\ hk = "chv" -> W7!CHVInRange(h)
Canon(v, hk, b) ==
  CASE v = 6 /\ hk = "ph" -> W6!CanonPH(b) [] v = 6 /\ hk = "ch" -> W6!CanonCH(b) [] v = 6 /\ hk = "chv" -> W6!CanonCHV(b)
    [] v = 7 /\ hk = "ph" -> W7!CanonPH(b) [] v = 7 /\ hk = "phc" -> W7!CanonPHC(b)
    [] v = 7 /\ hk = "ch" -> W7!CanonCH(b) [] v = 7 /\ hk = "chv" -> W7!CanonCHV(b)
\* the one documented exception to "no warning <=> canonical": the 0.6 packet header of a
\* connless packet is not judged by itself (it is all ones by convention: ConnlessPadding)
Silent(v, hk, b) == v = 6 /\ hk = "ph" /\ W6!Has(b[1] \div 16, W6!F_CONNLESS)

LawHF(x) ==
  LET b == Pack(x.v, x.hk, x.h)
      u == Unpack(x.v, x.hk, b)
  IN /\ InRange(x.v, x.hk, x.h)
     /\ Len(b) = Ops(x.v, x.hk).n /\ IsBytes(b)
     /\ Canon(x.v, x.hk, b)
     /\ u.h = x.h /\ u.w = {}
     \* the exported class table says the same as the operators (WireTab)
     /\ TabLaw(x.v, x.hk, "hf", SfxOfH(x.v, x.hk, x.h), TupleOfH(x.hk, x.h))

LawHB(x) ==
  LET u == Unpack(x.v, x.hk, x.b)
      b2 == Pack(x.v, x.hk, u.h)
  IN /\ InRange(x.v, x.hk, u.h)                                 \* unpacking never leaves the field ranges
     /\ (b2 = x.b) <=> Canon(x.v, x.hk, x.b)                    \* re-pack is the identity exactly on canonical patterns
     /\ (u.w = {}) <=> (Canon(x.v, x.hk, x.b) \/ Silent(x.v, x.hk, x.b))
     /\ Unpack(x.v, x.hk, b2).h = u.h /\ Canon(x.v, x.hk, b2)    \* Pack normalises
     /\ TabLaw(x.v, x.hk, "hb", Drop(x.b, NSweep(x.hk)), Take(x.b, NSweep(x.hk)))

\* The header laws in bulk: one TLC state per value a of the coordinate with the largest domain of a class
\* table's space, the law of every tuple of the slice evaluated inside (all 2^24 byte patterns of the
\* three-byte headers, all 2^16 of the two-byte ones, every in-range field tuple).  Family "bulk" of the
\* exported tiers: the small spaces (headers of at most two swept coordinates) completely; tier "bulk":
\* every table, the (table, a) pairs with a % SliceHi = SliceLo (parallel processes).
BulkLaw(tab, a) ==
  ForSlice(tab, a, LAMBDA x :
    IF tab.mode = "hb" THEN LawHB([k |-> "hb", v |-> tab.v, hk |-> tab.hk, b |-> x \o tab.sfx])
    ELSE LawHF([k |-> "hf", v |-> tab.v, hk |-> tab.hk, h |-> HOf(tab.v, tab.hk, x, tab.sfx)]))
BulkSize(tab) == FoldLeft(LAMBDA acc, k : acc * tab.dom[k], 1, Iota(Len(tab.dom))) \div tab.dom[SliceCoord(tab)]
InitBulk == \E j \in 1..Len(AllTables) : \E a \in 0..(AllTables[j].dom[SliceCoord(AllTables[j])] - 1) :
              a % SliceHi = SliceLo /\ Mk([k |-> "bulk", ti |-> j, a |-> a])
InitBulkSmall == \E j \in 1..Len(AllTables) : \E a \in 0..(AllTables[j].dom[SliceCoord(AllTables[j])] - 1) :
                   Len(AllTables[j].dom) < 3 /\ Mk([k |-> "bulk", ti |-> j, a |-> a])
InitTabExp == \E j \in 1..Len(AllTables) : Mk([k |-> "tabexp", ti |-> j])

---------------------------------------------------------------------------
\* packet families

RawS == {<<>>, <<0>>, <<255>>, <<0, 0>>, <<64, 0, 0>>, <<0, 1, 7>>, TKEN, <<255, 255, 255, 255>>,
         <<1, 2, 3, 4, 5, 6, 7>>, Rep(24, 0), Rep(40, 65)}
Reasons == {<<>>, <<65>>, <<65, 66, 67>>, <<255, 254, 253>>, <<226, 130, 172>>, <<65, 66, 67, 68>>,
            <<84, 75, 69, 78>>, Rep(127, 120)}
CData6 == {<<>>, <<7>>, <<1, 2, 3, 4, 5>>, Rep(16, 0), Rep(20, 9)}
CData7 == CData6 \cup {Rep(48, 0), Rep(64, 3)}
ChunkS(CD) == {[vital |-> FALSE, seq |-> 0, resend |-> FALSE, data |-> dd] : dd \in CD}
              \cup {[vital |-> TRUE, seq |-> q, resend |-> rs, data |-> dd] :
                      q \in {0, 64, 255, 256, 1023}, rs \in BOOLEAN, dd \in CD}
ChunkSmall1 == [vital |-> FALSE, seq |-> 0, resend |-> FALSE, data |-> <<7>>]
ChunkSmall2 == [vital |-> TRUE, seq |-> 1023, resend |-> TRUE, data |-> Rep(20, 9)]
ChunkSmall3 == [vital |-> TRUE, seq |-> 5, resend |-> FALSE, data |-> <<>>]
ChunkSmall == {ChunkSmall1, ChunkSmall2, ChunkSmall3}
Lists(CD) == {<<>>} \cup {<<x>> : x \in ChunkS(CD)} \cup {<<x, y>> : x \in ChunkSmall, y \in ChunkSmall}
             \cup {<<x, y, y>> : x \in ChunkSmall, y \in ChunkSmall}

Pkt6 ==
  {[k |-> "rt", v |-> 6, hascl |-> FALSE, cl |-> <<>>, p |-> [t |-> "connless", data |-> dd]] : dd \in RawS}
  \cup {[k |-> "rt", v |-> 6, hascl |-> FALSE, cl |-> <<>>,
         p |-> [t |-> "ctrl", ack |-> a, token |-> t, c |-> cc, reason |-> <<>>]] :
           a \in AckS, t \in Tok6, cc \in {"keepalive", "connect", "connectaccept", "accept"}}
  \cup {[k |-> "rt", v |-> 6, hascl |-> FALSE, cl |-> <<>>,
         p |-> [t |-> "ctrl", ack |-> a, token |-> t, c |-> "close", reason |-> rs]] :
           a \in {0, 1023}, t \in Tok6, rs \in Reasons}
  \cup {[k |-> "rt", v |-> 6, hascl |-> TRUE, cl |-> l,
         p |-> [t |-> "chunks", ack |-> a, token |-> t, rr |-> rr, nc |-> Len(l), data |-> W6!Area(l)]] :
           a \in {0, 1023}, t \in {<<>>, <<1, 2, 3, 4>>}, rr \in BOOLEAN, l \in Lists(CData6)}
  \cup {[k |-> "rt", v |-> 6, hascl |-> FALSE, cl |-> <<>>,
         p |-> [t |-> "chunks", ack |-> a, token |-> t, rr |-> rr, nc |-> n, data |-> dd]] :
           a \in {256}, t \in {<<>>, TKEN}, rr \in BOOLEAN, n \in {0, 1, 255}, dd \in RawS}

Pkt7 ==
  {[k |-> "rt", v |-> 7, hascl |-> FALSE, cl |-> <<>>,
    p |-> [t |-> "connless", token |-> t, rtoken |-> r, data |-> dd]] : t \in Tok, r \in {<<9, 8, 7, 6>>, TOKEN_NONE}, dd \in RawS}
  \cup {[k |-> "rt", v |-> 7, hascl |-> FALSE, cl |-> <<>>,
         p |-> [t |-> "ctrl", ack |-> a, token |-> t, c |-> cc, reason |-> <<>>, rt |-> <<>>]] :
           a \in AckS, t \in Tok, cc \in {"keepalive", "accept"}}
  \cup {[k |-> "rt", v |-> 7, hascl |-> FALSE, cl |-> <<>>,
         p |-> [t |-> "ctrl", ack |-> a, token |-> t, c |-> cc, reason |-> <<>>, rt |-> r]] :
           a \in {0, 1023}, t \in Tok, cc \in {"connect", "token"}, r \in Tok \ {TOKEN_NONE}}
  \cup {[k |-> "rt", v |-> 7, hascl |-> FALSE, cl |-> <<>>,
         p |-> [t |-> "ctrl", ack |-> a, token |-> t, c |-> "close", reason |-> rs, rt |-> <<>>]] :
           a \in {0, 1023}, t \in {TKEN, TOKEN_NONE}, rs \in Reasons}
  \cup {[k |-> "rt", v |-> 7, hascl |-> TRUE, cl |-> l,
         p |-> [t |-> "chunks", ack |-> a, token |-> t, rr |-> rr, nc |-> Len(l), data |-> W7!Area(l)]] :
           a \in {0, 1023}, t \in {<<1, 2, 3, 4>>, TOKEN_NONE}, rr \in BOOLEAN, l \in Lists(CData7)}
  \cup {[k |-> "rt", v |-> 7, hascl |-> FALSE, cl |-> <<>>,
         p |-> [t |-> "chunks", ack |-> a, token |-> t, rr |-> rr, nc |-> n, data |-> dd]] :
           a \in {256}, t \in {TKEN}, rr \in BOOLEAN, n \in {0, 1, 255}, dd \in RawS}

\* payload lengths max-3 .. max for each content class (all-zero, two-symbol, incompressible for the
\* codec), token present / absent: the body fills a packet (and the minimum scratch buffer) exactly
BigData(n, cls) == CASE cls = 0 -> Rep(n, 0)
                     [] cls = 1 -> [j \in 1..n |-> IF j % 3 = 0 THEN 1 ELSE 0]
                     [] cls = 2 -> [j \in 1..n |-> j % 251]
Big6 == {[k |-> "rt", v |-> 6, hascl |-> FALSE, cl |-> <<>>,
          p |-> [t |-> "chunks", ack |-> 1023, token |-> t, rr |-> TRUE, nc |-> 255, data |-> BigData(1397 - Len(t) - dlt, cls)]] :
            t \in {<<>>, <<9, 8, 7, 6>>}, dlt \in 0..3, cls \in 0..2}
Big7 == {[k |-> "rt", v |-> 7, hascl |-> FALSE, cl |-> <<>>,
          p |-> [t |-> "chunks", ack |-> 1023, token |-> <<9, 8, 7, 6>>, rr |-> TRUE, nc |-> 255, data |-> BigData(1393 - dlt, cls)]] :
            dlt \in 0..3, cls \in 0..2}
\* scratch sizes every exported packet is read with by the real reader
RCaps(x) == IF x.p.t = "chunks" /\ Len(x.p.data) > 1000 THEN {1400, 1401, 2048} ELSE {1400, 2048}

\* the writers compress into an internal buffer of 2048 bytes; a stream that does not fit is a codec
\* error, which the writer treats as "do not compress" (content that expands under the codec)
ZBUF == 2048
ZCap(z) == IF Len(z.data) > ZBUF THEN NoZ ELSE z
Z6(p) == IF p.t = "chunks" THEN ZCap(ToyZ(W6!ZInput(p))) ELSE NoZ
Z7(p) == IF p.t = "chunks" THEN ZCap(ToyZ(W7!ZInput(p))) ELSE NoZ
ExpandsSome == \E x \in Big6 \cup Big7 : ~Z6(x.p).ok
D6(b) == IF W6!NeedsDecompression(b) THEN ToyD(Drop(b, 3), CAP - 3) ELSE NoD
D7(b) == IF W7!NeedsDecompression(b) THEN ToyD(Drop(b, 7), CAP - 7) ELSE NoD

\* chunks read back = the list the area was built from
SameChunks(it, data, cl) ==
  /\ it.w = {}
  /\ Len(it.chunks) = Len(cl)
  /\ \A j \in 1..Len(cl) :
       LET x == it.chunks[j] IN
       /\ x.vital = cl[j].vital /\ x.seq = cl[j].seq /\ x.resend = cl[j].resend
       /\ SubSeq(data, x.off + 1, x.off + x.len) = cl[j].data

\* write -> read of an expressible value (C05); strict = also demand the absence of warnings
\* The reader's result must not depend on the size of the scratch buffer as long as it has the
\* documented minimum (MAX_PACKETSIZE): the round trip is demanded for the minimum and a generous one
\* (a body of exactly the maximum length then fills the minimum buffer exactly).
Caps == {MAX_PACKETSIZE, CAP}
D6c(b, cp) == IF W6!NeedsDecompression(b) THEN ToyD(Drop(b, 3), cp - 3) ELSE NoD
D7c(b, cp) == IF W7!NeedsDecompression(b) THEN ToyD(Drop(b, 7), cp - 7) ELSE NoD
RoundTrip6(p) ==
  LET w == W6!WriteWith(p, Z6(p), CAP) IN
  /\ w.r = "ok" /\ Len(w.bytes) <= MAX_PACKETSIZE /\ IsBytes(w.bytes)
  /\ \A cp \in Caps :
       LET r == W6!ReadWith(w.bytes, W6!TrueHint(p), D6c(w.bytes, cp)) IN
       r.r = "ok" /\ r.p = p /\ r.w = W6!AllowedW(p)
RoundTrip7(p) ==
  LET w == W7!WriteWith(p, Z7(p), CAP) IN
  /\ w.r = "ok" /\ Len(w.bytes) <= MAX_PACKETSIZE /\ IsBytes(w.bytes)
  /\ \A cp \in Caps :
       LET r == W7!ReadWith(w.bytes, D7c(w.bytes, cp)) IN
       r.r = "ok" /\ r.p = p /\ r.w = W7!AllowedW(p)

LawRT(x) ==
  IF x.v = 6
  THEN /\ W6!Expressible(x.p) /\ RoundTrip6(x.p)
       /\ x.hascl => SameChunks(W6!Chunks(x.p.data, x.p.nc), x.p.data, x.cl)
  ELSE /\ W7!Expressible(x.p) /\ RoundTrip7(x.p)
       /\ x.hascl => SameChunks(W7!Chunks(x.p.data, x.p.nc), x.p.data, x.cl)

\* both compression branches are taken by the packet sets (checked as a constant-level fact)
CompressedSome6 == \E x \in Pkt6 : x.p.t = "chunks" /\ W6!NeedsDecompression(W6!WriteWith(x.p, Z6(x.p), CAP).bytes)
CompressedSome7 == \E x \in Pkt7 : x.p.t = "chunks" /\ W7!NeedsDecompression(W7!WriteWith(x.p, Z7(x.p), CAP).bytes)

---------------------------------------------------------------------------
\* arbitrary datagrams (C06)

ErrKinds6 == {"Compression", "ControlMissing", "ShortConnless", "TokenMissing", "TooLong", "TooShort", "UnknownControl"}
ErrKinds7 == {"Compression", "ControlMissing", "ControlResponseTokenMissing", "ControlTokenRequestTooShort",
              "TooLong", "TooShort", "UnknownConnlessVersion", "UnknownControl"}
WarnKinds6 == {"ChunkHeaderPadding", "ChunkHeaderSequence", "ChunksNoChunks", "ChunksNumChunks", "ChunksUnknownData",
               "ConnlessPadding", "ControlConnectMissingTokenMagic", "ControlExcessData", "ControlFlags",
               "ControlNulTermination", "ControlNumChunks", "PacketHeaderPadding"}
WarnKinds7 == {"ChunkHeaderPadding", "ChunksNoChunks", "ChunksNumChunks", "ChunksUnknownData", "ConnlessFlags",
               "ControlExcessData", "ControlFlags", "ControlNulTermination", "ControlNumChunks", "PacketHeaderPadding"}

\* the accepted values the writer is not specified for (observations, DESIGN section 6)
Inexpressible6(p) == p.t = "connless" /\ Len(p.data) > MAX_PAYLOAD
Inexpressible7(p) == \/ p.t = "connless" /\ Len(p.data) > MAX_PAYLOAD
                     \/ p.t = "ctrl" /\ p.c \in {"connect", "token"} /\ p.rt = TOKEN_NONE

\* accept -> write -> re-read under the *same* hint: a reader without hint ("none") must get the value
\* back as well (for "true"/"false" the same hint is the true token mode, covered by RoundTrip6)
SameHint6(p, hint) ==
  hint # "none" \/ W6!DocumentedAmbiguity(p)
  \/ LET w == W6!WriteWith(p, Z6(p), CAP)
         r == W6!ReadWith(w.bytes, "none", D6(w.bytes))
     IN r.r = "ok" /\ r.p = p

Total6c(b, hint, cp) ==
  LET r == W6!ReadWith(b, hint, D6c(b, cp)) IN
  /\ r.r \in {"ok", "err"}
  /\ r.r = "err" => r.e \in ErrKinds6
  /\ r.r = "ok" =>
       /\ r.w \subseteq WarnKinds6
       /\ IF W6!Expressible(r.p) THEN RoundTrip6(r.p) /\ SameHint6(r.p, hint) ELSE Inexpressible6(r.p)
       /\ r.p.t = "chunks" => LET it == W6!Chunks(r.p.data, r.p.nc) IN
                              it.done /\ it.w \subseteq WarnKinds6
                              /\ \A j \in 1..Len(it.chunks) : it.chunks[j].off + it.chunks[j].len <= Len(r.p.data)
Total7c(b, cp) ==
  LET r == W7!ReadWith(b, D7c(b, cp)) IN
  /\ r.r \in {"ok", "err"}
  /\ r.r = "err" => r.e \in ErrKinds7
  /\ r.r = "ok" =>
       /\ r.w \subseteq WarnKinds7
       /\ IF W7!Expressible(r.p) THEN RoundTrip7(r.p) ELSE Inexpressible7(r.p)
       /\ r.p.t = "chunks" => LET it == W7!Chunks(r.p.data, r.p.nc) IN
                              it.done /\ it.w \subseteq WarnKinds7
                              /\ \A j \in 1..Len(it.chunks) : it.chunks[j].off + it.chunks[j].len <= Len(r.p.data)

Total6(b, hint) == Total6c(b, hint, CAP)
Total7(b) == Total7c(b, CAP)
\* cases of the newer families carry the size of the reader's scratch buffer (cap); the others are read with CAP
LawRD(x) == LET cp == IF "cap" \in DOMAIN x THEN x.cap ELSE CAP IN
            IF x.v = 6 THEN Total6c(x.bytes, x.hint, cp) ELSE Total7c(x.bytes, cp)

\* reduced alphabets of structurally interesting bytes
A6first == {0, 16, 32, 64, 80, 128, 144, 20, 19, 255}      \* none, control, connless, resend, control+resend,
                                                           \* compression, control+compression, padding, ack bits, all
A7first == {0, 4, 32, 8, 12, 16, 20, 36, 64, 3, 255}       \* none, control, connless, resend, control+resend,
                                                           \* compression, control+compression, connless+control, padding, ack, all
ANc == T3({0, 1}, {0, 1, 255}, {0, 1, 255})
ABody == {0, 1, 2, 3, 4, 5, 6, 64, 65, 84, 75, 69, 78, 255}
ABodyQ == {0, 1, 2, 4, 5, 64, 84, 255}
Hints == {"none", "true", "false"}

BodyA == ABodyQ
BodyN == T3(2, 3, 4)
Pre6 == {<<>>, <<0>>, <<16, 0>>} \cup {<<a, 0, n>> : a \in A6first, n \in ANc}
Pre7 == {<<>>, <<0>>, <<4, 0, 0, 1, 2, 3>>, <<32, 0, 0, 0, 0, 0, 0, 0>>}
        \cup {<<a, 0, n>> \o t : a \in A7first, n \in ANc, t \in {<<1, 2, 3, 4>>, TOKEN_NONE}}
\* behind every prefix: every string over BodyA up to length BodyN, plus (beyond quick) every single
\* letter of the wider alphabet ABody followed by up to two letters of BodyA
Bodies == UNION {[1..m -> BodyA] : m \in 0..BodyN}
          \cup (IF Quick THEN {} ELSE {<<x>> \o t : x \in ABody \ BodyA, t \in UNION {[1..m -> BodyA] : m \in 0..2}})
InitShort6 == \E s \in Bodies, h \in Hints, pre \in Pre6 : Mk([k |-> "rd", v |-> 6, hint |-> h, bytes |-> pre \o s])
InitShort7 == \E s \in Bodies, pre \in Pre7 : Mk([k |-> "rd", v |-> 7, hint |-> "none", bytes |-> pre \o s])

\* corruptions of valid packets: one or two positions replaced, truncation, extension
\* (enumerated through quantifiers; Valid6(0) is evaluated once per run)
ValidSel(y) == /\ Len(y.cl) <= 1
               /\ (y.p.t = "ctrl" => y.p.ack = 0)
               /\ (y.p.t = "chunks" => y.p.ack \in {0, 256})
               /\ (Quick /\ y.p.t = "chunks" => y.p.ack = 0 /\ ~y.p.rr)
               /\ (Quick /\ y.hascl /\ y.cl # <<>> => y.cl[1].seq \in {0, 1023})
               /\ (Quick /\ "token" \in DOMAIN y.p => y.p.token \in {<<>>, <<1, 2, 3, 4>>, TKEN, TOKEN_NONE})
               /\ (Quick /\ y.p.t = "ctrl" /\ y.p.c = "close" => Len(y.p.reason) <= 4)
Valid6(u) == {W6!WriteWith(x.p, Z6(x.p), CAP).bytes : x \in {y \in Pkt6 : ValidSel(y)}}
Valid7(u) == {W7!WriteWith(x.p, Z7(x.p), CAP).bytes : x \in {y \in Pkt7 : ValidSel(y)}}
ACor == T3({0, 64, 255}, {0, 1, 4, 16, 64, 255}, {0, 1, 4, 16, 32, 64, 128, 255})
ACor2 == {0, 64, 255}
Upd1(b, i, x) == [b EXCEPT ![i] = x]
Min2(a, b) == IF a < b THEN a ELSE b
CorOf(b, lim, lim2) ==      \* the corrupted variants of one datagram
  {Upd1(b, i, x) : i \in 1..Min2(Len(b), lim), x \in ACor}
  \cup {Take(b, n) : n \in 0..Len(b)}
  \cup {b \o <<x>> : x \in ACor2} \cup {b \o <<x, y>> : x \in ACor2, y \in ACor2}
  \cup (IF Quick THEN {}
        ELSE UNION {{Upd1(Upd1(b, i, x), j, y) : j \in (i + 1)..Min2(Len(b), lim2), x \in ACor2, y \in ACor2} :
                    i \in 1..Min2(Len(b), lim2)})
InitCor6 == \E b \in Valid6(0) : \E b2 \in CorOf(b, T3(8, 12, 16), T3(0, 5, 10)), h \in Hints :
              Mk([k |-> "rd", v |-> 6, hint |-> h, bytes |-> b2])
InitCor7 == \E b \in Valid7(0) : \E b2 \in CorOf(b, T3(12, 16, 20), T3(0, 9, 14)) :
              Mk([k |-> "rd", v |-> 7, hint |-> "none", bytes |-> b2])

\* both sides of every branch of the 0.6 token heuristic (HasTokenHeur), under every hint:
\*   close:   every payload over letters that make NUL positions and valid / invalid UTF-8 triples
\*            (61 ASCII, c3 a9 two-byte sequence, e2 82 ac three-byte sequence, ff never valid), lengths
\*            0..5 (deep: 6) behind the control byte: empty / 3-byte / 4-byte reasons with and without NUL,
\*            tokens with 00 at each position, the ambiguous 4-byte payload;
\*   connect / connectaccept: every prefix and near miss of the TKEN magic, then 0..4 bytes;
\*   other control codes: 0..5 bytes;   chunks: nc 0..2, chunk areas that parse / do not parse, 0..5 bytes
HLetters == T3({0, 97, 195, 169}, {0, 97, 195, 169, 226, 130, 255}, {0, 97, 195, 169, 226, 130, 255})
HLen == T3(5, 5, 6)
StrUpTo(A, n) == UNION {[1..m -> A] : m \in 0..n}
Magics == {<<>>, <<84>>, <<84, 75>>, <<84, 75, 69>>, TKEN, <<84, 75, 69, 88>>, <<88, 75, 69, 78>>}
Areas == {<<>>, <<0>>, <<0, 0>>, <<0, 1, 7>>, <<0, 1>>, <<64, 1, 0, 7>>, <<64, 0>>, <<0, 0, 64, 0, 9>>}
HFirst == T3({16}, {16, 80}, {16, 80, 20})
InitHeur6 ==
  \E h \in Hints :
    \/ \E f \in HFirst, s \in StrUpTo(HLetters, HLen) :
         Mk([k |-> "rd", v |-> 6, hint |-> h, bytes |-> <<f, 0, 0, 4>> \o s])
    \/ \E c \in {1, 2}, m \in Magics, s \in StrUpTo({0, 97}, 4) :
         Mk([k |-> "rd", v |-> 6, hint |-> h, bytes |-> <<16, 0, 0, c>> \o m \o s])
    \/ \E c \in {0, 3, 5}, s \in StrUpTo({0, 97}, 5) :
         Mk([k |-> "rd", v |-> 6, hint |-> h, bytes |-> <<16, 0, 0, c>> \o s])
    \/ \E n \in 0..2, a \in Areas, s \in StrUpTo({0, 97}, T3(4, 5, 5)) :
         Mk([k |-> "rd", v |-> 6, hint |-> h, bytes |-> <<0, 0, n>> \o a \o s])

\* compressed packets of every kind (the writers only compress chunk packets; a reader must survive all):
\* compression flag set, body = codec stream of a short plain body, end marker, then filler up to each
\* raw-length boundary -- so that checks on the raw datagram (0.7 token request >= 519, <= 1400) and checks
\* on the decompressed body (control byte, 4-byte token / response token, close reason, chunk headers) are
\* exercised independently.  Plain bodies: every prefix of  c 1 2 3 4 5  and  c 0 0 0 0 0  for every control
\* code c in 0..6, close / connect specials, chunk areas with tails.
CtrlPlains == {<<>>} \cup {Take(<<c, 1, 2, 3, 4, 5>>, n) : c \in 0..6, n \in 1..6}
              \cup (IF Quick THEN {} ELSE {Take(<<c, 0, 0, 0, 0, 0>>, n) : c \in 0..6, n \in 2..6})
              \cup {Take(<<4, 97, 0, 1, 2, 3, 4>>, n) : n \in 3..7}
              \cup {Take(<<1, 84, 75, 69, 78, 1, 2, 3, 4>>, n) : n \in 5..9}
              \cup {<<5, 255, 255, 255, 255>>, <<1, 255, 255, 255, 255>>}
AreaPlains == {a \o Take(<<9, 8, 7, 6, 5>>, n) : a \in {<<>>, <<0, 1, 7>>, <<64, 1, 0, 7>>}, n \in 0..5}
Filler(n) == [j \in 1..n |-> (j * 37 + 11) % 256]
PadTo(b, L) == IF Len(b) >= L THEN b ELSE b \o Filler(L - Len(b))
RawLens6 == T3({0, 1400, 1401}, {0, 9, 1399, 1400, 1401}, {0, 9, 1399, 1400, 1401})
RawLens7 == T3({0, 518, 519, 1400, 1401}, {0, 518, 519, 520, 1399, 1400, 1401}, {0, 518, 519, 520, 1399, 1400, 1401})
Stream(plain) == ToyZ(plain).data \o ToyEOF
InitComp6 ==
  \E h \in Hints, L \in RawLens6 :
    \/ \E pl \in CtrlPlains, f \in T3({144}, {144, 208}, {144, 208}) :
         Mk([k |-> "rd", v |-> 6, hint |-> h, bytes |-> PadTo(<<f, 0, 0>> \o Stream(pl), L)])
    \/ \E pl \in AreaPlains, n \in {0, 1} :
         Mk([k |-> "rd", v |-> 6, hint |-> h, bytes |-> PadTo(<<128, 0, n>> \o Stream(pl), L)])
InitComp7 ==
  \E t \in {TOKEN_NONE, <<1, 2, 3, 4>>}, L \in RawLens7 :
    \/ \E pl \in CtrlPlains, f \in T3({20}, {20, 28}, {20, 28}) :
         Mk([k |-> "rd", v |-> 7, hint |-> "none", bytes |-> PadTo(<<f, 0, 0>> \o t \o Stream(pl), L)])
    \/ \E pl \in AreaPlains, n \in {0, 1} :
         Mk([k |-> "rd", v |-> 7, hint |-> "none", bytes |-> PadTo(<<16, 0, n>> \o t \o Stream(pl), L)])

\* datagrams of (near-)maximum length: uncompressed with compressible and codec-expanding filler (the
\* re-written form takes the other compression branch / does not fit the writer's compression buffer),
\* and the same body lengths behind the compression flag; every hint
MaxLens == T3(1394..1400, 1388..1400, 1380..1400)
InitMax6 ==
  \E h \in Hints, L \in MaxLens :
    \/ \E cls \in {0, 2} : Mk([k |-> "rd", v |-> 6, hint |-> h, bytes |-> <<0, 0, 1>> \o BigData(L - 3, cls)])
    \/ Mk([k |-> "rd", v |-> 6, hint |-> h, bytes |-> <<128, 0, 1>> \o Stream(BigData(L - 3, 0))])
InitMax7 ==
  \E L \in MaxLens :
    \/ \E cls \in {0, 2} : Mk([k |-> "rd", v |-> 7, hint |-> "none", bytes |-> <<0, 0, 1, 9, 8, 7, 6>> \o BigData(L - 7, cls)])
    \/ Mk([k |-> "rd", v |-> 7, hint |-> "none", bytes |-> <<16, 0, 1, 9, 8, 7, 6>> \o Stream(BigData(L - 7, 0))])

\* close reasons at every length around the limit of 127 bytes, NUL-terminated / unterminated / with
\* trailing data / with a token behind, in the accept -> write -> re-read path; both versions, every hint
ReasonLens == T3({0, 1, 126, 127, 128}, {0, 1, 2, 3, 4, 125, 126, 127, 128, 129, 200}, {0, 1, 2, 3, 4, 125, 126, 127, 128, 129, 200})
ReasonBytes(n) == [j \in 1..n |-> 97 + (j % 26)]
CloseTails == {<<0>>, <<>>, <<0, 120, 121>>, <<0, 1, 2, 3, 4>>}
InitClose ==
  \E n \in ReasonLens, tl \in CloseTails :
    \/ \E h \in Hints : Mk([k |-> "rd", v |-> 6, hint |-> h, bytes |-> <<16, 0, 0, 4>> \o ReasonBytes(n) \o tl])
    \/ Mk([k |-> "rd", v |-> 7, hint |-> "none", bytes |-> <<4, 0, 0, 9, 8, 7, 6, 4>> \o ReasonBytes(n) \o tl])


---------------------------------------------------------------------------
\* ---- every control message with every combination of optional parts; ack jointly with flags (C05, C06)

\* close reasons: printable / bytes that are not UTF-8 (NUL-free)
ReasonOf(n, cls) == IF cls = 0 THEN ReasonBytes(n)
                    ELSE [j \in 1..n |-> CASE j % 3 = 0 -> 255 [] j % 3 = 1 -> 254 [] OTHER -> 195]
AckAll == T3(AckB, 0..1023, 0..1023)
ReasonLensRT == T3({0, 1, 2, 3, 4, 5, 126, 127}, 0..127, 0..127)
CtrlRT ==
  {[k |-> "rt", v |-> 6, hascl |-> FALSE, cl |-> <<>>,
    p |-> [t |-> "ctrl", ack |-> a, token |-> t, c |-> cc, reason |-> <<>>]] :
      a \in AckAll, t \in {<<>>, <<1, 2, 3, 4>>}, cc \in {"keepalive", "connect", "connectaccept", "accept"}}
  \cup {[k |-> "rt", v |-> 6, hascl |-> FALSE, cl |-> <<>>,
         p |-> [t |-> "ctrl", ack |-> a, token |-> t, c |-> "close", reason |-> ReasonOf(n, cls)]] :
           a \in {0, 1023}, t \in {<<>>, <<1, 2, 3, 4>>, <<0, 0, 0, 0>>}, n \in ReasonLensRT, cls \in {0, 1}}
  \cup {[k |-> "rt", v |-> 7, hascl |-> FALSE, cl |-> <<>>,
         p |-> [t |-> "ctrl", ack |-> a, token |-> t, c |-> cc, reason |-> <<>>, rt |-> <<>>]] :
           a \in AckAll, t \in {<<1, 2, 3, 4>>, TOKEN_NONE}, cc \in {"keepalive", "accept"}}
  \cup {[k |-> "rt", v |-> 7, hascl |-> FALSE, cl |-> <<>>,
         p |-> [t |-> "ctrl", ack |-> a, token |-> t, c |-> cc, reason |-> <<>>, rt |-> <<9, 8, 7, 6>>]] :
           a \in AckAll, t \in {<<1, 2, 3, 4>>, TOKEN_NONE}, cc \in {"connect", "token"}}
  \cup {[k |-> "rt", v |-> 7, hascl |-> FALSE, cl |-> <<>>,
         p |-> [t |-> "ctrl", ack |-> a, token |-> t, c |-> "close", reason |-> ReasonOf(n, cls), rt |-> <<>>]] :
           a \in {0, 1023}, t \in {<<1, 2, 3, 4>>, TOKEN_NONE}, n \in ReasonLensRT, cls \in {0, 1}}

\* datagrams: first byte = flag nibble (every value) + high ack bits, second byte = low ack bits: the ack
\* jointly with the flags, in front of control bodies with / without their optional parts
AckX == T3({0, 256, 1023}, 0..1023, 0..1023)
CtrlBodies6 == {<<0>>, <<1>> \o TKEN \o <<1, 2, 3, 4>>, <<4, 97, 98, 0, 1, 2, 3, 4>>}
CtrlBodies7 == {<<0>>, <<4, 97, 98, 0>>, <<5, 9, 8, 7, 6>>}
\* every control code (also the unknown ones) x optional parts x extra payload behind the message
Extras == {<<>>, <<0>>, <<1, 2>>}
CtrlParts6 ==
  {<<c>> \o x : c \in {0, 3, 5, 6}, x \in Extras}
  \cup {<<c>> \o m \o x : c \in {1, 2}, m \in {<<>>, TKEN}, x \in Extras}
  \cup {<<4>> \o r \o z \o x : r \in {<<>>, <<97>>, <<255, 254, 253>>, <<97, 98, 99>>}, z \in {<<>>, <<0>>}, x \in Extras}
CtrlParts7 ==
  {<<c>> \o x : c \in {0, 2, 3, 6}, x \in Extras}
  \cup {<<c>> \o r \o x : c \in {1, 5}, r \in {<<>>, <<9, 8, 7>>, <<9, 8, 7, 6>>, TOKEN_NONE}, x \in Extras}
  \cup {<<4>> \o r \o z \o x : r \in {<<>>, <<97>>, <<255, 254, 253>>}, z \in {<<>>, <<0>>}, x \in Extras}
InitCtrlX6 ==
  \E h \in Hints :
    \/ \E f \in 0..15, a \in AckX, body \in (IF Quick THEN CtrlBodies6 ELSE {<<0>>, <<4, 97, 98, 0, 1, 2, 3, 4>>}) :
         Mk([k |-> "rd", v |-> 6, hint |-> h, bytes |-> <<f * 16 + a \div 256, a % 256, 0>> \o body])
    \/ \E a \in {0, 1023}, body \in CtrlParts6, tk \in {<<>>, <<1, 2, 3, 4>>} :
         Mk([k |-> "rd", v |-> 6, hint |-> h, bytes |-> <<16 + a \div 256, a % 256, 0>> \o body \o tk])
InitCtrlX7 ==
  \/ \E f \in 0..15, a \in AckX, body \in (IF Quick THEN CtrlBodies7 ELSE {<<0>>, <<5, 9, 8, 7, 6>>}), t \in {<<1, 2, 3, 4>>} :
       Mk([k |-> "rd", v |-> 7, hint |-> "none", bytes |-> <<f * 4 + a \div 256, a % 256, 0>> \o t \o body])
  \/ \E a \in {0, 1023}, body \in CtrlParts7, t \in {<<1, 2, 3, 4>>, TOKEN_NONE} :
       Mk([k |-> "rd", v |-> 7, hint |-> "none", bytes |-> <<4 + a \div 256, a % 256, 0>> \o t \o body])

\* 0.7 connless packets: their own nine-byte header (flags, two version bits, token, response token):
\* every first byte, datagram lengths on both sides of the 7-byte and the 9-byte header
InitConnless7 ==
  \E b1 \in T3((0..63) \cup {64, 128, 192, 255}, Byte, Byte), n \in T3({6, 7, 8, 9}, {6, 7, 8, 9, 10}, {6, 7, 8, 9, 10}), t \in T3({<<1, 2, 3, 4>>}, {<<1, 2, 3, 4>>, TOKEN_NONE}, {<<1, 2, 3, 4>>, TOKEN_NONE}) :
    Mk([k |-> "rd", v |-> 7, hint |-> "none", bytes |-> <<b1>> \o Take(t \o <<9, 8, 7, 6, 5, 4>>, n)])

\* 0.7 token requests: a Token message under the header token ffffffff must fill 519 bytes (the answer may
\* not be larger than the request); lengths around the response token and around 519; zero / non-zero padding
PadWith(b, L, x) == IF Len(b) >= L THEN Take(b, L) ELSE b \o Rep(L - Len(b), x)
InitTokReq7 ==
  \E ht \in {TOKEN_NONE, <<1, 2, 3, 4>>}, L \in {8, 11, 12, 13, 518, 519, 520, 1400, 1401},
     pad \in {0, 7}, rt \in {<<9, 8, 7, 6>>, TOKEN_NONE}, f \in T3({4}, {4, 12}, {4, 12}) :
    Mk([k |-> "rd", v |-> 7, hint |-> "none", bytes |-> PadWith(<<f, 0, 0>> \o ht \o <<5>> \o rt, L, pad)])

---------------------------------------------------------------------------
\* ---- Packet::write into buffers of every capacity (C05): Capacity below the datagram's length, the same
\*      datagram from there on
WcPkts ==
  {x \in Pkt6 \cup Pkt7 : /\ ~x.hascl
                           /\ (x.p.t = "ctrl" => x.p.ack = 0 /\ (x.p.c = "close" => Len(x.p.reason) \in {0, 3, 127}))
                           /\ (x.p.t = "chunks" => x.p.nc = 1 /\ ~x.p.rr)
                           /\ ("token" \in DOMAIN x.p => x.p.token \in {<<>>, <<1, 2, 3, 4>>, TOKEN_NONE, TKEN})
                           /\ (x.v = 7 /\ x.p.t = "connless" => x.p.rtoken = TOKEN_NONE /\ x.p.token = TOKEN_NONE)
                           /\ (x.v = 7 /\ x.p.t = "ctrl" /\ x.p.rt # <<>> => x.p.rt = <<1, 2, 3, 4>>)}
  \cup {x \in Big6 \cup Big7 : Len(x.p.data) + (IF x.v = 6 THEN Len(x.p.token) ELSE 0) = (IF x.v = 6 THEN 1397 ELSE 1393)}
ZOfX(x) == IF x.v = 6 THEN Z6(x.p) ELSE Z7(x.p)
WriteXZ(x, z, c) == IF x.v = 6 THEN W6!WriteWith(x.p, z, c) ELSE W7!WriteWith(x.p, z, c)
WriteX(x, c) == WriteXZ(x, ZOfX(x), c)
CapsFor(L) == IF L <= 150 \/ (L >= 1399 /\ ~Quick) THEN 0..(L + 1)
              ELSE {0, 1, 2, 3, 4, 6, 7, 8, 9, 10, L - 2, L - 1, L, L + 1, 1399, 1400, 1401, 2048}
InitWC == \E x \in WcPkts : LET L == Len(WriteX(x, CAP).bytes) IN
            \* quick: the whole capacity range for one maximum-size packet per version (incompressible content)
            LET caps == IF Quick /\ L = 1400 /\ x.p.data[2] = 2 /\ (x.v = 7 \/ x.p.token = <<>>) THEN 0..1401 ELSE CapsFor(L) IN
            Mk([k |-> "wc", v |-> x.v, p |-> x.p, caps |-> SetToSortSeq(caps, <)])
LawWC(x) ==
  LET z == ZOfX(x)
      full == WriteXZ(x, z, CAP)
      L == Len(full.bytes)
  IN /\ (IF x.v = 6 THEN W6!Expressible(x.p) ELSE W7!Expressible(x.p))
     /\ full.r = "ok" /\ L <= MAX_PACKETSIZE
     /\ \A j \in 1..Len(x.caps) : LET c == x.caps[j] IN
          IF c < L THEN WriteXZ(x, z, c) = [r |-> "err", e |-> "Capacity"] ELSE WriteXZ(x, z, c) = full

---------------------------------------------------------------------------
\* ---- the compression choice (C05): compress iff the codec's output fits the writer's 2048-byte buffer and
\*      is STRICTLY shorter than its input (0.6: chunk area + token, 0.7: chunk area); a tie is sent uncompressed.
\*      With the toy codec: n equal bytes give 2 bytes; tie = "lt" | "eq" | "gt" is Len(z) against Len(input).
TieData == {<<"gt", <<5>>>>, <<"eq", <<5, 5>>>>, <<"lt", <<5, 5, 5>>>>, <<"eq", <<5, 5, 6, 6>>>>, <<"lt", <<5, 5, 6, 6, 6>>>>,
            <<"gt", <<5, 5, 6, 7>>>>}
TieRT ==
  {[k |-> "rt", v |-> 6, hascl |-> FALSE, cl |-> <<>>, tie |-> d[1],
    p |-> [t |-> "chunks", ack |-> 7, token |-> <<>>, rr |-> FALSE, nc |-> 1, data |-> d[2]]] : d \in TieData}
  \cup {[k |-> "rt", v |-> 6, hascl |-> FALSE, cl |-> <<>>, tie |-> d[1],
         p |-> [t |-> "chunks", ack |-> 7, token |-> <<1, 2, 3, 4>>, rr |-> FALSE, nc |-> 1, data |-> d[2]]] :
           d \in {<<"gt", Rep(5, 0)>>, <<"eq", Rep(6, 0)>>, <<"lt", Rep(7, 0)>>}}
  \cup {[k |-> "rt", v |-> 7, hascl |-> FALSE, cl |-> <<>>, tie |-> d[1],
         p |-> [t |-> "chunks", ack |-> 7, token |-> <<1, 2, 3, 4>>, rr |-> FALSE, nc |-> 1, data |-> d[2]]] : d \in TieData}
LawTie(x) ==
  LET z == ZOfX(x)
      n == IF x.v = 6 THEN Len(W6!ZInput(x.p)) ELSE Len(W7!ZInput(x.p))
      w == WriteX(x, CAP)
      flagged == IF x.v = 6 THEN W6!NeedsDecompression(w.bytes) ELSE W7!NeedsDecompression(w.bytes)
  IN /\ z.ok
     /\ x.tie = (IF Len(z.data) < n THEN "lt" ELSE IF Len(z.data) = n THEN "eq" ELSE "gt")
     /\ flagged <=> x.tie = "lt"

\* compressed packets whose decompressed size is exactly at / one under / one over the body limit, for every
\* packet kind that can carry the compression flag, with the reader's scratch buffer at its documented
\* minimum, one more, and generous (the decoder then hits its capacity / the reader's own length check)
LimBody(v, kind, n) ==
  CASE kind = 1 -> LET PCH(h) == IF v = 6 THEN W6!PackCH(h) ELSE W7!PackCH(h) IN       \* two chunks filling n bytes
                   PCH([flags |-> 0, size |-> 1000]) \o Rep(1000, 0) \o PCH([flags |-> 0, size |-> n - 1004]) \o Rep(n - 1004, 0)
    [] kind = 2 -> <<4>> \o Rep(n - 2, 97) \o <<0>>                                   \* close, reason far too long
    [] kind = 3 -> <<0>> \o Rep(n - 1, 0)                                             \* keepalive + excess data
    [] kind = 4 -> <<1>> \o TKEN \o Rep(n - 5, 0)                                     \* connect / token magic + excess
LimCaps == {1400, 1401, 2048}
InitCompLim6 ==
  \E h \in Hints, cp \in LimCaps, d \in {-1, 0, 1}, kind \in 1..4 :
    Mk([k |-> "rd", v |-> 6, hint |-> h, cap |-> cp,
        bytes |-> <<(IF kind = 1 THEN 128 ELSE 144), 0, (IF kind = 1 THEN 2 ELSE 0)>> \o Stream(LimBody(6, kind, 1397 + d))])
InitCompLim7 ==
  \E cp \in LimCaps, d \in {-1, 0, 1}, kind \in 1..4 :
    Mk([k |-> "rd", v |-> 7, hint |-> "none", cap |-> cp,
        bytes |-> <<(IF kind = 1 THEN 16 ELSE 20), 0, (IF kind = 1 THEN 2 ELSE 0), 9, 8, 7, 6>> \o Stream(LimBody(7, kind, 1393 + d))])

---------------------------------------------------------------------------
\* ---- the chunk iterator call by call (C06): every prefix of a chunk area x every announced count;
\*      double-field corruptions (announced count x area length; size field x vital / resend flags)

ChunkLen(c) == (IF c.vital THEN 3 ELSE 2) + Len(c.data)
Ends(cl) == [j \in 1..Len(cl) |-> FoldLeft(LAMBDA acc, i : acc + ChunkLen(cl[i]), 0, Iota(j))]
AreaV(v, cl) == IF v = 6 THEN W6!Area(cl) ELSE W7!Area(cl)
ChunksV(v, data, nc) == IF v = 6 THEN W6!Chunks(data, nc) ELSE W7!Chunks(data, nc)
ItSizes(v) == T3({0, 1, 16, 63, 64}, {0, 1, 15, 16, 17, 63, 64, 65, 1023}, {0, 1, 15, 16, 17, 63, 64, 65, 255, 256, 1023})
              \cup (IF v = 7 /\ ~Quick THEN {1024, 4095} ELSE {})
ItSeqs == T3({0, 1023}, {0, 63, 64, 255, 256, 1023}, SeqB)
ItData(n) == [j \in 1..n |-> (j * 7) % 256]
ItLists(v) ==
  {<<>>}
  \cup {<<x, y>> : x \in ChunkSmall, y \in ChunkSmall}
  \cup {<<x, y, z>> : x \in ChunkSmall, y \in ChunkSmall, z \in (IF Quick THEN {ChunkSmall1} ELSE ChunkSmall)}
  \cup {<<[vital |-> FALSE, seq |-> 0, resend |-> FALSE, data |-> ItData(n)]>> : n \in ItSizes(v)}
  \cup {<<[vital |-> TRUE, seq |-> q, resend |-> rs, data |-> ItData(n)]>> : n \in ItSizes(v), q \in ItSeqs, rs \in BOOLEAN}
\* prefixes: every length for short areas; around every boundary for long ones
PrefixLens(cl, L) == IF L <= 80 THEN 0..L
                     ELSE {n \in 0..L : n <= 4 \/ n >= L - 4}
NcFor(cl) == IF Quick THEN {0, Len(cl), Len(cl) + 1} ELSE (0..(Len(cl) + 1)) \cup {255}
InitIter(v) ==
  \E cl \in ItLists(v) :
    LET area == AreaV(v, cl) IN
    \/ \E n \in PrefixLens(cl, Len(area)), nc \in NcFor(cl) :
         Mk([k |-> "it", v |-> v, nc |-> nc, data |-> Take(area, n), hascl |-> TRUE, cl |-> cl])
    \/ \E ex \in {<<0>>, <<64>>, <<255>>, <<0, 0>>, <<64, 0>>, <<255, 255, 255>>}, nc \in {Len(cl), Len(cl) + 1} :
         Len(area) <= 80 /\ Mk([k |-> "it", v |-> v, nc |-> nc, data |-> area \o ex, hascl |-> FALSE, cl |-> <<>>])

\* size field x vital / resend flags of one chunk header inside a valid area of two or three chunks
SizeAlpha(true, rem, v) == {0, 1, 2, true - 1, true, true + 1, rem - 1, rem, rem + 1, 63, 64, (IF v = 6 THEN 1023 ELSE 4095)} \cap Nat
Rehead(v, area, off, f, sz) ==
  IF v = 6 THEN [area EXCEPT ![off + 1] = f * 64 + sz \div 16, ![off + 2] = (area[off + 2] \div 16) * 16 + (sz % 16)]
  ELSE [area EXCEPT ![off + 1] = f * 64 + sz \div 64, ![off + 2] = (area[off + 2] \div 64) * 64 + (sz % 64)]
CorLists == IF Quick THEN {<<ChunkSmall1, ChunkSmall2>>, <<ChunkSmall2, ChunkSmall3, ChunkSmall1>>}
            ELSE {<<x, y>> : x \in ChunkSmall, y \in ChunkSmall} \cup {<<x, y, x>> : x \in ChunkSmall, y \in ChunkSmall}
CorOfChunk(v, cl, j) ==
  LET area == AreaV(v, cl)
      e == Ends(cl)
      off == IF j = 1 THEN 0 ELSE e[j - 1]
      hs == IF cl[j].vital THEN 3 ELSE 2
  IN {Rehead(v, area, off, f, sz) : f \in 0..3, sz \in SizeAlpha(Len(cl[j].data), Len(area) - off - hs, v)}
SizeFlagCor(v) == UNION {UNION {CorOfChunk(v, cl, j) : j \in 1..Len(cl)} : cl \in CorLists}
InitIterCor(v) == \E d \in SizeFlagCor(v), nc \in {2, 3} : Mk([k |-> "it", v |-> v, nc |-> nc, data |-> d, hascl |-> FALSE, cl |-> <<>>])

\* the same corruptions behind a packet header, through Packet::read (0.6: every hint -- the token heuristic
\* walks the chunks) and the accept -> write -> re-read path
InitNcLen(v) ==
  \E cl \in {<<ChunkSmall1, ChunkSmall2>>, <<ChunkSmall2, ChunkSmall3, ChunkSmall1>>} :
    LET area == AreaV(v, cl) \o <<1, 2, 3, 4>> IN
    \E n \in 0..Len(area), nc \in NcFor(cl), h \in (IF v = 6 THEN Hints ELSE {"none"}) :
      Mk([k |-> "rd", v |-> v, hint |-> h,
          bytes |-> (IF v = 6 THEN <<0, 0, nc>> ELSE <<0, 0, nc, 9, 8, 7, 6>>) \o Take(area, n)])
InitSizeFlag(v) ==
  \E d \in SizeFlagCor(v), nc \in T3({2}, {2, 3}, {2, 3}), tk \in {<<>>, <<1, 2, 3, 4>>}, h \in (IF v = 6 THEN Hints ELSE {"none"}) :
    (v = 7 => tk = <<>>)
    /\ Mk([k |-> "rd", v |-> v, hint |-> h, bytes |-> (IF v = 6 THEN <<0, 0, nc>> ELSE <<0, 0, nc, 9, 8, 7, 6>>) \o d \o tk])

PrefixLaw(x, it) ==
  LET n == Len(x.data)
      e == Ends(x.cl)
      kk == Cardinality({j \in 1..Len(x.cl) : e[j] <= n})
      boundary == n = 0 \/ \E j \in 1..Len(x.cl) : e[j] = n
  IN /\ Len(it.chunks) = kk
     /\ SameChunks([it EXCEPT !.w = {}], x.data, SubSeq(x.cl, 1, kk))    \* exactly the chunks that lie wholly inside
     /\ \A j \in 1..kk : it.cw[j] = {}                                    \* written headers are canonical
     /\ it.excess <=> ~boundary                                          \* ChunksUnknownData iff a chunk is cut
     /\ ("ChunksNumChunks" \in it.endw) <=> (boundary /\ kk # x.nc)
     /\ ("ChunksNumChunks" \in IterAfterW(it, x.nc, 1)) <=> (~boundary /\ kk # x.nc)
LawIT(x) ==
  LET it == ChunksV(x.v, x.data, x.nc)
      WK == IF x.v = 6 THEN WarnKinds6 ELSE WarnKinds7
  IN /\ it.done
     /\ Len(it.cw) = Len(it.chunks)
     /\ it.w \subseteq WK
     /\ ("ChunksUnknownData" \in it.w) <=> it.excess
     /\ \A j \in 1..Len(it.chunks) :
          /\ it.chunks[j].off + it.chunks[j].len <= Len(x.data)           \* inside the area
          /\ it.chunks[j].off >= IterPosBefore(it, j) + 2                \* every call consumes at least a header
          /\ IterLenBefore(it, j) = Len(it.chunks) - j + 1
     /\ x.hascl => PrefixLaw(x, it)

---------------------------------------------------------------------------
\* the UTF-8 predicate: the code's comment counts 2650112 valid three-byte strings
Utf8Count(u) ==
  FoldLeft(LAMBDA acc, a : acc + FoldLeft(LAMBDA acc2, b : acc2 + Cardinality({x \in Byte : Utf8Valid3(a - 1, b - 1, x)}),
                                          0, Iota(256)),
           0, Iota(256))

---------------------------------------------------------------------------
Init ==
  CASE Tier = "full6" -> InitFull6
    [] Tier = "full7" -> InitFull7
    [] Tier = "utf" -> Mk([k |-> "utf"])
    [] Tier = "bulk" -> InitBulk
    [] Tier = "tab" -> InitTabExp
    [] OTHER -> \/ "hf" \in Fams /\ InitHF
                \/ "hb" \in Fams /\ InitHB
                \/ "rt" \in Fams /\ \E x \in Pkt6 \cup Pkt7 \cup Big6 \cup Big7 : \E rc \in RCaps(x) :
                                        Mk(x @@ [rcap |-> rc])
                \/ "short6" \in Fams /\ InitShort6
                \/ "short7" \in Fams /\ InitShort7
                \/ "cor6" \in Fams /\ InitCor6
                \/ "cor7" \in Fams /\ InitCor7
                \/ "heur6" \in Fams /\ InitHeur6
                \/ "comp6" \in Fams /\ InitComp6
                \/ "comp7" \in Fams /\ InitComp7
                \/ "max6" \in Fams /\ InitMax6
                \/ "max7" \in Fams /\ InitMax7
                \/ "close" \in Fams /\ InitClose
                \/ "ctrl" \in Fams /\ \E x \in CtrlRT : Mk(x @@ [rcap |-> 1400])
                \/ "tie" \in Fams /\ \E x \in TieRT : \E rc \in {1400, 2048} : Mk(x @@ [rcap |-> rc])
                \/ "wc" \in Fams /\ InitWC
                \/ "ctrlx6" \in Fams /\ InitCtrlX6
                \/ "ctrlx7" \in Fams /\ InitCtrlX7
                \/ "connless7" \in Fams /\ InitConnless7
                \/ "tokreq7" \in Fams /\ InitTokReq7
                \/ "complim6" \in Fams /\ InitCompLim6
                \/ "complim7" \in Fams /\ InitCompLim7
                \/ "iter6" \in Fams /\ (InitIter(6) \/ InitIterCor(6))
                \/ "iter7" \in Fams /\ (InitIter(7) \/ InitIterCor(7))
                \/ "ncx6" \in Fams /\ (InitNcLen(6) \/ InitSizeFlag(6))
                \/ "ncx7" \in Fams /\ (InitNcLen(7) \/ InitSizeFlag(7))
                \/ "bulk" \in Fams /\ InitBulkSmall
                \/ "tab" \in Fams /\ InitTabExp
Next == UNCHANGED vars

\* exported subset: everything except the widest byte sweeps, which are thinned
Exported(x) ==
  CASE x.k = "hb" /\ x.hk = "chv" -> x.b[2] \in BB \/ ~Quick
    [] x.k = "hb" /\ x.hk = "ch" -> x.b[2] \in BB \/ ~Quick
    [] OTHER -> TRUE

Law ==
  /\ CASE fam = "hf" -> LawHF(cas)
       [] fam = "hb" -> LawHB(cas)
       [] fam = "rt" -> LawRT(cas) /\ ("tie" \in DOMAIN cas => LawTie(cas))
       [] fam = "wc" -> LawWC(cas)
       [] fam = "it" -> LawIT(cas)
       [] fam = "rd" -> LawRD(cas)
       [] fam = "utf" -> Utf8Count(0) = 2650112 /\ CompressedSome6 /\ CompressedSome7 /\ ExpandsSome
       [] fam = "bulk" -> /\ BulkLaw(AllTables[cas.ti], cas.a)
                          /\ PrintT(<<"BULK", AllTables[cas.ti].id, cas.a, BulkSize(AllTables[cas.ti])>>)
       [] fam = "tabexp" -> PrintT(<<"TAB", ToJson(AllTables[cas.ti])>>)
  /\ (Export /\ fam \notin {"utf", "bulk", "tabexp"} /\ Exported(cas)) => PrintT(<<"V", ToJson(cas)>>)


=============================================================================
