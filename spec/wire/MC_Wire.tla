------------------------------- MODULE MC_Wire ------------------------------
(***************************************************************************)
(* Model-checking harness for Wire.tla / Wire7.tla (C05, C06).             *)
(*                                                                         *)
(* Every enumerated case is one initial state <<fam, c>>; the invariant    *)
(* Law evaluates the law of the case's family.  When Export is TRUE the    *)
(* invariant also prints the case as a test vector                         *)
(*     <<"V", ToJson(case)>>                                               *)
(* which the harness (vh-wire exec) runs through the real code; what the   *)
(* real code did is judged by WireTrace.tla with the same operators.       *)
(*                                                                         *)
(* Families                                                                *)
(*   hf   header fields -> Pack -> Unpack = fields, no warning             *)
(*   hb   header bytes  -> Unpack -> Pack = bytes  <=> canonical,          *)
(*        no warning <=> canonical                                         *)
(*   rt   packet value -> Write -> Read(true hint) = value, no warning     *)
(*        (toy codec in place of Huffman, both compression branches)       *)
(*   rd   arbitrary datagram -> Read is a value or an error, and an        *)
(*        accepted expressible value survives Write -> Read                *)
(*   utf  the three-byte UTF-8 predicate of the token heuristic            *)
(***************************************************************************)
EXTENDS Integers, Sequences, FiniteSets, TLC, SequencesExt, Json, WireBase

CONSTANTS Tier,       \* "quick" | "thorough" (both exported) | "deep" | "full6" | "full7" | "utf" (model only)
          Export,     \* BOOLEAN: print the exported subset as vectors
          Fams        \* subset of {"hf", "hb", "rt", "short6", "short7", "cor6", "cor7", "heur6", "comp6", "comp7", "max6", "max7", "close"}: the families of this run

W6 == INSTANCE Wire
W7 == INSTANCE Wire7

VARIABLES fam, cas
vars == <<fam, cas>>

Quick == Tier = "quick"

---------------------------------------------------------------------------
\* value sets

BB == {0, 1, 2, 15, 16, 17, 63, 64, 127, 128, 191, 192, 254, 255}       \* byte boundaries
B4 == {0, 1, 64, 128, 255}
AckB == {0, 1, 2, 3, 255, 256, 257, 511, 512, 767, 768, 1022, 1023}
NcB == {0, 1, 2, 127, 128, 254, 255}
Size6B == {0, 1, 15, 16, 17, 31, 32, 63, 64, 255, 256, 1008, 1022, 1023}
Size7B == {0, 1, 15, 16, 17, 31, 32, 48, 63, 64, 65, 127, 128, 1023, 1024, 4032, 4094, 4095}
SeqB == {0, 1, 63, 64, 65, 127, 128, 191, 192, 255, 256, 511, 512, 767, 768, 1022, 1023}
Tok == {<<1, 2, 3, 4>>, TOKEN_NONE, <<0, 0, 0, 0>>, TKEN}
Tok6 == Tok \cup {<<>>}
AckS == {0, 1, 255, 256, 1023}

NoZ == [ok |-> FALSE, data |-> <<>>]
NoD == [k |-> "none", data |-> <<>>]
CAP == 2048

---------------------------------------------------------------------------
\* header families (as initial-state predicates: TLC enumerates them without building the sets)

Mk(x) == cas = x /\ fam = x.k
Deep == Tier = "deep"
\* T3(q, t, d): the value set of the quick / thorough (exported) / deep (model only) tier
T3(q, t, d) == IF Quick THEN q ELSE IF Deep THEN d ELSE t
CONSTANTS SliceLo, SliceHi          \* deep and full runs are sliced over a leading coordinate (parallel TLC processes)
Slice(S) == {x \in S : x >= SliceLo /\ x <= SliceHi}
Tok2 == {TKEN, TOKEN_NONE}

InitHF ==
  \/ \E f \in 0..15, a \in T3(AckB, 0..1023, Slice(0..1023)), n \in T3(NcB, {0, 255}, Byte) :
       Mk([k |-> "hf", v |-> 6, hk |-> "ph", h |-> [flags |-> f, ack |-> a, nc |-> n]])
  \/ \E f \in 0..3, s \in T3(Size6B \cup 0..70, 0..1023, Slice(0..1023)) :
       Mk([k |-> "hf", v |-> 6, hk |-> "ch", h |-> [flags |-> f, size |-> s]])
  \/ \E f \in T3({1, 3}, 0..3, 0..3), s \in T3(Size6B, Size6B, Slice(0..1023)), q \in T3(SeqB, 0..1023, 0..1023) :
       Mk([k |-> "hf", v |-> 6, hk |-> "chv", h |-> [flags |-> f, size |-> s, seq |-> q]])
  \/ \E f \in 0..15, a \in T3(AckB, AckB, Slice(0..1023)), n \in T3(NcB, NcB, Byte), t \in T3(Tok2, Tok, {TKEN}) :
       Mk([k |-> "hf", v |-> 7, hk |-> "ph", h |-> [flags |-> f, ack |-> a, nc |-> n, token |-> t]])
  \/ \E f \in 0..15, ver \in 0..3, t \in T3(Tok2, Tok, Tok), r \in T3(Tok2, Tok, Tok) :
       (Deep => SliceLo = 0)
       /\ Mk([k |-> "hf", v |-> 7, hk |-> "phc", h |-> [flags |-> f, version |-> ver, token |-> t, rtoken |-> r]])
  \/ \E f \in 0..3, s \in T3(Size7B \cup 0..130, 0..4095, {x \in 0..4095 : (x % 1024) >= SliceLo /\ (x % 1024) <= SliceHi}) :
       Mk([k |-> "hf", v |-> 7, hk |-> "ch", h |-> [flags |-> f, size |-> s]])
  \/ \E f \in T3({1, 3}, 0..3, 0..3), s \in T3(Size7B, Size7B, 0..4095), q \in T3(SeqB, SeqB \cup 0..300, Slice(0..1023)) :
       Mk([k |-> "hf", v |-> 7, hk |-> "chv", h |-> [flags |-> f, size |-> s, seq |-> q]])

InitHB ==
  \/ \E b1 \in Byte, b2 \in T3(B4, BB, BB), b3 \in T3({0, 1, 255}, BB, BB) :
       Mk([k |-> "hb", v |-> 6, hk |-> "ph", b |-> <<b1, b2, b3>>])
  \/ \E b1 \in Byte, b2 \in T3(BB, Byte, Byte) :
       Mk([k |-> "hb", v |-> 6, hk |-> "ch", b |-> <<b1, b2>>])
  \/ \E b1 \in T3({0, 64, 255}, BB, BB), b2 \in Byte, b3 \in T3(B4, BB, BB) :
       Mk([k |-> "hb", v |-> 6, hk |-> "chv", b |-> <<b1, b2, b3>>])
  \/ \E b1 \in Byte, b2 \in T3({0, 255}, B4, B4), b3 \in T3({0, 255}, B4, B4), t \in Tok2 :
       Mk([k |-> "hb", v |-> 7, hk |-> "ph", b |-> <<b1, b2, b3>> \o t])
  \/ \E b1 \in Byte, t \in Tok2, r \in T3({TKEN}, Tok, Tok) :
       Mk([k |-> "hb", v |-> 7, hk |-> "phc", b |-> <<b1>> \o t \o r])
  \/ \E b1 \in Byte, b2 \in T3(BB, Byte, Byte) :
       Mk([k |-> "hb", v |-> 7, hk |-> "ch", b |-> <<b1, b2>>])
  \/ \E b1 \in T3({0, 64, 255}, BB, BB), b2 \in Byte, b3 \in T3({0, 255}, B4, B4) :
       Mk([k |-> "hb", v |-> 7, hk |-> "chv", b |-> <<b1, b2, b3>>])

\* exhaustive byte spaces (separate runs, sliced over the first byte: no export)
InitFull6 ==
  \E b1 \in SliceLo..SliceHi, b2 \in Byte, b3 \in Byte :
    \/ Mk([k |-> "hb", v |-> 6, hk |-> "ph", b |-> <<b1, b2, b3>>])
    \/ Mk([k |-> "hb", v |-> 6, hk |-> "chv", b |-> <<b1, b2, b3>>])
InitFull7 ==
  \E b1 \in SliceLo..SliceHi, b2 \in Byte, b3 \in Byte :
    \/ Mk([k |-> "hb", v |-> 7, hk |-> "ph", b |-> <<b1, b2, b3>> \o TKEN])
    \/ Mk([k |-> "hb", v |-> 7, hk |-> "chv", b |-> <<b1, b2, b3>>])

Ops(v, hk) ==   \* the header operators of a version / header kind
  CASE v = 6 /\ hk = "ph" -> [n |-> 3]
    [] v = 6 /\ hk = "ch" -> [n |-> 2]
    [] v = 6 /\ hk = "chv" -> [n |-> 3]
    [] v = 7 /\ hk = "ph" -> [n |-> 7]
    [] v = 7 /\ hk = "phc" -> [n |-> 9]
    [] v = 7 /\ hk = "ch" -> [n |-> 2]
    [] v = 7 /\ hk = "chv" -> [n |-> 3]

Pack(v, hk, h) ==
  CASE v = 6 /\ hk = "ph" -> W6!PackPH(h) [] v = 6 /\ hk = "ch" -> W6!PackCH(h) [] v = 6 /\ hk = "chv" -> W6!PackCHV(h)
    [] v = 7 /\ hk = "ph" -> W7!PackPH(h) [] v = 7 /\ hk = "phc" -> W7!PackPHC(h)
    [] v = 7 /\ hk = "ch" -> W7!PackCH(h) [] v = 7 /\ hk = "chv" -> W7!PackCHV(h)
Unpack(v, hk, b) ==
  CASE v = 6 /\ hk = "ph" -> W6!UnpackPH(b) [] v = 6 /\ hk = "ch" -> W6!UnpackCH(b) [] v = 6 /\ hk = "chv" -> W6!UnpackCHV(b)
    [] v = 7 /\ hk = "ph" -> W7!UnpackPH(b) [] v = 7 /\ hk = "phc" -> W7!UnpackPHC(b)
    [] v = 7 /\ hk = "ch" -> W7!UnpackCH(b) [] v = 7 /\ hk = "chv" -> W7!UnpackCHV(b)
InRange(v, hk, h) ==
  CASE v = 6 /\ hk = "ph" -> W6!PHInRange(h) [] v = 6 /\ hk = "ch" -> W6!CHInRange(h) [] v = 6 /\ hk = "chv" -> W6!CHVInRange(h)
    [] v = 7 /\ hk = "ph" -> W7!PHInRange(h) [] v = 7 /\ hk = "phc" -> W7!PHCInRange(h)
    [] v = 7 /\ hk = "ch" -> W7!CHInRange(h) [] v = 7 /\ hk = "chv" -> W7!CHVInRange(h)
Canon(v, hk, b) ==
  CASE v = 6 /\ hk = "ph" -> W6!CanonPH(b) [] v = 6 /\ hk = "ch" -> W6!CanonCH(b) [] v = 6 /\ hk = "chv" -> W6!CanonCHV(b)
    [] v = 7 /\ hk = "ph" -> W7!CanonPH(b) [] v = 7 /\ hk = "phc" -> W7!CanonPHC(b)
    [] v = 7 /\ hk = "ch" -> W7!CanonCH(b) [] v = 7 /\ hk = "chv" -> W7!CanonCHV(b)
\* the one documented exception to "no warning <=> canonical": the 0.6 packet header of a
\* connless packet is not judged by itself (it is all ones by convention: ConnlessPadding)
Silent(v, hk, b) == v = 6 /\ hk = "ph" /\ W6!Has(b[1] \div 16, W6!F_CONNLESS)

LawHF(x) ==
  LET b == Pack(x.v, x.hk, x.h)
      u == Unpack(x.v, x.hk, b)
  IN /\ InRange(x.v, x.hk, x.h)
     /\ Len(b) = Ops(x.v, x.hk).n /\ IsBytes(b)
     /\ Canon(x.v, x.hk, b)
     /\ u.h = x.h /\ u.w = {}

LawHB(x) ==
  LET u == Unpack(x.v, x.hk, x.b)
      b2 == Pack(x.v, x.hk, u.h)
  IN /\ InRange(x.v, x.hk, u.h)                                 \* unpacking never leaves the field ranges
     /\ (b2 = x.b) <=> Canon(x.v, x.hk, x.b)                    \* re-pack is the identity exactly on canonical patterns
     /\ (u.w = {}) <=> (Canon(x.v, x.hk, x.b) \/ Silent(x.v, x.hk, x.b))
     /\ Unpack(x.v, x.hk, b2).h = u.h /\ Canon(x.v, x.hk, b2)    \* Pack normalises

---------------------------------------------------------------------------
\* packet families

RawS == {<<>>, <<0>>, <<255>>, <<0, 0>>, <<64, 0, 0>>, <<0, 1, 7>>, TKEN, <<255, 255, 255, 255>>,
         <<1, 2, 3, 4, 5, 6, 7>>, Rep(24, 0), Rep(40, 65)}
Reasons == {<<>>, <<65>>, <<65, 66, 67>>, <<255, 254, 253>>, <<226, 130, 172>>, <<65, 66, 67, 68>>,
            <<84, 75, 69, 78>>, Rep(127, 120)}
CData6 == {<<>>, <<7>>, <<1, 2, 3, 4, 5>>, Rep(16, 0), Rep(20, 9)}
CData7 == CData6 \cup {Rep(48, 0), Rep(64, 3)}
ChunkS(CD) == {[vital |-> FALSE, seq |-> 0, resend |-> FALSE, data |-> dd] : dd \in CD}
              \cup {[vital |-> TRUE, seq |-> q, resend |-> rs, data |-> dd] :
                      q \in {0, 64, 255, 256, 1023}, rs \in BOOLEAN, dd \in CD}
ChunkSmall == {[vital |-> FALSE, seq |-> 0, resend |-> FALSE, data |-> <<7>>],
               [vital |-> TRUE, seq |-> 1023, resend |-> TRUE, data |-> Rep(20, 9)],
               [vital |-> TRUE, seq |-> 5, resend |-> FALSE, data |-> <<>>]}
Lists(CD) == {<<>>} \cup {<<x>> : x \in ChunkS(CD)} \cup {<<x, y>> : x \in ChunkSmall, y \in ChunkSmall}
             \cup {<<x, y, y>> : x \in ChunkSmall, y \in ChunkSmall}

Pkt6 ==
  {[k |-> "rt", v |-> 6, hascl |-> FALSE, cl |-> <<>>, p |-> [t |-> "connless", data |-> dd]] : dd \in RawS}
  \cup {[k |-> "rt", v |-> 6, hascl |-> FALSE, cl |-> <<>>,
         p |-> [t |-> "ctrl", ack |-> a, token |-> t, c |-> cc, reason |-> <<>>]] :
           a \in AckS, t \in Tok6, cc \in {"keepalive", "connect", "connectaccept", "accept"}}
  \cup {[k |-> "rt", v |-> 6, hascl |-> FALSE, cl |-> <<>>,
         p |-> [t |-> "ctrl", ack |-> a, token |-> t, c |-> "close", reason |-> rs]] :
           a \in {0, 1023}, t \in Tok6, rs \in Reasons}
  \cup {[k |-> "rt", v |-> 6, hascl |-> TRUE, cl |-> l,
         p |-> [t |-> "chunks", ack |-> a, token |-> t, rr |-> rr, nc |-> Len(l), data |-> W6!Area(l)]] :
           a \in {0, 1023}, t \in {<<>>, <<1, 2, 3, 4>>}, rr \in BOOLEAN, l \in Lists(CData6)}
  \cup {[k |-> "rt", v |-> 6, hascl |-> FALSE, cl |-> <<>>,
         p |-> [t |-> "chunks", ack |-> a, token |-> t, rr |-> rr, nc |-> n, data |-> dd]] :
           a \in {256}, t \in {<<>>, TKEN}, rr \in BOOLEAN, n \in {0, 1, 255}, dd \in RawS}

Pkt7 ==
  {[k |-> "rt", v |-> 7, hascl |-> FALSE, cl |-> <<>>,
    p |-> [t |-> "connless", token |-> t, rtoken |-> r, data |-> dd]] : t \in Tok, r \in {<<9, 8, 7, 6>>, TOKEN_NONE}, dd \in RawS}
  \cup {[k |-> "rt", v |-> 7, hascl |-> FALSE, cl |-> <<>>,
         p |-> [t |-> "ctrl", ack |-> a, token |-> t, c |-> cc, reason |-> <<>>, rt |-> <<>>]] :
           a \in AckS, t \in Tok, cc \in {"keepalive", "accept"}}
  \cup {[k |-> "rt", v |-> 7, hascl |-> FALSE, cl |-> <<>>,
         p |-> [t |-> "ctrl", ack |-> a, token |-> t, c |-> cc, reason |-> <<>>, rt |-> r]] :
           a \in {0, 1023}, t \in Tok, cc \in {"connect", "token"}, r \in Tok \ {TOKEN_NONE}}
  \cup {[k |-> "rt", v |-> 7, hascl |-> FALSE, cl |-> <<>>,
         p |-> [t |-> "ctrl", ack |-> a, token |-> t, c |-> "close", reason |-> rs, rt |-> <<>>]] :
           a \in {0, 1023}, t \in {TKEN, TOKEN_NONE}, rs \in Reasons}
  \cup {[k |-> "rt", v |-> 7, hascl |-> TRUE, cl |-> l,
         p |-> [t |-> "chunks", ack |-> a, token |-> t, rr |-> rr, nc |-> Len(l), data |-> W7!Area(l)]] :
           a \in {0, 1023}, t \in {<<1, 2, 3, 4>>, TOKEN_NONE}, rr \in BOOLEAN, l \in Lists(CData7)}
  \cup {[k |-> "rt", v |-> 7, hascl |-> FALSE, cl |-> <<>>,
         p |-> [t |-> "chunks", ack |-> a, token |-> t, rr |-> rr, nc |-> n, data |-> dd]] :
           a \in {256}, t \in {TKEN}, rr \in BOOLEAN, n \in {0, 1, 255}, dd \in RawS}

\* payload lengths max-3 .. max for each content class (all-zero, two-symbol, incompressible for the
\* codec), token present / absent: the body fills a packet (and the minimum scratch buffer) exactly
BigData(n, cls) == CASE cls = 0 -> Rep(n, 0)
                     [] cls = 1 -> [j \in 1..n |-> IF j % 3 = 0 THEN 1 ELSE 0]
                     [] cls = 2 -> [j \in 1..n |-> j % 251]
Big6 == {[k |-> "rt", v |-> 6, hascl |-> FALSE, cl |-> <<>>,
          p |-> [t |-> "chunks", ack |-> 1023, token |-> t, rr |-> TRUE, nc |-> 255, data |-> BigData(1397 - Len(t) - dlt, cls)]] :
            t \in {<<>>, <<9, 8, 7, 6>>}, dlt \in 0..3, cls \in 0..2}
Big7 == {[k |-> "rt", v |-> 7, hascl |-> FALSE, cl |-> <<>>,
          p |-> [t |-> "chunks", ack |-> 1023, token |-> <<9, 8, 7, 6>>, rr |-> TRUE, nc |-> 255, data |-> BigData(1393 - dlt, cls)]] :
            dlt \in 0..3, cls \in 0..2}
\* scratch sizes every exported packet is read with by the real reader
RCaps(x) == IF x.p.t = "chunks" /\ Len(x.p.data) > 1000 THEN {1400, 1401, 2048} ELSE {1400, 2048}

\* the writers compress into an internal buffer of 2048 bytes; a stream that does not fit is a codec
\* error, which the writer treats as "do not compress" (content that expands under the codec)
ZBUF == 2048
ZCap(z) == IF Len(z.data) > ZBUF THEN NoZ ELSE z
Z6(p) == IF p.t = "chunks" THEN ZCap(ToyZ(W6!ZInput(p))) ELSE NoZ
Z7(p) == IF p.t = "chunks" THEN ZCap(ToyZ(W7!ZInput(p))) ELSE NoZ
ExpandsSome == \E x \in Big6 \cup Big7 : ~Z6(x.p).ok
D6(b) == IF W6!NeedsDecompression(b) THEN ToyD(Drop(b, 3), CAP - 3) ELSE NoD
D7(b) == IF W7!NeedsDecompression(b) THEN ToyD(Drop(b, 7), CAP - 7) ELSE NoD

\* chunks read back = the list the area was built from
SameChunks(it, data, cl) ==
  /\ it.w = {}
  /\ Len(it.chunks) = Len(cl)
  /\ \A j \in 1..Len(cl) :
       LET x == it.chunks[j] IN
       /\ x.vital = cl[j].vital /\ x.seq = cl[j].seq /\ x.resend = cl[j].resend
       /\ SubSeq(data, x.off + 1, x.off + x.len) = cl[j].data

\* write -> read of an expressible value (C05); strict = also demand the absence of warnings
\* The reader's result must not depend on the size of the scratch buffer as long as it has the
\* documented minimum (MAX_PACKETSIZE): the round trip is demanded for the minimum and a generous one
\* (a body of exactly the maximum length then fills the minimum buffer exactly).
Caps == {MAX_PACKETSIZE, CAP}
D6c(b, cp) == IF W6!NeedsDecompression(b) THEN ToyD(Drop(b, 3), cp - 3) ELSE NoD
D7c(b, cp) == IF W7!NeedsDecompression(b) THEN ToyD(Drop(b, 7), cp - 7) ELSE NoD
RoundTrip6(p) ==
  LET w == W6!WriteWith(p, Z6(p), CAP) IN
  /\ w.r = "ok" /\ Len(w.bytes) <= MAX_PACKETSIZE /\ IsBytes(w.bytes)
  /\ \A cp \in Caps :
       LET r == W6!ReadWith(w.bytes, W6!TrueHint(p), D6c(w.bytes, cp)) IN
       r.r = "ok" /\ r.p = p /\ r.w = W6!AllowedW(p)
RoundTrip7(p) ==
  LET w == W7!WriteWith(p, Z7(p), CAP) IN
  /\ w.r = "ok" /\ Len(w.bytes) <= MAX_PACKETSIZE /\ IsBytes(w.bytes)
  /\ \A cp \in Caps :
       LET r == W7!ReadWith(w.bytes, D7c(w.bytes, cp)) IN
       r.r = "ok" /\ r.p = p /\ r.w = W7!AllowedW(p)

LawRT(x) ==
  IF x.v = 6
  THEN /\ W6!Expressible(x.p) /\ RoundTrip6(x.p)
       /\ x.hascl => SameChunks(W6!Chunks(x.p.data, x.p.nc), x.p.data, x.cl)
  ELSE /\ W7!Expressible(x.p) /\ RoundTrip7(x.p)
       /\ x.hascl => SameChunks(W7!Chunks(x.p.data, x.p.nc), x.p.data, x.cl)

\* both compression branches are taken by the packet sets (checked as a constant-level fact)
CompressedSome6 == \E x \in Pkt6 : x.p.t = "chunks" /\ W6!NeedsDecompression(W6!WriteWith(x.p, Z6(x.p), CAP).bytes)
CompressedSome7 == \E x \in Pkt7 : x.p.t = "chunks" /\ W7!NeedsDecompression(W7!WriteWith(x.p, Z7(x.p), CAP).bytes)

---------------------------------------------------------------------------
\* arbitrary datagrams (C06)

ErrKinds6 == {"Compression", "ControlMissing", "ShortConnless", "TokenMissing", "TooLong", "TooShort", "UnknownControl"}
ErrKinds7 == {"Compression", "ControlMissing", "ControlResponseTokenMissing", "ControlTokenRequestTooShort",
              "TooLong", "TooShort", "UnknownConnlessVersion", "UnknownControl"}
WarnKinds6 == {"ChunkHeaderPadding", "ChunkHeaderSequence", "ChunksNoChunks", "ChunksNumChunks", "ChunksUnknownData",
               "ConnlessPadding", "ControlConnectMissingTokenMagic", "ControlExcessData", "ControlFlags",
               "ControlNulTermination", "ControlNumChunks", "PacketHeaderPadding"}
WarnKinds7 == {"ChunkHeaderPadding", "ChunksNoChunks", "ChunksNumChunks", "ChunksUnknownData", "ConnlessFlags",
               "ControlExcessData", "ControlFlags", "ControlNulTermination", "ControlNumChunks", "PacketHeaderPadding"}

\* the accepted values the writer is not specified for (observations, DESIGN section 6)
Inexpressible6(p) == p.t = "connless" /\ Len(p.data) > MAX_PAYLOAD
Inexpressible7(p) == \/ p.t = "connless" /\ Len(p.data) > MAX_PAYLOAD
                     \/ p.t = "ctrl" /\ p.c \in {"connect", "token"} /\ p.rt = TOKEN_NONE

\* accept -> write -> re-read under the *same* hint: a reader without hint ("none") must get the value
\* back as well (for "true"/"false" the same hint is the true token mode, covered by RoundTrip6)
SameHint6(p, hint) ==
  hint # "none" \/ W6!DocumentedAmbiguity(p)
  \/ LET w == W6!WriteWith(p, Z6(p), CAP)
         r == W6!ReadWith(w.bytes, "none", D6(w.bytes))
     IN r.r = "ok" /\ r.p = p

Total6(b, hint) ==
  LET r == W6!ReadWith(b, hint, D6(b)) IN
  /\ r.r \in {"ok", "err"}
  /\ r.r = "err" => r.e \in ErrKinds6
  /\ r.r = "ok" =>
       /\ r.w \subseteq WarnKinds6
       /\ IF W6!Expressible(r.p) THEN RoundTrip6(r.p) /\ SameHint6(r.p, hint) ELSE Inexpressible6(r.p)
       /\ r.p.t = "chunks" => LET it == W6!Chunks(r.p.data, r.p.nc) IN
                              it.done /\ it.w \subseteq WarnKinds6
                              /\ \A j \in 1..Len(it.chunks) : it.chunks[j].off + it.chunks[j].len <= Len(r.p.data)
Total7(b) ==
  LET r == W7!ReadWith(b, D7(b)) IN
  /\ r.r \in {"ok", "err"}
  /\ r.r = "err" => r.e \in ErrKinds7
  /\ r.r = "ok" =>
       /\ r.w \subseteq WarnKinds7
       /\ IF W7!Expressible(r.p) THEN RoundTrip7(r.p) ELSE Inexpressible7(r.p)
       /\ r.p.t = "chunks" => LET it == W7!Chunks(r.p.data, r.p.nc) IN
                              it.done /\ it.w \subseteq WarnKinds7
                              /\ \A j \in 1..Len(it.chunks) : it.chunks[j].off + it.chunks[j].len <= Len(r.p.data)

LawRD(x) == IF x.v = 6 THEN Total6(x.bytes, x.hint) ELSE Total7(x.bytes)

\* reduced alphabets of structurally interesting bytes
A6first == {0, 16, 32, 64, 80, 128, 144, 20, 19, 255}      \* none, control, connless, resend, control+resend,
                                                           \* compression, control+compression, padding, ack bits, all
A7first == {0, 4, 32, 8, 12, 16, 20, 36, 64, 3, 255}       \* none, control, connless, resend, control+resend,
                                                           \* compression, control+compression, connless+control, padding, ack, all
ANc == T3({0, 1}, {0, 1, 255}, {0, 1, 255})
ABody == {0, 1, 2, 3, 4, 5, 6, 64, 65, 84, 75, 69, 78, 255}
ABodyQ == {0, 1, 2, 4, 5, 64, 84, 255}
Hints == {"none", "true", "false"}

BodyA == ABodyQ
BodyN == T3(2, 3, 4)
Pre6 == {<<>>, <<0>>, <<16, 0>>} \cup {<<a, 0, n>> : a \in A6first, n \in ANc}
Pre7 == {<<>>, <<0>>, <<4, 0, 0, 1, 2, 3>>, <<32, 0, 0, 0, 0, 0, 0, 0>>}
        \cup {<<a, 0, n>> \o t : a \in A7first, n \in ANc, t \in {<<1, 2, 3, 4>>, TOKEN_NONE}}
\* behind every prefix: every string over BodyA up to length BodyN, plus (beyond quick) every single
\* letter of the wider alphabet ABody followed by up to two letters of BodyA
Bodies == UNION {[1..m -> BodyA] : m \in 0..BodyN}
          \cup (IF Quick THEN {} ELSE {<<x>> \o t : x \in ABody \ BodyA, t \in UNION {[1..m -> BodyA] : m \in 0..2}})
InitShort6 == \E s \in Bodies, h \in Hints, pre \in Pre6 : Mk([k |-> "rd", v |-> 6, hint |-> h, bytes |-> pre \o s])
InitShort7 == \E s \in Bodies, pre \in Pre7 : Mk([k |-> "rd", v |-> 7, hint |-> "none", bytes |-> pre \o s])

\* corruptions of valid packets: one or two positions replaced, truncation, extension
\* (enumerated through quantifiers; Valid6(0) is evaluated once per run)
ValidSel(y) == /\ Len(y.cl) <= 1
               /\ (y.p.t = "ctrl" => y.p.ack = 0)
               /\ (y.p.t = "chunks" => y.p.ack \in {0, 256})
               /\ (Quick /\ y.p.t = "chunks" => y.p.ack = 0 /\ ~y.p.rr)
               /\ (Quick /\ y.hascl /\ y.cl # <<>> => y.cl[1].seq \in {0, 1023})
               /\ (Quick /\ "token" \in DOMAIN y.p => y.p.token \in {<<>>, <<1, 2, 3, 4>>, TKEN, TOKEN_NONE})
               /\ (Quick /\ y.p.t = "ctrl" /\ y.p.c = "close" => Len(y.p.reason) <= 4)
Valid6(u) == {W6!WriteWith(x.p, Z6(x.p), CAP).bytes : x \in {y \in Pkt6 : ValidSel(y)}}
Valid7(u) == {W7!WriteWith(x.p, Z7(x.p), CAP).bytes : x \in {y \in Pkt7 : ValidSel(y)}}
ACor == T3({0, 64, 255}, {0, 1, 4, 16, 64, 255}, {0, 1, 4, 16, 32, 64, 128, 255})
ACor2 == {0, 64, 255}
Upd1(b, i, x) == [b EXCEPT ![i] = x]
Min2(a, b) == IF a < b THEN a ELSE b
CorOf(b, lim, lim2) ==      \* the corrupted variants of one datagram
  {Upd1(b, i, x) : i \in 1..Min2(Len(b), lim), x \in ACor}
  \cup {Take(b, n) : n \in 0..Len(b)}
  \cup {b \o <<x>> : x \in ACor2} \cup {b \o <<x, y>> : x \in ACor2, y \in ACor2}
  \cup (IF Quick THEN {}
        ELSE UNION {{Upd1(Upd1(b, i, x), j, y) : j \in (i + 1)..Min2(Len(b), lim2), x \in ACor2, y \in ACor2} :
                    i \in 1..Min2(Len(b), lim2)})
InitCor6 == \E b \in Valid6(0) : \E b2 \in CorOf(b, T3(8, 12, 16), T3(0, 5, 10)), h \in Hints :
              Mk([k |-> "rd", v |-> 6, hint |-> h, bytes |-> b2])
InitCor7 == \E b \in Valid7(0) : \E b2 \in CorOf(b, T3(12, 16, 20), T3(0, 9, 14)) :
              Mk([k |-> "rd", v |-> 7, hint |-> "none", bytes |-> b2])

\* both sides of every branch of the 0.6 token heuristic (HasTokenHeur), under every hint:
\*   close:   every payload over letters that make NUL positions and valid / invalid UTF-8 triples
\*            (61 ASCII, c3 a9 two-byte sequence, e2 82 ac three-byte sequence, ff never valid), lengths
\*            0..5 (deep: 6) behind the control byte: empty / 3-byte / 4-byte reasons with and without NUL,
\*            tokens with 00 at each position, the ambiguous 4-byte payload;
\*   connect / connectaccept: every prefix and near miss of the TKEN magic, then 0..4 bytes;
\*   other control codes: 0..5 bytes;   chunks: nc 0..2, chunk areas that parse / do not parse, 0..5 bytes
HLetters == T3({0, 97, 195, 169}, {0, 97, 195, 169, 226, 130, 255}, {0, 97, 195, 169, 226, 130, 255})
HLen == T3(5, 5, 6)
StrUpTo(A, n) == UNION {[1..m -> A] : m \in 0..n}
Magics == {<<>>, <<84>>, <<84, 75>>, <<84, 75, 69>>, TKEN, <<84, 75, 69, 88>>, <<88, 75, 69, 78>>}
Areas == {<<>>, <<0>>, <<0, 0>>, <<0, 1, 7>>, <<0, 1>>, <<64, 1, 0, 7>>, <<64, 0>>, <<0, 0, 64, 0, 9>>}
HFirst == T3({16}, {16, 80}, {16, 80, 20})
InitHeur6 ==
  \E h \in Hints :
    \/ \E f \in HFirst, s \in StrUpTo(HLetters, HLen) :
         Mk([k |-> "rd", v |-> 6, hint |-> h, bytes |-> <<f, 0, 0, 4>> \o s])
    \/ \E c \in {1, 2}, m \in Magics, s \in StrUpTo({0, 97}, 4) :
         Mk([k |-> "rd", v |-> 6, hint |-> h, bytes |-> <<16, 0, 0, c>> \o m \o s])
    \/ \E c \in {0, 3, 5}, s \in StrUpTo({0, 97}, 5) :
         Mk([k |-> "rd", v |-> 6, hint |-> h, bytes |-> <<16, 0, 0, c>> \o s])
    \/ \E n \in 0..2, a \in Areas, s \in StrUpTo({0, 97}, T3(4, 5, 5)) :
         Mk([k |-> "rd", v |-> 6, hint |-> h, bytes |-> <<0, 0, n>> \o a \o s])

\* compressed packets of every kind (the writers only compress chunk packets; a reader must survive all):
\* compression flag set, body = codec stream of a short plain body, end marker, then filler up to each
\* raw-length boundary -- so that checks on the raw datagram (0.7 token request >= 519, <= 1400) and checks
\* on the decompressed body (control byte, 4-byte token / response token, close reason, chunk headers) are
\* exercised independently.  Plain bodies: every prefix of  c 1 2 3 4 5  and  c 0 0 0 0 0  for every control
\* code c in 0..6, close / connect specials, chunk areas with tails.
CtrlPlains == {<<>>} \cup {Take(<<c, 1, 2, 3, 4, 5>>, n) : c \in 0..6, n \in 1..6}
              \cup (IF Quick THEN {} ELSE {Take(<<c, 0, 0, 0, 0, 0>>, n) : c \in 0..6, n \in 2..6})
              \cup {Take(<<4, 97, 0, 1, 2, 3, 4>>, n) : n \in 3..7}
              \cup {Take(<<1, 84, 75, 69, 78, 1, 2, 3, 4>>, n) : n \in 5..9}
              \cup {<<5, 255, 255, 255, 255>>, <<1, 255, 255, 255, 255>>}
AreaPlains == {a \o Take(<<9, 8, 7, 6, 5>>, n) : a \in {<<>>, <<0, 1, 7>>, <<64, 1, 0, 7>>}, n \in 0..5}
Filler(n) == [j \in 1..n |-> (j * 37 + 11) % 256]
PadTo(b, L) == IF Len(b) >= L THEN b ELSE b \o Filler(L - Len(b))
RawLens6 == T3({0, 1400, 1401}, {0, 9, 1399, 1400, 1401}, {0, 9, 1399, 1400, 1401})
RawLens7 == T3({0, 518, 519, 1400, 1401}, {0, 518, 519, 520, 1399, 1400, 1401}, {0, 518, 519, 520, 1399, 1400, 1401})
Stream(plain) == ToyZ(plain).data \o ToyEOF
InitComp6 ==
  \E h \in Hints, L \in RawLens6 :
    \/ \E pl \in CtrlPlains, f \in T3({144}, {144, 208}, {144, 208}) :
         Mk([k |-> "rd", v |-> 6, hint |-> h, bytes |-> PadTo(<<f, 0, 0>> \o Stream(pl), L)])
    \/ \E pl \in AreaPlains, n \in {0, 1} :
         Mk([k |-> "rd", v |-> 6, hint |-> h, bytes |-> PadTo(<<128, 0, n>> \o Stream(pl), L)])
InitComp7 ==
  \E t \in {TOKEN_NONE, <<1, 2, 3, 4>>}, L \in RawLens7 :
    \/ \E pl \in CtrlPlains, f \in T3({20}, {20, 28}, {20, 28}) :
         Mk([k |-> "rd", v |-> 7, hint |-> "none", bytes |-> PadTo(<<f, 0, 0>> \o t \o Stream(pl), L)])
    \/ \E pl \in AreaPlains, n \in {0, 1} :
         Mk([k |-> "rd", v |-> 7, hint |-> "none", bytes |-> PadTo(<<16, 0, n>> \o t \o Stream(pl), L)])

\* datagrams of (near-)maximum length: uncompressed with compressible and codec-expanding filler (the
\* re-written form takes the other compression branch / does not fit the writer's compression buffer),
\* and the same body lengths behind the compression flag; every hint
MaxLens == T3(1394..1400, 1388..1400, 1380..1400)
InitMax6 ==
  \E h \in Hints, L \in MaxLens :
    \/ \E cls \in {0, 2} : Mk([k |-> "rd", v |-> 6, hint |-> h, bytes |-> <<0, 0, 1>> \o BigData(L - 3, cls)])
    \/ Mk([k |-> "rd", v |-> 6, hint |-> h, bytes |-> <<128, 0, 1>> \o Stream(BigData(L - 3, 0))])
InitMax7 ==
  \E L \in MaxLens :
    \/ \E cls \in {0, 2} : Mk([k |-> "rd", v |-> 7, hint |-> "none", bytes |-> <<0, 0, 1, 9, 8, 7, 6>> \o BigData(L - 7, cls)])
    \/ Mk([k |-> "rd", v |-> 7, hint |-> "none", bytes |-> <<16, 0, 1, 9, 8, 7, 6>> \o Stream(BigData(L - 7, 0))])

\* close reasons at every length around the limit of 127 bytes, NUL-terminated / unterminated / with
\* trailing data / with a token behind, in the accept -> write -> re-read path; both versions, every hint
ReasonLens == T3({0, 1, 126, 127, 128}, {0, 1, 2, 3, 4, 125, 126, 127, 128, 129, 200}, {0, 1, 2, 3, 4, 125, 126, 127, 128, 129, 200})
ReasonBytes(n) == [j \in 1..n |-> 97 + (j % 26)]
CloseTails == {<<0>>, <<>>, <<0, 120, 121>>, <<0, 1, 2, 3, 4>>}
InitClose ==
  \E n \in ReasonLens, tl \in CloseTails :
    \/ \E h \in Hints : Mk([k |-> "rd", v |-> 6, hint |-> h, bytes |-> <<16, 0, 0, 4>> \o ReasonBytes(n) \o tl])
    \/ Mk([k |-> "rd", v |-> 7, hint |-> "none", bytes |-> <<4, 0, 0, 9, 8, 7, 6, 4>> \o ReasonBytes(n) \o tl])

---------------------------------------------------------------------------
\* the UTF-8 predicate: the code's comment counts 2650112 valid three-byte strings
Utf8Count(u) ==
  FoldLeft(LAMBDA acc, a : acc + FoldLeft(LAMBDA acc2, b : acc2 + Cardinality({x \in Byte : Utf8Valid3(a - 1, b - 1, x)}),
                                          0, Iota(256)),
           0, Iota(256))

---------------------------------------------------------------------------
Init ==
  CASE Tier = "full6" -> InitFull6
    [] Tier = "full7" -> InitFull7
    [] Tier = "utf" -> Mk([k |-> "utf"])
    [] OTHER -> \/ "hf" \in Fams /\ InitHF
                \/ "hb" \in Fams /\ InitHB
                \/ "rt" \in Fams /\ \E x \in Pkt6 \cup Pkt7 \cup Big6 \cup Big7 : \E rc \in RCaps(x) :
                                        Mk(x @@ [rcap |-> rc])
                \/ "short6" \in Fams /\ InitShort6
                \/ "short7" \in Fams /\ InitShort7
                \/ "cor6" \in Fams /\ InitCor6
                \/ "cor7" \in Fams /\ InitCor7
                \/ "heur6" \in Fams /\ InitHeur6
                \/ "comp6" \in Fams /\ InitComp6
                \/ "comp7" \in Fams /\ InitComp7
                \/ "max6" \in Fams /\ InitMax6
                \/ "max7" \in Fams /\ InitMax7
                \/ "close" \in Fams /\ InitClose
Next == UNCHANGED vars

\* exported subset: everything except the widest byte sweeps, which are thinned
Exported(x) ==
  CASE x.k = "hb" /\ x.hk = "chv" -> x.b[2] \in BB \/ ~Quick
    [] x.k = "hb" /\ x.hk = "ch" -> x.b[2] \in BB \/ ~Quick
    [] OTHER -> TRUE

Law ==
  /\ CASE fam = "hf" -> LawHF(cas)
       [] fam = "hb" -> LawHB(cas)
       [] fam = "rt" -> LawRT(cas)
       [] fam = "rd" -> LawRD(cas)
       [] fam = "utf" -> Utf8Count(0) = 2650112 /\ CompressedSome6 /\ CompressedSome7 /\ ExpandsSome
  /\ (Export /\ fam # "utf" /\ Exported(cas)) => PrintT(<<"V", ToJson(cas)>>)


=============================================================================
