CONSTANT Level = "detail"
CONSTANT CodecFails <- NoCodecFails
INIT Init
NEXT Next
POSTCONDITION Post
