CONSTANT Level = "detail"
INIT Init
NEXT Next
POSTCONDITION Post
