-------------------------------- MODULE Wire7 -------------------------------
(***************************************************************************)
(* Packet wire format of Teeworlds 0.7, transcribed from doc/packet7.md    *)
(* and the reader/writer contract of net/src/protocol7.rs.                 *)
(*                                                                         *)
(*   packet7_header           RRff ffAA  AAAA AAAA  nnnn nnnn  T*32        *)
(*        ffff = connless(8) compression(4) request_resend(2) control(1)   *)
(*   packet7_header_connless  RRff ffVV  T*32  r*32        (version = 1)   *)
(*   chunk7_header_nonvital   FFss ssss  PPss ssss     FF = resend(2) vital(1) *)
(*   chunk7_header_vital      FFss ssss  SSss ssss  SSSS SSSS              *)
(*        size has 12 bits; the sequence has no overlapping bits           *)
(*                                                                         *)
(* Values:                                                                 *)
(*   packet header    [flags 0..15, ack 0..1023, nc 0..255, token 4 bytes] *)
(*   connless header  [flags 0..15, version 0..3, token, rtoken]           *)
(*   chunk header     [flags 0..3, size 0..4095] (+ seq 0..1023 if vital)  *)
(*   packet  [t |-> "connless", token, rtoken, data]                       *)
(*           [t |-> "ctrl", ack, token, c, reason, rt]                     *)
(*                c \in keepalive, connect(rt), accept, close(reason), token(rt) *)
(*                rt = <<>> when the message carries no response token     *)
(*           [t |-> "chunks", ack, token, rr, nc, data]                    *)
(***************************************************************************)
EXTENDS WireBase

HEADER_SIZE == 7
HEADER_SIZE_CONNLESS == 9
MAX_BODY == MAX_PACKETSIZE - HEADER_SIZE      \* 1393
TOKEN_REQUEST_PACKET_SIZE == 519
CONNLESS_VERSION == 1

F_CONTROL == 1
F_RESEND == 2
F_COMPRESSION == 4
F_CONNLESS == 8
Has(flags, f) == (flags \div f) % 2 = 1

---------------------------------------------------------------------------
\* Headers

PHInRange(h) == h.flags \in 0..15 /\ h.ack \in 0..1023 /\ h.nc \in 0..255 /\ Len(h.token) = 4 /\ IsBytes(h.token)
PackPH(h) == <<h.flags * 4 + h.ack \div 256, h.ack % 256, h.nc>> \o h.token
UnpackPH(b) ==
  [h |-> [flags |-> (b[1] \div 4) % 16, ack |-> (b[1] % 4) * 256 + b[2], nc |-> b[3], token |-> SubSeq(b, 4, 7)],
   w |-> IF b[1] \div 64 # 0 THEN {"PacketHeaderPadding"} ELSE {}]
CanonPH(b) == b[1] \div 64 = 0

PHCInRange(h) == h.flags \in 0..15 /\ h.version \in 0..3 /\ Len(h.token) = 4 /\ Len(h.rtoken) = 4
                 /\ IsBytes(h.token) /\ IsBytes(h.rtoken)
PackPHC(h) == <<h.flags * 4 + h.version>> \o h.token \o h.rtoken
UnpackPHC(b) ==
  [h |-> [flags |-> (b[1] \div 4) % 16, version |-> b[1] % 4, token |-> SubSeq(b, 2, 5), rtoken |-> SubSeq(b, 6, 9)],
   w |-> IF b[1] \div 64 # 0 THEN {"PacketHeaderPadding"} ELSE {}]
CanonPHC(b) == b[1] \div 64 = 0

CHInRange(h) == h.flags \in 0..3 /\ h.size \in 0..4095
PackCH(h) == <<h.flags * 64 + h.size \div 64, h.size % 64>>
UnpackCH(b) ==
  [h |-> [flags |-> b[1] \div 64, size |-> (b[1] % 64) * 64 + (b[2] % 64)],
   w |-> IF b[2] \div 64 # 0 THEN {"ChunkHeaderPadding"} ELSE {}]       \* PPss ssss
CanonCH(b) == b[2] \div 64 = 0

CHVInRange(h) == CHInRange(h) /\ h.seq \in 0..1023
PackCHV(h) == <<h.flags * 64 + h.size \div 64, (h.seq \div 256) * 64 + (h.size % 64), h.seq % 256>>
UnpackCHV(b) ==
  [h |-> [flags |-> b[1] \div 64, size |-> (b[1] % 64) * 64 + (b[2] % 64),
          seq |-> (b[2] \div 64) * 256 + b[3]],
   w |-> {}]                                                           \* every bit carries a field
CanonCHV(b) == TRUE

Chunks(data, nc) == IterChunks(data, nc, UnpackCH, UnpackCHV)
Area(cl) == ChunkArea(cl, PackCH, PackCHV)

---------------------------------------------------------------------------
\* Writer

CtrlCode(c) == CASE c = "keepalive" -> 0 [] c = "connect" -> 1 [] c = "accept" -> 2
                 [] c = "close" -> 4 [] c = "token" -> 5
CtrlNames == {"keepalive", "connect", "accept", "close", "token"}

ZInput(p) == p.data

Expressible(p) ==
  CASE p.t = "connless" -> Len(p.data) <= MAX_PAYLOAD /\ Len(p.token) = 4 /\ Len(p.rtoken) = 4
    [] p.t = "ctrl" -> /\ p.ack \in 0..1023 /\ Len(p.token) = 4
                       /\ p.c \in CtrlNames
                       /\ NulFree(p.reason) /\ Len(p.reason) <= REASON_MAX
                       /\ (p.c # "close" => p.reason = <<>>)
                       /\ (p.c \in {"connect", "token"} => Len(p.rt) = 4 /\ p.rt # TOKEN_NONE)
                       /\ (p.c \notin {"connect", "token"} => p.rt = <<>>)
    [] p.t = "chunks" -> /\ p.ack \in 0..1023 /\ Len(p.token) = 4 /\ p.nc \in 0..255
                         /\ Len(p.data) <= MAX_BODY

WOk(b) == [r |-> "ok", bytes |-> b]
WErr(e) == [r |-> "err", e |-> e]

\* a token request (message "token" sent with the header token TOKEN_NONE) is padded to 519 bytes
TokenRequestPadding == Rep(TOKEN_REQUEST_PACKET_SIZE - HEADER_SIZE - 1 - 4, 0)

WriteRaw(p, z) ==
  CASE p.t = "connless" ->
         IF Len(p.data) > MAX_PAYLOAD THEN WErr("TooLongData")
         ELSE WOk(PackPHC([flags |-> F_CONNLESS, version |-> CONNLESS_VERSION, token |-> p.token, rtoken |-> p.rtoken])
                  \o p.data)
    [] p.t = "chunks" ->
         LET pt == ZInput(p)
             comp == z.ok /\ Len(z.data) < Len(pt)
         IN WOk(PackPH([flags |-> (IF p.rr THEN F_RESEND ELSE 0) + (IF comp THEN F_COMPRESSION ELSE 0),
                        ack |-> p.ack, nc |-> p.nc, token |-> p.token])
                \o (IF comp THEN z.data ELSE pt))
    [] p.t = "ctrl" ->
         WOk(PackPH([flags |-> F_CONTROL, ack |-> p.ack, nc |-> 0, token |-> p.token])
             \o <<CtrlCode(p.c)>>
             \o (IF p.c \in {"connect", "token"} THEN p.rt ELSE <<>>)
             \o (IF p.c = "close" THEN p.reason \o <<0>> ELSE <<>>)
             \o (IF p.c = "token" /\ p.token = TOKEN_NONE THEN TokenRequestPadding ELSE <<>>))
WriteWith(p, z, cap) ==
  LET r == WriteRaw(p, z) IN
  IF r.r = "ok" /\ Len(r.bytes) > cap THEN WErr("Capacity") ELSE r

---------------------------------------------------------------------------
\* Reader

ROk(p, w) == [r |-> "ok", p |-> p, w |-> w]
RErr(e) == [r |-> "err", e |-> e]

NeedsDecompression(b) ==
  /\ Len(b) <= MAX_PACKETSIZE /\ Len(b) >= HEADER_SIZE
  /\ LET f == (b[1] \div 4) % 16 IN ~Has(f, F_CONNLESS) /\ Has(f, F_COMPRESSION)

FakeHeader(b) == LET u == UnpackPH(Take(b, 7)).h IN
                 PackPH([flags |-> u.flags - F_COMPRESSION, ack |-> u.ack, nc |-> u.nc, token |-> u.token])

\* d as in Wire.tla: the codec's output for Drop(b, 7) with capacity (scratch size - 7)
ReadWith(b, d) ==
  IF Len(b) > MAX_PACKETSIZE THEN RErr("TooLong")
  ELSE IF Len(b) < HEADER_SIZE THEN RErr("TooShort")
  ELSE
  LET u == UnpackPH(Take(b, 7))
      f == u.h.flags
      nc == u.h.nc
      raw == Drop(b, 7)
  IN
  IF Has(f, F_CONNLESS)
  THEN IF Len(b) < HEADER_SIZE_CONNLESS THEN RErr("TooShort")
       ELSE LET uc == UnpackPHC(Take(b, 9)) IN
            IF uc.h.version # CONNLESS_VERSION THEN RErr("UnknownConnlessVersion")
            ELSE ROk([t |-> "connless", token |-> uc.h.token, rtoken |-> uc.h.rtoken, data |-> Drop(b, 9)],
                     u.w \cup uc.w \cup (IF uc.h.flags # F_CONNLESS THEN {"ConnlessFlags"} ELSE {}))
  ELSE
  IF Has(f, F_COMPRESSION) /\ d.k = "none" THEN [r |-> "need_d"]
  ELSE IF Has(f, F_COMPRESSION) /\ d.k = "err" THEN RErr("Compression")
  ELSE
  LET pl == IF Has(f, F_COMPRESSION) THEN d.data ELSE raw IN
  IF Len(pl) > MAX_BODY THEN RErr("Compression")
  ELSE
  IF Has(f, F_CONTROL)
  THEN LET w1 == u.w \cup (IF nc # 0 THEN {"ControlNumChunks"} ELSE {})
                     \cup (IF Has(f, F_COMPRESSION) \/ Has(f, F_RESEND) THEN {"ControlFlags"} ELSE {})
       IN IF pl = <<>> THEN RErr("ControlMissing")
          ELSE LET c == pl[1]
                   rest == Drop(pl, 1)
                   Mk(name, reason, rt, w) ==
                     ROk([t |-> "ctrl", ack |-> u.h.ack, token |-> u.h.token, c |-> name,
                          reason |-> reason, rt |-> rt], w1 \cup w)
                   Excess == IF rest # <<>> THEN {"ControlExcessData"} ELSE {}
                   WithRT(name, warnMore) ==
                     IF Len(rest) < 4 THEN RErr("ControlResponseTokenMissing")
                     ELSE Mk(name, <<>>, Take(rest, 4),
                             IF warnMore /\ Len(rest) > 4 THEN {"ControlExcessData"} ELSE {})
               IN CASE c = 0 -> Mk("keepalive", <<>>, <<>>, Excess)
                    [] c = 1 -> WithRT("connect", TRUE)
                    [] c = 2 -> Mk("accept", <<>>, <<>>, Excess)
                    [] c = 4 ->
                         LET fn == FirstNul(rest)
                             nul == IF fn < REASON_MAX THEN fn ELSE REASON_MAX
                         IN Mk("close", Take(rest, nul), <<>>,
                               IF rest # <<>> /\ nul + 1 # Len(rest)
                               THEN IF nul + 1 < Len(rest) THEN {"ControlExcessData"}
                                    ELSE {"ControlNulTermination"}
                               ELSE {})
                    [] c = 5 ->
                         \* an unauthenticated token request must be as large as its answer
                         IF u.h.token = TOKEN_NONE /\ Len(b) < TOKEN_REQUEST_PACKET_SIZE
                         THEN RErr("ControlTokenRequestTooShort")
                         ELSE WithRT("token", u.h.token # TOKEN_NONE)
                    [] OTHER -> RErr("UnknownControl")
  ELSE LET rr == Has(f, F_RESEND) IN
       ROk([t |-> "chunks", ack |-> u.h.ack, token |-> u.h.token, rr |-> rr, nc |-> nc, data |-> pl],
           u.w \cup (IF nc = 0 /\ ~rr THEN {"ChunksNoChunks"} ELSE {}))

AllowedW(p) == IF p.t = "chunks" /\ p.nc = 0 /\ ~p.rr THEN {"ChunksNoChunks"} ELSE {}
=============================================================================
