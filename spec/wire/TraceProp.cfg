CONSTANT Level = "prop"
INIT Init
NEXT Next
POSTCONDITION Post
