------------------------------ MODULE WireBase ------------------------------
(***************************************************************************)
(* Vocabulary shared by Wire.tla (Teeworlds 0.6 / DDNet) and Wire7.tla     *)
(* (Teeworlds 0.7): byte strings, the chunk iteration that both versions   *)
(* share (parameterised by the version's chunk-header layout), UTF-8       *)
(* validity of three bytes (used by the 0.6 token heuristic), and a toy    *)
(* run-length codec that stands in for Huffman when TLC explores the       *)
(* framing laws on the model (the real codec is C07's subject; when the    *)
(* real code is bound, the codec's values are taken from the recorded      *)
(* event, see WireTrace.tla).                                              *)
(*                                                                         *)
(* All per-byte loops are folds (DESIGN A.3): RECURSIVE operators passing  *)
(* 1400-byte sequences are quadratic in TLC.                               *)
(***************************************************************************)
EXTENDS Integers, Sequences, FiniteSets, SequencesExt, TLC

Byte == 0..255
MAX_PACKETSIZE == 1400
MAX_PAYLOAD == 1390            \* what the writers accept as connless payload
REASON_MAX == 127              \* CTRLMSG_CLOSE_REASON_LENGTH

IsBytes(s) == \A k \in 1..Len(s) : s[k] \in Byte
Rep(n, b) == [k \in 1..n |-> b]
Take(s, n) == SubSeq(s, 1, n)
Drop(s, n) == SubSeq(s, n + 1, Len(s))
Iota(n) == [k \in 1..n |-> k]
SeqToSet(s) == {s[k] : k \in 1..Len(s)}

TKEN == <<84, 75, 69, 78>>                       \* "TKEN"
TOKEN_NONE == <<255, 255, 255, 255>>

\* 0-based index of the first NUL byte of s, Len(s) if there is none
FirstNul(s) ==
  LET F(acc, b) == IF acc.found THEN acc
                   ELSE IF b = 0 THEN [acc EXCEPT !.found = TRUE]
                   ELSE [acc EXCEPT !.n = @ + 1]
  IN FoldLeft(F, [found |-> FALSE, n |-> 0], s).n

NulFree(s) == \A k \in 1..Len(s) : s[k] # 0

(***************************************************************************)
(* UTF-8 validity of exactly three bytes (RFC 3629; what Rust's            *)
(* str::from_utf8 accepts).  The code's comment counts 2650112 valid       *)
(* three-byte strings; MC_Wire checks that number.                         *)
(***************************************************************************)
Cont(x) == x \in 128..191
Ascii(x) == x < 128
Two(a, b) == a \in 194..223 /\ Cont(b)
Three(a, b, c) == \/ a = 224 /\ b \in 160..191 /\ Cont(c)
                  \/ a \in 225..236 /\ Cont(b) /\ Cont(c)
                  \/ a = 237 /\ b \in 128..159 /\ Cont(c)
                  \/ a \in 238..239 /\ Cont(b) /\ Cont(c)
Utf8Valid3(a, b, c) == \/ Ascii(a) /\ Ascii(b) /\ Ascii(c)
                       \/ Ascii(a) /\ Two(b, c)
                       \/ Two(a, b) /\ Ascii(c)
                       \/ Three(a, b, c)

(***************************************************************************)
(* Chunk iteration ("ChunksIter run until the first None").                *)
(*   data : the chunk area of a packet, nc : the header's chunk count      *)
(*   UCH(<<b1,b2>>), UCHV(<<b1,b2,b3>>) : the version's header unpackers,  *)
(*        returning [h |-> [flags, size(, seq)], w |-> set of warnings]    *)
(* Result: chunks as (offset, length) into data + vital/seq/resend, the    *)
(* set of warnings.  A chunk is vital iff bit 0 of its flags is set        *)
(* (doc/packet.md: FF = resend, vital); the resend flag of a non-vital     *)
(* chunk is not part of the value.                                         *)
(***************************************************************************)
IterChunks(data, nc, UCH(_), UCHV(_)) ==
  LET n == Len(data)
      \* the call that finds data it cannot parse: its warnings are the header's (if a header was read)
      \* and ChunksUnknownData; the iterator drops the rest of the area
      Excess(acc, hw) == [acc EXCEPT !.done = TRUE, !.excess = TRUE, !.endw = hw \cup {"ChunksUnknownData"},
                                     !.w = @ \cup hw \cup {"ChunksUnknownData"}]
      Step(acc, k) ==
        IF acc.done THEN acc
        ELSE LET rem == n - acc.pos IN
          IF rem = 0
          THEN LET nw == IF Len(acc.chunks) # nc THEN {"ChunksNumChunks"} ELSE {} IN
               [acc EXCEPT !.done = TRUE, !.endw = nw, !.w = @ \cup nw]
          ELSE IF rem < 2 THEN Excess(acc, {})
          ELSE LET b1 == data[acc.pos + 1]
                   b2 == data[acc.pos + 2]
                   vital == (b1 \div 64) % 2 = 1
               IN IF vital /\ rem < 3 THEN Excess(acc, {})
                  ELSE LET u == IF vital THEN UCHV(<<b1, b2, data[acc.pos + 3]>>)
                                         ELSE UCH(<<b1, b2>>)
                           hs == IF vital THEN 3 ELSE 2
                       IN IF rem - hs < u.h.size THEN Excess(acc, u.w)
                          ELSE [acc EXCEPT
                                  !.pos = @ + hs + u.h.size,
                                  !.w = @ \cup u.w,
                                  !.cw = Append(@, u.w),
                                  !.chunks = Append(@, [off |-> acc.pos + hs,
                                                        len |-> u.h.size,
                                                        vital |-> vital,
                                                        seq |-> IF vital THEN u.h.seq ELSE 0,
                                                        resend |-> vital /\ u.h.flags \div 2 = 1])]
  IN FoldLeft(Step, [pos |-> 0, chunks |-> <<>>, w |-> {}, done |-> FALSE,
                     cw |-> <<>>,              \* warnings of the call that returned chunk j
                     endw |-> {},              \* warnings of the first call that returned None
                     excess |-> FALSE],        \* that call found unparsable data (and dropped the rest)
              Iota(n \div 2 + 1))

(***************************************************************************)
(* The iterator call by call (what a user of next_warn / pos / len sees).  *)
(* With it = IterChunks(..), m = Len(it.chunks):                           *)
(*   before call j <= m :  pos = end of chunk j-1 (0 for j = 1),           *)
(*                         len() = m - (j-1)   (ExactSizeIterator)         *)
(*   call j <= m        :  chunk j, warnings it.cw[j]                      *)
(*   call m+1           :  None, warnings it.endw; afterwards pos = Len(data) *)
(*   call m+2           :  None; ChunksNumChunks now if the area ended in  *)
(*                         unparsable data and m # nc (the count is only   *)
(*                         compared once the area is exhausted)            *)
(*   later calls        :  None, no warning                                *)
(***************************************************************************)
IterPosBefore(it, j) == IF j = 1 THEN 0 ELSE it.chunks[j - 1].off + it.chunks[j - 1].len
IterLenBefore(it, j) == Len(it.chunks) - (j - 1)
IterAfterW(it, nc, k) ==        \* warnings of the k-th call after the first None
  IF k = 1 /\ it.excess /\ Len(it.chunks) # nc THEN {"ChunksNumChunks"} ELSE {}

\* the bytes of one chunk as the writer lays them out
\* c = [vital |-> BOOLEAN, seq |-> 0..1023, resend |-> BOOLEAN, data |-> bytes]
ChunkBytes(c, PCH(_), PCHV(_)) ==
  (IF c.vital THEN PCHV([flags |-> 1 + (IF c.resend THEN 2 ELSE 0), size |-> Len(c.data), seq |-> c.seq])
              ELSE PCH([flags |-> 0, size |-> Len(c.data)]))
  \o c.data
ChunkArea(cl, PCH(_), PCHV(_)) ==
  FoldLeft(LAMBDA acc, c : acc \o ChunkBytes(c, PCH, PCHV), <<>>, cl)

(***************************************************************************)
(* Toy codec used only on the model: run-length pairs <<count, byte>>.     *)
(* It has what the framing laws need from Huffman: a total decoder with a  *)
(* capacity, Decode(Encode(s)) = s, outputs that are sometimes shorter     *)
(* and sometimes longer than the input, inputs that expand past a packet,  *)
(* invalid streams, and an end marker after which trailing bytes are       *)
(* ignored (so that the raw length of a datagram and the length of its     *)
(* decompressed body can fall on different sides of a length check).       *)
(***************************************************************************)
ToyZ(s) ==
  LET F(acc, b) == IF acc # <<>> /\ acc[Len(acc)] = b /\ acc[Len(acc) - 1] < 255
                   THEN [acc EXCEPT ![Len(acc) - 1] = @ + 1]
                   ELSE acc \o <<1, b>>
  IN [ok |-> TRUE, data |-> FoldLeft(F, <<>>, s)]
\* like Huffman, the toy stream has an end marker (a pair with count 0) after which the decoder ignores
\* whatever follows; without marker the stream ends with the input
ToyEOF == <<0, 0>>
ToyD(z, cap) ==
  LET Bad == [k |-> "err", data |-> <<>>]
      F(acc, j) == IF acc.k # "run" THEN acc
                   ELSE LET cnt == z[2 * j - 1] IN
                        IF cnt = 0 THEN [acc EXCEPT !.k = "ok"]
                        ELSE IF Len(acc.data) + cnt > cap THEN Bad
                        ELSE [acc EXCEPT !.data = @ \o Rep(cnt, z[2 * j])]
      a == FoldLeft(F, [k |-> "run", data |-> <<>>], Iota(Len(z) \div 2))
  IN IF a.k # "run" THEN a
     ELSE IF Len(z) % 2 = 1 THEN Bad ELSE [k |-> "ok", data |-> a.data]
=============================================================================
