--------------------------- MODULE SnapSyncOps ---------------------------
(* Operators of the snapshot synchronisation model (property C13).

   Sender:   snapshot/src/storage.rs  Storage::{new_builder, add_snap, set_delta_tick}
             snapshot/src/snap.rs     Builder (UUID registry), Snap::recycle, Delta::{create, write}, delta_chunks
   Receiver: snapshot/src/manager.rs  Manager::{snap_empty, snap_single, snap, ack_tick}
             snapshot/src/receiver.rs DeltaReceiver (operator Step of SnapRecvOps)
             snapshot/src/storage.rs  Storage::add_delta;  snap.rs Delta::read, Snap::read_with_delta, build_from_raw

   Vocabulary
     item value   [rep |-> R, d |-> <<..>>]   the integers d, each repeated R times (real length R * Len(d));
                                              R > 1 only to get real multi-part sizes out of small model values
     world        function <<uty, id>> -> item value; uty > 0 ordinal type, uty < 0 the UUID type number -uty
     registry     sequence of UUID type numbers; position p has raw type ExtBase + p - 1
     raw snapshot function <<ty, id>> -> item value; ty = 0 registry items (id = raw type, data = the UUID)
     delta        [del |-> set of raw keys, upd |-> function raw key -> item value]                       *)
EXTENDS SnapRecvOps, SequencesExt, FiniteSetsExt, IOUtils

ExtBase == 16384       \* OFFSET_EXTENDED_TYPE_ID

(* Which registry `Storage::new_builder` starts from (environment variable RECYCLE, chosen by the
   check after probing the code):
     "free"   : that of the most recently freed snapshot, or none (the pinned tree) -- the numbering of
                UUID types then differs between stored snapshots (defect: Delta::create can panic);
     "newest" : that of the newest stored snapshot (the repaired tree) -- one numbering for all stored
                snapshots.                                                                           *)
RecycleMode == IF "RECYCLE" \in DOMAIN IOEnv THEN IOEnv.RECYCLE ELSE "free"
RecvCap == 100         \* MAX_STORED_SNAPSHOT

------------------------------------------------------------------------
(* arithmetic on item values (model values are small: no 32-bit wrap) *)

SumSeq(s) == FoldLeft(LAMBDA a, b : a + b, 0, s)
RealLen(x) == x.rep * Len(x.d)
SameShape(x, y) == x.rep = y.rep /\ Len(x.d) = Len(y.d)
ItemSum(x) == x.rep * SumSeq(x.d)
Minus(x, y) == [rep |-> x.rep, d |-> [i \in 1..Len(x.d) |-> x.d[i] - y.d[i]]]
Plus(x, y) == [rep |-> x.rep, d |-> [i \in 1..Len(x.d) |-> x.d[i] + y.d[i]]]

\* bytes of the variable-length integer (doc/int.md): 6 bits + 7 per further byte
IntLen(v) == LET a == IF v >= 0 THEN v ELSE -v - 1 IN
             IF a < 64 THEN 1 ELSE IF a < 8192 THEN 2 ELSE IF a < 1048576 THEN 3 ELSE IF a < 134217728 THEN 4 ELSE 5
ItemBytes(x) == x.rep * SumSeq([i \in 1..Len(x.d) |-> IntLen(x.d[i])])
KeyInt(k) == k[1] * 65536 + k[2]

SumOver(S, f(_)) == FoldSet(LAMBDA k, acc : acc + f(k), 0, S)

EmptyRaw == [k \in {} |-> 0]
Crc(raw) == SumOver(DOMAIN raw, LAMBDA k : ItemSum(raw[k]))

------------------------------------------------------------------------
(* UUID registry, Builder, Snap::recycle *)

UuidItem(u) == [rep |-> 1, d |-> <<u, 2 * u, 3 * u, 4 * u>>]
Pos(reg, u) == CHOOSE p \in 1..Len(reg) : reg[p] = u
Knows(reg, u) == \E p \in 1..Len(reg) : reg[p] = u

\* the application adds ordinal items first, then UUID-typed items by ascending type number:
\* unknown UUID types are numbered in that order after the ones the recycled builder remembers
UuidsOf(world) == {-k[1] : k \in {k \in DOMAIN world : k[1] < 0}}
ExtendReg(reg, world) ==
  LET new == {u \in UuidsOf(world) : ~Knows(reg, u)} IN
  reg \o SetToSortSeq(new, LAMBDA a, b : a < b)

RawTy(reg, uty) == IF uty > 0 THEN uty ELSE ExtBase + Pos(reg, -uty) - 1
RawKey(reg, k) == <<RawTy(reg, k[1]), k[2]>>

\* the snapshot `Builder::finish` yields: registry items of every remembered UUID type + the world's items
RawOf(reg, world) ==
  LET regKeys == {<<0, ExtBase + p - 1>> : p \in 1..Len(reg)}
      wKeys == {RawKey(reg, k) : k \in DOMAIN world}
  IN [rk \in regKeys \cup wKeys |->
        IF rk[1] = 0 THEN UuidItem(reg[rk[2] - ExtBase + 1])
        ELSE world[CHOOSE k \in DOMAIN world : RawKey(reg, k) = rk]]

------------------------------------------------------------------------
(* Delta::create, Delta::write (size only), Snap::read_with_delta, build_from_raw *)

\* Delta::create panics ("item sizes can't be mismatched") when a key changes its real length
SizeClash(from, to) == \E k \in DOMAIN from \cap DOMAIN to : RealLen(from[k]) # RealLen(to[k])
\* the model's item values must agree in shape when they agree in real length (assumption on the worlds)
ShapeClash(from, to) == \E k \in DOMAIN from \cap DOMAIN to : RealLen(from[k]) = RealLen(to[k]) /\ ~SameShape(from[k], to[k])

MkDelta(from, to) ==
  [del |-> DOMAIN from \ DOMAIN to,
   upd |-> [k \in DOMAIN to |-> IF k \in DOMAIN from THEN Minus(to[k], from[k]) ELSE to[k]]]
EmptyDelta == [del |-> {}, upd |-> EmptyRaw]

\* bytes of the delta on the wire; ag: function raw type -> pre-agreed real size (object_size)
DeltaBytes(dl, ag) ==
    IntLen(Cardinality(dl.del)) + IntLen(Cardinality(DOMAIN dl.upd)) + 1
  + SumOver(dl.del, LAMBDA k : IntLen(KeyInt(k)))
  + SumOver(DOMAIN dl.upd, LAMBDA k :
        IntLen(k[1]) + IntLen(k[2]) + (IF k[1] \in DOMAIN ag THEN 0 ELSE IntLen(RealLen(dl.upd[k]))) + ItemBytes(dl.upd[k]))

\* Snap::read_with_delta: [ok, e, raw]
ApplyDelta(base, dl) ==
  LET kept == DOMAIN base \ dl.del
      bad == \E k \in DOMAIN dl.upd : k \in DOMAIN base /\ ~SameShape(base[k], dl.upd[k])
  IN IF bad THEN [ok |-> FALSE, e |-> "DeltaDifferingSizes", raw |-> EmptyRaw]
     ELSE [ok |-> TRUE, e |-> "",
           raw |-> [k \in kept \cup DOMAIN dl.upd |->
                      IF k \in DOMAIN dl.upd
                      THEN (IF k \in DOMAIN base THEN Plus(base[k], dl.upd[k]) ELSE dl.upd[k])
                      ELSE base[k]]]

\* Snap::build_from_raw: "" or the error
RegistryError(raw) ==
  LET regs == {k \in DOMAIN raw : k[1] = 0}
      exts == {k[1] : k \in {k \in DOMAIN raw : k[1] >= ExtBase}}
  IN IF \E k \in regs : RealLen(raw[k]) < 4 THEN "InvalidUuidType"
     ELSE IF \E k1, k2 \in regs : k1 # k2 /\ raw[k1].d = raw[k2].d THEN "DuplicateUuidType"
     ELSE IF \E ty \in exts : <<0, ty>> \notin DOMAIN raw THEN "MissingUuidType"
     ELSE ""

\* what the user sees (Snap::items): registry items hidden, extended types resolved to their UUID
ViewOf(raw) ==
  LET keys == {k \in DOMAIN raw : k[1] # 0}
      uty(k) == IF k[1] < ExtBase THEN k[1] ELSE -(raw[<<0, k[1]>>].d[1])
  IN [uk \in {<<uty(k), k[2]>> : k \in keys} |-> raw[CHOOSE k \in keys : <<uty(k), k[2]>> = uk]]

------------------------------------------------------------------------
(* Sender storage *)

\* set_delta_tick / add_delta: snaps older than t leave the queue (newest first), in queue order
Older(snaps, t) == SelectSeq(snaps, LAMBDA s : s.tick < t)
NotOlder(snaps, t) == SelectSeq(snaps, LAMBDA s : s.tick >= t)
BackIs(snaps, t) == snaps # <<>> /\ snaps[Len(snaps)].tick = t

(* Storage::new_builder + Builder::add_item* + finish + Storage::add_snap + Delta::write + delta_chunks.
   snaps: newest-first [tick, world, reg]; free: registries of recycled snapshots (a stack);
   dtick: -1 or the acknowledged tick.  Result: new sender state, outcome, messages. *)
SenderTick(snaps, free, dtick, t, world, ag) ==
  LET old == IF RecycleMode = "newest" THEN (IF snaps = <<>> THEN <<>> ELSE snaps[1].reg)
             ELSE IF free = <<>> THEN <<>> ELSE free[Len(free)]
      free1 == IF RecycleMode = "newest" \/ free = <<>> THEN free ELSE SubSeq(free, 1, Len(free) - 1)
      reg1 == ExtendReg(old, world)
      to == RawOf(reg1, world)
      snaps1 == <<[tick |-> t, world |-> world, reg |-> reg1]>> \o snaps
      b == snaps1[Len(snaps1)]
      from == IF dtick # -1 THEN RawOf(b.reg, b.world) ELSE EmptyRaw
  IN IF SizeClash(from, to)
     THEN [snaps |-> snaps1, free |-> free1, r |-> "panic", msgs |-> <<>>, crc |-> 0, len |-> 0, shape |-> TRUE]
     ELSE LET dl == MkDelta(from, to)
              T == [id |-> t, t |-> t, b |-> dtick, len |-> DeltaBytes(dl, ag), crc |-> Crc(to)]
              cs == ChunkSeq(T)
          IN [snaps |-> snaps1, free |-> free1, r |-> "ok",
              msgs |-> [j \in 1..Len(cs) |-> cs[j] @@ [d |-> dl, w |-> world]],
              crc |-> T.crc, len |-> T.len, shape |-> ~ShapeClash(from, to)]

\* Storage::set_delta_tick
SenderAck(snaps, free, a) ==
  IF a < 0 THEN [snaps |-> snaps, free |-> free, dtick |-> -1, r |-> "ok"]
  ELSE LET s1 == NotOlder(snaps, a)
           fr == IF RecycleMode = "newest" THEN free
                 ELSE free \o [j \in 1..Len(Older(snaps, a)) |-> Older(snaps, a)[j].reg]
       IN IF BackIs(s1, a) THEN [snaps |-> s1, free |-> fr, dtick |-> a, r |-> "ok"]
          ELSE [snaps |-> s1, free |-> fr, dtick |-> -1, r |-> "UnknownSnap"]

------------------------------------------------------------------------
(* Receiver: Manager = DeltaReceiver + Storage::add_delta *)

ROut(r, e, ack, view, w) == [r |-> r, e |-> e, ack |-> ack, view |-> view, w |-> w]
NoView == [k \in {} |-> 0]

\* Storage::add_delta for a reassembled delta.  snaps: newest-first [tick, raw]
AddDelta(snaps, ack, hd, crc, dt, t, dl, w0) ==
  IF (IF snaps = <<>> THEN -1 ELSE snaps[1].tick) >= t
  THEN [snaps |-> snaps, ack |-> ack, out |-> ROut("err", "Storage(OldDelta)", ack, NoView, w0)]
  ELSE LET s1 == IF dt >= 0 THEN NotOlder(snaps, dt) ELSE snaps
           w1 == IF dt < -1 THEN w0 \cup {"Storage(WeirdNegativeDeltaTick)"} ELSE w0
       IN IF dt >= 0 /\ ~BackIs(s1, dt)
          THEN [snaps |-> s1, ack |-> -1, out |-> ROut("err", "Storage(UnknownSnap)", -1, NoView, w1)]
          ELSE LET base == IF dt >= 0 THEN s1[Len(s1)].raw ELSE EmptyRaw
                   ap == ApplyDelta(base, dl)
                   re == IF ap.ok THEN RegistryError(ap.raw) ELSE ap.e
               IN IF re # ""
                  THEN [snaps |-> s1, ack |-> ack, out |-> ROut("err", "Storage(Unpack(" \o re \o "))", ack, NoView, w1)]
                  ELSE IF hd /\ crc # Crc(ap.raw)
                  THEN [snaps |-> s1, ack |-> -1, out |-> ROut("err", "Storage(InvalidCrc)", -1, NoView, w1)]
                  ELSE LET s2 == <<[tick |-> t, raw |-> ap.raw]>> \o s1
                           s3 == IF Len(s2) > RecvCap THEN SubSeq(s2, 1, RecvCap) ELSE s2
                       IN [snaps |-> s3, ack |-> t, out |-> ROut("ok", "", t, ViewOf(ap.raw), w1)]

(* One Manager::snap* call for message m (which carries its delta as m.d).
   R = [prev, cur, parts, snaps, ack] *)
ManagerStep(R, m) ==
  LET s == Step(R.prev, R.cur, R.parts, m)
      rw == {"Receiver(" \o x \o ")" : x \in s.out.w}
  IN IF s.out.r = "err"
     THEN [prev |-> s.prev, cur |-> s.cur, parts |-> s.parts, snaps |-> R.snaps, ack |-> R.ack,
           out |-> ROut("err", "Receiver(" \o s.out.e \o ")", R.ack, NoView, rw)]
     ELSE IF s.out.r = "none"
     THEN [prev |-> s.prev, cur |-> s.cur, parts |-> s.parts, snaps |-> R.snaps, ack |-> R.ack,
           out |-> ROut("none", "", R.ack, NoView, rw)]
     ELSE LET a == AddDelta(R.snaps, R.ack, s.out.hd, s.out.crc, s.out.b, s.out.t,
                            IF s.out.hd THEN m.d ELSE EmptyDelta, rw)
          IN [prev |-> s.prev, cur |-> s.cur, parts |-> s.parts, snaps |-> a.snaps, ack |-> a.ack, out |-> a.out]

------------------------------------------------------------------------
(* Property layer (C13), over observable events only:
     accepted (r = "ok")  =>  the snapshot is, item for item, the world built for that tick,
                              and the acknowledged tick is that tick;
     rejected (r = "err") =>  the acknowledged tick does not advance: it keeps its value or is cleared;
     nothing handed out   =>  the acknowledged tick is unchanged;
     any other outcome (panic, hang) is a violation.                                          *)
JudgeDeliver(built, t, ackBefore, o) ==
     (IF o.r \notin {"ok", "none", "err"} THEN {"outcome-" \o o.r} ELSE {})
  \cup (IF o.r = "ok" /\ o.view # built THEN {"accepted-differs-from-built"} ELSE {})
  \cup (IF o.r = "ok" /\ o.ack # t THEN {"accepted-not-acked"} ELSE {})
  \cup (IF o.r = "err" /\ o.ack \notin {ackBefore, -1} THEN {"ack-advanced-on-rejection"} ELSE {})
  \cup (IF o.r = "none" /\ o.ack # ackBefore THEN {"ack-moved-without-snapshot"} ELSE {})
=========================================================================
