-------------------------- MODULE SnapSyncTrace --------------------------
(* Validates an NDJSON trace recorded from the real sender `Storage`, the real
   wire forms and the real receiver `Manager` against BOTH layers of SnapSync.

   One TLC state per logged event.  Every event is the corresponding SnapSync
   action (operators of SnapSyncOps) constrained to the logged operational
   choice (which world, which message/ack index, duplicate or not), so TLC
   evaluates
     * the detailed layer: the spec's output for that action vs. the logged
       output (tick: message fields, sizes, checksum; delivery: result, error,
       accepted items, ack tick, warnings; ack: result, delta tick) -> `drift`;
     * the property layer (C13): JudgeDeliver on the logged output against the
       world that was built for the delivered message's tick, tracked from
       the logged events only -> `viol`.
   Events:
     {"e":"reset","run":k,"agreed":[{ty,size}..]}
     {"e":"tick","world":[item..],"out":{r,n,crc,len,dt,msgs:[..]}}
     {"e":"deliver_msg","i":i,"keep":b,"out":{r,e,ack,view:[item..],w:[..],t,lk}}
     {"e":"client_ack","out":{r,ack}}   {"e":"deliver_ack","i":i,"keep":b,"out":{r,dt}}
     {"e":"drop_msg","i":i}             {"e":"drop_ack","i":i}                        *)
EXTENDS SnapSyncOps, Json, IOUtils, TLCExt

Rec == ndJsonDeserialize(IOEnv.TRACE)
MaxKeep == 200

VARIABLES i, tick, ssnaps, sfree, sdelta, rprev, rcur, rparts, rsnaps, rack, msgs, acks, ag,
          pnet, pack, ptick, run, drift, viol, ndrift, nviol, njudged, naccepted

dvars == <<tick, ssnaps, sfree, sdelta, rprev, rcur, rparts, rsnaps, rack, msgs, acks>>
pvars == <<pnet, pack, ptick>>
cvars == <<drift, viol, ndrift, nviol, njudged, naccepted>>
vars == <<i, tick, ssnaps, sfree, sdelta, rprev, rcur, rparts, rsnaps, rack, msgs, acks, ag,
          pnet, pack, ptick, run, drift, viol, ndrift, nviol, njudged, naccepted>>

SeqToSet(s) == {s[k] : k \in DOMAIN s}
FunOfItems(items) ==
  LET S == SeqToSet(items) IN
  [k \in {<<it.ty, it.id>> : it \in S} |->
     LET it == CHOOSE x \in S : <<x.ty, x.id>> = k IN [rep |-> it.rep, d |-> it.d]]
FieldsOf(m) == [k |-> m.k, t |-> m.t, dt |-> m.dt, n |-> m.n, i |-> m.i, crc |-> m.crc, lo |-> m.lo, hi |-> m.hi]
Keep(s, n, x) == IF n < MaxKeep THEN Append(s, x) ELSE s

Init == /\ i = 1 /\ tick = 0 /\ ssnaps = <<>> /\ sfree = <<>> /\ sdelta = -1
        /\ rprev = <<>> /\ rcur = <<>> /\ rparts = NoParts /\ rsnaps = <<>> /\ rack = -1
        /\ msgs = <<>> /\ acks = <<>> /\ ag = EmptyRaw
        /\ pnet = <<>> /\ pack = -1 /\ ptick = 0 /\ run = 0
        /\ drift = <<>> /\ viol = <<>> /\ ndrift = 0 /\ nviol = 0 /\ njudged = 0 /\ naccepted = 0

Report == PrintT(<<"RESULT", ToJson([events |-> Len(Rec), judged |-> njudged', accepted |-> naccepted',
                                      ndrift |-> ndrift', nviol |-> nviol', drift |-> drift', viol |-> viol'])>>)

Note(df, bad, what, detail) ==
  /\ IF df = {} THEN UNCHANGED <<drift, ndrift>>
     ELSE /\ drift' = Keep(drift, ndrift, [i |-> i, run |-> run, what |-> what, fields |-> df])
          /\ ndrift' = ndrift + 1
  /\ IF bad = {} THEN UNCHANGED <<viol, nviol>>
     ELSE /\ viol' = Keep(viol, nviol, [i |-> i, run |-> run, what |-> what, clauses |-> bad, detail |-> detail])
          /\ nviol' = nviol + 1

Reset(ev) ==
  /\ tick' = 0 /\ ssnaps' = <<>> /\ sfree' = <<>> /\ sdelta' = -1
  /\ rprev' = <<>> /\ rcur' = <<>> /\ rparts' = NoParts /\ rsnaps' = <<>> /\ rack' = -1
  /\ msgs' = <<>> /\ acks' = <<>>
  /\ ag' = [ty \in {x.ty : x \in SeqToSet(ev.agreed)} |-> (CHOOSE x \in SeqToSet(ev.agreed) : x.ty = ty).size]
  /\ pnet' = <<>> /\ pack' = -1 /\ ptick' = 0 /\ run' = ev.run
  /\ UNCHANGED cvars

Tick(ev) ==
  LET world == FunOfItems(ev.world)
      t == tick + 1
      s == SenderTick(ssnaps, sfree, sdelta, t, world, ag)
      o == ev.out
      realok == o.r = "ok"
      df == IF s.r # o.r THEN {"r"}
            ELSE IF ~realok THEN {}
            ELSE {f \in {"n", "crc", "len", "dt"} : [n |-> Len(s.msgs), crc |-> s.crc, len |-> s.len, dt |-> sdelta][f] # o[f]}
                 \cup (IF [j \in 1..Len(s.msgs) |-> FieldsOf(s.msgs[j])] # [j \in DOMAIN o.msgs |-> FieldsOf(o.msgs[j])] THEN {"msgs"} ELSE {})
      \* a tick that is cut into no message at all can never reach the receiver
      bad == IF ~realok THEN {"sender-" \o o.r} ELSE IF o.n = 0 THEN {"sender-no-messages"} ELSE {}
  IN /\ tick' = t /\ ssnaps' = s.snaps /\ sfree' = s.free /\ msgs' = msgs \o s.msgs
     /\ ptick' = ptick + 1
     /\ pnet' = IF realok THEN pnet \o [j \in 1..o.n |-> [t |-> ptick + 1, w |-> world]] ELSE pnet
     /\ Note(df, bad, "tick", IF realok THEN "" ELSE o.e)
     /\ UNCHANGED <<sdelta, rprev, rcur, rparts, rsnaps, rack, acks, ag, pack, run, njudged, naccepted>>

DeliverMsg(ev) ==
  LET o == ev.out
      lo == [r |-> o.r, e |-> o.e, ack |-> o.ack, view |-> FunOfItems(o.view), w |-> SeqToSet(o.w)]
      inspec == ev.i \in 1..Len(msgs)
      m == msgs[ev.i]
      r == ManagerStep([prev |-> rprev, cur |-> rcur, parts |-> rparts, snaps |-> rsnaps, ack |-> rack], m)
      df == IF ~inspec THEN {"index"}
            ELSE {f \in {"r", "e", "ack", "view", "w"} : r.out[f] # lo[f]} \cup (IF ~o.lk THEN {"lk"} ELSE {})
      \* "skip": the real sender had put fewer messages in flight than the schedule assumes; nothing was delivered
      inreal == ev.i \in 1..Len(pnet) /\ o.r # "skip"
      p == pnet[ev.i]
      bad == IF ~inreal THEN {}
             ELSE JudgeDeliver(p.w, p.t, pack, lo) \cup (IF o.r = "ok" /\ ~o.lk THEN {"uuid-lookup"} ELSE {})
  IN /\ IF inspec
        THEN /\ msgs' = IF ev.keep THEN msgs ELSE RemoveAt(msgs, ev.i)
             /\ rprev' = r.prev /\ rcur' = r.cur /\ rparts' = r.parts /\ rsnaps' = r.snaps /\ rack' = r.ack
        ELSE UNCHANGED <<msgs, rprev, rcur, rparts, rsnaps, rack>>
     /\ pnet' = IF inreal /\ ~ev.keep THEN RemoveAt(pnet, ev.i) ELSE pnet
     /\ pack' = o.ack
     /\ njudged' = IF inreal THEN njudged + 1 ELSE njudged
     /\ naccepted' = IF o.r = "ok" THEN naccepted + 1 ELSE naccepted
     /\ Note(df, bad, "deliver_msg", o.e)
     /\ UNCHANGED <<tick, ssnaps, sfree, sdelta, acks, ag, ptick, run>>

ClientAck(ev) ==
  /\ acks' = Append(acks, rack)
  /\ Note(IF ev.out.ack # rack THEN {"ack"} ELSE {}, IF ev.out.ack # pack THEN {"client-ack-not-ack-tick"} ELSE {}, "client_ack", "")
  /\ UNCHANGED <<tick, ssnaps, sfree, sdelta, rprev, rcur, rparts, rsnaps, rack, msgs, ag, pnet, pack, ptick, run, njudged, naccepted>>

DeliverAck(ev) ==
  LET inspec == ev.i \in 1..Len(acks)
      s == SenderAck(ssnaps, sfree, acks[ev.i])
      o == ev.out
      df == IF ~inspec THEN {"index"} ELSE {f \in {"r", "dt"} : [r |-> s.r, dt |-> s.dtick][f] # o[f]}
      bad == IF o.r \notin {"ok", "UnknownSnap", "skip"} THEN {"sender-" \o o.r} ELSE {}
  IN /\ IF inspec
        THEN /\ acks' = IF ev.keep THEN acks ELSE RemoveAt(acks, ev.i)
             /\ ssnaps' = s.snaps /\ sfree' = s.free /\ sdelta' = s.dtick
        ELSE UNCHANGED <<acks, ssnaps, sfree, sdelta>>
     /\ Note(df, bad, "deliver_ack", "")
     /\ UNCHANGED <<tick, rprev, rcur, rparts, rsnaps, rack, msgs, ag, pnet, pack, ptick, run, njudged, naccepted>>

DropMsg(ev) ==
  /\ msgs' = IF ev.i \in 1..Len(msgs) THEN RemoveAt(msgs, ev.i) ELSE msgs
  /\ pnet' = IF ev.i \in 1..Len(pnet) THEN RemoveAt(pnet, ev.i) ELSE pnet
  /\ UNCHANGED <<tick, ssnaps, sfree, sdelta, rprev, rcur, rparts, rsnaps, rack, acks, ag, pack, ptick, run>>
  /\ UNCHANGED cvars

DropAck(ev) ==
  /\ acks' = IF ev.i \in 1..Len(acks) THEN RemoveAt(acks, ev.i) ELSE acks
  /\ UNCHANGED <<tick, ssnaps, sfree, sdelta, rprev, rcur, rparts, rsnaps, rack, msgs, ag, pnet, pack, ptick, run>>
  /\ UNCHANGED cvars

Next ==
  /\ i <= Len(Rec)
  /\ i' = i + 1
  /\ LET ev == Rec[i] IN
       CASE ev.e = "reset" -> Reset(ev)
         [] ev.e = "tick" -> Tick(ev)
         [] ev.e = "deliver_msg" -> DeliverMsg(ev)
         [] ev.e = "client_ack" -> ClientAck(ev)
         [] ev.e = "deliver_ack" -> DeliverAck(ev)
         [] ev.e = "drop_msg" -> DropMsg(ev)
         [] ev.e = "drop_ack" -> DropAck(ev)
         [] OTHER -> UNCHANGED <<tick, ssnaps, sfree, sdelta, rprev, rcur, rparts, rsnaps, rack, msgs, acks, ag,
                                 pnet, pack, ptick, run, drift, viol, ndrift, nviol, njudged, naccepted>>
  /\ (i = Len(Rec) => Report)

Spec == Init /\ [][Next]_vars

Consumed == IF TLCGet("stats").diameter = Len(Rec) + 1 THEN TRUE
            ELSE PrintT(<<"TRACE REJECTED: not all events consumed", TLCGet("stats").diameter, Len(Rec)>>) /\ FALSE
=========================================================================
