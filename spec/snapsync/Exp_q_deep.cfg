SPECIFICATION Spec
CONSTANTS
  Worlds <- WorldsBasic
  Agreed <- AgreedBasic
  MaxTick = 3
  MaxInFlight = 2
  MaxAcks = 1
  MaxFaults = 0
VIEW View
INVARIANTS NewMark TypeOK StoredIsBuilt AckIsStored SenderBaseKnown
PROPERTIES NeverDiverge WholeDelta ShapesOK SenderNeverPanics
ACTION_CONSTRAINT Export
