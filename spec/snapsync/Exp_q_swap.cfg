SPECIFICATION Spec
CONSTANTS
  Worlds <- WorldsSwap
  Agreed <- AgreedBasic
  MaxTick = 2
  MaxInFlight = 4
  MaxAcks = 1
  MaxFaults = 0
VIEW View
INVARIANTS NewMark TypeOK StoredIsBuilt AckIsStored SenderBaseKnown
PROPERTIES NeverDiverge WholeDelta ShapesOK SenderNeverPanics
ACTION_CONSTRAINT Export
