SPECIFICATION Spec
CONSTANTS
  Worlds <- WorldsClash
  Agreed <- AgreedBasic
  MaxTick = 2
  MaxInFlight = 2
  MaxAcks = 1
  MaxFaults = 0
VIEW View
INVARIANTS  TypeOK StoredIsBuilt AckIsStored SenderBaseKnown
PROPERTIES NeverDiverge WholeDelta ShapesOK SenderNeverPanics
