SPECIFICATION Spec
CONSTANTS
  Worlds <- WorldsBasic
  Agreed <- AgreedBasic
  MaxTick = 2
  MaxInFlight = 2
  MaxAcks = 1
  MaxFaults = 1
VIEW View
INVARIANTS  TypeOK StoredIsBuilt AckIsStored SenderBaseKnown
PROPERTIES NeverDiverge WholeDelta ShapesOK SenderNeverPanics
