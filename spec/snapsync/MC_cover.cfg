SPECIFICATION Spec
CONSTANTS
  Worlds <- WorldsBasic
  Agreed <- AgreedBasic
  MaxTick = 2
  MaxInFlight = 3
  MaxAcks = 1
  MaxFaults = 1
VIEW View
INVARIANTS  TypeOK StoredIsBuilt AckIsStored SenderBaseKnown
PROPERTIES NeverDiverge WholeDelta ShapesOK SenderNeverPanics
