SPECIFICATION Spec
CONSTANTS
  Worlds <- WorldsUuid
  Agreed <- AgreedBasic
  MaxTick = 3
  MaxInFlight = 4
  MaxAcks = 2
  MaxFaults = 1
VIEW View
INVARIANTS  TypeOK StoredIsBuilt AckIsStored SenderBaseKnown
PROPERTIES NeverDiverge WholeDelta ShapesOK SenderNeverPanics
