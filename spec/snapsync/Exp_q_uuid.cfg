SPECIFICATION Spec
CONSTANTS
  Worlds <- WorldsUuid
  Agreed <- AgreedBasic
  MaxTick = 2
  MaxInFlight = 3
  MaxAcks = 1
  MaxFaults = 1
VIEW View
INVARIANTS NewMark TypeOK StoredIsBuilt AckIsStored SenderBaseKnown
PROPERTIES NeverDiverge WholeDelta ShapesOK SenderNeverPanics
ACTION_CONSTRAINT Export
