------------------------------- MODULE MCS -------------------------------
(* Constants of the SnapSync configurations. *)
EXTENDS SnapSyncExp

It(rep, d) == [rep |-> rep, d |-> d]
\* world from a set of <<uty, id, item value>>
W(S) == [k \in {<<x[1], x[2]>> : x \in S} |-> (CHOOSE x \in S : <<x[1], x[2]>> = k)[3]]

AgreedBasic == (1 :> 2)

\* type 1: pre-agreed size 2; type 2: explicit size; type 3: 1000 integers (multi-part); UUID type 1
WorldsBasic == <<
  W({}),
  W({<<1, 1, It(1, <<1, 0>>)>>, <<2, 7, It(1, <<5>>)>>}),
  W({<<1, 1, It(1, <<2, 0>>)>>, <<-1, 3, It(1, <<4>>)>>, <<3, 1, It(1000, <<1>>)>>, <<2, 9, It(1, <<>>)>>}),
  W({<<2, 7, It(1, <<0>>)>>, <<2, 8, It(1, <<0>>)>>, <<-1, 3, It(1, <<6>>)>>}) >>

\* two UUID types of equal item length whose numbering depends on the builder that is recycled;
\* a 3-part item; a zero-valued item (weak checksum)
WorldsUuid == <<
  W({<<-2, 1, It(1, <<7>>)>>}),
  W({<<-1, 1, It(1, <<3>>)>>, <<-2, 1, It(1, <<8>>)>>, <<2, 1, It(1, <<0>>)>>}),
  W({<<-1, 1, It(1, <<3>>)>>, <<3, 1, It(1900, <<2>>)>>}) >>

\* Checksum-neutral changes inside the first part of a two-part snapshot (the checksum is the sum of all
\* integers): two items swap a value (A -> B), a value moves to another field of one item (A -> C), an
\* all-zero item and a zero-length item appear (A -> D); the 1000-integer item behind them never changes, so the
\* second part is the same in all four.  Delivering part 0 of one tick and part 1 of the next must never
\* be accepted as the later tick.
WorldsSwap == <<
  W({<<1, 1, It(1, <<1, 0>>)>>, <<2, 0, It(1, <<1>>)>>, <<2, 1, It(1, <<2>>)>>, <<3, 1, It(1000, <<1>>)>>}),
  W({<<1, 1, It(1, <<1, 0>>)>>, <<2, 0, It(1, <<2>>)>>, <<2, 1, It(1, <<1>>)>>, <<3, 1, It(1000, <<1>>)>>}),
  W({<<1, 1, It(1, <<0, 1>>)>>, <<2, 0, It(1, <<1>>)>>, <<2, 1, It(1, <<2>>)>>, <<3, 1, It(1000, <<1>>)>>}),
  W({<<1, 1, It(1, <<1, 0>>)>>, <<2, 0, It(1, <<1>>)>>, <<2, 1, It(1, <<2>>)>>, <<2, 2, It(1, <<0>>)>>,
     <<2, 3, It(1, <<>>)>>, <<-1, 0, It(1, <<0>>)>>, <<3, 1, It(1000, <<1>>)>>}) >>

\* Small (single-message) worlds of equal checksum: values swap between two items, a value moves between the
\* fields of one item.  With two acknowledgements in flight (reordered, duplicated) a sender that announces
\* another base than the one it diffs against, or a receiver that applies a delta to another snapshot than
\* the named base, is not stopped by the checksum.
WorldsNeutral == <<
  W({<<1, 1, It(1, <<1, 0>>)>>, <<2, 0, It(1, <<1>>)>>, <<2, 1, It(1, <<2>>)>>}),
  W({<<1, 1, It(1, <<1, 0>>)>>, <<2, 0, It(1, <<2>>)>>, <<2, 1, It(1, <<1>>)>>}),
  W({<<1, 1, It(1, <<0, 1>>)>>, <<2, 0, It(1, <<1>>)>>, <<2, 1, It(1, <<2>>)>>}) >>

\* UUID types with different item lengths: the renumbering makes one raw key change its length
WorldsClash == <<
  W({<<-2, 1, It(1, <<7, 7>>)>>}),
  W({<<-1, 1, It(1, <<3>>)>>, <<-2, 1, It(1, <<8, 8>>)>>}) >>
=========================================================================
