SPECIFICATION Spec
POSTCONDITION Consumed
