---- MODULE MCS_TTrace_1790218505 ----
EXTENDS Sequences, TLCExt, Toolbox, Naturals, TLC, MCS

_expression ==
    LET MCS_TEExpression == INSTANCE MCS_TEExpression
    IN MCS_TEExpression!expression
----

_trace ==
    LET MCS_TETrace == INSTANCE MCS_TETrace
    IN MCS_TETrace!trace
----

_inv ==
    ~(
        TLCGet("level") = Len(_TETrace)
        /\
        msgs = (<<>>)
        /\
        rack = (1)
        /\
        acks = (<<>>)
        /\
        rsnaps = (<<[tick |-> 1, raw |-> (<<0, 16384>> :> [rep |-> 1, d |-> <<1, 2, 3, 4>>] @@ <<0, 16385>> :> [rep |-> 1, d |-> <<2, 4, 6, 8>>] @@ <<16384, 1>> :> [rep |-> 1, d |-> <<3>>] @@ <<16385, 1>> :> [rep |-> 1, d |-> <<8, 8>>])]>>)
        /\
        sdelta = (1)
        /\
        tick = (2)
        /\
        faults = (0)
        /\
        rparts = (<<>>)
        /\
        out = ([dt |-> 1, n |-> 0, crc |-> 0, r |-> "panic", len |-> 0, shape |-> TRUE])
        /\
        act = ([i |-> 0, a |-> "tick", w |-> 1, keep |-> FALSE])
        /\
        ssnaps = (<<[tick |-> 2, reg |-> <<2>>, world |-> (<<-2, 1>> :> [rep |-> 1, d |-> <<7, 7>>])], [tick |-> 1, reg |-> <<1, 2>>, world |-> (<<-2, 1>> :> [rep |-> 1, d |-> <<8, 8>>] @@ <<-1, 1>> :> [rep |-> 1, d |-> <<3>>])]>>)
        /\
        sfree = (<<>>)
        /\
        rcur = (<<>>)
        /\
        rprev = (<<1>>)
    )
----

_init ==
    /\ sdelta = _TETrace[1].sdelta
    /\ msgs = _TETrace[1].msgs
    /\ acks = _TETrace[1].acks
    /\ rprev = _TETrace[1].rprev
    /\ tick = _TETrace[1].tick
    /\ faults = _TETrace[1].faults
    /\ rack = _TETrace[1].rack
    /\ rsnaps = _TETrace[1].rsnaps
    /\ act = _TETrace[1].act
    /\ ssnaps = _TETrace[1].ssnaps
    /\ sfree = _TETrace[1].sfree
    /\ rcur = _TETrace[1].rcur
    /\ rparts = _TETrace[1].rparts
    /\ out = _TETrace[1].out
----

_next ==
    /\ \E i,j \in DOMAIN _TETrace:
        /\ \/ /\ j = i + 1
              /\ i = TLCGet("level")
        /\ sdelta  = _TETrace[i].sdelta
        /\ sdelta' = _TETrace[j].sdelta
        /\ msgs  = _TETrace[i].msgs
        /\ msgs' = _TETrace[j].msgs
        /\ acks  = _TETrace[i].acks
        /\ acks' = _TETrace[j].acks
        /\ rprev  = _TETrace[i].rprev
        /\ rprev' = _TETrace[j].rprev
        /\ tick  = _TETrace[i].tick
        /\ tick' = _TETrace[j].tick
        /\ faults  = _TETrace[i].faults
        /\ faults' = _TETrace[j].faults
        /\ rack  = _TETrace[i].rack
        /\ rack' = _TETrace[j].rack
        /\ rsnaps  = _TETrace[i].rsnaps
        /\ rsnaps' = _TETrace[j].rsnaps
        /\ act  = _TETrace[i].act
        /\ act' = _TETrace[j].act
        /\ ssnaps  = _TETrace[i].ssnaps
        /\ ssnaps' = _TETrace[j].ssnaps
        /\ sfree  = _TETrace[i].sfree
        /\ sfree' = _TETrace[j].sfree
        /\ rcur  = _TETrace[i].rcur
        /\ rcur' = _TETrace[j].rcur
        /\ rparts  = _TETrace[i].rparts
        /\ rparts' = _TETrace[j].rparts
        /\ out  = _TETrace[i].out
        /\ out' = _TETrace[j].out

\* Uncomment the ASSUME below to write the states of the error trace
\* to the given file in Json format. Note that you can pass any tuple
\* to `JsonSerialize`. For example, a sub-sequence of _TETrace.
    \* ASSUME
    \*     LET J == INSTANCE Json
    \*         IN J!JsonSerialize("MCS_TTrace_1790218505.json", _TETrace)

=============================================================================

 Note that you can extract this module `MCS_TEExpression`
  to a dedicated file to reuse `expression` (the module in the 
  dedicated `MCS_TEExpression.tla` file takes precedence 
  over the module `MCS_TEExpression` below).

---- MODULE MCS_TEExpression ----
EXTENDS Sequences, TLCExt, Toolbox, Naturals, TLC, MCS

expression == 
    [
        \* To hide variables of the `MCS` spec from the error trace,
        \* remove the variables below.  The trace will be written in the order
        \* of the fields of this record.
        sdelta |-> sdelta
        ,msgs |-> msgs
        ,acks |-> acks
        ,rprev |-> rprev
        ,tick |-> tick
        ,faults |-> faults
        ,rack |-> rack
        ,rsnaps |-> rsnaps
        ,act |-> act
        ,ssnaps |-> ssnaps
        ,sfree |-> sfree
        ,rcur |-> rcur
        ,rparts |-> rparts
        ,out |-> out
        
        \* Put additional constant-, state-, and action-level expressions here:
        \* ,_stateNumber |-> _TEPosition
        \* ,_sdeltaUnchanged |-> sdelta = sdelta'
        
        \* Format the `sdelta` variable as Json value.
        \* ,_sdeltaJson |->
        \*     LET J == INSTANCE Json
        \*     IN J!ToJson(sdelta)
        
        \* Lastly, you may build expressions over arbitrary sets of states by
        \* leveraging the _TETrace operator.  For example, this is how to
        \* count the number of times a spec variable changed up to the current
        \* state in the trace.
        \* ,_sdeltaModCount |->
        \*     LET F[s \in DOMAIN _TETrace] ==
        \*         IF s = 1 THEN 0
        \*         ELSE IF _TETrace[s].sdelta # _TETrace[s-1].sdelta
        \*             THEN 1 + F[s-1] ELSE F[s-1]
        \*     IN F[_TEPosition - 1]
    ]

=============================================================================



Parsing and semantic processing can take forever if the trace below is long.
 In this case, it is advised to uncomment the module below to deserialize the
 trace from a generated binary file.

\*
\*---- MODULE MCS_TETrace ----
\*EXTENDS IOUtils, TLC, MCS
\*
\*trace == IODeserialize("MCS_TTrace_1790218505.bin", TRUE)
\*
\*=============================================================================
\*

---- MODULE MCS_TETrace ----
EXTENDS TLC, MCS

trace == 
    <<
    ([msgs |-> <<>>,rack |-> -1,acks |-> <<>>,rsnaps |-> <<>>,sdelta |-> -1,tick |-> 0,faults |-> 0,rparts |-> <<>>,out |-> [r |-> "init"],act |-> [a |-> "init"],ssnaps |-> <<>>,sfree |-> <<>>,rcur |-> <<>>,rprev |-> <<>>]),
    ([msgs |-> <<[d |-> [del |-> {}, upd |-> (<<0, 16384>> :> [rep |-> 1, d |-> <<1, 2, 3, 4>>] @@ <<0, 16385>> :> [rep |-> 1, d |-> <<2, 4, 6, 8>>] @@ <<16384, 1>> :> [rep |-> 1, d |-> <<3>>] @@ <<16385, 1>> :> [rep |-> 1, d |-> <<8, 8>>])], k |-> "single", t |-> 1, dt |-> 2, n |-> 1, i |-> 0, crc |-> 49, lo |-> 0, hi |-> 34, w |-> (<<-2, 1>> :> [rep |-> 1, d |-> <<8, 8>>] @@ <<-1, 1>> :> [rep |-> 1, d |-> <<3>>]), tr |-> 1]>>,rack |-> -1,acks |-> <<>>,rsnaps |-> <<>>,sdelta |-> -1,tick |-> 1,faults |-> 0,rparts |-> <<>>,out |-> [dt |-> -1, n |-> 1, crc |-> 49, r |-> "ok", len |-> 34, shape |-> TRUE],act |-> [i |-> 0, a |-> "tick", w |-> 2, keep |-> FALSE],ssnaps |-> <<[tick |-> 1, reg |-> <<1, 2>>, world |-> (<<-2, 1>> :> [rep |-> 1, d |-> <<8, 8>>] @@ <<-1, 1>> :> [rep |-> 1, d |-> <<3>>])]>>,sfree |-> <<>>,rcur |-> <<>>,rprev |-> <<>>]),
    ([msgs |-> <<>>,rack |-> 1,acks |-> <<>>,rsnaps |-> <<[tick |-> 1, raw |-> (<<0, 16384>> :> [rep |-> 1, d |-> <<1, 2, 3, 4>>] @@ <<0, 16385>> :> [rep |-> 1, d |-> <<2, 4, 6, 8>>] @@ <<16384, 1>> :> [rep |-> 1, d |-> <<3>>] @@ <<16385, 1>> :> [rep |-> 1, d |-> <<8, 8>>])]>>,sdelta |-> -1,tick |-> 1,faults |-> 0,rparts |-> <<>>,out |-> [r |-> "ok", e |-> "", ack |-> 1, view |-> (<<-2, 1>> :> [rep |-> 1, d |-> <<8, 8>>] @@ <<-1, 1>> :> [rep |-> 1, d |-> <<3>>]), w |-> {}],act |-> [i |-> 1, a |-> "deliver_msg", w |-> 0, keep |-> FALSE],ssnaps |-> <<[tick |-> 1, reg |-> <<1, 2>>, world |-> (<<-2, 1>> :> [rep |-> 1, d |-> <<8, 8>>] @@ <<-1, 1>> :> [rep |-> 1, d |-> <<3>>])]>>,sfree |-> <<>>,rcur |-> <<>>,rprev |-> <<1>>]),
    ([msgs |-> <<>>,rack |-> 1,acks |-> <<1>>,rsnaps |-> <<[tick |-> 1, raw |-> (<<0, 16384>> :> [rep |-> 1, d |-> <<1, 2, 3, 4>>] @@ <<0, 16385>> :> [rep |-> 1, d |-> <<2, 4, 6, 8>>] @@ <<16384, 1>> :> [rep |-> 1, d |-> <<3>>] @@ <<16385, 1>> :> [rep |-> 1, d |-> <<8, 8>>])]>>,sdelta |-> -1,tick |-> 1,faults |-> 0,rparts |-> <<>>,out |-> [r |-> "ok", ack |-> 1],act |-> [i |-> 0, a |-> "client_ack", w |-> 0, keep |-> FALSE],ssnaps |-> <<[tick |-> 1, reg |-> <<1, 2>>, world |-> (<<-2, 1>> :> [rep |-> 1, d |-> <<8, 8>>] @@ <<-1, 1>> :> [rep |-> 1, d |-> <<3>>])]>>,sfree |-> <<>>,rcur |-> <<>>,rprev |-> <<1>>]),
    ([msgs |-> <<>>,rack |-> 1,acks |-> <<>>,rsnaps |-> <<[tick |-> 1, raw |-> (<<0, 16384>> :> [rep |-> 1, d |-> <<1, 2, 3, 4>>] @@ <<0, 16385>> :> [rep |-> 1, d |-> <<2, 4, 6, 8>>] @@ <<16384, 1>> :> [rep |-> 1, d |-> <<3>>] @@ <<16385, 1>> :> [rep |-> 1, d |-> <<8, 8>>])]>>,sdelta |-> 1,tick |-> 1,faults |-> 0,rparts |-> <<>>,out |-> [dt |-> 1, r |-> "ok"],act |-> [i |-> 1, a |-> "deliver_ack", w |-> 0, keep |-> FALSE],ssnaps |-> <<[tick |-> 1, reg |-> <<1, 2>>, world |-> (<<-2, 1>> :> [rep |-> 1, d |-> <<8, 8>>] @@ <<-1, 1>> :> [rep |-> 1, d |-> <<3>>])]>>,sfree |-> <<>>,rcur |-> <<>>,rprev |-> <<1>>]),
    ([msgs |-> <<>>,rack |-> 1,acks |-> <<>>,rsnaps |-> <<[tick |-> 1, raw |-> (<<0, 16384>> :> [rep |-> 1, d |-> <<1, 2, 3, 4>>] @@ <<0, 16385>> :> [rep |-> 1, d |-> <<2, 4, 6, 8>>] @@ <<16384, 1>> :> [rep |-> 1, d |-> <<3>>] @@ <<16385, 1>> :> [rep |-> 1, d |-> <<8, 8>>])]>>,sdelta |-> 1,tick |-> 2,faults |-> 0,rparts |-> <<>>,out |-> [dt |-> 1, n |-> 0, crc |-> 0, r |-> "panic", len |-> 0, shape |-> TRUE],act |-> [i |-> 0, a |-> "tick", w |-> 1, keep |-> FALSE],ssnaps |-> <<[tick |-> 2, reg |-> <<2>>, world |-> (<<-2, 1>> :> [rep |-> 1, d |-> <<7, 7>>])], [tick |-> 1, reg |-> <<1, 2>>, world |-> (<<-2, 1>> :> [rep |-> 1, d |-> <<8, 8>>] @@ <<-1, 1>> :> [rep |-> 1, d |-> <<3>>])]>>,sfree |-> <<>>,rcur |-> <<>>,rprev |-> <<1>>])
    >>
----


=============================================================================

---- CONFIG MCS_TTrace_1790218505 ----
CONSTANTS
    Worlds <- WorldsClash
    Agreed <- AgreedBasic
    MaxTick = 2
    MaxInFlight = 2
    MaxAcks = 1
    MaxFaults = 0

INVARIANT
    _inv

CHECK_DEADLOCK
    \* CHECK_DEADLOCK off because of PROPERTY or INVARIANT above.
    FALSE

INIT
    _init

NEXT
    _next

CONSTANT
    _TETrace <- _trace

ALIAS
    _expression
=============================================================================
\* Generated on Thu Sep 24 02:55:21 UTC 2026