SPECIFICATION Spec
CONSTANTS
  Worlds <- WorldsNeutral
  Agreed <- AgreedBasic
  MaxTick = 3
  MaxInFlight = 1
  MaxAcks = 2
  MaxFaults = 0
VIEW View
INVARIANTS NewMark TypeOK StoredIsBuilt AckIsStored SenderBaseKnown
PROPERTIES NeverDiverge WholeDelta ShapesOK SenderNeverPanics
ACTION_CONSTRAINT Export
