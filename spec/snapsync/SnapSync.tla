----------------------------- MODULE SnapSync -----------------------------
(* Property C13: sender `Storage`, lossy/duplicating/reordering snapshot and
   acknowledgement paths, receiver `Manager` (= multi-part reassembly of
   SnapRecvOps + receiver `Storage`).  Operators in SnapSyncOps.

   Every server tick picks one of the constant `Worlds`, builds the snapshot
   through the recycled builder, diffs it against the acknowledged snapshot (or
   the empty one), writes the delta and cuts it into snapshot messages. *)
EXTENDS SnapSyncOps

CONSTANTS Worlds,        \* sequence of worlds the server may be in
          Agreed,        \* function raw type -> pre-agreed real item size (object_size)
          MaxTick, MaxInFlight, MaxAcks, MaxFaults

VARIABLES tick, ssnaps, sfree, sdelta,            \* sender: clock, stored snapshots, recycled registries, delta tick
          rprev, rcur, rparts, rsnaps, rack,      \* receiver: DeltaReceiver state, stored snapshots, ack tick
          msgs, acks, faults,                     \* messages / acknowledgements in flight, fault budget used
          act, out

svars == <<tick, ssnaps, sfree, sdelta>>
rvars == <<rprev, rcur, rparts, rsnaps, rack>>
vars == <<tick, ssnaps, sfree, sdelta, rprev, rcur, rparts, rsnaps, rack, msgs, acks, faults, act, out>>

RState == [prev |-> rprev, cur |-> rcur, parts |-> rparts, snaps |-> rsnaps, ack |-> rack]

Init == /\ tick = 0 /\ ssnaps = <<>> /\ sfree = <<>> /\ sdelta = -1
        /\ rprev = <<>> /\ rcur = <<>> /\ rparts = NoParts /\ rsnaps = <<>> /\ rack = -1
        /\ msgs = <<>> /\ acks = <<>> /\ faults = 0
        /\ act = [a |-> "init"] /\ out = [r |-> "init"]

ServerTick(wi) ==
  LET t == tick + 1
      s == SenderTick(ssnaps, sfree, sdelta, t, Worlds[wi], Agreed)
  IN /\ tick < MaxTick
     /\ Len(msgs) + Len(s.msgs) <= MaxInFlight
     /\ tick' = t /\ ssnaps' = s.snaps /\ sfree' = s.free
     /\ msgs' = msgs \o s.msgs
     /\ act' = [a |-> "tick", w |-> wi, i |-> 0, keep |-> FALSE]
     /\ out' = [r |-> s.r, n |-> Len(s.msgs), crc |-> s.crc, len |-> s.len, dt |-> sdelta, shape |-> s.shape]
     /\ UNCHANGED <<sdelta, rprev, rcur, rparts, rsnaps, rack, acks, faults>>

DeliverMsg(i, keep) ==
  LET m == msgs[i]
      r == ManagerStep(RState, m)
  IN /\ (keep => faults < MaxFaults)
     /\ faults' = IF keep THEN faults + 1 ELSE faults
     /\ msgs' = IF keep THEN msgs ELSE RemoveAt(msgs, i)
     /\ rprev' = r.prev /\ rcur' = r.cur /\ rparts' = r.parts /\ rsnaps' = r.snaps /\ rack' = r.ack
     /\ act' = [a |-> "deliver_msg", w |-> 0, i |-> i, keep |-> keep]
     /\ out' = r.out
     /\ UNCHANGED <<tick, ssnaps, sfree, sdelta, acks>>

ClientAck ==
  /\ Len(acks) < MaxAcks
  /\ acks' = Append(acks, rack)
  /\ act' = [a |-> "client_ack", w |-> 0, i |-> 0, keep |-> FALSE] /\ out' = [r |-> "ok", ack |-> rack]
  /\ UNCHANGED <<tick, ssnaps, sfree, sdelta, rprev, rcur, rparts, rsnaps, rack, msgs, faults>>

DeliverAck(i, keep) ==
  LET s == SenderAck(ssnaps, sfree, acks[i]) IN
  /\ (keep => faults < MaxFaults)
  /\ faults' = IF keep THEN faults + 1 ELSE faults
  /\ acks' = IF keep THEN acks ELSE RemoveAt(acks, i)
  /\ ssnaps' = s.snaps /\ sfree' = s.free /\ sdelta' = s.dtick
  /\ act' = [a |-> "deliver_ack", w |-> 0, i |-> i, keep |-> keep] /\ out' = [r |-> s.r, dt |-> s.dtick]
  /\ UNCHANGED <<tick, rprev, rcur, rparts, rsnaps, rack, msgs>>

DropMsg(i) ==
  /\ faults < MaxFaults /\ faults' = faults + 1
  /\ msgs' = RemoveAt(msgs, i)
  /\ act' = [a |-> "drop_msg", w |-> 0, i |-> i, keep |-> FALSE] /\ out' = [r |-> "ok"]
  /\ UNCHANGED <<tick, ssnaps, sfree, sdelta, rprev, rcur, rparts, rsnaps, rack, acks>>

DropAck(i) ==
  /\ faults < MaxFaults /\ faults' = faults + 1
  /\ acks' = RemoveAt(acks, i)
  /\ act' = [a |-> "drop_ack", w |-> 0, i |-> i, keep |-> FALSE] /\ out' = [r |-> "ok"]
  /\ UNCHANGED <<tick, ssnaps, sfree, sdelta, rprev, rcur, rparts, rsnaps, rack, msgs>>

Next == \/ \E wi \in 1..Len(Worlds) : ServerTick(wi)
        \/ \E i \in 1..Len(msgs) : DeliverMsg(i, FALSE) \/ DeliverMsg(i, TRUE) \/ DropMsg(i)
        \/ ClientAck
        \/ \E i \in 1..Len(acks) : DeliverAck(i, FALSE) \/ DeliverAck(i, TRUE) \/ DropAck(i)

Spec == Init /\ [][Next]_vars

------------------------------------------------------------------------
(* Properties.  `act`/`out` are outside the VIEW: everything about an output is an
   action property (evaluated on every generated transition). *)

\* C13 on the model, through the same judge that is applied to the real code's traces
NeverDiverge ==
  [][act'.a = "deliver_msg" =>
        LET m == msgs[act'.i] IN JudgeDeliver(m.w, m.t, rack, out') = {}]_vars

\* "neither side panics as long as the sender follows the storage API"
SenderNeverPanics == [][act'.a = "tick" => out'.r = "ok"]_vars

\* whatever the receiver stores for a tick is the snapshot the sender built for it
StoredIsBuilt ==
  \A k \in 1..Len(rsnaps) : \A j \in 1..Len(ssnaps) :
     rsnaps[k].tick = ssnaps[j].tick => rsnaps[k].raw = RawOf(ssnaps[j].reg, ssnaps[j].world)

AckIsStored == rack # -1 => (rsnaps # <<>> /\ rsnaps[1].tick = rack)
SenderBaseKnown == sdelta # -1 => BackIs(ssnaps, sdelta)
\* the reassembled data is always the complete delta of one tick (so using m.d is justified)
WholeDelta == [][(act'.a = "deliver_msg" /\ out'.r \in {"ok"}) => rcur' = <<>>]_vars
\* model assumption on the worlds: equal real length => equal shape
ShapesOK == [][act'.a = "tick" => out'.shape]_vars

TypeOK == /\ tick \in 0..MaxTick /\ Len(msgs) <= MaxInFlight /\ Len(acks) <= MaxAcks /\ faults \in 0..MaxFaults
          /\ \A k \in 1..(Len(ssnaps) - 1) : ssnaps[k].tick > ssnaps[k + 1].tick
          /\ \A k \in 1..(Len(rsnaps) - 1) : rsnaps[k].tick > rsnaps[k + 1].tick

View == <<tick, ssnaps, sfree, sdelta, rprev, rcur, rparts, rsnaps, rack, msgs, acks, faults>>
=========================================================================
