SPECIFICATION Spec
CONSTANTS
  Worlds <- WorldsBasic
  Agreed <- AgreedBasic
  MaxTick = 3
  MaxInFlight = 2
  MaxAcks = 2
  MaxFaults = 1
VIEW View
INVARIANTS NewMark TypeOK StoredIsBuilt AckIsStored SenderBaseKnown
PROPERTIES NeverDiverge WholeDelta ShapesOK SenderNeverPanics
ACTION_CONSTRAINT Export
