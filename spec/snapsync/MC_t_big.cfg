SPECIFICATION Spec
CONSTANTS
  Worlds <- WorldsBasic
  Agreed <- AgreedBasic
  MaxTick = 3
  MaxInFlight = 4
  MaxAcks = 2
  MaxFaults = 2
VIEW View
INVARIANTS  TypeOK StoredIsBuilt AckIsStored SenderBaseKnown
PROPERTIES NeverDiverge WholeDelta ShapesOK SenderNeverPanics
