--------------------------- MODULE SnapSyncExp ---------------------------
(* Export of every generated transition of SnapSync for direction A
   (ACTION_CONSTRAINT Export, -workers 1, piped into `vh-snapproto sync-replay`).

   <<"C", constants>>                 once: worlds (as item lists), pre-agreed sizes
   <<"S", tick, #msgs, #acks, ack>>   whenever the source state changes
   <<"T", act, out>>                  one per generated transition; `out` in JSON
   <<"N">>                            the target of the preceding "T" (or the initial state) is new   *)
EXTENDS SnapSync, Json, TLCExt

\* a function <<ty, id>> -> item value as a list of items (tuple-keyed functions have no JSON form)
ItemsOf(f) == SetToSeq({[ty |-> k[1], id |-> k[2], rep |-> f[k].rep, d |-> f[k].d] : k \in DOMAIN f})
MsgFields(m) == [k |-> m.k, t |-> m.t, dt |-> m.dt, n |-> m.n, i |-> m.i, crc |-> m.crc, lo |-> m.lo, hi |-> m.hi]

St == <<tick, ssnaps, sfree, sdelta, rprev, rcur, rparts, rsnaps, rack, msgs, acks, faults>>

OutJson ==
  IF act'.a = "tick"
  THEN [r |-> out'.r, n |-> out'.n, crc |-> out'.crc, len |-> out'.len, dt |-> out'.dt,
        msgs |-> [j \in 1..out'.n |-> MsgFields(msgs'[Len(msgs) + j])]]
  ELSE IF act'.a = "deliver_msg"
  THEN [r |-> out'.r, e |-> out'.e, ack |-> out'.ack, view |-> ItemsOf(out'.view), w |-> out'.w, t |-> msgs[act'.i].t, lk |-> TRUE]
  ELSE IF act'.a = "deliver_ack" THEN [r |-> out'.r, dt |-> out'.dt]
  ELSE IF act'.a = "client_ack" THEN [r |-> out'.r, ack |-> out'.ack]
  ELSE [r |-> out'.r]

(* No state is printed.  With one worker TLC explores breadth-first: source states are
   expanded in the order of their first discovery, the ACTION_CONSTRAINT is evaluated for
   every generated successor, and the invariant NewMark only for successors that are new
   (directly after their "T" line).  The harness therefore files the real system it obtained
   for a transition under the next queue position when it reads "N", and takes the next
   system from the queue when it reads "S" (which carries a few observables as a cross-check). *)
Export == /\ IF TLCGet(1) # St THEN PrintT(<<"S", tick, Len(msgs), Len(acks), rack>>) /\ TLCSet(1, St) ELSE TRUE
          /\ PrintT(<<"T", ToJson(act'), ToJson(OutJson)>>)
NewMark == tick >= 0 /\ PrintT(<<"N">>)

ASSUME TLCSet(1, <<>>)
ASSUME PrintT(<<"C", ToJson([worlds |-> [k \in 1..Len(Worlds) |-> ItemsOf(Worlds[k])],
                             agreed |-> SetToSeq({[ty |-> ty, size |-> Agreed[ty]] : ty \in DOMAIN Agreed}),
                             maxtick |-> MaxTick])>>)
=========================================================================
