------------------------------- MODULE SrvInfo -------------------------------
(* Multi-part server infos (C18): PartialServerInfo::merge / get_info / take_info.

   An *instance* is everything the application may be fed in one run:
     inst = [parts |-> <<part>>, rec |-> [client id -> record id], wf |-> the well-formed servers]
     part = [srv   |-> the server (request) the datagram belongs to,
             v     |-> "v664" | "v6ex",      tok |-> the token it carries,
             main  |-> it carries the header (6_64: always; 6ex: the "iext" packet),
             n     |-> the number of clients its header announces,
             off   |-> 6_64: the offset field; 6ex: the packet number (0 for the main packet),
             cl    |-> the client ids of its client records, in wire order]
   A 6_64 client record in slot s = off + k - 1 sets mask bit s; records in slots >= 64 are
   dropped; a 6ex packet sets the bit of its packet number.  Client id c stands for the record
   inst.rec[c] (KeyOf): *different clients may carry equal records* and are then listed with
   their multiplicity.  The parts of a server are *well formed* (WellFormed) when they are what
   one server sends for one request: same version and token, disjoint slots / packet numbers and
   clients, every header announcing the number of clients there are.  Everything else (foreign
   tokens and versions, parts of another server with the same token, overlapping or out-of-range
   slots, repeated packet numbers, two main packets, empty "more" packets) is modelled at the
   detailed level only: the property (C18) speaks about the parts of one info.

   A *partial* is [tok, ver, hdr, rcv, cls, got, taken]: token and version of its info, the part
   whose header it carries (0: none - a "more" packet that has not met its main packet; the
   announced number is then 0), the received mask as the code keeps it, the **bag** of collected
   clients, the history variable `got` (set of parts merged - property level), and whether
   take_info emptied it.

   Detailed level: Merge is serverbrowse/src/protocol.rs `merge`, statement by statement
   (token / version / multi-part checks, `have` / `overlap` / `extend`, the 6ex `mem::swap`); an
   error leaves the partial as it was.  With MaskUpdated = FALSE it is the pinned code, which
   never ORs `other.received` into `self.received`; the steps where that matters are exactly
   MergeRepeated_KnownBug (finding F1).  With MaskUpdated = TRUE that action is never enabled.

   Property level (what the user relies on): for partials made of parts of one well-formed
   server (Pure) the observable result of any sequence and any bracketing of merges is a function
   of the *set* of parts merged: complete iff the header and every announced client were
   received, and then every client is listed once - as records with multiplicity, in the
   canonical order (CanonSeq). *)
EXTENDS Integers, Sequences, FiniteSets, TLC, Functions, SequencesExt

CONSTANT MaskUpdated

\* ---------------------------------------------------------------- bags
EmptyB == <<>>
BagOf(set) == [c \in set |-> 1]
BagAdd(a, b) == [c \in (DOMAIN a) \cup (DOMAIN b) |->
                   (IF c \in DOMAIN a THEN a[c] ELSE 0) + (IF c \in DOMAIN b THEN b[c] ELSE 0)]
BagSize(a) == FoldFunction(LAMBDA x, y : x + y, 0, a)
BagOfSeq(s) == FoldLeft(LAMBDA acc, x : BagAdd(acc, BagOf({x})), EmptyB, s)
\* the bag of f[c] for c in bag
BagMap(f, bag) == FoldLeft(LAMBDA acc, c : BagAdd(acc, (f[c] :> bag[c])), EmptyB, SetToSeq(DOMAIN bag))

\* ---------------------------------------------------------------- parsing a part
Multi == {"v664", "v6ex"}
KeptIdx(part) == IF part.v = "v664" THEN {k \in 1..Len(part.cl) : part.off + k - 1 <= 63} ELSE 1..Len(part.cl)
Bits(part) == IF part.v = "v664" THEN {part.off + k - 1 : k \in KeptIdx(part)} ELSE {part.off}
KeptSeq(part) == [k \in 1..Cardinality(KeptIdx(part)) |-> part.cl[k]]
\* does Info*Response::parse accept the datagram of the part ("count sanity check": at most 64 clients
\* announced in a 6_64 header; offset >= 0; packet number 1..63)
Parses(part) == IF part.v = "v664" THEN part.off >= 0 /\ part.n >= 0 /\ part.n <= 64
                ELSE IF part.main THEN part.n >= 0 ELSE part.off >= 1 /\ part.off <= 63
ParsePart(inst, p) ==
  LET part == inst.parts[p] IN
  [tok |-> part.tok, ver |-> part.v, hdr |-> IF part.main THEN p ELSE 0, rcv |-> Bits(part),
   cls |-> BagOfSeq(KeptSeq(part)), got |-> {p}, taken |-> FALSE]
\* what take_info leaves behind: a default info (token 0, version 0.5) with every bit set
Spent == [tok |-> 0, ver |-> "v5", hdr |-> 0, rcv |-> 0..63, cls |-> EmptyB, got |-> {}, taken |-> TRUE]

\* ---------------------------------------------------------------- merge, as the code does it
\* which branch of `merge` is taken
Branch(self, other) ==
  IF self.tok # other.tok THEN "tokens"                       \* Err(DifferingTokens)
  ELSE IF self.ver # other.ver THEN "versions"                \* Err(DifferingVersions)
  ELSE IF self.ver \notin Multi THEN "notmulti"               \* Err(NotMultipartVersion)
  ELSE IF other.rcv \subseteq self.rcv THEN "have"            \* "We already have that server info."
  ELSE IF self.rcv \cap other.rcv # {} THEN "overlap"         \* Err(OverlappingInfos)
  ELSE "extend"
ResOf(br) == IF br \in {"have", "extend"} THEN "ok" ELSE br

Merge(self, other) ==
  LET br == Branch(self, other) IN
  IF br # "extend" THEN self                                  \* an error leaves the partial as it was
  ELSE LET sw == self.ver = "v6ex" /\ 0 \notin self.rcv       \* mem::swap(self, &mut other)
           a == IF sw THEN other ELSE self
           b == IF sw THEN self ELSE other IN
       [tok |-> a.tok, ver |-> a.ver, hdr |-> a.hdr,
        rcv |-> IF MaskUpdated THEN a.rcv \cup b.rcv ELSE a.rcv,
        cls |-> BagAdd(a.cls, b.cls), got |-> a.got \cup b.got, taken |-> FALSE]

\* the mask a partial would have if `merge` kept it up to date
ExactRcv(inst, x) == IF x.taken THEN 0..63 ELSE UNION {Bits(inst.parts[p]) : p \in x.got}
BranchExact(inst, self, other) ==
  Branch([self EXCEPT !.rcv = ExactRcv(inst, self)], [other EXCEPT !.rcv = ExactRcv(inst, other)])
\* the stale mask sends `merge` down another branch than the parts really merged warrant:
\* "extend" instead of "have"/"overlap" (a repeated part is merged again: clients duplicated), or
\* "have"/"overlap" instead of "extend" (a partial whose mask understates its contents is dropped)
StaleMaskMatters(inst, self, other) == Branch(self, other) # BranchExact(inst, self, other)

\* ---------------------------------------------------------------- the clients and their order
\* A client record is what the wire carries: (name, clan, country, score, flags).  Record id r
\* (1..64) stands for the record whose fields are bits of r - 1, so that *every field has
\* duplicates across records* (two names, two clans, ...) while whole records differ:
\*   name = bit 0, clan = bit 1, country = bit 2, score = bit 3 + 2 * bit 5, flags = bit 4.
KeyOf(r) == LET k == r - 1 IN
  <<k % 2, (k \div 2) % 2, (k \div 4) % 2, ((k \div 8) % 2) + 2 * ((k \div 32) % 2), (k \div 16) % 2>>
LexLess(x, y) == \E i \in 1..5 : x[i] < y[i] /\ \A j \in 1..(i - 1) : x[j] = y[j]
\* the result handed out by get_info / take_info is a *sequence of records*: the collected clients'
\* records with their multiplicity in the canonical order (all fields compared, in wire order) -
\* whatever order the parts arrived in
CanonSeq(rbag) ==
  LET ids == SetToSortSeq(DOMAIN rbag, LAMBDA a, b : LexLess(KeyOf(a), KeyOf(b))) IN
  FoldLeft(LAMBDA acc, r : acc \o [j \in 1..rbag[r] |-> r], <<>>, ids)
Records(inst, bag) == CanonSeq(BagMap(inst.rec, bag))

\* get_info: complete iff the number of collected clients equals the announced number
Announced(inst, x) == IF x.hdr = 0 THEN 0 ELSE inst.parts[x.hdr].n
Complete(inst, x) == BagSize(x.cls) = Announced(inst, x)
\* what the caller can observe of a partial
\* (a complete info also shows which server's header it carries and the number that header announces)
HdrSrv(inst, x) == IF x.hdr = 0 THEN 0 ELSE inst.parts[x.hdr].srv
Obs(inst, x) == IF Complete(inst, x)
                THEN [complete |-> TRUE, clients |-> Records(inst, x.cls), srv |-> HdrSrv(inst, x), n |-> Announced(inst, x)]
                ELSE [complete |-> FALSE, clients |-> <<>>, srv |-> 0, n |-> 0]

\* ---------------------------------------------------------------- what the user relies on
PartsOf(inst, s) == {p \in 1..Len(inst.parts) : inst.parts[p].srv = s}
SeqSet(s) == {s[k] : k \in 1..Len(s)}
ClientsOf(inst, got) == UNION {SeqSet(inst.parts[p].cl) : p \in got}
\* the parts of server s are what one server sends for one request
WellFormed(parts, s) ==
  LET P == {p \in 1..Len(parts) : parts[p].srv = s}
      pt(p) == parts[p]
      n == Cardinality(UNION {SeqSet(parts[p].cl) : p \in P}) IN
  /\ P # {}
  /\ \A p \in P, q \in P : pt(p).v = pt(q).v /\ pt(p).tok = pt(q).tok
  /\ \A p \in P : /\ Parses(pt(p)) /\ KeptIdx(pt(p)) = 1..Len(pt(p).cl)
                  /\ Cardinality(SeqSet(pt(p).cl)) = Len(pt(p).cl)
                  /\ (pt(p).main => pt(p).n = n)
                  /\ (pt(p).v = "v664" => pt(p).main)
                  /\ (pt(p).v = "v6ex" => (pt(p).main <=> pt(p).off = 0) /\ (~pt(p).main => Len(pt(p).cl) >= 1))
  /\ \A p \in P, q \in P : p # q => Bits(pt(p)) \cap Bits(pt(q)) = {} /\ SeqSet(pt(p).cl) \cap SeqSet(pt(q).cl) = {}
  /\ \E p \in P : pt(p).main
\* an instance carries the set of its well-formed servers (computed once): inst.wf
MkInst(parts, rec) == [parts |-> parts, rec |-> rec,
                       wf |-> {s \in {parts[p].srv : p \in 1..Len(parts)} : WellFormed(parts, s)}]
\* the property speaks about this partial: parts of one well-formed server and nothing else
SrvsOf(inst, got) == {inst.parts[p].srv : p \in got}
Pure(inst, x) == /\ ~x.taken /\ Cardinality(SrvsOf(inst, x.got)) = 1
                 /\ SrvsOf(inst, x.got) \subseteq inst.wf
SameInfo(inst, x, y) == Pure(inst, x) /\ Pure(inst, y) /\ SrvsOf(inst, x.got) = SrvsOf(inst, y.got)
HeaderIn(inst, got) == \E p \in got : inst.parts[p].main
AllOf(inst, got) == ClientsOf(inst, PartsOf(inst, CHOOSE s \in SrvsOf(inst, got) : TRUE))
PropComplete(inst, got) == HeaderIn(inst, got) /\ ClientsOf(inst, got) = AllOf(inst, got)
PropObs(inst, got) ==
  IF PropComplete(inst, got)
  THEN [complete |-> TRUE, clients |-> Records(inst, BagOf(AllOf(inst, got))),
        srv |-> CHOOSE s \in SrvsOf(inst, got) : TRUE, n |-> Cardinality(AllOf(inst, got))]
  ELSE [complete |-> FALSE, clients |-> <<>>, srv |-> 0, n |-> 0]
\* result of a merge of two partials of the same info: an error is only legal for a genuine partial overlap
PropResultOk(self, other, res) ==
  \/ res = "ok"
  \/ res = "overlap" /\ self.got \cap other.got # {} /\ ~(other.got \subseteq self.got)
PropGot(self, other, res) == IF res = "ok" THEN self.got \cup other.got ELSE self.got

\* ---------------------------------------------------------------- the state machine
\* pool = the partials the application currently holds (a sequence); cnt[p] = how often part p was
\* received; bug counts MergeRepeated_KnownBug steps
VARIABLES inst, pool, cnt, bug, act
vars == <<inst, pool, cnt, bug, act>>

DropAt(s, j) == [k \in 1..(Len(s) - 1) |-> IF k < j THEN s[k] ELSE s[k + 1]]
Total(f) == FoldFunction(LAMBDA x, y : x + y, 0, f)

Receive(p, MaxOps, MaxRep, MaxPool) ==
  /\ Total(cnt) < MaxOps /\ cnt[p] < MaxRep /\ Len(pool) < MaxPool
  /\ pool' = IF Parses(inst.parts[p]) THEN Append(pool, ParsePart(inst, p)) ELSE pool
  /\ cnt' = [cnt EXCEPT ![p] = @ + 1]
  /\ act' = [a |-> "parse", p |-> p, res |-> IF Parses(inst.parts[p]) THEN "ok" ELSE "none"]
  /\ UNCHANGED <<inst, bug>>

MergeStep(i, j, known) ==
  /\ i \in 1..Len(pool) /\ j \in 1..Len(pool) /\ i # j
  /\ known = StaleMaskMatters(inst, pool[i], pool[j])
  /\ LET self == pool[i]
         other == pool[j]
         br == Branch(self, other)
         bx == BranchExact(inst, self, other)
         res == ResOf(br)
         m == Merge(self, other)
         judged == SameInfo(inst, self, other)
         \* the history variable follows the property level, not the code
         m2 == IF judged THEN [m EXCEPT !.got = PropGot(self, other, res)] ELSE m IN
     /\ pool' = DropAt([pool EXCEPT ![i] = m2], j)
     /\ act' = [a |-> "merge", i |-> i, j |-> j, v |-> self.ver, res |-> res, br |-> br, bx |-> bx, known |-> known,
                bugs |-> bug + (IF known THEN 1 ELSE 0), judged |-> judged,
                obs |-> Obs(inst, m2), prop |-> IF judged THEN PropObs(inst, m2.got) ELSE Obs(inst, m2),
                propres |-> judged => PropResultOk(self, other, res)]
  /\ UNCHANGED <<inst, cnt>>

\* the named actions
MergeInto(i, j) == MergeStep(i, j, FALSE) /\ bug' = bug
MergeRepeated_KnownBug(i, j) == MergeStep(i, j, TRUE) /\ bug' = bug + 1

\* take_info: hands out the info iff it is complete and leaves an emptied partial behind
TakeInfo(i) ==
  /\ i \in 1..Len(pool)
  /\ LET x == pool[i] IN
     /\ pool' = IF Complete(inst, x) THEN [pool EXCEPT ![i] = Spent] ELSE pool
     /\ act' = [a |-> "take", i |-> i, v |-> x.ver, obs |-> Obs(inst, x), judged |-> Pure(inst, x),
                prop |-> IF Pure(inst, x) THEN PropObs(inst, x.got) ELSE Obs(inst, x)]
  /\ UNCHANGED <<inst, cnt, bug>>

\* ---------------------------------------------------------------- invariants
\* detailed level, repaired code: the mask says which parts were merged
MaskExact == MaskUpdated => \A k \in 1..Len(pool) : pool[k].rcv = ExactRcv(inst, pool[k])
\* property level, on the partials the property speaks about: no client twice; what is observable
\* is what the set of merged parts says
DuplicateFree == \A k \in 1..Len(pool) : Pure(inst, pool[k]) => \A c \in DOMAIN pool[k].cls : pool[k].cls[c] = 1
CompleteExact == \A k \in 1..Len(pool) : Pure(inst, pool[k]) => Obs(inst, pool[k]) = PropObs(inst, pool[k].got)
LastStepLegal == act.a = "merge" => act.propres
PropertyHolds == DuplicateFree /\ CompleteExact /\ LastStepLegal
\* order-freeness and idempotence, stated directly on every pair of partials of the same info
Commutes == \A i \in 1..Len(pool), j \in 1..Len(pool) : i # j /\ SameInfo(inst, pool[i], pool[j]) =>
   LET a == pool[i]  b == pool[j] IN
   (Branch(a, b) # "overlap" /\ Branch(b, a) # "overlap")
      => Obs(inst, Merge(a, b)) = Obs(inst, Merge(b, a))
Idempotent == \A i \in 1..Len(pool), j \in 1..Len(pool) : i # j /\ SameInfo(inst, pool[i], pool[j]) =>
   LET a == pool[i]  b == pool[j]  ab == Merge(a, b) IN
   Branch(a, b) # "overlap" => Obs(inst, Merge(ab, b)) = Obs(inst, ab)
\* detailed laws about what the property does not speak of: a part with another token or version,
\* and anything merged into an emptied partial, is refused and changes nothing
ForeignInert == \A i \in 1..Len(pool), j \in 1..Len(pool) : i # j =>
   LET a == pool[i]  b == pool[j] IN
   (a.tok # b.tok \/ a.ver # b.ver \/ a.taken) => Merge(a, b) = a /\ ResOf(Branch(a, b)) # "ok"
\* every violation of the property is explained by the known bug (F1) ...
OnlyKnownBug == bug = 0 => PropertyHolds
\* ... which the repaired code does not have
NoBugWhenMaskUpdated == MaskUpdated => bug = 0
=============================================================================
