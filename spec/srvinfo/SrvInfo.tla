------------------------------- MODULE SrvInfo -------------------------------
(* Multi-part server infos (C18): PartialServerInfo::merge / get_info.

   An *instance* is what one server sends for one request:
     inst = [v |-> "v664" | "v6ex", n |-> announced number of clients,
             parts |-> <<[bits, cl, main]>>]   part p contributes the mask bits `bits` (6_64: the
                                              client slots offset..; 6ex: {packet number}),
                                              the clients `cl` (a set of client ids 1..n, the
                                              parts' sets are disjoint) and carries the header
                                              (announced counts) iff `main`.
   A *partial* is [rcv, cls, hdr, got]: the received mask as the code keeps it, the bag of
   collected clients (id -> multiplicity), whether its info carries the header, and — history
   variable, property level — the set of parts that were merged into it.

   Detailed level: Merge is serverbrowse/src/protocol.rs `merge`, statement by statement.
   With MaskUpdated = FALSE it is the pinned code, which never ORs `other.received` into
   `self.received`; the steps where that matters are exactly MergeRepeated_KnownBug (finding
   F1).  With MaskUpdated = TRUE (the repaired code) that action is never enabled.

   Property level (what the user relies on): the observable result of any sequence and any
   bracketing of merges is a function of the *set* of parts merged: complete iff the header
   and every announced client were received, and then every client is listed once, in the
   canonical order (the result is a sequence; see KeyOf / CanonSeq). *)
EXTENDS Integers, Sequences, FiniteSets, TLC, Functions, SequencesExt

CONSTANT MaskUpdated

\* ---------------------------------------------------------------- bags of client ids
EmptyB == <<>>
BagOf(set) == [c \in set |-> 1]
BagAdd(a, b) == [c \in (DOMAIN a) \cup (DOMAIN b) |->
                   (IF c \in DOMAIN a THEN a[c] ELSE 0) + (IF c \in DOMAIN b THEN b[c] ELSE 0)]
BagSize(a) == FoldFunction(LAMBDA x, y : x + y, 0, a)

\* ---------------------------------------------------------------- parsing a part
ParsePart(inst, p) ==
  LET part == inst.parts[p] IN
  [rcv |-> part.bits, cls |-> BagOf(part.cl), hdr |-> part.main, got |-> {p}]

\* ---------------------------------------------------------------- merge, as the code does it
\* which branch of `merge` is taken
Branch(inst, self, other) ==
  IF other.rcv \subseteq self.rcv THEN "have"              \* "We already have that server info."
  ELSE IF self.rcv \cap other.rcv # {} THEN "overlap"       \* Err(OverlappingInfos)
  ELSE "extend"

Merge(inst, self, other) ==
  LET br == Branch(inst, self, other) IN
  IF br # "extend" THEN self
  ELSE LET sw == inst.v = "v6ex" /\ 0 \notin self.rcv       \* mem::swap(self, &mut other)
           a == IF sw THEN other ELSE self
           b == IF sw THEN self ELSE other IN
       [rcv |-> IF MaskUpdated THEN a.rcv \cup b.rcv ELSE a.rcv,
        cls |-> BagAdd(a.cls, b.cls), hdr |-> a.hdr, got |-> a.got \cup b.got]

\* the mask a partial would have if `merge` kept it up to date
ExactRcv(inst, x) == UNION {inst.parts[p].bits : p \in x.got}
BranchExact(inst, self, other) ==
  Branch(inst, [self EXCEPT !.rcv = ExactRcv(inst, self)], [other EXCEPT !.rcv = ExactRcv(inst, other)])
\* the stale mask sends `merge` down another branch than the parts really merged warrant:
\* "extend" instead of "have"/"overlap" (a repeated part is merged again: clients duplicated), or
\* "have" instead of "extend" (a partial whose mask understates its contents is dropped)
StaleMaskMatters(inst, self, other) == Branch(inst, self, other) # BranchExact(inst, self, other)

\* ---------------------------------------------------------------- the clients and their order
\* A client is the record the wire carries: (name, clan, country, score, flags).  Client id c
\* (1..64) stands for the record whose fields are bits of c - 1, so that *every field has
\* duplicates across clients and parts* (two names, two clans, ...) while whole records differ:
\*   name = bit 0, clan = bit 1, country = bit 2, score = bit 3 + 2 * bit 5, flags = bit 4.
KeyOf(c) == LET k == c - 1 IN
  <<k % 2, (k \div 2) % 2, (k \div 4) % 2, ((k \div 8) % 2) + 2 * ((k \div 32) % 2), (k \div 16) % 2>>
LexLess(x, y) == \E i \in 1..5 : x[i] < y[i] /\ \A j \in 1..(i - 1) : x[j] = y[j]
\* the result handed out by get_info / take_info is a *sequence*: the collected clients in the
\* canonical order (all fields compared, in wire order) — whatever order the parts arrived in
CanonSeq(bag) ==
  LET ids == SetToSortSeq(DOMAIN bag, LAMBDA a, b : LexLess(KeyOf(a), KeyOf(b))) IN
  FoldLeft(LAMBDA acc, c : acc \o [j \in 1..bag[c] |-> c], <<>>, ids)

\* get_info: complete iff the number of collected clients equals the announced number
Announced(inst, x) == IF x.hdr THEN inst.n ELSE 0
Complete(inst, x) == BagSize(x.cls) = Announced(inst, x)
\* what the caller can observe of a partial
Obs(inst, x) == [complete |-> Complete(inst, x), clients |-> IF Complete(inst, x) THEN CanonSeq(x.cls) ELSE <<>>]

\* ---------------------------------------------------------------- what the user relies on
ClientsOf(inst, got) == UNION {inst.parts[p].cl : p \in got}
HeaderIn(inst, got) == \E p \in got : inst.parts[p].main
PropComplete(inst, got) == HeaderIn(inst, got) /\ ClientsOf(inst, got) = 1..inst.n
PropObs(inst, got) ==
  [complete |-> PropComplete(inst, got),
   clients |-> IF PropComplete(inst, got) THEN CanonSeq(BagOf(1..inst.n)) ELSE <<>>]
\* result of a merge at the property level: an error is only legal for a genuine partial overlap
PropResultOk(self, other, res) ==
  \/ res = "ok"
  \/ res = "overlap" /\ self.got \cap other.got # {} /\ ~(other.got \subseteq self.got)
PropGot(self, other, res) == IF res = "ok" THEN self.got \cup other.got ELSE self.got

\* ---------------------------------------------------------------- the state machine
\* pool = the partials the application currently holds (a sequence); nparse counts parsed
\* parts (length of the sequence of received datagrams); bug counts MergeRepeated_KnownBug steps
VARIABLES inst, pool, nparse, bug, act
vars == <<inst, pool, nparse, bug, act>>

DropAt(s, j) == [k \in 1..(Len(s) - 1) |-> IF k < j THEN s[k] ELSE s[k + 1]]

Receive(p, MaxOps, MaxPool) ==
  /\ nparse < MaxOps /\ Len(pool) < MaxPool
  /\ pool' = Append(pool, ParsePart(inst, p))
  /\ nparse' = nparse + 1
  /\ act' = [a |-> "parse", p |-> p]
  /\ UNCHANGED <<inst, bug>>

MergeStep(i, j, known) ==
  /\ i \in 1..Len(pool) /\ j \in 1..Len(pool) /\ i # j
  /\ known = StaleMaskMatters(inst, pool[i], pool[j])
  /\ LET self == pool[i]
         other == pool[j]
         br == Branch(inst, self, other)
         bx == BranchExact(inst, self, other)
         res == IF br = "overlap" THEN "overlap" ELSE "ok"
         m == Merge(inst, self, other)
         \* the history variable follows the property level, not the code
         m2 == [m EXCEPT !.got = PropGot(self, other, res)] IN
     /\ pool' = DropAt([pool EXCEPT ![i] = m2], j)
     /\ act' = [a |-> "merge", i |-> i, j |-> j, res |-> res, br |-> br, bx |-> bx, known |-> known, bugs |-> bug + (IF known THEN 1 ELSE 0),
                obs |-> Obs(inst, m2), prop |-> PropObs(inst, m2.got),
                propres |-> PropResultOk(self, other, res)]
  /\ UNCHANGED <<inst, nparse>>

\* the named actions
MergeInto(i, j) == MergeStep(i, j, FALSE) /\ bug' = bug
MergeRepeated_KnownBug(i, j) == MergeStep(i, j, TRUE) /\ bug' = bug + 1

\* ---------------------------------------------------------------- invariants
\* detailed level, repaired code: the mask says which parts were merged; no client twice
MaskExact == MaskUpdated => \A k \in 1..Len(pool) :
               pool[k].rcv = UNION {inst.parts[p].bits : p \in pool[k].got}
DuplicateFree == \A k \in 1..Len(pool) : \A c \in DOMAIN pool[k].cls : pool[k].cls[c] = 1
\* property level: what is observable of every partial is what the set of merged parts says
CompleteExact == \A k \in 1..Len(pool) : Obs(inst, pool[k]) = PropObs(inst, pool[k].got)
LastStepLegal == act.a = "merge" => act.propres
PropertyHolds == DuplicateFree /\ CompleteExact /\ LastStepLegal
\* order-freeness and idempotence, stated directly on every pair of partials held
Commutes == \A i \in 1..Len(pool), j \in 1..Len(pool) : i # j =>
   LET a == pool[i]  b == pool[j] IN
   (Branch(inst, a, b) # "overlap" /\ Branch(inst, b, a) # "overlap")
      => Obs(inst, Merge(inst, a, b)) = Obs(inst, Merge(inst, b, a))
Idempotent == \A i \in 1..Len(pool), j \in 1..Len(pool) : i # j =>
   LET a == pool[i]  b == pool[j]  ab == Merge(inst, a, b) IN
   Branch(inst, a, b) # "overlap" => Obs(inst, Merge(inst, ab, b)) = Obs(inst, ab)
\* every violation of the property is explained by the known bug (F1) ...
OnlyKnownBug == bug = 0 => PropertyHolds
\* ... which the repaired code does not have
NoBugWhenMaskUpdated == MaskUpdated => bug = 0
=============================================================================
