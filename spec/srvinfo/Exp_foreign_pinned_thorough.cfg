SPECIFICATION Spec
CONSTANTS
  MaskUpdated = FALSE
  MaxOps = 4
  MaxRep = 4
  MaxPool = 3
  Sizes = {1}
  MaxParts = 1
  Fams = {"twotok", "twover", "twosame", "tokzero", "overlap664", "range664", "diffn", "pno", "twomain"}
  Take = TRUE
  Linear = FALSE
  Export = TRUE
VIEW View
INVARIANTS OnlyKnownBug ForeignInert
ACTION_CONSTRAINT ExportT
