SPECIFICATION Spec
CONSTANTS
  MaskUpdated = TRUE
  MaxOps = 4
  MaxPool = 3
  Sizes = {0, 1, 2}
  MaxParts = 3
  Export = TRUE
VIEW View
INVARIANTS MaskExact DuplicateFree CompleteExact LastStepLegal Commutes Idempotent NoBugWhenMaskUpdated
ACTION_CONSTRAINT ExportT
