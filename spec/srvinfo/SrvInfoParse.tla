---------------------------- MODULE SrvInfoParse ----------------------------
(* Parsing half of C18: parse_response (thirteen response kinds) and parse_server_info
   ("count sanity check", packet number, offset, map size; token stream of a datagram).

   A server-info payload is a sequence of tokens [ty |-> "i", v |-> n] (a number) or
   [ty |-> "s", v |-> id] (a string that is not a number).  Verdict(k, toks) is what
   Info*Response::parse returns: nothing, or a value with `n` clients and the mask `bits`.
   OffByOne = TRUE models the pinned code, which lets packet number 64 / client slot 64 through
   and then needs mask bit 64 (the shift `1 << 64` panics): MaskFits fails (defect D6). *)
EXTENDS Integers, Sequences, FiniteSets, TLC, Json

CONSTANT OffByOne

MaxInt == 2147483647
MinInt == -2147483647 - 1
InfoKinds == {"v5", "v6", "v6ddper", "v664", "v6ex", "v6exmore", "v7"}

\* header token types, in wire order ("i" number, "s" string); names of the numeric fields
Hdr(k) ==
  CASE k = "v5" -> <<"tok", "s", "s", "s", "s", "flags", "prog", "np", "mp">>
    [] k \in {"v6", "v6ddper"} -> <<"tok", "s", "s", "s", "s", "flags", "np", "mp", "nc", "mc">>
    [] k = "v664" -> <<"tok", "s", "s", "s", "s", "flags", "np", "mp", "nc", "mc", "off">>
    [] k = "v6ex" -> <<"tok", "s", "s", "s", "crc", "msize", "s", "flags", "np", "mp", "nc", "mc", "s">>
    [] k = "v6exmore" -> <<"tok", "pno", "s">>
    [] k = "v7" -> <<"tok", "s", "s", "s", "s", "s", "flags", "skill", "np", "mp", "nc", "mc">>
Cli(k) ==
  CASE k = "v5" -> <<"name", "score">>
    [] k \in {"v6", "v6ddper", "v664"} -> <<"name", "s", "country", "score", "isp">>
    [] k \in {"v6ex", "v6exmore"} -> <<"name", "s", "country", "score", "isp", "s">>
    [] k = "v7" -> <<"name", "s", "country", "score", "cflags">>
IsStr(f) == f \in {"s", "name"}
MaxClients(k) == CASE k \in {"v5", "v6", "v6ddper"} -> 16 [] k \in {"v664", "v7"} -> 64 [] OTHER -> -1

\* the value of header field f, or "missing"/"bad"
Field(k, toks, f) ==
  LET idx == {n \in 1..Len(Hdr(k)) : Hdr(k)[n] = f} IN
  IF idx = {} THEN [st |-> "absent", v |-> 0]
  ELSE LET n == CHOOSE x \in idx : TRUE IN
       IF n > Len(toks) THEN [st |-> "missing", v |-> 0]
       ELSE IF toks[n].ty # "i" THEN [st |-> "bad", v |-> 0]
       ELSE [st |-> "ok", v |-> toks[n].v]

None == [some |-> FALSE, n |-> 0, bits |-> {}]

Verdict(k, toks) ==
  LET H == Len(Hdr(k))
      C == Len(Cli(k))
      hdrOk == /\ Len(toks) >= H
               /\ \A n \in 1..H : IsStr(Hdr(k)[n]) \/ toks[n].ty = "i"
      f(x) == Field(k, toks, x).v
      np == f("np")  mp == f("mp")
      nc == IF k = "v5" THEN np ELSE f("nc")
      mc == IF k = "v5" THEN mp ELSE f("mc")
      more == k = "v6exmore"
      pnoOk == f("pno") >= 1 /\ f("pno") <= (IF OffByOne THEN 64 ELSE 63)
      countsOk == /\ nc >= 0 /\ nc <= mc /\ mc >= 0
                  /\ (MaxClients(k) >= 0 => mc <= MaxClients(k))
                  /\ np >= 0 /\ np <= nc /\ mp >= 0 /\ mp <= mc
      sane == IF more THEN pnoOk
              ELSE /\ (k = "v6ex" => f("msize") >= 0)
                   /\ countsOk
                   /\ (k = "v664" => f("off") >= 0)
      R == Len(toks) - H
      full == R \div C
      cliOk == /\ R % C = 0
               /\ \A m \in 0..(full - 1) : \A j \in 1..C : IsStr(Cli(k)[j]) \/ toks[H + m * C + j].ty = "i"
      off == IF k = "v664" THEN f("off") ELSE 0
      lim == IF OffByOne THEN 64 ELSE 63
      \* 6_64: clients in slots above the limit are skipped
      kept == IF k = "v664" THEN {m \in 0..(full - 1) : m <= lim - off} ELSE 0..(full - 1)
      bits == IF k = "v664" THEN {off + m : m \in kept}
              ELSE IF k = "v6ex" THEN {0}
              ELSE IF more THEN {f("pno")} ELSE {}
  IN IF ~hdrOk THEN None
     ELSE IF ~sane THEN None
     ELSE IF ~cliOk THEN None
     ELSE [some |-> TRUE, n |-> Cardinality(kept), bits |-> bits]

\* ---------------------------------------------------------------- parse_response
RespKinds == {"list5", "list6", "list7", "count", "count7", "info5", "info6", "info6ddper", "info664",
              "info6ex", "info6exmore", "info7", "token7"}
HdrLen(hk) == IF hk = "token7" THEN 8 ELSE IF hk \in {"list7", "count7", "info7"} THEN 17 ELSE 14
\* pre: what the datagram's leading bytes look like:
\*  "std" the canonical header; "xe" first six bytes replaced by the extended-request echo
\*  "xe\0\0\0\0" (ignored padding of 0.5/0.6 kinds); "noflag" first byte 0x00 (not connless);
\*  "short" the datagram is cut inside the header (len = bytes present)
Classify(hk, pre, len) ==
  LET is7 == hk \in {"list7", "count7", "info7", "token7"} IN
  IF pre = "short" THEN "none"
  ELSE IF pre = "noflag" THEN "none"
  ELSE IF pre = "xe" /\ is7 THEN "none"
  ELSE IF pre = "xe" /\ hk = "info6ddper" THEN "info6"      \* without "dp" it is the plain 0.6 header
  ELSE IF hk \in {"count", "count7"} THEN (IF len >= 2 THEN hk ELSE "none")
  ELSE IF hk = "token7" THEN (IF len >= 4 THEN hk ELSE "none")
  ELSE hk
Entries(hk, len) == IF hk = "list5" THEN len \div 6 ELSE IF hk \in {"list6", "list7"} THEN len \div 18 ELSE 0

\* ---------------------------------------------------------------- enumerated cases
I(v) == [ty |-> "i", v |-> v]
Sx(v) == [ty |-> "s", v |-> v]
\* canonical token list of kind k with the given numeric fields and ncl clients
Val(vals, f) == IF f \in DOMAIN vals THEN vals[f] ELSE 1
HdrToks(k, vals) == [n \in 1..Len(Hdr(k)) |-> IF IsStr(Hdr(k)[n]) THEN Sx(n) ELSE I(Val(vals, Hdr(k)[n]))]
CliToks(k, ncl) ==
  [x \in 1..(ncl * Len(Cli(k))) |->
     LET j == ((x - 1) % Len(Cli(k))) + 1  m == (x - 1) \div Len(Cli(k)) IN
     IF Cli(k)[j] = "name" THEN Sx(100 + m) ELSE IF Cli(k)[j] = "s" THEN Sx(j) ELSE I(m + j)]
Toks(k, vals, ncl) == HdrToks(k, vals) \o CliToks(k, ncl)
Good(k) == [np |-> 1, mp |-> 8, nc |-> 2, mc |-> 16, off |-> 0, pno |-> 1, msize |-> 5, tok |-> 7]
With(g, f, v) == [x \in DOMAIN g |-> IF x = f THEN v ELSE g[x]]
Bnd(k) == LET M == IF MaxClients(k) < 0 THEN 64 ELSE MaxClients(k) IN {-1, 0, 1, M - 1, M, M + 1}

CountCases(kinds, B) ==
  {[t |-> "info", k |-> k,
    toks |-> Toks(k, [Good(k) EXCEPT !.np = a, !.mp = b, !.nc = c, !.mc = d], 1)] :
      k \in kinds \ {"v6exmore"}, a \in B, b \in B, c \in B, d \in B}
CountCasesAll == UNION {CountCases({k}, Bnd(k)) : k \in InfoKinds}
OffsetCases == {[t |-> "info", k |-> "v664", toks |-> Toks("v664", [Good("v664") EXCEPT !.off = o, !.mc = 64, !.nc = 64, !.mp = 64], n)] :
                  o \in {MinInt, -1, 0, 1, 23, 24, 61, 62, 63, 64, 65, 100, MaxInt}, n \in 0..3}
PnoCases == {[t |-> "info", k |-> "v6exmore", toks |-> Toks("v6exmore", [Good("v6exmore") EXCEPT !.pno = p], n)] :
               p \in {MinInt, -1, 0, 1, 2, 62, 63, 64, 65, MaxInt}, n \in 0..2}
MiscCases == {[t |-> "info", k |-> "v6ex", toks |-> Toks("v6ex", [Good("v6ex") EXCEPT !.msize = m, !.tok = tk], 1)] :
               m \in {MinInt, -1, 0, 1, MaxInt}, tk \in {MinInt, -1, 0, MaxInt}}
\* token level: cut the stream after any token; replace any token by a non-number
MinOf(a, b) == IF a < b THEN a ELSE b
CutCases == {[t |-> "info", k |-> k, toks |-> SubSeq(Toks(k, Good(k), n), 1, MinOf(cc, Len(Toks(k, Good(k), n))))] :
               k \in InfoKinds, n \in 0..2, cc \in 0..25}
BadCases == UNION {{[t |-> "info", k |-> k, toks |-> [x \in 1..Len(Toks(k, Good(k), n)) |->
                                                     IF x = b THEN Sx(0) ELSE Toks(k, Good(k), n)[x]]] :
                      b \in 1..Len(Toks(k, Good(k), n))} : k \in InfoKinds, n \in 1..2}
RespCases == {[t |-> "resp", hk |-> hk, pre |-> pre, len |-> len] :
                hk \in RespKinds, pre \in {"std", "xe", "noflag"}, len \in 0..40}
             \cup {[t |-> "resp", hk |-> hk, pre |-> "short", len |-> len] : hk \in RespKinds, len \in 0..16}

VARIABLE c
InitQuick == c \in CountCases({"v664", "v6ex"}, {-1, 0, 64, 65}) \cup CountCases({"v5", "v7"}, {0, 16, 17}) \cup OffsetCases \cup PnoCases
                   \cup MiscCases \cup CutCases \cup BadCases \cup RespCases
InitThorough == c \in CountCasesAll \cup OffsetCases \cup PnoCases \cup MiscCases \cup CutCases \cup BadCases \cup RespCases
InitSelf == c \in OffsetCases \cup PnoCases
Next == UNCHANGED c
SpecSelf == InitSelf /\ [][Next]_c
SpecQuick == InitQuick /\ [][Next]_c
SpecThorough == InitThorough /\ [][Next]_c

Expected ==
  IF c.t = "info" THEN LET v == Verdict(c.k, c.toks) IN
                       [some |-> v.some, n |-> v.n, bits |-> [x \in 1..65 |-> (x - 1) \in v.bits]]
  ELSE [kind |-> IF c.pre = "short" /\ c.len >= HdrLen(c.hk) THEN Classify(c.hk, "std", c.len - HdrLen(c.hk))
                 ELSE Classify(c.hk, c.pre, c.len),
        entries |-> IF c.pre = "short" THEN 0 ELSE Entries(c.hk, c.len)]

\* laws
MaskFits == c.t = "info" => LET v == Verdict(c.k, c.toks) IN v.some => v.bits \subseteq 0..63
SaneWhenSome ==
  c.t = "info" /\ c.k # "v6exmore" => LET v == Verdict(c.k, c.toks) IN
     v.some => LET np == Field(c.k, c.toks, "np").v
                   nc == IF c.k = "v5" THEN np ELSE Field(c.k, c.toks, "nc").v
                   mc == IF c.k = "v5" THEN Field(c.k, c.toks, "mp").v ELSE Field(c.k, c.toks, "mc").v IN
               0 <= np /\ np <= nc /\ nc <= mc /\ (MaxClients(c.k) >= 0 => mc <= MaxClients(c.k))
ExportInv == PrintT(<<"C", ToJson(c), ToJson(Expected)>>)
=============================================================================
