SPECIFICATION SpecQuick
CONSTANTS OffByOne = FALSE
INVARIANTS MaskFits SaneWhenSome ExportInv
