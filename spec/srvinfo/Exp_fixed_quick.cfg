SPECIFICATION Spec
CONSTANTS
  MaskUpdated = TRUE
  MaxOps = 3
  MaxRep = 3
  MaxPool = 3
  Sizes = {0, 1}
  MaxParts = 3
  Fams = {"wf", "dup"}
  Take = TRUE
  Linear = FALSE
  Export = TRUE
VIEW View
INVARIANTS MaskExact DuplicateFree CompleteExact LastStepLegal Commutes Idempotent ForeignInert NoBugWhenMaskUpdated
ACTION_CONSTRAINT ExportT
