SPECIFICATION SpecQuick
INVARIANTS Total MaskFits SaneWhenSome ListLaw Sorted ExportInv
