SPECIFICATION SpecSelf
CONSTANTS OffByOne = TRUE
INVARIANTS MaskFits
