SPECIFICATION SpecQuick
CONSTANTS OffByOne = TRUE
INVARIANTS MaskFits
