SPECIFICATION Spec
CONSTANTS
  MaskUpdated = TRUE
  MaxOps = 12
  MaxRep = 3
  MaxPool = 2
  Sizes = {1}
  MaxParts = 1
  Fams = {"rep"}
  Take = FALSE
  Linear = TRUE
  Export = TRUE
VIEW View
INVARIANTS MaskExact DuplicateFree CompleteExact LastStepLegal Commutes Idempotent ForeignInert NoBugWhenMaskUpdated
ACTION_CONSTRAINT ExportT
