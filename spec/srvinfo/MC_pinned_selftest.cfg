SPECIFICATION Spec
CONSTANTS
  MaskUpdated = FALSE
  MaxOps = 3
  MaxPool = 3
  Sizes = {1}
  MaxParts = 2
  Export = FALSE
VIEW View
INVARIANTS PropertyHolds
