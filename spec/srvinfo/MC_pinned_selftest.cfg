SPECIFICATION Spec
CONSTANTS
  MaskUpdated = FALSE
  MaxOps = 3
  MaxRep = 3
  MaxPool = 3
  Sizes = {1}
  MaxParts = 2
  Fams = {"wf"}
  Take = FALSE
  Linear = FALSE
  Export = FALSE
VIEW View
INVARIANTS PropertyHolds
