SPECIFICATION Spec
CONSTANTS
  MaskUpdated = TRUE
  MaxOps = 4
  MaxRep = 4
  MaxPool = 3
  Sizes = {1}
  MaxParts = 1
  Fams = {"twotok", "twover", "twosame", "tokzero", "overlap664", "range664", "diffn", "pno", "twomain"}
  Take = TRUE
  Linear = FALSE
  Export = TRUE
VIEW View
INVARIANTS MaskExact DuplicateFree CompleteExact LastStepLegal Commutes Idempotent ForeignInert NoBugWhenMaskUpdated
ACTION_CONSTRAINT ExportT
