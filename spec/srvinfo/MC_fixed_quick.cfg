SPECIFICATION Spec
CONSTANTS
  MaskUpdated = TRUE
  MaxOps = 3
  MaxRep = 3
  MaxPool = 3
  Sizes = {0, 1}
  MaxParts = 2
  Fams = {"wf", "dup", "twotok", "twover", "twosame", "tokzero", "overlap664", "range664", "diffn", "pno", "twomain"}
  Take = FALSE
  Linear = FALSE
  Export = FALSE
VIEW View
INVARIANTS MaskExact DuplicateFree CompleteExact LastStepLegal Commutes Idempotent ForeignInert NoBugWhenMaskUpdated
