SPECIFICATION Spec
CONSTANTS
  MaskUpdated = TRUE
  MaxOps = 3
  MaxPool = 3
  Sizes = {0, 1, 2}
  MaxParts = 3
  Export = FALSE
VIEW View
INVARIANTS MaskExact DuplicateFree CompleteExact LastStepLegal Commutes Idempotent NoBugWhenMaskUpdated
