SPECIFICATION Spec
CONSTANTS
  MaskUpdated = TRUE
  MaxOps = 6
  MaxPool = 3
  Sizes = {1, 2}
  MaxParts = 4
  Export = FALSE
VIEW View
INVARIANTS MaskExact DuplicateFree CompleteExact LastStepLegal Commutes Idempotent NoBugWhenMaskUpdated
