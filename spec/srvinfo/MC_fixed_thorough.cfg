SPECIFICATION Spec
CONSTANTS
  MaskUpdated = TRUE
  MaxOps = 6
  MaxRep = 6
  MaxPool = 3
  Sizes = {1, 2}
  MaxParts = 4
  Fams = {"wf", "dup", "twotok", "twover", "twosame", "tokzero", "overlap664", "range664", "diffn", "pno", "twomain"}
  Take = TRUE
  Linear = FALSE
  Export = FALSE
VIEW View
INVARIANTS MaskExact DuplicateFree CompleteExact LastStepLegal Commutes Idempotent ForeignInert NoBugWhenMaskUpdated
