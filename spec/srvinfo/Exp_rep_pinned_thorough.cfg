SPECIFICATION Spec
CONSTANTS
  MaskUpdated = FALSE
  MaxOps = 12
  MaxRep = 3
  MaxPool = 2
  Sizes = {1}
  MaxParts = 1
  Fams = {"rep"}
  Take = FALSE
  Linear = TRUE
  Export = TRUE
VIEW View
INVARIANTS OnlyKnownBug
ACTION_CONSTRAINT ExportT
