SPECIFICATION TSpec
CONSTANTS MaskUpdated = FALSE
POSTCONDITION Consumed
