----------------------------- MODULE SrvInfoWire -----------------------------
(* Byte-level grammar of the thirteen response kinds of serverbrowse/src/protocol.rs (C18,
   parsing half): a datagram is a sequence of bytes; Parse(d) is the *value* the documented
   layout prescribes (doc/serverinfo_extended.md for the extended info, the field lists of
   parse_server_info for the others), or kind "none".  Parse is a total operator: TLC evaluates
   it on every member of the exhaustive families below (the Cases operators of MC_SrvInfoWire), which decides totality of the
   grammar; the harness replays every member on the real parse_response / Info*Response::parse /
   Addr*Packed::unpack and compares the whole value.

     header      13 kinds: 0.5/0.6 headers are 14 bytes (6 ignored bytes, 4 x ff, 4 type bytes;
                 byte 0 must carry the connless flag 0x40; "dp" + 4 ignored bytes marks the ddper
                 0.6 info), 0.7 headers are 17 bytes (0x21, own token, their token, 4 x ff, type),
                 the 0.7 token response is 8 bytes (04 00 00, own token, 05) + their token
     lists       records of 6 (ip4, port little-endian) / 18 bytes (ip6, port big-endian; the
                 prefix 00*10 ff ff marks an IPv4 address); a trailing partial record is dropped
     counts      two bytes big-endian, further bytes ignored
     infos       NUL-terminated strings; numbers are decimal strings (Rust i32::from_str: optional
                 sign, ASCII digits, no overflow) or, for 0.7, variable-length integers (1..5
                 bytes; overlong forms are accepted, padding bit 4 of byte five lands on bit 31);
                 strings must be UTF-8 and are cut to their capacity on a character boundary;
                 "count sanity check", packet number 1..63, map size >= 0, offset >= 0; a client
                 list ends where no further name can be read; an incomplete client makes the
                 datagram invalid; 6_64 clients in slots >= 64 are dropped.

   The property (C18) demands totality; the value is detailed level (differences are DRIFT). *)
EXTENDS Integers, Sequences, FiniteSets, TLC, Json, SequencesExt

MaxInt == 2147483647
MinInt == -2147483647 - 1
Rep(b, n) == [i \in 1..n |-> b]
Min2(a, b) == IF a < b THEN a ELSE b

\* ---------------------------------------------------------------- headers
T_list == <<108, 105, 115, 116>>   \* "list"
T_lis2 == <<108, 105, 115, 50>>    \* "lis2"
T_siz2 == <<115, 105, 122, 50>>    \* "siz2"
T_inf2 == <<105, 110, 102, 50>>    \* "inf2"
T_inf3 == <<105, 110, 102, 51>>    \* "inf3"
T_dtsf == <<100, 116, 115, 102>>   \* "dtsf"
T_iext == <<105, 101, 120, 116>>   \* "iext"
T_iexm == <<105, 101, 120, 43>>    \* "iex+"
Kinds == {"list5", "list6", "list7", "count", "count7", "info5", "info6", "info6ddper", "info664",
          "info6ex", "info6exmore", "info7", "token7"}
Kinds7 == {"list7", "count7", "info7"}
TypeOf(hk) ==
  CASE hk = "list5" -> T_list [] hk \in {"list6", "list7"} -> T_lis2 [] hk \in {"count", "count7"} -> T_siz2
    [] hk = "info5" -> T_inf2 [] hk \in {"info6", "info6ddper", "info7"} -> T_inf3 [] hk = "info664" -> T_dtsf
    [] hk = "info6ex" -> T_iext [] hk = "info6exmore" -> T_iexm [] OTHER -> <<>>
\* the canonical header of a kind (own / their token: sequences of 4 bytes, 0.7 only)
Header(hk, own, their) ==
  IF hk = "token7" THEN <<4, 0, 0>> \o own \o <<5>>
  ELSE IF hk \in Kinds7 THEN <<33>> \o own \o their \o Rep(255, 4) \o TypeOf(hk)
  ELSE IF hk = "info6ddper" THEN <<100, 112, 0, 0, 0, 0>> \o Rep(255, 4) \o TypeOf(hk)
  ELSE Rep(255, 10) \o TypeOf(hk)

\* ---------------------------------------------------------------- strings and numbers
RECURSIVE Scan(_, _)
\* index of the first NUL at or after pos, 0 if there is none
Scan(d, pos) == IF pos > Len(d) THEN 0 ELSE IF d[pos] = 0 THEN pos ELSE Scan(d, pos + 1)

In(s, i, lo, hi) == i <= Len(s) /\ s[i] >= lo /\ s[i] <= hi
Cont(s, i) == In(s, i, 128, 191)
\* length of the well-formed UTF-8 character that starts at i (0: none)
CharLen(s, i) ==
  LET b == s[i] IN
  IF b < 128 THEN 1
  ELSE IF b >= 194 /\ b <= 223 THEN (IF Cont(s, i + 1) THEN 2 ELSE 0)
  ELSE IF b = 224 THEN (IF In(s, i + 1, 160, 191) /\ Cont(s, i + 2) THEN 3 ELSE 0)
  ELSE IF (b >= 225 /\ b <= 236) \/ b = 238 \/ b = 239 THEN (IF Cont(s, i + 1) /\ Cont(s, i + 2) THEN 3 ELSE 0)
  ELSE IF b = 237 THEN (IF In(s, i + 1, 128, 159) /\ Cont(s, i + 2) THEN 3 ELSE 0)
  ELSE IF b = 240 THEN (IF In(s, i + 1, 144, 191) /\ Cont(s, i + 2) /\ Cont(s, i + 3) THEN 4 ELSE 0)
  ELSE IF b >= 241 /\ b <= 243 THEN (IF Cont(s, i + 1) /\ Cont(s, i + 2) /\ Cont(s, i + 3) THEN 4 ELSE 0)
  ELSE IF b = 244 THEN (IF In(s, i + 1, 128, 143) /\ Cont(s, i + 2) /\ Cont(s, i + 3) THEN 4 ELSE 0)
  ELSE 0
RECURSIVE ValidFrom(_, _)
ValidFrom(s, i) == IF i > Len(s) THEN TRUE ELSE LET n == CharLen(s, i) IN n # 0 /\ ValidFrom(s, i + n)
ValidUtf8(s) == ValidFrom(s, 1)
\* the longest prefix of at most cap bytes that ends on a character boundary
Boundary(s, n) == n = 0 \/ n >= Len(s) \/ ~(s[n + 1] >= 128 /\ s[n + 1] <= 191)
Trunc(s, cap) ==
  IF Len(s) <= cap THEN s
  ELSE SubSeq(s, 1, CHOOSE n \in 0..cap : Boundary(s, n) /\ \A m \in (n + 1)..cap : ~Boundary(s, m))

IsDigit(b) == b >= 48 /\ b <= 57
RECURSIVE AccPos(_, _, _)
AccPos(s, i, acc) ==
  IF i > Len(s) THEN [ok |-> TRUE, v |-> acc]
  ELSE LET dg == s[i] - 48 IN
       IF acc > (MaxInt - dg) \div 10 THEN [ok |-> FALSE, v |-> 0] ELSE AccPos(s, i + 1, acc * 10 + dg)
RECURSIVE AccNeg(_, _, _)
AccNeg(s, i, acc) ==
  IF i > Len(s) THEN [ok |-> TRUE, v |-> acc]
  ELSE LET dg == s[i] - 48 IN
       IF acc < (MinInt + dg + 9) \div 10 THEN [ok |-> FALSE, v |-> 0] ELSE AccNeg(s, i + 1, acc * 10 - dg)
\* a decimal number: optional sign, at least one ASCII digit, nothing else, inside the i32 range
DecInt(s) ==
  IF Len(s) = 0 THEN [ok |-> FALSE, v |-> 0]
  ELSE LET neg == s[1] = 45
           st == IF s[1] = 45 \/ s[1] = 43 THEN 2 ELSE 1 IN
       IF st > Len(s) \/ \E i \in st..Len(s) : ~IsDigit(s[i]) THEN [ok |-> FALSE, v |-> 0]
       ELSE IF neg THEN AccNeg(s, st, 0) ELSE AccPos(s, st, 0)

\* the variable-length integer at position pos (transcribed from spec/varint/VarInt.tla, doc/int.md)
P6 == 64
P13 == 8192
P20 == 1048576
P27 == 134217728
P30 == 1073741824
Flip(x) == -1 - x
VarAt(d, pos) ==
  LET b == SubSeq(d, pos, Min2(Len(d), pos + 4)) IN
  IF Len(b) = 0 THEN [ok |-> FALSE, used |-> 0, v |-> 0] ELSE
  LET n == CHOOSE k \in 1..5 : /\ \A j \in 1..(k - 1) : j <= Len(b) /\ b[j] >= 128
                               /\ (k = 5 \/ k > Len(b) \/ b[k] < 128) IN
  IF n > Len(b) THEN [ok |-> FALSE, used |-> 0, v |-> 0] ELSE
  LET sign == (b[1] \div 64) % 2
      lo27 == (b[1] % 64) + (IF n >= 2 THEN (b[2] % 128) * P6 ELSE 0)
              + (IF n >= 3 THEN (b[3] % 128) * P13 ELSE 0) + (IF n >= 4 THEN (b[4] % 128) * P20 ELSE 0)
      hi4 == IF n = 5 THEN b[5] % 16 ELSE 0
      pad == IF n = 5 THEN (b[5] % 128) \div 16 ELSE 0
      mag == lo27 + hi4 * P27
      raw == IF pad % 2 = 1 THEN (mag - P30) - P30 ELSE mag
  IN [ok |-> TRUE, used |-> n, v |-> IF sign = 1 THEN Flip(raw) ELSE raw]

\* ---------------------------------------------------------------- info layouts
F(n, t, cap) == [n |-> n, t |-> t, cap |-> cap]
HdrFields(k) ==
  CASE k = "v5" -> <<F("tok", "i", 0), F("version", "s", 32), F("name", "s", 64), F("map", "s", 32), F("gametype", "s", 32),
                     F("flags", "i", 0), F("prog", "i", 0), F("np", "i", 0), F("mp", "i", 0)>>
    [] k \in {"v6", "v6ddper"} -> <<F("tok", "i", 0), F("version", "s", 32), F("name", "s", 64), F("map", "s", 32),
                     F("gametype", "s", 32), F("flags", "i", 0), F("np", "i", 0), F("mp", "i", 0), F("nc", "i", 0), F("mc", "i", 0)>>
    [] k = "v664" -> <<F("tok", "i", 0), F("version", "s", 32), F("name", "s", 64), F("map", "s", 32),
                     F("gametype", "s", 32), F("flags", "i", 0), F("np", "i", 0), F("mp", "i", 0), F("nc", "i", 0), F("mc", "i", 0),
                     F("off", "i", 0)>>
    [] k = "v6ex" -> <<F("tok", "i", 0), F("version", "s", 32), F("name", "s", 64), F("map", "s", 32), F("crc", "i", 0),
                     F("msize", "i", 0), F("gametype", "s", 32), F("flags", "i", 0), F("np", "i", 0), F("mp", "i", 0),
                     F("nc", "i", 0), F("mc", "i", 0), F("extra", "s", 0)>>
    [] k = "v6exmore" -> <<F("tok", "i", 0), F("pno", "i", 0), F("extra", "s", 0)>>
    [] k = "v7" -> <<F("tok", "i", 0), F("version", "s", 32), F("name", "s", 64), F("hostname", "s", 64), F("map", "s", 32),
                     F("gametype", "s", 32), F("flags", "i", 0), F("skill", "i", 0), F("np", "i", 0), F("mp", "i", 0),
                     F("nc", "i", 0), F("mc", "i", 0)>>
CliFields(k) ==
  CASE k = "v5" -> <<F("name", "s", 15), F("score", "i", 0)>>
    [] k \in {"v6", "v6ddper", "v664"} -> <<F("name", "s", 15), F("clan", "s", 11), F("country", "i", 0), F("score", "i", 0), F("isp", "i", 0)>>
    [] k \in {"v6ex", "v6exmore"} -> <<F("name", "s", 15), F("clan", "s", 11), F("country", "i", 0), F("score", "i", 0), F("isp", "i", 0),
                                       F("extra", "s", 0)>>
    [] k = "v7" -> <<F("name", "s", 15), F("clan", "s", 11), F("country", "i", 0), F("score", "i", 0), F("cflags", "i", 0)>>
MaxClients(k) == CASE k \in {"v5", "v6", "v6ddper"} -> 16 [] k \in {"v664", "v7"} -> 64 [] OTHER -> -1
KindOf(hk) == CASE hk = "info5" -> "v5" [] hk = "info6" -> "v6" [] hk = "info6ddper" -> "v6ddper" [] hk = "info664" -> "v664"
                [] hk = "info6ex" -> "v6ex" [] hk = "info6exmore" -> "v6exmore" [] hk = "info7" -> "v7" [] OTHER -> "none"
VerOf(k) == IF k = "v6exmore" THEN "v6ex" ELSE k

\* read one field at pos: [ok, next, i, s]
ReadStrAt(d, pos) ==
  LET z == Scan(d, pos) IN
  IF z = 0 THEN [ok |-> FALSE, next |-> Len(d) + 1, raw |-> <<>>]
  ELSE [ok |-> TRUE, next |-> z + 1, raw |-> SubSeq(d, pos, z - 1)]
ReadField(k, d, pos, f) ==
  IF f.t = "s" THEN
    LET r == ReadStrAt(d, pos) IN
    IF r.ok /\ ValidUtf8(r.raw) THEN [ok |-> TRUE, next |-> r.next, i |-> 0, s |-> Trunc(r.raw, f.cap)]
    ELSE [ok |-> FALSE, next |-> r.next, i |-> 0, s |-> <<>>]
  ELSE IF k = "v7" THEN
    LET x == VarAt(d, pos) IN
    IF x.ok THEN [ok |-> TRUE, next |-> pos + x.used, i |-> x.v, s |-> <<>>]
    ELSE [ok |-> FALSE, next |-> Len(d) + 1, i |-> 0, s |-> <<>>]
  ELSE
    LET r == ReadStrAt(d, pos)
        di == DecInt(r.raw) IN
    IF r.ok /\ di.ok THEN [ok |-> TRUE, next |-> r.next, i |-> di.v, s |-> <<>>]
    ELSE [ok |-> FALSE, next |-> r.next, i |-> 0, s |-> <<>>]

\* read a sequence of fields from pos: [ok, pos, iv, sv] (iv / sv: field name -> number / string)
ReadAll(k, d, pos, flds) ==
  FoldLeft(LAMBDA acc, f :
             IF ~acc.ok THEN acc
             ELSE LET r == ReadField(k, d, acc.pos, f) IN
                  [ok |-> r.ok, pos |-> r.next,
                   iv |-> IF f.t = "i" THEN (f.n :> r.i) @@ acc.iv ELSE acc.iv,
                   sv |-> IF f.t = "s" THEN (f.n :> r.s) @@ acc.sv ELSE acc.sv],
           [ok |-> TRUE, pos |-> pos, iv |-> <<>>, sv |-> <<>>], flds)

\* one client record as the library hands it out
ClientOf(k, r) ==
  [name |-> r.sv["name"],
   clan |-> IF k = "v5" THEN <<>> ELSE r.sv["clan"],
   country |-> IF k = "v5" THEN -1 ELSE r.iv["country"],
   score |-> r.iv["score"],
   flags |-> IF k = "v5" THEN 0 ELSE IF k = "v7" THEN r.iv["cflags"] ELSE IF r.iv["isp"] = 0 THEN 1 ELSE 0]

\* the client list from pos on, first client in slot j: [ok, cls, bits]
RECURSIVE ReadClients(_, _, _, _, _)
ReadClients(k, d, pos, j, acc) ==
  LET nm == ReadField(k, d, pos, Head(CliFields(k))) IN
  IF ~nm.ok THEN [ok |-> TRUE, cls |-> acc.cls, bits |-> acc.bits]            \* no further name: end of the list
  ELSE LET r == ReadAll(k, d, pos, CliFields(k)) IN
       IF ~r.ok THEN [ok |-> FALSE, cls |-> <<>>, bits |-> {}]                  \* an incomplete client
       ELSE LET keep == ~(k = "v664" /\ j >= 64) IN
            ReadClients(k, d, r.pos, IF j >= 64 THEN 64 ELSE j + 1,   \* slots >= 64 are all alike
                       
                        [cls |-> IF keep THEN Append(acc.cls, ClientOf(k, r)) ELSE acc.cls,
                         bits |-> IF keep /\ k = "v664" THEN acc.bits \cup {j} ELSE acc.bits])

BytesLess(x, y) == \/ \E i \in 1..Len(x) : i <= Len(y) /\ x[i] < y[i] /\ \A j \in 1..(i - 1) : x[j] = y[j]
                   \/ Len(x) < Len(y) /\ \A j \in 1..Len(x) : x[j] = y[j]
ClientLess(a, b) ==
  \/ BytesLess(a.name, b.name)
  \/ a.name = b.name /\ BytesLess(a.clan, b.clan)
  \/ a.name = b.name /\ a.clan = b.clan /\ a.country < b.country
  \/ a.name = b.name /\ a.clan = b.clan /\ a.country = b.country /\ a.score < b.score
  \/ a.name = b.name /\ a.clan = b.clan /\ a.country = b.country /\ a.score = b.score /\ a.flags < b.flags
\* the clients in the canonical order (equal records keep their multiplicity)
SortClients(cls) ==
  LET idx == SetToSortSeq(1..Len(cls), LAMBDA a, b : ClientLess(cls[a], cls[b]) \/ (cls[a] = cls[b] /\ a < b)) IN
  [x \in 1..Len(cls) |-> cls[idx[x]]]

NoInfo == [some |-> FALSE]
Opt(present, v) == IF present THEN <<v>> ELSE <<>>
\* the value of an info payload of kind k
ParseInfo(k, d) ==
  LET h == ReadAll(k, d, 1, HdrFields(k)) IN
  IF ~h.ok THEN NoInfo ELSE
  LET iv == h.iv
      sv == h.sv
      more == k = "v6exmore"
      np == IF more THEN 0 ELSE iv["np"]
      mp == IF more THEN 0 ELSE iv["mp"]
      nc == IF more THEN 0 ELSE IF k = "v5" THEN np ELSE iv["nc"]
      mc == IF more THEN 0 ELSE IF k = "v5" THEN mp ELSE iv["mc"]
      sane == IF more THEN iv["pno"] >= 1 /\ iv["pno"] < 64
              ELSE /\ (k = "v6ex" => iv["msize"] >= 0)
                   /\ nc >= 0 /\ nc <= mc /\ mc >= 0 /\ (MaxClients(k) >= 0 => mc <= MaxClients(k))
                   /\ np >= 0 /\ np <= nc /\ mp >= 0 /\ mp <= mc
                   /\ (k = "v664" => iv["off"] >= 0)
  IN IF ~sane THEN NoInfo ELSE
  LET c == ReadClients(k, d, h.pos, IF k = "v664" THEN iv["off"] ELSE 0, [cls |-> <<>>, bits |-> {}]) IN
  IF ~c.ok THEN NoInfo ELSE
  LET partial == k \in {"v664", "v6ex", "v6exmore"}
      str(n) == IF more THEN <<>> ELSE sv[n] IN
  [some |-> TRUE, ver |-> VerOf(k), partial |-> partial, token |-> iv["tok"],
   version |-> str("version"), name |-> str("name"), hostname |-> IF k = "v7" THEN <<sv["hostname"]>> ELSE <<>>,
   map |-> str("map"), crc |-> Opt(k = "v6ex", IF k = "v6ex" THEN iv["crc"] ELSE 0),
   msize |-> Opt(k = "v6ex", IF k = "v6ex" THEN iv["msize"] ELSE 0),
   gametype |-> str("gametype"), flags |-> IF more THEN 0 ELSE iv["flags"],
   prog |-> Opt(k = "v5", IF k = "v5" THEN iv["prog"] ELSE 0), skill |-> Opt(k = "v7", IF k = "v7" THEN iv["skill"] ELSE 0),
   np |-> np, mp |-> mp, nc |-> nc, mc |-> mc,
   \* what get_info / the whole-info kinds hand out: the clients in the canonical order; a partial
   \* info keeps them in wire order (arrival) and is complete iff it holds as many as announced
   clients |-> SortClients(c.cls), arrival |-> IF partial THEN c.cls ELSE <<>>,
   complete |-> ~partial \/ Len(c.cls) = nc,
   mask |-> IF k = "v664" THEN c.bits ELSE IF k = "v6ex" THEN {0} ELSE IF more THEN {iv["pno"]} ELSE {}]

\* ---------------------------------------------------------------- lists, counts
Mapping == Rep(0, 10) \o <<255, 255>>
Addr5(d, o) == [v6 |-> FALSE, ip |-> SubSeq(d, o + 1, o + 4), port |-> d[o + 5] + 256 * d[o + 6]]
Addr6(d, o) == IF SubSeq(d, o + 1, o + 12) = Mapping
               THEN [v6 |-> FALSE, ip |-> SubSeq(d, o + 13, o + 16), port |-> 256 * d[o + 17] + d[o + 18]]
               ELSE [v6 |-> TRUE, ip |-> SubSeq(d, o + 1, o + 16), port |-> 256 * d[o + 17] + d[o + 18]]
List5(p) == [x \in 1..(Len(p) \div 6) |-> Addr5(p, 6 * (x - 1))]
List6(p) == [x \in 1..(Len(p) \div 18) |-> Addr6(p, 18 * (x - 1))]

\* ---------------------------------------------------------------- parse_response
None == [kind |-> "none"]
Val(kind, own, their, count, addrs, info) ==
  [kind |-> kind, own |-> own, their |-> their, count |-> count, addrs |-> addrs, info |-> info]
Classify14(d) ==  \* the kind a 14-byte 0.5/0.6 header stands for
  IF SubSeq(d, 1, 2) = <<100, 112>> /\ SubSeq(d, 7, 14) = Rep(255, 4) \o T_inf3 THEN "info6ddper"
  ELSE IF SubSeq(d, 7, 10) # Rep(255, 4) THEN "none"
  ELSE LET t == SubSeq(d, 11, 14) IN
       CASE t = T_list -> "list5" [] t = T_lis2 -> "list6" [] t = T_siz2 -> "count" [] t = T_inf2 -> "info5"
         [] t = T_inf3 -> "info6" [] t = T_dtsf -> "info664" [] t = T_iext -> "info6ex" [] t = T_iexm -> "info6exmore"
         [] OTHER -> "none"
Classify17(d) ==
  IF SubSeq(d, 10, 13) # Rep(255, 4) THEN "none"
  ELSE LET t == SubSeq(d, 14, 17) IN
       CASE t = T_lis2 -> "list7" [] t = T_siz2 -> "count7" [] t = T_inf3 -> "info7" [] OTHER -> "none"
Rest(d, n) == SubSeq(d, n + 1, Len(d))
Parse(d) ==
  IF Len(d) = 0 THEN None
  ELSE IF d[1] = 4 THEN
    IF Len(d) < 12 \/ d[2] # 0 \/ d[3] # 0 \/ d[8] # 5 THEN None
    ELSE Val("token7", SubSeq(d, 4, 7), SubSeq(d, 9, 12), -1, <<>>, NoInfo)
  ELSE IF d[1] = 33 THEN
    IF Len(d) < 17 THEN None
    ELSE LET hk == Classify17(d)
             own == SubSeq(d, 2, 5)
             their == SubSeq(d, 6, 9)
             p == Rest(d, 17) IN
         IF hk = "list7" THEN Val(hk, own, their, -1, List6(p), NoInfo)
         ELSE IF hk = "count7" THEN (IF Len(p) >= 2 THEN Val(hk, own, their, 256 * p[1] + p[2], <<>>, NoInfo) ELSE None)
         ELSE IF hk = "info7" THEN Val(hk, own, their, -1, <<>>, ParseInfo("v7", p))
         ELSE None
  ELSE IF Len(d) < 14 \/ (d[1] \div 64) % 2 = 0 THEN None
  ELSE LET hk == Classify14(d)
           p == Rest(d, 14) IN
       IF hk = "none" THEN None
       ELSE IF hk = "list5" THEN Val(hk, <<>>, <<>>, -1, List5(p), NoInfo)
       ELSE IF hk = "list6" THEN Val(hk, <<>>, <<>>, -1, List6(p), NoInfo)
       ELSE IF hk = "count" THEN (IF Len(p) >= 2 THEN Val(hk, <<>>, <<>>, 256 * p[1] + p[2], <<>>, NoInfo) ELSE None)
       ELSE Val(hk, <<>>, <<>>, -1, <<>>, ParseInfo(KindOf(hk), p))
=============================================================================
