SPECIFICATION SpecThorough
INVARIANTS Total MaskFits SaneWhenSome ListLaw Sorted ExportInv
