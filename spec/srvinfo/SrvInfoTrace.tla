----------------------------- MODULE SrvInfoTrace -----------------------------
(* Direction B: traces of the real PartialServerInfo with real-size infos (64 clients, up to
   64 packets), and of parse_response on arbitrary datagrams.

     {"t":"I","inst":{v,n,parts:[{bits,cl,main}]}}     a new run (bits exported 1-based)
     {"t":"P","p":k,"res":"ok"|"none"|"panic"}         part k rendered, parsed, appended to the pool
     {"t":"M","i":i,"j":j,"res":"ok"|"overlap"|..,"obs":{complete,clients}}
                                                       pool[i].merge(pool[j]); get_info on pool[i]
     {"t":"D","hk":kind,"len":n,"res":kind|"none"|"panic"}   parse_response on an arbitrary datagram

   Every M event must be a step of SrvInfo.tla (MergeInto or MergeRepeated_KnownBug of the model
   selected by MaskUpdated), *and* is judged at the property level; the verdict of each step is
   printed:  <<"PROP-REJECT", event, key>>  the observable result is not what the set of merged
             parts warrants and no known-bug step explains it (or panic): violation;
             <<"KNOWN", event, shape>>      it is not, and a MergeRepeated_KnownBug step explains it;
             <<"DETAIL", event, what>>      observable result as the property demands but not the
                                            step of this detailed model (drift, or the other model). *)
EXTENDS SrvInfo, Json, IOUtils

Rec == ndJsonDeserialize(IOEnv.TRACE)
VARIABLES i, alive
tv == <<i, alive>>
ev == Rec[i]

SeqSet(s) == {s[k] : k \in 1..Len(s)}
InstOf(j) == [v |-> j.v, n |-> j.n,
              parts |-> [p \in 1..Len(j.parts) |-> [bits |-> {b - 1 : b \in SeqSet(j.parts[p].bits)},
                                                    cl |-> SeqSet(j.parts[p].cl), main |-> j.parts[p].main]]]
\* the clients as a sequence, in the order get_info returned them
ObsOf(o) == [complete |-> o.complete, clients |-> o.clients]

TInit == /\ i = 1 /\ alive = TRUE
         /\ inst = [v |-> "none", n |-> 0, parts |-> <<>>] /\ pool = <<>> /\ nparse = 0 /\ bug = 0 /\ act = [a |-> "init"]

NewRun ==
  /\ ev.t = "I"
  /\ inst' = InstOf(ev.inst) /\ pool' = <<>> /\ nparse' = 0 /\ bug' = 0 /\ act' = [a |-> "init"] /\ alive' = TRUE

Skip == /\ ~alive /\ ev.t \in {"P", "M"} /\ UNCHANGED <<vars, alive>>

Parse ==
  /\ alive /\ ev.t = "P"
  /\ IF ev.res = "ok"
     THEN /\ pool' = Append(pool, ParsePart(inst, ev.p)) /\ nparse' = nparse + 1
          /\ act' = [a |-> "parse", p |-> ev.p] /\ UNCHANGED <<inst, bug, alive>>
     ELSE /\ PrintT(<<"PROP-REJECT", i, IF ev.res = "panic" THEN "panic:parse-of-valid-part" ELSE "parse-rejected-valid-part:" \o inst.v>>)
          /\ alive' = FALSE /\ UNCHANGED vars

MergeEv ==
  /\ alive /\ ev.t = "M"
  /\ LET self == pool[ev.i]
         other == pool[ev.j]
         known == StaleMaskMatters(inst, self, other)
         br == Branch(inst, self, other)
         res == IF br = "overlap" THEN "overlap" ELSE "ok"
         m == Merge(inst, self, other)
         m2 == [m EXCEPT !.got = PropGot(self, other, res)]
         got == ObsOf(ev.obs)
         detailed == ev.res = res /\ got = Obs(inst, m2)
         \* property level: the result is legal and the observation is what the merged set warrants
         pgot == PropGot(self, other, ev.res)
         propok == ev.res \in {"ok", "overlap"} /\ PropResultOk(self, other, ev.res) /\ got = PropObs(inst, pgot)
         nbug == bug + (IF known THEN 1 ELSE 0)
         shape == inst.v \o ":" \o br \o "-for-" \o BranchExact(inst, self, other) IN
     IF detailed
     THEN /\ pool' = DropAt([pool EXCEPT ![ev.i] = m2], ev.j)
          /\ bug' = nbug
          /\ act' = [a |-> "merge"]
          /\ IF propok THEN TRUE
             ELSE IF nbug > 0 THEN PrintT(<<"KNOWN", i, IF known THEN shape ELSE inst.v \o ":after-stale-mask">>)
             ELSE PrintT(<<"PROP-REJECT", i, "unexplained:" \o shape>>)
          /\ UNCHANGED <<inst, nparse, alive>>
     ELSE /\ IF propok THEN PrintT(<<"DETAIL", i, shape>>)
             ELSE PrintT(<<"PROP-REJECT", i, (IF ev.res = "panic" THEN "panic:merge:" ELSE "merge-deviates:") \o shape>>)
          /\ alive' = FALSE /\ UNCHANGED vars

\* totality: parse_response returns a value or nothing
Datagram ==
  /\ ev.t = "D"
  /\ IF ev.res # "panic" THEN TRUE ELSE PrintT(<<"PROP-REJECT", i, "panic:response:" \o ev.hk>>)
  /\ UNCHANGED <<vars, alive>>

TNext == /\ i <= Len(Rec) /\ i' = i + 1
         /\ (NewRun \/ Skip \/ Parse \/ MergeEv \/ Datagram)
TSpec == TInit /\ [][TNext]_<<vars, tv>>

Consumed ==
  LET d == TLCGet("stats").diameter IN
  IF d = Len(Rec) + 1 THEN TRUE
  ELSE PrintT(<<"TRACE REJECTED", "event", d, ToJson(Rec[d])>>) /\ FALSE
=============================================================================
