----------------------------- MODULE SrvInfoTrace -----------------------------
(* Direction B: traces of the real PartialServerInfo with real-size infos (64 clients with
   maximal-length names, datagrams filled up to 1400 bytes, up to 64 packets, parts of two
   servers, repeated / overlapping parts, take_info at any moment), and of parse_response on
   arbitrary datagrams.

     {"t":"I","inst":{parts:[{srv,v,tok,main,n,off,cl}],rec:[..]}}   a new run
     {"t":"P","p":k,"res":"ok"|"none"|"panic"}         part k rendered, parsed, appended to the pool
     {"t":"M","i":i,"j":j,"res":"ok"|"overlap"|"tokens"|"versions"|"notmulti"|"panic",
      "obs":{complete,clients,srv,n},"obsq":{..},"same":b}
                                                       pool[i].merge(pool[j]); obs = get_info on
                                                       pool[i]; obsq = the same history on a second pool
                                                       on which get_info is never called (observed
                                                       through a clone); same = an error left pool[i]
                                                       as it was
     {"t":"K","i":i,"obs":{..}}                        pool[i].take_info()
     {"t":"D","hk":kind,"len":n,"res":kind|"none"|"panic"}   parse_response on an arbitrary datagram

   Every M / K event must be a step of SrvInfo.tla (MergeInto, MergeRepeated_KnownBug or TakeInfo of
   the model selected by MaskUpdated), *and* - when it concerns partials the property speaks about -
   is judged at the property level; the verdict of each step is printed:
             <<"PROP-REJECT", event, key>>  the observable result is not what the set of merged
                                            parts warrants and no known-bug step explains it (or
                                            panic): violation;
             <<"KNOWN", event, shape>>      it is not, and a MergeRepeated_KnownBug step explains it;
             <<"DETAIL", event, what>>      observable result as the property demands (or the property
                                            is silent) but not the step of this detailed model. *)
EXTENDS SrvInfo, Json, IOUtils

Rec == ndJsonDeserialize(IOEnv.TRACE)
VARIABLES i, alive
tv == <<i, alive>>
ev == Rec[i]

InstOf(j) == MkInst([p \in 1..Len(j.parts) |->
                       [srv |-> j.parts[p].srv, v |-> j.parts[p].v, tok |-> j.parts[p].tok, main |-> j.parts[p].main,
                        n |-> j.parts[p].n, off |-> j.parts[p].off, cl |-> j.parts[p].cl]], j.rec)
ObsOf(o) == [complete |-> o.complete, clients |-> o.clients, srv |-> o.srv, n |-> o.n]

TInit == /\ i = 1 /\ alive = TRUE
         /\ inst = [parts |-> <<>>, rec |-> <<>>, wf |-> {}] /\ pool = <<>> /\ cnt = <<>> /\ bug = 0 /\ act = [a |-> "init"]

NewRun ==
  /\ ev.t = "I"
  /\ inst' = InstOf(ev.inst) /\ pool' = <<>> /\ cnt' = <<>> /\ bug' = 0 /\ act' = [a |-> "init"] /\ alive' = TRUE

Skip == /\ ~alive /\ ev.t \in {"P", "M", "K"} /\ UNCHANGED <<vars, alive>>

Parse ==
  /\ alive /\ ev.t = "P"
  /\ LET part == inst.parts[ev.p]
         want == IF Parses(part) THEN "ok" ELSE "none" IN
     IF ev.res = want
     THEN /\ pool' = IF want = "ok" THEN Append(pool, ParsePart(inst, ev.p)) ELSE pool
          /\ act' = [a |-> "parse", p |-> ev.p] /\ UNCHANGED <<inst, cnt, bug, alive>>
     ELSE /\ IF ev.res = "panic" THEN PrintT(<<"PROP-REJECT", i, "panic:parse-of-part:" \o part.v>>)
             ELSE IF want = "ok" /\ part.srv \in inst.wf THEN PrintT(<<"PROP-REJECT", i, "parse-rejected-valid-part:" \o part.v>>)
             ELSE PrintT(<<"DETAIL", i, "parse-of-part:" \o part.v \o ":" \o ev.res>>)
          /\ alive' = FALSE /\ UNCHANGED vars

MergeEv ==
  /\ alive /\ ev.t = "M"
  /\ LET self == pool[ev.i]
         other == pool[ev.j]
         known == StaleMaskMatters(inst, self, other)
         br == Branch(self, other)
         res == ResOf(br)
         m == Merge(self, other)
         judged == SameInfo(inst, self, other)
         m2 == IF judged THEN [m EXCEPT !.got = PropGot(self, other, res)] ELSE m
         got == ObsOf(ev.obs)
         gotq == ObsOf(ev.obsq)
         detailed == ev.res = res /\ got = Obs(inst, m2) /\ gotq = got /\ ev.same
         \* property level: the result is legal and the observation is what the merged set warrants
         pgot == PropGot(self, other, ev.res)
         propok == ~judged \/ (ev.res \in {"ok", "overlap"} /\ PropResultOk(self, other, ev.res)
                               /\ got = PropObs(inst, pgot) /\ gotq = got)
         nbug == bug + (IF known THEN 1 ELSE 0)
         shape == self.ver \o ":" \o br \o "-for-" \o BranchExact(inst, self, other) IN
     IF ev.res = "panic" THEN
          /\ PrintT(<<"PROP-REJECT", i, "panic:merge:" \o shape>>)
          /\ alive' = FALSE /\ UNCHANGED vars
     ELSE IF detailed
     THEN /\ pool' = DropAt([pool EXCEPT ![ev.i] = m2], ev.j)
          /\ bug' = nbug
          /\ act' = [a |-> "merge"]
          /\ IF propok THEN TRUE
             ELSE IF nbug > 0 THEN PrintT(<<"KNOWN", i, IF known THEN shape ELSE self.ver \o ":after-stale-mask">>)
             ELSE PrintT(<<"PROP-REJECT", i, "unexplained:" \o shape>>)
          /\ UNCHANGED <<inst, cnt, alive>>
     ELSE /\ IF propok THEN PrintT(<<"DETAIL", i, shape>>)
             ELSE PrintT(<<"PROP-REJECT", i, "merge-deviates:" \o shape>>)
          /\ alive' = FALSE /\ UNCHANGED vars

TakeEv ==
  /\ alive /\ ev.t = "K"
  /\ LET x == pool[ev.i]
         got == ObsOf(ev.obs)
         judged == Pure(inst, x)
         propok == ~judged \/ got = PropObs(inst, x.got) IN
     IF ev.obs.srv = -9 THEN
          /\ PrintT(<<"PROP-REJECT", i, "panic:take:" \o x.ver>>)
          /\ alive' = FALSE /\ UNCHANGED vars
     ELSE IF got = Obs(inst, x)
     THEN /\ pool' = IF Complete(inst, x) THEN [pool EXCEPT ![ev.i] = Spent] ELSE pool
          /\ act' = [a |-> "take"]
          /\ IF propok THEN TRUE
             ELSE IF bug > 0 THEN PrintT(<<"KNOWN", i, x.ver \o ":after-stale-mask">>)
             ELSE PrintT(<<"PROP-REJECT", i, "unexplained:take:" \o x.ver>>)
          /\ UNCHANGED <<inst, cnt, bug, alive>>
     ELSE /\ IF propok THEN PrintT(<<"DETAIL", i, "take:" \o x.ver>>)
             ELSE PrintT(<<"PROP-REJECT", i, "take-deviates:" \o x.ver>>)
          /\ alive' = FALSE /\ UNCHANGED vars

\* totality: parse_response returns a value or nothing
Datagram ==
  /\ ev.t = "D"
  /\ IF ev.res # "panic" THEN TRUE ELSE PrintT(<<"PROP-REJECT", i, "panic:response:" \o ev.hk>>)
  /\ UNCHANGED <<vars, alive>>

TNext == /\ i <= Len(Rec) /\ i' = i + 1
         /\ (NewRun \/ Skip \/ Parse \/ MergeEv \/ TakeEv \/ Datagram)
TSpec == TInit /\ [][TNext]_<<vars, tv>>

Consumed ==
  LET d == TLCGet("stats").diameter IN
  IF d = Len(Rec) + 1 THEN TRUE
  ELSE PrintT(<<"TRACE REJECTED", "event", d, ToJson(Rec[d])>>) /\ FALSE
=============================================================================
