SPECIFICATION TSpec
CONSTANTS MaskUpdated = TRUE
POSTCONDITION Consumed
