---------------------------- MODULE MC_SrvInfoWire ----------------------------
(* Exhaustive families of datagrams for SrvInfoWire!Parse (direction A, parsing half of C18).
   Every family is built from the documented layout with one or two dimensions swept jointly;
   each member is one initial state; ExportInv prints <<"W", case, Parse(case.d)>> for the
   harness.  Laws checked by TLC on every member: Total (Parse yields a value of the grammar),
   MaskFits, SaneWhenSome, ListLaw, RoundTrip (a datagram rendered from a value parses to it). *)
EXTENDS SrvInfoWire

\* ---------------------------------------------------------------- rendering
RECURSIVE DigitsOf(_)
DigitsOf(n) == IF n < 10 THEN <<48 + n>> ELSE DigitsOf(n \div 10) \o <<48 + (n % 10)>>
Dec(n) == IF n >= 0 THEN DigitsOf(n)
          ELSE IF n = MinInt THEN <<45, 50, 49, 52, 55, 52, 56, 51, 54, 52, 56>> ELSE <<45>> \o DigitsOf(-n)
Z(b) == b \o <<0>>
\* canonical variable-length integer (spec/varint/VarInt.tla Encode)
RECURSIVE VarRest(_)
VarRest(m) == IF m = 0 THEN <<>> ELSE <<(m % 128) + (IF m \div 128 # 0 THEN 128 ELSE 0)>> \o VarRest(m \div 128)
Var(x) == LET m == IF x < 0 THEN Flip(x) ELSE x IN
          <<(m % 64) + (IF x < 0 THEN 64 ELSE 0) + (IF m \div 64 # 0 THEN 128 ELSE 0)>> \o VarRest(m \div 64)
Asc(n) == Rep(97, IF n < 0 THEN 0 ELSE n)

Own == <<1, 2, 3, 4>>
Their == <<5, 6, 7, 8>>
InfoHks == {"info5", "info6", "info6ddper", "info664", "info6ex", "info6exmore", "info7"}

\* default values of the header fields of kind k carrying ncl clients
GoodI(k, ncl) == [tok |-> 7, flags |-> 1, prog |-> 50, skill |-> 2, np |-> Min2(1, ncl), mp |-> 8,
                  nc |-> ncl, mc |-> 16, off |-> 0, pno |-> 1, crc |-> -559038737, msize |-> 5805]
GoodS == [version |-> <<48, 46, 54>>, name |-> <<115, 114, 118>>, map |-> <<100, 109, 49>>, gametype |-> <<68, 77>>,
          hostname |-> <<104>>, extra |-> <<>>]
\* client m (0-based): names descend so that sorting matters; every field varies
CliI(m) == [country |-> m - 1, score |-> 10 - m, isp |-> m % 2, cflags |-> m]
CliS(m) == [name |-> <<99, 57 - (m % 10)>>, clan |-> <<107, 48 + (m % 3)>>, extra |-> <<>>]

FieldBytes(k, f, iv, sv) == IF f.t = "i" THEN (IF k = "v7" THEN Var(iv[f.n]) ELSE Z(Dec(iv[f.n]))) ELSE Z(sv[f.n])
\* ov: field index -> raw bytes replacing the field's encoding
Fields(k, flds, iv, sv, ov) ==
  FlattenSeq([x \in 1..Len(flds) |-> IF x \in DOMAIN ov THEN ov[x] ELSE FieldBytes(k, flds[x], iv, sv)])
NoOv == <<>>
Clients(k, ncl) == FlattenSeq([m \in 1..ncl |-> Fields(k, CliFields(k), CliI(m - 1), CliS(m - 1), NoOv)])
HkOf(k) == CHOOSE hk \in InfoHks : KindOf(hk) = k
Dgram(hk, payload) == Header(hk, Own, Their) \o payload
Info(k, iv, ncl) == Dgram(HkOf(k), Fields(k, HdrFields(k), iv, GoodS, NoOv) \o Clients(k, ncl))
InfoKinds == {"v5", "v6", "v6ddper", "v664", "v6ex", "v6exmore", "v7"}
Case(fam, d) == [fam |-> fam, d |-> d]

\* ---------------------------------------------------------------- (1) headers
Pattern(n) == [j \in 1..n |-> ((j - 1) * 37 + 5) % 256]
Pay(hk) == IF hk \in {"list5"} THEN Pattern(8)
           ELSE IF hk \in {"list6", "list7"} THEN Pattern(20)
           ELSE IF hk \in {"count", "count7"} THEN <<1, 2>>
           ELSE IF hk = "token7" THEN <<9, 10, 11, 12>>
           ELSE LET k == KindOf(hk) IN Fields(k, HdrFields(k), GoodI(k, 2), GoodS, NoOv) \o Clients(k, 2)
Base(hk) == Dgram(hk, Pay(hk))
HdrLen(hk) == Len(Header(hk, Own, Their))
HdrByte(hks, vals) == UNION {{Case("hdrbyte:" \o hk, [Base(hk) EXCEPT ![i] = v]) : i \in 1..HdrLen(hk), v \in vals} : hk \in hks}
\* every prefix of a valid datagram (header and payload cut at every byte)
Cuts(hks) == UNION {{Case("cut:" \o hk, SubSeq(Base(hk), 1, n)) : n \in 0..Len(Base(hk))} : hk \in hks}
\* the extended-request echo / the ddper marker in front of every kind
Prefixed(hks) == UNION {{Case("prefix:" \o hk, pre \o SubSeq(Base(hk), 7, Len(Base(hk)))) :
                           pre \in {<<120, 101, 0, 0, 0, 0>>, <<100, 112, 0, 0, 0, 0>>, <<100, 112, 9, 9, 9, 9>>,
                                    <<64, 0, 0, 0, 0, 0>>, <<191, 255, 255, 255, 255, 255>>}} : hk \in hks}

\* ---------------------------------------------------------------- (2) lists (3) counts (4) tokens
ListLens(hk) == LET r == IF hk = "list5" THEN 6 ELSE 18 IN 0..(3 * r)
ListCut == UNION {{Case("listlen:" \o hk, Dgram(hk, Pattern(n))) : n \in ListLens(hk)} : hk \in {"list5", "list6", "list7"}}
Ports == {<<0, 0>>, <<0, 1>>, <<1, 0>>, <<255, 255>>, <<32, 108>>}
Ips6 == {Mapping \o <<1, 2, 3, 4>>, Rep(0, 16), Rep(255, 16), Rep(0, 15) \o <<1>>, <<32, 1, 13, 184>> \o Pattern(12)}
        \cup {[Mapping \o <<1, 2, 3, 4>> EXCEPT ![i] = 1] : i \in 1..12}
ListRec == {Case("listrec:" \o hk, Dgram(hk, ip \o port \o junk)) :
              hk \in {"list6", "list7"}, ip \in Ips6, port \in Ports, junk \in {<<>>, Pattern(5)}}
           \cup {Case("listrec:list5", Dgram("list5", ip \o port \o junk)) :
                   ip \in {<<0, 0, 0, 0>>, <<255, 255, 255, 255>>, <<1, 2, 3, 4>>}, port \in Ports, junk \in {<<>>, Pattern(5)}}
CountCases == {Case("count:" \o hk, Dgram(hk, p)) : hk \in {"count", "count7"},
                 p \in {<<>>, <<1>>, <<0, 0>>, <<0, 1>>, <<1, 0>>, <<255, 255>>, <<1, 2, 3>>, <<255, 254, 253, 252>>}}
TokenCases == {Case("token7", Header("token7", own, Their) \o SubSeq(<<9, 10, 11, 12, 13, 14>>, 1, n)) :
                 own \in {Own, Rep(255, 4), Rep(0, 4)}, n \in 0..6}

\* ---------------------------------------------------------------- (5) counts x records
M(k) == IF MaxClients(k) < 0 THEN 64 ELSE MaxClients(k)
CountsFam(kinds, Bnd(_), ncls) ==
  UNION {{Case("counts:" \o k, Info(k, [GoodI(k, 1) EXCEPT !.np = a, !.mp = b, !.nc = c, !.mc = e], n)) :
            a \in Bnd(k), b \in Bnd(k), c \in Bnd(k), e \in Bnd(k), n \in ncls} : k \in kinds \ {"v6exmore"}}
BndQuick(k) == {-1, 0, 1, M(k), M(k) + 1}
BndFull(k) == {MinInt, -1, 0, 1, 2, M(k) - 1, M(k), M(k) + 1, MaxInt}
\* (6) 6_64: offset x number of client records   (7) 6ex: packet number x records
Offsets == {MinInt, -1, 0, 1, 23, 24, 60, 61, 62, 63, 64, 65, 100, MaxInt}
OffsetFam(ns) == {Case("offset", Info("v664", [GoodI("v664", 64) EXCEPT !.off = o, !.mc = 64, !.mp = 64], n)) : o \in Offsets, n \in ns}
Pnos == {MinInt, -1, 0, 1, 2, 62, 63, 64, 65, MaxInt}
PnoFam(ns) == {Case("pno", Info("v6exmore", [GoodI("v6exmore", 0) EXCEPT !.pno = p], n)) : p \in Pnos, n \in ns}

\* ---------------------------------------------------------------- (8)-(11) one field replaced
\* the datagram of kind k with 2 clients in which field x (header fields first, then the fields of
\* the first and of the second client) is encoded by the raw bytes `raw`
AllFields(k) == HdrFields(k) \o CliFields(k) \o CliFields(k)
WithField(k, x, raw) ==
  LET H == Len(HdrFields(k))
      C == Len(CliFields(k))
      hov == IF x <= H THEN (x :> raw) ELSE NoOv
      cov(m) == IF x > H + m * C /\ x <= H + (m + 1) * C THEN ((x - H - m * C) :> raw) ELSE NoOv IN
  Dgram(HkOf(k), Fields(k, HdrFields(k), GoodI(k, 2), GoodS, hov)
                 \o Fields(k, CliFields(k), CliI(0), CliS(0), cov(0))
                 \o Fields(k, CliFields(k), CliI(1), CliS(1), cov(1)))
NumIdx(k) == {x \in 1..Len(AllFields(k)) : AllFields(k)[x].t = "i"}
StrIdx(k) == {x \in 1..Len(AllFields(k)) : AllFields(k)[x].t = "s"}
BoundVals == {MinInt, -2, -1, 0, 1, 2, 63, 64, 65, MaxInt}
\* (8) every numeric field at its boundaries (canonical encoding)
NumBound(kinds) == UNION {{Case("numbound:" \o k, WithField(k, x, FieldBytes(k, F("v", "i", 0), [v |-> n], <<>>))) :
                             x \in NumIdx(k), n \in BoundVals} : k \in kinds}
\* (9) decimal forms (0.5 / 0.6 kinds)
DecForms == {<<>>, <<45>>, <<43>>, <<43, 49>>, <<45, 48>>, <<45, 49>>, <<48, 49>>, <<49, 120>>, <<32, 49>>, <<49, 32>>,
             <<49, 46, 48>>, <<48, 120, 49>>, Dec(MaxInt), <<50, 49, 52, 55, 52, 56, 51, 54, 52, 56>>, Dec(MinInt),
             <<45, 50, 49, 52, 55, 52, 56, 51, 54, 52, 57>>, Rep(57, 11), <<217, 161>>, <<49, 255>>, <<48, 48, 48, 48, 48, 48, 48, 48, 48, 48, 48, 50>>}
DecFam(kinds) == UNION {{Case("decform:" \o k, WithField(k, x, Z(f))) : x \in NumIdx(k), f \in DecForms} : k \in kinds \ {"v7"}}
\* (10) variable-length integer forms (0.7): shortest, overlong, padding bits, cut
VarForms == {<<0>>, <<1>>, <<63>>, <<64>>, <<127>>, <<128, 1>>, <<129, 0>>, <<129, 128, 0>>, <<129, 128, 128, 128, 0>>,
             <<191, 255, 255, 255, 15>>, <<255, 255, 255, 255, 15>>, <<128, 128, 128, 128, 16>>, <<128, 128, 128, 128, 96>>,
             <<128, 128, 128, 128, 112>>, <<129, 128, 128, 128, 255>>, <<128>>, <<192, 128, 128>>, <<130, 128, 128, 128, 128>>}
VarFam == {Case("varform", WithField("v7", x, f)) : x \in NumIdx("v7"), f \in VarForms}
\* (11) strings around their capacity, multi-byte characters across the cut, malformed UTF-8
StrForms(cap) == {<<>>, Asc(cap - 1), Asc(cap), Asc(cap + 1), Asc(cap + 7),
                  Asc(cap - 1) \o <<195, 164>>, Asc(cap - 2) \o <<195, 164>>, Asc(cap - 1) \o <<226, 130, 172>>,
                  Asc(cap - 2) \o <<226, 130, 172>>, Asc(cap - 3) \o <<226, 130, 172>>, Asc(cap - 1) \o <<240, 159, 152, 128>>,
                  Asc(cap - 3) \o <<240, 159, 152, 128>>, Asc(cap - 4) \o <<240, 159, 152, 128>> \o <<98>>,
                  <<255>>, <<128>>, <<192, 128>>, <<237, 160, 128>>, <<244, 144, 128, 128>>, <<195>>, <<65, 226, 130>>,
                  Asc(cap) \o <<255>>, <<1, 32, 127>>}
StrFam(kinds) == UNION {UNION {{Case("strform:" \o k, WithField(k, x, Z(f))) : f \in StrForms(AllFields(k)[x].cap)} : x \in StrIdx(k)} : k \in kinds}
\* an unterminated last string / a missing terminator inside
\* (12) order of the client list: three clients whose records share fields, in every order; equal records
SortRecs == <<[name |-> <<97>>, clan |-> <<98>>, country |-> 1, score |-> 2, f |-> 0],
              [name |-> <<97>>, clan |-> <<98>>, country |-> 1, score |-> 2, f |-> 1],
              [name |-> <<97>>, clan |-> <<98>>, country |-> 1, score |-> 1, f |-> 1],
              [name |-> <<97>>, clan |-> <<98>>, country |-> 0, score |-> 9, f |-> 1],
              [name |-> <<97>>, clan |-> <<97, 97>>, country |-> 5, score |-> 9, f |-> 1],
              [name |-> <<65, 122>>, clan |-> <<122>>, country |-> 5, score |-> 9, f |-> 1],
              [name |-> <<97, 0 + 97>>, clan |-> <<>>, country |-> -1, score |-> -9, f |-> 0]>>
SortCli(k, r) == Fields(k, CliFields(k), [country |-> r.country, score |-> r.score, isp |-> 1 - r.f, cflags |-> r.f],
                        [name |-> r.name, clan |-> r.clan, extra |-> <<>>], NoOv)
SortFam(kinds, picks) ==
  UNION {{Case("sort:" \o k, Dgram(HkOf(k), Fields(k, HdrFields(k), GoodI(k, 3), GoodS, NoOv)
                                           \o SortCli(k, SortRecs[a]) \o SortCli(k, SortRecs[b]) \o SortCli(k, SortRecs[c]))) :
            a \in picks, b \in picks, c \in picks} : k \in kinds}

\* ---------------------------------------------------------------- configurations
\* (operators with a parameter: TLC evaluates nullary constant definitions eagerly at start-up)
CasesQuick(u) ==
  HdrByte(Kinds, {0, 4, 33, 64, 255}) \cup Cuts(Kinds) \cup Prefixed(Kinds) \cup ListCut \cup ListRec \cup CountCases \cup TokenCases
  \cup CountsFam({"v5", "v6", "v664", "v6ex", "v7"}, BndQuick, {1}) \cup OffsetFam(0..4) \cup PnoFam(0..2)
  \cup NumBound(InfoKinds) \cup DecFam({"v5", "v664", "v6ex", "v6exmore"}) \cup VarFam
  \cup StrFam({"v5", "v6ex", "v6exmore", "v7"}) \cup SortFam({"v6", "v7", "v664"}, {1, 2, 4, 6})
CasesThorough(u) ==
  HdrByte(Kinds, {0, 1, 4, 5, 33, 64, 65, 100, 112, 127, 128, 191, 254, 255}) \cup Cuts(Kinds) \cup Prefixed(Kinds) \cup ListCut \cup ListRec
  \cup CountCases \cup TokenCases
  \cup CountsFam(InfoKinds, BndFull, {0, 2}) \cup OffsetFam(0..5) \cup PnoFam(0..3)
  \cup NumBound(InfoKinds) \cup DecFam(InfoKinds) \cup VarFam
  \cup StrFam(InfoKinds) \cup SortFam(InfoKinds, 1..7)

VARIABLE w
InitQuick == w \in CasesQuick(0)
InitThorough == w \in CasesThorough(0)
Next == UNCHANGED w
SpecQuick == InitQuick /\ [][Next]_w
SpecThorough == InitThorough /\ [][Next]_w

\* ---------------------------------------------------------------- laws
V == Parse(w.d)
IsInfo == V.kind \in InfoHks /\ V.info.some
\* the grammar's value is well-formed: totality of the operator on every member
Total == /\ V.kind \in Kinds \cup {"none"}
         /\ V.kind # "none" => /\ Len(V.own) \in {0, 4} /\ Len(V.their) \in {0, 4}
                               /\ V.count \in -1..65535
                               /\ \A x \in 1..Len(V.addrs) : V.addrs[x].port \in 0..65535 /\ Len(V.addrs[x].ip) \in {4, 16}
MaskFits == IsInfo => V.info.mask \subseteq 0..63
SaneWhenSome == IsInfo /\ V.kind # "info6exmore" =>
  LET i == V.info IN /\ 0 <= i.np /\ i.np <= i.nc /\ i.nc <= i.mc /\ 0 <= i.mp /\ i.mp <= i.mc
                     /\ (MaxClients(KindOf(V.kind)) >= 0 => i.mc <= MaxClients(KindOf(V.kind)))
                     /\ \A x \in 1..Len(i.clients) : Len(i.clients[x].name) <= 15 /\ Len(i.clients[x].clan) <= 11
                     /\ (V.kind = "info664" => Cardinality(i.mask) = Len(i.clients))
                     /\ (i.partial => Len(i.arrival) = Len(i.clients))
\* a list response accounts for every complete record and nothing else
ListLaw == V.kind \in {"list5", "list6", "list7"} =>
  LET r == IF V.kind = "list5" THEN 6 ELSE 18
      h == IF V.kind = "list7" THEN 17 ELSE 14 IN Len(V.addrs) = (Len(w.d) - h) \div r
\* whole-info kinds hand out their clients in the canonical order
Sorted == IsInfo =>
  \A x \in 1..(Len(V.info.clients) - 1) : ~ClientLess(V.info.clients[x + 1], V.info.clients[x])
ExportInv == PrintT(<<"W", ToJson(w), ToJson(V)>>)
=============================================================================
