------------------------------ MODULE MC_SrvInfo ------------------------------
(* All sequences of at most MaxOps received parts (repeats allowed) of every instance of
   Instances, merged in every order and every bracketing (partials into partials; at most
   MaxPool partials held at a time). *)
EXTENDS SrvInfo, Json

CONSTANTS MaxOps, MaxPool, Sizes, MaxParts, Export

\* consecutive client ranges of the given sizes
RECURSIVE Ranges(_, _)
Ranges(sizes, from) ==
  IF sizes = <<>> THEN <<>>
  ELSE <<from..(from + Head(sizes) - 1)>> \o Ranges(Tail(sizes), from + Head(sizes))
RECURSIVE SumSeq(_)
SumSeq(s) == IF s = <<>> THEN 0 ELSE Head(s) + SumSeq(Tail(s))

\* 6_64: every packet carries the header; mask bits = client slots (0-based) of the packet
Inst664(sizes) ==
  LET r == Ranges(sizes, 1) IN
  [v |-> "v664", n |-> SumSeq(sizes),
   parts |-> [p \in 1..Len(sizes) |-> [bits |-> {c - 1 : c \in r[p]}, cl |-> r[p], main |-> TRUE]]]
\* 6ex: part 1 is the main packet (implicit packet number 0), part p > 1 the "more" packet p - 1
Inst6Ex(sizes) ==
  LET r == Ranges(sizes, 1) IN
  [v |-> "v6ex", n |-> SumSeq(sizes),
   parts |-> [p \in 1..Len(sizes) |-> [bits |-> {p - 1}, cl |-> r[p], main |-> p = 1]]]

SizeSeqs == UNION {[1..k -> Sizes] : k \in 1..MaxParts}
\* assumption: a "more" packet of 6ex is never empty (servers only send one when clients are left)
Instances ==
  {Inst664(s) : s \in SizeSeqs} \cup
  {Inst6Ex(s) : s \in {x \in SizeSeqs : \A k \in 2..Len(x) : x[k] > 0}}

Init == /\ inst \in Instances /\ pool = <<>> /\ nparse = 0 /\ bug = 0 /\ act = [a |-> "init"]
DoReceive == \E p \in 1..Len(inst.parts) : Receive(p, MaxOps, MaxPool)
DoMergeInto == \E i \in 1..Len(pool), j \in 1..Len(pool) : MergeInto(i, j)
DoMergeRepeated_KnownBug == \E i \in 1..Len(pool), j \in 1..Len(pool) : MergeRepeated_KnownBug(i, j)
Next == DoReceive \/ DoMergeInto \/ DoMergeRepeated_KnownBug
Spec == Init /\ [][Next]_vars

View == <<inst, pool, nparse, bug>>

\* bags as sorted sequences of ids for the harness
BagSeq(b) == LET RECURSIVE go(_, _)
                 go(c, acc) == IF c > 64 THEN acc
                               ELSE go(c + 1, IF c \in DOMAIN b THEN acc \o [k \in 1..b[c] |-> c] ELSE acc)
             IN go(1, <<>>)
ObsJ(o) == [complete |-> o.complete, clients |-> o.clients]
ActJ(a) == IF a.a = "merge" THEN [a EXCEPT !.obs = ObsJ(a.obs), !.prop = ObsJ(a.prop)] ELSE a
PartJ(p) == [bits |-> BagSeq(BagOf({b + 1 : b \in p.bits})), cl |-> BagSeq(BagOf(p.cl)), main |-> p.main]
InstJ(x) == [v |-> x.v, n |-> x.n, parts |-> [p \in 1..Len(x.parts) |-> PartJ(x.parts[p])]]
PoolJ(pl) == [k \in 1..Len(pl) |-> [rcv |-> BagSeq(BagOf({b + 1 : b \in pl[k].rcv})), cls |-> BagSeq(pl[k].cls),
                                    hdr |-> pl[k].hdr, got |-> BagSeq(BagOf(pl[k].got))]]
StJ(i, pl, np) == [inst |-> InstJ(i), pool |-> PoolJ(pl), nparse |-> np]
ExportT ==
  Export => PrintT(<<"T", ToJson(StJ(inst, pool, nparse)), ToJson(ActJ(act')), ToJson([pool |-> PoolJ(pool'), nparse |-> nparse'])>>)
=============================================================================
