------------------------------ MODULE MC_SrvInfo ------------------------------
(* All sequences of at most MaxOps received parts (every part at most MaxRep times) of every
   instance of the families Fams, merged in every order and every bracketing (partials into
   partials; at most MaxPool partials held at a time), with take_info at any moment (Take).
   Linear = TRUE restricts the bracketing to the usual accumulator (every received part is merged
   into the first partial at once), which makes long histories affordable: every part repeated up
   to three times at every position between up to four parts. *)
EXTENDS SrvInfo, Json

CONSTANTS MaxOps, MaxRep, MaxPool, Sizes, MaxParts, Fams, Take, Linear, Export

\* consecutive client ranges of the given sizes
RECURSIVE Ranges(_, _)
Ranges(sizes, from) ==
  IF sizes = <<>> THEN <<>>
  ELSE <<from..(from + Head(sizes) - 1)>> \o Ranges(Tail(sizes), from + Head(sizes))
RECURSIVE SumSeq(_)
SumSeq(s) == IF s = <<>> THEN 0 ELSE Head(s) + SumSeq(Tail(s))
Asc(set) == SetToSortSeq(set, <)
Min2(a, b) == IF a < b THEN a ELSE b

IdRec == [c \in 1..70 |-> ((c - 1) % 64) + 1]
P664(srv, tok, n, off, ncl) == [srv |-> srv, v |-> "v664", tok |-> tok, main |-> TRUE, n |-> n, off |-> off,
                                cl |-> [k \in 1..ncl |-> off + k]]
PMain(srv, tok, n, cl) == [srv |-> srv, v |-> "v6ex", tok |-> tok, main |-> TRUE, n |-> n, off |-> 0, cl |-> cl]
PMore(srv, tok, pno, cl) == [srv |-> srv, v |-> "v6ex", tok |-> tok, main |-> FALSE, n |-> 0, off |-> pno, cl |-> cl]

\* 6_64: every packet carries the header; client c sits in slot c - 1
Parts664(srv, tok, sizes, from) ==
  LET r == Ranges(sizes, from) IN
  [p \in 1..Len(sizes) |-> P664(srv, tok, SumSeq(sizes), IF sizes[p] = 0 THEN Min2(from - 1 + SumSeq(SubSeq(sizes, 1, p - 1)), 63)
                                                           ELSE (CHOOSE c \in r[p] : \A e \in r[p] : c <= e) - 1, sizes[p])]
\* 6ex: part 1 is the main packet (implicit packet number 0), part p > 1 the "more" packet p - 1
Parts6Ex(srv, tok, sizes, from) ==
  LET r == Ranges(sizes, from) IN
  [p \in 1..Len(sizes) |-> IF p = 1 THEN PMain(srv, tok, SumSeq(sizes), Asc(r[p])) ELSE PMore(srv, tok, p - 1, Asc(r[p]))]
Inst(parts, rec) == MkInst(parts, rec)

SizeSeqs == UNION {[1..k -> Sizes] : k \in 1..MaxParts}
SizeSeqsEx == {x \in SizeSeqs : \A k \in 2..Len(x) : x[k] > 0}     \* a "more" packet of 6ex is never empty
\* servers whose clients carry equal records (all the same / two alternating)
OneRec == [c \in 1..70 |-> 1]
TwoRec == [c \in 1..70 |-> ((c - 1) % 2) * 8 + 1]

FamInst(f) ==
  CASE f = "wf" -> {Inst(Parts664(1, 7, s, 1), IdRec) : s \in SizeSeqs} \cup {Inst(Parts6Ex(1, 7, s, 1), IdRec) : s \in SizeSeqsEx}
    \* equal client records (a server full of "(connecting)" clients): kept with their multiplicity
    [] f = "dup" -> {Inst(Parts664(1, 7, s, 1), r) : s \in {x \in SizeSeqs : SumSeq(x) >= 2}, r \in {OneRec, TwoRec}}
                    \cup {Inst(Parts6Ex(1, 7, s, 1), r) : s \in {x \in SizeSeqsEx : SumSeq(x) >= 2}, r \in {OneRec, TwoRec}}
    \* the fixed four- and three-part infos of the repetition configuration
    [] f = "rep" -> {Inst(Parts664(1, 7, <<1, 1, 1, 1>>, 1), IdRec), Inst(Parts6Ex(1, 7, <<1, 1, 1, 1>>, 1), IdRec),
                     Inst(Parts664(1, 7, <<2, 1, 1>>, 1), TwoRec), Inst(Parts6Ex(1, 7, <<0, 2, 1>>, 1), TwoRec)}
    \* parts of two requests fed to the same partials: other token / other version / indistinguishable
    [] f = "twotok" -> {Inst(Parts6Ex(1, 7, <<1, 1>>, 1) \o Parts6Ex(2, 9, <<1, 1>>, 3), IdRec),
                        Inst(Parts664(1, 7, <<1, 1>>, 1) \o Parts664(2, 0, <<1, 1>>, 1), IdRec)}
    [] f = "twover" -> {Inst(Parts664(1, 7, <<1, 1>>, 1) \o Parts6Ex(2, 7, <<1, 1>>, 3), IdRec)}
    [] f = "twosame" -> {Inst(Parts6Ex(1, 7, <<1, 1>>, 1) \o <<PMain(2, 7, 2, <<3>>), PMore(2, 7, 2, <<4>>)>>, IdRec),
                         Inst(Parts664(1, 7, <<1, 1>>, 1) \o <<P664(2, 7, 3, 2, 1)>>, IdRec)}
    [] f = "tokzero" -> {Inst(Parts664(1, 0, <<1, 1>>, 1), IdRec), Inst(Parts6Ex(1, 0, <<1, 1>>, 1), IdRec)}
    \* malformed servers: overlapping and out-of-range client slots, differing announcements
    [] f = "overlap664" -> {Inst(<<P664(1, 7, 3, 0, 2), P664(1, 7, 3, 1, 2), P664(1, 7, 3, 2, 1)>>, IdRec)}
    [] f = "range664" -> {Inst(<<P664(1, 7, 64, 62, 3), P664(1, 7, 64, 63, 1), P664(1, 7, 64, 64, 1), P664(1, 7, 64, 0, 1)>>, IdRec),
                          Inst(<<P664(1, 7, 65, 0, 1), P664(1, 7, 2, -1, 0), P664(1, 7, 2, 0, 1), P664(1, 7, 2, 1, 1)>>, IdRec)}
    [] f = "diffn" -> {Inst(<<P664(1, 7, 2, 0, 1), P664(1, 7, 3, 1, 1), P664(1, 7, 1, 2, 1)>>, IdRec)}
    \* repeated and out-of-range packet numbers (more than the maximum number of parts), two main
    \* packets, an empty "more" packet
    [] f = "pno" -> {Inst(<<PMain(1, 7, 3, <<1>>), PMore(1, 7, 1, <<2>>), PMore(1, 7, 1, <<3>>), PMore(1, 7, 63, <<3>>)>>, IdRec),
                     Inst(<<PMain(1, 7, 2, <<1>>), PMore(1, 7, 64, <<2>>), PMore(1, 7, 0, <<2>>), PMore(1, 7, 63, <<2>>)>>, IdRec)}
    [] f = "twomain" -> {Inst(<<PMain(1, 7, 2, <<1>>), PMain(1, 7, 2, <<2>>), PMore(1, 7, 1, <<2>>)>>, IdRec),
                         Inst(<<PMain(1, 7, 1, <<1>>), PMore(1, 7, 1, <<>>), PMore(1, 7, 2, <<>>)>>, IdRec)}
Instances == UNION {FamInst(f) : f \in Fams}

Init == /\ inst \in Instances /\ pool = <<>> /\ cnt = [p \in 1..Len(inst.parts) |-> 0] /\ bug = 0 /\ act = [a |-> "init"]
DoReceive == \E p \in 1..Len(inst.parts) : Receive(p, MaxOps, MaxRep, IF Linear THEN 2 ELSE MaxPool)
Pairs == IF Linear THEN {<<1, 2>>} ELSE (1..Len(pool)) \X (1..Len(pool))
DoMergeInto == \E ij \in Pairs : MergeInto(ij[1], ij[2])
DoMergeRepeated_KnownBug == \E ij \in Pairs : MergeRepeated_KnownBug(ij[1], ij[2])
DoTakeInfo == Take /\ \E i \in 1..Len(pool) : TakeInfo(i)
Next == DoReceive \/ DoMergeInto \/ DoMergeRepeated_KnownBug \/ DoTakeInfo
Spec == Init /\ [][Next]_vars

View == <<inst, pool, cnt, bug>>

\* the instance families really contain what they are named after (vacuity of the configuration)
FamiliesAsNamed ==
  /\ \A x \in FamInst("wf") \cup FamInst("dup") \cup FamInst("rep") \cup FamInst("tokzero") : (1 \in x.wf)
  /\ \A x \in FamInst("twotok") \cup FamInst("twover") : (1 \in x.wf) /\ (2 \in x.wf)
  /\ \A x \in FamInst("overlap664") \cup FamInst("range664") \cup FamInst("diffn") \cup FamInst("pno") \cup FamInst("twomain") :
        ~(1 \in x.wf)
  /\ \A x \in FamInst("dup") : \E c \in 1..2 : x.rec[c] = x.rec[c + 2] \/ x.rec[c] = x.rec[c + 1]
ASSUME FamiliesAsNamed

\* bags as sorted sequences of ids for the harness
BagSeq(b) == LET RECURSIVE go(_, _)
                 go(c, acc) == IF c > 70 THEN acc
                               ELSE go(c + 1, IF c \in DOMAIN b THEN acc \o [k \in 1..b[c] |-> c] ELSE acc)
             IN go(0, <<>>)
ObsJ(o) == o
ActJ(a) == IF a.a \in {"merge", "take"} THEN [a EXCEPT !.obs = ObsJ(a.obs), !.prop = ObsJ(a.prop)] ELSE a
PartJ(x, p) == [srv |-> p.srv, v |-> p.v, tok |-> p.tok, main |-> p.main, n |-> p.n, off |-> p.off, cl |-> p.cl,
                recs |-> [k \in 1..Len(p.cl) |-> x.rec[p.cl[k]]], wf |-> p.srv \in x.wf]
InstJ(x) == [parts |-> [p \in 1..Len(x.parts) |-> PartJ(x, x.parts[p])]]
PoolJ(pl) == [k \in 1..Len(pl) |-> [rcv |-> BagSeq(BagOf({b + 1 : b \in pl[k].rcv})), cls |-> BagSeq(BagMap(inst.rec, pl[k].cls)),
                                    tok |-> pl[k].tok, hdr |-> pl[k].hdr, got |-> BagSeq(BagOf(pl[k].got)), taken |-> pl[k].taken]]
StJ(i, pl, c) == [inst |-> InstJ(i), pool |-> PoolJ(pl), cnt |-> c]
ExportT ==
  Export => PrintT(<<"T", ToJson(StJ(inst, pool, cnt)), ToJson(ActJ(act')), ToJson([pool |-> PoolJ(pool'), cnt |-> cnt'])>>)
=============================================================================
