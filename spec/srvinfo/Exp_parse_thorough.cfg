SPECIFICATION SpecThorough
CONSTANTS OffByOne = FALSE
INVARIANTS MaskFits SaneWhenSome ExportInv
