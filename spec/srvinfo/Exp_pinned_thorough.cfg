SPECIFICATION Spec
CONSTANTS
  MaskUpdated = FALSE
  MaxOps = 4
  MaxPool = 3
  Sizes = {0, 1, 2}
  MaxParts = 3
  Export = TRUE
VIEW View
INVARIANTS OnlyKnownBug
ACTION_CONSTRAINT ExportT
