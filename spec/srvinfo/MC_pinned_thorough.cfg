SPECIFICATION Spec
CONSTANTS
  MaskUpdated = FALSE
  MaxOps = 6
  MaxRep = 6
  MaxPool = 3
  Sizes = {1, 2}
  MaxParts = 4
  Fams = {"wf", "dup", "twotok", "twover", "twosame", "tokzero", "overlap664", "range664", "diffn", "pno", "twomain"}
  Take = FALSE
  Linear = FALSE
  Export = FALSE
VIEW View
INVARIANTS OnlyKnownBug ForeignInert
