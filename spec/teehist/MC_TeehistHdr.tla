---------------------------- MODULE MC_TeehistHdr ----------------------------
(* Direction A, header: every header descriptor of the family (TeehistCore, "the header") in front
   of one fixed short item stream, complete or cut off inside the header.  Checks the laws of the
   header grammar and (Export) prints one line per case with what Reader::new / Reader::read
   must deliver; the harness renders the header text, feeds it under many fragmentations (whole,
   byte by byte, random, cuts around the magic and around the end of the header, around the
   8 KiB buffer size for long headers) and compares. *)
EXTENDS TeehistCore, Json

CONSTANTS Export, Full     \* Full: the whole cross product mal x vtext x ver (thorough)

VARIABLES s, trunc         \* stream descriptor; bytes present: -2 = all, -1 = header length - 1, n >= 0

P(k, c, a, b) == [k |-> k, c |-> c, a |-> a, b |-> b]
O(sk, c, a, b) == [k |-> "o", s |-> sk, c |-> c, a |-> a, b |-> b]
Items == <<P("pn", 70, 5, -70), P("pd", 70, 1, 64), O("msg", 0, 3, 0), [k |-> "ts", a |-> 1],
           O("x_player_team", 1, 0, 7), P("pd", 70, MaxInt, MinInt), [k |-> "fin"]>>

Hd(magic, nul, mal, vtext, ver, var, num, pad) ==
  [magic |-> magic, nul |-> nul, mal |-> mal, vtext |-> vtext, ver |-> ver, var |-> var, num |-> num,
   pad |-> pad, hl |-> 0]      \* hl: filled in by the harness (length of the rendered text)
Good(ver) == Hd(Magic, TRUE, "", "plain", ver, "plain", "mid", 0)
BadMagic(i, v) == [j \in 1..16 |-> IF j = i THEN v ELSE Magic[j]]
MagicVariants == {BadMagic(i, (Magic[i] + 1) % 256) : i \in {1, 2, 9, 16}} \cup {BadMagic(1, 0), BadMagic(16, 0)}

Vers == {0, 1, 2, 3, MaxInt}
\* "+n" / "0n" are spellings of a non-negative number
VersFor(vt) == IF vt = "plain" THEN Vers \cup {-1, MinInt} ELSE Vers
HdsMal == {Hd(Magic, TRUE, m, "plain", v, "plain", "mid", 0) : m \in HdrMals, v \in {1, 2, 3}}
HdsVer == UNION {{Hd(Magic, TRUE, "", vt, v, "plain", "mid", 0) : v \in VersFor(vt)} : vt \in VersionTexts}
HdsVar == {Hd(Magic, TRUE, "", "plain", v, var, num, pad) : v \in {1, 2}, var \in HdrVars, num \in {"mid", "min", "max"},
                                                           pad \in {0, 9000}}
HdsMagic == {Hd(m, TRUE, "", "plain", 2, "plain", "mid", 0) : m \in MagicVariants}
            \cup {Hd(m, TRUE, "syntax", "word", 3, "plain", "mid", 0) : m \in MagicVariants}
HdsCross == UNION {{Hd(Magic, TRUE, m, vt, v, "plain", "mid", 0) : v \in VersFor(vt)} : m \in HdrMals, vt \in VersionTexts}
Hds == HdsMal \cup HdsVer \cup HdsVar \cup HdsMagic \cup (IF Full THEN HdsCross ELSE {})

Str(hd, items, cut, cl) ==
  [ver |-> IF hd.ver = 1 THEN 1 ELSE 2, items |-> items, cut |-> cut, cl |-> cl, hd |-> hd]
Cases ==
  {<<Str(hd, Items, 0, 0), -2>> : hd \in Hds}
  \* no terminating NUL: nothing may follow (any zero byte would end the string)
  \cup {<<Str([hd EXCEPT !.nul = FALSE], <<>>, 0, 0), -2>> : hd \in {Good(1), Good(2), Hd(Magic, TRUE, "syntax", "plain", 2, "plain", "mid", 9000)}
                                                                      \cup HdsMagic}
  \* cut off inside the header
  \cup {<<Str(hd, <<>>, 3, n), n>> : hd \in {Good(2), Hd(Magic, TRUE, "", "plain", 2, "plain", "mid", 9000)} \cup HdsMagic,
                                    n \in {-1, 0, 1, 15, 16, 17}}

Init == \E c \in Cases : s = c[1] /\ trunc = c[2]
Next == FALSE /\ UNCHANGED <<s, trunc>>
Spec == Init /\ [][Next]_<<s, trunc>>

\* what the reader must do with the case
Out == HdrOutcome(s.hd)
Exp ==
  IF trunc # -2 THEN
       [ev |-> <<>>, end |-> IF s.hd.magic # Magic /\ (trunc >= MagicLen \/ trunc = -1) THEN "err:header:wrong_magic"
                             ELSE "err:unexpected_end"]
  ELSE IF Out = "need" THEN [ev |-> <<>>, end |-> "err:unexpected_end"]
  ELSE IF Out # "ok" THEN [ev |-> <<>>, end |-> Out]
  ELSE LET r == Read(s) IN [ev |-> <<HdrEvent(s.hd)>> \o r.ev, end |-> r.end]

\* the document: 16 bytes of magic, a NUL-terminated JSON object, version "1" or "2" -- and nothing
\* else is a header this reader may accept
OnlyDocumentedHeaders ==
  (Out = "ok") <=> (s.hd.magic = Magic /\ s.hd.nul /\ s.hd.mal = "" /\ VersionReadable(s.hd.vtext) /\ s.hd.ver \in {1, 2})
\* a wrong magic is reported whatever else is wrong, and as soon as 16 bytes are there
MagicFirst == s.hd.magic # Magic => Out = "err:header:wrong_magic" /\ HdrNeed(s.hd) = MagicLen
\* a good header is followed by exactly the items of the stream
ItemsFollow == (trunc = -2 /\ Out = "ok") => (Exp.end = "fin" <=> s.ver = 2)

ExportInv ==
  Export => PrintT(<<"F", ToJson([S |-> s, sched |-> <<>>, hm |-> 0, ev |-> Exp.ev, end |-> Exp.end])>>)
=============================================================================
