----------------------------- MODULE TeehistTrace -----------------------------
(* Direction B: validation of traces recorded from the real Reader (NDJSON, one event per line)

     {"t":"R","S":{ver,items,cut,cl},"H":h,"same":b}   a new run (same = same stream as the run before)
     {"t":"C","sp":spare,"n":delivered}                the read callback was called (n = -1: end of file)
     {"t":"O","ev":{...}}                              Reader::new returned the header ({"e":"hdr"}) or
                                                       Reader::read returned Some(item)
     {"t":"E","end":"fin"|"err:<class>"|"panic"|"hang"}  the run ended (end = "fin": with dp, di = what
                                                       the accessors report changed when FINISH was read)

   Mode "detailed": every event must be the step of Teehist.tla (buffer + reader) it claims to be;
   the property-level acceptor runs along.  Mode "props": only what the user relies on
   (TeehistCore!PStep/PEnd over the observable events; equal output for equal streams) — this is
   the mode whose rejection is a violation of C17; a trace accepted here but rejected in mode
   "detailed" is drift. *)
EXTENDS Teehist, Json, IOUtils

CONSTANT Mode

Rec == ndJsonDeserialize(IOEnv.TRACE)
TraceH == Rec[1].H

VARIABLES i, refEvs, refEnd, skip, run
tvars == <<i, refEvs, refEnd, skip, run>>

ev == Rec[i]
Reject(what) == PrintT(<<"REJECT", i, what>>) /\ FALSE
Class(end) == IF end = "fin" THEN "fin" ELSE IF end \in {"panic", "hang"} THEN end ELSE "err"

Load(s) ==
  /\ S' = s /\ rd' = Rd0 /\ hdr' = FALSE /\ ws' = 0 /\ dl' = 0 /\ cap' = 0 /\ pos' = 0
  /\ evs' = <<>> /\ sched' = <<>> /\ zr' = 0 /\ pr' = Pr0
  /\ ref' = (IF s.ver = 0 \/ Mode = "detailed" THEN [ev |-> <<>>, end |-> ""]
             ELSE [ev |-> <<>>, end |-> IF HdrEnd(s) # "" THEN HdrEnd(s) ELSE Read(s).end])
  /\ tot' = Total(s)

TInit ==
  /\ i = 2 /\ refEvs = <<>> /\ refEnd = "" /\ skip = FALSE /\ run = 1
  /\ Rec[1].t = "R" /\ Init0(Rec[1].S)

TReset ==
  /\ ev.t = "R" /\ (Done \/ skip)
  /\ Load(ev.S) /\ skip' = FALSE /\ run' = run + 1
  /\ IF ev.same THEN UNCHANGED <<refEvs, refEnd>> ELSE refEvs' = <<>> /\ refEnd' = ""

\* ---- detailed
DRead ==
  /\ ev.t = "C"
  /\ IF ev.n < 0 THEN Eof ELSE Refill(ev.n, ev.sp)
  /\ IF WindowInv' THEN TRUE ELSE Reject("window")
  \* coverage witness: the real buffer was full *and* fully consumed (offset = len = capacity)
  /\ IF ev.n >= 0 /\ cap > 0 /\ dl - ws = cap /\ Committed = dl THEN PrintT(<<"COVER", "compact-all", i, dl>>) ELSE TRUE
  /\ UNCHANGED <<refEvs, refEnd>>
DOut ==
  /\ ev.t = "O"
  /\ Emit
  /\ IF (IF ~hdr THEN HEv(S) ELSE Call(S, rd).out) = ev.ev THEN TRUE ELSE Reject("detailed:other-event")
  /\ IF pr'.ok THEN TRUE ELSE Reject(pr'.why)
  /\ UNCHANGED <<refEvs, refEnd>>
QuietEnd == ~("dp" \in DOMAIN ev) \/ (ev.dp = <<>> /\ ev.di = <<>>)
DEnd ==
  /\ ev.t = "E"
  /\ IF Done THEN UNCHANGED vars ELSE Emit /\ evs' = evs
  /\ IF rd'.end = ev.end THEN TRUE ELSE Reject("detailed:other-end " \o rd'.end)
  /\ IF QuietEnd THEN TRUE ELSE Reject("sums:query-differs")
  /\ UNCHANGED <<refEvs, refEnd>>

\* ---- property level.  A rejected run is reported (one PROP-REJECT line) and skipped, so that
\* one TLC run judges every run of the file.
PReject(why) == PrintT(<<"PROP-REJECT", run, i, why>>)
PSkipRest ==
  /\ skip' = TRUE
  /\ UNCHANGED <<vars, refEvs, refEnd>>
PRead == ev.t = "C" /\ UNCHANGED vars /\ UNCHANGED <<refEvs, refEnd, skip>>
PSkipped == skip /\ ev.t # "R" /\ UNCHANGED vars /\ UNCHANGED <<refEvs, refEnd, skip>>
POut ==
  /\ ev.t = "O" /\ ~skip
  /\ LET p == IF Done THEN Bad(pr, "outcome:item-after-end")
               ELSE IF ev.ev.e = "hdr" THEN pr ELSE PStep(S, pr, ev.ev) IN
     IF p.ok
     THEN /\ pr' = p /\ evs' = Append(evs, ev.ev)
          /\ UNCHANGED <<S, rd, hdr, ws, dl, cap, pos, sched, zr, ref, tot, refEvs, refEnd, skip>>
     ELSE PReject(p.why) /\ PSkipRest
PEndEv ==
  /\ ev.t = "E" /\ ~skip
  /\ LET p0 == PFinal(S, PEnd(S, pr, ev.end), ev.end, ref.end)
         p == IF p0.ok /\ ~QuietEnd THEN Bad(p0, "sums:query-differs") ELSE p0
         same == refEnd = "" \/ (evs = refEvs /\ Class(ev.end) = refEnd) IN
     IF ~p.ok THEN PReject(p.why) /\ PSkipRest
     ELSE IF ~same THEN PReject("fragmentation:output-differs") /\ PSkipRest
     ELSE /\ pr' = p
          /\ rd' = [rd EXCEPT !.end = ev.end]
          /\ IF refEnd = "" THEN refEvs' = evs /\ refEnd' = Class(ev.end) ELSE UNCHANGED <<refEvs, refEnd>>
          /\ UNCHANGED <<S, hdr, ws, dl, cap, pos, evs, sched, zr, ref, tot, skip>>

TNext ==
  /\ i <= Len(Rec)
  /\ i' = i + 1
  /\ \/ TReset
     \/ Mode = "detailed" /\ (DRead \/ DOut \/ DEnd) /\ UNCHANGED <<skip, run>>
     \/ Mode = "props" /\ ((~skip /\ PRead) \/ PSkipped \/ POut \/ PEndEv) /\ UNCHANGED run
TSpec == TInit /\ [][TNext]_<<vars, tvars>>

Accepted ==
  LET d == TLCGet("stats").diameter IN
  IF d = Len(Rec) THEN TRUE
  ELSE PrintT(<<"TRACE REJECTED", Mode, "event", d + 1, ToJson(Rec[d + 1])>>) /\ FALSE
=============================================================================
