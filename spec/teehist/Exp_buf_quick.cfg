SPECIFICATION Spec
CONSTANTS
  KeepHistory = TRUE
  ResetOnSkip = TRUE
  H = 2
  MaxZero = 1
  GrowSet = {64}
  MaxItems = 2
  Alpha <- AlphaBufSmall
  MaxPieces = 2
  Export = TRUE
INVARIANTS WindowInv FragmentationFree PropsHold ExportInv
