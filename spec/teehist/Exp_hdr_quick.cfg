SPECIFICATION Spec
CONSTANTS
  ResetOnSkip = TRUE
  Export = TRUE
  Full = FALSE
INVARIANTS OnlyDocumentedHeaders MagicFirst ItemsFollow ExportInv
