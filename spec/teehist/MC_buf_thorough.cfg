SPECIFICATION Spec
CONSTANTS
  KeepHistory = TRUE
  ResetOnSkip = TRUE
  H = 2
  MaxZero = 1
  GrowSet = {1, 2, 5}
  MaxItems = 3
  Alpha <- AlphaBufSmall
  MaxPieces = 0
  Export = FALSE
VIEW View
INVARIANTS WindowInv FragmentationFree PropsHold
