SPECIFICATION Spec
CONSTANTS
  ResetOnSkip = FALSE
  MaxLen = 5
  Alpha <- AlphaA6
  Sweep = FALSE
  Export = FALSE
INVARIANTS TicksAsDocumented
