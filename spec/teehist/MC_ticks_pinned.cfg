SPECIFICATION Spec
CONSTANTS
  ResetOnSkip = FALSE
  MaxLen = 5
  Alpha <- AlphaA6
  Export = FALSE
INVARIANTS TicksAsDocumented
