---------------------------- MODULE TeehistCore ----------------------------
(* Pure operators of the teehistorian reader (C17).  No variables.

   Item streams are sequences of records.  Stream items (what the server wrote):
     [k |-> "pn", c, a, b]   PLAYER_NEW   cid c at (a, b)
     [k |-> "pd", c, a, b]   PLAYER_DIFF  cid c, dx = a, dy = b
     [k |-> "po", c]         PLAYER_OLD   cid c
     [k |-> "ts", a]         TICK_SKIP    dt = a
     [k |-> "in", c, a, b]   INPUT_NEW    cid c, input = <<a,b,a,b,...>> (10 ints)
     [k |-> "id", c, a, b]   INPUT_DIFF   cid c, diff  = <<a,b,a,b,...>>
     [k |-> "o", s, c, a, b] any other record, s = sub-kind (see Shape), c = first int
                             (cid / team), a = length of the string / data member,
                             b = second int
     [k |-> "fin"]           FINISH
     [k |-> "bad", a]        a message id that does not exist (a < -11, or -11 in version 1)

   A stream descriptor is [ver |-> 1 | 2, items |-> <<...>>, cut |-> 0 | 1 | 2]:
     cut = 0: the byte stream is the complete encoding of items;
     cut = 1: the byte stream ends inside the *payload* part of the last item;
     cut = 2: the byte stream ends inside the *message id* part of the last item.
   (After the last item the stream just ends; a well-formed file ends with FINISH.)

   Emitted events (what Reader::read returns), as records:
     [e |-> "start", a] [e |-> "end", a]   TickStart / TickEnd
     [e |-> "pn", c, a, b]  [e |-> "pc", c, a, b, p, q]  [e |-> "po", c, a, b]
     [e |-> "in", c, v]     [e |-> "o", s, c, a, b]
   Every emitted event also carries what the accessors of the reader report right after the call
   that returned it, as the *difference* to the call before:
     dp = <<[c |-> cid, v |-> <<x, y>> | <<>>], ...>>   Reader::player_pos(cid) that changed (<<>> = now None)
     di = <<[c |-> cid, v |-> <<10 ints>>], ...>>       Reader::input(cid) that changed
     mc = Reader::cids().end - 1                        (detailed level only)
   sorted by cid.  The property says "player positions and inputs equal the running sums of the
   recorded differences": the sums are per client id, and no record other than the player / input
   records of that client id touches them (doc/teehistorian.md: all other messages, extension
   messages included, carry no position data).
*)
EXTENDS Integers, Sequences, FiniteSets, TLC, SequencesExt

CONSTANT ResetOnSkip      \* TRUE: doc/teehistorian.md.  FALSE: the tree before fix D7.

MaxInt == 2147483647
MinInt == -2147483647 - 1

\* ---------------------------------------------------------------- arithmetic
\* 32-bit wrapping addition on 16-bit limbs (TLC integers trap on overflow)
W16 == 65536
WAdd(x, y) ==
  LET lo == (x % W16) + (y % W16)
      hi == (x \div W16) + (y \div W16) + (lo \div W16)
      h2 == ((hi + 32768) % W16) - 32768
  IN  h2 * W16 + (lo % W16)

\* saturating successor / sum for the documented tick (the documentation has no overflow rule;
\* a reader must stop with an error before the tick leaves the 32-bit range)
SatAdd(x, y) == IF x > MaxInt - y THEN MaxInt ELSE x + y      \* y >= 0

\* ---------------------------------------------------------------- byte lengths (doc/int.md)
VarLen(v) ==
  LET m == IF v < 0 THEN -(v + 1) ELSE v IN
  IF m < 64 THEN 1 ELSE IF m < 8192 THEN 2 ELSE IF m < 1048576 THEN 3
  ELSE IF m < 134217728 THEN 4 ELSE 5

Vec(a, b) == [i \in 1..10 |-> IF i % 2 = 1 THEN a ELSE b]
VecLen(v) == FoldLeft(LAMBDA acc, x : acc + VarLen(x), 0, v)

\* members of the "other" records: c = int, b = int, s = string of length a (NUL-terminated),
\* u = 16 raw bytes, d = int size a followed by a raw bytes, r = a raw bytes up to the end,
\* f = int (always 0 here: flags), n = b strings of length a each, preceded by the int b
Shape(s) ==
  CASE s = "msg" -> "cd"     [] s = "join" -> "c"      [] s = "drop" -> "cs"
    [] s = "cc" -> "cfsn"
    [] s = "x_unknown" -> "r"   [] s = "x_antibot" -> "r"
    [] s = "x_auth_init" -> "cbs"  [] s = "x_auth_login" -> "cbs"  [] s = "x_auth_logout" -> "c"
    [] s = "x_ddnetver" -> "cubs"  [] s = "x_ddnetver_old" -> "cb"
    [] s = "x_joinver6" -> "c"     [] s = "x_joinver7" -> "c"
    [] s = "x_player_finish" -> "cb"  [] s = "x_player_name" -> "cs"
    [] s = "x_player_ready" -> "c"    [] s = "x_player_rejoin" -> "c"
    [] s = "x_player_swap" -> "cb"    [] s = "x_player_team" -> "cb"
    [] s = "x_team_finish" -> "cb"    [] s = "x_team_load_failure" -> "c"
    [] s = "x_team_load_success" -> "cus"  [] s = "x_team_practice" -> "cb"
    [] s = "x_team_save_failure" -> "c"    [] s = "x_team_save_success" -> "cus"
IsEx(s) == s \notin {"msg", "join", "drop", "cc"}
SubKinds == {"msg", "join", "drop", "cc", "x_unknown", "x_antibot", "x_auth_init", "x_auth_login",
             "x_auth_logout", "x_ddnetver", "x_ddnetver_old", "x_joinver6", "x_joinver7",
             "x_player_finish", "x_player_name", "x_player_ready", "x_player_rejoin",
             "x_player_swap", "x_player_team", "x_team_finish", "x_team_load_failure",
             "x_team_load_success", "x_team_practice", "x_team_save_failure", "x_team_save_success"}

MemberLen(ch, it) ==
  CASE ch = "c" -> VarLen(it.c)  [] ch = "b" -> VarLen(it.b)  [] ch = "f" -> 1
    [] ch = "s" -> it.a + 1      [] ch = "u" -> 16            [] ch = "d" -> VarLen(it.a) + it.a
    [] ch = "r" -> it.a          [] ch = "n" -> VarLen(it.b) + it.b * (it.a + 1)
ShapeLen(sh, it) ==
  (IF "c" \in sh THEN MemberLen("c", it) ELSE 0) + (IF "b" \in sh THEN MemberLen("b", it) ELSE 0)
  + (IF "f" \in sh THEN 1 ELSE 0) + (IF "s" \in sh THEN MemberLen("s", it) ELSE 0)
  + (IF "u" \in sh THEN 16 ELSE 0) + (IF "d" \in sh THEN MemberLen("d", it) ELSE 0)
  + (IF "r" \in sh THEN MemberLen("r", it) ELSE 0) + (IF "n" \in sh THEN MemberLen("n", it) ELSE 0)
Chars(str) ==
  CASE str = "c" -> {"c"} [] str = "cb" -> {"c","b"} [] str = "cs" -> {"c","s"} [] str = "cd" -> {"c","d"}
    [] str = "cbs" -> {"c","b","s"} [] str = "cubs" -> {"c","u","b","s"} [] str = "cus" -> {"c","u","s"}
    [] str = "r" -> {"r"} [] str = "cfsn" -> {"c","f","s","n"}

\* bytes of the message-id part (for PLAYER_NEW / PLAYER_OLD it includes the cid: Kind::decode)
KLen(it) ==
  CASE it.k = "pd" -> VarLen(it.c)
    [] it.k \in {"pn", "po"} -> 1 + VarLen(it.c)
    [] it.k = "bad" -> VarLen(it.a)
    [] OTHER -> 1
\* bytes of the payload part (Kind::decode_rest)
RLen(it) ==
  CASE it.k \in {"pd", "pn"} -> VarLen(it.a) + VarLen(it.b)
    [] it.k = "ts" -> VarLen(it.a)
    [] it.k \in {"in", "id"} -> VarLen(it.c) + VecLen(Vec(it.a, it.b))
    [] it.k = "o" -> LET inner == ShapeLen(Chars(Shape(it.s)), it) IN
                     IF IsEx(it.s) THEN 16 + VarLen(inner) + inner ELSE inner
    [] OTHER -> 0
ItemLen(it) == KLen(it) + RLen(it)
ItemsLen(items) == FoldLeft(LAMBDA acc, it : acc + ItemLen(it), 0, items)

IsPlayer(it) == it.k \in {"pn", "pd", "po"}
IsData(it) == it.k \in {"pn", "pd", "po", "in", "id", "o"}

\* ---------------------------------------------------------------- the reader, one read() call
\* reader state: tick, prev (last player cid of this tick or -1... NoCid), inTick, la (kind of
\* items[idx] already taken from the buffer), idx (next item), players / inputs (partial
\* functions cid -> value), end ("" while running, "fin", or "err:<class>")
NoCid == MinInt
Rd0 == [tick |-> 0, prev |-> NoCid, inTick |-> FALSE, la |-> FALSE, idx |-> 1,
        players |-> <<>>, inputs |-> <<>>, mc |-> -1, end |-> ""]
NoOut == [e |-> "none"]
FnRemove(f, c) == [d \in (DOMAIN f) \ {c} |-> f[d]]
FnPut(f, c, v) == [d \in (DOMAIN f) \cup {c} |-> IF d = c THEN v ELSE f[d]]

\* what the accessors report: difference between two partial functions cid -> value, sorted by cid
FnGet(f, c) == IF c \in DOMAIN f THEN f[c] ELSE <<>>
DeltaOf(f, g) ==
  LET D == {c \in (DOMAIN f) \cup (DOMAIN g) : FnGet(f, c) # FnGet(g, c)}
      s == SetToSortSeq(D, LAMBDA x, y : x < y)
  IN  [i \in 1..Len(s) |-> [c |-> s[i], v |-> FnGet(g, s[i])]]
NoDelta == [dp |-> <<>>, di |-> <<>>]
DeltaFields == {"dp", "di", "mc"}
Core(ev) == [f \in (DOMAIN ev) \ DeltaFields |-> ev[f]]
WithDelta(out, pl0, pl1, in0, in1) == out @@ [dp |-> DeltaOf(pl0, pl1), di |-> DeltaOf(in0, in1)]

\* which records carry a client id for Reader::cids() (format/item.rs Item::cid): the player and
\* input records and the pass-through records whose first member is a *client* id (not a team)
SubHasCid(s) == s \in {"msg", "join", "drop", "cc", "x_auth_init", "x_auth_login", "x_auth_logout",
                        "x_ddnetver", "x_ddnetver_old", "x_joinver6", "x_joinver7", "x_player_finish",
                        "x_player_name", "x_player_ready", "x_player_rejoin", "x_player_team"}
ItemHasCid(it) == it.k \in {"pn", "pd", "po", "in", "id"} \/ (it.k = "o" /\ SubHasCid(it.s))
\* cids() is 0 .. max_cid + 1; named deviation of the code as it is: with max_cid = 2^31 - 1 the
\* accessor overflows (panics in builds with overflow checks): observed as -2
CidsOverflow_KnownBug(mc) == mc = MaxInt
McSeen(mc) == IF CidsOverflow_KnownBug(mc) THEN -2 ELSE mc

Err(st, cls) == [st |-> [st EXCEPT !.end = "err:" \o cls], out |-> NoOut]
Ret(st, out) == [st |-> st, out |-> out]

\* the payload of items[idx] is decoded and interpreted (raw.rs, after `buffer.read_item`)
Consume(st, it) ==
  LET st1 == [st EXCEPT !.idx = @ + 1, !.la = FALSE,
                        !.mc = IF ItemHasCid(it) /\ it.c > @ THEN it.c ELSE @] IN
  CASE it.k = "ts" ->
         IF it.a < 0 THEN Err(st1, "negative_dt")
         ELSE IF st.tick > MaxInt - 1 - it.a THEN Err(st1, "tick_overflow")
         ELSE LET nt == st.tick + 1 + it.a
                  pv == IF ResetOnSkip THEN NoCid ELSE st.prev IN
              IF st.inTick
              THEN Ret([st1 EXCEPT !.tick = nt, !.prev = pv, !.inTick = FALSE], [e |-> "end", a |-> st.tick])
              ELSE Ret([st1 EXCEPT !.tick = nt, !.prev = pv, !.inTick = TRUE], [e |-> "start", a |-> nt])
    [] it.k = "pn" ->
         IF it.c < 0 THEN Err(st1, "invalid_cid")
         ELSE IF it.c \in DOMAIN st.players THEN Err(st1, "player_new_duplicate")
         ELSE Ret([st1 EXCEPT !.prev = it.c, !.players = FnPut(@, it.c, <<it.a, it.b>>)],
                  [e |-> "pn", c |-> it.c, a |-> it.a, b |-> it.b])
    [] it.k = "pd" ->
         IF it.c \notin DOMAIN st.players THEN Err(st1, "player_diff_without_new")
         ELSE LET o == st.players[it.c]
                  n == <<WAdd(o[1], it.a), WAdd(o[2], it.b)>> IN
              Ret([st1 EXCEPT !.prev = it.c, !.players = FnPut(@, it.c, n)],
                  [e |-> "pc", c |-> it.c, a |-> n[1], b |-> n[2], p |-> o[1], q |-> o[2]])
    [] it.k = "po" ->
         IF it.c < 0 THEN Err(st1, "invalid_cid")
         ELSE IF it.c \notin DOMAIN st.players THEN Err(st1, "player_old_without_new")
         ELSE LET o == st.players[it.c] IN
              Ret([st1 EXCEPT !.prev = it.c, !.players = FnRemove(@, it.c)],
                  [e |-> "po", c |-> it.c, a |-> o[1], b |-> o[2]])
    [] it.k = "in" ->
         IF it.c < 0 THEN Err(st1, "invalid_cid")
         ELSE Ret([st1 EXCEPT !.inputs = FnPut(@, it.c, Vec(it.a, it.b))],
                  [e |-> "in", c |-> it.c, v |-> Vec(it.a, it.b)])
    [] it.k = "id" ->
         IF it.c < 0 THEN Err(st1, "invalid_cid")
         ELSE IF it.c \notin DOMAIN st.inputs THEN Err(st1, "input_diff_without_new")
         ELSE LET o == st.inputs[it.c]
                  d == Vec(it.a, it.b)
                  n == [i \in 1..10 |-> WAdd(o[i], d[i])] IN
              Ret([st1 EXCEPT !.inputs = FnPut(@, it.c, n)], [e |-> "in", c |-> it.c, v |-> n])
    [] it.k = "o" -> Ret(st1, [e |-> "o", s |-> it.s, c |-> it.c, a |-> it.a, b |-> it.b])
    [] it.k = "fin" -> Ret([st1 EXCEPT !.end = "fin"], NoOut)

\* does this call go on to decode the payload of items[idx]?  (else it returns a tick boundary
\* and keeps the message id as look-ahead)
Boundary(st, it) ==
  IF it.k \notin {"ts", "fin"} /\ ~st.inTick THEN "start"
  ELSE IF IsPlayer(it) /\ st.prev # NoCid /\ st.prev >= it.c THEN "implicit"
  ELSE IF it.k = "fin" /\ st.inTick THEN "finish"
  ELSE "none"

UnknownKind(S, it) == it.k = "bad" \/ (it.k = "o" /\ IsEx(it.s) /\ S.ver = 1)

\* one Reader::read call; S is the stream descriptor
Call0(S, st) ==
  IF st.idx > Len(S.items) THEN Err(st, "unexpected_end")
  ELSE LET it == S.items[st.idx]
           last == st.idx = Len(S.items) IN
  IF ~st.la /\ last /\ S.cut = 2 THEN Err(st, "unexpected_end")
  ELSE IF ~st.la /\ UnknownKind(S, it) THEN Err(st, "unknown_type")
  ELSE LET bd == Boundary(st, it) IN
  CASE bd = "start" -> Ret([st EXCEPT !.la = TRUE, !.inTick = TRUE], [e |-> "start", a |-> st.tick])
    [] bd = "implicit" ->
         IF st.tick = MaxInt THEN Err([st EXCEPT !.la = TRUE], "tick_overflow")
         ELSE Ret([st EXCEPT !.tick = @ + 1, !.prev = NoCid, !.la = TRUE, !.inTick = FALSE],
                  [e |-> "end", a |-> st.tick])
    [] bd = "finish" -> Ret([st EXCEPT !.la = TRUE, !.inTick = FALSE], [e |-> "end", a |-> st.tick])
    [] bd = "none" ->
         IF last /\ S.cut = 1 THEN Err([st EXCEPT !.la = TRUE], "unexpected_end")
         ELSE Consume(st, it)

\* ... together with what the accessors report after it
Call(S, st) ==
  LET r == Call0(S, st) IN
  IF r.out = NoOut THEN r
  ELSE [r EXCEPT !.out = WithDelta(@, st.players, r.st.players, st.inputs, r.st.inputs) @@ [mc |-> McSeen(r.st.mc)]]

\* bytes of the item part of the stream this call needs beyond what earlier calls consumed:
\* <<message-id bytes, payload bytes>>; "inf" = more than the stream holds (truncated)
Inf == 1000000000
CallNeed(S, st) ==
  IF st.idx > Len(S.items) THEN <<Inf, 0>>
  ELSE LET it == S.items[st.idx]
           last == st.idx = Len(S.items)
           kn == IF st.la THEN 0 ELSE IF last /\ S.cut = 2 THEN Inf ELSE KLen(it) IN
       IF kn = Inf \/ (~st.la /\ UnknownKind(S, it)) THEN <<kn, 0>>
       ELSE IF Boundary(st, it) # "none" THEN <<kn, 0>>
       ELSE <<kn, IF last /\ S.cut = 1 THEN Inf ELSE RLen(it)>>

\* ---------------------------------------------------------------- the header (doc/teehistorian.md)
\* "The header starts with the teehistorian UUID (699db17b-8efb-34ff-b1d8-da6f60c15dd1) ... (16
\* bytes).  It is followed by a null-terminated string that contains a JSON object containing at
\* least the key `version` ... It must be "1" or "2" for this document."
\* A header is described by a record (the harness renders it; JSON text is not parsed in TLA+):
\*   magic  the first 16 bytes as written               nul   the terminating NUL is there
\*   hl     length of the header in bytes (NUL included) as rendered (bound by the recorded reads)
\*   ver    value of "version"                          vtext how it is spelled (see VersionText)
\*   mal    "" or the one thing that is wrong with the JSON text / one of its members
\*   var    a benign variation of the text (see HdrVars) num  "mid" | "min" | "max": port, size, crc
Magic == <<105, 157, 177, 123, 142, 251, 52, 255, 177, 216, 218, 111, 96, 193, 93, 209>>
MagicLen == 16
HdrMalJson == {"utf8", "syntax", "trailing"}                          \* not a JSON text at all
HdrMalData == {"notobj", "missing", "type", "cfgtype", "dup", "sha"}  \* JSON, but not this object
HdrMalField == {"game_uuid", "start_time", "server_port", "map_size", "map_crc"}
HdrMals == {""} \cup HdrMalJson \cup HdrMalData \cup HdrMalField
\* spellings of the version number: the library parses it with Rust's i32 parser ("+2" and "02"
\* are read as 2 although the document only knows "1" and "2": lenient, kept as it is)
VersionTexts == {"plain", "plus", "zero", "space", "empty", "word", "big"}
VersionReadable(vt) == vt \in {"plain", "plus", "zero"}
HdrVars == {"plain", "esc", "extra", "ws", "sha", "nocfg", "manycfg"}
HdrNameLen(var) == IF var = "esc" THEN 7 ELSE 3
HdrNCfg(var) == CASE var = "nocfg" -> 0 [] var = "manycfg" -> 40 [] OTHER -> 1
HdrTime == 1506244953        \* 2017-09-24 11:22:33 +02:00 in either spelling

\* the order in which the library finds fault (format/mod.rs read_header, raw.rs from_header)
HdrOutcome(hd) ==
  IF hd.magic # Magic THEN "err:header:wrong_magic"
  ELSE IF ~hd.nul THEN "need"
  ELSE IF hd.mal \in HdrMalJson THEN "err:header:malformed_json"
  ELSE IF hd.mal \in HdrMalData THEN "err:header:malformed_header"
  ELSE IF ~VersionReadable(hd.vtext) THEN "err:header:malformed_version"
  ELSE IF hd.mal \in HdrMalField THEN "err:header:malformed_" \o hd.mal
  ELSE IF hd.ver \notin {1, 2} THEN "err:unknown_version"
  ELSE "ok"
\* what the library extracts from a good header
HdrEvent(hd) ==
  [e |-> "hdr", ver |-> hd.ver, time |-> HdrTime, num |-> hd.num, name |-> HdrNameLen(hd.var),
   ncfg |-> HdrNCfg(hd.var) + (IF hd.pad > 0 THEN 1 ELSE 0), sha |-> hd.var = "sha"]
\* bytes Reader::new needs before it returns: the magic is judged as soon as 16 bytes are there
HdrNeed(hd) == IF hd.magic # Magic THEN MagicLen ELSE IF ~hd.nul THEN Inf ELSE hd.hl

\* the whole event sequence (reference: by construction a function of the stream only)
RECURSIVE ReadFrom(_, _, _, _)
ReadFrom(S, st, ev, fuel) ==
  IF st.end # "" THEN [ev |-> ev, end |-> st.end, st |-> st]
  ELSE IF fuel = 0 THEN Assert(FALSE, "reader loops")
  ELSE LET r == Call(S, st) IN
       ReadFrom(S, r.st, IF r.out = NoOut THEN ev ELSE Append(ev, r.out), fuel - 1)
Read(S) == ReadFrom(S, Rd0, <<>>, 3 * Len(S.items) + 3)

\* ---------------------------------------------------------------- what the user relies on
\* Property-level acceptor over the observable events only (history variables):
\*  nest: start/end alternate, an end closes the open tick, tick numbers strictly increase;
\*  doc:  the pseudo-code of doc/teehistorian.md run over the stream items, giving every data
\*        item its tick; positions and inputs as *direct* sums over the stream (SumPos below);
\*  every data event must be the next data item of the stream, announced inside the tick the
\*  documentation assigns, carrying the summed values.
Pr0 == [ok |-> TRUE, why |-> "", open |-> FALSE, cur |-> -1, last |-> -1,
        j |-> 1, dtick |-> 0, ic |-> NoCid, pl |-> <<>>, inp |-> <<>>, lastc |-> NoCid]

\* documentation pseudo-code, one message
DocStep(p, it) ==
  LET t1 == IF it.k = "ts" /\ it.a >= 0 THEN SatAdd(SatAdd(p.dtick, it.a), 1) ELSE p.dtick
      ic1 == IF it.k = "ts" THEN NoCid ELSE p.ic
      t2 == IF IsPlayer(it) /\ ic1 # NoCid /\ it.c <= ic1 THEN SatAdd(t1, 1) ELSE t1
      ic2 == IF IsPlayer(it) THEN it.c ELSE ic1
  IN [p EXCEPT !.dtick = t2, !.ic = ic2]

\* direct (non-incremental) definition of the value a player / input record must report:
\* the last NEW before position i plus the wrapping sum of all DIFFs in between
LastNew(items, i, c, newk) ==
  LET cand == {n \in 1..(i - 1) : items[n].k = newk /\ items[n].c = c} IN
  IF cand = {} THEN 0 ELSE CHOOSE n \in cand : \A m \in cand : m <= n
\* a PLAYER_OLD between the NEW and i ends the life of the character
PosAt(items, i, c) ==     \* position of c just before item i; <<>> if it does not exist
  LET n == LastNew(items, i, c, "pn") IN
  IF n = 0 \/ \E m \in (n + 1)..(i - 1) : items[m].k = "po" /\ items[m].c = c THEN <<>>
  ELSE LET ds == SelectSeq([m \in 1..(i - 1) |-> IF m > n /\ items[m].k = "pd" /\ items[m].c = c
                                                 THEN m ELSE 0], LAMBDA m : m # 0) IN
       FoldLeft(LAMBDA acc, m : <<WAdd(acc[1], items[m].a), WAdd(acc[2], items[m].b)>>,
                <<items[n].a, items[n].b>>, ds)
InputAt(items, i, c) ==
  LET n == LastNew(items, i, c, "in") IN
  IF n = 0 THEN <<>>
  ELSE LET ds == SelectSeq([m \in 1..(i - 1) |-> IF m > n /\ items[m].k = "id" /\ items[m].c = c
                                                 THEN m ELSE 0], LAMBDA m : m # 0) IN
       FoldLeft(LAMBDA acc, m : LET d == Vec(items[m].a, items[m].b) IN [x \in 1..10 |-> WAdd(acc[x], d[x])],
                Vec(items[n].a, items[n].b), ds)

\* the event a data item must produce (values by direct sums); NoOut if the stream is
\* semantically wrong at this item (then the reader must not produce it at all)
Expect(items, i) ==
  LET it == items[i] IN
  CASE it.k = "pn" -> IF it.c >= 0 /\ PosAt(items, i, it.c) = <<>>
                      THEN [e |-> "pn", c |-> it.c, a |-> it.a, b |-> it.b] ELSE NoOut
    [] it.k = "pd" -> LET o == PosAt(items, i, it.c) IN
                      IF o = <<>> THEN NoOut
                      ELSE [e |-> "pc", c |-> it.c, a |-> WAdd(o[1], it.a), b |-> WAdd(o[2], it.b),
                            p |-> o[1], q |-> o[2]]
    [] it.k = "po" -> LET o == PosAt(items, i, it.c) IN
                      IF o = <<>> THEN NoOut ELSE [e |-> "po", c |-> it.c, a |-> o[1], b |-> o[2]]
    [] it.k = "in" -> IF it.c >= 0 THEN [e |-> "in", c |-> it.c, v |-> Vec(it.a, it.b)] ELSE NoOut
    [] it.k = "id" -> LET o == InputAt(items, i, it.c)
                          d == Vec(it.a, it.b) IN
                      IF o = <<>> THEN NoOut ELSE [e |-> "in", c |-> it.c, v |-> [x \in 1..10 |-> WAdd(o[x], d[x])]]
    [] it.k = "o" -> [e |-> "o", s |-> it.s, c |-> it.c, a |-> it.a, b |-> it.b]
    [] OTHER -> NoOut

\* the same values as *running* sums (history variables pl / inp of the acceptor, fed from the
\* stream items only); MC_TeehistTicks checks RunningIsDirect: both definitions agree
ExpectInc(p, it) ==
  CASE it.k = "pn" -> IF it.c >= 0 /\ it.c \notin DOMAIN p.pl
                      THEN [out |-> [e |-> "pn", c |-> it.c, a |-> it.a, b |-> it.b],
                            pl |-> FnPut(p.pl, it.c, <<it.a, it.b>>), inp |-> p.inp]
                      ELSE [out |-> NoOut, pl |-> p.pl, inp |-> p.inp]
    [] it.k = "pd" -> IF it.c \notin DOMAIN p.pl THEN [out |-> NoOut, pl |-> p.pl, inp |-> p.inp]
                      ELSE LET o == p.pl[it.c]
                               n == <<WAdd(o[1], it.a), WAdd(o[2], it.b)>> IN
                           [out |-> [e |-> "pc", c |-> it.c, a |-> n[1], b |-> n[2], p |-> o[1], q |-> o[2]],
                            pl |-> FnPut(p.pl, it.c, n), inp |-> p.inp]
    [] it.k = "po" -> IF it.c \notin DOMAIN p.pl THEN [out |-> NoOut, pl |-> p.pl, inp |-> p.inp]
                      ELSE LET o == p.pl[it.c] IN
                           [out |-> [e |-> "po", c |-> it.c, a |-> o[1], b |-> o[2]],
                            pl |-> FnRemove(p.pl, it.c), inp |-> p.inp]
    [] it.k = "in" -> IF it.c < 0 THEN [out |-> NoOut, pl |-> p.pl, inp |-> p.inp]
                      ELSE [out |-> [e |-> "in", c |-> it.c, v |-> Vec(it.a, it.b)],
                            pl |-> p.pl, inp |-> FnPut(p.inp, it.c, Vec(it.a, it.b))]
    [] it.k = "id" -> IF it.c \notin DOMAIN p.inp THEN [out |-> NoOut, pl |-> p.pl, inp |-> p.inp]
                      ELSE LET o == p.inp[it.c]
                               d == Vec(it.a, it.b)
                               n == [x \in 1..10 |-> WAdd(o[x], d[x])] IN
                           [out |-> [e |-> "in", c |-> it.c, v |-> n], pl |-> p.pl, inp |-> FnPut(p.inp, it.c, n)]
    [] it.k = "o" -> [out |-> [e |-> "o", s |-> it.s, c |-> it.c, a |-> it.a, b |-> it.b], pl |-> p.pl, inp |-> p.inp]
    [] OTHER -> [out |-> NoOut, pl |-> p.pl, inp |-> p.inp]

Bad(p, why) == [p EXCEPT !.ok = FALSE, !.why = why]

\* skip TICK_SKIP items (they produce no data event), running the documentation over them
RECURSIVE SkipTs(_, _)
SkipTs(items, p) ==
  IF p.j <= Len(items) /\ items[p.j].k = "ts"
  THEN SkipTs(items, [DocStep(p, items[p.j]) EXCEPT !.j = p.j + 1]) ELSE p

\* An arbitrary byte stream (S.ver = 0: corrupted, the items are not known): what the user relies
\* on can still be judged on the events alone.  The reported values must be *self-consistent*
\* running sums (a change / disappearance reports as old position what the last event of that
\* client id reported as position; no change of an absent, no appearance of a present player);
\* two player records inside one tick have strictly increasing client ids (the documentation
\* puts a record with a lower or equal id into the next tick); and the accessors report
\* exactly what the events reported.
PSelf(p, ev) ==
  LET c == IF "c" \in DOMAIN ev THEN ev.c ELSE NoCid
      isP == ev.e \in {"pn", "pc", "po"}
      pl1 == CASE ev.e = "pn" -> FnPut(p.pl, c, <<ev.a, ev.b>>)
               [] ev.e = "pc" -> FnPut(p.pl, c, <<ev.a, ev.b>>)
               [] ev.e = "po" -> FnRemove(p.pl, c)
               [] OTHER -> p.pl
      in1 == IF ev.e = "in" THEN FnPut(p.inp, c, ev.v) ELSE p.inp
  IN
  IF isP /\ p.lastc # NoCid /\ c <= p.lastc THEN Bad(p, "ticks:not-as-documented")
  ELSE IF ev.e = "pn" /\ c \in DOMAIN p.pl THEN Bad(p, "sums:wrong-value")
  ELSE IF ev.e \in {"pc", "po"} /\ c \notin DOMAIN p.pl THEN Bad(p, "sums:wrong-value")
  ELSE IF ev.e = "pc" /\ p.pl[c] # <<ev.p, ev.q>> THEN Bad(p, "sums:wrong-value")
  ELSE IF ev.e = "po" /\ p.pl[c] # <<ev.a, ev.b>> THEN Bad(p, "sums:wrong-value")
  ELSE IF ev.dp # DeltaOf(p.pl, pl1) \/ ev.di # DeltaOf(p.inp, in1) THEN Bad(p, "sums:query-differs")
  ELSE [p EXCEPT !.pl = pl1, !.inp = in1, !.lastc = IF isP THEN c ELSE @]

\* one observed event
PStep(S, p0, ev) ==
  IF ~p0.ok THEN p0
  ELSE IF ev.e \in {"start", "end"} /\ (ev.dp # <<>> \/ ev.di # <<>>) THEN Bad(p0, "sums:query-differs")
  ELSE IF ev.e = "start" THEN
         IF p0.open THEN Bad(p0, "nesting:start-inside-tick")
         ELSE IF ev.a <= p0.last THEN Bad(p0, "nesting:tick-not-increasing")
         ELSE [p0 EXCEPT !.open = TRUE, !.cur = ev.a, !.last = ev.a, !.lastc = NoCid]
  ELSE IF ev.e = "end" THEN
         IF ~p0.open THEN Bad(p0, "nesting:end-outside-tick")
         ELSE IF ev.a # p0.cur THEN Bad(p0, "nesting:end-of-other-tick")
         ELSE [p0 EXCEPT !.open = FALSE]
  ELSE IF S.ver = 0 THEN      \* unknown (corrupted) stream
         IF ~p0.open THEN Bad(p0, "nesting:item-outside-tick") ELSE PSelf(p0, ev)
  ELSE LET p == SkipTs(S.items, p0) IN
       IF p.j > Len(S.items) \/ ~IsData(S.items[p.j]) THEN Bad(p, "item:not-in-stream")
       ELSE LET it == S.items[p.j]
                d == DocStep(p, it)
                x == ExpectInc(p, it)
                want == x.out IN
            IF ~p.open THEN Bad(p, "nesting:item-outside-tick")
            ELSE IF want = NoOut \/ ev.e # want.e THEN Bad(p, "item:not-in-stream")
            ELSE IF Core(ev) # want THEN Bad(p, IF ev.e \in {"pc", "po", "in"} THEN "sums:wrong-value" ELSE "item:altered")
            ELSE IF p.cur # d.dtick THEN Bad(p, "ticks:not-as-documented")
            \* the accessors report the running sums: only this record's client id changed
            ELSE IF ev.dp # DeltaOf(p.pl, x.pl) \/ ev.di # DeltaOf(p.inp, x.inp) THEN Bad(p, "sums:query-differs")
            ELSE [d EXCEPT !.j = p.j + 1, !.pl = x.pl, !.inp = x.inp]

\* the end of a run: "fin" is legal only when every data item of a complete, semantically
\* valid stream was reported and no tick is left open; an error is always acceptable to the
\* property ("yields items or an error") unless the stream was valid up to its FINISH
PEnd(S, p0, end) ==
  IF ~p0.ok THEN p0
  ELSE IF end \in {"panic", "hang"} THEN Bad(p0, "outcome:" \o end)
  ELSE IF S.ver = 0 THEN (IF end = "fin" /\ p0.open THEN Bad(p0, "nesting:tick-left-open") ELSE p0)
  ELSE LET p == SkipTs(S.items, p0) IN
       IF end = "fin" THEN
            IF p.open THEN Bad(p, "nesting:tick-left-open")
            ELSE IF p.j > Len(S.items) \/ S.items[p.j].k # "fin" THEN Bad(p, "outcome:finish-too-early")
            ELSE p
       ELSE p

\* the running sums are the direct sums: for every data item position j of a stream
RunningIsDirectAt(S, p, j) == ExpectInc(p, S.items[j]).out = Expect(S.items, j)

PRun(S, evs, end) == PEnd(S, FoldLeft(LAMBDA p, ev : PStep(S, p, ev), Pr0, evs), end)
\* a valid stream (complete, and its reference reading `refEnd` reaches FINISH) must be read to its end
PFinal(S, p, end, refEnd) ==
  IF ~p.ok THEN p
  ELSE IF end # "fin" /\ S.cut = 0 /\ refEnd = "fin" THEN Bad(p, "outcome:error-on-valid-stream")
  ELSE p
PAccept(S, evs, end, refEnd) == PFinal(S, PRun(S, evs, end), end, refEnd)
=============================================================================
