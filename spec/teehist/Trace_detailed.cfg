SPECIFICATION TSpec
CONSTANTS
  KeepHistory = FALSE
  ResetOnSkip = TRUE
  H <- TraceH
  MaxZero = 0
  GrowSet = {}
  Mode = "detailed"
POSTCONDITION Accepted
