---------------------------- MODULE MC_TeehistBuf ----------------------------
(* Model checking of the buffer / fragmentation half of Teehist.tla: every stream of
   StreamSet, every schedule of refill sizes (0 included), compactions and growth amounts. *)
EXTENDS Teehist, Json

CONSTANTS MaxItems,      \* streams of at most this many items
          Alpha,
          MaxPieces,     \* 0 = unbounded; else the MaxPieces-th non-empty read delivers all the rest
          Export

P(k, c, a, b) == [k |-> k, c |-> c, a |-> a, b |-> b]
O(s, c, a, b) == [k |-> "o", s |-> s, c |-> c, a |-> a, b |-> b]
Ts(dt) == [k |-> "ts", a |-> dt]
Fin == [k |-> "fin"]
AlphaBuf ==
  {P("pn", 0, 5, -70), P("pd", 0, 1, 64), [k |-> "po", c |-> 0], P("pn", 1, 0, 0), P("pd", 1, -3, 3),
   Ts(0), O("msg", 0, 3, 0), O("x_auth_logout", 1, 0, 0), Fin}
\* cid 70: the message-id part of PLAYER_NEW is 3 bytes, of PLAYER_DIFF 2 bytes (splits inside it)
AlphaBufSmall ==
  {P("pn", 70, 5, -70), P("pd", 70, 1, 64), Ts(0), O("msg", 0, 2, 0), Fin}

Seqs == UNION {[1..n -> Alpha] : n \in 0..MaxItems}
\* all truncations of the encodings, and the complete streams
Streams ==
  {[ver |-> 2, items |-> its, cut |-> 0, cl |-> 0] : its \in Seqs}
  \cup {[ver |-> 2, items |-> its, cut |-> 1, cl |-> l] : its \in {x \in Seqs : Len(x) > 0 /\ RLen(x[Len(x)]) > 0}, l \in 0..4}
  \cup {[ver |-> 2, items |-> its, cut |-> 2, cl |-> l] : its \in {x \in Seqs : Len(x) > 0 /\ KLen(x[Len(x)]) > 1}, l \in 1..2}
  \cup {[ver |-> 2, items |-> <<>>, cut |-> 3, cl |-> l] : l \in 0..(H - 1)}
StreamSet == {s \in Streams : WellFormed(s)}

Pieces == Len(SelectSeq(sched, LAMBDA n : n > 0))

Init == \E s \in StreamSet : Init0(s)
Sched(n) ==
  /\ zr' <= MaxZero
  /\ (MaxPieces > 0 /\ n > 0 /\ Pieces = MaxPieces - 1) => n = tot - dl
Rem == tot - dl
MinI(x, y) == IF x < y THEN x ELSE y
ReadPlain ==
  /\ NeedMore /\ dl - ws < cap
  /\ LET sp == cap - (dl - ws) IN \E n \in 0..MinI(sp, Rem) : Refill(n, sp) /\ RefillPlain(n, sp) /\ Sched(n)
\* compaction of a full window: part of it is still unconsumed / all of it is consumed
\* (offset = Len(buffer) = capacity: the whole window is dropped, the next byte lands at index 0)
CompactPart ==
  /\ NeedMore /\ dl - ws = cap /\ Committed > ws /\ Committed < dl
  /\ LET sp == cap - (dl - Committed) IN \E n \in 0..MinI(sp, Rem) : Refill(n, sp) /\ CompactRefill(n, sp) /\ Sched(n)
CompactAll ==
  /\ NeedMore /\ dl - ws = cap /\ cap > 0 /\ Committed = dl
  /\ LET sp == cap IN \E n \in 0..MinI(sp, Rem) : Refill(n, sp) /\ CompactRefill(n, sp) /\ Sched(n)
Grow ==
  /\ NeedMore /\ dl - ws = cap /\ Committed = ws
  /\ \E sp \in GrowSet : \E n \in 0..MinI(sp, Rem) : Refill(n, sp) /\ GrowRefill(n, sp) /\ Sched(n)
ParseOk == Emit
NeedMoreAtEof == Eof
Next == ReadPlain \/ CompactPart \/ CompactAll \/ Grow \/ NeedMoreAtEof \/ ParseOk
Spec == Init /\ [][Next]_vars

\* the schedule is history only
View == <<S, rd, hdr, ws, dl, cap, pos, evs, zr, pr>>

ExportInv ==
  (Export /\ Done) =>
     PrintT(<<"F", ToJson([S |-> S, sched |-> sched, hm |-> H, ev |-> DropHdr(evs), end |-> rd.end])>>)

\* every terminal state is a finished run (no schedule leaves the reader stuck)
Terminal == ~ENABLED Next => Done \/ zr = MaxZero
=============================================================================
