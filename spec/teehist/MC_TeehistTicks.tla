--------------------------- MODULE MC_TeehistTicks ---------------------------
(* Direction A, tick machine: every item stream of length <= MaxLen over Alpha whose proper
   prefixes are all readable (a stream is extended only while the reader consumed all of it).
   Checks that the reader as shaped satisfies what the user relies on, and (Export) prints one
   line per stream with the expected events for the replay harness. *)
EXTENDS TeehistCore, Json

CONSTANTS MaxLen, Alpha, Export

VARIABLES items, r      \* r = Read(S), kept in the state so that it is computed once
Str(its) == [ver |-> 2, items |-> its, cut |-> 0, cl |-> 0]
S == Str(items)

P(k, c, a, b) == [k |-> k, c |-> c, a |-> a, b |-> b]
O(s, c, a, b) == [k |-> "o", s |-> s, c |-> c, a |-> a, b |-> b]
Pn(c) == P("pn", c, MaxInt - c, MinInt + c)
Pd(c) == P("pd", c, 1 + c, -1 - c)
Po(c) == [k |-> "po", c |-> c]
Ts(dt) == [k |-> "ts", a |-> dt]
Fin == [k |-> "fin"]

AlphaQuick ==
  {Pn(c) : c \in 0..1} \cup {Pd(c) : c \in 0..1} \cup {Po(c) : c \in 0..1}
  \cup {Ts(0), Ts(1), P("in", 0, MaxInt, -1), P("id", 0, 1, -1), O("join", 0, 0, 0), Fin}
AlphaThorough ==
  {Pn(c) : c \in 0..2} \cup {Pd(c) : c \in 0..2} \cup {Po(c) : c \in 0..2}
  \cup {Ts(0), Ts(1), Ts(MaxInt - 1), Ts(-1), P("in", 0, MaxInt, -1), P("id", 0, 1, -1), P("in", 1, 5, 6),
        O("join", 0, 0, 0), O("msg", 1, 3, 0), O("x_unknown", 0, 2, 0), O("x_player_team", 1, 0, 7),
        P("pn", -1, 5, 6), [k |-> "bad", a |-> -12], Fin}
\* the alphabet of the design-time prototype (DESIGN A.6): player records, skips, other, finish
AlphaA6 ==
  {Pn(c) : c \in 0..2} \cup {Pd(c) : c \in 0..2} \cup {Po(c) : c \in 0..2}
  \cup {Ts(0), Ts(1), O("join", 0, 0, 0), Fin}

R == r
Init == items = <<>> /\ r = Read(S)
Next ==
  /\ Len(items) < MaxLen
  /\ R.end = "err:unexpected_end" /\ R.st.idx > Len(items)     \* everything was readable
  /\ \E it \in Alpha : LET ni == Append(items, it) IN items' = ni /\ r' = Read(Str(ni))
Spec == Init /\ [][Next]_<<items, r>>
Acc == PAccept(S, R.ev, R.end, R.end)

\* the reader as shaped satisfies the property-level acceptor on every stream
PropsOK == Acc.ok
\* (redundant with PropsOK; kept separately so that a counterexample names the clause)
TicksAsDocumented == Acc.why # "ticks:not-as-documented"

\* the acceptor's running sums (history variables) equal the direct sums over the stream
RunningIsDirect ==
  (R.end = "err:unexpected_end" /\ R.st.idx > Len(items) /\ Acc.ok) =>
     \A c \in -1..3 :
        /\ (IF c \in DOMAIN Acc.pl THEN Acc.pl[c] ELSE <<>>) = PosAt(items, Len(items) + 1, c)
        /\ (IF c \in DOMAIN Acc.inp THEN Acc.inp[c] ELSE <<>>) = InputAt(items, Len(items) + 1, c)

ExportInv ==
  Export => PrintT(<<"F", ToJson([S |-> S, sched |-> <<>>, hm |-> 0, ev |-> R.ev, end |-> R.end])>>)
=============================================================================
