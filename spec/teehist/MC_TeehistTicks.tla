--------------------------- MODULE MC_TeehistTicks ---------------------------
(* Direction A, tick machine: every item stream of length <= MaxLen over Alpha whose proper
   prefixes are all readable (a stream is extended only while the reader consumed all of it).
   Checks that the reader as shaped satisfies what the user relies on, and (Export) prints one
   line per stream with the expected events for the replay harness. *)
EXTENDS TeehistCore, Json

CONSTANTS MaxLen, Alpha, Export, Sweep

VARIABLES items, r,     \* r = Read(S), kept in the state so that it is computed once
          sweep         \* TRUE: a stream of the boundary-sweep family (not extended further)
Str(its) == [ver |-> 2, items |-> its, cut |-> 0, cl |-> 0]
S == Str(items)

P(k, c, a, b) == [k |-> k, c |-> c, a |-> a, b |-> b]
O(s, c, a, b) == [k |-> "o", s |-> s, c |-> c, a |-> a, b |-> b]
Pn(c) == P("pn", c, MaxInt - c, MinInt + c)
Pd(c) == P("pd", c, 1 + c, -1 - c)
Po(c) == [k |-> "po", c |-> c]
Ts(dt) == [k |-> "ts", a |-> dt]
Fin == [k |-> "fin"]

AlphaQuick ==
  {Pn(c) : c \in 0..1} \cup {Pd(c) : c \in 0..1} \cup {Po(c) : c \in 0..1}
  \cup {Ts(0), Ts(1), P("in", 0, MaxInt, -1), P("id", 0, 1, -1), O("join", 0, 0, 0), Fin}
AlphaThorough ==
  {Pn(c) : c \in 0..2} \cup {Pd(c) : c \in 0..2} \cup {Po(c) : c \in 0..2}
  \cup {Ts(0), Ts(1), Ts(MaxInt - 1), Ts(-1), P("in", 0, MaxInt, -1), P("id", 0, 1, -1), P("in", 1, 5, 6),
        O("join", 0, 0, 0), O("msg", 1, 3, 0), O("x_unknown", 0, 2, 0), O("x_player_team", 1, 0, 7),
        P("pn", -1, 5, 6), [k |-> "bad", a |-> -12], Fin}
\* the alphabet of the design-time prototype (DESIGN A.6): player records, skips, other, finish
AlphaA6 ==
  {Pn(c) : c \in 0..2} \cup {Pd(c) : c \in 0..2} \cup {Po(c) : c \in 0..2}
  \cup {Ts(0), Ts(1), O("join", 0, 0, 0), Fin}

\* ---------------------------------------------------------------- boundary sweep
\* Every integer field of every record kind takes every boundary value the field allows
\* (one field at a time, the others benign), at the start of a stream, and with the tick at
\* 2^31 - 1 and 2^31 - 2 (where a further tick must end in TickOverflow, never in a wrapped
\* tick); PLAYER_DIFF / PLAYER_OLD / INPUT_DIFF are preceded by the NEW they refer to; each
\* swept record is followed by JOIN, FINISH so that reading on after it is observed.
Bnd == {0, 1, -1, 63, 64, MaxInt - 1, MaxInt, MinInt}
\* ids that make the reader allocate (PLAYER_NEW, INPUT_NEW) are capped at 4095 (assumption)
BndAlloc == {0, 1, -1, 63, 64, 4095, MinInt}
BndNat == {0, 1, 63, 64, MaxInt - 1, MaxInt}       \* PLAYER_DIFF: the message id is the cid
BndLen == {0, 1, 63, 64}                           \* lengths of strings / data
\* fields a record kind does not have are 0 (that is what the projection of a returned record gives)
ON(s, c, a, b) == LET ch == Chars(Shape(s)) IN
  O(s, IF "c" \in ch THEN c ELSE 0, IF ch \cap {"s", "d", "r"} # {} THEN a ELSE 0,
    IF ch \cap {"b", "n"} # {} THEN b ELSE 0)
SubsB == {s \in SubKinds : "b" \in Chars(Shape(s))}
SubsLen == {s \in SubKinds : Chars(Shape(s)) \cap {"s", "d", "r"} # {}}
SweptItems ==
  {P("pn", v, 5, 6) : v \in BndAlloc} \cup {P("pn", 2, v, 6) : v \in Bnd} \cup {P("pn", 2, 5, v) : v \in Bnd}
  \cup {P("pd", v, 5, 6) : v \in BndNat} \cup {P("pd", 2, v, 6) : v \in Bnd} \cup {P("pd", 2, 5, v) : v \in Bnd}
  \cup {Po(v) : v \in Bnd} \cup {Ts(v) : v \in Bnd}
  \cup {P("in", v, 5, 6) : v \in BndAlloc} \cup {P("in", 2, v, 6) : v \in Bnd} \cup {P("in", 2, 5, v) : v \in Bnd}
  \cup {P("id", v, 5, 6) : v \in Bnd} \cup {P("id", 2, v, 6) : v \in Bnd} \cup {P("id", 2, 5, v) : v \in Bnd}
  \cup {ON(s, v, 2, IF s = "cc" THEN 1 ELSE 3) : s \in SubKinds \ {"x_unknown", "x_antibot"}, v \in Bnd}
  \cup {ON(s, 2, 2, v) : s \in SubsB, v \in Bnd}
  \cup {ON("cc", 2, 2, v) : v \in {0, 1, 16}}
  \cup {ON(s, 2, v, IF s = "cc" THEN 1 ELSE 3) : s \in SubsLen, v \in BndLen}
NewFor(it) ==
  IF it.k \in {"pd", "po"} /\ it.c >= 0 /\ it.c <= 4095 THEN <<P("pn", it.c, MaxInt, MinInt)>>
  ELSE IF it.k = "id" /\ it.c >= 0 /\ it.c <= 4095 THEN <<P("in", it.c, MaxInt, MinInt)>>
  ELSE <<>>
TickContexts == {<<>>, <<Ts(MaxInt - 1)>>, <<Ts(MaxInt - 2)>>, <<Pn(1), Ts(MaxInt - 2)>>}
\* pass-through records do not touch the tick: two contexts are enough for them
ContextsOf(it) == IF it.k = "o" THEN {<<>>, <<Pn(1), Ts(MaxInt - 2)>>} ELSE TickContexts
SweepStreams ==
  UNION {{ctx \o NewFor(it) \o <<it, O("join", 0, 0, 0), Fin>> : ctx \in ContextsOf(it)} : it \in SweptItems}

\* ---------------------------------------------------------------- pass-through neutrality
\* The running sums are per client id and nothing but the player / input records of that id
\* touches them: every pass-through record kind (every extension message included), with its
\* integer members naming live, absent and negative client ids, stands between the NEW records
\* of two players / inputs (at different values) and a later DIFF and OLD of each of them.
Pn2(c) == P("pn", c, 100 + 4900 * c, 200 + 5800 * c)
In2(c) == P("in", c, 7 + 30 * c, -9 - 50 * c)
Id2(c) == P("id", c, 1, -2)
NeutralRecords ==
  UNION {{ON(s, c, 2, b) : c \in {0, 1, 2, -1}, b \in IF s = "cc" THEN {0, 1, 2} ELSE {0, 1, 2, -1}} : s \in SubKinds}
NeutralStreams ==
  {<<Pn2(0), Pn2(1), In2(0), In2(1), x, Pd(0), Pd(1), Id2(0), Id2(1), Po(0), Po(1), Fin>> : x \in NeutralRecords}

R == r
Init == \/ items = <<>> /\ r = Read(S) /\ sweep = FALSE
        \/ Sweep /\ items \in SweepStreams \cup NeutralStreams /\ r = Read(S) /\ sweep = TRUE
Next ==
  /\ ~sweep /\ sweep' = FALSE
  /\ Len(items) < MaxLen
  /\ R.end = "err:unexpected_end" /\ R.st.idx > Len(items)     \* everything was readable
  /\ \E it \in Alpha : LET ni == Append(items, it) IN items' = ni /\ r' = Read(Str(ni))
Spec == Init /\ [][Next]_<<items, r, sweep>>
Acc == PAccept(S, R.ev, R.end, R.end)

\* the reader as shaped satisfies the property-level acceptor on every stream
PropsOK == Acc.ok
\* (redundant with PropsOK; kept separately so that a counterexample names the clause)
TicksAsDocumented == Acc.why # "ticks:not-as-documented"

\* the acceptor's running sums (history variables) equal the direct sums over the stream
RunningIsDirect ==
  (~sweep /\ R.end = "err:unexpected_end" /\ R.st.idx > Len(items) /\ Acc.ok) =>
     \A c \in -1..3 :
        /\ (IF c \in DOMAIN Acc.pl THEN Acc.pl[c] ELSE <<>>) = PosAt(items, Len(items) + 1, c)
        /\ (IF c \in DOMAIN Acc.inp THEN Acc.inp[c] ELSE <<>>) = InputAt(items, Len(items) + 1, c)

ExportInv ==
  Export => PrintT(<<"F", ToJson([S |-> S, sched |-> <<>>, hm |-> 0, ev |-> R.ev, end |-> R.end])>>)
=============================================================================
