SPECIFICATION TSpec
CONSTANTS
  KeepHistory = FALSE
  ResetOnSkip = FALSE
  H <- TraceH
  MaxZero = 0
  GrowSet = {}
  Mode = "detailed"
POSTCONDITION Accepted
