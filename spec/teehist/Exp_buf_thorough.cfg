SPECIFICATION Spec
CONSTANTS
  KeepHistory = TRUE
  ResetOnSkip = TRUE
  H = 2
  MaxZero = 1
  GrowSet = {64}
  MaxItems = 3
  Alpha <- AlphaBufSmall
  MaxPieces = 3
  Export = TRUE
INVARIANTS WindowInv FragmentationFree PropsHold ExportInv
