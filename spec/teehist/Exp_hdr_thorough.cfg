SPECIFICATION Spec
CONSTANTS
  ResetOnSkip = TRUE
  Export = TRUE
  Full = TRUE
INVARIANTS OnlyDocumentedHeaders MagicFirst ItemsFollow ExportInv
