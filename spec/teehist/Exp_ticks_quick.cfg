SPECIFICATION Spec
CONSTANTS
  ResetOnSkip = TRUE
  MaxLen = 4
  Alpha <- AlphaQuick
  Sweep = TRUE
  Export = TRUE
INVARIANTS PropsOK TicksAsDocumented RunningIsDirect ExportInv
