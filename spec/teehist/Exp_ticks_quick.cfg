SPECIFICATION Spec
CONSTANTS
  ResetOnSkip = TRUE
  MaxLen = 4
  Alpha <- AlphaQuick
  Export = TRUE
INVARIANTS PropsOK TicksAsDocumented RunningIsDirect ExportInv
