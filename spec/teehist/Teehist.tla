------------------------------- MODULE Teehist -------------------------------
(* The incremental teehistorian reader (C17): Reader::read on top of Buffer.

   A byte stream = header (H bytes) followed by the encoding of S.items (TeehistCore), possibly
   truncated (S.cut, S.cl = bytes present of the truncated part).  The reader is handed the
   stream through a read callback that is offered `sp` spare bytes and delivers any 0 <= n <= sp
   of the remaining bytes (n chosen freely by the environment), or end-of-file.

   Buffer (raw.rs): a window [ws, dl) of the stream is held in a vector of capacity `cap`;
   `pos` is the stream position up to which parse attempts have been committed.  One
   Reader::read call parses a message id (kn bytes) and, unless it returns a tick boundary, the
   payload (rn bytes); each part is committed only when it is completely inside the window.
     NeedMore      == the window does not hold the part currently being parsed
     Refill(n, sp) == NeedMore: read_more — plain read, or Compact (drop the committed prefix)
                      or Grow (reserve) when the vector is full — then n bytes are delivered
     Eof           == NeedMore and the callback reports end-of-file: error
     Emit          == ParseOk of all parts of the call: the call returns (TeehistCore!Call)
   Theorem (checked by TLC as invariants FragmentationFree / WindowInv, for every stream of the
   model and *every* schedule of refills, zero-length reads, compactions and growth amounts):
   the emitted event sequence is Read(S) — a function of the stream only. *)
EXTENDS TeehistCore

CONSTANTS H,          \* header length in bytes
          MaxZero,    \* bound on consecutive zero-length reads (model only)
          GrowSet,    \* amounts of spare capacity a Grow may produce (model only)
          KeepHistory \* TRUE: evs / sched are complete histories; FALSE: only the last entry (long traces)

VARIABLES S, rd, hdr, ws, dl, cap, pos, evs, sched, zr, pr,
          ref, tot      \* constants of a run, computed once: Read(S), Total(S)
vars == <<S, rd, hdr, ws, dl, cap, pos, evs, sched, zr, pr, ref, tot>>


\* the header: a stream descriptor without `hd` has the fixed valid header of H bytes
HasHd(s) == "hd" \in DOMAIN s
HL(s) == IF HasHd(s) THEN s.hd.hl ELSE H
HOut(s) == IF HasHd(s) THEN HdrOutcome(s.hd) ELSE "ok"
HNeed(s) == IF HasHd(s) THEN HdrNeed(s.hd) ELSE H
HEv(s) == IF HasHd(s) THEN HdrEvent(s.hd) ELSE [e |-> "hdr"]

Total(s) ==
  IF s.cut = 3 THEN s.cl
  ELSE IF s.cut = 0 THEN HL(s) + ItemsLen(s.items)
  ELSE LET n == Len(s.items)
           lastIt == s.items[n] IN
       HL(s) + ItemsLen(SubSeq(s.items, 1, n - 1)) + (IF s.cut = 1 THEN KLen(lastIt) ELSE 0) + s.cl
\* how Reader::new ends ("" = it returns the header and a reader)
HdrEnd(s) == IF HNeed(s) > Total(s) THEN "err:unexpected_end" ELSE IF HOut(s) = "ok" THEN "" ELSE HOut(s)

WellFormed(s) ==
  /\ s.cut \in 0..3
  /\ s.cut = 0 => s.cl = 0
  /\ s.cut = 1 => Len(s.items) > 0 /\ s.cl < RLen(s.items[Len(s.items)])
  /\ s.cut = 2 => Len(s.items) > 0 /\ s.cl < KLen(s.items[Len(s.items)])
  /\ s.cut = 3 => s.cl < HL(s)

\* <<message-id bytes, payload bytes>> the pending call needs from `pos`
Need == IF ~hdr THEN <<IF HNeed(S) > tot THEN Inf ELSE HNeed(S), 0>> ELSE CallNeed(S, rd)
Avail == dl - pos
\* stream position committed so far *inside* the pending call
Committed == IF Avail >= Need[1] THEN pos + Need[1] ELSE pos
NeedMore == rd.end = "" /\ Avail < Need[1] + Need[2]

Hist(h, x) == IF KeepHistory THEN Append(h, x) ELSE <<x>>

Init0(s) ==
  /\ S = s /\ rd = Rd0 /\ hdr = FALSE /\ ws = 0 /\ dl = 0 /\ cap = 0 /\ pos = 0
  /\ evs = <<>> /\ sched = <<>> /\ zr = 0 /\ pr = Pr0
  /\ ref = (IF s.ver = 0 THEN [ev |-> <<>>, end |-> ""]
            ELSE IF HdrEnd(s) # "" THEN [ev |-> <<>>, end |-> HdrEnd(s)]
            ELSE LET r == Read(s) IN [ev |-> r.ev, end |-> r.end])
  /\ tot = Total(s)

\* read_more: where the n bytes go
RefillPlain(n, sp) ==
  /\ dl - ws < cap /\ sp = cap - (dl - ws)
  /\ ws' = ws /\ cap' = cap
CompactRefill(n, sp) ==
  /\ dl - ws = cap /\ Committed > ws
  /\ sp = cap - (dl - Committed)
  /\ ws' = Committed /\ cap' = cap
GrowRefill(n, sp) ==
  /\ dl - ws = cap /\ Committed = ws
  /\ sp >= 1
  /\ cap' = cap + sp /\ ws' = ws

Refill(n, sp) ==
  /\ NeedMore /\ dl < tot
  /\ (RefillPlain(n, sp) \/ CompactRefill(n, sp) \/ GrowRefill(n, sp))
  /\ n >= 0 /\ n <= sp /\ n <= tot - dl
  /\ dl' = dl + n
  /\ zr' = IF n = 0 THEN zr + 1 ELSE 0
  /\ sched' = Hist(sched, n)
  /\ UNCHANGED <<S, rd, hdr, pos, evs, pr, ref, tot>>

Eof ==
  /\ NeedMore /\ dl = tot
  /\ rd' = [rd EXCEPT !.end = "err:unexpected_end"]
  /\ UNCHANGED <<S, hdr, ws, dl, cap, pos, evs, sched, zr, pr, ref, tot>>

\* all parts of the pending call are in the window: the call returns
Emit ==
  /\ rd.end = "" /\ ~NeedMore
  /\ pos' = pos + Need[1] + Need[2]
  /\ IF ~hdr
     THEN IF HOut(S) = "ok"
          THEN /\ hdr' = TRUE /\ rd' = rd /\ evs' = Hist(evs, HEv(S)) /\ pr' = pr
          ELSE /\ hdr' = hdr /\ rd' = [rd EXCEPT !.end = HOut(S)] /\ evs' = evs /\ pr' = pr
     ELSE LET r == Call(S, rd) IN
          /\ hdr' = hdr /\ rd' = r.st
          /\ evs' = IF r.out = NoOut THEN evs ELSE Hist(evs, r.out)
          /\ pr' = IF r.out = NoOut THEN pr ELSE PStep(S, pr, r.out)
  /\ UNCHANGED <<S, ws, dl, cap, sched, zr, ref, tot>>

Done == rd.end # ""

\* ---------------------------------------------------------------- invariants
\* every byte a parse attempt looks at is in the window (a compaction never drops
\* uncommitted bytes), and the window fits the vector
WindowInv == ws <= Committed /\ Committed <= dl /\ pos <= dl /\ dl - ws <= cap /\ dl <= tot

\* independence of fragmentation: whatever the schedule, the events emitted so far are a
\* prefix of the reference reading of the stream, and at the end they are equal to it
Ref == ref
DropHdr(e) == IF Len(e) > 0 /\ e[1].e = "hdr" THEN Tail(e) ELSE e
FragmentationFree ==
  LET e == DropHdr(evs) IN
  /\ Len(e) <= Len(Ref.ev) /\ e = SubSeq(Ref.ev, 1, Len(e))
  /\ Done => e = Ref.ev /\ rd.end = Ref.end
  \* a good header is reported as what the document says it holds
  /\ (hdr /\ Len(evs) > 0 /\ KeepHistory) => evs[1] = HEv(S)

\* what the user relies on (ticks nested / increasing / as documented, values = sums)
PropsHold ==
  /\ pr.ok
  /\ Done => PAccept(S, DropHdr(evs), rd.end, Ref.end).ok

\* the reader never gets stuck: some action is enabled until it is done
NoStuck == Done \/ NeedMore \/ ~NeedMore
=============================================================================
