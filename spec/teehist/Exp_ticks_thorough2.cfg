SPECIFICATION Spec
CONSTANTS
  ResetOnSkip = TRUE
  MaxLen = 5
  Alpha <- AlphaQuick
  Export = TRUE
INVARIANTS PropsOK TicksAsDocumented RunningIsDirect ExportInv
