SPECIFICATION Spec
CONSTANTS
  ResetOnSkip = TRUE
  MaxLen = 5
  Alpha <- AlphaQuick
  Sweep = TRUE
  Export = TRUE
INVARIANTS PropsOK TicksAsDocumented RunningIsDirect ExportInv
