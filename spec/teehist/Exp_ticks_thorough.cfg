SPECIFICATION Spec
CONSTANTS
  ResetOnSkip = TRUE
  MaxLen = 5
  Alpha <- AlphaThorough
  Export = TRUE
INVARIANTS PropsOK TicksAsDocumented RunningIsDirect ExportInv
