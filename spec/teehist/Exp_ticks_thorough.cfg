SPECIFICATION Spec
CONSTANTS
  ResetOnSkip = TRUE
  MaxLen = 4
  Alpha <- AlphaThorough
  Sweep = TRUE
  Export = TRUE
INVARIANTS PropsOK TicksAsDocumented RunningIsDirect ExportInv
