SPECIFICATION Spec
CONSTANTS
  KeepHistory = TRUE
  ResetOnSkip = TRUE
  H = 2
  MaxZero = 1
  GrowSet = {1, 3}
  MaxItems = 2
  Alpha <- AlphaBufSmall
  MaxPieces = 0
  Export = FALSE
VIEW View
INVARIANTS WindowInv FragmentationFree PropsHold
