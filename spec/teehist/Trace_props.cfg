SPECIFICATION TSpec
CONSTANTS
  KeepHistory = TRUE
  ResetOnSkip = TRUE
  H <- TraceH
  MaxZero = 0
  GrowSet = {}
  Mode = "props"
POSTCONDITION Accepted
