----------------------------- MODULE NetTrace -----------------------------
(* Direction B for the multi-peer endpoint, strict: a trace recorded from a  *)
(* real Net<u8> (vh-net drive: up to eight addresses, real remote            *)
(* Connections over a lossy wire, garbage, random application calls) must be *)
(* a behaviour of Net.  Every line names the action with all arguments (for  *)
(* a feed: the datagram as the endpoint's own reader sees it) and carries    *)
(* the complete projected post-state, so TLC computes one successor per line  *)
(* and compares results, events, datagrams sent per address, every peer's    *)
(* connection record, the next peer id and Net::needs_tick().  The action    *)
(* properties of C20 (FreshIds, Creation, Removal, Isolation) and DeadlineOk  *)
(* are evaluated on the implementation's own execution.                      *)
(*                                                                           *)
(* Two kinds of steps are outside the modelled alphabet and are *opaque*:    *)
(* a datagram on which the reader reports a finding (warning, malformed      *)
(* chunk, foreign payload), and a tick during which the send callback fails  *)
(* for one address.  For those the specification takes the post-state of     *)
(* the step from the trace (feed) / of the peer of that address (tick); the   *)
(* action properties then decide on this very step that every other peer is   *)
(* untouched and nothing is sent elsewhere: isolation is exactly what remains  *)
(* to be said about datagrams nobody modelled.                                 *)
EXTENDS Net, Json, IOUtils, TLCExt

Rec == ndJsonDeserialize(IOEnv.TRACE)
VARIABLE l
tnvars == <<nvars, l>>

TraceInit == NInit /\ l = 1

Fail(a) == IF "fail" \in DOMAIN a THEN a.fail ELSE FALSE
\* the logged peer table as a function pid -> record
LoggedPeers(st) ==
  LET ps == st.peers IN
  [p \in {ps[i].pid : i \in 1..Len(ps)} |->
     LET r == ps[CHOOSE i \in 1..Len(ps) : ps[i].pid = p] IN [addr |-> r.addr, tf |-> r.tf, x |-> r.x]]

\* a datagram outside the alphabet: the post-state is taken from the trace; that only the peer of that address
\* changed and nothing was sent elsewhere is then decided by the action property Isolation (and Creation / Removal /
\* FreshIds) on this very step
OpaqueFeed(r) ==
  /\ peers' = LoggedPeers(r.st) /\ nextPid' = r.st.nextPid
  /\ out' = [res |-> r.out.res, evs |-> r.out.evs, sends |-> r.out.sends]
  /\ act' = [a |-> "feed", addr |-> r.act.addr, d |-> r.d, fail |-> Fail(r.act)]

\* a tick during which sends to one address fail: that peer is taken from the trace, the others tick as specified
TickFail(r) ==
  LET a == r.act.failaddr
      lp == LoggedPeers(r.st)
      t == [p \in Pids |-> TickOp(peers[p].x, 0)] IN
  /\ DOMAIN lp = Pids
  /\ peers' = [p \in Pids |-> IF peers[p].addr = a THEN lp[p] ELSE [peers[p] EXCEPT !.x = t[p].x]]
  /\ out' = [Quiet EXCEPT !.sends = [b \in Addrs |-> IF PidOf(b) = -1 \/ b = a THEN <<>> ELSE t[PidOf(b)].outs]]
  /\ r.out.sends[a] = <<>>
  /\ act' = [a |-> "tick"]
  /\ UNCHANGED nextPid

Act(r) ==
  LET a == r.act IN
  CASE a.a = "connect"    -> ConnectAt(a.addr)
    [] a.a = "feed"       -> IF r.clean THEN FeedWith(a.addr, r.d, FALSE, Fail(a)) ELSE OpaqueFeed(r)
    [] a.a = "accept"     -> AcceptWith(a.pid, Fail(a))
    [] a.a = "reject"     -> RejectWith(a.pid, a.r, Fail(a))
    [] a.a = "disconnect" -> DisconnectWith(a.pid, a.r, Fail(a))
    [] a.a = "ignore"     -> NetIgnore(a.pid)
    [] a.a = "send"       -> SendTo(a.pid, a.v, a.sz, a.id)
    [] a.a = "flush"      -> NetFlush(a.pid)
    [] a.a = "connless"   -> ConnlessTo(a.addr, a.id, a.sz)
    [] a.a = "tick"       -> IF "failaddr" \in DOMAIN a THEN TickFail(r) ELSE TickAll
    [] a.a = "advance"    -> AdvanceBy(a.d)

Matches(r) ==
  /\ out'.res = r.out.res
  /\ out'.evs = r.out.evs
  /\ \A b \in Addrs : out'.sends[b] = r.out.sends[b]
  /\ ("pid" \in DOMAIN r.out) => out'.pid = r.out.pid
  /\ peers' = LoggedPeers(r.st)
  /\ nextPid' = r.st.nextPid
  /\ NetNeedsTick' = r.nt

TraceNext ==
  /\ l <= Len(Rec)
  /\ l' = l + 1
  /\ UNCHANGED cnt
  /\ LET r == Rec[l] IN
     IF r.a = "reset" \/ r.res = "skipped" THEN UNCHANGED <<peers, nextPid, act, out>>
     ELSE Act(r) /\ Matches(r)

TraceSpec == TraceInit /\ [][TraceNext]_tnvars

TraceAccepted ==
  LET d == TLCGet("stats").diameter IN
  IF d - 1 = Len(Rec) THEN TRUE
  ELSE Print(<<"TRACE REJECTED at line", d, ToJson(Rec[d].act)>>, FALSE)
TraceView == <<NView, l>>
=============================================================================
