------------------------------ MODULE ConnSys ------------------------------
(* Two endpoints of the connection layer ("c" connects, "s" accepts), two     *)
(* directed lossy networks, a discrete clock and the application histories.   *)
(* Decides C01 (prefix / ready-once), C02 (progress, finite deadline,         *)
(* termination of resend), C03 (foreign tokens are inert), C04 (well-formed   *)
(* sends, refusals) on the model; the same actions are re-used by the export  *)
(* (ConnExp) and trace (ConnTrace) modules that bind the model to the code.   *)
EXTENDS Conn

CONSTANTS MaxVitalS,    \* vital chunks the accepting side may send (MaxVital bounds the connecting side)
          Sizes,        \* payload sizes offered to Send / SendConnless
          Senders,      \* endpoints whose application sends chunks
          MaxVital, MaxNV, MaxConnless,    \* per endpoint
          MaxInFlight,  \* datagrams in flight per direction (state constraint)
          MaxFaults,    \* drops + duplications
          MaxClock,     \* clock advances of `Step` ms in the unstable phase
          MaxForge,     \* forged datagrams
          MaxDisc,      \* 1: Disconnect is explored
          Reasons,      \* close-reason lengths offered to Disconnect
          InitOnline,   \* TRUE: start from an established connection (used with SeqStart # 0)
          MaxFails,     \* calls during which the send callback reports an error
          FailKs,       \* which datagram of such a call is refused (k-th handed to the callback)
          MaxResets,    \* Connection::reset() calls (a closed endpoint starts a new session on the same object)
          MaxAcceptTok  \* 1: the accepting side may replace its pending connection by Connection::new_accept_token (0.6)

Step == 500
E == {"c", "s"}
Peer(e) == IF e = "c" THEN "s" ELSE "c"

VARIABLES ep,        \* endpoint records
          net,       \* net[e]: datagrams sent by e, in flight to Peer(e)
          sub,       \* sub[e]: ids of vital chunks accepted by Send at e, in order
          snv,       \* snv[e]: ids of non-vital chunks accepted by Send at e
          scl,       \* scl[e]: ids of connless payloads sent by e
          del,       \* del[e]: events handed to the application at e, in order
          ready,     \* number of Ready events seen by the application
          answered,  \* the accepting side has sent its ConnectAccept (0.6) / Accept (0.7)
          bnd,       \* bnd[e]: lengths of sub[e] / del[e] at every reset() of e (session boundaries of e's application)
          orph,      \* orph[e]: e's peer has started a new session while e was still in the old one
          cnt,       \* exploration counters
          stable,    \* the fair suffix has begun
          act, out   \* last action with its arguments / its result (excluded from the VIEW)
vars == <<ep, net, sub, snv, scl, del, ready, answered, bnd, orph, cnt, stable, act, out>>

\* the token an endpoint draws from its random source: a new one in every session
Draw(e) == LET b == IF V7 THEN (IF e = "c" THEN "C" ELSE "S") ELSE "T"
               n == Len(bnd[e]) + 1
           IN IF n = 1 THEN b ELSE b \o ToString(n)
NoOut == [res |-> "ok", evs |-> <<>>, outs |-> <<>>, w |-> "-"]

NetOk == \A e \in E : Len(net[e]) <= MaxInFlight
IsAnswer(d) == d.k = "ctrl" /\ d.c = (IF V7 THEN "Accept" ELSE "ConnectAccept")
Answers(e, outs) == e = "s" /\ \E j \in 1..Len(outs) : IsAnswer(outs[j])
Readies(evs) == Len(SelectSeq(evs, LAMBDA ev : ev.e = "ready"))

EstOnline(e) ==   \* an established endpoint just after both sides flushed at time 0
  IF V7 THEN [Online(Fresh, "no", Draw(e), Draw(Peer(e))) EXCEPT !.sendT = SendTO]
  ELSE [Online(Fresh, IF TokenMode THEN "T" ELSE "no", "no", "no") EXCEPT !.sendT = SendTO]

Init ==
  /\ bnd = [e \in E |-> <<>>]
  /\ ep = [e \in E |-> IF InitOnline THEN EstOnline(e) ELSE Fresh]
  /\ net = [e \in E |-> <<>>]
  /\ sub = [e \in E |-> <<>>]
  /\ snv = [e \in E |-> {}]
  /\ scl = [e \in E |-> {}]
  /\ del = [e \in E |-> <<>>]
  /\ ready = IF InitOnline THEN 1 ELSE 0
  /\ answered = InitOnline
  /\ orph = [e \in E |-> FALSE]
  /\ cnt = [vital |-> [e \in E |-> 0], nv |-> [e \in E |-> 0], cl |-> [e \in E |-> 0],
            faults |-> 0, clock |-> 0, forge |-> 0, disc |-> 0, fails |-> 0, resets |-> 0, atok |-> 0]
  /\ stable = FALSE
  /\ act = [a |-> "init"]
  /\ out = NoOut

\* effect of an API call at e with result r (a record R(...) of Conn)
Apply(e, r) ==
  /\ ep' = [ep EXCEPT ![e] = r.x]
  /\ net' = [net EXCEPT ![e] = @ \o r.outs]
  /\ del' = [del EXCEPT ![e] = @ \o r.evs]
  /\ ready' = ready + Readies(r.evs)
  /\ answered' = (answered \/ Answers(e, r.outs))
  /\ out' = [res |-> r.res, evs |-> r.evs, outs |-> r.outs, w |-> r.w]
  /\ UNCHANGED <<bnd, orph>>

\* exploration of callback failures: the k-th datagram of the call is refused; only calls in which that really happens
\* are explored (k = 0: no failure), within the budget.  `r`: result of the call.
FailBudget(k, r) == k = 0 \/ (cnt.fails < MaxFails /\ r.res = "callback")
Ks == {0} \cup FailKs
CntFail(c, k) == IF k = 0 THEN c ELSE [c EXCEPT !.fails = @ + 1]

ConnectWith(k) ==
  /\ ep["c"].st = "Unc"
  /\ Apply("c", ConnectOp(ep["c"], Draw("c"), k))
  /\ act' = [a |-> "connect", e |-> "c", k |-> k]
  /\ UNCHANGED <<sub, snv, scl>>
Connect == \E k \in Ks : /\ FailBudget(k, ConnectOp(ep["c"], Draw("c"), k)) /\ ConnectWith(k) /\ cnt' = CntFail(cnt, k)

NextId(e) == cnt.vital[e] + cnt.nv[e] + cnt.cl[e] + 1

\* A send whose flush failed has queued the chunk all the same ("callback"): it counts as submitted.
SendWith(e, v, sz, id, k) ==
  LET r == SendOp(ep[e], [id |-> id, sz |-> sz, v |-> v], k)
      okk == r.res \in {"ok", "callback"}
  IN /\ ep[e].st = "Onl"
     /\ Apply(e, r)
     /\ sub' = IF okk /\ v THEN [sub EXCEPT ![e] = Append(@, id)] ELSE sub
     /\ snv' = IF okk /\ ~v THEN [snv EXCEPT ![e] = @ \cup {id}] ELSE snv
     /\ act' = [a |-> "send", e |-> e, v |-> v, sz |-> sz, id |-> id, k |-> k]
     /\ UNCHANGED scl
Send(e) ==
  /\ e \in Senders
  /\ \E v \in BOOLEAN, sz \in Sizes, k \in Ks :
       LET id == IF sz = 0 THEN 0 ELSE NextId(e) IN
       /\ IF v THEN cnt.vital[e] < (IF e = "s" THEN MaxVitalS ELSE MaxVital) ELSE cnt.nv[e] < MaxNV
       /\ FailBudget(k, SendOp(ep[e], [id |-> id, sz |-> sz, v |-> v], k))
       /\ SendWith(e, v, sz, id, k)
       /\ cnt' = CntFail(IF v THEN [cnt EXCEPT !.vital[e] = @ + 1] ELSE [cnt EXCEPT !.nv[e] = @ + 1], k)

\* a connless payload the callback refused was not sent
ConnlessWith(e, sz, id, k) ==
  LET r == ConnlessOp(ep[e], [id |-> id, sz |-> sz], k)
  IN /\ ep[e].st = "Onl"
     /\ Apply(e, r)
     /\ scl' = IF r.res = "ok" THEN [scl EXCEPT ![e] = @ \cup {id}] ELSE scl
     /\ act' = [a |-> "connless", e |-> e, sz |-> sz, id |-> id, k |-> k]
     /\ UNCHANGED <<sub, snv>>
SendConnless(e) ==
  /\ e \in Senders /\ cnt.cl[e] < MaxConnless
  /\ \E sz \in Sizes, k \in Ks :
       LET id == IF sz = 0 THEN 0 ELSE NextId(e) IN
       /\ FailBudget(k, ConnlessOp(ep[e], [id |-> id, sz |-> sz], k))
       /\ ConnlessWith(e, sz, id, k)
       /\ cnt' = CntFail([cnt EXCEPT !.cl[e] = @ + 1], k)

FlushWith(e, k) ==
  /\ ep[e].st = "Onl"
  /\ Apply(e, FlushOp(ep[e], k))
  /\ act' = [a |-> "flush", e |-> e, k |-> k]
  /\ UNCHANGED <<sub, snv, scl>>
FlushApi(e) == \E k \in Ks : FailBudget(k, FlushOp(ep[e], k)) /\ FlushWith(e, k) /\ cnt' = CntFail(cnt, k)

TickAny(e, k) ==            \* tick() may be called at any time; when nothing is due it is a no-op
  /\ Apply(e, TickOp(ep[e], k))
  /\ act' = [a |-> "tick", e |-> e, k |-> k]
  /\ UNCHANGED <<sub, snv, scl>>
\* the model explores due ticks only
Tick(e) == /\ TickDue(ep[e])
           /\ \E k \in Ks : FailBudget(k, TickOp(ep[e], k)) /\ TickAny(e, k) /\ cnt' = CntFail(cnt, k)

DisconnectWith(e, r, k) ==
  /\ ep[e].st # "Disc" /\ (V7 \/ ep[e].st # "Unc")
  /\ Apply(e, DisconnectOp(ep[e], r, k))
  /\ act' = [a |-> "disconnect", e |-> e, r |-> r, k |-> k]
  /\ UNCHANGED <<sub, snv, scl>>
Disconnect(e) == /\ cnt.disc < MaxDisc
                 /\ \E r \in Reasons, k \in Ks : /\ FailBudget(k, DisconnectOp(ep[e], r, k)) /\ DisconnectWith(e, r, k)
                                                 /\ cnt' = CntFail([cnt EXCEPT !.disc = @ + 1], k)

\* ----------------------------------------------------------------- sessions
\* Connection::reset on a closed endpoint: the same object starts over.  What its application submitted and was handed
\* before belongs to the old session; datagrams of the old session may still be in flight in both directions.
ResetOf(e) ==
  /\ ep[e].st = "Disc"
  /\ ep' = [ep EXCEPT ![e] = ResetOp(ep[e]).x]
  /\ bnd' = [bnd EXCEPT ![e] = Append(@, [s |-> Len(sub[e]), d |-> Len(del[e])])]
  /\ orph' = [orph EXCEPT ![e] = FALSE, ![Peer(e)] = ep[Peer(e)].st \notin {"Unc", "Disc"}]
  /\ ready' = IF e = "c" THEN 0 ELSE ready
  /\ act' = [a |-> "creset", e |-> e]
  /\ out' = NoOut
  /\ UNCHANGED <<net, sub, snv, scl, del, answered>>
Reset(e) == cnt.resets < MaxResets /\ ResetOf(e) /\ cnt' = [cnt EXCEPT !.resets = @ + 1]

\* Connection::new_accept_token (0.6 with token): the accepting application answered the connect request with a
\* throw-away connection and now replaces it by one that starts online with the token handed out
AcceptTokenAt ==
  /\ ~V7 /\ ep["s"].st = "Pend" /\ ep["s"].tok # "no"
  /\ ep' = [ep EXCEPT !["s"] = AcceptTokenOp(ep["s"].tok).x]
  /\ act' = [a |-> "accepttoken", e |-> "s"]
  /\ out' = NoOut
  /\ UNCHANGED <<net, sub, snv, scl, del, ready, answered, bnd, orph>>
AcceptToken == cnt.atok < MaxAcceptTok /\ AcceptTokenAt /\ cnt' = [cnt EXCEPT !.atok = @ + 1]

AdvanceBy(d) ==
  /\ ep' = [e \in E |-> AdvanceOp(ep[e], d)]
  /\ act' = [a |-> "advance", d |-> d]
  /\ out' = NoOut
  /\ UNCHANGED <<net, sub, snv, scl, del, ready, answered, bnd, orph>>
Advance == cnt.clock < MaxClock /\ AdvanceBy(Step) /\ cnt' = [cnt EXCEPT !.clock = @ + 1]

\* the i-th datagram in flight from e reaches Peer(e)
DeliverAt(e, i, keep, k) ==
  LET d == net[e][i]
      p == Peer(e)
      r == FeedOp(ep[p], d, Draw(p), k)
      rest == IF keep THEN net ELSE [net EXCEPT ![e] = RemoveAt(@, i)]
  IN /\ ep' = [ep EXCEPT ![p] = r.x]
     /\ net' = [rest EXCEPT ![p] = @ \o r.outs]
     /\ del' = [del EXCEPT ![p] = @ \o r.evs]
     /\ ready' = ready + Readies(r.evs)
     /\ answered' = (answered \/ Answers(p, r.outs))
     /\ out' = [res |-> r.res, evs |-> r.evs, outs |-> r.outs, w |-> r.w]
     /\ UNCHANGED <<bnd, orph>>
FeedFails(e, i, k) == FailBudget(k, FeedOp(ep[Peer(e)], net[e][i], Draw(Peer(e)), k))
Deliver(e) == \E i \in 1..Len(net[e]), k \in Ks :
                /\ FeedFails(e, i, k)
                /\ DeliverAt(e, i, FALSE, k) /\ act' = [a |-> "deliver", from |-> e, i |-> i, k |-> k]
                /\ cnt' = CntFail(cnt, k)
                /\ UNCHANGED <<sub, snv, scl>>
\* duplication = delivery of a copy that stays in flight
Dup(e) == /\ cnt.faults < MaxFaults
          /\ \E i \in 1..Len(net[e]), k \in Ks :
                /\ FeedFails(e, i, k)
                /\ DeliverAt(e, i, TRUE, k) /\ act' = [a |-> "dup", from |-> e, i |-> i, k |-> k]
                /\ cnt' = CntFail([cnt EXCEPT !.faults = @ + 1], k)
          /\ UNCHANGED <<sub, snv, scl>>
Drop(e) ==
  /\ cnt.faults < MaxFaults
  /\ \E i \in 1..Len(net[e]) :
       /\ net' = [net EXCEPT ![e] = RemoveAt(@, i)]
       /\ act' = [a |-> "drop", from |-> e, i |-> i]
  /\ cnt' = [cnt EXCEPT !.faults = @ + 1]
  /\ out' = NoOut
  /\ UNCHANGED <<ep, sub, snv, scl, del, ready, answered, bnd, orph>>

\* ----------------------------------------------------------------- C03: foreign datagrams
\* every packet kind, carrying any token other than the one endpoint e insists on
\* "near*": tokens derived from the agreed one (one bit flipped; two bytes changed so that a XOR fold of the
\* byte differences cancels; two bytes swapped; bytes rotated) -- the harness computes the bytes
NearTokens == {"near-bit", "near-xor", "near-swap", "near-rot"}
ForeignTokens(x) == ({"W", "FF", "Z0"} \cup NearTokens \cup (IF V7 THEN {x.their} ELSE {"no"})) \ {Expected(x)}
Forged(x) ==
  LET nextseq == Nxt(x.ack)
      chunk == [v |-> TRUE, seq |-> nextseq, rs |-> FALSE, id |-> 999, sz |-> 5] IN
  UNION {
    {[k |-> "chunks", tok |-> t, ack |-> x.seq, rr |-> rr, chunks |-> cs] : rr \in BOOLEAN, cs \in {<<>>, <<chunk>>}}
    \cup {[k |-> "ctrl", c |-> c, tok |-> t, rt |-> (IF V7 /\ c \in {"Connect", "Token"} THEN "W" ELSE "-"),
           ack |-> x.seq, r |-> (IF c = "Close" THEN 3 ELSE -1)]
            : c \in {"KeepAlive", "Connect", "Accept", "Close"} \cup (IF V7 THEN {"Token"} ELSE {"ConnectAccept"})}
    \cup (IF V7 THEN {[k |-> "connless", id |-> 999, sz |-> 5, tok |-> t, rt |-> x.their],
                      [k |-> "connless", id |-> 999, sz |-> 5, tok |-> x.own, rt |-> t]} ELSE {})
    : t \in ForeignTokens(x)}
ForgeWith(e, f) ==
  /\ Apply(e, FeedOp(ep[e], f, Draw(e), 0))
  /\ act' = [a |-> "forge", e |-> e, f |-> f]
  /\ cnt' = [cnt EXCEPT !.forge = @ + 1]
  /\ UNCHANGED <<sub, snv, scl>>
IsForeign(x, f) == /\ TokenFixed(x) /\ ~TokenException(x, f)
                   \* (0.6 connless datagrams carry no token and are not connection-oriented: never foreign)
                   /\ IF f.k = "connless" THEN V7 /\ (f.tok # x.own \/ f.rt # x.their) ELSE f.tok # Expected(x)
\* the most dangerous forgeries: copies of genuine datagrams in flight towards e with a foreign token
Stolen(e) == LET x == ep[e]  ds == net[Peer(e)] IN
             UNION {{[ds[j] EXCEPT !.tok = t] : t \in ForeignTokens(x)} : j \in 1..Len(ds)}
\* connect requests whose token field is not the placeholder but a proposed token (reserved values, arbitrary ones),
\* at a 0.6 endpoint that has not fixed a token yet: the acceptor draws its token itself, such requests are ignored
ConnectProbes(e) == IF ~V7 /\ e = "s" /\ ep[e].st = "Unc"
                    THEN {[k |-> "ctrl", c |-> "Connect", tok |-> t, rt |-> "-", ack |-> 0, r |-> -1] : t \in {"Z0", "W"}}
                    ELSE {}
Forge(e) ==
  /\ cnt.forge < MaxForge
  /\ \/ \E f \in Forged(ep[e]) \cup Stolen(e) : IsForeign(ep[e], f) /\ ForgeWith(e, f)
     \/ \E f \in ConnectProbes(e) : ForgeWith(e, f)

\* ----------------------------------------------------------------- C02: the fair suffix
DeliverOldest(e) == /\ net[e] # <<>> /\ DeliverAt(e, 1, FALSE, 0) /\ act' = [a |-> "deliver", from |-> e, i |-> 1, k |-> 0]
                    /\ UNCHANGED <<sub, snv, scl, cnt>>
Stabilize == /\ ~stable /\ stable' = TRUE /\ act' = [a |-> "stabilize"]
             /\ out' = NoOut
             /\ UNCHANGED <<ep, net, sub, snv, scl, del, ready, answered, bnd, orph, cnt>>
\* deterministic fair scheduler: deliver everything in flight, then every due tick, then let time pass
StableStep == /\ stable /\ UNCHANGED stable
              /\ IF \E e \in E : net[e] # <<>> THEN DeliverOldest(CHOOSE e \in E : net[e] # <<>>)
                 ELSE IF \E e \in E : TickDue(ep[e]) THEN TickAny(CHOOSE e \in E : TickDue(ep[e]), 0) /\ UNCHANGED cnt
                 ELSE AdvanceBy(Step) /\ UNCHANGED cnt

Unstable == \/ Connect
            \/ \E e \in E : Send(e) \/ SendConnless(e) \/ FlushApi(e) \/ Tick(e) \/ Disconnect(e)
                            \/ Deliver(e) \/ Drop(e) \/ Dup(e) \/ Forge(e) \/ Reset(e)
            \/ Advance \/ AcceptToken
Next == \/ (~stable /\ Unstable /\ UNCHANGED stable) \/ Stabilize \/ StableStep

Spec == Init /\ [][Next]_vars
FairSpec == Spec /\ WF_vars(StableStep)

Constr == stable \/ NetOk
View == <<ep, net, sub, snv, scl, del, ready, answered, bnd, orph, cnt, stable>>

\* ----------------------------------------------------------------- properties
\* the property-level specification (histories only); ConnSys refines it
Ch == INSTANCE Channel
ChannelSpec == Ch!ChannelSpec

ChunkEvs(s) == SelectSeq(s, LAMBDA ev : ev.e = "chunk")
VitalIds(s) == LET v == SelectSeq(ChunkEvs(s), LAMBDA ev : ev.v) IN [j \in 1..Len(v) |-> v[j].id]
\* C01 (per session of the receiver, see Channel.tla)
C01Prefix == Ch!Prefix(sub, del, bnd)
C01NonVital == Ch!Genuine(snv, scl, del)
C01Ready == ready <= 1 /\ (ready = 1 => answered)
C01 == C01Prefix /\ C01NonVital /\ C01Ready
\* C04: every datagram in flight respects the size and chunk-count limits
C04 == \A e \in E : \A j \in 1..Len(net[e]) :
          LET d == net[e][j] IN
          /\ d.k = "chunks" => (PktLen(d.chunks) <= MaxPayload /\ Len(d.chunks) <= MaxChunks
                                /\ (Len(d.chunks) > 0 \/ d.rr))
          /\ d.k = "connless" => d.sz <= MaxPayload
\* a refused send leaves the endpoint untouched
C04Refusal == [][(act'.a = "send" /\ out'.res = "TooLongData") => UNCHANGED <<ep, net, del>>]_vars
\* a call during which the send callback failed is, for everybody else, a call whose datagram was lost: nothing but
\* the k-th datagram was refused, the k-1 before it were sent, none after it
CallbackLoss == [][out'.res = "callback" =>
                     /\ act'.a \in {"connect", "send", "flush", "tick", "disconnect", "connless", "deliver", "dup"}
                     /\ act'.k # 0 /\ Len(out'.outs) = act'.k - 1]_vars
\* C02: while anything is unsent, unacknowledged or mid-handshake the deadline is finite
C02Deadline == \A e \in E : Busy(ep[e]) => NeedsTick(ep[e]) # Inactive
\* C03: a forged datagram changes nothing
C03Inert == [][(act'.a = "forge" /\ IsForeign(ep[act'.e], act'.f))
                  => (UNCHANGED <<ep, net, del, ready, answered>> /\ out'.evs = <<>> /\ out'.outs = <<>>)]_vars
\* ... and so does a genuine datagram of another session (or any other datagram in flight) that does not carry the
\* token the receiving endpoint has fixed: it is consumed without any effect
C03InertDeliver ==
  [][(act'.a \in {"deliver", "dup"} /\ IsForeign(ep[Peer(act'.from)], net[act'.from][act'.i]))
        => (UNCHANGED <<ep, del, ready, answered>> /\ out'.evs = <<>> /\ out'.outs = <<>>
            /\ net'[Peer(act'.from)] = net[Peer(act'.from)])]_vars
\* tokens handed out are never reserved values (0.6/DDNet: all-ones and all-zero; 0.7: all-ones)
C03Tokens == \A e \in E : TokenFixed(ep[e]) =>
                (IF V7 THEN ep[e].own \notin {"FF", "no"} ELSE ep[e].tok \notin {"FF", "Z0"})

Closed == \E e \in E : ep[e].st = "Disc"
\* an endpoint still in a session its peer has left: only a receive timeout (not implemented: TODO in connection.rs)
\* could end it
Orphaned == \E e \in E : orph[e] /\ ep[e].st \notin {"Unc", "Disc"}
Quiescent == \/ ep["c"].st = "Unc"
             \/ Closed
             \/ Orphaned
             \/ /\ ready = 1
                /\ Ch!AllDelivered(sub, del, bnd)
                /\ \A e \in E : Idle(ep[e])
Progress == stable ~> Quiescent
=============================================================================
