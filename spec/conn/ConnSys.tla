------------------------------ MODULE ConnSys ------------------------------
(* Two endpoints of the connection layer ("c" connects, "s" accepts), two     *)
(* directed lossy networks, a discrete clock and the application histories.   *)
(* Decides C01 (prefix / ready-once), C02 (progress, finite deadline,         *)
(* termination of resend), C03 (foreign tokens are inert), C04 (well-formed   *)
(* sends, refusals) on the model; the same actions are re-used by the export  *)
(* (ConnExp) and trace (ConnTrace) modules that bind the model to the code.   *)
EXTENDS Conn

CONSTANTS MaxVitalS,    \* vital chunks the accepting side may send (MaxVital bounds the connecting side)
          Sizes,        \* payload sizes offered to Send / SendConnless
          Senders,      \* endpoints whose application sends chunks
          MaxVital, MaxNV, MaxConnless,    \* per endpoint
          MaxInFlight,  \* datagrams in flight per direction (state constraint)
          MaxFaults,    \* drops + duplications
          MaxClock,     \* clock advances of `Step` ms in the unstable phase
          MaxForge,     \* forged datagrams
          MaxDisc,      \* 1: Disconnect is explored
          Reasons,      \* close-reason lengths offered to Disconnect
          InitOnline    \* TRUE: start from an established connection (used with SeqStart # 0)

Step == 500
E == {"c", "s"}
Peer(e) == IF e = "c" THEN "s" ELSE "c"
\* the token an endpoint draws from its random source
Draw(e) == IF V7 THEN (IF e = "c" THEN "C" ELSE "S") ELSE "T"

VARIABLES ep,        \* endpoint records
          net,       \* net[e]: datagrams sent by e, in flight to Peer(e)
          sub,       \* sub[e]: ids of vital chunks accepted by Send at e, in order
          snv,       \* snv[e]: ids of non-vital chunks accepted by Send at e
          scl,       \* scl[e]: ids of connless payloads sent by e
          del,       \* del[e]: events handed to the application at e, in order
          ready,     \* number of Ready events seen by the application
          answered,  \* the accepting side has sent its ConnectAccept (0.6) / Accept (0.7)
          cnt,       \* exploration counters
          stable,    \* the fair suffix has begun
          act, out   \* last action with its arguments / its result (excluded from the VIEW)
vars == <<ep, net, sub, snv, scl, del, ready, answered, cnt, stable, act, out>>

NetOk == \A e \in E : Len(net[e]) <= MaxInFlight
IsAnswer(d) == d.k = "ctrl" /\ d.c = (IF V7 THEN "Accept" ELSE "ConnectAccept")
Answers(e, outs) == e = "s" /\ \E j \in 1..Len(outs) : IsAnswer(outs[j])
Readies(evs) == Len(SelectSeq(evs, LAMBDA ev : ev.e = "ready"))

EstOnline(e) ==   \* an established endpoint just after both sides flushed at time 0
  IF V7 THEN [Online(Fresh, "no", Draw(e), Draw(Peer(e))) EXCEPT !.sendT = SendTO]
  ELSE [Online(Fresh, IF TokenMode THEN "T" ELSE "no", "no", "no") EXCEPT !.sendT = SendTO]

Init ==
  /\ ep = [e \in E |-> IF InitOnline THEN EstOnline(e) ELSE Fresh]
  /\ net = [e \in E |-> <<>>]
  /\ sub = [e \in E |-> <<>>]
  /\ snv = [e \in E |-> {}]
  /\ scl = [e \in E |-> {}]
  /\ del = [e \in E |-> <<>>]
  /\ ready = IF InitOnline THEN 1 ELSE 0
  /\ answered = InitOnline
  /\ cnt = [vital |-> [e \in E |-> 0], nv |-> [e \in E |-> 0], cl |-> [e \in E |-> 0],
            faults |-> 0, clock |-> 0, forge |-> 0, disc |-> 0]
  /\ stable = FALSE
  /\ act = [a |-> "init"]
  /\ out = [res |-> "ok", evs |-> <<>>, outs |-> <<>>]

\* effect of an API call at e with result r (a record R(...) of Conn)
Apply(e, r) ==
  /\ ep' = [ep EXCEPT ![e] = r.x]
  /\ net' = [net EXCEPT ![e] = @ \o r.outs]
  /\ del' = [del EXCEPT ![e] = @ \o r.evs]
  /\ ready' = ready + Readies(r.evs)
  /\ answered' = (answered \/ Answers(e, r.outs))
  /\ out' = [res |-> r.res, evs |-> r.evs, outs |-> r.outs]

Connect ==
  /\ ep["c"].st = "Unc"
  /\ Apply("c", ConnectOp(ep["c"], Draw("c")))
  /\ act' = [a |-> "connect", e |-> "c"]
  /\ UNCHANGED <<sub, snv, scl, cnt>>

NextId(e) == cnt.vital[e] + cnt.nv[e] + cnt.cl[e] + 1

SendWith(e, v, sz, id) ==
  LET r == SendOp(ep[e], [id |-> id, sz |-> sz, v |-> v])
      okk == r.res = "ok"
  IN /\ ep[e].st = "Onl"
     /\ Apply(e, r)
     /\ sub' = IF okk /\ v THEN [sub EXCEPT ![e] = Append(@, id)] ELSE sub
     /\ snv' = IF okk /\ ~v THEN [snv EXCEPT ![e] = @ \cup {id}] ELSE snv
     /\ cnt' = IF v THEN [cnt EXCEPT !.vital[e] = @ + 1] ELSE [cnt EXCEPT !.nv[e] = @ + 1]
     /\ act' = [a |-> "send", e |-> e, v |-> v, sz |-> sz, id |-> id]
     /\ UNCHANGED scl
Send(e) ==
  /\ e \in Senders
  /\ \E v \in BOOLEAN, sz \in Sizes :
       /\ IF v THEN cnt.vital[e] < (IF e = "s" THEN MaxVitalS ELSE MaxVital) ELSE cnt.nv[e] < MaxNV
       /\ SendWith(e, v, sz, IF sz = 0 THEN 0 ELSE NextId(e))

ConnlessWith(e, sz, id) ==
  LET r == ConnlessOp(ep[e], [id |-> id, sz |-> sz])
  IN /\ ep[e].st = "Onl"
     /\ Apply(e, r)
     /\ scl' = IF r.res = "ok" THEN [scl EXCEPT ![e] = @ \cup {id}] ELSE scl
     /\ cnt' = [cnt EXCEPT !.cl[e] = @ + 1]
     /\ act' = [a |-> "connless", e |-> e, sz |-> sz, id |-> id]
     /\ UNCHANGED <<sub, snv>>
SendConnless(e) ==
  /\ e \in Senders /\ cnt.cl[e] < MaxConnless
  /\ \E sz \in Sizes : ConnlessWith(e, sz, IF sz = 0 THEN 0 ELSE NextId(e))

FlushApi(e) ==
  /\ ep[e].st = "Onl"
  /\ Apply(e, FlushOp(ep[e]))
  /\ act' = [a |-> "flush", e |-> e]
  /\ UNCHANGED <<sub, snv, scl, cnt>>

TickAny(e) ==               \* tick() may be called at any time; when nothing is due it is a no-op
  /\ Apply(e, TickOp(ep[e]))
  /\ act' = [a |-> "tick", e |-> e]
  /\ UNCHANGED <<sub, snv, scl, cnt>>
Tick(e) == TickDue(ep[e]) /\ TickAny(e)     \* the model explores due ticks only

DisconnectWith(e, r) ==
  /\ ep[e].st # "Disc" /\ (V7 \/ ep[e].st # "Unc")
  /\ Apply(e, DisconnectOp(ep[e], r))
  /\ act' = [a |-> "disconnect", e |-> e, r |-> r]
  /\ cnt' = [cnt EXCEPT !.disc = @ + 1]
  /\ UNCHANGED <<sub, snv, scl>>
Disconnect(e) == cnt.disc < MaxDisc /\ \E r \in Reasons : DisconnectWith(e, r)

AdvanceBy(d) ==
  /\ ep' = [e \in E |-> AdvanceOp(ep[e], d)]
  /\ act' = [a |-> "advance", d |-> d]
  /\ out' = [res |-> "ok", evs |-> <<>>, outs |-> <<>>]
  /\ UNCHANGED <<net, sub, snv, scl, del, ready, answered>>
Advance == cnt.clock < MaxClock /\ AdvanceBy(Step) /\ cnt' = [cnt EXCEPT !.clock = @ + 1]

\* the i-th datagram in flight from e reaches Peer(e)
DeliverAt(e, i, keep) ==
  LET d == net[e][i]
      p == Peer(e)
      r == FeedOp(ep[p], d, Draw(p))
      rest == IF keep THEN net ELSE [net EXCEPT ![e] = RemoveAt(@, i)]
  IN /\ ep' = [ep EXCEPT ![p] = r.x]
     /\ net' = [rest EXCEPT ![p] = @ \o r.outs]
     /\ del' = [del EXCEPT ![p] = @ \o r.evs]
     /\ ready' = ready + Readies(r.evs)
     /\ answered' = (answered \/ Answers(p, r.outs))
     /\ out' = [res |-> r.res, evs |-> r.evs, outs |-> r.outs]
Deliver(e) == \E i \in 1..Len(net[e]) :
                /\ DeliverAt(e, i, FALSE) /\ act' = [a |-> "deliver", from |-> e, i |-> i]
                /\ UNCHANGED <<sub, snv, scl, cnt>>
\* duplication = delivery of a copy that stays in flight
Dup(e) == /\ cnt.faults < MaxFaults
          /\ \E i \in 1..Len(net[e]) :
                /\ DeliverAt(e, i, TRUE) /\ act' = [a |-> "dup", from |-> e, i |-> i]
          /\ cnt' = [cnt EXCEPT !.faults = @ + 1]
          /\ UNCHANGED <<sub, snv, scl>>
Drop(e) ==
  /\ cnt.faults < MaxFaults
  /\ \E i \in 1..Len(net[e]) :
       /\ net' = [net EXCEPT ![e] = RemoveAt(@, i)]
       /\ act' = [a |-> "drop", from |-> e, i |-> i]
  /\ cnt' = [cnt EXCEPT !.faults = @ + 1]
  /\ out' = [res |-> "ok", evs |-> <<>>, outs |-> <<>>]
  /\ UNCHANGED <<ep, sub, snv, scl, del, ready, answered>>

\* ----------------------------------------------------------------- C03: foreign datagrams
\* every packet kind, carrying any token other than the one endpoint e insists on
\* "near*": tokens derived from the agreed one (one bit flipped; two bytes changed so that a XOR fold of the
\* byte differences cancels; two bytes swapped; bytes rotated) -- the harness computes the bytes
NearTokens == {"near-bit", "near-xor", "near-swap", "near-rot"}
ForeignTokens(x) == ({"W", "FF", "Z0"} \cup NearTokens \cup (IF V7 THEN {x.their} ELSE {"no"})) \ {Expected(x)}
Forged(x) ==
  LET nextseq == Nxt(x.ack)
      chunk == [v |-> TRUE, seq |-> nextseq, rs |-> FALSE, id |-> 999, sz |-> 5] IN
  UNION {
    {[k |-> "chunks", tok |-> t, ack |-> x.seq, rr |-> rr, chunks |-> cs] : rr \in BOOLEAN, cs \in {<<>>, <<chunk>>}}
    \cup {[k |-> "ctrl", c |-> c, tok |-> t, rt |-> (IF V7 /\ c \in {"Connect", "Token"} THEN "W" ELSE "-"),
           ack |-> x.seq, r |-> (IF c = "Close" THEN 3 ELSE -1)]
            : c \in {"KeepAlive", "Connect", "Accept", "Close"} \cup (IF V7 THEN {"Token"} ELSE {"ConnectAccept"})}
    \cup (IF V7 THEN {[k |-> "connless", id |-> 999, sz |-> 5, tok |-> t, rt |-> x.their],
                      [k |-> "connless", id |-> 999, sz |-> 5, tok |-> x.own, rt |-> t]} ELSE {})
    : t \in ForeignTokens(x)}
ForgeWith(e, f) ==
  /\ Apply(e, FeedOp(ep[e], f, Draw(e)))
  /\ act' = [a |-> "forge", e |-> e, f |-> f]
  /\ cnt' = [cnt EXCEPT !.forge = @ + 1]
  /\ UNCHANGED <<sub, snv, scl>>
IsForeign(x, f) == /\ TokenFixed(x) /\ ~TokenException(x, f)
                   /\ IF f.k = "connless" THEN f.tok # x.own \/ f.rt # x.their ELSE f.tok # Expected(x)
\* the most dangerous forgeries: copies of genuine datagrams in flight towards e with a foreign token
Stolen(e) == LET x == ep[e]  ds == net[Peer(e)] IN
             UNION {{[ds[j] EXCEPT !.tok = t] : t \in ForeignTokens(x)} : j \in 1..Len(ds)}
Forge(e) ==
  /\ cnt.forge < MaxForge
  /\ \E f \in Forged(ep[e]) \cup Stolen(e) : IsForeign(ep[e], f) /\ ForgeWith(e, f)

\* ----------------------------------------------------------------- C02: the fair suffix
DeliverOldest(e) == /\ net[e] # <<>> /\ DeliverAt(e, 1, FALSE) /\ act' = [a |-> "deliver", from |-> e, i |-> 1]
                    /\ UNCHANGED <<sub, snv, scl, cnt>>
Stabilize == /\ ~stable /\ stable' = TRUE /\ act' = [a |-> "stabilize"]
             /\ out' = [res |-> "ok", evs |-> <<>>, outs |-> <<>>]
             /\ UNCHANGED <<ep, net, sub, snv, scl, del, ready, answered, cnt>>
\* deterministic fair scheduler: deliver everything in flight, then every due tick, then let time pass
StableStep == /\ stable /\ UNCHANGED stable
              /\ IF \E e \in E : net[e] # <<>> THEN DeliverOldest(CHOOSE e \in E : net[e] # <<>>)
                 ELSE IF \E e \in E : TickDue(ep[e]) THEN Tick(CHOOSE e \in E : TickDue(ep[e]))
                 ELSE AdvanceBy(Step) /\ UNCHANGED cnt

Unstable == \/ Connect
            \/ \E e \in E : Send(e) \/ SendConnless(e) \/ FlushApi(e) \/ Tick(e) \/ Disconnect(e)
                            \/ Deliver(e) \/ Drop(e) \/ Dup(e) \/ Forge(e)
            \/ Advance
Next == \/ (~stable /\ Unstable /\ UNCHANGED stable) \/ Stabilize \/ StableStep

Spec == Init /\ [][Next]_vars
FairSpec == Spec /\ WF_vars(StableStep)

Constr == stable \/ NetOk
View == <<ep, net, sub, snv, scl, del, ready, answered, cnt, stable>>

\* ----------------------------------------------------------------- properties
ChunkEvs(s) == SelectSeq(s, LAMBDA ev : ev.e = "chunk")
VitalIds(s) == LET v == SelectSeq(ChunkEvs(s), LAMBDA ev : ev.v) IN [j \in 1..Len(v) |-> v[j].id]
\* C01
C01Prefix == \A e \in E : IsPrefix(VitalIds(del[Peer(e)]), sub[e])
C01NonVital == \A e \in E : \A j \in 1..Len(del[Peer(e)]) :
                 LET ev == del[Peer(e)][j] IN
                 /\ (ev.e = "chunk" /\ ~ev.v) => ev.id \in snv[e]
                 /\ ev.e = "connless" => ev.id \in scl[e]
C01Ready == ready <= 1 /\ (ready = 1 => answered)
C01 == C01Prefix /\ C01NonVital /\ C01Ready
\* C04: every datagram in flight respects the size and chunk-count limits
C04 == \A e \in E : \A j \in 1..Len(net[e]) :
          LET d == net[e][j] IN
          /\ d.k = "chunks" => (PktLen(d.chunks) <= MaxPayload /\ Len(d.chunks) <= MaxChunks
                                /\ (Len(d.chunks) > 0 \/ d.rr))
          /\ d.k = "connless" => d.sz <= MaxPayload
\* a refused send leaves the endpoint untouched
C04Refusal == [][(act'.a = "send" /\ out'.res = "TooLongData") => UNCHANGED <<ep, net, del>>]_vars
\* C02: while anything is unsent, unacknowledged or mid-handshake the deadline is finite
C02Deadline == \A e \in E : Busy(ep[e]) => NeedsTick(ep[e]) # Inactive
\* C03: a forged datagram changes nothing
C03Inert == [][(act'.a = "forge" /\ IsForeign(ep[act'.e], act'.f))
                  => (UNCHANGED <<ep, net, del, ready, answered>> /\ out'.evs = <<>> /\ out'.outs = <<>>)]_vars
\* tokens handed out are never reserved values (0.6/DDNet: all-ones and all-zero; 0.7: all-ones)
C03Tokens == \A e \in E : TokenFixed(ep[e]) =>
                (IF V7 THEN ep[e].own \notin {"FF", "no"} ELSE ep[e].tok \notin {"FF", "Z0"})

Closed == \E e \in E : ep[e].st = "Disc"
Quiescent == \/ ep["c"].st = "Unc"
             \/ Closed
             \/ /\ ready = 1
                /\ \A e \in E : VitalIds(del[Peer(e)]) = sub[e] /\ Idle(ep[e])
Progress == stable ~> Quiescent

\* refinement: the histories of ConnSys are a behaviour of the property-level Channel specification
Ch == INSTANCE Channel
ChannelSpec == Ch!ChannelSpec
=============================================================================
