---------------------------- MODULE ChannelTrace ----------------------------
(* Property-level judgement of observable traces of the real connection     *)
(* layer (C01-C04).  The trace (IOEnv.TRACE, NDJSON, written by `vh-conn`)  *)
(* is a concatenation of runs, each starting with a "reset" line.  Only     *)
(* observable things are used: API results, events handed to the            *)
(* application, well-formedness findings of the library's own reader on     *)
(* every datagram sent, needs_tick(), and the coarse busy/idle flags.       *)
(* A run that does something the property-level specification (Channel)    *)
(* has no step for is recorded in `bad` with the line and the reason; the   *)
(* rest of that run is skipped and judging continues with the next run, so  *)
(* one TLC run classifies every candidate.                                   *)
EXTENDS Integers, Sequences, FiniteSets, SequencesExt, TLC, Json, IOUtils

Rec == ndJsonDeserialize(IOEnv.TRACE)

VARIABLES l,          \* next line
          run,        \* index of the current run (number of resets seen)
          skip,       \* the current run was rejected: ignore lines up to the next reset
          sub, snv, scl, del, ready, answered, bnd,
          maybe,      \* ids of chunks whose send() returned the error of the send callback: submitted or not, as the code pleases
          last,       \* last observation [st, nt, busy, idle] or the empty record
          phase,      \* "run" | "fair"
          v7,         \* protocol variant of the current run (reserved token values differ)
          seen,       \* rules already reported for the current run
          refused,    \* a send was refused (TooLongData) earlier in the current run
          bad         \* sequence of [run, line, why]
tvars == <<l, run, skip, sub, snv, scl, del, ready, answered, bnd, maybe, last, phase, v7, seen, refused, bad>>

Ch == INSTANCE Channel
E2 == <<"c", "s">>
Idx(e) == IF e = "c" THEN 1 ELSE 2

NoObs == [st |-> <<"Unc", "Unc">>, nt |-> <<-1, -1>>, busy |-> <<FALSE, FALSE>>, idle |-> <<TRUE, TRUE>>]
Obs(ev) == [st |-> ev.st, nt |-> ev.nt, busy |-> ev.busy, idle |-> ev.idle]

Init ==
  /\ l = 1 /\ run = 0 /\ skip = FALSE /\ seen = {}
  /\ sub = [e \in Ch!CE |-> <<>>] /\ snv = [e \in Ch!CE |-> {}] /\ scl = [e \in Ch!CE |-> {}]
  /\ del = [e \in Ch!CE |-> <<>>] /\ ready = 0 /\ answered = FALSE
  /\ bnd = [e \in Ch!CE |-> <<>>] /\ maybe = {}
  /\ last = NoObs /\ phase = "run" /\ v7 = FALSE /\ refused = FALSE /\ bad = <<>>

Reset(ev) ==
  /\ run' = run + 1 /\ skip' = FALSE
  /\ sub' = [e \in Ch!CE |-> <<>>] /\ snv' = [e \in Ch!CE |-> {}] /\ scl' = [e \in Ch!CE |-> {}]
  /\ del' = [e \in Ch!CE |-> <<>>] /\ bnd' = [e \in Ch!CE |-> <<>>] /\ maybe' = {}
  /\ ready' = (IF ev.online THEN 1 ELSE 0) /\ answered' = ev.online
  /\ last' = NoObs /\ phase' = "run" /\ v7' = ev.v7 /\ seen' = {} /\ refused' = FALSE
  /\ UNCHANGED bad

Reject(whys) ==
  /\ bad' = bad \o [i \in 1..Len(whys) |-> [run |-> run, line |-> l, why |-> whys[i]]]
  /\ skip' = TRUE
  /\ UNCHANGED <<run, sub, snv, scl, del, ready, answered, bnd, maybe, last, phase, v7, seen, refused>>

\* endpoint whose application receives the events of this step
Target(ev) == IF ev.a \in {"deliver", "dup"} THEN Ch!CPeer(ev.act.from)
              ELSE IF ev.a = "forge" THEN ev.act.e ELSE "c"
NReady(evs) == Len(SelectSeq(evs, LAMBDA x : x.e = "ready"))

\* every rule the step breaks (a run is not abandoned at the first one: a later, different violation of another
\* property must still be seen); each reason is recorded once per run
W(id, why) == {[id |-> id, why |-> why]}
\* chunks whose submission is in doubt are left out of the order check on both sides
Sure(sb, mb) == [e \in Ch!CE |-> SelectSeq(sb[e], LAMBDA id : id \notin mb)]
SureDel(dl, mb) == [e \in Ch!CE |-> SelectSeq(dl[e], LAMBDA x : ~(x.e = "chunk" /\ x.v /\ x.id \in mb))]
\* session boundaries in the filtered histories
SureBnd(sb, dl, bd, mb) == [e \in Ch!CE |-> [j \in 1..Len(bd[e]) |->
                               [s |-> Len(SelectSeq(SubSeq(sb[e], 1, bd[e][j].s), LAMBDA id : id \notin mb)),
                                d |-> Len(SelectSeq(SubSeq(dl[e], 1, bd[e][j].d), LAMBDA x : ~(x.e = "chunk" /\ x.v /\ x.id \in mb)))]]]
PrefixOk(sb, dl, bd, mb) == Ch!Prefix(Sure(sb, mb), SureDel(dl, mb), SureBnd(sb, dl, bd, mb))

Whys(ev, t, sub1, snv1, scl1, del1, ready1, ans1, o, mb1) ==
  (IF ev.res \notin {"ok", "TooLongData", "callback"} THEN W("return", "C04/C02: call did not return normally: " \o ev.detail) ELSE {})
  \cup (IF ev.malformed # <<>> THEN W("malformed", "C04: malformed datagram sent: " \o ev.malformed[1]) ELSE {})
  \cup (IF ev.a = "send" /\ ev.res = "TooLongData" /\ (ev.nouts # 0 \/ o # last) THEN W("refusal", "C04: a refused send changed the connection") ELSE {})
  \cup (IF ev.a = "forge" /\ (ev.evs # <<>> \/ ev.nouts # 0 \/ o # last) THEN W("forge", "C03: a datagram without the agreed token had an effect") ELSE {})
  \cup (IF ev.a \notin {"deliver", "dup", "forge"} /\ ev.evs # <<>> THEN W("nowhere", "C01: events out of nowhere") ELSE {})
  \cup (IF ~PrefixOk(sub1, del1, bnd, mb1) THEN W("prefix", "C01: delivered vital chunks are not a prefix of the submitted ones") ELSE {})
  \cup (IF ~Ch!Genuine(snv1, scl1, del1) THEN W("genuine", "C01: a delivered non-vital chunk was never sent") ELSE {})
  \cup (IF ~Ch!ReadyOnce(ready1, ans1) THEN W("ready", "C01: ready more than once or before the acceptor answered") ELSE {})
  \cup (IF \E i \in 1..2 : o.busy[i] /\ o.nt[i] = -1 THEN W("deadline", "C02: work pending but no deadline reported") ELSE {})
  \cup (IF \E i \in 1..2 : ev.tokens[i] \in (IF v7 THEN {"FF"} ELSE {"FF", "Z0"}) THEN W("token", "C03: a reserved value was handed out as token") ELSE {})

Step(ev) ==
  LET t == Target(ev)
      okSend == ev.a = "send" /\ ev.res \in {"ok", "callback"}
      mb1 == IF ev.a = "send" /\ ev.res = "callback" /\ ev.act.v THEN maybe \cup {ev.act.id} ELSE maybe
      sub1 == IF okSend /\ ev.act.v THEN [sub EXCEPT ![ev.act.e] = Append(@, ev.act.id)] ELSE sub
      snv1 == IF okSend /\ ~ev.act.v THEN [snv EXCEPT ![ev.act.e] = @ \cup {ev.act.id}] ELSE snv
      scl1 == IF ev.a = "connless" /\ ev.res = "ok" THEN [scl EXCEPT ![ev.act.e] = @ \cup {ev.act.id}] ELSE scl
      del1 == [del EXCEPT ![t] = @ \o ev.evs]
      ready1 == ready + NReady(ev.evs)
      ans1 == answered \/ ev.answered
      o == Obs(ev)
      new == {w \in Whys(ev, t, sub1, snv1, scl1, del1, ready1, ans1, o, mb1) : w.id \notin seen}
      newq == SetToSeq(new)
  IN /\ sub' = sub1 /\ snv' = snv1 /\ scl' = scl1 /\ del' = del1 /\ ready' = ready1 /\ answered' = ans1
     /\ last' = o /\ maybe' = mb1 /\ UNCHANGED bnd
     /\ bad' = bad \o [i \in 1..Len(newq) |-> [run |-> run, line |-> l, why |-> newq[i].why]]
     /\ seen' = seen \cup {w.id : w \in new}
     /\ refused' = (refused \/ ev.res = "TooLongData")
     /\ UNCHANGED <<run, skip, phase, v7>>

\* the application resets a closed connection: its histories are cut here
CReset(ev) ==
  LET e == ev.act.e IN
  /\ bnd' = [bnd EXCEPT ![e] = Append(@, [s |-> Len(sub[e]), d |-> Len(del[e])])]
  /\ ready' = IF e = "c" THEN 0 ELSE ready
  /\ last' = Obs(ev)
  /\ UNCHANGED <<run, skip, sub, snv, scl, del, answered, maybe, phase, v7, seen, refused, bad>>

Quiescent ==
  \/ last.st[1] = "Unc"
  \/ \E i \in 1..2 : last.st[i] = "Disc"
  \/ /\ ready = 1
     /\ Ch!AllDelivered(Sure(sub, maybe), SureDel(del, maybe), SureBnd(sub, del, bnd, maybe))
     /\ \A e \in Ch!CE : last.idle[Idx(e)]

Next ==
  /\ l <= Len(Rec)
  /\ l' = l + 1
  /\ LET ev == Rec[l] IN
     IF ev.a = "reset" THEN Reset(ev)
     ELSE IF skip THEN UNCHANGED <<run, skip, sub, snv, scl, del, ready, answered, bnd, maybe, last, phase, v7, seen, refused, bad>>
     ELSE IF ev.a = "fair" THEN phase' = "fair" /\ UNCHANGED <<run, skip, sub, snv, scl, del, ready, answered, bnd, maybe, last, v7, seen, refused, bad>>
     ELSE IF ev.a = "end" THEN (IF Quiescent THEN UNCHANGED <<run, skip, sub, snv, scl, del, ready, answered, bnd, maybe, last, phase, v7, seen, refused, bad>>
                                ELSE Reject(<<"C02: not quiescent after the fair suffix">>
                                            \o (IF refused THEN <<"C04: after a refused send the connection no longer carries what is submitted (not usable)">> ELSE <<>>)))
     ELSE IF ev.res = "skipped"         \* a schedule step that does not apply to what the code really did: skipped
          THEN UNCHANGED <<run, skip, sub, snv, scl, del, ready, answered, bnd, maybe, last, phase, v7, seen, refused, bad>>
     ELSE IF ev.a = "creset" THEN CReset(ev)
     ELSE Step(ev)

TraceSpec == Init /\ [][Next]_tvars

\* all lines consumed; the verdict (list of rejected runs) is printed for the driver
Done ==
  LET d == TLCGet("stats").diameter IN
  /\ (d - 1 = Len(Rec) \/ Print(<<"TRACE REJECTED: not all lines consumed", d, Len(Rec)>>, FALSE))
Verdict == l > Len(Rec) => PrintT(<<"VERDICT", ToJson([runs |-> run, bad |-> bad])>>)
=============================================================================
