------------------------------ MODULE NetIso ------------------------------
(* Property-level judgement for C20 on observable traces of the real Net<A>  *)
(* (vh-net observe / drive).  Each line carries what the real endpoint did   *)
(* (events, datagrams per address as bytes, needs_tick, peer list before and *)
(* after) and what per-address *shadow* Connections -- independent single    *)
(* connections fed only that address's datagrams and calls -- did for the    *)
(* same step.  C20 = the two agree, plus the creation / removal / fresh-id   *)
(* rules.  Runs start with a "reset" line; a rejected run is recorded in     *)
(* `bad` and skipped, so one TLC run classifies every candidate.             *)
EXTENDS Integers, Sequences, FiniteSets, TLC, Json, IOUtils

Rec == ndJsonDeserialize(IOEnv.TRACE)

VARIABLES l, run, skip, bad
tvars == <<l, run, skip, bad>>

Init == l = 1 /\ run = 0 /\ skip = FALSE /\ bad = <<>>

PidsOf(ps) == {ps[i].pid : i \in 1..Len(ps)}
AddrsOf(ps) == {ps[i].addr : i \in 1..Len(ps)}
AddrOfPid(ps, p) == LET S == {i \in 1..Len(ps) : ps[i].pid = p} IN IF S = {} THEN "?" ELSE ps[CHOOSE i \in S : TRUE].addr
Distinct(ps) == \A i, j \in 1..Len(ps) : i # j => ps[i].pid # ps[j].pid
DiscPids(evs) == {evs[j].pid : j \in {k \in 1..Len(evs) : evs[k].e = "disc"}}
IsConnectReq(k) == k \in {"connect", "connect+token"}

Why(ev) ==
  LET pre == ev.pre  post == ev.post
      newp == PidsOf(post) \ PidsOf(pre)
      gone == PidsOf(pre) \ PidsOf(post)
      unknown == ev.a = "feed" /\ ev.act.addr \notin AddrsOf(pre)
  IN
  IF ev.res = "panic" /\ ev.sh.res # "panic" THEN "C20: the endpoint panicked where an independent connection does not: " \o ev.detail
  ELSE IF ev.a \in {"disconnect", "reject", "ignore"} /\ ev.act.pid \in PidsOf(post) THEN "C20: peer still there after disconnect/reject/ignore: " \o ev.detail
  ELSE IF ev.res = "panic" THEN "ok"     \* both panic alike (a call the state does not permit): nothing more to compare
  ELSE IF ~Distinct(post) THEN "C20: peer ids of live peers are not distinct"
  ELSE IF newp # {} /\ ~(ev.a = "connect" \/ (unknown /\ ev.accepting /\ IsConnectReq(ev.kind)))
       THEN "C20: a peer was created without connect() or a connect request from an unknown address on an accepting endpoint"
  ELSE IF unknown /\ ev.accepting /\ IsConnectReq(ev.kind) /\ Cardinality(newp) # 1 THEN "C20: a connect request from an unknown address did not create exactly one pending peer"
  ELSE IF newp # {} /\ \E p \in newp : AddrOfPid(post, p) # ev.act.addr THEN "C20: new peer bound to another address"
  ELSE IF DiscPids(ev.evs) \cap PidsOf(post) # {} THEN "C20: peer still there after the remote side closed"
  ELSE IF gone # {} /\ ~(ev.a \in {"disconnect", "reject", "ignore"} \/ DiscPids(ev.evs) # {}) THEN "C20: a peer vanished without being disconnected"
  ELSE IF gone # {} /\ ev.a \in {"disconnect", "reject", "ignore"} /\ gone # {ev.act.pid} THEN "C20: disconnecting one peer removed another"
  ELSE IF unknown /\ newp # {} /\ ev.evs # <<[e |-> "connect", pid |-> CHOOSE p \in newp : TRUE]>> THEN "C20: wrong events for a new pending peer"
  ELSE IF ~(unknown) /\ ev.evs # ev.sh.evs THEN "C20: events differ from those of an independent connection for that address"
  ELSE IF ev.sends # ev.sh.sends THEN "C20: datagrams (or their destination address) differ from those of independent connections"
  ELSE IF ev.nt # ev.sh.nt THEN "C20: needs_tick differs from the earliest deadline of independent connections"
  ELSE IF ev.malformed # <<>> THEN "C20: malformed datagram sent: " \o ev.malformed[1]
  ELSE "ok"

Next ==
  /\ l <= Len(Rec)
  /\ l' = l + 1
  /\ LET ev == Rec[l] IN
     IF ev.a = "reset" THEN run' = run + 1 /\ skip' = FALSE /\ UNCHANGED bad
     ELSE IF skip \/ ev.res = "skipped" THEN UNCHANGED <<run, skip, bad>>   \* "skipped": a schedule step naming a peer that does not exist
     ELSE LET w == Why(ev) IN
          IF w = "ok" THEN UNCHANGED <<run, skip, bad>>
          ELSE bad' = Append(bad, [run |-> run, line |-> l, why |-> w]) /\ skip' = TRUE /\ UNCHANGED run

TraceSpec == Init /\ [][Next]_tvars
Done == LET d == TLCGet("stats").diameter IN
        (d - 1 = Len(Rec) \/ Print(<<"TRACE REJECTED: not all lines consumed", d, Len(Rec)>>, FALSE))
Verdict == l > Len(Rec) => PrintT(<<"VERDICT", ToJson([runs |-> run, bad |-> bad])>>)
=============================================================================
