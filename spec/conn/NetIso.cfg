SPECIFICATION TraceSpec
INVARIANT Verdict
POSTCONDITION Done
