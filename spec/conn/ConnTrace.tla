----------------------------- MODULE ConnTrace -----------------------------
(* Direction B: a trace recorded from two real Connections (vh-conn drive)  *)
(* must be a behaviour of ConnSys.  Every event names the action and all    *)
(* its arguments and carries the complete projected post-state, so TLC      *)
(* computes exactly one successor per line and compares it field by field.  *)
(* The invariants of ConnSys are evaluated on every state of the trace,     *)
(* i.e. on the implementation's own execution with real-size constants.     *)
EXTENDS ConnSys, Json, IOUtils, TLCExt

Rec == ndJsonDeserialize(IOEnv.TRACE)
VARIABLE l
tvars == <<vars, l>>

TraceInit == Init /\ l = 1

\* the k-th datagram the call hands to the send callback is refused (0 / absent: none)
K(a) == IF "k" \in DOMAIN a THEN a.k ELSE 0
Act(r) ==
  LET a == r.act IN
  CASE a.a = "connect"    -> ConnectWith(K(a)) /\ UNCHANGED cnt
    [] a.a = "send"       -> SendWith(a.e, a.v, a.sz, a.id, K(a)) /\ UNCHANGED cnt
    [] a.a = "connless"   -> ConnlessWith(a.e, a.sz, a.id, K(a)) /\ UNCHANGED cnt
    [] a.a = "flush"      -> FlushWith(a.e, K(a)) /\ UNCHANGED cnt
    [] a.a = "tick"       -> TickAny(a.e, K(a)) /\ UNCHANGED cnt
    [] a.a = "disconnect" -> DisconnectWith(a.e, a.r, K(a)) /\ UNCHANGED cnt
    [] a.a = "creset"     -> ResetOf(a.e) /\ UNCHANGED cnt
    [] a.a = "accepttoken" -> AcceptTokenAt /\ UNCHANGED cnt
    [] a.a = "advance"    -> AdvanceBy(a.d) /\ UNCHANGED cnt
    [] a.a = "deliver"    -> /\ a.i <= Len(net[a.from]) /\ DeliverAt(a.from, a.i, FALSE, K(a)) /\ act' = a
                             /\ UNCHANGED <<sub, snv, scl, cnt>>
    [] a.a = "dup"        -> /\ a.i <= Len(net[a.from]) /\ DeliverAt(a.from, a.i, TRUE, K(a)) /\ act' = a
                             /\ UNCHANGED <<sub, snv, scl, cnt>>
    [] a.a = "drop"       -> /\ a.i <= Len(net[a.from])
                             /\ net' = [net EXCEPT ![a.from] = RemoveAt(@, a.i)] /\ act' = a
                             /\ out' = NoOut
                             /\ UNCHANGED <<ep, sub, snv, scl, del, ready, answered, bnd, orph, cnt>>
    [] a.a = "forge"      -> ForgeWith(a.e, a.f)

TraceNext ==
  /\ l <= Len(Rec)
  /\ l' = l + 1
  /\ UNCHANGED stable
  /\ Act(Rec[l])
  /\ out'.res = Rec[l].out.res
  /\ out'.evs = Rec[l].out.evs
  /\ out'.outs = Rec[l].out.outs
  /\ \A e \in E : ep'[e] = Rec[l].st.ep[e]
  /\ \A e \in E : net'[e] = Rec[l].st.net[e] /\ del'[e] = Rec[l].st.del[e]
  /\ \A e \in E : NeedsTick(ep'[e]) = Rec[l].st.nt[e]        \* Connection::needs_tick() after the call
  /\ ready' = Rec[l].st.ready
  /\ \A e \in E : bnd'[e] = Rec[l].st.bnd[e]
  /\ answered' = Rec[l].st.answered

TraceSpec == TraceInit /\ [][TraceNext]_tvars

TraceAccepted ==
  LET d == TLCGet("stats").diameter IN
  IF d - 1 = Len(Rec) THEN TRUE
  ELSE Print(<<"TRACE REJECTED at line", d, ToJson(Rec[d].act)>>, FALSE)
TraceView == <<View, l>>
=============================================================================
