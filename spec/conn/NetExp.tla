------------------------------ MODULE NetExp ------------------------------
(* Export of every generated transition of Net for replay on the real Net<A>. *)
EXTENDS Net, Json, TLCExt
PeerSet(ps) == {[pid |-> p, addr |-> ps[p].addr, tf |-> ps[p].tf, x |-> ps[p].x] : p \in DOMAIN ps}
NSt == [peers |-> PeerSet(peers), nextPid |-> nextPid, cnt |-> cnt]
NStP == [peers |-> PeerSet(peers'), nextPid |-> nextPid', cnt |-> cnt']
NetNT(ps) == LET ts == {NeedsTick(ps[p].x) : p \in DOMAIN ps} \ {Inactive} IN IF ts = {} THEN Inactive ELSE Min(ts)
Export ==
  /\ IF TLCGet(1) # NSt THEN PrintT(<<"S", ToJson(NSt)>>) /\ TLCSet(1, NSt) ELSE TRUE
  /\ PrintT(<<"T", ToJson(act'), ToJson(out' @@ [nt |-> NetNT(peers')]), ToJson(NStP)>>)
ASSUME TLCSet(1, [peers |-> 0])
=============================================================================
