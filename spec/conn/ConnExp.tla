------------------------------ MODULE ConnExp ------------------------------
(* Export of every generated transition of ConnSys for replay on the real    *)
(* code (direction A).  Run with -workers 1 (breadth-first); lines:          *)
(*   <<"S", json(state)>>                      the state being expanded      *)
(*   <<"T", json(action), json(out), json(state')>>   one per transition     *)
EXTENDS ConnSys, Json, TLCExt
St == [ep |-> ep, net |-> net, sub |-> sub, snv |-> snv, scl |-> scl, del |-> del, ready |-> ready,
       answered |-> answered, bnd |-> bnd, orph |-> orph, cnt |-> cnt, stable |-> stable]
StP == [ep |-> ep', net |-> net', sub |-> sub', snv |-> snv', scl |-> scl', del |-> del', ready |-> ready',
        answered |-> answered', bnd |-> bnd', orph |-> orph', cnt |-> cnt', stable |-> stable']
Export ==
  /\ IF TLCGet(1) # St THEN PrintT(<<"S", ToJson(St)>>) /\ TLCSet(1, St) ELSE TRUE
  /\ PrintT(<<"T", ToJson(act'), ToJson(out' @@ [nt |-> [e \in E |-> NeedsTick(ep'[e])]]), ToJson(StP)>>)
ASSUME TLCSet(1, [ep |-> 0])
=============================================================================
