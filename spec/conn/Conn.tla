------------------------------- MODULE Conn -------------------------------
(* One endpoint of the libtw2 connection layer (net/src/connection.rs for     *)
(* Teeworlds 0.6 / DDNet, net/src/connection7.rs for 0.7) as pure operators   *)
(* on endpoint records.  One operator per public call / critical section:     *)
(*   ConnectOp, SendOp, FlushOp, TickOp, DisconnectOp, ConnlessOp, FeedOp,    *)
(*   ResetOp, AcceptTokenOp.                                                  *)
(* Each returns [x |-> endpoint', outs |-> datagrams sent (in order),         *)
(*               evs |-> events handed to the application, res |-> result,    *)
(*               w |-> class of the warning reported ("-": none)].            *)
(* Every call that hands datagrams to the send callback takes the argument    *)
(* `k`: the callback reports an error for the k-th datagram of this call      *)
(* (k = 0: it never does).  The refused datagram is not sent; what the code   *)
(* has already done at that point and what it still does afterwards is        *)
(* modelled per call (error paths of connection.rs / connection7.rs).         *)
(* Real protocol constants are used throughout; only the *sets* explored by   *)
(* the model-checking configurations are small.                               *)
EXTENDS Integers, Sequences, FiniteSets, TLC, SequencesExt

CONSTANTS V7,         \* TRUE: Teeworlds 0.7 (connection7.rs); FALSE: 0.6/DDNet (connection.rs)
          TokenMode,  \* 0.6 only. TRUE: the peer speaks the DDNet token extension; FALSE: vanilla peer
          SeqStart    \* sequence number both sides start from when they come online (0 in reality)

MaxPacket == 1400
MaxPayload == 1390                               \* MAX_PAYLOAD in protocol.rs and protocol7.rs
HdrV == 3                                        \* chunk header, vital
HdrNV == 2                                       \* chunk header, non-vital
ChunkLimit == IF V7 THEN 4096 ELSE 1024          \* 1 << CHUNK_SIZE_BITS
MaxChunks == 255                                 \* num_chunks is a u8
SeqModulus == 1024
SendTO == 500                                    \* ms
ResendTO == 1000                                 \* ms
Inactive == -1
MaxReason == 127

Hdr(v) == IF v THEN HdrV ELSE HdrNV
PktLen(p) == FoldLeft(LAMBDA a, c : a + Hdr(c.v) + c.sz, 0, p)
\* PacketContents::can_fit_chunk (+ the chunk counter must not overflow)
CanFit(p, sz, v) == PktLen(p) + Hdr(v) + sz <= MaxPayload /\ Len(p) < MaxChunks
\* what Connection::send accepts: the chunk header can encode the size and the chunk fits an empty packet
Carryable(sz, v) == sz < ChunkLimit /\ Hdr(v) + sz <= MaxPayload
ConnlessOk(sz) == sz <= MaxPayload

\* ----------------------------------------------------------------- endpoint records
Fresh == [st |-> "Unc", tok |-> "no", own |-> "no", their |-> "no", ack |-> 0, seq |-> 0, rr |-> FALSE,
          pkt |-> <<>>, pnv |-> <<>>, rq |-> <<>>, sendT |-> Inactive]
\* OnlineState::new
Online(x, tok, own, their) ==
  [Fresh EXCEPT !.st = "Onl", !.tok = tok, !.own = own, !.their = their,
                !.ack = SeqStart, !.seq = SeqStart, !.sendT = x.sendT]
\* State::Disconnected keeps nothing but the send timer of the Connection
Dead(x) == [Fresh EXCEPT !.st = "Disc", !.sendT = x.sendT]

Nxt(s) == (s + 1) % SeqModulus
\* Sequence::compare: what `o` is in relation to `s`
Cmp(s, o) == IF s = o THEN "Cur"
             ELSE IF s < o THEN (IF o - s < SeqModulus \div 2 THEN "Fut" ELSE "Past")
             ELSE (IF s - o > SeqModulus \div 2 THEN "Fut" ELSE "Past")

CanSend(x) == Len(x.pkt) # 0 \/ x.rr
\* token attached to outgoing connection-oriented datagrams
OutTok(x) == IF V7 THEN (IF x.st \in {"Cing", "Pend", "Onl"} THEN x.their ELSE "FF")
             ELSE (IF x.st = "Cing" THEN "FF" ELSE x.tok)
OutAck(x) == IF x.st = "Onl" THEN x.ack ELSE 0

ChunksDg(x) == [k |-> "chunks", tok |-> OutTok(x), ack |-> x.ack, rr |-> x.rr, chunks |-> x.pkt]
\* rt: response token carried by 0.7 Token / Connect messages; r: close reason (length) or -1
CtrlT(x, c, tok, rt, r) == [k |-> "ctrl", c |-> c, tok |-> tok, rt |-> rt, ack |-> OutAck(x), r |-> r]
Ctrl(x, c) == CtrlT(x, c, OutTok(x), "-", -1)

\* ----------------------------------------------------------------- the send callback
\* o = [outs, failed]: datagrams the callback accepted so far in this call / it has reported an error.
\* The k-th datagram handed to the callback in one call is refused (k = 0: none is).
O0 == [outs |-> <<>>, failed |-> FALSE]
PutDg(o, d, k) == IF Len(o.outs) + (IF o.failed THEN 1 ELSE 0) + 1 = k
                THEN [o EXCEPT !.failed = TRUE] ELSE [o EXCEPT !.outs = Append(@, d)]

Ret(x, o, evs, w) == [x |-> x, outs |-> o.outs, evs |-> evs, res |-> IF o.failed THEN "callback" ELSE "ok", w |-> w]
R(x, outs, evs, res) == [x |-> x, outs |-> outs, evs |-> evs, res |-> res, w |-> "-"]
None(x) == R(x, <<>>, <<>>, "ok")
Warned(x, w) == [None(x) EXCEPT !.w = w]

\* OnlineState::flush: the queue is cleared whether or not the callback took the datagram. Returns <<x', o'>>.
Flush(x, o, k) == IF ~CanSend(x) THEN <<x, o>>
                  ELSE <<[x EXCEPT !.rr = FALSE, !.pkt = <<>>, !.pnv = <<>>], PutDg(o, ChunksDg(x), k)>>

\* Connection::resend.  `i` counts chunks already re-queued (from the oldest); `fuel` is the loop
\* variant: every flush inside the loop must make room, so at most one flush per queued chunk
\* (+1 for the retained non-vital part) can happen.  Running out of fuel = the loop does not terminate.
\* A flush whose datagram the callback refuses ends the call (`?`): the chunks not yet re-queued wait
\* for the next resend timeout (all timers were restarted before the loop).
RECURSIVE ResendLoop(_, _, _, _, _)
ResendLoop(x, i, o, fuel, k) ==
  IF i >= Len(x.rq) THEN <<x, o>>
  ELSE LET c == x.rq[Len(x.rq) - i] IN
       IF CanFit(x.pkt, c.sz, TRUE)
       THEN ResendLoop([x EXCEPT !.pkt = Append(@, [v |-> TRUE, seq |-> c.seq, rs |-> TRUE, id |-> c.id, sz |-> c.sz])],
                       i + 1, o, fuel, k)
       ELSE IF fuel = 0 THEN Assert(FALSE, "C02: resend loop does not terminate")
            ELSE LET f == Flush([x EXCEPT !.sendT = SendTO], o, k)
                 IN IF f[2].failed THEN f ELSE ResendLoop(f[1], i, f[2], fuel - 1, k)
Resend(x, o, k) ==
  IF x.rq = <<>> THEN <<x, o>>
  ELSE ResendLoop([x EXCEPT !.pkt = x.pnv, !.rq = [j \in 1..Len(x.rq) |-> [x.rq[j] EXCEPT !.t = ResendTO]]],
                  0, o, Len(x.rq) + 2, k)

\* Connection::tick_action: the send timer is re-armed before the datagram is handed to the callback
TickAction(x, o, k) ==
  CASE x.st = "Tok"  -> <<[x EXCEPT !.sendT = SendTO], PutDg(o, CtrlT(x, "Token", "FF", x.own, -1), k)>>
    [] x.st = "Cing" -> <<[x EXCEPT !.sendT = SendTO],
                          PutDg(o, IF V7 THEN CtrlT(x, "Connect", x.their, x.own, -1) ELSE Ctrl(x, "Connect"), k)>>
    [] x.st = "Pend" -> <<[x EXCEPT !.sendT = SendTO], PutDg(o, Ctrl(x, IF V7 THEN "Accept" ELSE "ConnectAccept"), k)>>
    [] x.st = "Onl"  -> IF CanSend(x) THEN Flush([x EXCEPT !.sendT = SendTO], o, k)
                        ELSE <<[x EXCEPT !.sendT = SendTO], PutDg(o, Ctrl(x, "KeepAlive"), k)>>
    [] OTHER -> <<x, o>>

\* ----------------------------------------------------------------- public calls
\* Connection::connect (own token of the 0.7 client is drawn here).  The state has changed and the timer is
\* armed when the callback is asked: a refused connect request is repeated by tick() 500 ms later.
ConnectOp(x, own, k) ==
  LET r == TickAction(IF V7 THEN [x EXCEPT !.st = "Tok", !.own = own] ELSE [x EXCEPT !.st = "Cing"], O0, k)
  IN Ret(r[1], r[2], <<>>, "-")

\* Connection::send + queue.  c = [id, sz, v].  When the flush that makes room fails, the chunk is queued all the
\* same and the error of the flush is returned.
SendOp(x, c, k) ==
  IF ~Carryable(c.sz, c.v) THEN R(x, <<>>, <<>>, "TooLongData")
  ELSE LET f == IF CanFit(x.pkt, c.sz, c.v) THEN <<x, O0>> ELSE Flush(x, O0, k)
           x1 == f[1]
           x2 == IF c.v
                 THEN [x1 EXCEPT !.seq = Nxt(@),
                                 !.rq = <<[seq |-> Nxt(x1.seq), id |-> c.id, sz |-> c.sz, t |-> ResendTO]>> \o @,
                                 !.pkt = Append(@, [v |-> TRUE, seq |-> Nxt(x1.seq), rs |-> FALSE, id |-> c.id, sz |-> c.sz])]
                 ELSE [x1 EXCEPT !.pnv = Append(@, [v |-> FALSE, seq |-> 0, rs |-> FALSE, id |-> c.id, sz |-> c.sz]),
                                 !.pkt = Append(@, [v |-> FALSE, seq |-> 0, rs |-> FALSE, id |-> c.id, sz |-> c.sz])]
       IN Ret(x2, f[2], <<>>, "-")

\* Connection::flush
FlushOp(x, k) == LET f == Flush([x EXCEPT !.sendT = SendTO], O0, k) IN Ret(f[1], f[2], <<>>, "-")

ResendDue(x) == x.st = "Onl" /\ x.rq # <<>> /\ x.rq[Len(x.rq)].t = 0
TickDue(x) == ResendDue(x) \/ x.sendT = 0
\* Connection::tick
TickOp(x, k) ==
  LET r == IF ResendDue(x) THEN Resend(x, O0, k)
           ELSE IF x.sendT = 0 THEN TickAction([x EXCEPT !.sendT = Inactive], O0, k)
           ELSE <<x, O0>>
  IN Ret(r[1], r[2], <<>>, "-")

\* Connection::disconnect(reason of length r), allowed in every state but Disc (and Unc for 0.6).
\* The connection is closed whether or not the close message could be handed over.
DisconnectOp(x, r, k) == Ret(Dead(x), PutDg(O0, CtrlT(x, "Close", OutTok(x), "-", r), k), <<>>, "-")

\* Connection::send_connless (online only). c = [id, sz]
ConnlessOp(x, c, k) ==
  IF ~ConnlessOk(c.sz) THEN R([x EXCEPT !.sendT = SendTO], <<>>, <<>>, "TooLongData")
  ELSE Ret([x EXCEPT !.sendT = SendTO],
           PutDg(O0, [k |-> "connless", id |-> c.id, sz |-> c.sz,
                    tok |-> IF V7 THEN x.their ELSE "no", rt |-> IF V7 THEN x.own ELSE "-"], k), <<>>, "-")

\* Connection::reset (only when disconnected): a new object, the send timer included
ResetOp(x) == R(Fresh, <<>>, <<>>, "ok")
\* Connection::new_accept_token (0.6): an accepting endpoint that starts online with a token agreed on elsewhere
\* (a stateless handshake); the send timer is armed
AcceptTokenOp(tok) == R([Online(Fresh, tok, "no", "no") EXCEPT !.sendT = SendTO], <<>>, <<>>, "ok")

\* time passes: all timers of the endpoint move d ms closer to their deadline
Dec(t, d) == IF t = Inactive THEN Inactive ELSE IF t > d THEN t - d ELSE 0
AdvanceOp(x, d) == [x EXCEPT !.sendT = Dec(@, d), !.rq = [j \in 1..Len(x.rq) |-> [x.rq[j] EXCEPT !.t = Dec(@, d)]]]

\* OnlineState::ack_chunks
AckChunks(x, a) ==
  LET idx == {j \in 1..Len(x.rq) : x.rq[j].seq = a} IN
  IF idx = {} THEN x
  ELSE LET i == CHOOSE j \in idx : \A k \in idx : j <= k IN [x EXCEPT !.rq = SubSeq(@, 1, i - 1)]

\* ReceivePacket::connected (eager pass: ack and request_resend) and ReceiveChunks::next (lazy pass:
\* the events).  Both passes apply the same acceptance rule starting from the same ack, which is
\* why one fold can stand for both: returns <<ack', rr', events>>.
RecvStep(a, c) ==
  IF c.v THEN IF Cmp(Nxt(a[1]), c.seq) = "Cur"
              THEN <<Nxt(a[1]), a[2], Append(a[3], [e |-> "chunk", id |-> c.id, sz |-> c.sz, v |-> TRUE])>>
              ELSE <<a[1], TRUE, a[3]>>
  ELSE <<a[1], a[2], Append(a[3], [e |-> "chunk", id |-> c.id, sz |-> c.sz, v |-> FALSE])>>
Recv(cs, ack, rr) == FoldLeft(RecvStep, <<ack, rr, <<>>>>, cs)

\* token the endpoint insists on for connection-oriented datagrams ("any": not fixed yet)
Expected(x) == IF V7 THEN (IF x.st \in {"Unc", "Disc"} THEN "FF" ELSE x.own)
               ELSE (IF x.st \in {"Pend", "Onl"} THEN x.tok ELSE "any")
TokenFixed(x) == IF V7 THEN x.st \notin {"Unc", "Disc"} ELSE (x.st \in {"Pend", "Onl"} /\ x.tok # "no")
\* the protocol's explicit unauthenticated token request (0.7)
TokenException(x, d) == V7 /\ d.k = "ctrl" /\ d.c = "Token" /\ x.st = "PCon" /\ d.tok = "FF"

\* Connection::feed for datagram d.  `newtok`: the token the endpoint would draw now; k: see above.
\* The result of feed() is a pair: the events are handed over even when the callback failed.
FeedOp(x, d0, newtok, k) ==
  LET d1 == IF ~V7 /\ ~TokenMode /\ d0.k = "ctrl" /\ d0.c = "Connect" /\ d0.tok = "FF"
            THEN [d0 EXCEPT !.tok = "no"] ELSE d0     \* a vanilla peer / path drops the token extension
      \* an endpoint that agreed on "no token" tells the reader so: a trailing token is not parsed
      \* (it is excess payload), hence never compared
      d == IF ~V7 /\ d1.k # "connless" /\ Expected(x) = "no" THEN [d1 EXCEPT !.tok = "no"] ELSE d1
  IN
  IF d.k = "connless" THEN
     IF ~V7 THEN R(x, <<>>, <<[e |-> "connless", id |-> d.id, sz |-> d.sz]>>, "ok")
     \* 0.7: both tokens are compared, in every state; an endpoint that has no own token (Unc, Disc) or does not know
     \* its peer's yet (Tok, PCon) accepts no connless datagram at all
     ELSE IF x.st \in {"Unc", "Disc"} \/ d.tok # x.own THEN Warned(x, "ConnlessTokenMismatch")
     ELSE IF x.st \notin {"Cing", "Pend", "Onl"} \/ d.rt # x.their THEN Warned(x, "ConnlessResponseTokenMismatch")
     ELSE R(x, <<>>, <<[e |-> "connless", id |-> d.id, sz |-> d.sz]>>, "ok")
  ELSE
  IF Expected(x) # "any" /\ d.tok # Expected(x) /\ ~TokenException(x, d) THEN Warned(x, "TokenMismatch")
  ELSE
  LET xa == IF x.st = "Onl" THEN AckChunks(x, d.ack) ELSE x IN
  IF d.k = "chunks" THEN
     LET xo == IF xa.st = "Pend" THEN Online(xa, xa.tok, xa.own, xa.their) ELSE xa IN
     IF xo.st # "Onl" THEN None(xa)
     ELSE LET r == IF d.rr THEN Resend(xo, O0, k) ELSE <<xo, O0>>
              rc == Recv(d.chunks, r[1].ack, r[1].rr)
          IN Ret([r[1] EXCEPT !.ack = rc[1], !.rr = rc[2]], r[2], rc[3], "-")
  ELSE
  CASE d.c = "Connect" ->
         IF V7 THEN
            IF xa.st = "PCon"
            THEN LET t == TickAction([xa EXCEPT !.st = "Pend", !.their = d.rt], O0, k) IN Ret(t[1], t[2], <<>>, "-")
            ELSE None(xa)
         ELSE
            IF xa.st = "Unc" /\ d.tok \in {"no", "FF"}
            THEN LET t == TickAction([xa EXCEPT !.st = "Pend", !.tok = IF d.tok = "FF" THEN newtok ELSE "no"], O0, k)
                 IN Ret(t[1], t[2], <<>>, "-")
            ELSE None(xa)
    [] d.c = "ConnectAccept" ->          \* 0.6 only
         IF ~V7 /\ xa.st = "Cing"
         THEN LET xo == Online(xa, d.tok, "no", "no")
              IN Ret(xo, PutDg(O0, Ctrl(xo, "Accept"), k), <<[e |-> "ready"]>>, "-")
         ELSE None(xa)
    [] d.c = "Accept" ->
         IF V7 /\ xa.st = "Cing"
         THEN R(Online(xa, "no", xa.own, xa.their), <<>>, <<[e |-> "ready"]>>, "ok")
         ELSE None(xa)
    [] d.c = "Token" ->                  \* 0.7 only
         IF ~V7 THEN None(xa) ELSE
         LET x1 == IF xa.st = "Unc" THEN [xa EXCEPT !.st = "PCon", !.own = newtok] ELSE xa IN
         IF x1.st = "PCon" THEN Ret(x1, PutDg(O0, CtrlT(x1, "Token", d.rt, x1.own, -1), k), <<>>, "-")
         ELSE IF x1.st = "Tok"
              THEN LET t == TickAction([x1 EXCEPT !.st = "Cing", !.their = d.rt], O0, k) IN Ret(t[1], t[2], <<>>, "-")
              ELSE None(x1)
    [] d.c = "Close" -> R(Dead(xa), <<>>, <<[e |-> "disc", r |-> d.r]>>, "ok")
    [] OTHER -> None(xa)           \* KeepAlive

\* Connection::needs_tick
NeedsTick(x) == IF x.st \in {"Unc", "Disc"} THEN Inactive
                ELSE LET r == IF x.st = "Onl" /\ x.rq # <<>> THEN x.rq[Len(x.rq)].t ELSE Inactive IN
                     IF x.sendT = Inactive THEN r ELSE IF r = Inactive THEN x.sendT
                     ELSE IF r < x.sendT THEN r ELSE x.sendT

\* has the endpoint anything unsent, unacknowledged or a handshake in progress that *it* must drive?
Idle(x) == x.rq = <<>> /\ x.pkt = <<>> /\ ~x.rr
Busy(x) == x.st \in {"Tok", "Cing", "Pend"} \/ (x.st = "Onl" /\ (x.rq # <<>> \/ x.pkt # <<>> \/ x.rr))
=============================================================================
