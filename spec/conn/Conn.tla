------------------------------- MODULE Conn -------------------------------
(* One endpoint of the libtw2 connection layer (net/src/connection.rs for     *)
(* Teeworlds 0.6 / DDNet, net/src/connection7.rs for 0.7) as pure operators   *)
(* on endpoint records.  One operator per public call / critical section:     *)
(*   ConnectOp, SendOp, FlushOp, TickOp, DisconnectOp, ConnlessOp, FeedOp.    *)
(* Each returns [x |-> endpoint', outs |-> datagrams sent (in order),         *)
(*               evs |-> events handed to the application, res |-> result].   *)
(* Real protocol constants are used throughout; only the *sets* explored by   *)
(* the model-checking configurations are small.                               *)
EXTENDS Integers, Sequences, FiniteSets, TLC, SequencesExt

CONSTANTS V7,         \* TRUE: Teeworlds 0.7 (connection7.rs); FALSE: 0.6/DDNet (connection.rs)
          TokenMode,  \* 0.6 only. TRUE: the peer speaks the DDNet token extension; FALSE: vanilla peer
          SeqStart    \* sequence number both sides start from when they come online (0 in reality)

MaxPacket == 1400
MaxPayload == 1390                               \* MAX_PAYLOAD in protocol.rs and protocol7.rs
HdrV == 3                                        \* chunk header, vital
HdrNV == 2                                       \* chunk header, non-vital
ChunkLimit == IF V7 THEN 4096 ELSE 1024          \* 1 << CHUNK_SIZE_BITS
MaxChunks == 255                                 \* num_chunks is a u8
SeqModulus == 1024
SendTO == 500                                    \* ms
ResendTO == 1000                                 \* ms
Inactive == -1
MaxReason == 127

Hdr(v) == IF v THEN HdrV ELSE HdrNV
PktLen(p) == FoldLeft(LAMBDA a, c : a + Hdr(c.v) + c.sz, 0, p)
\* PacketContents::can_fit_chunk (+ the chunk counter must not overflow)
CanFit(p, sz, v) == PktLen(p) + Hdr(v) + sz <= MaxPayload /\ Len(p) < MaxChunks
\* what Connection::send accepts: the chunk header can encode the size and the chunk fits an empty packet
Carryable(sz, v) == sz < ChunkLimit /\ Hdr(v) + sz <= MaxPayload
ConnlessOk(sz) == sz <= MaxPayload

\* ----------------------------------------------------------------- endpoint records
Fresh == [st |-> "Unc", tok |-> "no", own |-> "no", their |-> "no", ack |-> 0, seq |-> 0, rr |-> FALSE,
          pkt |-> <<>>, pnv |-> <<>>, rq |-> <<>>, sendT |-> Inactive]
\* OnlineState::new
Online(x, tok, own, their) ==
  [Fresh EXCEPT !.st = "Onl", !.tok = tok, !.own = own, !.their = their,
                !.ack = SeqStart, !.seq = SeqStart, !.sendT = x.sendT]
\* State::Disconnected keeps nothing but the send timer of the Connection
Dead(x) == [Fresh EXCEPT !.st = "Disc", !.sendT = x.sendT]

Nxt(s) == (s + 1) % SeqModulus
\* Sequence::compare: what `o` is in relation to `s`
Cmp(s, o) == IF s = o THEN "Cur"
             ELSE IF s < o THEN (IF o - s < SeqModulus \div 2 THEN "Fut" ELSE "Past")
             ELSE (IF s - o > SeqModulus \div 2 THEN "Fut" ELSE "Past")

CanSend(x) == Len(x.pkt) # 0 \/ x.rr
\* token attached to outgoing connection-oriented datagrams
OutTok(x) == IF V7 THEN (IF x.st \in {"Cing", "Pend", "Onl"} THEN x.their ELSE "FF")
             ELSE (IF x.st = "Cing" THEN "FF" ELSE x.tok)
OutAck(x) == IF x.st = "Onl" THEN x.ack ELSE 0

ChunksDg(x) == [k |-> "chunks", tok |-> OutTok(x), ack |-> x.ack, rr |-> x.rr, chunks |-> x.pkt]
\* rt: response token carried by 0.7 Token / Connect messages; r: close reason (length) or -1
CtrlT(x, c, tok, rt, r) == [k |-> "ctrl", c |-> c, tok |-> tok, rt |-> rt, ack |-> OutAck(x), r |-> r]
Ctrl(x, c) == CtrlT(x, c, OutTok(x), "-", -1)

R(x, outs, evs, res) == [x |-> x, outs |-> outs, evs |-> evs, res |-> res]
None(x) == R(x, <<>>, <<>>, "ok")

\* OnlineState::flush
Flush(x) == IF ~CanSend(x) THEN <<x, <<>>>>
            ELSE <<[x EXCEPT !.rr = FALSE, !.pkt = <<>>, !.pnv = <<>>], <<ChunksDg(x)>>>>

\* Connection::resend.  `i` counts chunks already re-queued (from the oldest); `fuel` is the loop
\* variant: every flush inside the loop must make room, so at most one flush per queued chunk
\* (+1 for the retained non-vital part) can happen.  Running out of fuel = the loop does not terminate.
RECURSIVE ResendLoop(_, _, _, _)
ResendLoop(x, i, outs, fuel) ==
  IF i >= Len(x.rq) THEN <<x, outs>>
  ELSE LET c == x.rq[Len(x.rq) - i] IN
       IF CanFit(x.pkt, c.sz, TRUE)
       THEN ResendLoop([x EXCEPT !.pkt = Append(@, [v |-> TRUE, seq |-> c.seq, rs |-> TRUE, id |-> c.id, sz |-> c.sz])],
                       i + 1, outs, fuel)
       ELSE IF fuel = 0 THEN Assert(FALSE, "C02: resend loop does not terminate")
            ELSE LET f == Flush([x EXCEPT !.sendT = SendTO])
                 IN ResendLoop(f[1], i, outs \o f[2], fuel - 1)
Resend(x) ==
  IF x.rq = <<>> THEN <<x, <<>>>>
  ELSE ResendLoop([x EXCEPT !.pkt = x.pnv, !.rq = [j \in 1..Len(x.rq) |-> [x.rq[j] EXCEPT !.t = ResendTO]]],
                  0, <<>>, Len(x.rq) + 2)

\* Connection::tick_action
TickAction(x) ==
  CASE x.st = "Tok"  -> <<[x EXCEPT !.sendT = SendTO], <<CtrlT(x, "Token", "FF", x.own, -1)>>>>
    [] x.st = "Cing" -> <<[x EXCEPT !.sendT = SendTO],
                          <<IF V7 THEN CtrlT(x, "Connect", x.their, x.own, -1) ELSE Ctrl(x, "Connect")>>>>
    [] x.st = "Pend" -> <<[x EXCEPT !.sendT = SendTO], <<Ctrl(x, IF V7 THEN "Accept" ELSE "ConnectAccept")>>>>
    [] x.st = "Onl"  -> IF CanSend(x) THEN Flush([x EXCEPT !.sendT = SendTO])
                        ELSE <<[x EXCEPT !.sendT = SendTO], <<Ctrl(x, "KeepAlive")>>>>
    [] OTHER -> <<x, <<>>>>

\* ----------------------------------------------------------------- public calls
\* Connection::connect (own token of the 0.7 client is drawn here)
ConnectOp(x, own) ==
  LET r == TickAction(IF V7 THEN [x EXCEPT !.st = "Tok", !.own = own] ELSE [x EXCEPT !.st = "Cing"])
  IN R(r[1], r[2], <<>>, "ok")

\* Connection::send + queue.  c = [id, sz, v]
SendOp(x, c) ==
  IF ~Carryable(c.sz, c.v) THEN R(x, <<>>, <<>>, "TooLongData")
  ELSE LET f == IF CanFit(x.pkt, c.sz, c.v) THEN <<x, <<>>>> ELSE Flush(x)
           x1 == f[1]
           x2 == IF c.v
                 THEN [x1 EXCEPT !.seq = Nxt(@),
                                 !.rq = <<[seq |-> Nxt(x1.seq), id |-> c.id, sz |-> c.sz, t |-> ResendTO]>> \o @,
                                 !.pkt = Append(@, [v |-> TRUE, seq |-> Nxt(x1.seq), rs |-> FALSE, id |-> c.id, sz |-> c.sz])]
                 ELSE [x1 EXCEPT !.pnv = Append(@, [v |-> FALSE, seq |-> 0, rs |-> FALSE, id |-> c.id, sz |-> c.sz]),
                                 !.pkt = Append(@, [v |-> FALSE, seq |-> 0, rs |-> FALSE, id |-> c.id, sz |-> c.sz])]
       IN R(x2, f[2], <<>>, "ok")

\* Connection::flush
FlushOp(x) == LET f == Flush([x EXCEPT !.sendT = SendTO]) IN R(f[1], f[2], <<>>, "ok")

ResendDue(x) == x.st = "Onl" /\ x.rq # <<>> /\ x.rq[Len(x.rq)].t = 0
TickDue(x) == ResendDue(x) \/ x.sendT = 0
\* Connection::tick
TickOp(x) ==
  LET r == IF ResendDue(x) THEN Resend(x)
           ELSE IF x.sendT = 0 THEN TickAction([x EXCEPT !.sendT = Inactive])
           ELSE <<x, <<>>>>
  IN R(r[1], r[2], <<>>, "ok")

\* Connection::disconnect(reason of length r), allowed in every state but Disc (and Unc for 0.6)
DisconnectOp(x, r) == R(Dead(x), <<CtrlT(x, "Close", OutTok(x), "-", r)>>, <<>>, "ok")

\* Connection::send_connless (online only). c = [id, sz]
ConnlessOp(x, c) ==
  IF ~ConnlessOk(c.sz) THEN R([x EXCEPT !.sendT = SendTO], <<>>, <<>>, "TooLongData")
  ELSE R([x EXCEPT !.sendT = SendTO],
         <<[k |-> "connless", id |-> c.id, sz |-> c.sz,
            tok |-> IF V7 THEN x.their ELSE "no", rt |-> IF V7 THEN x.own ELSE "-"]>>, <<>>, "ok")

\* time passes: all timers of the endpoint move d ms closer to their deadline
Dec(t, d) == IF t = Inactive THEN Inactive ELSE IF t > d THEN t - d ELSE 0
AdvanceOp(x, d) == [x EXCEPT !.sendT = Dec(@, d), !.rq = [j \in 1..Len(x.rq) |-> [x.rq[j] EXCEPT !.t = Dec(@, d)]]]

\* OnlineState::ack_chunks
AckChunks(x, a) ==
  LET idx == {j \in 1..Len(x.rq) : x.rq[j].seq = a} IN
  IF idx = {} THEN x
  ELSE LET i == CHOOSE j \in idx : \A k \in idx : j <= k IN [x EXCEPT !.rq = SubSeq(@, 1, i - 1)]

\* ReceivePacket::connected (eager pass: ack and request_resend) and ReceiveChunks::next (lazy pass:
\* the events).  Both passes apply the same acceptance rule starting from the same ack, which is
\* why one fold can stand for both: returns <<ack', rr', events>>.
RecvStep(a, c) ==
  IF c.v THEN IF Cmp(Nxt(a[1]), c.seq) = "Cur"
              THEN <<Nxt(a[1]), a[2], Append(a[3], [e |-> "chunk", id |-> c.id, sz |-> c.sz, v |-> TRUE])>>
              ELSE <<a[1], TRUE, a[3]>>
  ELSE <<a[1], a[2], Append(a[3], [e |-> "chunk", id |-> c.id, sz |-> c.sz, v |-> FALSE])>>
Recv(cs, ack, rr) == FoldLeft(RecvStep, <<ack, rr, <<>>>>, cs)

\* token the endpoint insists on for connection-oriented datagrams ("any": not fixed yet)
Expected(x) == IF V7 THEN (IF x.st \in {"Unc", "Disc"} THEN "FF" ELSE x.own)
               ELSE (IF x.st \in {"Pend", "Onl"} THEN x.tok ELSE "any")
TokenFixed(x) == IF V7 THEN x.st \notin {"Unc", "Disc"} ELSE (x.st \in {"Pend", "Onl"} /\ x.tok # "no")
\* the protocol's explicit unauthenticated token request (0.7)
TokenException(x, d) == V7 /\ d.k = "ctrl" /\ d.c = "Token" /\ x.st = "PCon" /\ d.tok = "FF"

\* Connection::feed for datagram d.  `newtok`: the token the endpoint would draw now.
FeedOp(x, d0, newtok) ==
  LET d1 == IF ~V7 /\ ~TokenMode /\ d0.k = "ctrl" /\ d0.c = "Connect" /\ d0.tok = "FF"
            THEN [d0 EXCEPT !.tok = "no"] ELSE d0     \* a vanilla peer / path drops the token extension
      \* an endpoint that agreed on "no token" tells the reader so: a trailing token is not parsed
      \* (it is excess payload), hence never compared
      d == IF ~V7 /\ d1.k # "connless" /\ Expected(x) = "no" THEN [d1 EXCEPT !.tok = "no"] ELSE d1
  IN
  IF d.k = "connless" THEN
     IF ~V7 THEN R(x, <<>>, <<[e |-> "connless", id |-> d.id, sz |-> d.sz]>>, "ok")
     ELSE IF x.st \notin {"Unc", "Disc"} /\ d.tok = x.own /\ x.st \in {"Cing", "Pend", "Onl"} /\ d.rt = x.their
          THEN R(x, <<>>, <<[e |-> "connless", id |-> d.id, sz |-> d.sz]>>, "ok")
          ELSE None(x)
  ELSE
  IF Expected(x) # "any" /\ d.tok # Expected(x) /\ ~TokenException(x, d) THEN None(x)
  ELSE
  LET xa == IF x.st = "Onl" THEN AckChunks(x, d.ack) ELSE x IN
  IF d.k = "chunks" THEN
     LET xo == IF xa.st = "Pend" THEN Online(xa, xa.tok, xa.own, xa.their) ELSE xa IN
     IF xo.st # "Onl" THEN None(xa)
     ELSE LET r == IF d.rr THEN Resend(xo) ELSE <<xo, <<>>>>
              rc == Recv(d.chunks, r[1].ack, r[1].rr)
          IN R([r[1] EXCEPT !.ack = rc[1], !.rr = rc[2]], r[2], rc[3], "ok")
  ELSE
  CASE d.c = "Connect" ->
         IF V7 THEN
            IF xa.st = "PCon"
            THEN LET t == TickAction([xa EXCEPT !.st = "Pend", !.their = d.rt]) IN R(t[1], t[2], <<>>, "ok")
            ELSE None(xa)
         ELSE
            IF xa.st = "Unc" /\ d.tok \in {"no", "FF"}
            THEN LET t == TickAction([xa EXCEPT !.st = "Pend", !.tok = IF d.tok = "FF" THEN newtok ELSE "no"])
                 IN R(t[1], t[2], <<>>, "ok")
            ELSE None(xa)
    [] d.c = "ConnectAccept" ->          \* 0.6 only
         IF ~V7 /\ xa.st = "Cing"
         THEN LET xo == Online(xa, d.tok, "no", "no")
              IN R(xo, <<Ctrl(xo, "Accept")>>, <<[e |-> "ready"]>>, "ok")
         ELSE None(xa)
    [] d.c = "Accept" ->
         IF V7 /\ xa.st = "Cing"
         THEN R(Online(xa, "no", xa.own, xa.their), <<>>, <<[e |-> "ready"]>>, "ok")
         ELSE None(xa)
    [] d.c = "Token" ->                  \* 0.7 only
         IF ~V7 THEN None(xa) ELSE
         LET x1 == IF xa.st = "Unc" THEN [xa EXCEPT !.st = "PCon", !.own = newtok] ELSE xa IN
         IF x1.st = "PCon" THEN R(x1, <<CtrlT(x1, "Token", d.rt, x1.own, -1)>>, <<>>, "ok")
         ELSE IF x1.st = "Tok"
              THEN LET t == TickAction([x1 EXCEPT !.st = "Cing", !.their = d.rt]) IN R(t[1], t[2], <<>>, "ok")
              ELSE None(x1)
    [] d.c = "Close" -> R(Dead(xa), <<>>, <<[e |-> "disc", r |-> d.r]>>, "ok")
    [] OTHER -> None(xa)           \* KeepAlive

\* Connection::needs_tick
NeedsTick(x) == IF x.st \in {"Unc", "Disc"} THEN Inactive
                ELSE LET r == IF x.st = "Onl" /\ x.rq # <<>> THEN x.rq[Len(x.rq)].t ELSE Inactive IN
                     IF x.sendT = Inactive THEN r ELSE IF r = Inactive THEN x.sendT
                     ELSE IF r < x.sendT THEN r ELSE x.sendT

\* has the endpoint anything unsent, unacknowledged or a handshake in progress that *it* must drive?
Idle(x) == x.rq = <<>> /\ x.pkt = <<>> /\ ~x.rr
Busy(x) == x.st \in {"Tok", "Cing", "Pend"} \/ (x.st = "Onl" /\ (x.rq # <<>> \/ x.pkt # <<>> \/ x.rr))
=============================================================================
