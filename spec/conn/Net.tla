-------------------------------- MODULE Net --------------------------------
(* The multi-peer endpoint net/src/net.rs (Teeworlds 0.6 / DDNet) as the     *)
(* composition of per-peer Conn endpoint records keyed by peer id, each with  *)
(* the address attached.  The remote sides are not modelled as endpoints:     *)
(* the environment may deliver, from every address, any datagram of a small   *)
(* but adversarial alphabet computed from the peer's current state (in-order  *)
(* and duplicate chunks, every control message with the right and a wrong     *)
(* token, connect requests with and without token extension, connless,        *)
(* garbage).  Decides C20 on the model; NetExp/NetTrace bind it to the code.  *)
EXTENDS Conn, FiniteSetsExt

CONSTANTS Addrs,        \* remote addresses
          Accepting,    \* Net::server() / Net::client()
          NSizes,       \* payload sizes for send
          MaxCreated,   \* peers created in a behaviour
          MaxFeeds,     \* datagrams delivered
          MaxCalls,     \* application calls (send/flush/accept/...)
          MaxTicks,     \* clock advances of 500 ms
          MaxRewind     \* 1: the next peer id may be set to an id in use (verif hook) to exercise the skip logic

ASSUME ~V7

VARIABLES peers,     \* pid -> [addr, tf, x]: address, "connect request carried the token extension", Conn record
          nextPid,
          cnt,
          act, out   \* last action / its observable result (excluded from the VIEW)
nvars == <<peers, nextPid, cnt, act, out>>

Pids == DOMAIN peers
PidOf(a) == IF \E p \in Pids : peers[p].addr = a THEN Min({p \in Pids : peers[p].addr = a}) ELSE -1
NoSends == [a \in Addrs |-> <<>>]
Quiet == [res |-> "ok", evs |-> <<>>, sends |-> NoSends]
\* Peers::new_peer: the first id from nextPid on that is not in use
RECURSIVE FreeFrom(_)
FreeFrom(p) == IF p \in Pids THEN FreeFrom(p + 1) ELSE p
Put(p, rec) == [q \in Pids \cup {p} |-> IF q = p THEN rec ELSE peers[q]]
Without(p) == [q \in Pids \ {p} |-> peers[q]]
Tag(p, evs) == [j \in 1..Len(evs) |-> evs[j] @@ [pid |-> p]]
HasDisc(evs) == \E j \in 1..Len(evs) : evs[j].e = "disc"

FailK(fail) == IF fail THEN 1 ELSE 0
NInit ==
  /\ peers = << >> /\ nextPid = 0
  /\ cnt = [created |-> 0, feeds |-> 0, calls |-> 0, ticks |-> 0, rewinds |-> 0, vit |-> 0]
  /\ act = [a |-> "init"] /\ out = Quiet

\* result r of a Conn operator applied to peer p
ApplyPeer(p, r, remove) ==
  /\ peers' = IF remove THEN Without(p) ELSE [peers EXCEPT ![p].x = r.x]
  /\ out' = [res |-> r.res, evs |-> Tag(p, r.evs), sends |-> [NoSends EXCEPT ![peers[p].addr] = r.outs]]

\* parametrised versions (no exploration budgets) are shared with the trace specification NetTrace
ConnectAt(a) ==
  /\ PidOf(a) = -1
  /\ LET p == FreeFrom(nextPid)
         r == ConnectOp(Fresh, "T", 0)
     IN /\ peers' = Put(p, [addr |-> a, tf |-> FALSE, x |-> r.x])
        /\ nextPid' = p + 1
        /\ out' = [res |-> "ok", evs |-> <<>>, sends |-> [NoSends EXCEPT ![a] = r.outs], pid |-> p]
        /\ act' = [a |-> "connect", addr |-> a]
NetConnect(a) ==
  /\ cnt.created < MaxCreated
  /\ ConnectAt(a)
  /\ cnt' = [cnt EXCEPT !.created = @ + 1, !.calls = @ + 1]

\* what may arrive from address a
Alphabet(a) ==
  LET p == PidOf(a)
      base == {[k |-> "ctrl", c |-> "Connect", tok |-> t, rt |-> "-", ack |-> 0, r |-> -1] : t \in {"FF", "no"}}
              \cup {[k |-> "connless", id |-> 7, sz |-> 3, tok |-> "no", rt |-> "-"], [k |-> "garbage"]}
  IN IF p = -1 THEN base \cup {[k |-> "ctrl", c |-> "KeepAlive", tok |-> "no", rt |-> "-", ack |-> 0, r |-> -1]}
     ELSE LET x == peers[p].x
              good == IF x.st \in {"Pend", "Onl"} THEN x.tok ELSE "T"
              toks == {good, "W"}
              chunk(s) == [v |-> TRUE, seq |-> s, rs |-> FALSE, id |-> 9, sz |-> 2]
          IN base
             \cup {[k |-> "ctrl", c |-> c, tok |-> t, rt |-> "-", ack |-> x.seq, r |-> (IF c = "Close" THEN 3 ELSE -1)]
                     : c \in {"ConnectAccept", "Accept", "KeepAlive", "Close"}, t \in toks}
             \cup {[k |-> "chunks", tok |-> t, ack |-> x.seq, rr |-> rr, chunks |-> <<chunk(s)>>]
                     : t \in toks, rr \in BOOLEAN, s \in {Nxt(x.ack), x.ack}}
             \* the same control packets from a long-lived session: the acknowledged sequence number uses the high bits
             \* of the 10-bit field (it shares its first byte with the packet flags)
             \cup {[k |-> "ctrl", c |-> c, tok |-> good, rt |-> "-", ack |-> (x.seq + 700) % 1024, r |-> (IF c = "Close" THEN 3 ELSE -1)]
                     : c \in {"KeepAlive", "Close"}}

\* `bounded`: the creation budget of the exploration applies; `fail`: the send callback refuses the (first) datagram
\* with which the peer's connection answers -- the events of the datagram are handed to the application all the same
FeedWith(a, d, bounded, fail) ==
  LET p == PidOf(a) IN
  /\ act' = [a |-> "feed", addr |-> a, d |-> d, fail |-> fail]
  /\ IF d.k \in {"garbage", "unreadable"} THEN peers' = peers /\ out' = Quiet /\ UNCHANGED nextPid
     ELSE IF p # -1
     THEN LET r == FeedOp(peers[p].x, d, "T", FailK(fail)) IN ApplyPeer(p, r, HasDisc(r.evs)) /\ UNCHANGED nextPid
     ELSE IF d.k = "connless"
     THEN /\ peers' = peers /\ UNCHANGED nextPid
          /\ out' = [Quiet EXCEPT !.evs = <<[e |-> "connless", id |-> d.id, sz |-> d.sz, pid |-> -1, addr |-> a]>>]
     ELSE IF d.k = "ctrl" /\ d.c = "Connect" /\ Accepting /\ (~bounded \/ cnt.created < MaxCreated)
     THEN LET q == FreeFrom(nextPid) IN
          /\ peers' = Put(q, [addr |-> a, tf |-> (d.tok # "no"), x |-> Fresh])
          /\ nextPid' = q + 1
          /\ out' = [Quiet EXCEPT !.evs = <<[e |-> "connect", pid |-> q]>>]
     ELSE /\ ~(d.k = "ctrl" /\ d.c = "Connect" /\ Accepting)     \* creation budget exhausted: not explored
          /\ peers' = peers /\ out' = Quiet /\ UNCHANGED nextPid
FeedFrom(a) ==
  /\ cnt.feeds < MaxFeeds
  /\ \E d \in Alphabet(a), fail \in BOOLEAN :
        /\ FeedWith(a, d, TRUE, fail)
        /\ fail => out'.res = "callback"          \* only feeds during which the callback really refuses something
  /\ cnt' = [cnt EXCEPT !.feeds = @ + 1,
                        !.created = IF Cardinality(DOMAIN peers') > Cardinality(Pids) THEN @ + 1 ELSE @]

\* Net::accept feeds the canned connect request (with or without token extension) to the fresh connection
AcceptWith(p, fail) ==
  /\ peers[p].x.st = "Unc"
  /\ LET d == [k |-> "ctrl", c |-> "Connect", tok |-> (IF peers[p].tf THEN "FF" ELSE "no"), rt |-> "-", ack |-> 0, r |-> -1]
     IN ApplyPeer(p, FeedOp(peers[p].x, d, "T", FailK(fail)), FALSE)
  /\ act' = [a |-> "accept", pid |-> p, fail |-> fail]
NetAccept(p) == \E fail \in BOOLEAN : AcceptWith(p, fail)
\* Net::reject: a close for a peer that was never accepted (no token is known yet)
\* `fail`: the send callback reports an error for the close datagram (it is not sent); the peer is gone all the same
RejectWith(p, rs, fail) ==
  /\ peers[p].x.st = "Unc"
  /\ ApplyPeer(p, Ret(Dead(peers[p].x), PutDg(O0, CtrlT(peers[p].x, "Close", "no", "-", rs), FailK(fail)), <<>>, "-"), TRUE)
  /\ act' = [a |-> "reject", pid |-> p, r |-> rs, fail |-> fail]
NetReject(p) == \E fail \in BOOLEAN : RejectWith(p, 3, fail)
DisconnectWith(p, rs, fail) ==
  /\ peers[p].x.st \notin {"Unc", "Disc"}
  /\ ApplyPeer(p, DisconnectOp(peers[p].x, rs, FailK(fail)), TRUE)
  /\ act' = [a |-> "disconnect", pid |-> p, r |-> rs, fail |-> fail]
NetDisconnect(p) == \E fail \in BOOLEAN : DisconnectWith(p, 3, fail)
NetIgnore(p) ==
  /\ peers' = Without(p) /\ out' = Quiet
  /\ act' = [a |-> "ignore", pid |-> p]
SendTo(p, v, sz, id) ==
  /\ peers[p].x.st = "Onl"
  /\ ApplyPeer(p, SendOp(peers[p].x, [id |-> id, sz |-> sz, v |-> v], 0), FALSE)
  /\ act' = [a |-> "send", pid |-> p, v |-> v, sz |-> sz, id |-> id]
NetSend(p) ==
  /\ cnt.vit < 2
  /\ \E v \in BOOLEAN, sz \in NSizes : SendTo(p, v, sz, cnt.calls + 1)
NetFlush(p) ==
  /\ peers[p].x.st = "Onl"
  /\ ApplyPeer(p, FlushOp(peers[p].x, 0), FALSE)
  /\ act' = [a |-> "flush", pid |-> p]
ConnlessTo(a, id, sz) ==
  /\ peers' = peers
  /\ out' = [Quiet EXCEPT !.sends = [NoSends EXCEPT ![a] = <<[k |-> "connless", id |-> id, sz |-> sz, tok |-> "no", rt |-> "-"]>>]]
  /\ act' = [a |-> "connless", addr |-> a, id |-> id, sz |-> sz]
NetConnless(a) == ConnlessTo(a, 5, 4)
Call ==
  /\ cnt.calls < MaxCalls
  /\ \/ \E p \in Pids : NetAccept(p) \/ NetReject(p) \/ NetDisconnect(p) \/ NetIgnore(p) \/ NetSend(p) \/ NetFlush(p)
     \/ \E a \in Addrs : NetConnless(a)
  /\ cnt' = [cnt EXCEPT !.calls = @ + 1, !.vit = IF act'.a = "send" THEN @ + 1 ELSE @]
  /\ UNCHANGED nextPid

\* Net::tick: every peer's connection is ticked
TickAll ==
  /\ LET r == [p \in Pids |-> TickOp(peers[p].x, 0)] IN
     /\ peers' = [p \in Pids |-> [peers[p] EXCEPT !.x = r[p].x]]
     /\ out' = [Quiet EXCEPT !.sends = [a \in Addrs |-> IF PidOf(a) = -1 THEN <<>> ELSE r[PidOf(a)].outs]]
  /\ act' = [a |-> "tick"]
  /\ UNCHANGED nextPid
NetTick ==
  /\ \E p \in Pids : TickDue(peers[p].x)
  /\ TickAll
  /\ UNCHANGED cnt
AdvanceBy(d) ==
  /\ peers' = [p \in Pids |-> [peers[p] EXCEPT !.x = AdvanceOp(@, d)]]
  /\ out' = Quiet /\ act' = [a |-> "advance", d |-> d]
  /\ UNCHANGED nextPid
NetAdvance ==
  /\ cnt.ticks < MaxTicks
  /\ AdvanceBy(500)
  /\ cnt' = [cnt EXCEPT !.ticks = @ + 1]
\* verification hook: the next peer id is set to an id that is in use
Rewind ==
  /\ cnt.rewinds < MaxRewind /\ Pids # {}
  /\ \E p \in Pids : nextPid' = p /\ act' = [a |-> "rewind", pid |-> p]
  /\ cnt' = [cnt EXCEPT !.rewinds = @ + 1]
  /\ out' = Quiet /\ UNCHANGED peers

NNext == (\E a \in Addrs : NetConnect(a) \/ FeedFrom(a)) \/ Call \/ NetTick \/ NetAdvance \/ Rewind
NSpec == NInit /\ [][NNext]_nvars
NView == <<peers, nextPid, cnt>>

\* ----------------------------------------------------------------- C20
\* at most one live peer per address (the drivers keep it so) and ids of live peers are distinct by construction;
\* what must hold: a fresh id is never one that is in use
FreshIds == [][\A p \in DOMAIN peers' \ Pids : p \notin Pids /\ p >= 0]_nvars
\* peers appear only through connect() or a connect request from an unknown address on an accepting endpoint
Creation == [][(DOMAIN peers' \ Pids # {}) =>
                 \/ act'.a = "connect"
                 \/ (act'.a = "feed" /\ Accepting /\ act'.d.k = "ctrl" /\ act'.d.c = "Connect" /\ PidOf(act'.addr) = -1)]_nvars
\* a peer is gone after it was disconnected by either side
Removal == [][/\ act'.a \in {"disconnect", "reject", "ignore"} => act'.pid \notin DOMAIN peers'
              /\ \A j \in 1..Len(out'.evs) : out'.evs[j].e = "disc" => out'.evs[j].pid \notin DOMAIN peers'
              /\ (Pids \ DOMAIN peers' # {}) => (act'.a \in {"disconnect", "reject", "ignore"} \/ HasDisc(out'.evs))]_nvars
\* isolation: a step concerning one address touches no other peer and sends to no other address
Concerns(a, p) == (p \in Pids /\ peers[p].addr = a)
Isolation == [][/\ act'.a = "feed" =>
                     /\ \A p \in Pids \cap DOMAIN peers' : peers[p].addr # act'.addr => peers'[p] = peers[p]
                     /\ \A b \in Addrs \ {act'.addr} : out'.sends[b] = <<>>
                /\ act'.a \in {"accept", "reject", "disconnect", "ignore", "send", "flush"} =>
                     /\ \A p \in Pids \cap DOMAIN peers' : p # act'.pid => peers'[p] = peers[p]
                     /\ \A b \in Addrs : b # peers[act'.pid].addr => out'.sends[b] = <<>>
                /\ \A j \in 1..Len(out'.evs) : out'.evs[j].pid # -1 =>
                     (act'.a = "feed" /\ (out'.evs[j].pid = PidOf(act'.addr) \/ out'.evs[j].e = "connect"))]_nvars
\* Net::needs_tick is the earliest deadline of any peer
NetNeedsTick == LET ts == {NeedsTick(peers[p].x) : p \in Pids} \ {Inactive} IN IF ts = {} THEN Inactive ELSE Min(ts)
DeadlineOk == \A p \in Pids : Busy(peers[p].x) => NetNeedsTick # Inactive
=============================================================================
