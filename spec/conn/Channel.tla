------------------------------ MODULE Channel ------------------------------
(* What the user of the connection layer relies on (C01), stated over       *)
(* observable histories only: what each application submitted and what each *)
(* application was handed.  ConnSys is shown to implement this (PROPERTY     *)
(* ChannelSpec in the model-checking configurations), and traces of the real *)
(* code are judged against the same predicates by ChannelTrace.             *)
(*                                                                           *)
(* Sessions: an application may reset() a closed connection and use the      *)
(* same object again.  `bnd[e]` records where e's histories were cut by its  *)
(* resets.  Across sessions the promise is: what one session of the          *)
(* receiver is handed is a prefix of what *one* session of the sender        *)
(* submitted.  (This needs tokens: ConnSys establishes it for 0.7 and for    *)
(* 0.6 with the DDNet token; for vanilla 0.6 TLC finds a counterexample      *)
(* with a datagram of the old session -- nothing is promised there.)         *)
EXTENDS Integers, Sequences, FiniteSets, SequencesExt

VARIABLES sub,       \* sub[e]: ids of the vital chunks e's application submitted (accepted sends), in order
          snv, scl,  \* ids of the non-vital chunks / connless payloads e's application sent
          del,       \* del[e]: events e's application was handed, in order
          ready,     \* how often the connecting application was told "ready" in its current session
          answered,  \* the accepting side has answered a connect request
          bnd        \* bnd[e]: [s, d] = lengths of sub[e] and del[e] at each reset() of e
chvars == <<sub, snv, scl, del, ready, answered, bnd>>

CE == {"c", "s"}
CPeer(e) == IF e = "c" THEN "s" ELSE "c"
ChChunkEvs(s) == SelectSeq(s, LAMBDA ev : ev.e = "chunk")
ChVitalIds(s) == LET v == SelectSeq(ChChunkEvs(s), LAMBDA ev : ev.v) IN [j \in 1..Len(v) |-> v[j].id]

\* session i of e's application: the slice of its histories between its (i-1)-th and i-th reset
NSess(bd, e) == Len(bd[e]) + 1
SubCuts(sb, bd, e) == <<0>> \o [j \in 1..Len(bd[e]) |-> bd[e][j].s] \o <<Len(sb[e])>>
DelCuts(dl, bd, e) == <<0>> \o [j \in 1..Len(bd[e]) |-> bd[e][j].d] \o <<Len(dl[e])>>
SubOf(sb, bd, e, i) == SubSeq(sb[e], SubCuts(sb, bd, e)[i] + 1, SubCuts(sb, bd, e)[i + 1])
DelOf(dl, bd, e, i) == SubSeq(dl[e], DelCuts(dl, bd, e)[i] + 1, DelCuts(dl, bd, e)[i + 1])

\* vital chunks: a prefix of what was submitted -- nothing skipped, duplicated, reordered or altered (altered content has id -1);
\* per session of the receiver, with respect to one session of the sender
Prefix(sb, dl, bd) == \A e \in CE : \A j \in 1..NSess(bd, CPeer(e)) : \E i \in 1..NSess(bd, e) :
                         IsPrefix(ChVitalIds(DelOf(dl, bd, CPeer(e), j)), SubOf(sb, bd, e, i))
\* non-vital chunks and connless payloads that are delivered were really sent
Genuine(nv, cl, dl) == \A e \in CE : \A j \in 1..Len(dl[CPeer(e)]) :
                          LET ev == dl[CPeer(e)][j] IN
                          /\ (ev.e = "chunk" /\ ~ev.v) => ev.id \in nv[e]
                          /\ ev.e = "connless" => ev.id \in cl[e]
ReadyOnce(r, a) == r <= 1 /\ (r = 1 => a)
Good(sb, nv, cl, dl, r, a, bd) == Prefix(sb, dl, bd) /\ Genuine(nv, cl, dl) /\ ReadyOnce(r, a)
\* everything submitted in the current sessions has been handed over
AllDelivered(sb, dl, bd) == \A e \in CE : ChVitalIds(DelOf(dl, bd, CPeer(e), NSess(bd, CPeer(e)))) = SubOf(sb, bd, e, NSess(bd, e))

ChInit == /\ sub = [e \in CE |-> <<>>] /\ snv = [e \in CE |-> {}] /\ scl = [e \in CE |-> {}]
          /\ del = [e \in CE |-> <<>>] /\ bnd = [e \in CE |-> <<>>]
          /\ (ready = 0 \/ (ready = 1 /\ answered))
\* histories only grow (a reset of the connecting side starts its count of "ready" afresh), and stay good
ChStep == /\ \A e \in CE : /\ IsPrefix(sub[e], sub'[e]) /\ IsPrefix(del[e], del'[e]) /\ IsPrefix(bnd[e], bnd'[e])
                            /\ snv[e] \subseteq snv'[e] /\ scl[e] \subseteq scl'[e]
          /\ (ready <= ready' \/ bnd'["c"] # bnd["c"]) /\ (answered => answered')
          /\ Good(sub', snv', scl', del', ready', answered', bnd')
ChannelSpec == ChInit /\ [][ChStep]_chvars
=============================================================================
