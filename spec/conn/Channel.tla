------------------------------ MODULE Channel ------------------------------
(* What the user of the connection layer relies on (C01), stated over       *)
(* observable histories only: what each application submitted and what each *)
(* application was handed.  ConnSys is shown to implement this (PROPERTY     *)
(* ChannelSpec in the model-checking configurations), and traces of the real *)
(* code are judged against the same predicates by ChannelTrace.             *)
EXTENDS Integers, Sequences, FiniteSets, SequencesExt

VARIABLES sub,       \* sub[e]: ids of the vital chunks e's application submitted (accepted sends), in order
          snv, scl,  \* ids of the non-vital chunks / connless payloads e's application sent
          del,       \* del[e]: events e's application was handed, in order
          ready,     \* how often the connecting application was told "ready"
          answered   \* the accepting side has answered the connect request
chvars == <<sub, snv, scl, del, ready, answered>>

CE == {"c", "s"}
CPeer(e) == IF e = "c" THEN "s" ELSE "c"
ChChunkEvs(s) == SelectSeq(s, LAMBDA ev : ev.e = "chunk")
ChVitalIds(s) == LET v == SelectSeq(ChChunkEvs(s), LAMBDA ev : ev.v) IN [j \in 1..Len(v) |-> v[j].id]

\* vital chunks: a prefix of what was submitted -- nothing skipped, duplicated, reordered or altered (altered content has id -1)
Prefix(sb, dl) == \A e \in CE : IsPrefix(ChVitalIds(dl[CPeer(e)]), sb[e])
\* non-vital chunks and connless payloads that are delivered were really sent
Genuine(nv, cl, dl) == \A e \in CE : \A j \in 1..Len(dl[CPeer(e)]) :
                          LET ev == dl[CPeer(e)][j] IN
                          /\ (ev.e = "chunk" /\ ~ev.v) => ev.id \in nv[e]
                          /\ ev.e = "connless" => ev.id \in cl[e]
ReadyOnce(r, a) == r <= 1 /\ (r = 1 => a)
Good(sb, nv, cl, dl, r, a) == Prefix(sb, dl) /\ Genuine(nv, cl, dl) /\ ReadyOnce(r, a)

ChInit == /\ sub = [e \in CE |-> <<>>] /\ snv = [e \in CE |-> {}] /\ scl = [e \in CE |-> {}]
          /\ del = [e \in CE |-> <<>>]
          /\ (ready = 0 \/ (ready = 1 /\ answered))
\* histories only grow, and stay good
ChStep == /\ \A e \in CE : /\ IsPrefix(sub[e], sub'[e]) /\ IsPrefix(del[e], del'[e])
                            /\ snv[e] \subseteq snv'[e] /\ scl[e] \subseteq scl'[e]
          /\ ready <= ready' /\ (answered => answered')
          /\ Good(sub', snv', scl', del', ready', answered')
ChannelSpec == ChInit /\ [][ChStep]_chvars
=============================================================================
