\* every second vector of the family plus the named ones; ties at 7 positions
CONSTANTS TiePositions = {0, 1, 100, 127, 128, 200, 254}
          Sel = {"dominant", "lighter-half", "fibonacci", "fibonacci-shifted", "all-zero", "saturated-root"}
          EXPORT = TRUE
INIT Init
NEXT Next
INVARIANT Inv
