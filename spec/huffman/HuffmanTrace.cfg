INIT Init
NEXT Next
POSTCONDITION Post
CHECK_DEADLOCK FALSE
