------------------------------ MODULE Huffman ------------------------------
(***************************************************************************)
(* The Teeworlds Huffman format of doc/huffman.md, generic in the code      *)
(* table T (a sequence of 257 code words, T[s + 1] for symbol s; symbols    *)
(* 0..255 are bytes, 256 is EOF; a code word is a sequence of bits, first   *)
(* bit first).  Pure operators only.                                        *)
(*                                                                         *)
(*  - substitute every byte, append EOF                                     *)
(*  - pad with 0s to a multiple of 8 bits                                   *)
(*  - the first bit of the stream is the least significant bit of the first *)
(*    byte ("the order of the bits in the individual bytes is reversed")    *)
(*  - reference bug: an extra padding byte is appended when the bit stream  *)
(*    already is a multiple of 8 (reference-compatible form)                *)
(*  - decompression ignores the end of the input and assumes it is followed *)
(*    by an endless stream of zeros; it stops at EOF                        *)
(***************************************************************************)
EXTENDS Integers, Sequences, FiniteSets, SequencesExt

EOFSYM == 256
NSYM == 257
MaxCodeLen == 24           \* libtw2 stores a code word in 24 bits

RECURSIVE Pow2(_)
Pow2(n) == IF n = 0 THEN 1 ELSE 2 * Pow2(n - 1)

(* ---------------------------- validity of a code table ------------------ *)
IsBitSeq(c) == \A i \in 1..Len(c) : c[i] \in {0, 1}
\* a (partial) code word as an integer: 1 followed by its bits (1 = empty, at a symbol boundary)
Key(c) == FoldLeft(LAMBDA a, bit : 2 * a + bit, 1, c)
\* no code word is a prefix of another one (and no two are equal)
PrefixFree(T) == LET keys == {Key(T[i]) : i \in 1..Len(T)} IN
                 /\ Cardinality(keys) = Len(T)
                 /\ \A i \in 1..Len(T) : \A l \in 0..(Len(T[i]) - 1) : Key(SubSeq(T[i], 1, l)) \notin keys
\* Kraft sum in units of 2^-24; equality with 1 means the code is complete: every bit
\* string continues to exactly one code word, the decoder can never get stuck
Kraft(T) == FoldLeft(LAMBDA a, c : a + Pow2(MaxCodeLen - Len(c)), 0, T)
ValidCode(T) == /\ Len(T) = NSYM
                /\ \A i \in 1..NSYM : Len(T[i]) \in 1..MaxCodeLen /\ IsBitSeq(T[i])
                /\ PrefixFree(T)
                /\ Kraft(T) = Pow2(MaxCodeLen)

(* ---------------------------- encoding ---------------------------------- *)
StreamBits(T, s) == FoldLeft(LAMBDA acc, x : acc \o T[x + 1], <<>>, s) \o T[EOFSYM + 1]
ByteAt(bits, k) == LET b(j) == IF 8 * k + j <= Len(bits) THEN bits[8 * k + j] ELSE 0 IN
                   b(1) + 2 * b(2) + 4 * b(3) + 8 * b(4) + 16 * b(5) + 32 * b(6) + 64 * b(7) + 128 * b(8)
Pack(bits, n) == [k \in 1..n |-> ByteAt(bits, k - 1)]
Encode(T, s) == LET bs == StreamBits(T, s) IN Pack(bs, (Len(bs) + 7) \div 8)
EncodeRefCompat(T, s) == LET bs == StreamBits(T, s) IN Pack(bs, Len(bs) \div 8 + 1)
BitLen(T, s) == FoldLeft(LAMBDA a, x : a + Len(T[x + 1]), 0, s) + Len(T[EOFSYM + 1])
CompressedLen(T, s) == (BitLen(T, s) + 7) \div 8
CompressedLenBug(T, s) == BitLen(T, s) \div 8 + 1

(* ---------------------------- decoding ---------------------------------- *)
\* The decoding tree of a (prefix-free) table, built by inserting one code word after the other.
\* Node 1 is the root; nodes[n][bit + 1] is
\*   m > 0   the inner node reached by `bit`
\*   -s - 1  the code word of symbol s is complete
\*   0       no code word continues this way (cannot happen in a complete code)
Insert(nodes, c, s) ==
  FoldLeft(LAMBDA st, l :
             LET nx == st.nodes[st.n][c[l] + 1] IN
             IF l = Len(c) THEN [st EXCEPT !.nodes[st.n][c[l] + 1] = -s - 1]
             ELSE IF nx > 0 THEN [st EXCEPT !.n = nx]
             ELSE [nodes |-> Append([st.nodes EXCEPT ![st.n][c[l] + 1] = Len(st.nodes) + 1], <<0, 0>>),
                   n |-> Len(st.nodes) + 1],
           [nodes |-> nodes, n |-> 1], [l \in 1..Len(c) |-> l]).nodes
Tree(T) == FoldLeft(LAMBDA nodes, j : Insert(nodes, T[j], j - 1), <<<<0, 0>>>>, [j \in 1..Len(T) |-> j])
\* the symbol the endless zeros decode to
ZeroSym(T) == (CHOOSE j \in 1..Len(T) : \A l \in 1..Len(T[j]) : T[j][l] = 0) - 1

Unpack(bytes) == [j \in 1..(8 * Len(bytes)) |-> (bytes[(j - 1) \div 8 + 1] \div Pow2((j - 1) % 8)) % 2]

\* decoder state: st "run" | "done" | "capacity" | "garbage"; n current node (1 = at a symbol
\* boundary); d depth below the root
Start(cap) == [st |-> "run", n |-> 1, out |-> <<>>, cap |-> cap]
Step(tree, a, bit) ==
  IF a.st # "run" THEN a ELSE
  LET nx == tree[a.n][bit + 1] IN
  IF nx > 0 THEN [a EXCEPT !.n = nx]
  ELSE IF nx = 0 THEN [a EXCEPT !.st = "garbage"]                         \* cannot happen with a complete code
  ELSE IF -nx - 1 = EOFSYM THEN [a EXCEPT !.st = "done", !.n = 1]
  ELSE IF Len(a.out) >= a.cap THEN [a EXCEPT !.st = "capacity"]           \* every output byte is taken from the bounded buffer
  ELSE [a EXCEPT !.out = Append(@, -nx - 1), !.n = 1]
Result(a) == IF a.st = "done" THEN [r |-> "ok", out |-> a.out] ELSE [r |-> a.st, out |-> <<>>]

ZeroBits(n) == [j \in 1..n |-> 0]
\* the definition: the input is followed by endless zeros -- (cap + 2) code words of zeros are
\* enough to reach EOF or to overflow the capacity (termination argument: each code word has
\* at most MaxCodeLen bits and each decoded byte uses one unit of capacity)
DecodeNaive(tree, bytes, cap) ==
  LET a1 == FoldLeft(LAMBDA a, bit : Step(tree, a, bit), Start(cap), Unpack(bytes))
      a2 == FoldLeft(LAMBDA a, bit : Step(tree, a, bit), a1, ZeroBits((cap + 2) * MaxCodeLen))
  IN Result(IF a2.st = "run" THEN [a2 EXCEPT !.st = "garbage"] ELSE a2)
\* the same in closed form: finish the pending code word with zeros; from then on the stream
\* is the zero symbol for ever: EOF ends it, any byte overflows every capacity
Decode(tree, zsym, bytes, cap) ==
  LET a1 == FoldLeft(LAMBDA a, bit : Step(tree, a, bit), Start(cap), Unpack(bytes))
      a2 == FoldLeft(LAMBDA a, bit : IF a.n = 1 THEN a ELSE Step(tree, a, bit), a1, ZeroBits(MaxCodeLen))
  IN Result(IF a2.st # "run" THEN a2
            ELSE IF a2.n # 1 THEN [a2 EXCEPT !.st = "garbage"]
            ELSE IF zsym = EOFSYM THEN [a2 EXCEPT !.st = "done"] ELSE [a2 EXCEPT !.st = "capacity"])
\* the allocating API: at most one output byte per input bit, a longer output is invalid
VecCap(bytes) == 8 * Len(bytes)

(* ---------------------------- frequencies -> shape (known finding F2) ---- *)
\* Height of the Huffman tree libtw2 builds for a frequency vector (256 entries, EOF gets
\* frequency 1): repeatedly merge the two rarest nodes of the list kept in descending order
\* (stable sort), the merged node goes behind the nodes of equal frequency; sums saturate at
\* 2^32 - 1.  Frequencies are u32 and TLC integers are 32-bit signed, so a frequency is a pair
\* <<hi, lo>> of 16-bit limbs.
Limbs(hi, lo) == [hi |-> hi, lo |-> lo]
FGeq(a, b) == a.hi > b.hi \/ (a.hi = b.hi /\ a.lo >= b.lo)
FAdd(a, b) == LET lo == a.lo + b.lo
                  hi == a.hi + b.hi + (lo \div 65536) IN
              IF hi > 65535 THEN Limbs(65535, 65535) ELSE Limbs(hi, lo % 65536)
MergeStep(l, unused) ==
  LET n == Len(l)
      a == l[n]
      b == l[n - 1]
      m == [f |-> FAdd(a.f, b.f), h |-> 1 + (IF a.h > b.h THEN a.h ELSE b.h)]
      p == Cardinality({j \in 1..(n - 2) : FGeq(l[j].f, m.f)})
  IN SubSeq(l, 1, p) \o <<m>> \o SubSeq(l, p + 1, n - 2)
\* fhi, flo: the 256 frequencies as limbs
TreeHeight(fhi, flo) ==
  LET leaves == [j \in 1..NSYM |-> [f |-> IF j = NSYM THEN Limbs(0, 1) ELSE Limbs(fhi[j], flo[j]), h |-> 0, i |-> j]]
      sorted == SortSeq(leaves, LAMBDA x, y : (x.f # y.f /\ FGeq(x.f, y.f)) \/ (x.f = y.f /\ x.i < y.i))
      start  == [j \in 1..NSYM |-> [f |-> sorted[j].f, h |-> 0]]
  IN FoldLeft(MergeStep, start, [j \in 1..(NSYM - 1) |-> j])[1].h
(* ---------------------------- frequencies -> the exact code --------------------------------- *)
\* The code libtw2 (and the reference) build for a frequency vector, tie-breaking included.  A node of
\* the list carries its leaves with the path from the node down to each leaf: ls = <<<<sym, path>>, ..>>.
\* Merging pops the last node a (the rarest; among equals the one that came last) and the one before
\* it, b; a becomes child 0 and b child 1 of the new node, which is inserted behind the nodes of
\* equal or larger frequency (a stable descending sort).  Root paths are the code words.
MergeStepC(l, unused) ==
  LET n == Len(l)
      a == l[n]
      b == l[n - 1]
      ls == [k \in 1..Len(a.ls) |-> <<a.ls[k][1], <<0>> \o a.ls[k][2]>>] \o [k \in 1..Len(b.ls) |-> <<b.ls[k][1], <<1>> \o b.ls[k][2]>>]
      m == [f |-> FAdd(a.f, b.f), h |-> 1 + (IF a.h > b.h THEN a.h ELSE b.h), ls |-> ls]
      p == Cardinality({j \in 1..(n - 2) : FGeq(l[j].f, m.f)})
  IN SubSeq(l, 1, p) \o <<m>> \o SubSeq(l, p + 1, n - 2)
\* [h |-> height of the tree, code |-> the 257 code words (T[s + 1] for symbol s)]
Build(fhi, flo) ==
  LET leaves == [j \in 1..NSYM |-> [f |-> IF j = NSYM THEN Limbs(0, 1) ELSE Limbs(fhi[j], flo[j]), h |-> 0, i |-> j]]
      sorted == SortSeq(leaves, LAMBDA x, y : (x.f # y.f /\ FGeq(x.f, y.f)) \/ (x.f = y.f /\ x.i < y.i))
      start  == [j \in 1..NSYM |-> [f |-> sorted[j].f, h |-> 0, ls |-> <<<<sorted[j].i - 1, <<>>>>>>]]
      root   == FoldLeft(MergeStepC, start, [j \in 1..(NSYM - 1) |-> j])[1]
      code   == FoldLeft(LAMBDA acc, e : [acc EXCEPT ![e[1] + 1] = e[2]], [j \in 1..NSYM |-> <<>>], root.ls)
  IN [h |-> root.h, code |-> code]
\* the panic of known finding F2: the tree is deeper than a code word may be long
TooDeep(h) == h > MaxCodeLen
\* no frequency sum saturates (then the code is an optimal prefix code and CodeMonotone holds)
NoSaturation(fhi, flo) == FoldLeft(LAMBDA acc, j : FAdd(acc, Limbs(fhi[j], flo[j])), Limbs(0, 1), [j \in 1..256 |-> j]) # Limbs(65535, 65535)
\* a more frequent byte never has a longer code word
CodeMonotone(T, fhi, flo) == \A a, b \in 1..256 :
    (Limbs(fhi[a], flo[a]) # Limbs(fhi[b], flo[b]) /\ FGeq(Limbs(fhi[a], flo[a]), Limbs(fhi[b], flo[b]))) => Len(T[a]) <= Len(T[b])

WellFormedFreqs(fhi, flo) == /\ Len(fhi) = 256 /\ Len(flo) = 256
                             /\ \A j \in 1..256 : fhi[j] \in 0..65535 /\ flo[j] \in 0..65535
=============================================================================
