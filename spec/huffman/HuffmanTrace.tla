------------------------------ MODULE HuffmanTrace ------------------------------
(***************************************************************************)
(* Direction B for C07: validates an NDJSON trace recorded from the real    *)
(* libtw2-huffman (and, on the same events, from the bundled C++ reference) *)
(* against Huffman.tla.  One state per event; an event is consumed only if  *)
(* the property-level judgement accepts it, otherwise the trace is rejected *)
(* at that event (VIOLATION).  Detail-only deviations print "@DRIFT ...".   *)
(*                                                                         *)
(* Events (field e):                                                       *)
(*   table  kind "builtin" | "freq", res "ok" | "panic", repr (257 code     *)
(*          words as bit lists), fhi, flo (the 256 frequencies in 16-bit limbs), ref      *)
(*   comp   in clen clenb ref_res ref runs: [api cap res out canary]        *)
(*   decomp in runs: [api cap res out canary ref_res ref]                   *)
(*                                                                         *)
(* Known finding F2: from_frequencies panics when the Huffman tree of the   *)
(* frequency vector is deeper than 24 -- modelled as the named action       *)
(* TablePanic_F2 so that exactly this misbehaviour is accepted (and printed *)
(* as "@F2 ...") and any other panic still rejects the trace.               *)
(***************************************************************************)
EXTENDS Huffman, HuffTable, TLC, Json, IOUtils

Rec == ndJsonDeserialize(IOEnv.TRACE)
N == Len(Rec)

VARIABLES i, tab
vars == <<i, tab>>

DocDec == Tree(Code)
DocZS == ZeroSym(Code)
ASSUME ValidCode(Code)

Drift(what) == PrintT("@DRIFT " \o ToString(i) \o " " \o what)
Detail(ok, what) == IF ok THEN TRUE ELSE Drift(what)      \* never blocks (and no action-level disjunction)
IsPrefixSeq(a, b) == Len(a) <= Len(b) /\ SubSeq(b, 1, Len(a)) = a

(* ------------------------------------------------------------ tables *)
(* Every judgement below is a plain boolean EXPRESSION (Next compares it with TRUE) and the
   successor state is a plain value: TLC then evaluates them in expression mode, where LET
   definitions are evaluated once.  (Evaluated as part of an action, a quantifier or a LET is
   re-evaluated for every use -- a factor of 100 on these operators.) *)
\* repr() read in its other ways (len / size_hint of the iterator, walked from the back, Display of the
\* code words) shows the same 257 code words (detail: no clause of C07 names them)
Views(e) == Detail(/\ e.views.len = NSYM /\ e.views.hint_lo = NSYM /\ e.views.hint_hi = NSYM
                   /\ e.views.back = e.repr /\ e.views.disp = e.repr,
                   "repr(): len / size_hint / reverse iteration / Display disagree with the code words")
TableBuiltin(e) == /\ e.kind = "builtin" /\ e.res = "ok"
                   /\ e.repr = Code                        \* the built-in table is the documented one
                   /\ Views(e)
\* a table built from arbitrary frequencies must be a complete prefix code of at most 24 bits
\* ... (detail) it is exactly the code the construction of Huffman!Build predicts, tie-breaking included; a
\* different complete prefix code only drifts here -- but then differs from the reference on the comp events
TableFreq(e) == /\ e.kind = "freq" /\ e.res = "ok"
                /\ ValidCode(e.repr)
                /\ WellFormedFreqs(e.fhi, e.flo)
                /\ Detail(e.repr = Build(e.fhi, e.flo).code, "from_frequencies built another code than the specification's construction predicts")
                /\ Views(e)
TablePanic_F2(e) == /\ e.kind = "freq" /\ e.res = "panic"
                    /\ WellFormedFreqs(e.fhi, e.flo)
                    /\ LET h == TreeHeight(e.fhi, e.flo) IN
                       h > MaxCodeLen /\ PrintT("@F2 " \o ToString(i) \o " height " \o ToString(h))
Table(e) == TableBuiltin(e) \/ TableFreq(e) \/ TablePanic_F2(e)
TableNext(e) == IF e.res # "ok" THEN [ok |-> FALSE]
                ELSE IF e.kind = "builtin" THEN [ok |-> TRUE, T |-> Code, dec |-> DocDec, zs |-> DocZS, ref |-> e.ref]
                ELSE [ok |-> TRUE, T |-> e.repr, dec |-> Tree(e.repr), zs |-> ZeroSym(e.repr), ref |-> e.ref]

(* ------------------------------------------------------------ compressor *)
\* one event per input: the input is encoded once, every run (api, capacity) is judged
Comp(e) ==
  LET bits == StreamBits(tab.T, e.in)
      compact == Pack(bits, (Len(bits) + 7) \div 8)
      refform == Pack(bits, Len(bits) \div 8 + 1) IN
  /\ tab.ok
  /\ e.clen = Len(compact) /\ e.clenb = Len(refform)        \* the predicted lengths are exact
  /\ e.clen = CompressedLen(tab.T, e.in) /\ e.clenb = CompressedLenBug(tab.T, e.in)
  /\ Len(bits) = BitLen(tab.T, e.in)
  \* the reference implementation (given enough room) produces the reference-compatible form
  /\ tab.ref => e.ref_res = "ok"
  /\ e.ref_res = "ok" => e.ref = refform
  /\ \A k \in 1..Len(e.runs) :
        LET r == e.runs[k]
            want == IF r.api = "compress_bug" THEN refform ELSE compact IN
        /\ r.canary = TRUE                                   \* nothing written outside the buffer
        /\ r.res \in {"ok", "capacity"}
        /\ IF r.api = "compress" THEN r.res = "ok" ELSE ((r.res = "ok") <=> (Len(want) <= r.cap))
        /\ r.res = "ok" => r.out = want

(* ------------------------------------------------------------ decompressor *)
\* one event per input: the input is decoded once at the largest capacity of the runs; by the
\* capacity law of the codec (checked on the model, MC_Huffman!Row: CapLaw) the result at a
\* capacity c is that result if it fits into c and a capacity error otherwise
CapOf(r, in) == IF r.api = "decompress" THEN VecCap(in) ELSE r.cap
MaxCap(e) == FoldLeft(LAMBDA m, r : IF CapOf(r, e.in) > m THEN CapOf(r, e.in) ELSE m, 0, e.runs)
Decomp(e) ==
  LET full == Decode(tab.dec, tab.zs, e.in, MaxCap(e)) IN
  /\ tab.ok
  /\ \A k \in 1..Len(e.runs) :
        LET r == e.runs[k]
            cap == CapOf(r, e.in)
            d == IF full.r = "ok" /\ Len(full.out) <= cap THEN full ELSE [r |-> "capacity", out |-> <<>>] IN
        /\ r.canary = TRUE
        /\ r.res \in {"ok", "capacity", "invalid"}            \* terminates, no panic
        /\ d.r = "ok" => r.res = "ok" /\ r.out = d.out
        /\ d.r # "ok" => r.res # "ok"                         \* overflow / garbage is an error
        /\ Len(r.out) <= cap
        \* whenever the reference decodes the input successfully, libtw2 returns the same bytes
        /\ r.ref_res = "ok" => r.res = "ok" /\ r.out = r.ref /\ d.r = "ok"
        /\ Detail(d.r # "ok" => r.res = (IF r.api = "decompress" THEN "invalid" ELSE "capacity"),
                  "error class " \o r.res \o " for " \o r.api)

Accept(e) == CASE e.e = "table"  -> Table(e)
               [] e.e = "comp"   -> Comp(e)
               [] e.e = "decomp" -> Decomp(e)
               [] OTHER          -> FALSE
NextTab(e) == IF e.e = "table" THEN TableNext(e) ELSE tab

Init == i = 1 /\ tab = [ok |-> FALSE]
Next == /\ i <= N
        /\ Accept(Rec[i]) = TRUE           \* (= TRUE: expression mode, see above)
        /\ tab' = NextTab(Rec[i])
        /\ i' = i + 1
Spec == Init /\ [][Next]_vars

Short(e) == IF e.e = "table" THEN [e EXCEPT !.repr = <<>>, !.fhi = <<>>, !.flo = <<>>] ELSE e
Post == LET d == TLCGet("stats").diameter IN
        IF d = N + 1 THEN PrintT("@ACCEPTED " \o ToString(N))
        ELSE /\ PrintT("TRACE REJECTED at event " \o ToString(d) \o " of " \o ToString(N))
             /\ PrintT("@REJECTED " \o ToJson([index |-> d, event |-> Short(Rec[d])]))
=============================================================================
