\* hand-made complete code "deep" (model only: the library cannot load a table directly)
CONSTANTS MaxLen = 2  MaxCap = 3  Table = "deep"  EXPORT = FALSE
          Seconds = {0, 1, 17, 128, 255}
INIT Init
NEXT Next
INVARIANT Inv
