------------------------------ MODULE MC_Huffman ------------------------------
(* C07 on the model: the laws of the codec for the documented table (HuffTable.tla,
   generated from the appendix of doc/huffman.md) and for two hand-made complete codes
   (a flat one and one with 24-bit code words), on
     - every byte string of length <= MaxLen as compressor input  (Strs), and
     - every byte string of length <= MaxLen as decompressor input at every capacity 0..MaxCap.
   One state per first byte (or the empty string); EXPORT = TRUE prints the expected results
   as test vectors for the harness (direction A, documented table only). *)
EXTENDS Huffman, HuffTable, TLC
CONSTANTS MaxLen, MaxCap, Seconds, Table, EXPORT

Bin(v, n) == [i \in 1..n |-> (v \div Pow2(n - i)) % 2]
Ones(n) == [i \in 1..n |-> 1]
\* 255 code words of 8 bits, two of 9
FlatCode == [i \in 1..NSYM |-> IF i <= 255 THEN Bin(i - 1, 8) ELSE Ones(8) \o <<i - 256>>]
\* 16 code words 0, 10, 110, ... then 15 of 23 bits and 226 of 24 bits under the prefix 1^16
DeepCode == [i \in 1..NSYM |-> IF i <= 16 THEN Ones(i - 1) \o <<0>>
                               ELSE IF i <= 31 THEN Ones(16) \o Bin(i - 17, 7)
                               ELSE Ones(16) \o Bin(30 + (i - 32), 8)]
\* the flat code with the words of byte 00 and EOF exchanged: EOF = 00000000, the endless zeros
\* after the input terminate the stream (in FlatCode EOF is all ones, in Code and DeepCode mixed)
ZeofCode == [FlatCode EXCEPT ![1] = FlatCode[NSYM], ![NSYM] = FlatCode[1]]
T == CASE Table = "doc" -> Code [] Table = "flat" -> FlatCode [] Table = "deep" -> DeepCode [] Table = "zeof" -> ZeofCode
Dec == Tree(T)
ZS == ZeroSym(T)

ASSUME ValidCode(T)
ASSUME ZeroSym(ZeofCode) = EOFSYM /\ Decode(Tree(ZeofCode), EOFSYM, <<>>, 0) = [r |-> "ok", out |-> <<>>]
\* worked example of doc/huffman.md: 00 01 00 02 00 80 00 -> b1 08 2a 6e 00
ASSUME Encode(Code, <<0, 1, 0, 2, 0, 128, 0>>) = <<177, 8, 42, 110, 0>>
\* the repository's test decompress_extend_stream
ASSUME Decode(Tree(Code), ZeroSym(Code), <<87, 220>>, 3) = [r |-> "ok", out |-> <<0, 0, 0>>]
\* a code that is not prefix-free / not complete / too long is refused
ASSUME ~ValidCode([Code EXCEPT ![1] = <<0>>]) /\ ~ValidCode([Code EXCEPT ![1] = <<1, 1>>])
       /\ ~ValidCode([FlatCode EXCEPT ![256] = Ones(25)])
\* shape of the tree (known finding F2): a flat vector is shallow; Fibonacci frequencies, a
\* vector with many zero entries and saturating sums give trees deeper than 24
FibNums == <<1, 1, 2, 3, 5, 8, 13, 21, 34, 55, 89, 144, 233, 377, 610, 987, 1597, 2584, 4181, 6765, 10946, 17711,
            28657, 46368, 75025, 121393, 196418, 317811, 514229, 832040, 1346269, 2178309, 3524578, 5702887,
            9227465, 14930352, 24157817, 39088169, 63245986, 102334155>>
Fib == [j \in 1..256 |-> IF j > 40 THEN 1 ELSE FibNums[j]]
Z256 == [j \in 1..256 |-> 0]
ASSUME /\ TreeHeight(Z256, [j \in 1..256 |-> 1]) = 9
       /\ TreeHeight([j \in 1..256 |-> Fib[j] \div 65536], [j \in 1..256 |-> Fib[j] % 65536]) = 24      \* just fits
       /\ TreeHeight([j \in 1..256 |-> Fib[j] \div 65536], [j \in 1..256 |-> IF j > 40 THEN 0 ELSE Fib[j] % 65536]) > MaxCodeLen
       /\ TreeHeight(Z256, Z256) = 256
       /\ TreeHeight([j \in 1..256 |-> 40000], Z256) > MaxCodeLen

VARIABLES lvl, first
Init == lvl = 0 /\ first = -1
\* root -> 16 groups -> first bytes (so that the workers share the work)
Next == \/ lvl = 0 /\ lvl' = 1 /\ first' \in 0..15
        \/ lvl = 1 /\ lvl' = 2 /\ first' \in {b \in 0..255 : b % 16 = first}

Tails == UNION {[1..n -> Seconds] : n \in 0..(MaxLen - 1)}
Strs == CASE lvl = 0 -> {<<>>} [] lvl = 1 -> {} [] lvl = 2 -> {<<first>> \o t : t \in Tails}

IsPrefixSeq(a, b) == Len(a) <= Len(b) /\ SubSeq(b, 1, Len(a)) = a
Want(s, cap) == IF cap >= Len(s) THEN [r |-> "ok", out |-> s] ELSE [r |-> "capacity", out |-> <<>>]
Out(d) == IF d.r = "ok" THEN <<1, d.out>> ELSE <<0, <<>>>>
\* all laws for one string, as compressor input and as decompressor input; the decodings are
\* evaluated once and reused for the exported test vector
Row(s) ==
  LET e  == Encode(T, s)
      eb == EncodeRefCompat(T, s)
      ds0 == [cap \in 1..(MaxCap + 1) |-> Decode(Dec, ZS, s, cap - 1)] \o <<>>     \* (explicit tuple: each decoding once)
      ds == [cap \in 0..MaxCap |-> ds0[cap + 1]]
  IN [ok |->
        (* compressor: exact predicted length, reference form = compact form (+ one zero byte iff the
           bit stream is a multiple of 8), both forms decode to s iff the capacity suffices *)
        /\ Len(e) = CompressedLen(T, s) /\ Len(eb) = CompressedLenBug(T, s)
        /\ Len(eb) \in {Len(e), Len(e) + 1} /\ IsPrefixSeq(e, eb) /\ (Len(eb) > Len(e) => eb[Len(eb)] = 0)
        /\ (Len(eb) > Len(e)) <=> (BitLen(T, s) % 8 = 0)
        /\ \A cap \in 0..(Len(s) + 1) : Decode(Dec, ZS, e, cap) = Want(s, cap) /\ Decode(Dec, ZS, eb, cap) = Want(s, cap)
        /\ Decode(Dec, ZS, e, VecCap(e)) = [r |-> "ok", out |-> s]     \* the allocating API's capacity always suffices
        (* decompressor on s as an arbitrary input: total, bounded, closed form = "endless zeros",
           consistent with the encoder, monotone in the capacity *)
        /\ \A cap \in 0..MaxCap : LET d == ds[cap] IN
              /\ d.r \in {"ok", "capacity"} /\ Len(d.out) <= cap
              /\ cap \in {0, MaxCap} => d = DecodeNaive(Dec, s, cap)
              /\ d.r = "ok" => IsPrefixSeq(StreamBits(T, d.out), Unpack(s) \o ZeroBits(MaxCodeLen * (cap + 2)))
              /\ (d.r = "ok" /\ cap < MaxCap) => ds[cap + 1] = d
              /\ (d.r = "capacity" /\ cap > 0) => ds[cap - 1].r = "capacity"
              \* CapLaw: the result at capacity cap is the result at a larger capacity if that fits
              /\ d = (IF ds[MaxCap].r = "ok" /\ Len(ds[MaxCap].out) <= cap THEN ds[MaxCap]
                      ELSE [r |-> "capacity", out |-> <<>>]),
      vec |-> <<s, e, eb, [c \in 1..(MaxCap + 1) |-> Out(ds[c - 1])]>>]

Inv == LET rows == [s \in Strs |-> Row(s)] IN
       /\ \A s \in Strs : rows[s].ok
       /\ (EXPORT /\ Strs # {}) => PrintT("@H " \o ToString({rows[s].vec : s \in Strs}))
=============================================================================
