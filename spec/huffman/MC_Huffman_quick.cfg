\* documented table: all strings <<b1>> and <<b1, b2>> with b2 from 8 values, capacities 0..3; exported
CONSTANTS MaxLen = 2  MaxCap = 3  Table = "doc"  EXPORT = TRUE
          Seconds = {0, 1, 2, 7, 64, 128, 200, 255}
INIT Init
NEXT Next
INVARIANT Inv
