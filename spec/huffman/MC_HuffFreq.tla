------------------------------ MODULE MC_HuffFreq ------------------------------
(* C07, tables built from frequency vectors: a SYSTEMATIC family of structured vectors (all equal; one
   dominant byte -> code word `1`; one byte that is the lighter child of the root -> code word `0`; 00 / ff
   as rare as or rarer than EOF -> longest code words; geometric and Fibonacci heads up to and beyond the
   24-bit limit of known finding F2; zeros at the start / at the end; sums that saturate at u32::MAX;
   all zero = EOF the most frequent symbol; ties between neighbours at every position; ties between leaves
   and merged nodes everywhere).  For every vector TLC constructs the code the way from_frequencies does
   (Huffman!Build, tie-breaking included) and checks: the height agrees with TreeHeight; if it is at most
   24 the code is a complete prefix code of that maximal length, a more frequent byte never has a longer
   code word (unless sums saturate), the byte the vector is about has the predicted extreme code word, and
   the codec laws (exact lengths, both forms decode at capacity >= n and fail below, every truncation of
   the stream decodes totally, bounded, like the naive "endless zeros" decoder) hold for a set of short
   inputs.  With EXPORT = TRUE the vector, the height, the code and the expected compressed forms /
   decodings are printed: the harness builds the table with the real from_frequencies (a panic is expected
   exactly for height > 24), compares repr() with the predicted code and replays the vectors. *)
EXTENDS Huffman, TLC
CONSTANTS TiePositions, Sel, EXPORT
VARIABLES lvl, idx
vars == <<lvl, idx>>

Const(c) == [j \in 1..256 |-> c]
Base == [j \in 1..256 |-> 1000 + 10 * j]
Hi(f) == [j \in 1..256 |-> f[j] \div 65536] \o <<>>
Lo(f) == [j \in 1..256 |-> f[j] % 65536] \o <<>>
VL(name, hi, lo, s, want) == [name |-> name, hi |-> hi, lo |-> lo, sym |-> s, want |-> want]
V(name, f) == VL(name, Hi(f), Lo(f), -1, <<>>)
VS(name, f, s, want) == VL(name, Hi(f), Lo(f), s, want)          \* byte s must get the code word `want`
FibNums == <<1, 1, 2, 3, 5, 8, 13, 21, 34, 55, 89, 144, 233, 377, 610, 987, 1597, 2584, 4181, 6765, 10946, 17711,
            28657, 46368, 75025, 121393, 196418, 317811, 514229, 832040, 1346269, 2178309, 3524578, 5702887,
            9227465, 14930352, 24157817, 39088169, 63245986, 102334155>>
Syms == <<0, 255, 97>>
Fam ==
     [k \in 1..4 |-> V("equal", Const(<<1, 2, 1000, 65536>>[k]))]
  \o [k \in 1..3 |-> VS("dominant", [Const(4) EXCEPT ![Syms[k] + 1] = 1073741824], Syms[k], <<1>>)]
  \o [k \in 1..3 |-> VS("lighter-half", [Const(100) EXCEPT ![Syms[k] + 1] = 15000], Syms[k], <<0>>)]
  \o [k \in 1..2 |-> V("rarer-than-eof", [Base EXCEPT ![Syms[k] + 1] = 0])]
  \o [k \in 1..2 |-> V("as-rare-as-eof", [Base EXCEPT ![Syms[k] + 1] = 1])]
  \o [k \in 1..2 |-> V("geometric", [j \in 1..256 |-> IF j <= <<8, 14>>[k] THEN 512 * Pow2(j - 1) ELSE 1])]
  \o [k \in 1..4 |-> V("fibonacci", [j \in 1..256 |-> IF j <= <<30, 36, 38, 40>>[k] THEN FibNums[j] ELSE 1])]
  \o [k \in 1..2 |-> V("fibonacci-shifted", [j \in 1..256 |-> IF j <= <<38, 39>>[k] THEN FibNums[j + 1] ELSE 1])]
  \o [k \in 1..6 |-> V("zeros-first", [j \in 1..256 |-> IF j <= <<1, 3, 14, 15, 16, 24>>[k] THEN 0 ELSE 1000 + 10 * j])]
  \o [k \in 1..4 |-> V("zeros-last", [j \in 1..256 |-> IF j > 256 - <<2, 8, 22, 24>>[k] THEN 0 ELSE 1000 + 10 * j])]
  \o <<V("all-zero", Const(0)),
       VL("saturated-all", Const(65535), Const(65535), -1, <<>>),
       VL("saturated-root", [Const(0) EXCEPT ![1] = 32768, ![256] = 32768], Const(1) , -1, <<>>),
       VL("saturated-sixteen", [j \in 1..256 |-> IF j <= 16 THEN 32768 ELSE 0], [j \in 1..256 |-> IF j <= 16 THEN 0 ELSE 1], -1, <<>>),
       V("ties-leaves-and-sums", [j \in 1..256 |-> Pow2((j - 1) \div 16)])>>
  \o [k \in 1..Cardinality(TiePositions) |-> LET p == SetToSeq(TiePositions)[k] IN V("tie", [Base EXCEPT ![p + 2] = Base[p + 1]])]
N == Len(Fam)
Chosen == IF Sel = {} THEN 1..N ELSE {i \in 1..N : i % 2 = 1 \/ Fam[i].name \in Sel}

Init == lvl = 0 /\ idx = 0
Next == \/ lvl = 0 /\ lvl' = 1 /\ idx' \in 0..7
        \/ lvl = 1 /\ lvl' = 2 /\ idx' \in {i \in Chosen : i % 8 = idx}

Want(s, cap) == IF cap >= Len(s) THEN [r |-> "ok", out |-> s] ELSE [r |-> "capacity", out |-> <<>>]
Out(d) == IF d.r = "ok" THEN <<1, d.out>> ELSE <<0, <<>>>>
Inputs == <<<<>>, <<0>>, <<255>>, <<0, 0>>, <<255, 0, 97>>, <<0, 0, 0, 0, 0, 0, 0, 0, 0>>, <<255, 255, 255, 255, 255, 255, 255, 255>>>>
RowT(T, Dec, ZS, s) ==
  LET e == Encode(T, s)
      eb == EncodeRefCompat(T, s)
      n == Len(s)
      tr == [k \in 1..(Len(e) + 1) |-> Decode(Dec, ZS, SubSeq(e, 1, k - 1), n + 1)] \o <<>>
  IN [ok |-> /\ Len(e) = CompressedLen(T, s) /\ Len(eb) = CompressedLenBug(T, s)
             /\ Len(eb) \in {Len(e), Len(e) + 1} /\ ((Len(eb) > Len(e)) <=> (BitLen(T, s) % 8 = 0))
             /\ \A cap \in 0..(n + 1) : Decode(Dec, ZS, e, cap) = Want(s, cap) /\ Decode(Dec, ZS, eb, cap) = Want(s, cap)
             /\ \A k \in 1..Len(tr) : /\ tr[k].r \in {"ok", "capacity"} /\ Len(tr[k].out) <= n + 1
                                      /\ n <= 3 => tr[k] = DecodeNaive(Dec, SubSeq(e, 1, k - 1), n + 1),
      vec |-> <<s, e, eb, [k \in 1..Len(tr) |-> Out(tr[k])]>>]

MaxLenOf(T) == FoldLeft(LAMBDA m, c : IF Len(c) > m THEN Len(c) ELSE m, 0, T)
Inv == lvl = 2 =>
  LET v == Fam[idx]
      b == Build(v.hi, v.lo)
      deep == TooDeep(b.h)
      T == b.code
      Dec == Tree(T)
      ZS == ZeroSym(T)
      rows == IF deep THEN <<>> ELSE [k \in 1..Len(Inputs) |-> RowT(T, Dec, ZS, Inputs[k])] \o <<>>
  IN /\ WellFormedFreqs(v.hi, v.lo)
     /\ b.h = TreeHeight(v.hi, v.lo)
     /\ ~deep => /\ ValidCode(T) /\ MaxLenOf(T) = b.h
                 /\ NoSaturation(v.hi, v.lo) => CodeMonotone(T, v.hi, v.lo)
                 /\ v.sym >= 0 => T[v.sym + 1] = v.want
                 /\ \A k \in 1..Len(rows) : rows[k].ok
     /\ EXPORT => PrintT("@F " \o ToString(<<v.name, v.hi, v.lo, b.h, IF deep THEN <<>> ELSE T, [k \in 1..Len(rows) |-> rows[k].vec]>>))
=============================================================================
