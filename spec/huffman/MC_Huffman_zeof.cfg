\* hand-made complete code whose EOF word is all zeros (model only: the library cannot load a table directly)
CONSTANTS MaxLen = 2  MaxCap = 3  Table = "zeof"  EXPORT = FALSE
          Seconds = {0, 1, 17, 128, 255}
INIT Init
NEXT Next
INVARIANT Inv
