SPECIFICATION TraceSpec
INVARIANTS RoundTrip HeaderSame TickSync SizeRule
POSTCONDITION TraceAccepted
CHECK_DEADLOCK FALSE
