SPECIFICATION Spec
CONSTANTS
  Versions = {3, 4, 5, 6}
  HdrVariants = {1, 2, 3, 4, 5, 6}
  SeqIds = {1, 2, 3, 4, 5, 6, 7, 8, 9, 10, 11, 12, 13, 14, 15, 16, 17, 18}
  MutSeqs = {2, 3, 4, 5, 6, 11, 12, 14}
  BigMap = TRUE
INVARIANTS ValidReadsBack PrefixLaw TruncLaw HeaderTruncLaw Total ExportCase
CHECK_DEADLOCK FALSE
