SPECIFICATION TraceSpec
INVARIANTS SameObjects ReaderInSync TicksIncrease NonNegative DeltaNearKeyframe
PROPERTIES RefusedInert
POSTCONDITION TraceAccepted
CHECK_DEADLOCK FALSE
