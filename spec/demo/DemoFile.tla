------------------------------ MODULE DemoFile ------------------------------
(***************************************************************************)
(* C15, file level -- a demo file as a sequence of bytes, for all versions *)
(* the reader accepts (3, 4, 5 and 6 = DDNet), transcribed from            *)
(* doc/demo.md:                                                            *)
(*                                                                         *)
(*   version_header [8]  "TWDEMO\0", version                               *)
(*   header [168]        net_version[64] map_name[64] map_size[4]          *)
(*                       map_crc[4] type[8] length[4] timestamp[20]        *)
(*   timeline markers [260]   (versions >= 4) count[4], 64 x marker[4]     *)
(*   map sha256 [48]     (version 6) extension uuid[16], sha256[32]        *)
(*   map [map_size], then chunks until the end of the file.                *)
(*                                                                         *)
(* `FileBytes` lays a recording out as bytes (the writer of the format:    *)
(* versions 5/6 as libtw2's Writer does, versions 3/4 with the 6-bit tick  *)
(* delta of the legacy format).  `ReadFile` is the reader of the format as *)
(* a function from *arbitrary* byte sequences to what a reader reports:    *)
(* header fields, warnings, the chunks in order and how reading ends (end  *)
(* of file or an error).  It is total: truncated and corrupted files have  *)
(* an answer too.                                                          *)
(*                                                                         *)
(* Payload compression (Huffman, variable-length integers) is C07/C08's    *)
(* subject.  Here the meaning of a compressed payload is given by a        *)
(* library `lib`: a set of [comp, hok, raw, mok, msg, mw] (compressed      *)
(* bytes; whether they are a valid compression; what they decompress to;   *)
(* for messages the outcome of the integer unpacking, the 4-byte groups    *)
(* and the unpacker's warnings).  Payload bytes that are not in the        *)
(* library (corrupted ones) may decode to anything or fail: `AnyData`.         *)
(***************************************************************************)
EXTENDS Integers, Sequences, FiniteSets, TLC

MaxInt == 2147483647
MinInt == -2147483647 - 1

\* big-endian bytes of a signed 32-bit integer (TLC integers are 32-bit: no 2^32)
BE32(t) == LET u == IF t >= 0 THEN t ELSE (t + MaxInt) + 1
               top == (u \div 16777216) + (IF t >= 0 THEN 0 ELSE 128)
           IN <<top, (u \div 65536) % 256, (u \div 256) % 256, u % 256>>
FromBE32(b) == LET neg == b[1] >= 128
                   u == ((b[1] % 128) * 16777216) + (b[2] * 65536) + (b[3] * 256) + b[4]
               IN IF neg THEN (u - MaxInt) - 1 ELSE u

Zeros(n) == [i \in 1..n |-> 0]
Field(s, n) == s \o Zeros(n - Len(s))
SetMin(S) == CHOOSE x \in S : \A y \in S : x <= y

Magic == <<84, 87, 68, 69, 77, 79, 0>>                       \* "TWDEMO\0"
KindField(k) == IF k = "client" THEN <<99, 108, 105, 101, 110, 116, 0, 0>>
                                ELSE <<115, 101, 114, 118, 101, 114, 0, 0>>
ShaUuid == <<107, 230, 218, 74, 206, 189, 56, 12, 155, 91, 18, 137, 200, 66, 215, 128>>

-----------------------------------------------------------------------------
(* Layout.  A header H is                                                    *)
(*   [version, nv, mn, ts : byte strings (raw field contents, shorter than   *)
(*    the field or exactly filling it), crc : 4 bytes, kind, length,         *)
(*    nmark, marks : 64 integers, sha : 32 bytes, map : bytes]               *)

MarkBytes(m) == [i \in 1..256 |-> BE32(m[((i - 1) \div 4) + 1])[((i - 1) % 4) + 1]]

HeaderBytes(H) ==
  Magic \o <<H.version>> \o Field(H.nv, 64) \o Field(H.mn, 64) \o BE32(Len(H.map)) \o H.crc
    \o KindField(H.kind) \o BE32(H.length) \o Field(H.ts, 20)
    \o (IF H.version >= 4 THEN BE32(H.nmark) \o MarkBytes(H.marks) ELSE <<>>)
    \o (IF H.version = 6 THEN ShaUuid \o H.sha ELSE <<>>)
    \o H.map

HeaderLen(version, maplen) == 176 + (IF version >= 4 THEN 260 ELSE 0) + (IF version = 6 THEN 48 ELSE 0) + maplen

KindBits(k) == CASE k = "snapshot" -> 1 [] k = "message" -> 2 [] k = "delta" -> 3 [] OTHER -> 0
KindOf(b) == CASE b = 1 -> "snapshot" [] b = 2 -> "message" [] b = 3 -> "delta" [] OTHER -> "unknown"

NoTick == [has |-> FALSE, t |-> 0]
Some(t) == [has |-> TRUE, t |-> t]

\* largest tick difference a one-byte tick marker can carry
MaxDelta(version) == IF version >= 5 THEN 31 ELSE 63
\* enc: 0 (the short form whenever the format allows it), 1 (absolute, forced) or 2 (one byte, forced)
TickBytes(version, prev, t, kf, enc) ==
  LET short == IF enc = 0 THEN prev.has /\ ~kf /\ t - prev.t >= 1 /\ t - prev.t <= MaxDelta(version)
               ELSE enc = 2
      d == (t - prev.t) % (MaxDelta(version) + 1)
  IN IF short
     THEN <<128 + (IF kf THEN 64 ELSE 0) + (IF version >= 5 THEN 32 ELSE 0) + d>>
     ELSE <<128 + (IF kf THEN 64 ELSE 0)>> \o BE32(t)

\* enc: 0 (shortest), 1, 2, 3 (forced number of header bytes)
DataHdr(k, size, enc) ==
  LET e == IF enc # 0 THEN enc ELSE IF size < 30 THEN 1 ELSE IF size <= 255 THEN 2 ELSE 3
  IN CASE e = 1 -> <<KindBits(k) * 32 + size>>
       [] e = 2 -> <<KindBits(k) * 32 + 30, size>>
       [] OTHER -> <<KindBits(k) * 32 + 31, size % 256, size \div 256>>

\* A chunk c is [k, t, kf, enc, comp]: k = "tick" (t, kf, enc), a data kind (comp : compressed payload, enc) or
\* "raw" (comp : bytes put into the file as they are)
RECURSIVE ChunksBytes(_, _, _)
ChunksBytes(version, prev, cs) ==
  IF cs = <<>> THEN <<>>
  ELSE LET c == Head(cs) IN
       IF c.k = "tick"
       THEN TickBytes(version, prev, c.t, c.kf, c.enc) \o ChunksBytes(version, Some(c.t), Tail(cs))
       ELSE IF c.k = "raw" THEN c.comp \o ChunksBytes(version, prev, Tail(cs))
       ELSE DataHdr(c.k, Len(c.comp), c.enc) \o c.comp \o ChunksBytes(version, prev, Tail(cs))

FileBytes(H, cs) == HeaderBytes(H) \o ChunksBytes(H.version, NoTick, cs)

\* byte offset (0-based) at which chunk i starts, for i in 1..Len(cs)+1
ChunkOffset(H, cs, i) == Len(HeaderBytes(H)) + Len(ChunksBytes(H.version, NoTick, SubSeq(cs, 1, i - 1)))

-----------------------------------------------------------------------------
(* The reader.                                                               *)

Bytes(f, off, n) == SubSeq(f, off + 1, off + n)
CStr(b) == LET z == {i \in 1..Len(b) : b[i] = 0} IN IF z = {} THEN b ELSE SubSeq(b, 1, SetMin(z) - 1)
WeirdPad(b) == LET z == {i \in 1..Len(b) : b[i] = 0} IN z # {} /\ \E i \in SetMin(z)..Len(b) : b[i] # 0

NoHeader == [version |-> 0]
HErr(c) == [ok |-> FALSE, err |-> c, off |-> 0, w |-> {}, h |-> NoHeader]

\* Fields are read in file order; the first one that is cut off ("eof") or breaks a rule of the format ("bad") ends
\* the reading.  Rules: magic, version 3..6, map_size >= 0, type "client" / "server", length >= 0, 0 <= number of
\* timeline markers <= 64, the sha256 extension uuid.
ReadHeader(f) ==
  LET n == Len(f) IN
  IF n < 7 THEN HErr("eof")
  ELSE IF Bytes(f, 0, 7) # Magic THEN HErr("bad")
  ELSE IF n < 8 THEN HErr("eof")
  ELSE LET v == f[8] IN
  IF v \notin 3..6 THEN HErr("bad")
  ELSE IF n < 140 THEN HErr("eof")
  ELSE LET mapsize == FromBE32(Bytes(f, 136, 4)) IN
  IF mapsize < 0 THEN HErr("bad")
  ELSE IF n < 144 THEN HErr("eof")
  \* (a file cut inside the type field is reported as "no variant matched", not as cut off: error class as observed)
  ELSE IF n < 152 THEN HErr("bad")
  ELSE LET kb == Bytes(f, 144, 8) IN
  IF kb # KindField("client") /\ kb # KindField("server") THEN HErr("bad")
  ELSE IF n < 156 THEN HErr("eof")
  ELSE LET length == FromBE32(Bytes(f, 152, 4)) IN
  IF length < 0 THEN HErr("bad")
  ELSE IF n < 176 THEN HErr("eof")
  ELSE IF v >= 4 /\ n < 180 THEN HErr("eof")
  ELSE LET nmark == IF v >= 4 THEN FromBE32(Bytes(f, 176, 4)) ELSE 0 IN
  IF nmark < 0 \/ nmark > 64 THEN HErr("bad")
  ELSE IF v >= 4 /\ n < 436 THEN HErr("eof")
  ELSE LET o1 == IF v >= 4 THEN 436 ELSE 176 IN
  IF v = 6 /\ n < o1 + 16 THEN HErr("eof")
  ELSE IF v = 6 /\ Bytes(f, o1, 16) # ShaUuid THEN HErr("bad")
  ELSE IF v = 6 /\ n < o1 + 48 THEN HErr("eof")
  ELSE LET o2 == IF v = 6 THEN o1 + 48 ELSE o1 IN
  IF mapsize > n - o2 THEN HErr("eof")
  ELSE LET nvb == Bytes(f, 8, 64)
           mnb == Bytes(f, 72, 64)
           tsb == Bytes(f, 156, 20)
           marks == [i \in 1..64 |-> IF v >= 4 THEN FromBE32(Bytes(f, 180 + 4 * (i - 1), 4)) ELSE 0]
       IN [ok |-> TRUE, err |-> "none", off |-> o2 + mapsize,
           w |-> (IF WeirdPad(nvb) THEN {"WeirdNetVersion"} ELSE {})
                 \cup (IF WeirdPad(mnb) THEN {"WeirdMapName"} ELSE {})
                 \cup (IF WeirdPad(tsb) THEN {"WeirdTimestamp"} ELSE {})
                 \cup (IF \E i \in (nmark + 1)..64 : marks[i] # 0 THEN {"WeirdTimelineMarkerPadding"} ELSE {})
                 \* (the library reports markers that do not increase under this name)
                 \cup (IF \E i \in 1..(nmark - 1) : marks[i] >= marks[i + 1] THEN {"NonAbsoluteTickmarkerTick"} ELSE {}),
           h |-> [version |-> v, nv |-> CStr(nvb), mn |-> CStr(mnb), ts |-> CStr(tsb), mapsize |-> mapsize,
                  crc |-> Bytes(f, 140, 4), kind |-> IF kb = KindField("client") THEN "client" ELSE "server",
                  length |-> length, marks |-> SubSeq(marks, 1, nmark),
                  sha |-> IF v = 6 THEN Bytes(f, o1 + 16, 32) ELSE <<>>,
                  map |-> Bytes(f, o2, mapsize)]]

AnyData == <<-1>>    \* a payload the library does not know: any content, or a decoding error
LibOf(lib, comp) == {e \in lib : e.comp = comp}

\* what the reader makes of the payload bytes of a data chunk: [err, data, w]
Payload(lib, kind, comp) ==
  LET es == LibOf(lib, comp) IN
  IF es = {} THEN [err |-> "any", data |-> AnyData, w |-> {}]
  ELSE LET e == CHOOSE x \in es : TRUE IN
       IF ~e.hok THEN [err |-> "Huffman", data |-> <<>>, w |-> {}]
       ELSE IF kind # "message" THEN [err |-> "none", data |-> e.raw, w |-> {}]
       ELSE IF e.mok # "ok" THEN [err |-> e.mok, data |-> <<>>, w |-> e.mw]
       ELSE [err |-> "none", data |-> e.msg, w |-> e.mw]

\* One call of the reader at byte offset off (bytes consumed so far), current tick cur:
\*   [r |-> "end"]                           nothing left
\*   [r |-> "err", e, w]                     the call fails (warnings given before failing in w)
\*   [r |-> "ok", item, w, off, cur]         the chunk returned, warnings, new offset and tick
\* `SkipUnknown`: whether the payload of a chunk of unknown type is skipped (libtw2 does not skip it: FALSE).
ReadChunk(lib, f, off, version, cur, SkipUnknown) ==
  LET n == Len(f)
      Fail(e, w) == [r |-> "err", e |-> e, w |-> w]
  IN
  IF off >= n THEN [r |-> "end"]
  ELSE LET fl == f[off + 1] IN
  IF fl >= 128
  THEN LET kf == (fl \div 64) % 2 = 1
           inline == IF version >= 5 THEN (fl \div 32) % 2 = 1 ELSE fl % 64 # 0
           d == IF version >= 5 THEN fl % 32 ELSE fl % 64
           w == IF inline THEN (IF kf THEN {"NonAbsoluteTickmarkerTick"} ELSE {})
                ELSE (IF version >= 5 /\ fl % 32 # 0 THEN {"NonZeroTickmarkerPadding"} ELSE {})
       IN IF inline
          THEN IF ~cur.has THEN Fail("StartingDeltaSnapshot", w)
               ELSE IF cur.t > MaxInt - d THEN Fail("TickOverflow", w)
               ELSE [r |-> "ok", item |-> [k |-> "tick", t |-> cur.t + d, kf |-> kf, data |-> <<>>], w |-> w,
                     off |-> off + 1, cur |-> Some(cur.t + d)]
          ELSE IF n < off + 5 THEN Fail("eof", w)
               ELSE LET t == FromBE32(Bytes(f, off + 1, 4)) IN
                    IF cur.has /\ cur.t >= t THEN Fail("NotIncreasingTick", w)
                    ELSE [r |-> "ok", item |-> [k |-> "tick", t |-> t, kf |-> kf, data |-> <<>>], w |-> w,
                          off |-> off + 5, cur |-> Some(t)]
  ELSE LET kind == KindOf((fl \div 32) % 4)
           s == fl % 32
           hl == IF s = 30 THEN 2 ELSE IF s = 31 THEN 3 ELSE 1
           wk == IF kind = "unknown" THEN {"UnknownChunkType"} ELSE {}
       IN IF n < off + hl THEN Fail("eof", wk)
          ELSE LET size == IF s = 30 THEN f[off + 2] ELSE IF s = 31 THEN f[off + 2] + 256 * f[off + 3] ELSE s
                   ws == wk \cup (IF (s = 30 /\ size < 30) \/ (s = 31 /\ size < 255) THEN {"OverlongChunkSizeEncoding"} ELSE {})
               IN IF kind = "unknown"
                  THEN IF SkipUnknown /\ n < off + hl + size THEN Fail("eof", ws)
                       ELSE [r |-> "ok", item |-> [k |-> "unknown", t |-> 0, kf |-> FALSE, data |-> <<>>], w |-> ws,
                             off |-> off + hl + (IF SkipUnknown THEN size ELSE 0), cur |-> cur]
                  ELSE IF n < off + hl + size THEN Fail("eof", ws)
                  ELSE LET p == Payload(lib, kind, Bytes(f, off + hl, size)) IN
                       IF p.err \notin {"none", "any"} THEN Fail(p.err, ws \cup p.w)
                       ELSE [r |-> "ok", item |-> [k |-> kind, t |-> 0, kf |-> FALSE, data |-> p.data], w |-> ws \cup p.w,
                             off |-> off + hl + size, cur |-> cur]

\* all calls until the end or the first error: [items (each with its warnings), end]
RECURSIVE ReadChunks(_, _, _, _, _, _)
ReadChunks(lib, f, off, version, cur, su) ==
  LET c == ReadChunk(lib, f, off, version, cur, su) IN
  IF c.r = "end" THEN [items |-> <<>>, end |-> [r |-> "end", e |-> "none", w |-> {}]]
  ELSE IF c.r = "err" THEN [items |-> <<>>, end |-> [r |-> "err", e |-> c.e, w |-> c.w]]
  ELSE LET rest == ReadChunks(lib, f, c.off, version, c.cur, su)
       IN [items |-> <<[k |-> c.item.k, t |-> c.item.t, kf |-> c.item.kf, data |-> c.item.data, w |-> c.w]>> \o rest.items,
           end |-> rest.end]

ReadFile(lib, f, su) ==
  LET hd == ReadHeader(f) IN
  IF ~hd.ok THEN [hdr |-> hd, items |-> <<>>, end |-> [r |-> "nohdr", e |-> hd.err, w |-> {}]]
  ELSE LET c == ReadChunks(lib, f, hd.off, hd.h.version, NoTick, su) IN [hdr |-> hd, items |-> c.items, end |-> c.end]

-----------------------------------------------------------------------------
(* What was written, as the reader must report it (C15): ticks with their    *)
(* key-frame flag, payloads as the library says, no warnings.                *)
WrittenItem(lib, c) ==
  IF c.k = "tick" THEN [k |-> "tick", t |-> c.t, kf |-> c.kf, data |-> <<>>, w |-> {}]
  ELSE LET p == Payload(lib, c.k, c.comp) IN [k |-> c.k, t |-> 0, kf |-> FALSE, data |-> p.data, w |-> {}]
Written(lib, cs) == [i \in 1..Len(cs) |-> WrittenItem(lib, cs[i])]

\* the header fields as the reader must report them
HeaderFields(H) ==
  [version |-> H.version, nv |-> CStr(Field(H.nv, 64)), mn |-> CStr(Field(H.mn, 64)), ts |-> CStr(Field(H.ts, 20)),
   mapsize |-> Len(H.map), crc |-> H.crc, kind |-> H.kind, length |-> H.length,
   marks |-> IF H.version >= 4 THEN SubSeq(H.marks, 1, H.nmark) ELSE <<>>,
   sha |-> IF H.version = 6 THEN H.sha ELSE <<>>, map |-> H.map]

IsPrefix(s, t) == Len(s) <= Len(t) /\ \A i \in 1..Len(s) : s[i] = t[i]
=============================================================================
