------------------------------ MODULE DemoLib ------------------------------
(***************************************************************************)
(* The payload library of the file-level cases of C15 (DemoFile.tla):      *)
(* compressed payloads as they stand in a file, with their meaning under   *)
(* the Teeworlds Huffman code (a constant of the format) and, for          *)
(* messages, under the variable-length integer packing.  Generated with    *)
(* `vh-demo lib` from the huffman / packer crates (not the demo crate);    *)
(* C07 / C08 are the properties about those.                               *)
(*   s0 empty payload; s1 / s2 an empty snapshot / empty delta; s3 a small *)
(*   snapshot; s29 / s30 compressed sizes on both sides of the one-byte    *)
(*   size field; m0..m4 messages of 0, 1, 6, 7, 8 bytes; mw a message with *)
(*   an overlong integer (warning); mt a message cut inside an integer;    *)
(*   x1..x4 byte strings that are not a valid compression.                 *)
(***************************************************************************)
EXTENDS Integers, Sequences

L == [
  s0 |-> [comp |-> <<138, 27>>, hok |-> TRUE,
          raw |-> <<>>, mok |-> "ok",
          msg |-> <<>>, mw |-> {}],
  s1 |-> [comp |-> <<43, 110, 0>>, hok |-> TRUE,
          raw |-> <<0, 0>>, mok |-> "ok",
          msg |-> <<0, 0, 0, 0, 0, 0, 0, 0>>, mw |-> {}],
  s2 |-> [comp |-> <<87, 220, 0>>, hok |-> TRUE,
          raw |-> <<0, 0, 0>>, mok |-> "ok",
          msg |-> <<0, 0, 0, 0, 0, 0, 0, 0, 0, 0, 0, 0>>, mw |-> {}],
  s3 |-> [comp |-> <<30, 214, 163, 176, 80, 220, 0>>, hok |-> TRUE,
          raw |-> <<4, 1, 0, 10, 1, 2, 3>>, mok |-> "ok",
          msg |-> <<4, 0, 0, 0, 1, 0, 0, 0, 0, 0, 0, 0, 10, 0, 0, 0, 1, 0, 0, 0, 2, 0, 0, 0, 3, 0, 0, 0>>, mw |-> {}],
  s29 |-> [comp |-> <<26, 53, 168, 107, 129, 66, 136, 174, 169, 228, 99, 197, 71, 223, 100, 209, 57, 234, 109, 251, 112, 46, 172, 105, 64, 41, 189, 226, 6>>, hok |-> TRUE,
          raw |-> <<132, 220, 105, 212, 24, 197, 74, 157, 204, 1, 21, 39, 103, 171, 164, 60, 18, 176, 213, 58, 14>>, mok |-> "ok",
          msg |-> <<4, 55, 13, 0, 235, 249, 255, 255, 122, 237, 255, 255, 29, 51, 0, 0, 21, 0, 0, 0, 39, 0, 0, 0, 216, 255, 255, 255, 43, 137, 7, 0, 18, 0, 0, 0, 112, 85, 7, 0, 14, 0, 0, 0>>, mw |-> {}],
  s30 |-> [comp |-> <<182, 76, 151, 154, 43, 225, 218, 169, 150, 5, 219, 215, 57, 134, 234, 84, 241, 182, 5, 192, 203, 22, 169, 160, 135, 2, 170, 82, 220, 0>>, hok |-> TRUE,
          raw |-> <<195, 190, 174, 108, 110, 125, 146, 83, 230, 246, 222, 19, 65, 201, 128, 188, 111, 154, 14, 229, 239>>, mok |-> "MessageVarIntUnexpectedEnd",
          msg |-> <<>>, mw |-> {}],
  m0 |-> [comp |-> <<138, 27>>, hok |-> TRUE,
          raw |-> <<>>, mok |-> "ok",
          msg |-> <<>>, mw |-> {}],
  m1 |-> [comp |-> <<110, 138, 27>>, hok |-> TRUE,
          raw |-> <<7>>, mok |-> "ok",
          msg |-> <<7, 0, 0, 0>>, mw |-> {}],
  m2 |-> [comp |-> <<126, 106, 161, 169, 228, 30, 136, 226, 6>>, hok |-> TRUE,
          raw |-> <<129, 136, 152, 64, 133, 24>>, mok |-> "ok",
          msg |-> <<1, 2, 3, 4, 5, 6, 0, 0>>, mw |-> {}],
  m3 |-> [comp |-> <<90, 220, 124, 100, 155, 47, 197, 13>>, hok |-> TRUE,
          raw |-> <<136, 7, 137, 164, 72>>, mok |-> "ok",
          msg |-> <<200, 1, 0, 0, 9, 9, 9, 0>>, mw |-> {}],
  m4 |-> [comp |-> <<74, 26, 44, 41, 41, 233, 78, 113, 3>>, hok |-> TRUE,
          raw |-> <<64, 254, 255, 255, 255, 15>>, mok |-> "ok",
          msg |-> <<255, 255, 255, 255, 1, 0, 0, 128>>, mw |-> {}],
  mw |-> [comp |-> <<160, 93, 113, 3>>, hok |-> TRUE,
          raw |-> <<128, 0, 5>>, mok |-> "ok",
          msg |-> <<0, 0, 0, 0, 5, 0, 0, 0>>, mw |-> {"Message(OverlongIntEncoding)"}],
  mt |-> [comp |-> <<118, 93, 87, 220, 0>>, hok |-> TRUE,
          raw |-> <<5, 192>>, mok |-> "MessageVarIntUnexpectedEnd",
          msg |-> <<>>, mw |-> {}],
  x1 |-> [comp |-> <<>>, hok |-> FALSE,
          raw |-> <<>>, mok |-> "ok",
          msg |-> <<>>, mw |-> {}],
  x2 |-> [comp |-> <<255>>, hok |-> FALSE,
          raw |-> <<>>, mok |-> "ok",
          msg |-> <<>>, mw |-> {}],
  x3 |-> [comp |-> <<0>>, hok |-> FALSE,
          raw |-> <<>>, mok |-> "ok",
          msg |-> <<>>, mw |-> {}],
  x4 |-> [comp |-> <<255, 255, 255, 255>>, hok |-> FALSE,
          raw |-> <<>>, mok |-> "ok",
          msg |-> <<>>, mw |-> {}]]


Lib == {L[n] : n \in DOMAIN L}
=============================================================================
