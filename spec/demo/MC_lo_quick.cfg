SPECIFICATION Spec
CONSTANTS
  MaxChunks = 3
  Headers = {1, 2, 3, 4}
  StartTicks = {0, 7}
  Gaps = {1, 31, 32, 250, 251}
  SnapSizes = {2, 29, 30, 255, 256}
  MsgCodes = {8, 117, 120, 1022, 1027}
INVARIANTS RoundTrip HeaderSame TickSync MarkerRule SizeRule
PROPERTIES StepRoundTrip HeaderStep
CHECK_DEADLOCK FALSE
