--------------------------- MODULE DemoFileTrace ---------------------------
(***************************************************************************)
(* C15, file level, the judge.  Every line of the trace is one event       *)
(* recorded from the real code:                                            *)
(*   act [a |-> "file", bytes, src, lib]   out: what Reader / DemoReader   *)
(*        returned for these bytes read through this source                *)
(*   act [a |-> "write", H, cs, ...]       out: the bytes the real Writer  *)
(*        produced for this recording                                      *)
(* The expectation is computed here, by `ReadFile` / `FileBytes` of        *)
(* DemoFile.tla.  All events are judged (the judge does not stop at the    *)
(* first deviation); for each deviating event one line                     *)
(*   <<"VERDICT", event number, class, what>>                              *)
(* is printed, class "violation" (a panic or a hang; or the part of the    *)
(* file that is a recording as the writer produces it -- versions 5 / 6,   *)
(* no warnings -- is not played back as written: that is C15) or "drift"   *)
(* (the deviation concerns legacy versions, malformed parts or the error   *)
(* class only: outside the text of C15).                                   *)
(***************************************************************************)
EXTENDS DemoFile, DemoLib, Json, IOUtils, TLCExt

Rec == ndJsonDeserialize(IOEnv.TRACE)
VARIABLE l
SeqToSet(s) == {s[i] : i \in 1..Len(s)}

LibOfAct(a) ==
  Lib \cup (IF "lib" \in DOMAIN a
            THEN {[comp |-> e.comp, hok |-> e.hok, raw |-> e.raw, mok |-> e.mok, msg |-> e.msg, mw |-> SeqToSet(e.mw)] : e \in SeqToSet(a.lib)}
            ELSE {})

DecodeErrors == {"Huffman", "MessageVarIntUnexpectedEnd", "MessageVarIntTooLong"}

HdrMatch(e, o) ==
  /\ e.hdr.ok = o.hdr.ok /\ e.hdr.err = o.hdr.err
  /\ e.hdr.ok => (e.hdr.off = o.hdr.off /\ e.hdr.w = SeqToSet(o.hdr.w) /\ e.hdr.h = o.hdr.h /\ o.hdr.io = FALSE)
  \* ReadError::io_error() tells the caller whether the failure was one of the byte source.  For a header that is cut
  \* off it does not (binrw wraps the end-of-file error of a struct field into a backtrace, io_error() only looks at
  \* the outermost error): recorded as observed, outside C15
  /\ ~e.hdr.ok => o.hdr.io = FALSE
ItemMatch(ei, oi) ==
  /\ ei.k = oi.k /\ ei.t = oi.t /\ ei.kf = oi.kf
  /\ IF ei.data = AnyData THEN ei.w \subseteq SeqToSet(oi.w) ELSE (ei.data = oi.data /\ ei.w = SeqToSet(oi.w))
EndMatch(ee, oe) == ee.r = oe.r /\ ee.e = oe.e /\ ee.w = SeqToSet(oe.w) /\ oe.io = (ee.r = "err" /\ ee.e = "eof")

\* index of the first item on which expectation and observation differ (Len + 1: they differ in how reading ends;
\* 0: they do not differ)
FirstDiff(e, o) ==
  LET n == IF Len(e.items) <= Len(o.items) THEN Len(e.items) ELSE Len(o.items)
      bad == {i \in 1..n : ~ItemMatch(e.items[i], o.items[i])}
  IN IF bad # {} THEN SetMin(bad)
     ELSE IF Len(o.items) < Len(e.items)
          THEN \* shorter: fine iff a payload the library does not know failed to decode there
               IF e.items[n + 1].data = AnyData /\ o.end.r = "err" /\ o.end.e \in DecodeErrors THEN 0 ELSE n + 1
     ELSE IF Len(o.items) > Len(e.items) THEN n + 1
     ELSE IF EndMatch(e.end, o.end) THEN 0 ELSE n + 1

\* the header is one libtw2's Writer produces
WriterHeader(e) ==
  /\ e.hdr.ok /\ e.hdr.h.version \in {5, 6} /\ e.hdr.w = {} /\ e.hdr.h.marks = <<>>
  /\ Len(e.hdr.h.nv) < 64 /\ Len(e.hdr.h.mn) < 64 /\ Len(e.hdr.h.ts) < 20
\* item i of the expectation is a chunk as the writer produces it
CleanItem(it) == it.w = {} /\ it.data # AnyData /\ it.k # "unknown"

FileVerdict(a, o) ==
  LET e == ReadFile(LibOfAct(a), a.bytes, FALSE) IN
  IF o.r # "ok" THEN <<"violation", o.r>>
  ELSE IF o.typed = "panic" THEN <<"violation", "typed reader panics">>
  ELSE IF o.typed = "hang" THEN <<"violation", "typed reader hangs">>
  ELSE IF ~HdrMatch(e, o)
       THEN IF WriterHeader(e) THEN <<"violation", "header">> ELSE <<"drift", "header">>
  ELSE LET d == FirstDiff(e, o) IN
       IF d = 0 THEN <<"ok", "">>
       ELSE IF WriterHeader(e) /\ \A i \in 1..(d - 1) : CleanItem(e.items[i])
            THEN IF d <= Len(e.items)
                 THEN IF CleanItem(e.items[d]) THEN <<"violation", "chunk not played back as written">> ELSE <<"drift", "malformed chunk">>
                 ELSE IF e.end.r = "end" THEN <<"violation", "end of the recording">> ELSE <<"drift", "how reading ends">>
            ELSE <<"drift", "after a malformed part or legacy version">>

\* the real writer's bytes against the layout of the format
CsOf(a) == a.cs
WriteVerdict(a, o) ==
  IF o.r # "ok" THEN <<"violation", o.r>>
  ELSE IF o.bytes = FileBytes(a.H, CsOf(a)) THEN <<"ok", "">>
  ELSE LET r == ReadFile(LibOfAct(a), o.bytes, FALSE) IN
       IF /\ r.hdr.ok /\ r.hdr.h = HeaderFields(a.H) /\ r.hdr.w = {}
          /\ r.items = Written(LibOfAct(a), CsOf(a)) /\ r.end.r = "end"
       THEN <<"drift", "another encoding that plays back as written">>
       ELSE <<"violation", "the file written is not the recording">>

Verdict(ev) == IF ev.act.a = "file" THEN FileVerdict(ev.act, ev.out) ELSE WriteVerdict(ev.act, ev.out)

Init == l = 1
Next ==
  /\ l <= Len(Rec)
  /\ l' = l + 1
  /\ LET v == Verdict(Rec[l]) IN
       IF v[1] = "ok" THEN TRUE ELSE PrintT(<<"VERDICT", l, v[1], v[2]>>)
Spec == Init /\ [][Next]_l

TraceAccepted ==
  LET d == TLCGet("stats").diameter IN
  IF d - 1 = Len(Rec) THEN TRUE
  ELSE Print(<<"TRACE REJECTED at event", d, Rec[d]>>, FALSE)
=============================================================================
