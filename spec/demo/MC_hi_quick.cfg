SPECIFICATION Spec
CONSTANTS
  MaxCalls = 4
  HiGaps = {0, 1, 125, 250, 251}
  WorldIds = {1, 2, 3, 4, 5}
  MsgIds = {1, 3}
INVARIANTS SameObjects ReaderInSync TicksIncrease NonNegative DeltaNearKeyframe
PROPERTIES RefusedInert StepSame
CHECK_DEADLOCK FALSE
