-------------------------------- MODULE Demo --------------------------------
(***************************************************************************)
(* C15, low level -- the demo container of libtw2 (demo/src/format.rs,     *)
(* writer.rs, reader.rs; doc/demo.md), version 5 / 6 (DDNet) as written by *)
(* `Writer`.                                                               *)
(*                                                                         *)
(* The writer turns chunks (tick markers, snapshots, snapshot deltas,      *)
(* messages) into segments of the file: a chunk header of 1..5 bytes, byte *)
(* for byte as doc/demo.md lays it out, followed by `size` bytes of        *)
(* compressed payload.  Payload compression (Huffman, variable-length      *)
(* integers) is the subject of C07/C08; here a payload is opaque and is    *)
(* identified by `id`, its compressed size `csize` and, for messages, its  *)
(* length modulo 4 and its class `w` (0: content chosen for the compressed *)
(* size; 1..15: content chosen by the number of bytes, 1..5, each 4-byte   *)
(* group takes as a variable-length integer, at the largest length the     *)
(* writer accepts or at 1000 groups -- "payload sizes up to the maximum"   *)
(* has this second dimension for messages, which pass through the integer  *)
(* packing before Huffman; the class does not change what must come back). *)
(*                                                                         *)
(* The reader is specified independently from the writer, as the parser of *)
(* the documented header bytes with its own tick accumulator.  What the    *)
(* user relies on is `RoundTrip`: what the reader returns is what was      *)
(* written (messages zero-padded to a multiple of four), without warnings. *)
(***************************************************************************)
EXTENDS Integers, Sequences, FiniteSets, TLC

MaxInt == 2147483647
MinInt == -2147483647 - 1

VARIABLES
  phase,   \* "idle" | "open"
  hdr,     \* header fields given to Writer::new
  rhdr,    \* header fields the reader reports
  wprev,   \* writer: [has, t] previous tick
  rcur,    \* reader: [has, t] current tick
  wlog,    \* history: chunks accepted by the writer
  rlog,    \* history: chunks returned by the reader
  warns,   \* history: warnings of the reader
  n,       \* number of chunks written
  act, out

vars == <<phase, hdr, rhdr, wprev, rcur, wlog, rlog, warns, n, act, out>>

NoTick == [has |-> FALSE, t |-> 0]
Some(t) == [has |-> TRUE, t |-> t]

-----------------------------------------------------------------------------
(* Format: chunk headers as bytes (doc/demo.md).                             *)

\* big-endian bytes of a signed 32-bit integer (TLC integers are 32-bit: no 2^32)
BE32(t) == LET u == IF t >= 0 THEN t ELSE (t + MaxInt) + 1      \* low 31 bits
               top == (u \div 16777216) + (IF t >= 0 THEN 0 ELSE 128)
           IN <<top, (u \div 65536) % 256, (u \div 256) % 256, u % 256>>
FromBE32(b) == LET neg == b[1] >= 128
                   u == ((b[1] % 128) * 16777216) + (b[2] * 65536) + (b[3] * 256) + b[4]
               IN IF neg THEN (u - MaxInt) - 1 ELSE u

KindBits(k) == CASE k = "snapshot" -> 1 [] k = "message" -> 2 [] k = "delta" -> 3
KindOf(b) == CASE b = 1 -> "snapshot" [] b = 2 -> "message" [] b = 3 -> "delta" [] OTHER -> "unknown"

\* writer's choice of the tick marker: a small inline delta when possible, else absolute
UseInline(prev, t, kf) == prev.has /\ ~kf /\ t - prev.t >= 1 /\ t - prev.t <= 31
\* (t - prev.t cannot overflow here: the guard of WriteTick gives t > prev.t, and the
\*  configurations keep |t| small enough; the code uses checked_sub)
TickHdr(prev, t, kf) ==
  IF UseInline(prev, t, kf)
  THEN <<128 + 32 + (t - prev.t)>>
  ELSE <<128 + (IF kf THEN 64 ELSE 0)>> \o BE32(t)

DataHdr(k, size) ==
  IF size < 30 THEN <<KindBits(k) * 32 + size>>
  ELSE IF size <= 255 THEN <<KindBits(k) * 32 + 30, size>>
  ELSE <<KindBits(k) * 32 + 31, size % 256, size \div 256>>

\* reader's view of a header: [ok, kind: "tick"|"data", ...] plus warnings
ParseHdr(h) ==
  LET f == h[1] IN
  IF f >= 128
  THEN LET kf == (f \div 64) % 2 = 1
           inl == (f \div 32) % 2 = 1 IN
       IF inl
       THEN [ok |-> Len(h) = 1, k |-> "tick", abs |-> FALSE, d |-> f % 32, kf |-> kf, t |-> 0,
             w |-> IF kf THEN {"NonAbsoluteTickmarkerTick"} ELSE {}]
       ELSE [ok |-> Len(h) = 5, k |-> "tick", abs |-> TRUE, d |-> 0, kf |-> kf,
             t |-> IF Len(h) = 5 THEN FromBE32(SubSeq(h, 2, 5)) ELSE 0,
             w |-> IF f % 32 # 0 THEN {"NonZeroTickmarkerPadding"} ELSE {}]
  ELSE LET ty == KindOf((f \div 32) % 4)
           s == f % 32 IN
       IF s = 30 THEN [ok |-> Len(h) = 2, k |-> "data", kind |-> ty, size |-> IF Len(h) = 2 THEN h[2] ELSE 0,
                       w |-> (IF Len(h) = 2 /\ h[2] < 30 THEN {"OverlongChunkSizeEncoding"} ELSE {})
                             \cup (IF ty = "unknown" THEN {"UnknownChunkType"} ELSE {})]
       ELSE IF s = 31 THEN [ok |-> Len(h) = 3, k |-> "data", kind |-> ty,
                            size |-> IF Len(h) = 3 THEN h[2] + 256 * h[3] ELSE 0,
                            w |-> (IF Len(h) = 3 /\ h[2] + 256 * h[3] < 255 THEN {"OverlongChunkSizeEncoding"} ELSE {})
                                  \cup (IF ty = "unknown" THEN {"UnknownChunkType"} ELSE {})]
       ELSE [ok |-> Len(h) = 1, k |-> "data", kind |-> ty, size |-> s,
             w |-> IF ty = "unknown" THEN {"UnknownChunkType"} ELSE {}]

Pad4(l) == (4 - (l % 4)) % 4

\* The reader on one segment [h, body, id, m4]: new tick state, returned chunk, warnings, error
ReadSeg(cur, seg) ==
  LET p == ParseHdr(seg.h) IN
  IF ~p.ok THEN [cur |-> cur, err |-> "BadHeader", chunk |-> [k |-> "none"], w |-> {}]
  ELSE IF p.k = "tick"
  THEN IF p.abs
       THEN IF cur.has /\ cur.t >= p.t
            THEN [cur |-> cur, err |-> "NotIncreasingTick", chunk |-> [k |-> "none"], w |-> p.w]
            ELSE [cur |-> Some(p.t), err |-> "none", chunk |-> [k |-> "tick", t |-> p.t, kf |-> p.kf], w |-> p.w]
       ELSE IF ~cur.has
            THEN [cur |-> cur, err |-> "StartingDeltaSnapshot", chunk |-> [k |-> "none"], w |-> p.w]
            ELSE IF cur.t > MaxInt - p.d
            THEN [cur |-> cur, err |-> "TickOverflow", chunk |-> [k |-> "none"], w |-> p.w]
            ELSE [cur |-> Some(cur.t + p.d), err |-> "none",
                  chunk |-> [k |-> "tick", t |-> cur.t + p.d, kf |-> p.kf], w |-> p.w]
  ELSE IF p.size # seg.body
       THEN [cur |-> cur, err |-> "Desync", chunk |-> [k |-> "none"], w |-> p.w]
       ELSE [cur |-> cur, err |-> "none", w |-> p.w,
             chunk |-> [k |-> p.kind, id |-> seg.id, pad |-> IF p.kind = "message" THEN Pad4(seg.m4) ELSE 0]]

-----------------------------------------------------------------------------
(* The machine: Writer::new, write_tick, write_snapshot / _delta / message,  *)
(* each immediately followed by the reader consuming the new segment         *)
(* (reading the finished file chunk by chunk is the same sequence of steps). *)

Init ==
  /\ phase = "idle" /\ hdr = [none |-> TRUE] /\ rhdr = [none |-> TRUE]
  /\ wprev = NoTick /\ rcur = NoTick /\ wlog = <<>> /\ rlog = <<>> /\ warns = {} /\ n = 0
  /\ act = [a |-> "init"] /\ out = [r |-> "init"]

\* a = [a |-> "new", nv, mn, ts : string lengths, kind, sha : BOOLEAN, map : length, crc, length, src, mode]
\* src: how the bytes travel between the library and the file (0 in one piece; 1 one byte per read / write call;
\* 2 half of what is asked for; 3 all but the last byte; 4 / 6 buffered reader / writer with a 16- / 1-byte buffer;
\* 5 pseudo-random counts; a count of zero only at the end of the file).  mode: how the driver picks the writer's
\* entry points (see `via` below; 0 dedicated functions, 1 write_chunk, 2 alternating, 3 free).  Neither changes
\* anything of what must be written and played back: the specification does not look at them -- that is the law
\* (the file and the playback depend on the chunks only, not on how the bytes are delivered nor on the entry point).
HeaderOk(a) == a.nv \in 0..63 /\ a.mn \in 0..63 /\ a.ts \in 0..19 /\ a.map >= 0 /\ a.length >= 0
               /\ a.kind \in {"client", "server"} /\ a.src \in 0..6 /\ a.mode \in 0..3
DataOffset(a) == 8 + 168 + 260 + (IF a.sha THEN 48 ELSE 0) + a.map
New(a) ==
  /\ HeaderOk(a)                      \* a new recording may start at any time
  /\ phase' = "open"
  /\ hdr' = [nv |-> a.nv, mn |-> a.mn, ts |-> a.ts, kind |-> a.kind, sha |-> a.sha, map |-> a.map,
             crc |-> a.crc, length |-> a.length, src |-> a.src, mode |-> a.mode]
  /\ rhdr' = hdr'                      \* the reader reports the fields as given
  /\ out' = [r |-> "ok", version |-> IF a.sha THEN 6 ELSE 5, dataoff |-> DataOffset(a), same |-> TRUE, w |-> {}]
  /\ wprev' = NoTick /\ rcur' = NoTick /\ wlog' = <<>> /\ rlog' = <<>> /\ warns' = {} /\ n' = 0
  /\ act' = a

Emit(a, seg, wchunk) ==
  LET r == ReadSeg(rcur, seg) IN
  /\ rcur' = r.cur
  /\ wlog' = Append(wlog, wchunk)
  /\ rlog' = IF r.err = "none" THEN Append(rlog, r.chunk) ELSE rlog
  /\ warns' = warns \cup r.w
  /\ out' = [r |-> "ok", h |-> seg.h, body |-> seg.body, err |-> r.err, chunk |-> r.chunk, w |-> r.w]
  /\ n' = n + 1 /\ act' = a
  /\ UNCHANGED <<phase, hdr, rhdr>>

\* a = [a |-> "tick", t, kf, via]   (Writer::write_tick asserts t > previous tick: caller's obligation)
\* via: the entry point of the writer -- "fn" the dedicated function (write_tick, write_snapshot, write_snapshot_delta,
\* write_message), "chunk" the generic write_chunk with the corresponding RawChunk variant
Vias == {"fn", "chunk"}
WriteTick(a) ==
  /\ phase = "open" /\ a.via \in Vias
  /\ wprev.has => a.t > wprev.t
  /\ wprev' = Some(a.t)
  /\ Emit(a, [h |-> TickHdr(wprev, a.t, a.kf), body |-> 0, id |-> 0, m4 |-> 0],
          [k |-> "tick", t |-> a.t, kf |-> a.kf])

\* a = [a |-> "data", kind, id, csize, m4, w, via]  (m4: message length mod 4, 0 for snapshots; w: see above)
WriteData(a) ==
  /\ phase = "open" /\ a.via \in Vias
  /\ a.kind \in {"snapshot", "delta", "message"} /\ a.csize \in 0..65535 /\ a.m4 \in 0..3
  /\ a.w \in 0..15 /\ (a.w > 0 => a.kind = "message")
  /\ Emit(a, [h |-> DataHdr(a.kind, a.csize), body |-> a.csize, id |-> a.id, m4 |-> a.m4],
          [k |-> a.kind, id |-> a.id, pad |-> IF a.kind = "message" THEN Pad4(a.m4) ELSE 0])
  /\ UNCHANGED wprev

Step(a) ==
  CASE a.a = "new" -> New(a)
    [] a.a = "tick" -> WriteTick(a)
    [] a.a = "data" -> WriteData(a)
    [] OTHER -> FALSE

-----------------------------------------------------------------------------
(* Properties.                                                               *)

\* C15: the reader returns exactly what was written, and warns about nothing
RoundTrip == rlog = wlog /\ warns = {}
HeaderSame == phase = "open" => rhdr = hdr
\* writer and reader agree on the current tick after every chunk
TickSync == rcur = wprev
\* the inline form is used exactly when doc/demo.md allows it, and it is the short one
MarkerRule ==
  act.a = "tick" =>
     /\ Len(out.h) \in {1, 5}
     /\ (Len(out.h) = 1) = (~act.kf /\ n > 0 /\ \E i \in 1..(Len(wlog) - 1) :
                               /\ wlog[i].k = "tick"
                               /\ \A j \in (i + 1)..(Len(wlog) - 1) : wlog[j].k # "tick"
                               /\ act.t - wlog[i].t \in 1..31)
\* size encodings are minimal and on the documented sides of 30 / 256
SizeRule ==
  act.a = "data" =>
     Len(out.h) = IF act.csize < 30 THEN 1 ELSE IF act.csize <= 255 THEN 2 ELSE 3
=============================================================================
