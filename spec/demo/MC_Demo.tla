------------------------------ MODULE MC_Demo ------------------------------
(* Bounded instance of Demo.tla for TLC and export of its graph (C15, A).    *)
EXTENDS Demo, Json, TLCExt

CONSTANTS MaxChunks,   \* chunks per recording
          Headers,     \* subset of 1..4: header variants (variant 1 carries the long recordings)
          StartTicks,  \* first tick of a recording: indices into StartTick (cfg files cannot hold negative numbers)
          Gaps,        \* tick gaps
          SnapSizes,   \* compressed sizes of snapshots / deltas (realised by the harness)
          MsgCodes,    \* messages: 4 * compressed size + (length mod 4) (realised by the harness)
          WideCodes,   \* messages by varint width class: 16 * (4 * compressed size + length mod 4) + class 1..15
          Modes,       \* of the long recordings (header variant 1): 10 * mode + src (see Demo!HeaderOk)
          ModeChunks   \* chunks per recording of the modes other than 0 (dedicated functions, bytes in one piece)

Hdr(i) ==
  CASE i = 1 -> [a |-> "new", nv |-> 0, mn |-> 0, ts |-> 0, kind |-> "client", sha |-> FALSE, map |-> 0,
                 crc |-> 0, length |-> 0, src |-> 0, mode |-> 0]
    [] i = 2 -> [a |-> "new", nv |-> 63, mn |-> 63, ts |-> 19, kind |-> "server", sha |-> TRUE, map |-> 5,
                 crc |-> 2147483647, length |-> 2147483647, src |-> 1, mode |-> 1]
    [] i = 3 -> [a |-> "new", nv |-> 1, mn |-> 63, ts |-> 0, kind |-> "client", sha |-> TRUE, map |-> 0,
                 crc |-> 305419896, length |-> 1, src |-> 4, mode |-> 2]
    [] i = 4 -> [a |-> "new", nv |-> 63, mn |-> 0, ts |-> 19, kind |-> "server", sha |-> FALSE, map |-> 300,
                 crc |-> 1, length |-> 0, src |-> 3, mode |-> 1]

StartTick(i) == CASE i = 1 -> 0 [] i = 2 -> 7 [] i = 3 -> -5 [] i = 4 -> 2147483600 [] i = 5 -> MinInt

Limit == IF phase = "open" /\ hdr.nv = 0 /\ ~hdr.sha THEN (IF hdr.src = 0 /\ hdr.mode = 0 THEN MaxChunks ELSE ModeChunks) ELSE 1
\* the entry point of the next call under the recording's mode
Via == IF phase # "open" THEN "fn" ELSE CASE hdr.mode = 0 -> "fn" [] hdr.mode = 1 -> "chunk" [] OTHER -> IF n % 2 = 0 THEN "chunk" ELSE "fn"

NNew == phase = "idle" /\ \E i \in Headers :
           IF i = 1 THEN \E m \in Modes : Step([Hdr(1) EXCEPT !.src = m % 10, !.mode = m \div 10]) ELSE Step(Hdr(i))
NTick == /\ n < Limit
         /\ \E kf \in BOOLEAN :
              IF wprev.has
              THEN \E g \in Gaps : wprev.t <= MaxInt - g /\ Step([a |-> "tick", t |-> wprev.t + g, kf |-> kf, via |-> Via])
              ELSE \E s \in StartTicks : Step([a |-> "tick", t |-> StartTick(s), kf |-> kf, via |-> Via])
NSnap == /\ n < Limit
         /\ \E k \in {"snapshot", "delta"}, s \in SnapSizes :
              Step([a |-> "data", kind |-> k, id |-> n + 1, csize |-> s, m4 |-> 0, w |-> 0, via |-> Via])
NMsg == /\ n < Limit
        /\ \E c \in MsgCodes :
              Step([a |-> "data", kind |-> "message", id |-> n + 1, csize |-> c \div 4, m4 |-> c % 4, w |-> 0, via |-> Via])
NWide == /\ n < Limit
         /\ \E c \in WideCodes :
              Step([a |-> "data", kind |-> "message", id |-> n + 1, csize |-> (c \div 16) \div 4,
                    m4 |-> (c \div 16) % 4, w |-> c % 16, via |-> Via])
Next == NNew \/ NTick \/ NSnap \/ NMsg \/ NWide
Spec == Init /\ [][Next]_vars

\* every step on its own: the reader returns the chunk just written, no error, no warning
StepRoundTrip ==
  [][ act'.a \in {"tick", "data"} =>
        /\ out'.err = "none" /\ out'.w = {}
        /\ out'.chunk = wlog'[Len(wlog')] ]_vars
HeaderStep == [][ act'.a = "new" => out'.same /\ out'.w = {} /\ rhdr' = hdr' ]_vars

View == <<phase, hdr, wprev, rcur, n>>
St == [phase |-> phase, hdr |-> hdr, wprev |-> wprev, rcur |-> rcur, n |-> n]
StP == [phase |-> phase', hdr |-> hdr', wprev |-> wprev', rcur |-> rcur', n |-> n']
Export == /\ IF TLCGet(1) # St THEN PrintT(<<"S", ToJson(St)>>) /\ TLCSet(1, St) ELSE TRUE
          /\ PrintT(<<"T", ToJson(act'), ToJson(out'), ToJson(StP)>>)
ASSUME TLCSet(1, [phase |-> "none"])
=============================================================================
