---------------------------- MODULE DemoHiTrace ----------------------------
(* Direction B for C15 (typed level): a trace recorded from the real        *)
(* DemoWriter / DemoReader must be a behaviour of DemoHi.tla.               *)
EXTENDS DemoHi, Json, IOUtils, TLCExt

Rec == ndJsonDeserialize(IOEnv.TRACE)
VARIABLE l
tvars == <<vars, l>>

SeqToSet(s) == {s[i] : i \in 1..Len(s)}
\* worlds are logged as lists
ActOf(a) == IF a.a = "snap" THEN [a |-> "snap", t |-> a.t, world |-> SeqToSet(a.world)] ELSE a
MatchRead(sr, lr) ==
  /\ Len(sr) = Len(lr)
  /\ \A i \in 1..Len(sr) :
       IF sr[i].k = "snap"
       THEN /\ lr[i].k = "snap"
            /\ SeqToSet(lr[i].world) = sr[i].world
            /\ Len(lr[i].world) = Cardinality(sr[i].world)
       ELSE sr[i] = lr[i]
\* Property level (C15): result, what the typed reader reports and the absence of warnings must be as
\* specified; which low-level chunks carry it (key frame or delta) is the detailed level: a difference
\* there alone is accepted and reported as drift.
Match(s, o) ==
  /\ DOMAIN s = DOMAIN o
  /\ s.r = o.r
  /\ "file" \in DOMAIN s =>
        /\ MatchRead(s.read, o.read) /\ s.w = SeqToSet(o.w)
        /\ (IF s.file = o.file THEN TRUE ELSE PrintT(<<"TRACE DRIFT at event", l, Rec[l]>>))

TraceInit == Init /\ l = 1
TraceNext ==
  /\ l <= Len(Rec)
  /\ Step(ActOf(Rec[l].act))
  /\ l' = l + 1
  /\ Match(out', Rec[l].out)
TraceSpec == TraceInit /\ [][TraceNext]_tvars

TraceAccepted ==
  LET d == TLCGet("stats").diameter IN
  IF d - 1 = Len(Rec) THEN TRUE
  ELSE Print(<<"TRACE REJECTED at event", d, Rec[d]>>, FALSE)
=============================================================================
