---------------------------- MODULE DemoHiTrace ----------------------------
(* Direction B for C15 (typed level): a trace recorded from the real        *)
(* DemoWriter / DemoReader must be a behaviour of DemoHi.tla.               *)
EXTENDS DemoHi, Json, IOUtils, TLCExt

Rec == ndJsonDeserialize(IOEnv.TRACE)
VARIABLE l
tvars == <<vars, l>>

SeqToSet(s) == {s[i] : i \in 1..Len(s)}
\* worlds are logged as lists
ActOf(a) == IF a.a = "snap" THEN [a |-> "snap", t |-> a.t, world |-> SeqToSet(a.world)] ELSE a
MatchRead(sr, lr) ==
  /\ Len(sr) = Len(lr)
  /\ \A i \in 1..Len(sr) :
       IF sr[i].k = "snap"
       THEN /\ lr[i].k = "snap"
            /\ SeqToSet(lr[i].world) = sr[i].world
            /\ Len(lr[i].world) = Cardinality(sr[i].world)
       ELSE sr[i] = lr[i]
Match(s, o) ==
  /\ DOMAIN s = DOMAIN o
  /\ s.r = o.r
  /\ "file" \in DOMAIN s => (s.file = o.file /\ MatchRead(s.read, o.read) /\ s.w = SeqToSet(o.w))

TraceInit == Init /\ l = 1
TraceNext ==
  /\ l <= Len(Rec)
  /\ Step(ActOf(Rec[l].act))
  /\ Match(out', Rec[l].out)
  /\ l' = l + 1
TraceSpec == TraceInit /\ [][TraceNext]_tvars

TraceAccepted ==
  LET d == TLCGet("stats").diameter IN
  IF d - 1 = Len(Rec) THEN TRUE
  ELSE Print(<<"TRACE REJECTED at event", d, Rec[d]>>, FALSE)
=============================================================================
