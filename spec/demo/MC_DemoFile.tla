---------------------------- MODULE MC_DemoFile ----------------------------
(***************************************************************************)
(* C15, file level: the case families of DemoFile.tla.                     *)
(*                                                                         *)
(* A case is a recording (version 3..6, a header variant, a chunk          *)
(* sequence), laid out as bytes by `FileBytes`, optionally with one        *)
(* mutation (one field overwritten, or the file cut), and the way the      *)
(* reader's byte source delivers it (`src`).  TLC enumerates all cases,    *)
(* checks the laws below on each and exports the bytes; the real Reader /  *)
(* DemoReader read them (vh-demo files) and DemoFileTrace.tla judges what  *)
(* they returned against `ReadFile`.                                       *)
(***************************************************************************)
EXTENDS DemoFile, DemoLib, Json, TLCExt

CONSTANTS Versions,     \* subset of 3..6
          HdrVariants,  \* header variants offered with the short valid sequences (see HV)
          SeqIds,       \* chunk sequences (see Sq), with header variant 1
          MutSeqs,      \* sequences whose chunks are mutated / cut
          BigMap        \* TRUE: also a map_size of 2^31 - 1 in a small file

VARIABLE c
vars == <<c>>

-----------------------------------------------------------------------------
Str(n, salt) == [j \in 1..n |-> 1 + ((j * 37 + salt * 11) % 255)]
Marks(k) == [i \in 1..64 |-> IF i <= k THEN 10 * i ELSE 0]

HV(v, i) ==
  LET base == [version |-> v, nv |-> <<>>, mn |-> <<>>, ts |-> <<>>, crc |-> <<0, 0, 0, 0>>, kind |-> "client",
               length |-> 0, nmark |-> 0, marks |-> Marks(0), sha |-> [j \in 1..32 |-> 165], map |-> <<>>]
  IN CASE i = 1 -> base
       [] i = 2 -> [base EXCEPT !.nv = Str(63, 1), !.mn = Str(63, 2), !.ts = Str(19, 3), !.crc = <<255, 255, 255, 255>>,
                                !.kind = "server", !.length = MaxInt, !.map = Str(5, 4), !.sha = Str(32, 5)]
       [] i = 3 -> [base EXCEPT !.nv = Str(1, 1), !.nmark = 3, !.marks = Marks(3), !.crc = <<18, 52, 86, 120>>]
       [] i = 4 -> [base EXCEPT !.nmark = 64, !.marks = Marks(64), !.kind = "server", !.map = Str(300, 6)]
       [] i = 5 -> [base EXCEPT !.nmark = 1, !.marks = [Marks(0) EXCEPT ![1] = MinInt], !.ts = Str(10, 7)]
       \* strings that fill their field completely (no terminator): not writable through Writer::new
       [] i = 6 -> [base EXCEPT !.nv = Str(64, 1), !.mn = Str(64, 2), !.ts = Str(20, 3)]
\* what libtw2's Writer can produce: no timeline markers, strings shorter than their field, versions 5 / 6
Writable(v, i) == v >= 5 /\ i \in {1, 2}

T(t, kf) == [k |-> "tick", t |-> t, kf |-> kf, enc |-> 0, comp |-> <<>>]
Te(t, kf, enc) == [k |-> "tick", t |-> t, kf |-> kf, enc |-> enc, comp |-> <<>>]
D(kind, name) == [k |-> kind, t |-> 0, kf |-> FALSE, enc |-> 0, comp |-> L[name].comp]
De(kind, name, enc) == [k |-> kind, t |-> 0, kf |-> FALSE, enc |-> enc, comp |-> L[name].comp]
Raw(b) == [k |-> "raw", t |-> 0, kf |-> FALSE, enc |-> 0, comp |-> b]
InlineByte(v, kf, d) == 128 + (IF kf THEN 64 ELSE 0) + (IF v >= 5 THEN 32 ELSE 0) + d

\* sequences 1..5 are recordings (what a writer of the version produces); the others are for the reader only
ValidSeqs == 1..5
Sq(v, s) ==
  CASE s = 1 -> <<>>
    [] s = 2 -> <<T(0, TRUE), D("snapshot", "s1"), T(1, FALSE), D("delta", "s2"), D("message", "m1")>>
    \* gaps 31, 32, 63, 64: on both sides of the one-byte tick marker of either format
    [] s = 3 -> <<T(5, FALSE), T(36, FALSE), T(68, FALSE), T(131, FALSE), T(195, FALSE), T(196, TRUE)>>
    [] s = 4 -> <<T(-5, TRUE), D("snapshot", "s29"), T(0, FALSE), D("delta", "s30"), D("message", "m2"), D("message", "m3"),
                  D("snapshot", "s3")>>
    [] s = 5 -> <<T(MinInt, FALSE), T(MaxInt - 31, TRUE), D("snapshot", "s0"), T(MaxInt, FALSE), D("message", "m0"),
                  D("message", "m4")>>
    \* a key frame marker in the one-byte form: warning
    [] s = 6 -> <<Te(7, TRUE, 1), Te(10, TRUE, 2), D("snapshot", "s1")>>
    \* a recording that starts with a one-byte tick marker
    [] s = 7 -> <<Te(3, FALSE, 2), D("snapshot", "s1")>>
    \* the tick counter overflows
    [] s = 8 -> <<T(MaxInt - 10, FALSE), Raw(<<InlineByte(v, FALSE, 20)>>), D("snapshot", "s1")>>
    \* absolute ticks that do not increase
    [] s = 9 -> <<T(10, FALSE), Te(10, FALSE, 1), D("snapshot", "s1")>>
    [] s = 10 -> <<T(10, FALSE), Te(5, TRUE, 1)>>
    \* size encodings longer than necessary: warnings
    [] s = 11 -> <<De("snapshot", "s1", 2), De("message", "m1", 3), De("delta", "s29", 3)>>
    \* chunk type 0
    [] s = 12 -> <<T(1, FALSE), D("unknown", "s0"), T(2, FALSE)>>
    [] s = 13 -> <<[D("unknown", "s0") EXCEPT !.comp = <<>>], T(1, FALSE), D("message", "m1")>>
    \* messages: an overlong integer (warning), then one cut inside an integer (error)
    [] s = 14 -> <<D("message", "mw"), D("message", "mt"), D("message", "m1")>>
    \* payloads that are not a valid compression; an empty payload
    [] s = 15 -> <<T(1, FALSE), D("snapshot", "x2")>>
    [] s = 16 -> <<D("delta", "x1")>>
    [] s = 17 -> <<D("message", "x4"), T(1, FALSE)>>
    \* one-byte marker with the padding bits set (version 5 / 6: warning; 3 / 4: a delta)
    [] s = 18 -> <<T(1, FALSE), Raw(<<128 + 3, 0, 0, 0, 9>>), Raw(<<128 + 64 + 31, 0, 0, 1, 0>>)>>

-----------------------------------------------------------------------------
(* Mutations: [m |-> "none"], [m |-> "splice", at, bytes] (bytes overwritten from 0-based offset at),             *)
(* [m |-> "trunc", at] (the file cut to its first `at` bytes).                                                    *)
None == [m |-> "none", at |-> 0, bytes |-> <<>>]
Sp(at, b) == [m |-> "splice", at |-> at, bytes |-> b]
Tr(at) == [m |-> "trunc", at |-> at, bytes |-> <<>>]
Apply(f, m) ==
  CASE m.m = "none" -> f
    [] m.m = "trunc" -> SubSeq(f, 1, m.at)
    [] OTHER -> SubSeq(f, 1, m.at) \o m.bytes \o SubSeq(f, m.at + Len(m.bytes) + 1, Len(f))

Toggle(b, bit) == IF (b \div bit) % 2 = 1 THEN b - bit ELSE b + bit

\* every field of the header, on both sides of what the format allows
HMuts(v) ==
  {Sp(0, <<85>>), Sp(6, <<1>>)}
  \* (not version 3 in a file with timeline markers: its 260 bytes would be read as 260 chunks -- nothing new, and
  \*  deeper than TLC's stack likes)
  \cup {Sp(7, <<x>>) : x \in ({0, 2, 3, 4, 5, 6, 7, 255} \ {v}) \ (IF v >= 4 THEN {3} ELSE {})}
  \cup {Sp(18, <<65>>), Sp(8, <<65>>), Sp(135, <<66>>), Sp(72, Str(64, 9)), Sp(175, <<67>>)}
  \cup {Sp(136, BE32(x)) : x \in {-1, 1, 2, 1000000, MinInt} \cup (IF BigMap THEN {MaxInt} ELSE {})}
  \cup {Sp(140, <<1, 2, 3, 255>>)}
  \cup {Sp(144, <<67>>), Sp(151, <<1>>), Sp(150, <<32>>), Sp(144, KindField("server"))}
  \cup {Sp(152, BE32(x)) : x \in {-1, MinInt, MaxInt, 1}}
  \cup (IF v >= 4 THEN {Sp(176, BE32(x)) : x \in {-1, 1, 2, 64, 65, MaxInt, MinInt}}
                       \cup {Sp(180, BE32(5)), Sp(432, BE32(-1)), Sp(176, BE32(2) \o BE32(7) \o BE32(7)),
                             Sp(176, BE32(2) \o BE32(7) \o BE32(8)), Sp(176, BE32(2) \o BE32(8) \o BE32(7))}
        ELSE {})
  \cup (IF v = 6 THEN {Sp(436, <<0>>), Sp(451, <<0>>), Sp(452, <<1>>), Sp(483, <<1>>)} ELSE {})
HTruncs(v, n) == {Tr(x) : x \in {0, 1, 6, 7, 8, 9, 72, 136, 139, 140, 143, 144, 151, 152, 155, 156, 175, 176, 177, 179, 180,
                                  181, 435, 436, 437, 451, 452, 453, 483, 484, n - 1} \cap 0..(n - 1)}

\* every field of a chunk occupying the bytes o .. e-1 of f
ChunkMuts(f, o, e) ==
  LET b0 == f[o + 1]
      cuts == IF e - o > 9 THEN {o + 1, o + 2, o + 3, o + 4, e - 2, e - 1} ELSE (o + 1)..(e - 1)
      first == IF b0 >= 128
               THEN {Toggle(b0, 64), Toggle(b0, 32), Toggle(b0, 16), b0 - (b0 % 32), b0 - (b0 % 32) + 1, b0 - (b0 % 32) + 31,
                     b0 - (b0 % 64) + 63, b0 - 128}
               ELSE {(b0 % 32) + 32 * ty : ty \in 0..3}
                    \cup {b0 - (b0 % 32) + s : s \in {0, 1, 29, 30, 31, (b0 % 32) + 1, ((b0 % 32) + 31) % 32}}
                    \cup {b0 + 128}
  IN {Tr(x) : x \in cuts}
     \cup {Sp(o, <<x>>) : x \in (first \cap 0..255) \ {b0}}
     \cup (IF e - o >= 2 THEN {Sp(o + 1, <<x>>) : x \in {0, 29, 255, (f[o + 2] + 1) % 256, (f[o + 2] + 255) % 256} \ {f[o + 2]}} ELSE {})
     \cup (IF e - o >= 3 THEN {Sp(e - 1, <<(f[e] + 1) % 256>>), Sp(o + 2, <<Toggle(f[o + 3], 128)>>)} ELSE {})
     \cup (IF b0 >= 128 /\ e - o = 5 THEN {Sp(o + 1, BE32(x)) : x \in {MinInt, MaxInt, 0, -1}} ELSE {})

CMuts(H, cs) ==
  LET f == FileBytes(H, cs)
      off(i) == ChunkOffset(H, cs, i)
  IN {Tr(off(i)) : i \in 1..Len(cs)} \cup UNION {ChunkMuts(f, off(i), off(i + 1)) : i \in 1..Len(cs)}

\* how the source delivers the file: [pol |-> 0..6 (see Demo!HeaderOk), p |-> 0] or
\* [pol |-> 7, p] -- a read never crosses the byte offset p (every two-piece split of the file)
Src(pol, p) == [pol |-> pol, p |-> p]
Whole == Src(0, 0)
Splits(H, cs) == {Src(7, p) : p \in (Len(HeaderBytes(H)) - 1)..(Len(FileBytes(H, cs)) - 1)} \cup {Src(1, 0), Src(4, 0), Src(2, 0)}

Case(v, hv, s, m, src) == [v |-> v, hv |-> hv, s |-> s, mut |-> m, src |-> src]
Cases ==
  UNION {
    \* recordings under every header variant, read through every split of the source
    UNION {{Case(v, hv, s, None, src) : src \in {Whole} \cup (IF hv \in {1, 2} THEN Splits(HV(v, hv), Sq(v, s)) ELSE {})}
             : hv \in HdrVariants, s \in {1, 2}}
    \* every sequence under the minimal header
    \cup {Case(v, 1, s, None, src) : s \in SeqIds, src \in {Whole, Src(1, 0)}}
    \* header fields
    \cup {Case(v, 1, 2, m, Whole) : m \in HMuts(v) \cup HTruncs(v, HeaderLen(v, 0))}
    \cup {Case(v, 3, 2, m, Whole) : m \in (IF v >= 4 THEN {Sp(176, BE32(x)) : x \in {0, 1, 2, 4, 64}} ELSE {})}
    \* chunk fields and cuts
    \cup UNION {{Case(v, 1, s, m, src) : m \in CMuts(HV(v, 1), Sq(v, s)), src \in {Whole, Src(6, 0)}} : s \in MutSeqs}
    : v \in Versions}

H(cc) == HV(cc.v, cc.hv)
Cs(cc) == Sq(cc.v, cc.s)
Orig(cc) == FileBytes(H(cc), Cs(cc))
File(cc) == Apply(Orig(cc), cc.mut)

Init == c \in Cases
Next == UNCHANGED c
Spec == Init /\ [][Next]_vars

-----------------------------------------------------------------------------
(* Laws of the format and its reader, checked on every case.                 *)

Rd(f) == ReadFile(Lib, f, FALSE)
Strip(items) == [i \in 1..Len(items) |-> [items[i] EXCEPT !.w = {}]]

\* C15 at the level of the format: a recording is played back as written, for every version
ValidReadsBack ==
  (c.mut.m = "none" /\ c.s \in ValidSeqs) =>
     LET r == Rd(File(c)) IN
     /\ r.hdr.ok /\ r.hdr.h = HeaderFields(H(c)) /\ r.hdr.off = Len(HeaderBytes(H(c)))
     /\ r.hdr.w = {}
     /\ r.items = Written(Lib, Cs(c)) /\ r.end.r = "end"

\* number of chunks of the original that end at or before byte offset p
Before(cc, p) == Cardinality({i \in 1..Len(Cs(cc)) : ChunkOffset(H(cc), Cs(cc), i + 1) <= p})

\* a mutation behind the header leaves the header and everything in front of the mutated chunk alone
PrefixLaw ==
  (c.mut.m # "none" /\ c.mut.at >= Len(HeaderBytes(H(c)))) =>
     LET r0 == Rd(Orig(c))
         r == Rd(File(c))
         k == Before(c, c.mut.at)
         k0 == IF k <= Len(r0.items) THEN k ELSE Len(r0.items)
     IN r.hdr = r0.hdr /\ Len(r.items) >= k0 /\ SubSeq(r.items, 1, k0) = SubSeq(r0.items, 1, k0)

\* a recording cut at a chunk boundary ends there; cut inside a chunk it ends with "eof" after the chunks before
TruncLaw ==
  (c.mut.m = "trunc" /\ c.s \in ValidSeqs /\ c.mut.at >= Len(HeaderBytes(H(c)))) =>
     LET r == Rd(File(c))
         k == Before(c, c.mut.at)
         boundary == \E i \in 1..(Len(Cs(c)) + 1) : ChunkOffset(H(c), Cs(c), i) = c.mut.at
     IN /\ r.items = SubSeq(Written(Lib, Cs(c)), 1, k)
        /\ r.end = IF boundary THEN [r |-> "end", e |-> "none", w |-> {}] ELSE [r |-> "err", e |-> "eof", w |-> {}]

\* a file cut inside its header is refused
HeaderTruncLaw ==
  (c.mut.m = "trunc" /\ c.mut.at < Len(HeaderBytes(H(c)))) => (~Rd(File(c)).hdr.ok /\ Rd(File(c)).hdr.err \in {"eof", "bad"})

\* the reader is total: every case has an answer
Total == Rd(File(c)).end.r \in {"end", "err", "nohdr"}

\* export: one line per case
ExportCase ==
  PrintT(<<"F", ToJson([id |-> c, bytes |-> File(c),
                        writable |-> (c.mut.m = "none" /\ c.s \in ValidSeqs /\ Writable(c.v, c.hv)),
                        H |-> H(c), cs |-> Cs(c)])>>)
=============================================================================
