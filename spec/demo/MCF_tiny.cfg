SPECIFICATION Spec
CONSTANTS
  Versions = {3, 5}
  HdrVariants = {1}
  SeqIds = {1, 2}
  MutSeqs = {2}
  BigMap = FALSE
INVARIANTS ValidReadsBack PrefixLaw TruncLaw HeaderTruncLaw Total
CHECK_DEADLOCK FALSE
