SPECIFICATION Spec
POSTCONDITION TraceAccepted
CHECK_DEADLOCK FALSE
