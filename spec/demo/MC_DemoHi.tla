----------------------------- MODULE MC_DemoHi -----------------------------
(* Bounded instance of DemoHi.tla for TLC and export of its graph (C15, A). *)
EXTENDS DemoHi, Json, TLCExt

CONSTANTS MaxCalls,   \* write_snap / write_msg calls per recording
          HiGaps,     \* tick = last tick + Gap(i) (gaps <= 0 must be refused); indices: no negative numbers in cfg files
          WorldIds,   \* worlds offered, see W
          MsgIds      \* game messages offered (realised by the harness)

O(ty, id, v) == [ty |-> ty, id |-> id, v |-> v]
\* objects appear, change and vanish between these worlds; types 4 and 5 have UUID type ids
W(i) ==
  CASE i = 1 -> {}
    [] i = 2 -> {O(1, 1, 0)}
    [] i = 3 -> {O(1, 1, 1)}
    [] i = 4 -> {O(1, 1, 0), O(2, 1, 0)}
    [] i = 5 -> {O(2, 1, 1), O(1, 2, 0), O(3, 0, 5)}
    [] i = 6 -> {O(1, 1, 1), O(4, 7, 2)}
    [] i = 7 -> {O(4, 7, 3), O(5, 7, 1), O(2, 1, 0)}
    [] i = 8 -> {O(5, 7, 1)}

Gap(i) == CASE i = 1 -> 0 [] i = 2 -> 1 [] i = 3 -> 125 [] i = 4 -> 250 [] i = 5 -> 251 [] i = 6 -> -3
            [] i = 7 -> 2147483000

NNew == phase = "idle" /\ Step([a |-> "new"])
NSnap == /\ nw < MaxCalls
         /\ \E g \in HiGaps, i \in WorldIds :
              (IF Gap(g) <= 0 THEN TRUE ELSE wlast <= 2147483647 - Gap(g)) /\ Step([a |-> "snap", t |-> wlast + Gap(g), world |-> W(i)])
\* message ids >= 100000 are long broadcasts (expensive to replay): only as the first call
NMsg == nw < MaxCalls /\ \E m \in MsgIds : (IF m < 100000 THEN TRUE ELSE nw = 0) /\ Step([a |-> "msg", m |-> m])
Next == NNew \/ NSnap \/ NMsg
Spec == Init /\ [][Next]_vars

\* per step: the reader's answer to the chunks of one call is the call
StepSame ==
  [][ (act'.a = "snap" /\ out'.r = "ok") =>
        out'.read = <<[k |-> "tick", t |-> act'.t], [k |-> "snap", world |-> act'.world]>> ]_vars

View == <<phase, wlast, wkey, wsnap, rsnap, nw>>
St == [phase |-> phase, wlast |-> wlast, wkey |-> wkey, wsnap |-> wsnap, rsnap |-> rsnap, nw |-> nw]
StP == [phase |-> phase', wlast |-> wlast', wkey |-> wkey', wsnap |-> wsnap', rsnap |-> rsnap', nw |-> nw']
Export == /\ IF TLCGet(1) # St THEN PrintT(<<"S", ToJson(St)>>) /\ TLCSet(1, St) ELSE TRUE
          /\ PrintT(<<"T", ToJson(act'), ToJson(out'), ToJson(StP)>>)
ASSUME TLCSet(1, [phase |-> "none"])
=============================================================================
