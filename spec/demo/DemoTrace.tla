----------------------------- MODULE DemoTrace -----------------------------
(* Direction B for C15 (low level): a trace recorded from the real Writer /  *)
(* Reader (one {"act":..,"out":..} per call: header bytes found in the file, *)
(* what the reader returned for the chunk) must be a behaviour of Demo.tla.  *)
EXTENDS Demo, Json, IOUtils, TLCExt

Rec == ndJsonDeserialize(IOEnv.TRACE)
VARIABLE l
tvars == <<vars, l>>

SeqToSet(s) == {s[i] : i \in 1..Len(s)}
Match(s, o) == /\ DOMAIN s = DOMAIN o
               /\ \A f \in DOMAIN s \ {"w"} : s[f] = o[f]
               /\ s.w = SeqToSet(o.w)

TraceInit == Init /\ l = 1
TraceNext ==
  /\ l <= Len(Rec)
  /\ Step(Rec[l].act)
  /\ Match(out', Rec[l].out)
  /\ l' = l + 1
TraceSpec == TraceInit /\ [][TraceNext]_tvars

TraceAccepted ==
  LET d == TLCGet("stats").diameter IN
  IF d - 1 = Len(Rec) THEN TRUE
  ELSE Print(<<"TRACE REJECTED at event", d, Rec[d]>>, FALSE)
=============================================================================
