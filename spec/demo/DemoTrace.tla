----------------------------- MODULE DemoTrace -----------------------------
(* Direction B for C15 (low level): a trace recorded from the real Writer /  *)
(* Reader (one {"act":..,"out":..} per call: header bytes found in the file, *)
(* what the reader returned for the chunk) must be a behaviour of Demo.tla.  *)
EXTENDS Demo, Json, IOUtils, TLCExt

Rec == ndJsonDeserialize(IOEnv.TRACE)
VARIABLE l
tvars == <<vars, l>>

SeqToSet(s) == {s[i] : i \in 1..Len(s)}
\* Detailed level: everything logged equals the specification's prediction.  Property level (C15):
\* the header bytes found in the file may differ from the predicted ones as long as the *documented*
\* reader (ParseHdr / ReadSeg) reads them back, from the reader state before the step, to the chunk that
\* was written, without warning -- then the step is accepted and reported as drift.
Detailed(s, o) == /\ DOMAIN s = DOMAIN o
                  /\ \A f \in DOMAIN s \ {"w"} : s[f] = o[f]
                  /\ s.w = SeqToSet(o.w)
PropertyLevel(s, o) ==
  /\ DOMAIN s = DOMAIN o /\ "h" \in DOMAIN s
  /\ \A f \in DOMAIN s \ {"w", "h"} : s[f] = o[f]
  /\ s.w = SeqToSet(o.w)
  /\ LET a == Rec[l].act
         r == ReadSeg(rcur, [h |-> o.h, body |-> o.body, id |-> IF a.a = "data" THEN a.id ELSE 0,
                             m4 |-> IF a.a = "data" THEN a.m4 ELSE 0])
     IN r.err = "none" /\ r.w = {} /\ r.chunk = s.chunk
Match(s, o) == IF Detailed(s, o) THEN TRUE
               ELSE PropertyLevel(s, o) /\ PrintT(<<"TRACE DRIFT at event", l, Rec[l]>>)

TraceInit == Init /\ l = 1
TraceNext ==
  /\ l <= Len(Rec)
  /\ Step(Rec[l].act)
  /\ l' = l + 1
  /\ Match(out', Rec[l].out)
TraceSpec == TraceInit /\ [][TraceNext]_tvars

TraceAccepted ==
  LET d == TLCGet("stats").diameter IN
  IF d - 1 = Len(Rec) THEN TRUE
  ELSE Print(<<"TRACE REJECTED at event", d, Rec[d]>>, FALSE)
=============================================================================
