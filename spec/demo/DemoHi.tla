------------------------------- MODULE DemoHi -------------------------------
(***************************************************************************)
(* C15, typed level -- DemoWriter / DemoReader (demo/src/ddnet).           *)
(*                                                                         *)
(* The writer is given a tick and the set of objects of the world at that  *)
(* tick (write_snap) or a game message (write_msg).  It writes a tick      *)
(* marker followed by a full snapshot (key frame: the first one, and       *)
(* whenever more than 250 ticks have passed since the last key frame) or   *)
(* by a delta against the snapshot written last.  The reader keeps the     *)
(* last snapshot, applies deltas to it and reports, per tick, the set of   *)
(* objects.  A world is a set of objects [ty, id, v] (type, id, value);    *)
(* (ty, id) is the key.  How a delta is laid out in bytes is C09's matter; *)
(* here it is the set of removed keys and the set of added/changed objects.*)
(*                                                                         *)
(* write_snap with a tick that does not strictly increase (or is negative) *)
(* is refused with an error and changes nothing.                           *)
(***************************************************************************)
EXTENDS Integers, Sequences, FiniteSets, TLC

VARIABLES
  phase,   \* "idle" | "open"
  wlast,   \* writer: last tick written (-1 initially)
  wkey,    \* writer: [has, t] tick of the last key frame
  wsnap,   \* writer: world written last
  rsnap,   \* reader: world it holds
  wlog,    \* history: what was accepted by the writer, as the reader should report it
  rlog,    \* history: what the reader reported
  nw,      \* calls so far
  act, out

vars == <<phase, wlast, wkey, wsnap, rsnap, wlog, rlog, nw, act, out>>

Key(o) == <<o.ty, o.id>>
Keys(W) == {Key(o) : o \in W}
IsWorld(W) == \A o1, o2 \in W : Key(o1) = Key(o2) => o1 = o2

Delta(from, to) == [del |-> Keys(from) \ Keys(to), upd |-> to \ from]
Apply(base, d) == {o \in base : Key(o) \notin d.del /\ Key(o) \notin Keys(d.upd)} \cup d.upd

KeyframeInterval == 250

Init ==
  /\ phase = "idle" /\ wlast = -1 /\ wkey = [has |-> FALSE, t |-> 0] /\ wsnap = {} /\ rsnap = {}
  /\ wlog = <<>> /\ rlog = <<>> /\ nw = 0
  /\ act = [a |-> "init"] /\ out = [r |-> "init"]

New(a) ==
  /\ phase' = "open"                  \* a new recording may start at any time
  /\ wlast' = -1 /\ wkey' = [has |-> FALSE, t |-> 0] /\ wsnap' = {} /\ rsnap' = {}
  /\ wlog' = <<>> /\ rlog' = <<>> /\ nw' = 0
  /\ act' = a /\ out' = [r |-> "ok"]

\* the reader on the low-level chunks of one write
RECURSIVE ReadChunks(_, _)
ReadChunks(rs, cs) ==  \* -> [rs, read]
  IF cs = <<>> THEN [rs |-> rs, read |-> <<>>]
  ELSE LET c == Head(cs)
           rs2 == CASE c.k = "snapshot" -> c.world
                    [] c.k = "delta" -> Apply(rs, c.d)
                    [] OTHER -> rs
           r == CASE c.k = "tick" -> [k |-> "tick", t |-> c.t]
                  [] c.k \in {"snapshot", "delta"} -> [k |-> "snap", world |-> rs2]
                  [] OTHER -> [k |-> "msg", m |-> c.m]
           rest == ReadChunks(rs2, Tail(cs))
       IN [rs |-> rest.rs, read |-> <<r>> \o rest.read]

\* a = [a |-> "snap", t, world]
WriteSnap(a) ==
  /\ phase = "open" /\ IsWorld(a.world)
  /\ nw' = nw + 1 /\ act' = a
  /\ IF a.t <= wlast
     THEN /\ out' = [r |-> "refused", file |-> <<>>, read |-> <<>>, w |-> {}]
          /\ UNCHANGED <<phase, wlast, wkey, wsnap, rsnap, wlog, rlog>>
     ELSE LET kf == ~wkey.has \/ a.t - wkey.t > KeyframeInterval
              chunks == <<[k |-> "tick", t |-> a.t, kf |-> kf],
                          IF kf THEN [k |-> "snapshot", world |-> a.world]
                                ELSE [k |-> "delta", d |-> Delta(wsnap, a.world)]>>
              rd == ReadChunks(rsnap, chunks)
          IN /\ wlast' = a.t
             /\ wkey' = IF kf THEN [has |-> TRUE, t |-> a.t] ELSE wkey
             /\ wsnap' = a.world
             /\ rsnap' = rd.rs
             /\ wlog' = wlog \o <<[k |-> "tick", t |-> a.t], [k |-> "snap", world |-> a.world]>>
             /\ rlog' = rlog \o rd.read
             /\ out' = [r |-> "ok",
                        file |-> <<[k |-> "tick", t |-> a.t, kf |-> kf], [k |-> IF kf THEN "snapshot" ELSE "delta"]>>,
                        read |-> rd.read, w |-> {}]
             /\ UNCHANGED phase

\* a = [a |-> "msg", m]
WriteMsg(a) ==
  /\ phase = "open"
  /\ nw' = nw + 1 /\ act' = a
  /\ wlog' = Append(wlog, [k |-> "msg", m |-> a.m])
  /\ rlog' = Append(rlog, [k |-> "msg", m |-> a.m])
  /\ out' = [r |-> "ok", file |-> <<[k |-> "message"]>>, read |-> <<[k |-> "msg", m |-> a.m]>>, w |-> {}]
  /\ UNCHANGED <<phase, wlast, wkey, wsnap, rsnap>>

Step(a) ==
  CASE a.a = "new" -> New(a)
    [] a.a = "snap" -> WriteSnap(a)
    [] a.a = "msg" -> WriteMsg(a)
    [] OTHER -> FALSE

-----------------------------------------------------------------------------
\* C15: per tick, the reader reports exactly the object set that was written
SameObjects == rlog = wlog
ReaderInSync == rsnap = wsnap
\* ticks accepted strictly increase and are never negative
TicksIncrease ==
  \A i, j \in 1..Len(wlog) : (i < j /\ wlog[i].k = "tick" /\ wlog[j].k = "tick") => wlog[i].t < wlog[j].t
NonNegative == \A i \in 1..Len(wlog) : wlog[i].k = "tick" => wlog[i].t >= 0
\* a refused call changes nothing; the recording stays usable (the next call behaves as if it had not happened)
RefusedInert ==
  [][ (act'.a = "snap" /\ out'.r = "refused") => UNCHANGED <<phase, wlast, wkey, wsnap, rsnap, wlog, rlog>> ]_vars
\* a key frame at least every KeyframeInterval + gap ticks: a delta is never further than 250 ticks from its key frame
DeltaNearKeyframe ==
  (act.a = "snap" /\ out.r = "ok" /\ ~out.file[1].kf) => (wkey.has /\ act.t - wkey.t <= KeyframeInterval)
=============================================================================
