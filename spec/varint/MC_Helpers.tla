------------------------------ MODULE MC_Helpers ------------------------------
(* Extension of C08: the helper functions of the packer crate (PackHelpers.tla) on
   exhaustively enumerated small domains:
     - range checks on every triple over RVals,
     - sanitize / bytes_to_string / string_to_ints (n in Ns) / string_to_bytes on every byte string
       over Alpha of length <= MaxLen, plus runs of 'a' around the 4n - 1 boundary,
     - IntUnpacker sessions: every slice over IVals of length <= MaxInts, every sequence of MaxOps
       operations (read_int / finish).
   One state per two-byte prefix (groups in between, so that the workers share the work).  With
   EXPORT = TRUE every call is printed with the result the specification prescribes (direction A). *)
EXTENDS PackHelpers, TLC
CONSTANTS Alpha, MaxLen, Ns, RVals, IVals, MaxInts, MaxOps, EXPORT
VARIABLES lvl, a1, a2
vars == <<lvl, a1, a2>>
MC_RVals == {MININT, -2, -1, 0, 1, 2, MAXINT}
MC_IVals == {MININT, -1, 0, 7, MAXINT}
Init == lvl = 0 /\ a1 = -1 /\ a2 = -1
L1 == lvl = 0 /\ lvl' = 1 /\ a1' \in Alpha /\ a2' = -1
L2 == lvl = 1 /\ lvl' = 2 /\ a1' = a1 /\ a2' \in Alpha
Next == L1 \/ L2

Tails(k) == UNION {[1..n -> Alpha] : n \in 0..k}
ARun(n) == [j \in 1..n |-> 97]
Strs == CASE lvl = 0 -> {<<>>} \cup {ARun(n) : n \in 1..13}
          [] lvl = 1 -> {<<a1>>}
          [] lvl = 2 -> {<<a1, a2>> \o t : t \in Tails(MaxLen - 2)}
NsOf(s) == IF lvl = 0 THEN 1..3 ELSE Ns
Triples == IF lvl = 0 THEN RVals \X RVals \X RVals ELSE {}

CallsOfStr(s) == <<Call("sanitize", <<>>, s, 0), Call("bytes_to_string", <<>>, s, 0)>>
                 \o [j \in 1..Cardinality(NsOf(s)) |-> Call("string_to_ints", <<>>, s, SetToSeq(NsOf(s))[j])]
                 \o [c \in 1..3 |-> Call("string_to_bytes", <<>>, s, Len(s) + c - 1)]
CallsOfTriple(t) == <<Call("in_range", <<t[1], t[2], t[3]>>, <<>>, 0), Call("at_least", <<t[1], t[2]>>, <<>>, 0),
                      Call("positive", <<t[1]>>, <<>>, 0), Call("to_bool", <<t[1]>>, <<>>, 0)>>
Calls == FoldLeft(LAMBDA acc, s : acc \o CallsOfStr(s), <<>>, SetToSeq(Strs))
         \o FoldLeft(LAMBDA acc, t : acc \o CallsOfTriple(t), <<>>, SetToSeq(Triples))
Vec(c) == LET r == Helper(c) IN <<c.f, c.a, c.b, c.n, r.res, r.v, r.b, r.ints, r.warn>>

(* IntUnpacker: sessions are enumerated in the root state only *)
IntSeqs == UNION {[1..n -> IVals] : n \in 0..MaxInts}
OpSeqs == [1..MaxOps -> {"int", "finish"}]
\* the run of a session: <<results>>, final position
RunIU(xs, ops) == FoldLeft(LAMBDA st, o : LET r == IUOp(xs, st.pos, o) IN
                                          [pos |-> r.to, log |-> Append(st.log, <<o, r.res, r.v, r.w, r.to>>)],
                           [pos |-> 0, log |-> <<>>], ops)
IULaws(xs, ops) == LET run == RunIU(xs, ops).log IN
    \A k \in 1..Len(run) :
       LET before == IF k = 1 THEN 0 ELSE run[k - 1][5]
           nfin == Cardinality({j \in 1..(k - 1) : ops[j] = "finish"})
           nint == Cardinality({j \in 1..(k - 1) : ops[j] = "int"}) IN
       /\ before <= run[k][5] /\ run[k][5] <= Len(xs)                        \* never past the slice
       \* the integers come back in order, identically, until the slice (or a finish) ends it
       /\ (ops[k] = "int" /\ nfin = 0 /\ nint < Len(xs)) => run[k][2] = "ok" /\ run[k][3] = xs[nint + 1]
       /\ (ops[k] = "int" /\ (nfin > 0 \/ nint >= Len(xs))) => run[k][2] = "end"
       /\ ops[k] = "finish" => ((run[k][4] = {}) <=> (nfin > 0 \/ nint >= Len(xs)))

Inv == LET cs == Calls IN
       /\ \A s \in Strs : StrLaws(s) /\ \A n \in NsOf(s) : IntsLaws(n, s)
       /\ \A t \in Triples : RangeLaws(t[1], t[2], t[3])
       /\ lvl = 0 => \A xs \in IntSeqs : \A ops \in OpSeqs : IULaws(xs, ops)
       /\ (EXPORT /\ cs # <<>>) => PrintT("@G " \o ToString([j \in 1..Len(cs) |-> Vec(cs[j])]))
       /\ (EXPORT /\ lvl = 0) => \A xs \in IntSeqs :
              PrintT("@U " \o ToString(<<xs, {RunIU(xs, ops).log : ops \in OpSeqs}>>))
=============================================================================
