\* helper functions: all strings of length <= 5 over 7 bytes; IntUnpacker: slices of <= 3 integers, 5 operations
CONSTANTS Alpha = {0, 1, 31, 32, 127, 128, 255}
          MaxLen = 5
          Ns = {1, 2}
          RVals <- MC_RVals
          IVals <- MC_IVals
          MaxInts = 3
          MaxOps = 5
          EXPORT = TRUE
INIT Init
NEXT Next
INVARIANT Inv
