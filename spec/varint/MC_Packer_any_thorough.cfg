\* totality of the unpacker: every input over {00,01,40,80,ff} of length <= 4, any 3 reads
CONSTANTS Items <- MC_None
          FirstItems <- MC_None
          Caps = {}
          MaxW = 0
          ReadOps <- MC_ReadOps
          MaxFree = 3
          Mode = "any"
          RawDatas <- MC_RawDatas_t
          EXPORT = TRUE
INIT Init
NEXT Next
INVARIANT Inv
