------------------------------ MODULE MC_Bytes ------------------------------
(* C08, decoder half: ByteLaws (fails only by early end; documented value;
   warning-free iff canonical; magnitude bound = no shorter encoding; prefix
   stability) on
     - every byte string of length 0, 1, 2,
     - every string <<b1, b2, b3>> with b3 \in Third       (Third = Byte: all 2^24),
     - every 4- and 5-byte string with first byte b1, last byte b2 and the middle
       bytes drawn from Mid (the "sweep" of the property's quantifier).
   One state per (b1, b2); with EXPORT = TRUE the expected decodings of the state's
   strings are printed (one line per state) as test vectors (direction A). *)
EXTENDS VarInt, TLC
CONSTANTS Third, Mid, EXPORT
VARIABLES lvl, b1, b2
Init == lvl = 0 /\ b1 = 0 /\ b2 = 0
L1 == lvl = 0 /\ lvl' = 1 /\ b1' \in Byte /\ b2' = 0
L2 == lvl = 1 /\ lvl' = 2 /\ b1' = b1 /\ b2' \in Byte
Next == L1 \/ L2
WCode(w) == (IF "OverlongIntEncoding" \in w THEN 1 ELSE 0) + (IF "NonZeroIntPadding" \in w THEN 2 ELSE 0)
Exp(b) == LET d == Decode(b) IN IF d.r = "end" THEN <<b, 0, 0, 0>> ELSE <<b, d.used, d.vimpl, WCode(d.w)>>
\* the strings of a state, as a sequence (sets of tuples are expensive to normalise and print)
ThirdSeq == SetToSeq(Third)
MidSeq == SetToSeq(Mid)
M == Len(MidSeq)
Strs == CASE lvl = 0 -> <<<<>>>>
          [] lvl = 1 -> <<<<b1>>>>
          [] lvl = 2 -> <<<<b1, b2>>>> \o [i \in 1..Len(ThirdSeq) |-> <<b1, b2, ThirdSeq[i]>>]
                        \o [i \in 1..(M * M) |-> <<b1, MidSeq[(i - 1) \div M + 1], MidSeq[((i - 1) % M) + 1], b2>>]
                        \o [i \in 1..(M * M * M) |-> <<b1, MidSeq[(i - 1) \div (M * M) + 1], MidSeq[(((i - 1) \div M) % M) + 1],
                                                         MidSeq[((i - 1) % M) + 1], b2>>]
\* one line per state: the expected decoding of every string of the state
Inv == LET ss == Strs IN      \* evaluated once per state
       /\ \A i \in 1..Len(ss) : ByteLaws(ss[i])
       /\ EXPORT => PrintT("@B " \o ToString([i \in 1..Len(ss) |-> Exp(ss[i])]))
=============================================================================
