CONSTANTS Samples = 1024
INIT Init
NEXT Next
INVARIANT Inv
