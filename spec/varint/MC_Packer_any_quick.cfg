\* totality of the unpacker: every input over {00,01,40,80,ff} of length <= 3, any 2 reads
CONSTANTS Items <- MC_None
          FirstItems <- MC_None
          Caps = {}
          MaxW = 0
          ReadOps <- MC_ReadOps
          MaxFree = 2
          Mode = "any"
          RawDatas <- MC_RawDatas_q
          EXPORT = TRUE
INIT Init
NEXT Next
INVARIANT Inv
