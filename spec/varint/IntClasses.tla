------------------------------ MODULE IntClasses ------------------------------
(***************************************************************************)
(* "All 2^32 integers": the encoding of VarInt.tla per CLASS.  A class is   *)
(* (sign, number of bytes n); it holds the integers of that sign whose      *)
(* 31-bit magnitude m (Payload) lies in MLo(n)..MHi(n).  Within a class the  *)
(* k-th byte is a digit of m:                                               *)
(*        byte k = ((m \div Div(k)) % Mod(k)) + Add(sign, n, k)             *)
(* (6 bits for the first byte, 7 for the others; Add carries the sign flag  *)
(* of byte 1 and the extend flag of every byte but the last).               *)
(*                                                                         *)
(* The ten classes partition the 2^32 integers (ClassesPartition); within a *)
(* class ClassEncode is a fixed tuple of digit extractions, and it agrees   *)
(* with Encode on every integer TLC enumerates (MC_Int: 2^17 / 2^22 around  *)
(* zero, all class boundaries and their neighbours).  The table is printed  *)
(* ("@C ...") and the harness sweeps the real write_int / read_int over all *)
(* 2^32 integers against it: the expected bytes of every integer come from  *)
(* this table, not from a hand-written encoder.                             *)
(***************************************************************************)
EXTENDS VarInt, TLC

MLo(n) == CASE n = 1 -> 0 [] n = 2 -> P6 [] n = 3 -> P13 [] n = 4 -> P20 [] n = 5 -> P27
MHi(n) == CASE n = 1 -> P6 - 1 [] n = 2 -> P13 - 1 [] n = 3 -> P20 - 1 [] n = 4 -> P27 - 1 [] n = 5 -> MAXINT
Div(k) == CASE k = 1 -> 1 [] k = 2 -> P6 [] k = 3 -> P13 [] k = 4 -> P20 [] k = 5 -> P27
Mod(k) == IF k = 1 THEN 64 ELSE 128
Add(s, n, k) == (IF k = 1 /\ s = 1 THEN 64 ELSE 0) + (IF k < n THEN 128 ELSE 0)

SignOf(x) == IF x < 0 THEN 1 ELSE 0
ClassLen(m) == CHOOSE n \in 1..5 : MLo(n) <= m /\ m <= MHi(n)
ClassEncode(x) == LET m == Payload(x) s == SignOf(x) n == ClassLen(m) IN
                  [k \in 1..n |-> ((m \div Div(k)) % Mod(k)) + Add(s, n, k)]

\* the classes cover every magnitude exactly once, and every digit position exactly once
ClassesPartition == /\ MLo(1) = 0 /\ MHi(5) = MAXINT
                    /\ \A n \in 1..4 : MHi(n) + 1 = MLo(n + 1)
                    /\ \A n \in 1..5 : MLo(n) <= MHi(n)
                    /\ Div(1) = 1 /\ \A k \in 1..4 : Div(k + 1) = Div(k) * Mod(k)
                    /\ \A n \in 1..4 : MHi(n) + 1 = Div(n) * Mod(n)          \* n bytes hold exactly the magnitudes below 2^(6+7(n-1))
                    /\ MAXINT \div Div(5) < 16                                \* the fifth byte holds four bits: zero padding
ClassAgrees(x) == ClassEncode(x) = Encode(x) /\ Len(ClassEncode(x)) = LenFor(Payload(x))

ClassEdges == UNION {{MLo(n), MLo(n) + 1, MHi(n), MHi(n) - 1} : n \in 1..5}
ASSUME ClassesPartition
ASSUME \A m \in ClassEdges : ClassAgrees(m) /\ ClassAgrees(Flip(m))
ASSUME \A x \in Boundaries : ClassAgrees(x)

\* <<sign, bytes, lowest magnitude, highest magnitude, <<<<Div, Mod, Add>> per byte>>>> for the ten classes
ClassTable == [c \in 1..10 |-> LET s == (c - 1) \div 5 n == ((c - 1) % 5) + 1 IN
                               <<s, n, MLo(n), MHi(n), [k \in 1..n |-> <<Div(k), Mod(k), Add(s, n, k)>>]>>]
ExportClasses == PrintT("@C " \o ToString(ClassTable))
=============================================================================
