------------------------------ MODULE VarInt ------------------------------
(***************************************************************************)
(* The Teeworlds variable-length integer, transcribed from doc/int.md      *)
(* (and doc/int.ksy).  Pure operators only (no variables): the module is   *)
(* EXTENDed by Packer.tla, the MC_* modules and VarIntTrace.tla.           *)
(*                                                                         *)
(*     first_byte: [1] flag_extend [1] flag_sign [6] bits                  *)
(*     next_byte : [1] flag_extend [7] bits                                *)
(*     last_byte : [4] padding     [4] bits                                *)
(*     int: first_byte [next_byte [next_byte [next_byte [last_byte]]]]     *)
(*                                                                         *)
(* "The bits of the final integer are the bits fields combined, with a     *)
(* little-endian order.  Always use the least amount of bytes possible to  *)
(* encode a number.  The padding must always be zeroed.  The flag_sign     *)
(* specifies that all the bits of the resulting number should be flipped,  *)
(* including the sign bit."                                                *)
(*                                                                         *)
(* TLC integers are 32-bit and trap on overflow: every expression below    *)
(* stays inside -2^31 .. 2^31-1.                                           *)
(***************************************************************************)
EXTENDS Integers, Sequences, FiniteSets, SequencesExt

MAXINT == 2147483647
MININT == -2147483647 - 1
Int32  == MININT..MAXINT            \* never enumerated, only used for membership
Byte   == 0..255

P6  == 64
P13 == 8192
P20 == 1048576
P27 == 134217728
P30 == 1073741824

\* flipping all 32 bits of x (two's complement): ~x = -x - 1, written so that no
\* intermediate result leaves the 32-bit range
Flip(x) == -1 - x

\* the 31-bit magnitude that is stored in the bits fields
Payload(x) == IF x < 0 THEN Flip(x) ELSE x

\* number of bytes the shortest representation of magnitude m needs (6 + 7(k-1) bits)
LenFor(m) == IF m < P6 THEN 1 ELSE IF m < P13 THEN 2 ELSE IF m < P20 THEN 3 ELSE IF m < P27 THEN 4 ELSE 5

RECURSIVE Rest(_)
Rest(m) == IF m = 0 THEN <<>>
           ELSE <<(m % 128) + (IF m \div 128 # 0 THEN 128 ELSE 0)>> \o Rest(m \div 128)

\* the canonical (shortest, zero padding) encoding
Encode(x) == LET m == Payload(x) IN
             <<(m % 64) + (IF x < 0 THEN 64 ELSE 0) + (IF m \div 64 # 0 THEN 128 ELSE 0)>> \o Rest(m \div 64)

(***************************************************************************)
(* Decoding the integer at the start of byte sequence b.                   *)
(*   r     "ok" or "end" (the sequence ends before the integer does)       *)
(*   used  number of bytes the integer occupies (1..5)                     *)
(*   v     the value the documentation prescribes, padding ignored         *)
(*   pad   the four padding bits of byte five (0 if fewer bytes)           *)
(*   vimpl the value libtw2 computes when pad # 0 (padding bit 4 lands on  *)
(*         bit 31, the others fall off); equals v when pad = 0.  The       *)
(*         property only prescribes v for pad = 0; vimpl is detail.        *)
(*   w     warnings: OverlongIntEncoding  - more than one byte and the     *)
(*                                          last byte is 0                 *)
(*                   NonZeroIntPadding    - pad # 0                        *)
(***************************************************************************)
NBytes(b) == CHOOSE k \in 1..5 : /\ \A j \in 1..(k - 1) : j <= Len(b) /\ b[j] >= 128
                                 /\ (k = 5 \/ k > Len(b) \/ b[k] < 128)

Decode(b) ==
  IF Len(b) = 0 THEN [r |-> "end"] ELSE
  LET n == NBytes(b) IN
  IF n > Len(b) THEN [r |-> "end"] ELSE
  LET sign == (b[1] \div 64) % 2
      lo27 == (b[1] % 64)
              + (IF n >= 2 THEN (b[2] % 128) * P6 ELSE 0)
              + (IF n >= 3 THEN (b[3] % 128) * P13 ELSE 0)
              + (IF n >= 4 THEN (b[4] % 128) * P20 ELSE 0)
      hi4  == IF n = 5 THEN b[5] % 16 ELSE 0            \* bits 27..30
      pad  == IF n = 5 THEN b[5] \div 16 ELSE 0          \* PPPP
      mag  == lo27 + hi4 * P27                           \* < 2^31
      \* libtw2: ((b5 & 0x7f) as i32) << 27  -- bit 4 of byte five becomes bit 31
      raw  == IF pad % 2 = 1 THEN (mag - P30) - P30 ELSE mag
      warn == (IF pad # 0 THEN {"NonZeroIntPadding"} ELSE {})
              \cup (IF n > 1 /\ b[n] = 0 THEN {"OverlongIntEncoding"} ELSE {})
  IN [r |-> "ok", used |-> n, pad |-> pad,
      v     |-> IF sign = 1 THEN Flip(mag) ELSE mag,
      vimpl |-> IF sign = 1 THEN Flip(raw) ELSE raw,
      w     |-> warn]

Min2(a, b) == IF a < b THEN a ELSE b
\* decoding at offset pos (0-based) of data: at most five bytes are looked at
DecodeAt(data, pos) == Decode(SubSeq(data, pos + 1, Min2(Len(data), pos + 5)))

(***************************************************************************)
(* The laws of C08 (checked by the MC_* configurations on enumerated       *)
(* domains, and used by the trace specification as the judge).             *)
(***************************************************************************)

\* every integer is packed into 1..5 bytes that unpack to the same integer with no
\* warning and nothing left over
RoundTrip(x) == LET e == Encode(x) d == Decode(e) IN
                /\ Len(e) \in 1..5 /\ \A i \in 1..Len(e) : e[i] \in Byte
                /\ d.r = "ok" /\ d.v = x /\ d.vimpl = x /\ d.used = Len(e) /\ d.w = {} /\ d.pad = 0

\* the encoding has exactly the length the magnitude needs ...
ShortestLen(x) == Len(Encode(x)) = LenFor(Payload(x))
\* ... and a string of n bytes can only decode to a magnitude below 2^(6+7(n-1)); together:
\* no string shorter than Encode(x) decodes to x (documented value)
MagBound(b) == LET d == Decode(b) IN d.r = "ok" => LenFor(Payload(d.v)) <= d.used

\* decoding fails only because the string ends too early: "end" iff every byte present
\* (at most four of them) carries the extend flag
EndsEarly(b) == Len(b) < 5 /\ \A j \in 1..Len(b) : b[j] >= 128
FailsOnlyByEnd(b) == (Decode(b).r = "end") <=> EndsEarly(b)

\* warning-free exactly when the consumed bytes are the canonical encoding
Canon(b) == LET d == Decode(b) IN
            d.r = "ok" => /\ (d.w = {}) <=> (SubSeq(b, 1, d.used) = Encode(d.v))
                          /\ d.pad = 0 => d.vimpl = d.v
                          /\ d.v \in Int32 /\ d.vimpl \in Int32

\* a decoded prefix does not depend on what follows it
PrefixStable(b) == LET d == Decode(b) IN d.r = "ok" => Decode(SubSeq(b, 1, d.used)) = d

ByteLaws(b) == FailsOnlyByEnd(b) /\ Canon(b) /\ MagBound(b) /\ PrefixStable(b)
IntLaws(x)  == RoundTrip(x) /\ ShortestLen(x)

Pows == {P6, P13, P20, P27, P30, 2, 128, 256, 16384, 65536, 2097152, 16777216, 268435456, 536870912}
Boundaries == UNION {{p, p - 1, p + 1, -p, -p - 1, -p + 1} : p \in Pows}
              \cup {0, 1, -1, MININT, MININT + 1, MAXINT, MAXINT - 1}

\* examples of doc/int.md and of the repository's unit tests
ASSUME /\ Encode(0) = <<0>> /\ Encode(1) = <<1>> /\ Encode(-1) = <<64>> /\ Encode(64) = <<128, 1>>
       /\ Encode(63) = <<63>> /\ Encode(-64) = <<127>> /\ Encode(-65) = <<192, 1>>
       /\ Encode(MININT) = <<255, 255, 255, 255, 15>> /\ Encode(MAXINT) = <<191, 255, 255, 255, 15>>
ASSUME \A x \in Boundaries : IntLaws(x)
=============================================================================
