------------------------------ MODULE PackHelpers ------------------------------
(***************************************************************************)
(* The free helper functions of packer/src/lib.rs and the IntUnpacker, as   *)
(* pure operators with their laws (extension round; none of them is named   *)
(* by the text of C08, so a deviation of the code is DRIFT -- except a      *)
(* panic on a call the API permits).                                        *)
(*                                                                         *)
(*   in_range / at_least / positive / to_bool     range checks on integers  *)
(*   sanitize                                     no control characters     *)
(*   bytes_to_string                              NUL-padded field -> string*)
(*   string_to_ints (3 / 4 / 6 / any n)           string -> big-endian ints *)
(*   string_to_bytes                              string + NUL into a buffer*)
(*   IntUnpacker: new / read_int / finish / as_slice / is_empty             *)
(*                                                                         *)
(* A helper call is a record [f, a, b, n] (name, integer arguments, byte    *)
(* string argument, count); Helper(c) is the result record                  *)
(* [res, v, b, ints, warn] the format prescribes.                           *)
(***************************************************************************)
EXTENDS VarInt

Call(f, a, b, n) == [f |-> f, a |-> a, b |-> b, n |-> n]
HRes(res, v, b, ints, warn) == [res |-> res, v |-> v, b |-> b, ints |-> ints, warn |-> warn]

(* ---------------------------- range checks ------------------------------ *)
RangeRes(ok, v) == IF ok THEN HRes("ok", v, <<>>, <<>>, FALSE) ELSE HRes("range", 0, <<>>, <<>>, FALSE)
InRange(v, lo, hi) == RangeRes(lo <= v /\ v <= hi, v)
AtLeast(v, lo) == RangeRes(lo <= v, v)
Positive(v) == RangeRes(v >= 0, v)
ToBool(v) == RangeRes(v \in {0, 1}, v)                       \* the boolean as 0 / 1

(* ---------------------------- strings ----------------------------------- *)
NulFree(s) == \A i \in 1..Len(s) : s[i] # 0
NoCtrl(s) == \A i \in 1..Len(s) : s[i] >= 32
Sanitize(s) == IF NoCtrl(s) THEN HRes("ok", 0, s, <<>>, FALSE) ELSE HRes("ctrl", 0, <<>>, <<>>, FALSE)

\* a fixed-size field: the string ends at the first NUL; a field without NUL loses its last byte
\* (the terminator is forced); anything but zeros behind the first NUL -- and the empty field -- is
\* "weird"
FirstNul(b) == IF NulFree(b) THEN Len(b) ELSE CHOOSE i \in 1..Len(b) : b[i] = 0 /\ \A j \in 1..(i - 1) : b[j] # 0
BytesToString(b) == IF b = <<>> THEN HRes("ok", 0, <<>>, <<>>, TRUE) ELSE
                    LET e == FirstNul(b) IN
                    HRes("ok", 0, SubSeq(b, 1, e - 1), <<>>, \E j \in e..Len(b) : b[j] # 0)

\* string -> n integers: byte k of the big-endian byte form is s[k] + 0x80 (mod 256), zero padding
\* (stored as 0x80), but the very last byte is stored as 0x00.  Precondition (asserted): s is
\* NUL-free and shorter than 4n.
Stored(n, s, k) == IF k = 4 * n THEN 0 ELSE ((IF k <= Len(s) THEN s[k] ELSE 0) + 128) % 256
Signed8(v) == IF v >= 128 THEN v - 256 ELSE v
IntOf(b0, b1, b2, b3) == Signed8(b0) * 16777216 + b1 * 65536 + b2 * 256 + b3         \* stays inside 32 bits
StringToIntsPre(n, s) == NulFree(s) /\ Len(s) < 4 * n
StringToInts(n, s) == [j \in 1..n |-> IntOf(Stored(n, s, 4 * j - 3), Stored(n, s, 4 * j - 2), Stored(n, s, 4 * j - 1), Stored(n, s, 4 * j))] \o <<>>
\* the inverse (Teeworlds' IntsToStr): bytes minus 0x80, the last one forced to NUL, cut at the first NUL
ByteOf(x, k) == LET u == IF x < 0 THEN (x + P30) + P30 ELSE x       \* low 31 bits
                    top == (u \div 16777216) + (IF x < 0 THEN 128 ELSE 0) IN
                CASE k = 0 -> top [] k = 1 -> (u \div 65536) % 256 [] k = 2 -> (u \div 256) % 256 [] k = 3 -> u % 256
IntsStored(xs) == [k \in 1..(4 * Len(xs)) |-> ByteOf(xs[(k - 1) \div 4 + 1], (k - 1) % 4)] \o <<>>       \* big-endian byte form
IntsToBytes(xs) == LET st == IntsStored(xs) IN [k \in 1..Len(st) |-> IF k = Len(st) THEN 0 ELSE (st[k] + 128) % 256] \o <<>>
IntsToString(xs) == BytesToString(IntsToBytes(xs)).b

\* string + NUL into a buffer of `cap` bytes
StringToBytes(cap, s) == IF ~NulFree(s) THEN HRes("panic", 0, <<>>, <<>>, FALSE)
                         ELSE IF Len(s) + 1 > cap THEN HRes("cap", 0, <<>>, <<>>, FALSE)
                         ELSE HRes("ok", 0, s \o <<0>>, <<>>, FALSE)

Helper(c) == CASE c.f = "in_range" -> InRange(c.a[1], c.a[2], c.a[3])
               [] c.f = "at_least" -> AtLeast(c.a[1], c.a[2])
               [] c.f = "positive" -> Positive(c.a[1])
               [] c.f = "to_bool"  -> ToBool(c.a[1])
               [] c.f = "sanitize" -> Sanitize(c.b)
               [] c.f = "bytes_to_string" -> BytesToString(c.b)
               [] c.f = "string_to_ints" -> IF StringToIntsPre(c.n, c.b) THEN HRes("ok", 0, <<>>, StringToInts(c.n, c.b), FALSE)
                                            ELSE HRes("panic", 0, <<>>, <<>>, FALSE)
               [] c.f = "string_to_bytes" -> StringToBytes(c.n, c.b)

(* ---------------------------- laws -------------------------------------- *)
\* total (one of the results of the vocabulary), result unchanged on success, and the three
\* one-sided checks are instances of in_range
RangeLaws(v, lo, hi) ==
    /\ InRange(v, lo, hi).res \in {"ok", "range"}
    /\ InRange(v, lo, hi).res = "ok" => InRange(v, lo, hi).v = v
    /\ InRange(v, MININT, MAXINT).res = "ok"
    /\ AtLeast(v, lo) = InRange(v, lo, MAXINT)
    /\ Positive(v) = InRange(v, 0, MAXINT)
    /\ ToBool(v) = InRange(v, 0, 1)
    /\ (lo > hi) => InRange(v, lo, hi).res = "range"
\* sanitize is the identity on what it accepts, idempotent; bytes_to_string returns a NUL-free prefix,
\* is warning-free exactly on "string, then one or more zeros" (the canonical field), and is the
\* inverse of padding
StrLaws(b) ==
    LET s == Sanitize(b) t == BytesToString(b) IN
    /\ s.res = "ok" => s.b = b /\ Sanitize(s.b) = s
    /\ (s.res = "ctrl") <=> (\E i \in 1..Len(b) : b[i] \in 0..31)
    /\ NulFree(t.b) /\ Len(t.b) <= Len(b) /\ t.b = SubSeq(b, 1, Len(t.b))
    /\ b # <<>> => Len(t.b) < Len(b)
    /\ (~t.warn) <=> (b # <<>> /\ b = t.b \o [j \in 1..(Len(b) - Len(t.b)) |-> 0])
    /\ \A k \in 1..3 : NulFree(b) => BytesToString(b \o [j \in 1..k |-> 0]) = HRes("ok", 0, b, <<>>, FALSE)
\* string_to_ints: total on its precondition, n integers inside 32 bits, canonical byte form (string, zero
\* padding, terminator), and the inverse gives the string back (so it is injective)
IntsLaws(n, s) ==
    StringToIntsPre(n, s) =>
       LET xs == StringToInts(n, s) IN
       /\ Len(xs) = n /\ \A j \in 1..n : xs[j] \in Int32
       /\ IntsStored(xs) = [k \in 1..(4 * n) |-> Stored(n, s, k)]
       /\ IntsToString(xs) = s
       /\ BytesToString(IntsToBytes(xs)).warn = FALSE
       /\ StringToBytes(Len(s) + 1, s).b = s \o <<0>> /\ StringToBytes(Len(s), s).res = "cap"

\* examples: the server's b"default" skin (string_to_ints6) and the empty clan (string_to_ints3)
ASSUME /\ StringToInts(3, <<>>) = <<-2139062144, -2139062144, -2139062272>>
       /\ StringToInts(1, <<97, 98, 99>>) = <<IntOf(225, 226, 227, 0)>>
       /\ IntsToString(StringToInts(6, <<100, 101, 102, 97, 117, 108, 116>>)) = <<100, 101, 102, 97, 117, 108, 116>>
       /\ BytesToString(<<97, 0, 0>>) = HRes("ok", 0, <<97>>, <<>>, FALSE)
       /\ BytesToString(<<97, 98>>) = HRes("ok", 0, <<97>>, <<>>, TRUE)
       /\ BytesToString(<<97, 0, 1>>).warn /\ BytesToString(<<0>>) = HRes("ok", 0, <<>>, <<>>, FALSE)

(* ---------------------------- IntUnpacker ------------------------------- *)
\* an unpacker over a slice of integers; pos = number of integers consumed
IURead(xs, pos) == IF pos < Len(xs) THEN [res |-> "ok", v |-> xs[pos + 1], w |-> {}, to |-> pos + 1]
                   ELSE [res |-> "end", v |-> 0, w |-> {}, to |-> Len(xs)]
IUFinish(xs, pos) == [res |-> "ok", v |-> 0, w |-> IF pos < Len(xs) THEN {"ExcessData"} ELSE {}, to |-> Len(xs)]
IUOp(xs, pos, o) == IF o = "finish" THEN IUFinish(xs, pos) ELSE IURead(xs, pos)
=============================================================================
