------------------------------ MODULE PackOps ------------------------------
(***************************************************************************)
(* Pure operators of the packer / unpacker of packer/src/lib.rs over the   *)
(* wire format of doc/int.md (VarInt.tla): items and their wire form, the  *)
(* write rule, the read operations.  Used by Packer.tla (state machine,    *)
(* model checking, direction A) and VarIntTrace.tla (direction B).         *)
(***************************************************************************)
EXTENDS VarInt

(* ---------------------------- items and their wire form ---------------- *)
IntItem(x)  == [k |-> "int",  x |-> x, b |-> <<>>]
StrItem(s)  == [k |-> "str",  x |-> 0, b |-> s]      \* s contains no NUL (caller's obligation: write_string asserts it)
DataItem(d) == [k |-> "data", x |-> 0, b |-> d]
RawItem(d)  == [k |-> "raw",  x |-> 0, b |-> d]
UuidItem(d) == [k |-> "uuid", x |-> 0, b |-> d]      \* write_uuid (feature `uuid`): the 16 bytes of the UUID, raw
UUIDLEN == 16

Enc(it) == CASE it.k = "int"  -> Encode(it.x)
             [] it.k = "str"  -> it.b \o <<0>>
             [] it.k = "data" -> Encode(Len(it.b)) \o it.b
             [] it.k = "raw"  -> it.b
             [] it.k = "uuid" -> it.b

Take(s, n) == SubSeq(s, 1, Min2(n, Len(s)))
Zeros(n) == [i \in 1..n |-> 0]
ConcatEnc(items) == FoldLeft(LAMBDA acc, it : acc \o Enc(it), <<>>, items)

\* a write is accepted iff its whole wire form fits into what is left
Fits(len, cap, it) == len + Len(Enc(it)) <= cap
\* detail of libtw2 (BufferRef::extend): bytes are copied one at a time, so a refused
\* write leaves the buffer filled up to its capacity with the head of the wire form
WriteBuf(buf, cap, it) == Take(buf \o Enc(it), cap)

(* ---------------------------- reads ----------------------------------- *)
\* a read operation: [o |-> "int" | "str" | "strsan" | "data" | "raw" | "uuid" | "rest" | "finish", n |-> length for raw]
\* ("strsan" is the composition the generated protocol code uses: sanitize(read_string()?)?)
Op(o, n) == [o |-> o, n |-> n]
MatchingOp(it) == IF it.k = "raw" THEN Op("raw", Len(it.b)) ELSE Op(it.k, 0)

\* result of a read at offset pos (0-based) of data.  res: "ok" | "end" (UnexpectedEnd) | "ctrl" (ControlCharacters, strsan only);
\* v: integer result; b: byte-string result; w: warnings; to: offset afterwards
Res(res, v, b, w, to) == [res |-> res, v |-> v, b |-> b, w |-> w, to |-> to]
Fail(data, w) == Res("end", 0, <<>>, w, Len(data))          \* every failure uses the input up ("poisons")

RInt(data, pos) == LET d == DecodeAt(data, pos) IN
    IF d.r = "end" THEN Fail(data, {}) ELSE Res("ok", d.vimpl, <<>>, d.w, pos + d.used)
RStr(data, pos) == LET nul == {i \in (pos + 1)..Len(data) : data[i] = 0} IN
    IF nul = {} THEN Fail(data, {})
    ELSE LET j == CHOOSE i \in nul : \A i2 \in nul : i <= i2 IN Res("ok", 0, SubSeq(data, pos + 1, j - 1), {}, j)
RData(data, pos) == LET d == DecodeAt(data, pos) IN
    IF d.r = "end" THEN Fail(data, {})
    ELSE IF d.vimpl < 0 \/ d.vimpl > Len(data) - (pos + d.used) THEN Fail(data, d.w)
    ELSE Res("ok", 0, SubSeq(data, pos + d.used + 1, pos + d.used + d.vimpl), d.w, pos + d.used + d.vimpl)
RRaw(data, pos, n) ==
    IF n > Len(data) - pos THEN Fail(data, {}) ELSE Res("ok", 0, SubSeq(data, pos + 1, pos + n), {}, pos + n)
\* read_uuid = read_raw(16) turned into a Uuid (a copy of the 16 bytes)
RUuid(data, pos) == RRaw(data, pos, UUIDLEN)
\* sanitize: a string with a control character (< 0x20) is refused; the cursor stays behind the NUL
HasCtrl(b) == \E i \in 1..Len(b) : b[i] < 32
RStrSan(data, pos) == LET r == RStr(data, pos) IN
    IF r.res = "ok" /\ HasCtrl(r.b) THEN Res("ctrl", 0, <<>>, {}, r.to) ELSE r
RRest(data, pos) == Res("ok", 0, SubSeq(data, pos + 1, Len(data)), {}, Len(data))
\* finish: "ExcessData" unless everything was read; demo data is padded to a multiple of four
\* bytes, so up to three trailing zero bytes are not excess there
RFinish(data, pos, dm) == LET rest == SubSeq(data, pos + 1, Len(data))
                              excess == IF dm THEN Len(rest) >= 4 \/ \E i \in 1..Len(rest) : rest[i] # 0
                                        ELSE Len(rest) > 0
                          IN Res("ok", 0, <<>>, IF excess THEN {"ExcessData"} ELSE {}, Len(data))

Read(data, pos, dm, op) == CASE op.o = "int"    -> RInt(data, pos)
                             [] op.o = "str"    -> RStr(data, pos)
                             [] op.o = "strsan" -> RStrSan(data, pos)
                             [] op.o = "uuid"   -> RUuid(data, pos)
                             [] op.o = "data"   -> RData(data, pos)
                             [] op.o = "raw"    -> RRaw(data, pos, op.n)
                             [] op.o = "rest"   -> RRest(data, pos)
                             [] op.o = "finish" -> RFinish(data, pos, dm)

\* what reading item `it` back must return
Expected(it, to) == CASE it.k = "int" -> Res("ok", it.x, <<>>, {}, to)
                      [] OTHER       -> Res("ok", 0, it.b, {}, to)

DemoPad(len) == (4 - (len % 4)) % 4
=============================================================================
