\* 2^22 integers around zero + boundaries; exported to the harness (direction A)
CONSTANTS NBlocks = 4096  EXPORT = TRUE
INIT Init
NEXT Next
INVARIANT Inv
