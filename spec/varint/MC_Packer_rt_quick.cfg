\* round trip: up to 2 writes from 11 items into 6 capacities (exact-fit capacities: MC_Packer_bands), read back item by item, one free read
CONSTANTS Items <- MC_Items_q
          FirstItems <- MC_Items_q
          Caps = {0, 1, 2, 3, 7, 16}
          MaxW = 2
          ReadOps <- MC_ReadOps
          MaxFree = 1
          Mode = "match"
          RawDatas <- MC_None
          EXPORT = TRUE
INIT Init
NEXT Next
INVARIANT Inv
