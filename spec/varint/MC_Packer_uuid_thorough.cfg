\* write_uuid / read_uuid (feature uuid): up to 3 writes; capacities around 16, 32, 48; read back, two free reads
CONSTANTS Items <- MC_UuidItems
          FirstItems <- MC_UuidFillers
          Caps = {0, 1, 15, 16, 17, 18, 31, 32, 33, 34, 47, 48, 49, 50}
          MaxW = 3
          ReadOps <- MC_UuidReadOps
          MaxFree = 2
          Mode = "match"
          RawDatas <- MC_None
          EXPORT = TRUE
INIT Init
NEXT Next
INVARIANT Inv
