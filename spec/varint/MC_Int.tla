------------------------------ MODULE MC_Int ------------------------------
(* C08, integer half: IntLaws on a contiguous range around zero plus the boundary
   set.  The range is cut into blocks of 1024 values, one block per state; blocks
   hang under group states so that TLC's workers share the work (a successor's
   invariant is evaluated by the worker that expands its parent).  With
   EXPORT = TRUE every (x, Encode(x)) is printed as a test vector for the harness
   (direction A). *)
EXTENDS IntClasses
CONSTANTS NBlocks, EXPORT      \* NBlocks: multiple of 16
VARIABLES lvl, idx
vars == <<lvl, idx>>
Lo(b) == (b - NBlocks \div 2) * 1024
Block(b) == Lo(b)..(Lo(b) + 1023)
Init == lvl = 0 /\ idx = 0
Root  == lvl = 0 /\ lvl' = 1 /\ idx' \in 0..15
Group == lvl = 1 /\ lvl' = 2 /\ idx' \in {b \in 0..(NBlocks - 1) : b % 16 = idx}
Next == Root \/ Group
\* the integers of a state, as a sequence (sets of tuples are expensive to normalise and print)
BSeq == SetToSeq(Boundaries)
Xs == CASE lvl = 0 -> BSeq [] lvl = 1 -> <<>> [] lvl = 2 -> [i \in 1..1024 |-> Lo(idx) + i - 1]
Inv == LET xs == Xs IN        \* evaluated once per state
       /\ \A i \in 1..Len(xs) : IntLaws(xs[i]) /\ ClassAgrees(xs[i])
       /\ (EXPORT /\ xs # <<>>) => PrintT("@I " \o ToString([i \in 1..Len(xs) |-> <<xs[i], Encode(xs[i])>>]))
=============================================================================
