\* reads of every kind, in every order, on an unpacker that has (or has not yet) reported an error: 3 free reads of 10 kinds
CONSTANTS Items <- MC_None
          FirstItems <- MC_None
          Caps = {}
          MaxW = 0
          ReadOps <- MC_ReadOpsX
          MaxFree = 3
          Mode = "any"
          RawDatas <- MC_PoisonDatas
          EXPORT = TRUE
INIT Init
NEXT Next
INVARIANT Inv
