\* all strings of length <= 2; <<b1,b2,b3>> for b3 in a boundary set; 4/5-byte sweep with middles {0,255}
CONSTANTS Third = {0, 128, 255}
          Mid = {0, 255}
          EXPORT = TRUE
INIT Init
NEXT Next
INVARIANT Inv
