\* exact fit: a filler of 0, 1 or 2 bytes, then an integer from every magnitude band, capacities 0..8
\* (room left for the integer = len - 1, len, len + 1 for every encoded length 1..5); read back
CONSTANTS Items <- MC_Bands
          FirstItems <- MC_Fillers
          Caps = {0, 1, 2, 3, 4, 5, 6, 7, 8}
          MaxW = 2
          ReadOps <- MC_ReadOps
          MaxFree = 0
          Mode = "match"
          RawDatas <- MC_None
          EXPORT = TRUE
INIT Init
NEXT Next
INVARIANT Inv
