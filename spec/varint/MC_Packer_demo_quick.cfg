\* demo padding rule in full: every cursor position in inputs of length 0, 4, 8, then finish (and reads behind it); 2 free reads
CONSTANTS Items <- MC_None
          FirstItems <- MC_None
          Caps = {}
          MaxW = 0
          ReadOps <- MC_DemoReadOps
          MaxFree = 2
          Mode = "any"
          RawDatas <- MC_DemoDatas
          EXPORT = TRUE
INIT Init
NEXT Next
INVARIANT Inv
