\* helper functions: all strings of length <= 4 over 7 bytes; IntUnpacker: slices of <= 2 integers, 4 operations
CONSTANTS Alpha = {0, 1, 31, 32, 127, 128, 255}
          MaxLen = 4
          Ns = {1, 2}
          RVals <- MC_RVals
          IVals <- MC_IVals
          MaxInts = 2
          MaxOps = 4
          EXPORT = TRUE
INIT Init
NEXT Next
INVARIANT Inv
