\* 2^17 integers around zero + boundaries; exported to the harness (direction A)
CONSTANTS NBlocks = 128  EXPORT = TRUE
INIT Init
NEXT Next
INVARIANT Inv
