\* 2^16 integers around zero + boundaries; exported to the harness (direction A)
CONSTANTS NBlocks = 64  EXPORT = TRUE
INIT Init
NEXT Next
INVARIANT Inv
