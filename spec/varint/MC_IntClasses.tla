------------------------------ MODULE MC_IntClasses ------------------------------
(* Prints the class table of IntClasses.tla (its laws are ASSUMEs, checked when the module is
   loaded) for the sweep of all 2^32 integers on the real code; ClassAgrees on a strided sample
   of every class as the invariant of the single state per class. *)
EXTENDS IntClasses
CONSTANTS Samples        \* integers checked per class on the model (evenly spread)
VARIABLES c
Init == c = 0
Next == c = 0 /\ c' \in 1..10
Inv == IF c = 0 THEN ExportClasses
       ELSE LET s == (c - 1) \div 5 n == ((c - 1) % 5) + 1
                step == ((MHi(n) - MLo(n)) \div Samples) + 1 IN
            \A j \in 0..(Samples - 1) :
               LET m == MLo(n) + j * step IN
               m <= MHi(n) => LET x == IF s = 1 THEN Flip(m) ELSE m IN ClassAgrees(x) /\ IntLaws(x)
=============================================================================
