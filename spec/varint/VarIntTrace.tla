------------------------------ MODULE VarIntTrace ------------------------------
(***************************************************************************)
(* Direction B for C08: validates an NDJSON trace recorded from the real    *)
(* libtw2-packer (harness/crates/codec, vh-varint) against VarInt.tla /     *)
(* PackOps.tla.  One state per event; an event is consumed only if the      *)
(* PROPERTY-level judgement (PropX ops) accepts it -- otherwise the trace is *)
(* rejected at that event (VIOLATION).  Where the real code differs from    *)
(* the DETAILED model in something the property does not talk about, the    *)
(* event is consumed and a line "@DRIFT <index> <what>" is printed.         *)
(*                                                                         *)
(* Events (field e):                                                       *)
(*   ints   items: [x, wres, enc, canary, rres, rv, rused, rw, xres, xenc, sres] *)
(*          write_int(x) into 5 bytes, then read_int of the output         *)
(*   decs   items: [b, res, v, used, w]        read_int on arbitrary bytes *)
(*   pk_new cap bk pre / w k x b res after / pk_end res written canary owner *)
(*   up_new demo data src pad res / r o n res v b w to rl sfx empty off    *)
(*   helpers items: [f, a, b, n, res, v, out, ints, warn]   free helper functions *)
(*   iu_new xs / ir o res v w to rest empty                 IntUnpacker    *)
(***************************************************************************)
EXTENDS PackOps, PackHelpers, TLC, Json, IOUtils

Rec == ndJsonDeserialize(IOEnv.TRACE)
N == Len(Rec)

VARIABLES i, st
vars == <<i, st>>

SeqToSet(s) == {s[j] : j \in 1..Len(s)}
Drift(what) == PrintT("@DRIFT " \o ToString(i) \o " " \o what)
\* detail check: never blocks, only reports
Detail(ok, what) == IF ok THEN TRUE ELSE Drift(what)     \* (a disjunction here would be an action-level choice for TLC)

(* ------------------------------------------------------------ integers *)
\* every integer is packed into one to five bytes that unpack to the same integer with no
\* warning and nothing left over; the bytes are the canonical (shortest) encoding
PropInt(r) == /\ r.wres = "ok" /\ r.canary = TRUE
              /\ r.enc = Encode(r.x) /\ Len(r.enc) \in 1..5
              /\ r.rres = "ok" /\ r.rv = r.x /\ r.rused = Len(r.enc) /\ r.rw = <<>>
              \* a buffer with exactly Len(Encode(x)) bytes of room takes it, one byte less is refused
              /\ r.xres = "ok" /\ r.xenc = Encode(r.x) /\ r.sres = "cap"

\* decoding fails only because the string ends too early, yields the documented value (for
\* zero padding), consumes the documented number of bytes and is warning-free exactly when
\* the consumed bytes are the canonical encoding
PropDec(r) == LET d == Decode(r.b) IN
              /\ r.res \in {"ok", "end"}
              /\ (r.res = "end") <=> (d.r = "end")
              /\ r.res = "ok" => /\ r.used = d.used
                                 /\ d.pad = 0 => r.v = d.v
                                 /\ (r.w = <<>>) <=> (SubSeq(r.b, 1, d.used) = Encode(d.v) /\ d.pad = 0)
DetailDec(r) == LET d == Decode(r.b) IN
                r.res = "ok" => r.v = d.vimpl /\ SeqToSet(r.w) = d.w /\ Len(r.w) = Cardinality(d.w)

(* Every judgement below is a plain boolean EXPRESSION (Next compares it with TRUE) and the
   successor state a plain value: TLC then evaluates them in expression mode, where a LET
   definition is evaluated once (as part of an action it is re-evaluated at every use). *)
Ints(e) == \A k \in 1..Len(e.items) : PropInt(e.items[k])
Decs(e) == /\ \A k \in 1..Len(e.items) : PropDec(e.items[k])
           /\ \A k \in 1..Len(e.items) : Detail(DetailDec(e.items[k]), "read_int detail " \o ToString(e.items[k]))

(* ------------------------------------------------------------ packer *)
\* buf: the detailed model's buffer; plen: the real length so far; acc / accpre: the ACCEPTED items and
\* the concatenation of their wire forms
PkNewSt(e) == [m |-> "pk", cap |-> e.cap, buf |-> <<>>, plen |-> 0, allok |-> TRUE, accpre |-> <<>>, acc |-> <<>>, pre |-> e.pre, bk |-> e.bk]

Item(e) == [k |-> e.k, x |-> e.x, b |-> e.b]
W(e) == LET it == Item(e)
            n == Len(Enc(it))
            ok == e.res = "ok" IN
        /\ st.m = "pk"
        \* property: refused iff it does not fit; an accepted write appends exactly its wire form;
        \* never more than the capacity
        /\ e.res \in {"ok", "cap"}
        /\ ok <=> (st.plen + n <= st.cap)
        /\ ok => e.after = st.plen + n
        /\ st.plen <= e.after /\ e.after <= st.cap
        \* what is accepted is read back in order: an accepted (non-empty) item directly follows the
        \* previously accepted ones -- a refused write must leave the buffer unchanged or unable to
        \* accept anything (libtw2: filled up), never bytes of its own in front of later items
        /\ (ok /\ n > 0) => st.plen = Len(st.accpre)
        /\ Detail(e.after = Len(WriteBuf(st.buf, st.cap, it)), "length after a refused write")
WSt(e) == LET it == Item(e) ok == e.res = "ok" IN
          [st EXCEPT !.buf = WriteBuf(st.buf, st.cap, it), !.plen = e.after, !.allok = @ /\ ok,
                     !.accpre = IF ok THEN @ \o Enc(it) ELSE @,
                     !.acc = IF ok THEN Append(@, it) ELSE @]

PkEnd(e) == /\ st.m = "pk"
            /\ e.res = "ok" /\ e.canary = TRUE
            /\ Len(e.written) = st.plen /\ Len(e.written) <= st.cap
            /\ st.allok => e.written = st.accpre
            \* the accepted items, in order, are what written() starts with (whatever a refused write left
            \* behind can only follow them)
            /\ Len(st.accpre) <= Len(e.written) /\ SubSeq(e.written, 1, Len(st.accpre)) = st.accpre
            /\ Detail(e.written = st.buf, "buffer contents after a refused write")
            \* whatever memory with_packer was given (slice, Vec, ArrayVec): its owner holds what it held before,
            \* then written() (the buffer abstraction itself is C19's subject: detail here)
            /\ Detail(e.owner = st.pre \o e.written, "owner of the memory (" \o st.bk \o ") does not hold old contents + written()")
PkEndSt(e) == [m |-> "done", written |-> e.written, clean |-> Len(e.written) = Len(st.accpre), items |-> st.acc]

(* ------------------------------------------------------------ unpacker *)
\* new_from_demo asserts that the data is padded to a multiple of four bytes: the only refusal there is
UpNew(e) == /\ e.res \in {"ok", "panic"}
            /\ e.res = "panic" => (e.demo /\ Len(e.data) % 4 # 0)
            /\ Detail(e.res = "ok" => (e.demo => Len(e.data) % 4 = 0), "new_from_demo accepted data that is not padded")
            /\ e.src = "packer" => (st.m = "done" /\ e.data = st.written \o Zeros(e.pad))
UpNewSt(e) == IF e.res # "ok" THEN [m |-> "idle"] ELSE
              IF e.src = "packer"
              THEN [m |-> "up", data |-> e.data, demo |-> e.demo, pos |-> 0, pad |-> e.pad,
                    rt |-> TRUE, clean |-> st.clean, items |-> st.items, wlen |-> Len(st.written), sync |-> TRUE, ridx |-> 1]
              ELSE [m |-> "up", data |-> e.data, demo |-> e.demo, pos |-> 0, pad |-> 0,
                    rt |-> FALSE, clean |-> FALSE, items |-> <<>>, wlen |-> 0, sync |-> FALSE, ridx |-> 1]

R(e) == LET op == Op(e.o, e.n)
            x == Read(st.data, st.pos, st.demo, op)
            \* what the property prescribes: sanitize (strsan) is not part of it, read_string is
            xp == IF e.o = "strsan" THEN RStr(st.data, st.pos) ELSE x
            d == DecodeAt(st.data, st.pos)
            \* the documentation prescribes the value only for zero padding bits
            defined == ~(e.o \in {"int", "data"} /\ d.r = "ok" /\ d.pad # 0)
            insync == st.rt /\ st.sync /\ st.ridx <= Len(st.items)
            w == SeqToSet(e.w) IN
        /\ st.m = "up"
        \* never runs past the input; results are slices of the input
        /\ e.res \in {"ok", "end"} \cup (IF e.o = "strsan" THEN {"ctrl"} ELSE {}) /\ e.sfx = TRUE
        /\ e.to + e.rl = Len(st.data) /\ st.pos <= e.to /\ e.to <= Len(st.data)
        /\ (Len(e.b) > 0 /\ e.o # "uuid") => /\ e.off >= st.pos /\ e.off + Len(e.b) <= e.to
                                            /\ e.b = SubSeq(st.data, e.off + 1, e.off + Len(e.b))
        /\ (e.o = "uuid" /\ e.res = "ok") => e.b = SubSeq(st.data, st.pos + 1, st.pos + UUIDLEN) /\ e.to = st.pos + UUIDLEN
        \* the result the format prescribes
        /\ defined => /\ (e.res = "end") <=> (xp.res = "end")
                      /\ e.res = "ok" => /\ e.b = xp.b /\ e.to = xp.to /\ e.v = xp.v
                                         /\ (w = {}) <=> (xp.w = {})
        /\ ~defined => ((e.res = "ok" /\ e.o = "int") => e.to = x.to /\ w # {})
        \* accepted items are read back identically (also when other writes of the session were
        \* refused), with no warning
        /\ (insync /\ op = MatchingOp(st.items[st.ridx])) =>
              LET it == st.items[st.ridx] IN
              /\ e.res = "ok" /\ w = {} /\ e.to = st.pos + Len(Enc(it))
              /\ IF it.k = "int" THEN e.v = it.x ELSE e.b = it.b
        \* ... a written string also through the sanitising read when it has no control character
        /\ (insync /\ e.o = "strsan" /\ st.items[st.ridx].k = "str") =>
              LET it == st.items[st.ridx] IN
              /\ e.res # "end" /\ e.to = st.pos + Len(Enc(it)) /\ (e.res = "ok" => e.b = it.b)
        \* ... and nothing is left over but the padding
        /\ (st.rt /\ st.clean /\ st.sync /\ st.ridx = Len(st.items) + 1) =>
              /\ st.pos = st.wlen
              /\ e.o = "finish" => ((w = {}) <=> (IF st.demo THEN st.pad < 4 ELSE st.pad = 0))
              /\ (e.o \in {"int", "str", "strsan", "data", "uuid"} /\ st.pad = 0) => e.res = "end"
        /\ Detail(e.res = x.res /\ e.v = x.v /\ e.b = x.b /\ w = x.w /\ Len(e.w) = Cardinality(x.w) /\ e.to = x.to
                  /\ e.empty = (e.rl = 0),
                  "read " \o e.o \o " differs in detail: " \o ToString(e) \o " model " \o ToString(x))
RSt(e) == [st EXCEPT !.pos = e.to, !.ridx = @ + 1,
                     !.sync = @ /\ st.ridx <= Len(st.items)
                                /\ (Op(e.o, e.n) = MatchingOp(st.items[st.ridx]) \/ (e.o = "strsan" /\ st.items[st.ridx].k = "str"))]

(* ------------------------------------------------------------ helper functions (extension; detail level) *)
\* a call the API permits never panics (property level: a panic is never acceptable); everything else
\* about the helpers is not named by C08: deviations are reported as drift
HelperItem(r) == LET x == Helper(Call(r.f, r.a, r.b, r.n)) IN
                 /\ r.res = "panic" => x.res = "panic"
                 /\ r.res # "canary"
                 /\ Detail(r.res = x.res /\ r.v = x.v /\ r.out = x.b /\ r.ints = x.ints /\ r.warn = x.warn,
                           "helper " \o r.f \o " differs: " \o ToString(r) \o " model " \o ToString(x))
Helpers(e) == \A k \in 1..Len(e.items) : HelperItem(e.items[k])

(* ------------------------------------------------------------ IntUnpacker (extension) *)
IuNewSt(e) == [m |-> "iu", xs |-> e.xs, pos |-> 0]
IR(e) == LET x == IUOp(st.xs, st.pos, e.o)
             n == Len(st.xs) IN
         /\ st.m = "iu" /\ e.o \in {"int", "finish"}
         /\ e.res \in {"ok", "end"}
         \* never past the slice; as_slice() is what is left
         /\ st.pos <= e.to /\ e.to <= n /\ e.rest = SubSeq(st.xs, e.to + 1, n)
         \* the integers come back identically and in order; behind the end every read fails
         /\ e.o = "int" => /\ (e.res = "ok") <=> (st.pos < n)
                           /\ e.res = "ok" => e.v = st.xs[st.pos + 1] /\ e.to = st.pos + 1
         /\ e.o = "finish" => ((e.w = <<>>) <=> (st.pos = n))
         /\ Detail(e.res = x.res /\ e.v = x.v /\ SeqToSet(e.w) = x.w /\ Len(e.w) = Cardinality(x.w) /\ e.to = x.to
                   /\ e.empty = (e.to = n), "IntUnpacker " \o e.o \o " differs in detail: " \o ToString(e))
IRSt(e) == [st EXCEPT !.pos = e.to]

(* ------------------------------------------------------------ the trace *)
Accept(e) == CASE e.e = "ints"   -> Ints(e)
               [] e.e = "decs"   -> Decs(e)
               [] e.e = "pk_new" -> TRUE
               [] e.e = "w"      -> W(e)
               [] e.e = "pk_end" -> PkEnd(e)
               [] e.e = "up_new" -> UpNew(e)
               [] e.e = "r"      -> R(e)
               [] e.e = "helpers" -> Helpers(e)
               [] e.e = "iu_new" -> TRUE
               [] e.e = "ir"     -> IR(e)
               [] OTHER          -> FALSE
NextSt(e) == CASE e.e = "pk_new" -> PkNewSt(e)
               [] e.e = "w"      -> WSt(e)
               [] e.e = "pk_end" -> PkEndSt(e)
               [] e.e = "up_new" -> UpNewSt(e)
               [] e.e = "r"      -> RSt(e)
               [] e.e = "iu_new" -> IuNewSt(e)
               [] e.e = "ir"     -> IRSt(e)
               [] OTHER          -> st

Init == i = 1 /\ st = [m |-> "idle"]
Next == /\ i <= N
        /\ Accept(Rec[i]) = TRUE          \* (= TRUE: expression mode, see above)
        /\ st' = NextSt(Rec[i])
        /\ i' = i + 1
Spec == Init /\ [][Next]_vars

\* all events consumed?  (the diameter of the linear state graph is the number of consumed events + 1)
Post == LET d == TLCGet("stats").diameter IN
        IF d = N + 1 THEN PrintT("@ACCEPTED " \o ToString(N))
        ELSE /\ PrintT("TRACE REJECTED at event " \o ToString(d) \o " of " \o ToString(N))
             /\ PrintT("@REJECTED " \o ToJson([index |-> d, event |-> Rec[d]]))
=============================================================================
