\* round trip: up to 3 writes from 11 items into 9 capacities, read back item by item, one free read
CONSTANTS Items <- MC_Items_q
          FirstItems <- MC_Items_q
          Caps = {0, 1, 2, 3, 4, 5, 7, 9, 24}
          MaxW = 3
          ReadOps <- MC_ReadOps
          MaxFree = 1
          Mode = "match"
          RawDatas <- MC_None
          EXPORT = TRUE
INIT Init
NEXT Next
INVARIANT Inv
