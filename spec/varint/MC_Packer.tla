------------------------------ MODULE MC_Packer ------------------------------
(* Constants of the Packer.tla configurations (cfg files cannot hold records). *)
EXTENDS Packer
MC_Items_q == {IntItem(0), IntItem(-1), IntItem(-65), IntItem(8192), IntItem(MININT),
               StrItem(<<>>), StrItem(<<97>>), DataItem(<<>>), DataItem(<<7, 0>>), RawItem(<<>>), RawItem(<<128>>)}
MC_ReadOps == {Op("int", 0), Op("str", 0), Op("data", 0), Op("raw", 0), Op("raw", 1), Op("raw", 2), Op("rest", 0), Op("finish", 0)}
Alpha == {0, 1, 64, 128, 255}
MC_RawDatas_q == UNION {[1..n -> Alpha] : n \in 0..3}
MC_RawDatas_t == UNION {[1..n -> Alpha] : n \in 0..4}
MC_None == {}
(* Integers from every magnitude band of the encoding (1..5 bytes): low end, middle, high end, and
   their complements.  With the fillers of 0, 1, 2 bytes in front and capacities 0..8 every one of
   them is written with exactly len - 1, len and len + 1 bytes of room left. *)
BandVals == {0, 63, 64, 4095, 4096, 5000, 8191, 8192, 524288, 600000, 1048575, 1048576,
             67108864, 100000000, 134217727, 134217728, MAXINT}
MC_Bands == {IntItem(v) : v \in BandVals} \cup {IntItem(Flip(v)) : v \in BandVals}
\* (the data filler does not fit capacities 1..5 although its length prefix does: the integer after it
\* is then written by a caller that carries on after a refused write)
MC_Fillers == {RawItem(<<>>), RawItem(<<9>>), StrItem(<<97>>), DataItem(<<1, 2, 3, 4, 5>>)}
=============================================================================
