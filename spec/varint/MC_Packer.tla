------------------------------ MODULE MC_Packer ------------------------------
(* Constants of the Packer.tla configurations (cfg files cannot hold records). *)
EXTENDS Packer
MC_Items_q == {IntItem(0), IntItem(-1), IntItem(-65), IntItem(8192), IntItem(MININT),
               StrItem(<<>>), StrItem(<<97>>), DataItem(<<>>), DataItem(<<7, 0>>), RawItem(<<>>), RawItem(<<128>>)}
MC_ReadOps == {Op("int", 0), Op("str", 0), Op("data", 0), Op("raw", 0), Op("raw", 1), Op("raw", 2), Op("rest", 0), Op("finish", 0)}
Alpha == {0, 1, 64, 128, 255}
MC_RawDatas_q == UNION {[1..n -> Alpha] : n \in 0..3}
MC_RawDatas_t == UNION {[1..n -> Alpha] : n \in 0..4}
MC_None == {}
(* Integers from every magnitude band of the encoding (1..5 bytes): low end, middle, high end, and
   their complements.  With the fillers of 0, 1, 2 bytes in front and capacities 0..8 every one of
   them is written with exactly len - 1, len and len + 1 bytes of room left. *)
BandVals == {0, 63, 64, 4095, 4096, 5000, 8191, 8192, 524288, 600000, 1048575, 1048576,
             67108864, 100000000, 134217727, 134217728, MAXINT}
MC_Bands == {IntItem(v) : v \in BandVals} \cup {IntItem(Flip(v)) : v \in BandVals}
\* (the data filler does not fit capacities 1..5 although its length prefix does: the integer after it
\* is then written by a caller that carries on after a refused write)
MC_Fillers == {RawItem(<<>>), RawItem(<<9>>), StrItem(<<97>>), DataItem(<<1, 2, 3, 4, 5>>)}
(* ---- extension round: uuid items, sanitised strings, reads after an error, demo padding in full ---- *)
MC_ReadOpsX == MC_ReadOps \cup {Op("strsan", 0), Op("uuid", 0)}
U1 == <<0, 1, 127, 128, 255, 64, 0, 0, 10, 31, 32, 200, 16, 17, 254, 0>>
U2 == <<255, 255, 255, 255, 255, 255, 255, 255, 255, 255, 255, 255, 255, 255, 255, 255>>
MC_UuidItems == {UuidItem(U1), UuidItem(U2), IntItem(-65), RawItem(<<9>>), StrItem(<<97>>)}
MC_UuidFillers == {RawItem(<<>>), RawItem(<<9>>), IntItem(-65), UuidItem(U2)}
MC_UuidReadOps == {Op("uuid", 0), Op("raw", 16), Op("raw", 15), Op("int", 0), Op("strsan", 0), Op("rest", 0), Op("finish", 0)}
(* inputs on which every kind of read fails in each of its ways (and succeeds), so that the free reads
   behind it run on an unpacker that has just reported an error: int - every byte has the extend flag;
   str - no NUL; strsan - control character (not an error of the unpacker: the cursor stays behind
   the NUL); data - length negative / longer than the rest / truncated length; raw, uuid - too short *)
MC_PoisonDatas == {<<128>>, <<128, 255, 128, 255>>, <<1, 128>>, <<97, 98>>, <<97, 10, 0, 5>>, <<97, 0, 128>>,
                   <<64>>, <<5, 1, 2>>, <<2, 1, 2, 3>>, <<128, 1, 7>>, <<0, 0, 0, 0>>,
                   U1 \o <<3>>, SubSeq(U1, 1, 15), <<1>> \o U2 \o <<0, 0, 0>>}
(* demo padding in full: inputs of length 0, 4, 8 over {00, 07}; raw reads of every length bring the
   cursor to every position, then finish (0..8 bytes left, zero or not), finish twice, reads behind finish *)
MC_DemoDatas == {<<>>} \cup [1..4 -> {0, 7}] \cup {<<7, 7, 7>> \o t : t \in [1..5 -> {0, 7}]}
MC_DemoReadOps == {Op("raw", n) : n \in 0..8} \cup {Op("finish", 0), Op("int", 0), Op("rest", 0)}
=============================================================================
