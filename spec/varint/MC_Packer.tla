------------------------------ MODULE MC_Packer ------------------------------
(* Constants of the Packer.tla configurations (cfg files cannot hold records). *)
EXTENDS Packer
MC_Items_q == {IntItem(0), IntItem(-1), IntItem(-65), IntItem(8192), IntItem(MININT),
               StrItem(<<>>), StrItem(<<97>>), DataItem(<<>>), DataItem(<<7, 0>>), RawItem(<<>>), RawItem(<<128>>)}
MC_ReadOps == {Op("int", 0), Op("str", 0), Op("data", 0), Op("raw", 0), Op("raw", 1), Op("raw", 2), Op("rest", 0), Op("finish", 0)}
Alpha == {0, 1, 64, 128, 255}
MC_RawDatas_q == UNION {[1..n -> Alpha] : n \in 0..3}
MC_RawDatas_t == UNION {[1..n -> Alpha] : n \in 0..4}
MC_None == {}
=============================================================================
