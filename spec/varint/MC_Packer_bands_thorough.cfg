\* exact fit: a filler of 0, 1 or 2 bytes, then up to two integers from every magnitude band,
\* capacities 0..12; read back
CONSTANTS Items <- MC_Bands
          FirstItems <- MC_Fillers
          Caps = {0, 1, 2, 3, 4, 5, 6, 7, 8, 9, 10, 11, 12}
          MaxW = 3
          ReadOps <- MC_ReadOps
          MaxFree = 0
          Mode = "match"
          RawDatas <- MC_None
          EXPORT = TRUE
INIT Init
NEXT Next
INVARIANT Inv
