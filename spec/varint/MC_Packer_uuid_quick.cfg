\* write_uuid / read_uuid (feature uuid): a filler, then one item; capacities around 16 and 32; read back, one free read
CONSTANTS Items <- MC_UuidItems
          FirstItems <- MC_UuidFillers
          Caps = {0, 15, 16, 17, 18, 31, 32, 33, 34}
          MaxW = 2
          ReadOps <- MC_UuidReadOps
          MaxFree = 1
          Mode = "match"
          RawDatas <- MC_None
          EXPORT = TRUE
INIT Init
NEXT Next
INVARIANT Inv
