------------------------------ MODULE Packer ------------------------------
(***************************************************************************)
(* The packer / unpacker of packer/src/lib.rs as a state machine over the  *)
(* wire format of doc/int.md (VarInt.tla):                                 *)
(*                                                                         *)
(*   write phase  with_packer(buffer of capacity cap):                     *)
(*                write_int / write_string / write_data / write_raw,       *)
(*                each either fits (Ok) or reports CapacityError           *)
(*   read phase   Unpacker::new(data) / new_from_demo(data):               *)
(*                read_int / read_string / read_data / read_raw(n) /       *)
(*                read_rest / finish, with the warning sink                *)
(*                                                                         *)
(* The write and read logs are part of the state (history variables), so   *)
(* every reachable state is a complete, replayable test case (direction A) *)
(* and the properties are plain invariants over the logs.                  *)
(***************************************************************************)
EXTENDS PackOps, TLC

(* ---------------------------- the machine ------------------------------ *)
CONSTANTS Items,      \* the items a write may choose from
          FirstItems, \* ... the first write of a session from this set (fillers that set the room left for the next item)
          Caps,       \* buffer capacities
          MaxW,       \* writes per session
          ReadOps,    \* read operations for the free part of the read phase
          MaxFree,    \* number of free reads (after the matching ones in mode "match")
          Mode,       \* "match": read back item by item, then MaxFree free reads; "any": only free reads
          RawDatas,   \* arbitrary inputs for the unpacker (sessions without a write phase)
          EXPORT

VARIABLES ph,         \* "w" | "r" | "done"
          cap, buf, wlog,                 \* packer: capacity, contents, log of [it, res, before, after]
          demo, pad, data, pos, rlog      \* unpacker: mode, padding appended, input, offset, log of [op, r, from]
vars == <<ph, cap, buf, wlog, demo, pad, data, pos, rlog>>

Init == \/ /\ ph = "w" /\ cap \in Caps /\ buf = <<>> /\ wlog = <<>>
           /\ demo = FALSE /\ pad = 0 /\ data = <<>> /\ pos = 0 /\ rlog = <<>>
        \/ /\ ph = "r" /\ cap = -1 /\ buf = <<>> /\ wlog = <<>>
           /\ data \in RawDatas /\ demo \in {FALSE} \cup (IF Len(data) % 4 = 0 THEN {TRUE} ELSE {})
           /\ pad = 0 /\ pos = 0 /\ rlog = <<>>

Write(it) == /\ ph = "w" /\ Len(wlog) < MaxW
             /\ buf' = WriteBuf(buf, cap, it)
             /\ wlog' = Append(wlog, [it |-> it, res |-> IF Fits(Len(buf), cap, it) THEN "ok" ELSE "cap",
                                      before |-> Len(buf), after |-> Len(buf')])
             /\ UNCHANGED <<ph, cap, demo, pad, data, pos, rlog>>

\* hand the written bytes to an unpacker: as they are, with trailing zero bytes (non-demo: one
\* byte of excess; demo: the padding rule, or four bytes more than it allows)
StartRead == /\ ph = "w" /\ ph' = "r"
             /\ demo' \in BOOLEAN
             /\ pad' \in IF demo' THEN {DemoPad(Len(buf)), DemoPad(Len(buf)) + 4} ELSE {0, 1}
             /\ data' = buf \o Zeros(pad')
             /\ pos' = 0 /\ rlog' = <<>>
             /\ UNCHANGED <<cap, buf, wlog>>

AllOk == \A i \in 1..Len(wlog) : wlog[i].res = "ok"
\* the accepted writes (the caller may carry on after a refused one)
Acc == SelectSeq(wlog, LAMBDA e : e.res = "ok")
AccEnc == ConcatEnc([i \in 1..Len(Acc) |-> Acc[i].it])
\* the reads so far mirror the accepted writes (same kinds, same order)
InSync(n) == /\ n <= Len(Acc) /\ n <= Len(rlog)
             /\ \A j \in 1..n : rlog[j].op = MatchingOp(Acc[j].it)
NextOps == IF Mode = "match" /\ cap # -1 /\ Len(rlog) < Len(Acc) THEN {MatchingOp(Acc[Len(rlog) + 1].it)}
           ELSE ReadOps
Budget == IF Mode = "match" /\ cap # -1 THEN Len(Acc) + MaxFree ELSE MaxFree
DoRead(op) == /\ ph = "r" /\ Len(rlog) < Budget
              /\ LET r == Read(data, pos, demo, op) IN
                 /\ rlog' = Append(rlog, [op |-> op, r |-> r, from |-> pos])
                 /\ pos' = r.to
              /\ ph' = IF op.o = "finish" THEN "done" ELSE "r"
              /\ UNCHANGED <<cap, buf, wlog, demo, pad, data>>

Next == (\E it \in (IF wlog = <<>> THEN FirstItems ELSE Items) : Write(it)) \/ StartRead \/ (\E op \in NextOps : DoRead(op))
Spec == Init /\ [][Next]_vars

(* ---------------------------- properties ------------------------------- *)
(* The logs only grow and every prefix of a session is itself a reachable state, so
   each invariant inspects the newest log entry only (the older ones were inspected in
   the predecessor states). *)
LastW == wlog[Len(wlog)]
LastR == rlog[Len(rlog)]

\* the packer never holds more than its capacity; a write is refused iff it does not fit; an
\* accepted write appends exactly its wire form
PackerOK == /\ cap # -1 => Len(buf) <= cap
            /\ (ph = "w" /\ Len(wlog) > 0) => LET e == LastW IN
                  /\ (e.res = "ok") <=> (e.before + Len(Enc(e.it)) <= cap)
                  /\ e.res = "ok" => e.after = e.before + Len(Enc(e.it))
                  /\ e.before <= e.after /\ e.after <= cap /\ e.after = Len(buf)
                  /\ AllOk => buf = AccEnc
                  \* what was accepted is what written() starts with, in order; a refused write leaves
                  \* nothing of its own in front of a later accepted item
                  /\ Len(AccEnc) <= Len(buf) /\ SubSeq(buf, 1, Len(AccEnc)) = AccEnc
                  /\ (e.res = "ok" /\ Enc(e.it) # <<>>) => e.after = Len(AccEnc)

\* accepted items are read back identically (also after refused writes), with no warning, and --
\* when nothing was refused -- nothing is left over
RoundTripOK ==
    (cap # -1 /\ Len(rlog) > 0) =>
       LET n == Len(rlog) e == LastR IN
       /\ InSync(n) => /\ e.r = Expected(Acc[n].it, e.r.to)
                       /\ e.r.to = e.from + Len(Enc(Acc[n].it))
       /\ (AllOk /\ n = Len(wlog) + 1 /\ InSync(Len(wlog))) =>
             /\ e.from = Len(buf)                                         \* nothing left over but the padding
             /\ e.op.o = "finish" =>
                   ((e.r.w = {}) <=> (IF demo THEN pad < 4 ELSE pad = 0))   \* demo padding rule
             /\ (e.op.o \in {"int", "str", "strsan", "data", "uuid"} /\ pad = 0) => e.r.res = "end"   \* reading past the end fails

\* reading never runs past the input; results are slices of the input
NeverPastOK == /\ pos >= 0 /\ pos <= Len(data)
               /\ Len(rlog) > 0 => LET e == LastR IN
                     /\ e.from <= e.r.to /\ e.r.to <= Len(data) /\ pos = e.r.to
                     /\ \E a \in e.from..e.r.to : e.r.b = SubSeq(data, a + 1, a + Len(e.r.b)) /\ a + Len(e.r.b) <= e.r.to

\* an error uses the input up: every later read fails or returns nothing
PoisonedOK == Len(rlog) > 0 =>
                 LET e == LastR IN
                 /\ e.r.res = "end" => e.r.to = Len(data)
                 /\ (\E i \in 1..(Len(rlog) - 1) : rlog[i].r.res = "end") =>
                       /\ e.r.b = <<>> /\ e.from = Len(data)
                       /\ e.op.o \in {"int", "str", "strsan", "data", "uuid"} => e.r.res = "end"
                       /\ (e.op.o = "raw" /\ e.op.n > 0) => e.r.res = "end"
                       /\ e.op.o = "finish" => e.r.w = {}

Terminal == ph = "done" \/ (ph = "r" /\ Len(rlog) >= Budget)
\* direction A: every terminal state is a complete session, printed as one test case
Export == (EXPORT /\ Terminal) =>
             PrintT("@P " \o ToString(<<cap, [i \in 1..Len(wlog) |-> <<wlog[i].it.k, wlog[i].it.x, wlog[i].it.b, wlog[i].res, wlog[i].after>>],
                                        buf, demo, data,
                                        [i \in 1..Len(rlog) |-> <<rlog[i].op.o, rlog[i].op.n, rlog[i].r.res, rlog[i].r.v, rlog[i].r.b,
                                                                  rlog[i].r.w, rlog[i].r.to>>]>>))
Inv == PackerOK /\ RoundTripOK /\ NeverPastOK /\ PoisonedOK /\ Export
=============================================================================
