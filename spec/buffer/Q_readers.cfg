SPECIFICATION Spec
CONSTANTS
  MaxOps = 3
  MaxDepth = 2
  MCKinds = {"vec", "arrayvec", "slice", "sliceref", "raw"}
  Caps = {0, 3}
  Len0s = {0, 1}
  Sizes = {1}
  ExtExact = {}
  ExtNoHint = {}
  ExtUnder = {}
  ExtOver = {}
  AdvSizes = {}
  ScrSizes = {}
  Avails = {2}
  CapAts = {1}
  CapAts2 = {}
  RelCaps = {}
  OverKinds = {}
  TouchCaps = {}
  TouchOn = FALSE
  CloseInitOn = TRUE
  UnwindOn = FALSE
  ViaSet = {}
  ViaCaps = {}
  Readers = {"mutref", "bufreader", "empty", "repeat", "take", "short", "chain", "err"}
  RdAvails = {2}
  RdCaps = {}
  UserWho = {}
  UserSizes = {}
  UserCaps = {}
  PkKinds = {}
  PkSizes = {}
  PkInts = {}
  PkNegInts = {}
  GrowBy = {}
  RawDirtyNs = {}
VIEW View
INVARIANTS InitLeSpare Nested Contents OwnerBytes Untouched
PROPERTIES Frame FrameTop WriteBack Refusal SliceReported RefusedCounts UserCounts
CHECK_DEADLOCK FALSE
