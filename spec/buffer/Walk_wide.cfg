SPECIFICATION Spec
CONSTANTS
  MaxOps = 4
  MaxDepth = 3
  MCKinds = {"vec", "arrayvec", "slice", "sliceref", "raw"}
  Caps = {0, 1, 2, 4}
  Len0s = {0, 1, 2}
  Sizes = {0, 1, 3, 5}
  ExtExact = {0, 1, 3, 5}
  ExtNoHint = {5}
  ExtUnder = {1, 5}
  ExtOver = {0, 3}
  AdvSizes = {0, 1, 2}
  ScrSizes = {1, 2}
  Avails = {2, 5}
  CapAts = {0, 1, 3, 5}
  CapAts2 = {1, 3}
  RelCaps = {}
  OverKinds = {"plus1", "total"}
  TouchCaps = {5}
  TouchOn = TRUE
  CloseInitOn = TRUE
  UnwindOn = TRUE
  ViaSet = {}
  ViaCaps = {}
  Readers = {}
  RdAvails = {}
  RdCaps = {}
  UserWho = {}
  UserSizes = {}
  UserCaps = {}
  PkKinds = {}
  PkSizes = {}
  PkInts = {}
  PkNegInts = {}
  GrowBy = {}
  RawDirtyNs = {}
VIEW View
INVARIANTS InitLeSpare Nested Contents OwnerBytes Untouched
PROPERTIES Frame FrameTop WriteBack Refusal SliceReported RefusedCounts UserCounts
CHECK_DEADLOCK FALSE
