SPECIFICATION Spec
CONSTANTS
  MaxOps = 4
  MaxDepth = 3
  MCKinds = {"vec", "arrayvec", "slice", "sliceref", "raw"}
  Caps = {0, 3}
  Len0s = {0, 1}
  Sizes = {0, 2}
  ExtExact = {}
  ExtNoHint = {}
  ExtUnder = {}
  ExtOver = {}
  AdvSizes = {}
  ScrSizes = {}
  Avails = {2}
  CapAts = {0}
  CapAts2 = {}
  RelCaps = {0, 1, 2}
  OverKinds = {}
  TouchCaps = {}
  TouchOn = TRUE
  CloseInitOn = TRUE
  UnwindOn = FALSE
  ViaSet = {"manual"}
  ViaCaps = {1}
  Readers = {}
  RdAvails = {}
  RdCaps = {}
  UserWho = {}
  UserSizes = {}
  UserCaps = {}
  PkKinds = {}
  PkSizes = {}
  PkInts = {}
  PkNegInts = {}
  GrowBy = {2}
  RawDirtyNs = {1}
VIEW View
INVARIANTS InitLeSpare Nested Contents OwnerBytes Untouched
PROPERTIES Frame FrameTop WriteBack Refusal SliceReported RefusedCounts UserCounts
CHECK_DEADLOCK FALSE
