SPECIFICATION Spec
CONSTANTS
  MaxOps = 4
  MaxDepth = 2
  MCKinds = {"vec", "arrayvec", "slice", "sliceref"}
  Caps = {0, 1, 3}
  Len0s = {0, 1}
  Sizes = {0, 1, 2, 4}
  ExtExact = {4}
  ExtNoHint = {2}
  ExtUnder = {1, 4}
  ExtOver = {1}
  AdvSizes = {1}
  Avails = {0, 2}
  CapAts = {0, 1, 5}
  CapAts2 = {}
  OverKinds = {"plus1", "total"}
  TouchCaps = {1}
VIEW View
INVARIANTS InitLeSpare Nested Contents OwnerBytes Untouched
PROPERTIES Frame WriteBack Refusal SliceReported RefusedCounts
CHECK_DEADLOCK FALSE
