SPECIFICATION Spec
CONSTANTS
  MaxOps = 4
  MaxDepth = 2
  MCKinds = {"vec", "arrayvec", "slice", "sliceref"}
  Caps = {0, 1, 3}
  Len0s = {0, 1}
  Sizes = {0, 1, 2, 4}
  ExtExact = {2, 4}
  ExtNoHint = {2}
  ExtUnder = {1, 4}
  ExtOver = {1}
  AdvSizes = {0, 1}
  Avails = {0, 2}
  CapAts = {0, 1, 5}
  CapAts2 = {}
VIEW View
INVARIANTS InitLeSpare Nested Contents OwnerBytes Untouched
PROPERTIES Frame WriteBack Refusal SliceReported
CHECK_DEADLOCK FALSE
