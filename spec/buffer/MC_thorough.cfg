SPECIFICATION Spec
CONSTANTS
  MaxOps = 5
  MaxDepth = 3
  MCKinds = {"vec", "arrayvec", "slice", "sliceref", "raw"}
  Caps = {0, 1, 2, 4}
  Len0s = {0, 1, 2}
  Sizes = {0, 1, 3, 5}
  ExtExact = {0, 1, 3, 5}
  ExtNoHint = {1, 3, 5}
  ExtUnder = {1, 3, 5}
  ExtOver = {0, 1, 3}
  AdvSizes = {0, 1, 2}
  ScrSizes = {1, 2}
  Avails = {0, 2, 5}
  CapAts = {0, 1, 3, 5}
  CapAts2 = {1, 3}
  RelCaps = {1}
  OverKinds = {"plus1", "total", "total1"}
  TouchCaps = {0, 1, 5}
  TouchOn = TRUE
  CloseInitOn = TRUE
  UnwindOn = TRUE
  ViaSet = {"manual", "packer"}
  ViaCaps = {1}
  Readers = {"mutref", "boxed", "bufreader", "empty", "repeat", "take", "short", "chain", "err"}
  RdAvails = {0, 2}
  RdCaps = {1}
  UserWho = {"huffd", "strbytes"}
  UserSizes = {0, 2, 5}
  UserCaps = {1}
  PkKinds = {"raw", "rest", "string", "int", "data"}
  PkSizes = {0, 2}
  PkInts = {0, 63, 64, 8192}
  PkNegInts = {1, 65}
  GrowBy = {1, 3}
  RawDirtyNs = {1, 2}
VIEW View
INVARIANTS InitLeSpare Nested Contents OwnerBytes Untouched
PROPERTIES Frame FrameTop WriteBack Refusal SliceReported RefusedCounts UserCounts
CHECK_DEADLOCK FALSE
