SPECIFICATION Spec
CONSTANTS
  MaxOps = 5
  MaxDepth = 3
  MCKinds = {"vec", "arrayvec", "slice", "sliceref"}
  Caps = {0, 1, 2, 4}
  Len0s = {0, 1, 2}
  Sizes = {0, 1, 3, 5}
  ExtExact = {0, 1, 3, 5}
  ExtNoHint = {1, 3, 5}
  ExtUnder = {1, 3, 5}
  ExtOver = {0, 1, 3}
  AdvSizes = {0, 1, 2}
  Avails = {0, 2, 5}
  CapAts = {0, 1, 3, 5}
  CapAts2 = {1, 3}
  OverKinds = {"plus1", "total", "total1"}
  TouchCaps = {0, 1, 5}
VIEW View
INVARIANTS InitLeSpare Nested Contents OwnerBytes Untouched
PROPERTIES Frame WriteBack Refusal SliceReported RefusedCounts
CHECK_DEADLOCK FALSE
