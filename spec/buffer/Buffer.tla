------------------------------- MODULE Buffer -------------------------------
(***************************************************************************)
(* C19 -- the uninitialized-buffer abstraction of libtw2 (buffer/src).     *)
(*                                                                         *)
(* One owner (Vec, ArrayVec, byte slice, slice reference, or a caller's    *)
(* slice + counter handed to BufferRef::new) of `cap` bytes of memory      *)
(* `mem`, a stack of open views (BufferRef values; view i+1 is a nested    *)
(* view of view i, possibly capped with cap_at), and one action per public *)
(* call.  Every action records its name and arguments in `act` and what    *)
(* the caller can observe in `out`; `det` says whether the step is the one *)
(* the detailed specification (= what the pinned code does) prescribes, or *)
(* another step that the property as stated still allows (a write that     *)
(* does not fit may accept any prefix that fits, ...).                     *)
(*                                                                         *)
(* Memory cells are bytes 0..255; DC (-1) is "unspecified" (cells of a     *)
(* view's window that the property does not constrain).                    *)
(***************************************************************************)
EXTENDS Integers, Sequences, FiniteSets, TLC

CONSTANTS MaxDepth     \* maximal number of simultaneously open views

DC == -1
\* "raw": the caller owns a slice and a counter and builds the view with BufferRef::new
Kinds == {"vec", "arrayvec", "slice", "sliceref", "raw"}
VL == {"vec", "arrayvec"}          \* owners with a length that is written back
Resets == {"sliceref", "raw"}      \* owners that show only what the last view initialized
\* how a view was created: with_buffer (raw owner, top level: BufferRef::new), by hand
\* (to_to_buffer_ref + to_buffer_ref, the intermediate stays reachable), packer::with_packer
Vias == {"with", "manual", "packer"}

VARIABLES phase,  \* "idle" | "closed" | "open" | "final"
          kind,   \* backing store
          cap,    \* bytes of memory owned
          len0,   \* pre-existing length (vec/arrayvec: len(); slices: offset of the slice in the array)
          mem0,   \* memory at set-up (history)
          mem,    \* memory now: 1..cap -> byte | DC
          olen,   \* owner's length now (vec/arrayvec: len(); sliceref: length of the referenced slice;
                  \*                     slice: length of the slice, constant; raw: the caller's counter)
          views,  \* stack of open views [off, spare, init, log, via]
          done,   \* history: concatenation of the bytes reported initialized by released top-level views
                  \* (sliceref, raw: the bytes of the last one; sliceref initially the slice itself)
          ops,    \* counted operations so far
          act, out, det

vars == <<phase, kind, cap, len0, mem0, mem, olen, views, done, ops, act, out, det>>

Min(a, b) == IF a < b THEN a ELSE b
Take(s, n) == SubSeq(s, 1, n)
\* write the sequence bs at 0-based offset `at`
Put(m, at, bs) == [i \in 1..Len(m) |-> IF i > at /\ i <= at + Len(bs) THEN bs[i - at] ELSE m[i]]
\* cells at+1 .. at+n become unspecified
Blur(m, at, n) == [i \in 1..Len(m) |-> IF i > at /\ i <= at + n THEN DC ELSE m[i]]
Window(m, at, n) == [i \in 1..n |-> m[at + i]]

Top == views[Len(views)]
Rem(v) == v.spare - v.init
\* cap_at chain: `buf.cap_at(k1).cap_at(k2)...`: never more than any k, never more than what is there
RECURSIVE Clamp(_, _)
Clamp(s, ks) == IF ks = <<>> THEN s ELSE Clamp(Min(s, Head(ks)), Tail(ks))

OwnerOff == IF kind \in VL THEN olen ELSE len0
OwnerSpare == IF kind \in VL THEN cap - olen ELSE IF kind = "raw" THEN cap - len0 ELSE olen
\* what the owner itself shows after a view has been released
Own(m, l) == IF kind \in VL THEN Window(m, 0, l)
             ELSE IF kind \in Resets THEN Window(m, len0, l)
             ELSE <<>>
OlenAfter(init) == IF kind \in VL THEN olen + init
                   ELSE IF kind \in Resets THEN init
                   ELSE olen
DoneAfter(log) == (IF kind \in Resets THEN <<>> ELSE done) \o log

Init ==
  /\ phase = "idle" /\ kind = "none" /\ cap = 0 /\ len0 = 0 /\ mem0 = <<>> /\ mem = <<>>
  /\ olen = 0 /\ views = <<>> /\ done = <<>> /\ ops = 0
  /\ act = [a |-> "init"] /\ out = [r |-> "init"] /\ det = TRUE

Bytes(s) == \A i \in 1..Len(s) : s[i] \in 0..255

(* ---- set-up: a fresh owner.  a = [a |-> "setup", kind, cap, len0, mem0] *)
Setup(a) ==
  /\ phase \in {"idle", "final"}
  /\ a.kind \in Kinds /\ a.cap >= 0 /\ a.len0 \in 0..a.cap /\ Len(a.mem0) = a.cap /\ Bytes(a.mem0)
  /\ phase' = "closed" /\ kind' = a.kind /\ cap' = a.cap /\ len0' = a.len0
  /\ mem0' = a.mem0 /\ mem' = a.mem0
  /\ olen' = IF a.kind \in VL THEN a.len0 ELSE IF a.kind = "raw" THEN 0 ELSE a.cap - a.len0
  /\ views' = <<>> /\ ops' = 0
  /\ done' = IF a.kind = "sliceref" THEN SubSeq(a.mem0, a.len0 + 1, a.cap) ELSE <<>>
  /\ act' = a /\ out' = [r |-> "ok"] /\ det' = TRUE

(* ---- with_buffer(owner[.cap_at(k)...], |b| ...) / with_packer(..) / to_to_buffer_ref + to_buffer_ref by *)
(* hand; raw owner: BufferRef::new(slice, &mut 0).   a = [a |-> "open", ks, via]                           *)
OpenTop(a) ==
  /\ phase = "closed"
  /\ (kind = "raw") => (a.ks = <<>> /\ a.via = "with")
  /\ LET s == Clamp(OwnerSpare, a.ks) IN
     /\ views' = <<[off |-> OwnerOff, spare |-> s, init |-> 0, log |-> <<>>, via |-> a.via]>>
     /\ out' = [r |-> "ok", rem |-> s]
  /\ phase' = "open" /\ ops' = ops + 1 /\ act' = a /\ det' = TRUE
  /\ UNCHANGED <<kind, cap, len0, mem0, mem, olen, done>>

(* ---- with_buffer((&mut b)[.cap_at(k)...], |c| ...) inside a view (b a BufferRef or a Packer) *)
OpenNested(a) ==
  /\ phase = "open" /\ Len(views) < MaxDepth
  /\ LET v == Top
         s == Clamp(Rem(v), a.ks) IN
     /\ views' = Append(views, [off |-> v.off + v.init, spare |-> s, init |-> 0, log |-> <<>>, via |-> a.via])
     /\ out' = [r |-> "ok", rem |-> s]
  /\ ops' = ops + 1 /\ act' = a /\ det' = TRUE
  /\ UNCHANGED <<phase, kind, cap, len0, mem0, mem, olen, done>>

Open(a) == a.via \in Vias /\ IF phase = "closed" THEN OpenTop(a) ELSE OpenNested(a)

(* ---- b.write(bs) / b.extend(iterator yielding bs).  a = [a |-> "write", bs] | [a |-> "extend", bs, it] *)
(* Fits: all bytes are stored and counted.  Does not fit: CapacityError; the property allows   *)
(* any prefix m <= remaining to have been stored and counted (the code stores all that fit);   *)
(* the rest of the window beyond the counted bytes is unspecified, nothing outside changes.    *)
Accept(a, m, res, d) ==
  LET v == Top
      n == Len(views) IN
  /\ views' = [views EXCEPT ![n] = [v EXCEPT !.init = v.init + m, !.log = v.log \o Take(a.bs, m)]]
  /\ mem' = IF d THEN Put(mem, v.off + v.init, Take(a.bs, m))
            ELSE Put(Blur(mem, v.off + v.init, Rem(v)), v.off + v.init, Take(a.bs, m))
  /\ out' = [r |-> res, rem |-> Rem(v) - m]
  /\ det' = d
  /\ ops' = ops + 1 /\ act' = a
  /\ UNCHANGED <<phase, kind, cap, len0, mem0, olen, done>>

WriteLike(a) ==
  IF Len(a.bs) <= Rem(Top)
  THEN Accept(a, Len(a.bs), "ok", TRUE)
  ELSE \E m \in 0..Rem(Top) : Accept(a, m, "cap", m = Rem(Top))

\* extend is given an iterator; a.it says what the iterator claims about its length (size_hint):
\* "exact" (a slice iterator), "nohint" (no upper bound, iter::from_fn), "under" (claims exactly one byte
\* fewer than it yields), "over" (claims exactly one byte more than it yields).  What extend must do depends
\* only on the bytes the iterator actually yields (a.bs): the hint is not part of the contract.
ItKinds == {"exact", "nohint", "under", "over"}
Write(a) ==
  /\ phase = "open" /\ Bytes(a.bs) /\ Top.via # "packer"
  /\ (a.a = "extend") => (a.it \in ItKinds)
  /\ WriteLike(a)

(* ---- a view created by packer::with_packer is a Packer: p.write_raw / write_rest / write_string / *)
(* write_int / write_data.  a = [a |-> "pk", op, v, bs]: bs = the bytes the call writes (what the   *)
(* same call writes into an ample buffer: the encoding is not C19's business); every one of them is *)
(* a sequence of BufferRef::write calls that stops at the first CapacityError, i.e. one write of bs *)
PkOps == {"raw", "rest", "string", "int", "data"}
Pk(a) ==
  /\ phase = "open" /\ Bytes(a.bs) /\ Top.via = "packer" /\ a.op \in PkOps
  /\ WriteLike(a)

(* ---- unsafe: b.uninitialized_mut()[..n] = bs; b.advance(n)   (n <= remaining is the caller's *)
(* obligation: advance asserts it)                                                              *)
Advance(a) ==
  /\ phase = "open" /\ Bytes(a.bs) /\ Len(a.bs) <= Rem(Top) /\ Top.via # "packer"
  /\ Accept(a, Len(a.bs), "ok", TRUE)

(* ---- unsafe: b.uninitialized_mut()[..n] = bs without advance: stored but not counted *)
Scribble(a) ==
  /\ phase = "open" /\ Bytes(a.bs) /\ Len(a.bs) <= Rem(Top) /\ Top.via # "packer"
  /\ mem' = Put(mem, Top.off + Top.init, a.bs)
  /\ out' = [r |-> "ok", rem |-> Rem(Top)]
  /\ ops' = ops + 1 /\ act' = a /\ det' = TRUE
  /\ UNCHANGED <<phase, kind, cap, len0, mem0, olen, views, done>>

(* ---- the closure returns (a.a = "close"), or returns after b.initialized() / p.written()       *)
(* (a.a = "closeinit", data = the slice it returned).  The intermediate object is dropped:        *)
(* nested: the parent counts the bytes; top level: the owner's length is written back.            *)
\* release of the innermost view `v` (its final record), `data` = the slice handed to the caller,
\* `m` = the memory at that moment, `res` = what the call reports
Release(a, v, data, m, d, res) ==
  LET n == Len(views) IN
  /\ IF n > 1
     THEN LET p == views[n - 1]
              p2 == [p EXCEPT !.init = p.init + v.init, !.log = p.log \o v.log] IN
          /\ views' = Append(SubSeq(views, 1, n - 2), p2)
          /\ out' = [r |-> res, data |-> data, rem |-> Rem(p2)]
          /\ UNCHANGED <<phase, olen, done>>
     ELSE /\ views' = <<>>
          /\ phase' = "closed"
          /\ olen' = OlenAfter(v.init)
          /\ done' = DoneAfter(v.log)
          /\ out' = [r |-> res, data |-> data, olen |-> OlenAfter(v.init), own |-> Own(m, OlenAfter(v.init))]
  /\ act' = a /\ det' = d /\ ops' = ops + 1
  /\ UNCHANGED <<kind, cap, len0, mem0>>

Close(a) ==
  /\ phase = "open"
  /\ Release(a, Top, IF a.a = "closeinit" THEN Top.log ELSE <<>>, mem, TRUE, "ok")
  /\ UNCHANGED mem

(* ---- ToBufferRef::to_buffer_ref called a second time on one intermediate: the BufferRef of a view  *)
(* created by hand is dropped and a new one is made from the same intermediate.  a = [a |-> "reopen"] *)
(* Nothing counted yet: the same window again.  Bytes already counted: BufferRef::new demands a zero  *)
(* count (debug assertion, the harness is built with debug assertions) and cap_at asserts it: the     *)
(* refusal is a panic, the intermediate is dropped by the unwinding and writes its count back like    *)
(* any release.  A build that does not check hands out a view of the same window that continues at    *)
(* the count (det = FALSE): that keeps everything the property states.                                *)
Reopen(a) ==
  /\ phase = "open" /\ Top.via = "manual"
  /\ IF Top.init = 0
     THEN /\ out' = [r |-> "ok", rem |-> Rem(Top)] /\ det' = TRUE
          /\ ops' = ops + 1 /\ act' = a
          /\ UNCHANGED <<phase, kind, cap, len0, mem0, mem, olen, views, done>>
     ELSE \/ Release(a, Top, <<>>, mem, TRUE, "refused") /\ UNCHANGED mem
          \/ /\ out' = [r |-> "ok", rem |-> Rem(Top)] /\ det' = FALSE
             /\ ops' = ops + 1 /\ act' = a
             /\ UNCHANGED <<phase, kind, cap, len0, mem0, mem, olen, views, done>>

(* ---- BufferRef::new(slice, &mut n) with n > 0 ("initialized must initially be zero").               *)
(* a = [a |-> "rawdirty", n].  Refused by a debug assertion; a build without it hands out a view that  *)
(* reports the first n bytes of the slice as initialized (det = FALSE; the caller broke the contract). *)
RawDirty(a) ==
  /\ phase = "closed" /\ kind = "raw" /\ a.n > 0 /\ a.n <= cap - len0
  /\ \/ /\ out' = [r |-> "refused"] /\ det' = TRUE
        /\ UNCHANGED <<phase, views>>
     \/ /\ views' = <<[off |-> len0, spare |-> cap - len0, init |-> a.n, log |-> Window(mem, len0, a.n), via |-> "with"]>>
        /\ phase' = "open"
        /\ out' = [r |-> "ok", rem |-> cap - len0 - a.n] /\ det' = FALSE
  /\ ops' = ops + 1 /\ act' = a
  /\ UNCHANGED <<kind, cap, len0, mem0, mem, olen, done>>

(* ---- readers.  a.rd = [k |-> kind of std::io::Read implementation, ...]; a.bs = the bytes it holds.  *)
(* RdGives = the bytes one `read` call stores into a buffer of `room` bytes (and, unless the call       *)
(* fails, reports):                                                                                     *)
(*   slice (&[u8]), mutref (&mut R), boxed (Box<R>), bufreader (io::BufReader<&[u8]> of capacity rd.j), *)
(*   file (fs::File): what is there and fits;   empty (io::Empty): nothing;   repeat (io::Repeat of     *)
(*   byte rd.j): fills the room;   take (io::Take, limit rd.j), short (a reader that hands out at most  *)
(*   rd.j bytes per call): a short read;   chain (io::Chain of a.bs and rd.bs2): the first reader       *)
(*   unless it is exhausted;   err: stores up to rd.j bytes and then fails with an io::Error.           *)
RdKinds == {"slice", "mutref", "boxed", "bufreader", "file", "empty", "repeat", "take", "short", "chain", "err"}
RdGives(a, room) ==
  LET k == a.rd.k IN
  IF k = "empty" THEN <<>>
  ELSE IF k = "repeat" THEN [i \in 1..room |-> a.rd.j]
  ELSE IF k \in {"take", "short", "err"} THEN Take(a.bs, Min(Min(Len(a.bs), a.rd.j), room))
  ELSE IF k = "chain" THEN (IF room = 0 THEN <<>>
                            ELSE IF a.bs # <<>> THEN Take(a.bs, Min(Len(a.bs), room))
                            ELSE Take(a.rd.bs2, Min(Len(a.rd.bs2), room)))
  ELSE Take(a.bs, Min(Len(a.bs), room))
RdFails(a) == a.rd.k = "err"
RdOk(a) == /\ a.rd.k \in RdKinds /\ Bytes(a.bs)
           /\ (a.rd.k = "chain") => Bytes(a.rd.bs2)
           /\ (a.rd.k = "repeat") => (a.rd.j \in 0..255)
           /\ (a.rd.k \in {"take", "short", "err", "bufreader"}) => (a.rd.j >= 0)

(* ---- reader.read_buffer_ref(b): the view itself -- which may already hold bytes -- is handed to *)
(* the reader: RdGives bytes are stored behind what is there and counted, the view is consumed and *)
(* released.  a = [a |-> "readclose", bs, claim, rd]; claim = 0: the reader reports the number of  *)
(* bytes it stored (claim > 0: see ReadOver below).  The slice                                     *)
(* returned is everything the view holds, old bytes first (what the code does: initialized());     *)
(* the documentation of ReadBufferRef speaks of "the newly written bytes": returning exactly the   *)
(* bytes the reader stored is the other reading the property allows (det = FALSE).  Any other      *)
(* window (e.g. the first `read` bytes of the view) reports bytes that are neither.  A reader that *)
(* fails: the bytes it stored are in the spare memory, nothing is counted, no slice.               *)
ReadClose(a) ==
  /\ phase = "open" /\ RdOk(a) /\ Top.via # "packer"
  /\ LET v == Top
         new == RdGives(a, Rem(v))
         m == Len(new)
         v2 == [v EXCEPT !.init = v.init + m, !.log = v.log \o new]
         mem2 == Put(mem, v.off + v.init, new) IN
     /\ mem' = mem2
     /\ IF RdFails(a)
        THEN Release(a, v, <<>>, mem2, TRUE, "ioerr")
        ELSE \/ Release(a, v2, v2.log, mem2, TRUE, "ok")
             \/ v.log # <<>> /\ Release(a, v2, new, mem2, FALSE, "ok")

(* ---- a panic inside the innermost closure unwinds through every open view: all intermediates *)
(* are dropped, innermost first.                                                                *)
RECURSIVE SumInit(_)
SumInit(vs) == IF vs = <<>> THEN 0 ELSE Head(vs).init + SumInit(Tail(vs))
RECURSIVE CatLog(_)
CatLog(vs) == IF vs = <<>> THEN <<>> ELSE Head(vs).log \o CatLog(Tail(vs))

Unwind(a) ==
  /\ phase = "open"
  /\ LET tot == SumInit(views) IN
     /\ olen' = OlenAfter(tot)
     /\ done' = DoneAfter(CatLog(views))
     /\ out' = [r |-> "ok", olen |-> OlenAfter(tot), own |-> Own(mem, OlenAfter(tot))]
  /\ views' = <<>> /\ phase' = "closed"
  /\ ops' = ops + 1 /\ act' = a /\ det' = TRUE
  /\ UNCHANGED <<kind, cap, len0, mem0, mem>>

(* ---- unsafe entry points that are *told* a count.  A count above what is left must be refused  *)
(* (the code asserts: a panic is the specified refusal) and must leave every count untouched.     *)
(* a = [a |-> "overadvance", n], n > remaining: b.advance(n) inside the closure, the panic is     *)
(* caught there and the view is used further.                                                     *)
OverAdvance(a) ==
  /\ phase = "open" /\ a.n > Rem(Top) /\ Top.via # "packer"
  /\ out' = [r |-> "refused", rem |-> Rem(Top)]
  /\ ops' = ops + 1 /\ act' = a /\ det' = TRUE
  /\ UNCHANGED <<phase, kind, cap, len0, mem0, mem, olen, views, done>>

(* a = [a |-> "readclose", bs, claim], claim > remaining: read_buffer_ref(reader, b) with a reader  *)
(* that stores min(len bs, remaining) bytes but reports `claim`: the bytes are in the spare memory  *)
(* but not counted, the refusal unwinds through every open view (as Unwind).                        *)
ReadOver(a) ==
  /\ phase = "open" /\ Bytes(a.bs) /\ a.claim > Rem(Top) /\ Top.via # "packer"
  /\ LET v == Top
         mem2 == Put(mem, v.off + v.init, Take(a.bs, Min(Len(a.bs), Rem(v))))
         tot == SumInit(views) IN
     /\ mem' = mem2
     /\ olen' = OlenAfter(tot)
     /\ done' = DoneAfter(CatLog(views))
     /\ out' = [r |-> "refused", olen |-> OlenAfter(tot), own |-> Own(mem2, OlenAfter(tot))]
  /\ views' = <<>> /\ phase' = "closed"
  /\ ops' = ops + 1 /\ act' = a /\ det' = TRUE
  /\ UNCHANGED <<kind, cap, len0, mem0>>

(* ---- an intermediate object of the conversion chain is created and dropped without use:         *)
(* target[.cap_at(k)...].to_to_buffer_ref() is dropped before to_buffer_ref() is ever called.       *)
(* a = [a |-> "touch", ks].  Nothing was written: a parent view keeps its count, a Vec / ArrayVec   *)
(* its length; a slice reference is narrowed to the (empty) initialized part, as by any release.    *)
Touch(a) ==
  /\ phase \in {"closed", "open"}
  /\ IF phase = "closed"
     THEN /\ kind # "raw"
          /\ olen' = OlenAfter(0)
          /\ done' = DoneAfter(<<>>)
          /\ out' = [r |-> "ok", olen |-> OlenAfter(0), own |-> Own(mem, OlenAfter(0))]
     ELSE /\ out' = [r |-> "ok", rem |-> Rem(Top)]
          /\ UNCHANGED <<olen, done>>
  /\ ops' = ops + 1 /\ act' = a /\ det' = TRUE
  /\ UNCHANGED <<phase, kind, cap, len0, mem0, mem, views>>

(* ---- reader.read_buffer(target[.cap_at(k)...]) (raw owner at top level: read_buffer_ref on a view *)
(* made by BufferRef::new): a view is opened, the reader stores RdGives bytes through                *)
(* uninitialized_mut + advance, initialized() is returned, the view is released.                     *)
(* a = [a |-> "read", bs, ks, rd].  A reader that fails: stored, not counted, no slice.              *)
Read(a) ==
  /\ phase \in {"closed", "open"} /\ RdOk(a)
  /\ IF phase = "closed"
     THEN LET s == Clamp(OwnerSpare, a.ks)
              g == RdGives(a, s)
              m == IF RdFails(a) THEN 0 ELSE Len(g)
              m2 == Put(mem, OwnerOff, g) IN
          /\ (kind = "raw") => (a.ks = <<>>)
          /\ mem' = m2
          /\ olen' = OlenAfter(m)
          /\ done' = DoneAfter(Take(g, m))
          /\ out' = IF RdFails(a)
                    THEN [r |-> "ioerr", olen |-> OlenAfter(0), own |-> Own(m2, OlenAfter(0))]
                    ELSE [r |-> "ok", data |-> g, olen |-> OlenAfter(m), own |-> Own(m2, OlenAfter(m))]
          /\ UNCHANGED <<views, phase>>
     ELSE LET v == Top
              n == Len(views)
              s == Clamp(Rem(v), a.ks)
              g == RdGives(a, s)
              m == IF RdFails(a) THEN 0 ELSE Len(g)
              v2 == [v EXCEPT !.init = v.init + m, !.log = v.log \o Take(g, m)] IN
          /\ mem' = Put(mem, v.off + v.init, g)
          /\ views' = [views EXCEPT ![n] = v2]
          /\ out' = IF RdFails(a) THEN [r |-> "ioerr", rem |-> Rem(v2)]
                    ELSE [r |-> "ok", data |-> g, rem |-> Rem(v2)]
          /\ UNCHANGED <<olen, done, phase>>
  /\ ops' = ops + 1 /\ act' = a /\ det' = TRUE
  /\ UNCHANGED <<kind, cap, len0, mem0>>

(* ---- users of the buffer crate inside libtw2 as one composite step.  Every one of these call sites   *)
(* does with_buffer(target[.cap_at(k)...], |b| ...), stores bytes into the fresh view, and returns.     *)
(* a = [a |-> "user", who, bs, ks, ret]; a.bs = the bytes the call writes (= what the same call writes  *)
(* into an ample buffer: what they *are* is the codec's business, not C19's); ret: the call returns the *)
(* initialized slice.  The C19 counting law: the bytes reported initialized are the bytes written, the  *)
(* container (or the enclosing view) grows by exactly that.                                             *)
(*   huffd  huffman::decompress_into(input, target)   huffc  huffman::compress_into(input, target):     *)
(*          fits: bs stored, counted, returned; does not fit: what fits is stored through               *)
(*          uninitialized_mut(), nothing is counted, CapacityError.                                     *)
(*   strbytes  packer::string_to_bytes(target, s): two writes; does not fit: what fits stays counted.   *)
(*   feed   net::Connection::feed(.., packet, target) with a compressed packet: nested views four deep  *)
(*          (feed -> Packet::read -> Packet::decompress -> Huffman::decompress): the three bytes of the *)
(*          rebuilt header are written and counted first, then the decompressed payload; payload that   *)
(*          does not fit: the header stays counted.  (bs = <<>>: a packet that needs no decompression.) *)
(* Does not fit, property level: any prefix may have been counted (det = FALSE).                        *)
Users == {"huffd", "huffc", "strbytes", "feed"}
UserDetCnt(who, s) == IF who \in {"huffd", "huffc"} THEN 0 ELSE IF who = "feed" THEN Min(3, s) ELSE s
UserOut(a, res, data, rest) == IF a.ret THEN [r |-> res, data |-> data] @@ rest ELSE [r |-> res] @@ rest
User(a) ==
  /\ phase \in {"closed", "open"} /\ a.who \in Users /\ Bytes(a.bs) /\ a.ret \in BOOLEAN
  /\ (phase = "closed" /\ kind = "raw") => FALSE
  /\ LET room == IF phase = "closed" THEN OwnerSpare ELSE Rem(Top)
         off == IF phase = "closed" THEN OwnerOff ELSE Top.off + Top.init
         s == Clamp(room, a.ks)
         fits == Len(a.bs) <= s
         \* a plain slice shows no count: one step, the window unspecified beyond the counted bytes
         blind == phase = "closed" /\ kind = "slice" IN
     \E m \in (IF fits THEN {Len(a.bs)} ELSE IF blind THEN {UserDetCnt(a.who, s)} ELSE 0..s) :
        LET d == fits \/ m = UserDetCnt(a.who, s)
            m2 == IF d /\ (fits \/ ~blind) THEN Put(mem, off, Take(a.bs, Min(Len(a.bs), s)))
                  ELSE Put(Blur(mem, off, s), off, Take(a.bs, m))
            res == IF fits THEN "ok" ELSE "cap"
            data == IF fits THEN a.bs ELSE <<>> IN
        /\ mem' = m2 /\ det' = d
        /\ IF phase = "closed"
           THEN /\ olen' = OlenAfter(m)
                /\ done' = DoneAfter(Take(a.bs, m))
                /\ out' = UserOut(a, res, data, [olen |-> OlenAfter(m), own |-> Own(m2, OlenAfter(m))])
                /\ UNCHANGED <<views, phase>>
           ELSE LET v == Top
                    v2 == [v EXCEPT !.init = v.init + m, !.log = v.log \o Take(a.bs, m)] IN
                /\ views' = [views EXCEPT ![Len(views)] = v2]
                /\ out' = UserOut(a, res, data, [rem |-> Rem(v2)])
                /\ UNCHANGED <<olen, done, phase>>
  /\ ops' = ops + 1 /\ act' = a
  /\ UNCHANGED <<kind, cap, len0, mem0>>

(* ---- the owner reallocates between two views: Vec::reserve_exact.  a = [a |-> "grow", cap, tail]:  *)
(* the new capacity and the contents of the new spare memory (the harness fills it: reading            *)
(* uninitialized memory is not allowed).  Length and contents stay.                                    *)
Grow(a) ==
  /\ phase = "closed" /\ kind = "vec" /\ a.cap > cap /\ Len(a.tail) = a.cap - olen /\ Bytes(a.tail)
  /\ cap' = a.cap
  /\ mem' = Take(mem, olen) \o a.tail
  /\ out' = [r |-> "ok", olen |-> olen, own |-> Own(mem, olen)]
  /\ ops' = ops + 1 /\ act' = a /\ det' = TRUE
  /\ UNCHANGED <<phase, kind, len0, mem0, olen, views, done>>

(* ---- end of a run: the whole memory is inspected *)
Final(a) ==
  /\ phase = "closed"
  /\ phase' = "final"
  /\ out' = [r |-> "ok", mem |-> mem]
  /\ act' = a /\ det' = TRUE
  /\ UNCHANGED <<kind, cap, len0, mem0, mem, olen, views, done, ops>>

Step(a) ==
  CASE a.a = "setup" -> Setup(a)
    [] a.a = "open" -> Open(a)
    [] a.a \in {"write", "extend"} -> Write(a)
    [] a.a = "pk" -> Pk(a)
    [] a.a = "advance" -> Advance(a)
    [] a.a = "scribble" -> Scribble(a)
    [] a.a \in {"close", "closeinit"} -> Close(a)
    [] a.a = "reopen" -> Reopen(a)
    [] a.a = "rawdirty" -> RawDirty(a)
    [] a.a = "unwind" -> Unwind(a)
    [] a.a = "read" -> Read(a)
    [] a.a = "readclose" -> IF a.claim = 0 THEN ReadClose(a) ELSE ReadOver(a)
    [] a.a = "overadvance" -> OverAdvance(a)
    [] a.a = "touch" -> Touch(a)
    [] a.a = "user" -> User(a)
    [] a.a = "grow" -> Grow(a)
    [] a.a = "final" -> Final(a)
    [] OTHER -> FALSE

-----------------------------------------------------------------------------
(* Properties (C19, first sentence).                                        *)

\* a view never counts more than it has
InitLeSpare == \A i \in 1..Len(views) : views[i].init >= 0 /\ views[i].init <= views[i].spare

\* views are nested windows of the owner's spare memory
Nested ==
  /\ \A i \in 1..Len(views) : views[i].off >= 0 /\ views[i].off + views[i].spare <= cap
  /\ \A i \in 1..(Len(views) - 1) :
        /\ views[i + 1].off = views[i].off + views[i].init
        /\ views[i + 1].off + views[i + 1].spare <= views[i].off + views[i].spare
  /\ views # <<>> => /\ views[1].off = OwnerOff
                     /\ views[1].spare <= OwnerSpare

\* the bytes a view reports as initialized are exactly the bytes written through it, in order
Contents ==
  \A i \in 1..Len(views) :
     /\ Len(views[i].log) = views[i].init
     /\ Window(mem, views[i].off, views[i].init) = views[i].log

\* the owner's bytes are the old prefix followed by everything reported initialized, in order
OwnerBytes ==
  phase \in {"closed", "final"} =>
     CASE kind \in VL -> /\ olen = len0 + Len(done)
                         /\ Window(mem, 0, olen) = Take(mem0, len0) \o done
       [] kind \in Resets -> /\ olen = Len(done) /\ Window(mem, len0, olen) = done
       [] OTHER -> TRUE

\* nothing outside the owner's spare memory is ever touched (never past the capacity,
\* never before the pre-existing length)
Untouched ==
  phase # "idle" =>
     /\ Len(mem) = cap
     /\ \A i \in 1..len0 : mem[i] = mem0[i]

\* no step changes a byte outside the innermost window it works on, or below what is counted
Frame ==
  [][ phase = "open" /\ phase' \in {"open", "closed"} =>
        \A i \in 1..cap : (i <= Top.off + Top.init \/ i > Top.off + Top.spare) => mem'[i] = mem[i] ]_vars

\* a composite call on the owner touches only the owner's spare memory
FrameTop ==
  [][ (phase = "closed" /\ act'.a \in {"read", "user", "touch"}) =>
        /\ cap' = cap
        /\ \A i \in 1..cap : (i <= OwnerOff \/ i > OwnerOff + OwnerSpare) => mem'[i] = mem[i] ]_vars

\* releasing a view adds exactly its count to the parent / owner
ReleaseAdds(a) == IF a.a = "readclose" /\ ~RdFails(a) THEN Len(RdGives(a, Rem(Top))) ELSE 0
WriteBack ==
  [][ (act'.a \in {"close", "closeinit"} \/ (act'.a = "readclose" /\ act'.claim = 0)
       \/ (act'.a = "reopen" /\ out'.r = "refused")) =>
        LET add == Top.init + ReleaseAdds(act') IN
        IF Len(views) > 1
        THEN views'[Len(views) - 1].init = views[Len(views) - 1].init + add
        ELSE olen' = OlenAfter(add) ]_vars

\* a count above what is left is refused and changes no count; dropping an unused intermediate changes no count;
\* a second to_buffer_ref on an intermediate never loses or invents a count
RefusedCounts ==
  [][ (act'.a = "overadvance" => (out'.r = "refused" /\ views' = views /\ olen' = olen /\ mem' = mem))
      /\ ((act'.a = "readclose" /\ act'.claim > 0) => (out'.r = "refused" /\ olen' = OlenAfter(SumInit(views))))
      /\ (act'.a = "touch" => (views' = views /\ mem' = mem /\ (kind \notin Resets => olen' = olen)))
      /\ ((act'.a = "reopen" /\ out'.r = "ok") => (views' = views /\ mem' = mem /\ olen' = olen)) ]_vars

\* every slice handed to the caller consists of bytes written through the view it comes from, in order:
\* the whole view (initialized(), read_buffer_ref) or its newest part (read_buffer on a fresh view,
\* the documented reading of read_buffer_ref) -- never a window that mixes or repeats
Suffix(s, t) == Len(s) <= Len(t) /\ SubSeq(t, Len(t) - Len(s) + 1, Len(t)) = s
SliceReported ==
  [][ (act'.a = "closeinit" \/ (act'.a = "readclose" /\ act'.claim = 0 /\ ~RdFails(act'))) =>
        LET whole == Top.log \o (IF act'.a = "readclose" THEN RdGives(act', Rem(Top)) ELSE <<>>) IN
        /\ Suffix(out'.data, whole)
        /\ (det' => out'.data = whole) ]_vars

\* a write that does not fit is refused, and what was counted fits
Refusal ==
  [][ (act'.a \in {"write", "extend", "pk"}) =>
        /\ (out'.r = "cap") = (Len(act'.bs) > Rem(Top))
        /\ out'.rem >= 0 ]_vars

\* the counting law at the call sites inside libtw2: what a call reports (its slice, the growth of the
\* container or of the enclosing view) is a prefix of the bytes it writes, all of them when they fit
Grew == IF phase = "closed"
        THEN (IF kind \in VL THEN olen' - olen ELSE IF kind \in Resets THEN olen' ELSE 0)
        ELSE views'[Len(views)].init - Top.init
UserCounts ==
  [][ (act'.a = "user") =>
        LET room == Clamp(IF phase = "closed" THEN OwnerSpare ELSE Rem(Top), act'.ks) IN
        /\ (out'.r = "ok") = (Len(act'.bs) <= room)
        /\ (kind # "slice" \/ phase = "open") => /\ Grew <= room
                                                  /\ (out'.r = "ok" => Grew = Len(act'.bs))
        /\ (act'.ret /\ out'.r = "ok") => out'.data = act'.bs ]_vars
=============================================================================
