------------------------------- MODULE Buffer -------------------------------
(***************************************************************************)
(* C19 -- the uninitialized-buffer abstraction of libtw2 (buffer/src).     *)
(*                                                                         *)
(* One owner (Vec, ArrayVec, byte slice, slice reference) of `cap` bytes   *)
(* of memory `mem`, a stack of open views (BufferRef values; view i+1 is a *)
(* nested view of view i, possibly capped with cap_at), and one action per *)
(* public call.  Every action records its name and arguments in `act` and  *)
(* what the caller can observe in `out`; `det` says whether the step is    *)
(* the one the detailed specification (= what the pinned code does)        *)
(* prescribes, or another step that the property as stated still allows    *)
(* (a write that does not fit may accept any prefix that fits).            *)
(*                                                                         *)
(* Memory cells are bytes 0..255; DC (-1) is "unspecified" (cells of a     *)
(* view's window that the property does not constrain).                    *)
(***************************************************************************)
EXTENDS Integers, Sequences, FiniteSets, TLC

CONSTANTS MaxDepth     \* maximal number of simultaneously open views

DC == -1
Kinds == {"vec", "arrayvec", "slice", "sliceref"}

VARIABLES phase,  \* "idle" | "closed" | "open" | "final"
          kind,   \* backing store
          cap,    \* bytes of memory owned
          len0,   \* pre-existing length (vec/arrayvec: len(); slices: offset of the slice in the array)
          mem0,   \* memory at set-up (history)
          mem,    \* memory now: 1..cap -> byte | DC
          olen,   \* owner's length now (vec/arrayvec: len(); sliceref: length of the referenced slice;
                  \*                     slice: length of the slice, constant)
          views,  \* stack of open views [off, spare, init, log]
          done,   \* history: concatenation of the bytes reported initialized by released top-level views
                  \* (sliceref: the bytes of the last one, initially the slice itself)
          ops,    \* counted operations so far
          act, out, det

vars == <<phase, kind, cap, len0, mem0, mem, olen, views, done, ops, act, out, det>>

Min(a, b) == IF a < b THEN a ELSE b
Take(s, n) == SubSeq(s, 1, n)
\* write the sequence bs at 0-based offset `at`
Put(m, at, bs) == [i \in 1..Len(m) |-> IF i > at /\ i <= at + Len(bs) THEN bs[i - at] ELSE m[i]]
\* cells at+1 .. at+n become unspecified
Blur(m, at, n) == [i \in 1..Len(m) |-> IF i > at /\ i <= at + n THEN DC ELSE m[i]]
Window(m, at, n) == [i \in 1..n |-> m[at + i]]

Top == views[Len(views)]
Rem(v) == v.spare - v.init
\* cap_at chain: `buf.cap_at(k1).cap_at(k2)...`: never more than any k, never more than what is there
RECURSIVE Clamp(_, _)
Clamp(s, ks) == IF ks = <<>> THEN s ELSE Clamp(Min(s, Head(ks)), Tail(ks))

OwnerOff == IF kind \in {"vec", "arrayvec"} THEN olen ELSE len0
OwnerSpare == IF kind \in {"vec", "arrayvec"} THEN cap - olen ELSE olen
\* what the owner itself shows after a view has been released
Own(m, l) == IF kind \in {"vec", "arrayvec"} THEN Window(m, 0, l)
             ELSE IF kind = "sliceref" THEN Window(m, len0, l)
             ELSE <<>>
OlenAfter(init) == IF kind \in {"vec", "arrayvec"} THEN olen + init
                   ELSE IF kind = "sliceref" THEN init
                   ELSE olen

Init ==
  /\ phase = "idle" /\ kind = "none" /\ cap = 0 /\ len0 = 0 /\ mem0 = <<>> /\ mem = <<>>
  /\ olen = 0 /\ views = <<>> /\ done = <<>> /\ ops = 0
  /\ act = [a |-> "init"] /\ out = [r |-> "init"] /\ det = TRUE

Bytes(s) == \A i \in 1..Len(s) : s[i] \in 0..255

(* ---- set-up: a fresh owner.  a = [a |-> "setup", kind, cap, len0, mem0] *)
Setup(a) ==
  /\ phase \in {"idle", "final"}
  /\ a.kind \in Kinds /\ a.cap >= 0 /\ a.len0 \in 0..a.cap /\ Len(a.mem0) = a.cap /\ Bytes(a.mem0)
  /\ phase' = "closed" /\ kind' = a.kind /\ cap' = a.cap /\ len0' = a.len0
  /\ mem0' = a.mem0 /\ mem' = a.mem0
  /\ olen' = IF a.kind \in {"vec", "arrayvec"} THEN a.len0 ELSE a.cap - a.len0
  /\ views' = <<>> /\ ops' = 0
  /\ done' = IF a.kind = "sliceref" THEN SubSeq(a.mem0, a.len0 + 1, a.cap) ELSE <<>>
  /\ act' = a /\ out' = [r |-> "ok"] /\ det' = TRUE

(* ---- with_buffer(owner[.cap_at(k)...], |b| ...).  a = [a |-> "open", ks] *)
OpenTop(a) ==
  /\ phase = "closed"
  /\ LET s == Clamp(OwnerSpare, a.ks) IN
     /\ views' = <<[off |-> OwnerOff, spare |-> s, init |-> 0, log |-> <<>>]>>
     /\ out' = [r |-> "ok", rem |-> s]
  /\ phase' = "open" /\ ops' = ops + 1 /\ act' = a /\ det' = TRUE
  /\ UNCHANGED <<kind, cap, len0, mem0, mem, olen, done>>

(* ---- with_buffer((&mut b)[.cap_at(k)...], |c| ...) inside a view *)
OpenNested(a) ==
  /\ phase = "open" /\ Len(views) < MaxDepth
  /\ LET v == Top
         s == Clamp(Rem(v), a.ks) IN
     /\ views' = Append(views, [off |-> v.off + v.init, spare |-> s, init |-> 0, log |-> <<>>])
     /\ out' = [r |-> "ok", rem |-> s]
  /\ ops' = ops + 1 /\ act' = a /\ det' = TRUE
  /\ UNCHANGED <<phase, kind, cap, len0, mem0, mem, olen, done>>

Open(a) == IF phase = "closed" THEN OpenTop(a) ELSE OpenNested(a)

(* ---- b.write(bs) / b.extend(iterator yielding bs).  a = [a |-> "write", bs] | [a |-> "extend", bs, it] *)
(* Fits: all bytes are stored and counted.  Does not fit: CapacityError; the property allows   *)
(* any prefix m <= remaining to have been stored and counted (the code stores all that fit);   *)
(* the rest of the window beyond the counted bytes is unspecified, nothing outside changes.    *)
Accept(a, m, res, d) ==
  LET v == Top
      n == Len(views) IN
  /\ views' = [views EXCEPT ![n] = [v EXCEPT !.init = v.init + m, !.log = v.log \o Take(a.bs, m)]]
  /\ mem' = IF d THEN Put(mem, v.off + v.init, Take(a.bs, m))
            ELSE Put(Blur(mem, v.off + v.init, Rem(v)), v.off + v.init, Take(a.bs, m))
  /\ out' = [r |-> res, rem |-> Rem(v) - m]
  /\ det' = d
  /\ ops' = ops + 1 /\ act' = a
  /\ UNCHANGED <<phase, kind, cap, len0, mem0, olen, done>>

\* extend is given an iterator; a.it says what the iterator claims about its length (size_hint):
\* "exact" (a slice iterator), "nohint" (no upper bound, iter::from_fn), "under" (claims exactly one byte
\* fewer than it yields), "over" (claims exactly one byte more than it yields).  What extend must do depends
\* only on the bytes the iterator actually yields (a.bs): the hint is not part of the contract.
ItKinds == {"exact", "nohint", "under", "over"}
Write(a) ==
  /\ phase = "open" /\ Bytes(a.bs)
  /\ (a.a = "extend") => (a.it \in ItKinds)
  /\ IF Len(a.bs) <= Rem(Top)
     THEN Accept(a, Len(a.bs), "ok", TRUE)
     ELSE \E m \in 0..Rem(Top) : Accept(a, m, "cap", m = Rem(Top))

(* ---- unsafe: b.uninitialized_mut()[..n] = bs; b.advance(n)   (n <= remaining is the caller's *)
(* obligation: advance asserts it)                                                              *)
Advance(a) ==
  /\ phase = "open" /\ Bytes(a.bs) /\ Len(a.bs) <= Rem(Top)
  /\ Accept(a, Len(a.bs), "ok", TRUE)

(* ---- unsafe: b.uninitialized_mut()[..n] = bs without advance: stored but not counted *)
Scribble(a) ==
  /\ phase = "open" /\ Bytes(a.bs) /\ Len(a.bs) <= Rem(Top)
  /\ mem' = Put(mem, Top.off + Top.init, a.bs)
  /\ out' = [r |-> "ok", rem |-> Rem(Top)]
  /\ ops' = ops + 1 /\ act' = a /\ det' = TRUE
  /\ UNCHANGED <<phase, kind, cap, len0, mem0, olen, views, done>>

(* ---- the closure returns (a.a = "close"), or returns after b.initialized() (a.a = "closeinit", *)
(* data = the slice it returned).  The intermediate object is dropped: nested: the parent counts  *)
(* the bytes; top level: the owner's length is written back.                                      *)
\* release of the innermost view `v` (its final record), `data` = the slice handed to the caller,
\* `m` = the memory at that moment
Release(a, v, data, m, d) ==
  LET n == Len(views) IN
  /\ IF n > 1
     THEN LET p == views[n - 1]
              p2 == [p EXCEPT !.init = p.init + v.init, !.log = p.log \o v.log] IN
          /\ views' = Append(SubSeq(views, 1, n - 2), p2)
          /\ out' = [r |-> "ok", data |-> data, rem |-> Rem(p2)]
          /\ UNCHANGED <<phase, olen, done>>
     ELSE /\ views' = <<>>
          /\ phase' = "closed"
          /\ olen' = OlenAfter(v.init)
          /\ done' = (IF kind = "sliceref" THEN <<>> ELSE done) \o v.log
          /\ out' = [r |-> "ok", data |-> data, olen |-> OlenAfter(v.init), own |-> Own(m, OlenAfter(v.init))]
  /\ act' = a /\ det' = d /\ ops' = ops + 1
  /\ UNCHANGED <<kind, cap, len0, mem0>>

Close(a) ==
  /\ phase = "open"
  /\ Release(a, Top, IF a.a = "closeinit" THEN Top.log ELSE <<>>, mem, TRUE)
  /\ UNCHANGED mem

(* ---- reader.read_buffer_ref(b): the view itself -- which may already hold bytes -- is handed to *)
(* a byte-slice reader holding a.bs: min(len bs, remaining) bytes are stored behind what is there  *)
(* and counted, the view is consumed and released.  a = [a |-> "readclose", bs, claim]; claim = 0: *)
(* the reader reports the number of bytes it stored (claim > 0: see ReadOver below).  The slice    *)
(* returned is everything the view holds, old bytes first (what the code does: initialized());     *)
(* the documentation of ReadBufferRef speaks of "the newly written bytes": returning exactly the   *)
(* bytes the reader stored is the other reading the property allows (det = FALSE).  Any other      *)
(* window (e.g. the first `read` bytes of the view) reports bytes that are neither.                *)
ReadClose(a) ==
  /\ phase = "open" /\ Bytes(a.bs)
  /\ LET v == Top
         m == Min(Len(a.bs), Rem(v))
         new == Take(a.bs, m)
         v2 == [v EXCEPT !.init = v.init + m, !.log = v.log \o new]
         mem2 == Put(mem, v.off + v.init, new) IN
     /\ mem' = mem2
     /\ \/ Release(a, v2, v2.log, mem2, TRUE)
        \/ v.log # <<>> /\ Release(a, v2, new, mem2, FALSE)

(* ---- a panic inside the innermost closure unwinds through every open view: all intermediates *)
(* are dropped, innermost first.                                                                *)
RECURSIVE SumInit(_)
SumInit(vs) == IF vs = <<>> THEN 0 ELSE Head(vs).init + SumInit(Tail(vs))
RECURSIVE CatLog(_)
CatLog(vs) == IF vs = <<>> THEN <<>> ELSE Head(vs).log \o CatLog(Tail(vs))

Unwind(a) ==
  /\ phase = "open"
  /\ LET tot == SumInit(views) IN
     /\ olen' = OlenAfter(tot)
     /\ done' = (IF kind = "sliceref" THEN <<>> ELSE done) \o CatLog(views)
     /\ out' = [r |-> "ok", olen |-> OlenAfter(tot), own |-> Own(mem, OlenAfter(tot))]
  /\ views' = <<>> /\ phase' = "closed"
  /\ ops' = ops + 1 /\ act' = a /\ det' = TRUE
  /\ UNCHANGED <<kind, cap, len0, mem0, mem>>

(* ---- unsafe entry points that are *told* a count.  A count above what is left must be refused  *)
(* (the code asserts: a panic is the specified refusal) and must leave every count untouched.     *)
(* a = [a |-> "overadvance", n], n > remaining: b.advance(n) inside the closure, the panic is     *)
(* caught there and the view is used further.                                                     *)
OverAdvance(a) ==
  /\ phase = "open" /\ a.n > Rem(Top)
  /\ out' = [r |-> "refused", rem |-> Rem(Top)]
  /\ ops' = ops + 1 /\ act' = a /\ det' = TRUE
  /\ UNCHANGED <<phase, kind, cap, len0, mem0, mem, olen, views, done>>

(* a = [a |-> "readclose", bs, claim], claim > remaining: read_buffer_ref(reader, b) with a reader  *)
(* that stores min(len bs, remaining) bytes but reports `claim`: the bytes are in the spare memory  *)
(* but not counted, the refusal unwinds through every open view (as Unwind).                        *)
ReadOver(a) ==
  /\ phase = "open" /\ Bytes(a.bs) /\ a.claim > Rem(Top)
  /\ LET v == Top
         mem2 == Put(mem, v.off + v.init, Take(a.bs, Min(Len(a.bs), Rem(v))))
         tot == SumInit(views) IN
     /\ mem' = mem2
     /\ olen' = OlenAfter(tot)
     /\ done' = (IF kind = "sliceref" THEN <<>> ELSE done) \o CatLog(views)
     /\ out' = [r |-> "refused", olen |-> OlenAfter(tot), own |-> Own(mem2, OlenAfter(tot))]
  /\ views' = <<>> /\ phase' = "closed"
  /\ ops' = ops + 1 /\ act' = a /\ det' = TRUE
  /\ UNCHANGED <<kind, cap, len0, mem0>>

(* ---- an intermediate object of the conversion chain is created and dropped without use:         *)
(* target[.cap_at(k)...].to_to_buffer_ref() is dropped before to_buffer_ref() is ever called.       *)
(* a = [a |-> "touch", ks].  Nothing was written: a parent view keeps its count, a Vec / ArrayVec   *)
(* its length; a slice reference is narrowed to the (empty) initialized part, as by any release.    *)
Touch(a) ==
  /\ phase \in {"closed", "open"}
  /\ IF phase = "closed"
     THEN /\ olen' = OlenAfter(0)
          /\ done' = IF kind = "sliceref" THEN <<>> ELSE done
          /\ out' = [r |-> "ok", olen |-> OlenAfter(0), own |-> Own(mem, OlenAfter(0))]
     ELSE /\ out' = [r |-> "ok", rem |-> Rem(Top)]
          /\ UNCHANGED <<olen, done>>
  /\ ops' = ops + 1 /\ act' = a /\ det' = TRUE
  /\ UNCHANGED <<phase, kind, cap, len0, mem0, mem, views>>

(* ---- reader.read_buffer(target[.cap_at(k)...]) with a byte-slice reader holding a.bs:         *)
(* a view is opened, min(len bs, spare) bytes are stored through uninitialized_mut + advance,    *)
(* initialized() is returned, the view is released.  a = [a |-> "read", bs, ks]                  *)
Read(a) ==
  /\ phase \in {"closed", "open"} /\ Bytes(a.bs)
  /\ IF phase = "closed"
     THEN LET s == Clamp(OwnerSpare, a.ks)
              m == Min(Len(a.bs), s)
              m2 == Put(mem, OwnerOff, Take(a.bs, m)) IN
          /\ mem' = m2
          /\ olen' = OlenAfter(m)
          /\ done' = (IF kind = "sliceref" THEN <<>> ELSE done) \o Take(a.bs, m)
          /\ out' = [r |-> "ok", data |-> Take(a.bs, m), olen |-> OlenAfter(m), own |-> Own(m2, OlenAfter(m))]
          /\ UNCHANGED <<views, phase>>
     ELSE LET v == Top
              n == Len(views)
              s == Clamp(Rem(v), a.ks)
              m == Min(Len(a.bs), s)
              v2 == [v EXCEPT !.init = v.init + m, !.log = v.log \o Take(a.bs, m)] IN
          /\ mem' = Put(mem, v.off + v.init, Take(a.bs, m))
          /\ views' = [views EXCEPT ![n] = v2]
          /\ out' = [r |-> "ok", data |-> Take(a.bs, m), rem |-> Rem(v2)]
          /\ UNCHANGED <<olen, done, phase>>
  /\ ops' = ops + 1 /\ act' = a /\ det' = TRUE
  /\ UNCHANGED <<kind, cap, len0, mem0>>

(* ---- end of a run: the whole memory is inspected *)
Final(a) ==
  /\ phase = "closed"
  /\ phase' = "final"
  /\ out' = [r |-> "ok", mem |-> mem]
  /\ act' = a /\ det' = TRUE
  /\ UNCHANGED <<kind, cap, len0, mem0, mem, olen, views, done, ops>>

Step(a) ==
  CASE a.a = "setup" -> Setup(a)
    [] a.a = "open" -> Open(a)
    [] a.a \in {"write", "extend"} -> Write(a)
    [] a.a = "advance" -> Advance(a)
    [] a.a = "scribble" -> Scribble(a)
    [] a.a \in {"close", "closeinit"} -> Close(a)
    [] a.a = "unwind" -> Unwind(a)
    [] a.a = "read" -> Read(a)
    [] a.a = "readclose" -> IF a.claim = 0 THEN ReadClose(a) ELSE ReadOver(a)
    [] a.a = "overadvance" -> OverAdvance(a)
    [] a.a = "touch" -> Touch(a)
    [] a.a = "final" -> Final(a)
    [] OTHER -> FALSE

-----------------------------------------------------------------------------
(* Properties (C19, first sentence).                                        *)

\* a view never counts more than it has
InitLeSpare == \A i \in 1..Len(views) : views[i].init >= 0 /\ views[i].init <= views[i].spare

\* views are nested windows of the owner's spare memory
Nested ==
  /\ \A i \in 1..Len(views) : views[i].off >= 0 /\ views[i].off + views[i].spare <= cap
  /\ \A i \in 1..(Len(views) - 1) :
        /\ views[i + 1].off = views[i].off + views[i].init
        /\ views[i + 1].off + views[i + 1].spare <= views[i].off + views[i].spare
  /\ views # <<>> => /\ views[1].off = OwnerOff
                     /\ views[1].spare <= OwnerSpare

\* the bytes a view reports as initialized are exactly the bytes written through it, in order
Contents ==
  \A i \in 1..Len(views) :
     /\ Len(views[i].log) = views[i].init
     /\ Window(mem, views[i].off, views[i].init) = views[i].log

\* the owner's bytes are the old prefix followed by everything reported initialized, in order
OwnerBytes ==
  phase \in {"closed", "final"} =>
     CASE kind \in {"vec", "arrayvec"} -> /\ olen = len0 + Len(done)
                                          /\ Window(mem, 0, olen) = Take(mem0, len0) \o done
       [] kind = "sliceref" -> /\ olen = Len(done) /\ Window(mem, len0, olen) = done
       [] OTHER -> TRUE

\* nothing outside the owner's spare memory is ever touched (never past the capacity,
\* never before the pre-existing length)
Untouched ==
  phase # "idle" =>
     /\ Len(mem) = cap
     /\ \A i \in 1..len0 : mem[i] = mem0[i]

\* no step changes a byte outside the innermost window it works on, or below what is counted
Frame ==
  [][ phase = "open" /\ phase' \in {"open", "closed"} =>
        \A i \in 1..cap : (i <= Top.off + Top.init \/ i > Top.off + Top.spare) => mem'[i] = mem[i] ]_vars

\* releasing a view adds exactly its count to the parent / owner
WriteBack ==
  [][ (act'.a \in {"close", "closeinit"} \/ (act'.a = "readclose" /\ act'.claim = 0)) =>
        LET add == Top.init + (IF act'.a = "readclose" THEN Min(Len(act'.bs), Rem(Top)) ELSE 0) IN
        IF Len(views) > 1
        THEN views'[Len(views) - 1].init = views[Len(views) - 1].init + add
        ELSE olen' = OlenAfter(add) ]_vars

\* a count above what is left is refused and changes no count; dropping an unused intermediate changes no count
RefusedCounts ==
  [][ (act'.a = "overadvance" => (out'.r = "refused" /\ views' = views /\ olen' = olen /\ mem' = mem))
      /\ ((act'.a = "readclose" /\ act'.claim > 0) => (out'.r = "refused" /\ olen' = OlenAfter(SumInit(views))))
      /\ (act'.a = "touch" => (views' = views /\ mem' = mem /\ (kind # "sliceref" => olen' = olen))) ]_vars

\* every slice handed to the caller consists of bytes written through the view it comes from, in order:
\* the whole view (initialized(), read_buffer_ref) or its newest part (read_buffer on a fresh view,
\* the documented reading of read_buffer_ref) -- never a window that mixes or repeats
Suffix(s, t) == Len(s) <= Len(t) /\ SubSeq(t, Len(t) - Len(s) + 1, Len(t)) = s
SliceReported ==
  [][ (act'.a = "closeinit" \/ (act'.a = "readclose" /\ act'.claim = 0)) =>
        LET whole == Top.log \o (IF act'.a = "readclose" THEN Take(act'.bs, Min(Len(act'.bs), Rem(Top))) ELSE <<>>) IN
        /\ Suffix(out'.data, whole)
        /\ (det' => out'.data = whole) ]_vars

\* a write that does not fit is refused, and what was counted fits
Refusal ==
  [][ (act'.a \in {"write", "extend"}) =>
        /\ (out'.r = "cap") = (Len(act'.bs) > Rem(Top))
        /\ out'.rem >= 0 ]_vars
=============================================================================
