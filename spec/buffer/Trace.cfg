SPECIFICATION TraceSpec
CONSTANTS
  MaxDepth = 1000000
INVARIANTS InitLeSpare Nested Contents OwnerBytes Untouched
PROPERTIES Frame FrameTop WriteBack Refusal SliceReported RefusedCounts UserCounts
POSTCONDITION TraceAccepted
CHECK_DEADLOCK FALSE
