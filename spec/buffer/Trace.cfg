SPECIFICATION TraceSpec
CONSTANTS
  MaxDepth = 1000000
INVARIANTS InitLeSpare Nested Contents OwnerBytes Untouched
PROPERTIES Frame WriteBack Refusal SliceReported RefusedCounts
POSTCONDITION TraceAccepted
CHECK_DEADLOCK FALSE
