#!/usr/bin/env python3
"""Writes the TLC configs of MC_Buffer (one family of alphabets per file). The .cfg files are committed;
run this after changing a family:  python3 spec/buffer/gen_cfgs.py"""
import os

HERE = os.path.dirname(os.path.abspath(__file__))
ALL = '{"vec", "arrayvec", "slice", "sliceref", "raw"}'
DEFAULT = [
    ("MaxOps", "4"), ("MaxDepth", "2"), ("MCKinds", ALL), ("Caps", "{0, 1, 3}"), ("Len0s", "{0, 1}"),
    ("Sizes", "{}"), ("ExtExact", "{}"), ("ExtNoHint", "{}"), ("ExtUnder", "{}"), ("ExtOver", "{}"),
    ("AdvSizes", "{}"), ("ScrSizes", "{}"), ("Avails", "{}"), ("CapAts", "{}"), ("CapAts2", "{}"), ("RelCaps", "{}"),
    ("OverKinds", "{}"), ("TouchCaps", "{}"), ("TouchOn", "FALSE"), ("CloseInitOn", "TRUE"), ("UnwindOn", "TRUE"),
    ("ViaSet", "{}"), ("ViaCaps", "{}"), ("Readers", "{}"), ("RdAvails", "{}"), ("RdCaps", "{}"),
    ("UserWho", "{}"), ("UserSizes", "{}"), ("UserCaps", "{}"), ("PkKinds", "{}"), ("PkSizes", "{}"), ("PkInts", "{}"), ("PkNegInts", "{}"),
    ("GrowBy", "{}"), ("RawDirtyNs", "{}"),
]
TAIL = """VIEW View
INVARIANTS InitLeSpare Nested Contents OwnerBytes Untouched
PROPERTIES Frame FrameTop WriteBack Refusal SliceReported RefusedCounts UserCounts
CHECK_DEADLOCK FALSE
"""

FAMILIES = {
    # ---------------------------------------------------------------- quick tier
    # the core operations on the five stores (the family of the first rounds)
    "MC_quick": dict(MaxOps=4, MaxDepth=2, MCKinds='{"vec", "arrayvec", "slice", "sliceref"}', Caps="{0, 1, 3}", Len0s="{0, 1}", Sizes="{0, 1, 2, 4}", ExtExact="{0, 4}", ExtNoHint="{2}",
                     ExtUnder="{1, 4}", ExtOver="{1}", AdvSizes="{1}", ScrSizes="{1}", Avails="{0, 2}", CapAts="{0, 1, 5}",
                     OverKinds='{"plus1", "total"}', TouchCaps="{1}", TouchOn="TRUE"),
    # readers other than the byte slice, read_buffer vs read_buffer_ref, on views that hold bytes, capped
    "Q_readers": dict(MaxOps=3, MaxDepth=2, Caps="{0, 3}", Len0s="{0, 1}", Sizes="{1}", Avails="{2}", CapAts="{1}",
                      Readers='{"mutref", "bufreader", "empty", "repeat", "take", "short", "chain", "err"}',
                      RdAvails="{2}", UnwindOn="FALSE"),
    # how views are made: by hand (second to_buffer_ref), BufferRef::new with a count, Packer; caps relative to what is left;
    # reallocation between views
    "Q_stores": dict(MaxOps=4, MaxDepth=3, Caps="{0, 3}", Len0s="{0, 1}", Sizes="{0, 2}", Avails="{2}",
                     CapAts="{0}", RelCaps="{0, 1, 2}", ViaSet='{"manual"}', ViaCaps="{1}", GrowBy="{2}", RawDirtyNs="{1}",
                     TouchOn="TRUE", CloseInitOn="TRUE", UnwindOn="FALSE"),
    # the call sites inside libtw2: huffman, packer
    "Q_users": dict(MaxOps=3, MaxDepth=3, MCKinds='{"vec", "arrayvec", "slice", "sliceref"}', Caps="{0, 3}", Len0s="{0, 1}", Sizes="{1}", CapAts="{1}",
                    ViaSet='{"packer"}', ViaCaps="{2}", UserWho='{"huffd", "strbytes"}', UserSizes="{0, 1, 3}", UserCaps="{1}",
                    PkKinds='{"raw", "string", "int", "data"}', PkSizes="{0, 2}", PkInts="{5, 64}", PkNegInts="{1}"),
    # ---------------------------------------------------------------- thorough tier
    "MC_thorough": dict(MaxOps=5, MaxDepth=3, Caps="{0, 1, 2, 4}", Len0s="{0, 1, 2}", Sizes="{0, 1, 3, 5}", ExtExact="{0, 1, 3, 5}",
                        ExtNoHint="{1, 3, 5}", ExtUnder="{1, 3, 5}", ExtOver="{0, 1, 3}", AdvSizes="{0, 1, 2}", ScrSizes="{1, 2}",
                        Avails="{0, 2, 5}", CapAts="{0, 1, 3, 5}", CapAts2="{1, 3}", RelCaps="{1}",
                        OverKinds='{"plus1", "total", "total1"}', TouchCaps="{0, 1, 5}", TouchOn="TRUE",
                        ViaSet='{"manual", "packer"}', ViaCaps="{1}",
                        Readers='{"mutref", "boxed", "bufreader", "empty", "repeat", "take", "short", "chain", "err"}',
                        RdAvails="{0, 2}", RdCaps="{1}", UserWho='{"huffd", "strbytes"}', UserSizes="{0, 2, 5}", UserCaps="{1}",
                        PkKinds='{"raw", "rest", "string", "int", "data"}', PkSizes="{0, 2}", PkInts="{0, 63, 64, 8192}", PkNegInts="{1, 65}",
                        GrowBy="{1, 3}", RawDirtyNs="{1, 2}"),
    "Walk_deep": dict(MaxOps=5, MaxDepth=2, Caps="{0, 1, 2, 4}", Len0s="{0, 1, 2}", Sizes="{0, 1, 3, 5}", ExtExact="{0, 3}",
                      ExtNoHint="{3}", ExtUnder="{1, 5}", ExtOver="{1}", AdvSizes="{1, 2}", ScrSizes="{1, 2}", Avails="{2}",
                      CapAts="{0, 1, 5}", OverKinds='{"total"}'),
    "Walk_wide": dict(MaxOps=4, MaxDepth=3, Caps="{0, 1, 2, 4}", Len0s="{0, 1, 2}", Sizes="{0, 1, 3, 5}", ExtExact="{0, 1, 3, 5}",
                      ExtNoHint="{5}", ExtUnder="{1, 5}", ExtOver="{0, 3}", AdvSizes="{0, 1, 2}", ScrSizes="{1, 2}", Avails="{2, 5}",
                      CapAts="{0, 1, 3, 5}", CapAts2="{1, 3}", OverKinds='{"plus1", "total"}', TouchCaps="{5}", TouchOn="TRUE"),
}


def main():
    for name, over in FAMILIES.items():
        unknown = set(over) - set(k for k, _ in DEFAULT)
        assert not unknown, unknown
        lines = ["SPECIFICATION Spec", "CONSTANTS"]
        for k, v in DEFAULT:
            lines.append("  %s = %s" % (k, over.get(k, v)))
        open(os.path.join(HERE, name + ".cfg"), "w").write("\n".join(lines) + "\n" + TAIL)
        print("wrote", name)


if __name__ == "__main__":
    main()
