SPECIFICATION Spec
CONSTANTS
  MaxOps = 5
  MaxDepth = 2
  MCKinds = {"vec", "arrayvec", "slice", "sliceref", "raw"}
  Caps = {0, 1, 2, 4}
  Len0s = {0, 1, 2}
  Sizes = {0, 1, 3, 5}
  ExtExact = {0, 3}
  ExtNoHint = {3}
  ExtUnder = {1, 5}
  ExtOver = {1}
  AdvSizes = {1, 2}
  ScrSizes = {1, 2}
  Avails = {2}
  CapAts = {0, 1, 5}
  CapAts2 = {}
  RelCaps = {}
  OverKinds = {"total"}
  TouchCaps = {}
  TouchOn = FALSE
  CloseInitOn = TRUE
  UnwindOn = TRUE
  ViaSet = {}
  ViaCaps = {}
  Readers = {}
  RdAvails = {}
  RdCaps = {}
  UserWho = {}
  UserSizes = {}
  UserCaps = {}
  PkKinds = {}
  PkSizes = {}
  PkInts = {}
  PkNegInts = {}
  GrowBy = {}
  RawDirtyNs = {}
VIEW View
INVARIANTS InitLeSpare Nested Contents OwnerBytes Untouched
PROPERTIES Frame FrameTop WriteBack Refusal SliceReported RefusedCounts UserCounts
CHECK_DEADLOCK FALSE
