SPECIFICATION Spec
CONSTANTS
  MaxOps = 5
  MaxDepth = 2
  MCKinds = {"vec", "arrayvec", "slice", "sliceref"}
  Caps = {0, 1, 2, 4}
  Len0s = {0, 1, 2}
  Sizes = {0, 1, 3, 5}
  ExtExact = {0, 3}
  ExtNoHint = {3}
  ExtUnder = {1, 5}
  ExtOver = {1}
  AdvSizes = {1, 2}
  Avails = {2}
  CapAts = {0, 1, 5}
  CapAts2 = {}
  OverKinds = {"total"}
  TouchCaps = {}
VIEW View
INVARIANTS InitLeSpare Nested Contents OwnerBytes Untouched
PROPERTIES Frame WriteBack Refusal SliceReported RefusedCounts
CHECK_DEADLOCK FALSE
