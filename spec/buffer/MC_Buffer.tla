----------------------------- MODULE MC_Buffer -----------------------------
(* Bounded instance of Buffer.tla for TLC: the alphabets of the operations, *)
(* and the export of the reachable graph for the replay harness (C19, A).   *)
(* An empty alphabet switches the operation off: every config is a family   *)
(* that concentrates on some of the dimensions.                             *)
EXTENDS Buffer, Json, TLCExt

CONSTANTS MaxOps,    \* operations per run (closes that release the remaining views come on top)
          MCKinds,   \* backing stores explored
          Caps,      \* capacities
          Len0s,     \* pre-existing lengths
          Sizes,     \* lengths offered to write
          ExtExact, ExtNoHint, ExtUnder, ExtOver,   \* lengths yielded by the iterator given to extend, per kind of size_hint
          AdvSizes,  \* lengths for advance
          ScrSizes,  \* lengths for scribble
          Avails,    \* bytes available in the byte-slice reader of read_buffer / read_buffer_ref
          CapAts,    \* arguments of cap_at
          CapAts2,   \* chains of two different cap_at arguments out of this set
          RelCaps,   \* cap_at arguments relative to what is left: remaining + x - 1 for x in this set (a cfg file has no
                     \* negative numbers: 0 = one less than what is left, 1 = exactly what is left, 2 = one more)
          OverKinds, \* counts above what is left: subset of {"plus1", "total", "total1"} (remaining + 1, size of the
                     \* view when it already holds bytes, size of the view + 1)
          TouchCaps, \* cap_at arguments for intermediates dropped without use (besides the uncapped one)
          TouchOn,   \* TRUE: intermediates dropped without use are explored
          CloseInitOn, UnwindOn,
          ViaSet,    \* ways of creating a view besides with_buffer: subset of {"manual", "packer"}
          ViaCaps,   \* cap_at arguments combined with those (besides the uncapped one)
          Readers,   \* kinds of readers besides the byte slice
          RdAvails,  \* bytes held by those
          RdCaps,    \* cap_at arguments for read_buffer with those (besides the uncapped one)
          UserWho,   \* call sites inside libtw2: subset of {"huffd", "strbytes"}
          UserSizes, \* bytes they write
          UserCaps,  \* cap_at arguments for their target (besides the uncapped one)
          PkKinds,   \* Packer operations: subset of PkOps
          PkSizes,   \* lengths of their byte arguments
          PkInts,    \* arguments of write_int
          PkNegInts, \* ... and those of the negative ones (x stands for -x)
          GrowBy,    \* Vec::reserve_exact between views: added capacity
          RawDirtyNs \* BufferRef::new with a non-zero count

Fresh(n) == [j \in 1..n |-> 10 * (ops + 1) + j]
Mem0(c, l) == [i \in 1..c |-> IF i <= l THEN 100 + i ELSE 200 + i]
Room == IF phase = "closed" THEN OwnerSpare ELSE IF phase = "open" THEN Rem(Top) ELSE 0
Chains == {<<>>} \cup {<<k>> : k \in CapAts}
          \cup {<<p[1], p[2]>> : p \in {q \in CapAts2 \X CapAts2 : q[1] # q[2]}}
          \cup {<<Room + d - 1>> : d \in {e \in RelCaps : Room + e - 1 >= 0}}
One(S) == {<<>>} \cup {<<k>> : k \in S}
OpenArgs == {[ks |-> ks, via |-> "with"] : ks \in Chains}
            \cup {[ks |-> ks, via |-> v] : ks \in One(ViaCaps), v \in ViaSet}

\* the variable-length integer of the packer (what TLC expects write_int to write; the harness compares it
\* with what the real packer writes into an ample buffer and reports a different codec as drift)
RECURSIVE IntCont(_)
IntCont(r) == IF r = 0 THEN <<>> ELSE <<(IF r \div 128 # 0 THEN 128 ELSE 0) + (r % 128)>> \o IntCont(r \div 128)
IntEnc(v) == LET s == IF v < 0 THEN 1 ELSE 0
                 u == IF v < 0 THEN -v - 1 ELSE v IN
             <<(IF u \div 64 # 0 THEN 128 ELSE 0) + (64 * s) + (u % 64)>> \o IntCont(u \div 64)

SliceRd == [k |-> "slice", j |-> 0, bs2 |-> <<>>]
RdRec(k) == [k |-> k,
             j |-> IF k = "repeat" THEN 77 ELSE IF k = "bufreader" THEN 2 ELSE IF k \in {"take", "short", "err"} THEN 1 ELSE 0,
             bs2 |-> IF k = "chain" THEN <<91, 92>> ELSE <<>>]
RdCases == {<<n, SliceRd>> : n \in Avails}
           \cup {<<n, RdRec(k)>> : n \in RdAvails, k \in Readers \ {"empty", "repeat"}}
           \cup {<<0, RdRec(k)>> : k \in Readers \cap {"empty", "repeat"}}
RdChains(rd) == IF rd.k = "slice" THEN Chains ELSE One(RdCaps)

NSetup == /\ phase = "idle"
          /\ \E k \in MCKinds, c \in Caps, l \in Len0s :
               l <= c /\ Step([a |-> "setup", kind |-> k, cap |-> c, len0 |-> l, mem0 |-> Mem0(c, l)])
NOpen == ops < MaxOps /\ \E o \in OpenArgs : Step([a |-> "open", ks |-> o.ks, via |-> o.via])
NWrite == ops < MaxOps /\ \E n \in Sizes : Step([a |-> "write", bs |-> Fresh(n)])
ExtCases == {<<n, "exact">> : n \in ExtExact} \cup {<<n, "nohint">> : n \in ExtNoHint}
            \cup {<<n, "under">> : n \in ExtUnder} \cup {<<n, "over">> : n \in ExtOver}
NExtend == ops < MaxOps /\ \E c \in ExtCases : Step([a |-> "extend", bs |-> Fresh(c[1]), it |-> c[2]])
NAdvance == ops < MaxOps /\ \E n \in AdvSizes : Step([a |-> "advance", bs |-> Fresh(n)])
NScribble == ops < MaxOps /\ \E n \in ScrSizes : n > 0 /\ Step([a |-> "scribble", bs |-> Fresh(n)])
NClose == Step([a |-> "close"])                      \* always possible: every view is released in the end
NCloseInit == ops < MaxOps /\ CloseInitOn /\ Step([a |-> "closeinit"])
NUnwind == ops < MaxOps /\ UnwindOn /\ Step([a |-> "unwind"])
NRead == ops < MaxOps /\ \E c \in RdCases : \E ks \in RdChains(c[2]) :
            Step([a |-> "read", bs |-> Fresh(c[1]), ks |-> ks, rd |-> c[2]])
NReadClose == ops < MaxOps /\ \E c \in RdCases :
            Step([a |-> "readclose", bs |-> Fresh(c[1]), claim |-> 0, rd |-> c[2]])
OverCounts == IF phase = "open"
              THEN {c \in ({Rem(Top) + 1 : x \in OverKinds \cap {"plus1"}} \cup {Top.spare : x \in OverKinds \cap {"total"}}
                           \cup {Top.spare + 1 : x \in OverKinds \cap {"total1"}}) : c > Rem(Top)}
              ELSE {}
NOverAdvance == ops < MaxOps /\ \E c \in OverCounts : Step([a |-> "overadvance", n |-> c])
NReadOver == ops < MaxOps /\ \E c \in OverCounts : Step([a |-> "readclose", bs |-> Fresh(2), claim |-> c, rd |-> SliceRd])
NTouch == ops < MaxOps /\ TouchOn /\ \E ks \in One(TouchCaps) : Step([a |-> "touch", ks |-> ks])
NReopen == ops < MaxOps /\ Step([a |-> "reopen"])
NRawDirty == ops < MaxOps /\ \E n \in RawDirtyNs : Step([a |-> "rawdirty", n |-> n])
NUser == ops < MaxOps /\ \E w \in UserWho, n \in UserSizes, ks \in One(UserCaps) :
            Step([a |-> "user", who |-> w, bs |-> IF w = "strbytes" THEN Fresh(n) \o <<0>> ELSE Fresh(n), ks |-> ks, ret |-> TRUE])
PkCases == {[op |-> o, v |-> 0, bs |-> Fresh(n)] : o \in PkKinds \cap {"raw", "rest"}, n \in PkSizes}
           \cup {[op |-> "string", v |-> 0, bs |-> Fresh(n) \o <<0>>] : n \in {m \in PkSizes : "string" \in PkKinds}}
           \cup {[op |-> "data", v |-> n, bs |-> IntEnc(n) \o Fresh(n)] : n \in {m \in PkSizes : "data" \in PkKinds}}
           \cup {[op |-> "int", v |-> v, bs |-> IntEnc(v)] : v \in {w \in PkInts \cup {-x : x \in PkNegInts} : "int" \in PkKinds}}
NPk == ops < MaxOps /\ \E c \in PkCases : Step([a |-> "pk", op |-> c.op, v |-> c.v, bs |-> c.bs])
NGrow == ops < MaxOps /\ phase = "closed" /\ \E g \in GrowBy :
            Step([a |-> "grow", cap |-> cap + g, tail |-> [i \in 1..(cap + g - olen) |-> 150 + i]])
NFinal == Step([a |-> "final"])

Next == \/ NSetup \/ NOpen \/ NWrite \/ NExtend \/ NAdvance \/ NScribble
        \/ NClose \/ NCloseInit \/ NUnwind \/ NRead \/ NReadClose \/ NOverAdvance \/ NReadOver \/ NTouch
        \/ NReopen \/ NRawDirty \/ NUser \/ NPk \/ NGrow \/ NFinal

Spec == Init /\ [][Next]_vars

View == <<phase, kind, cap, len0, mem, olen, views, ops>>

\* ---- export of every transition of the graph (ACTION_CONSTRAINT; -workers 1)
St == [phase |-> phase, kind |-> kind, cap |-> cap, len0 |-> len0, mem |-> mem, olen |-> olen,
       views |-> views, ops |-> ops]
StP == [phase |-> phase', kind |-> kind', cap |-> cap', len0 |-> len0', mem |-> mem', olen |-> olen',
        views |-> views', ops |-> ops']
Export == /\ IF TLCGet(1) # St THEN PrintT(<<"S", ToJson(St)>>) /\ TLCSet(1, St) ELSE TRUE
          /\ PrintT(<<"T", ToJson(act'), ToJson(out'), ToJson(det'), ToJson(StP)>>)
ASSUME TLCSet(1, [phase |-> "none"])
=============================================================================
