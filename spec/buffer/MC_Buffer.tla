----------------------------- MODULE MC_Buffer -----------------------------
(* Bounded instance of Buffer.tla for TLC: the alphabets of the operations, *)
(* and the export of the reachable graph for the replay harness (C19, A).   *)
EXTENDS Buffer, Json, TLCExt

CONSTANTS MaxOps,    \* operations per run (closes that release the remaining views come on top)
          MCKinds,   \* backing stores explored
          Caps,      \* capacities
          Len0s,     \* pre-existing lengths
          Sizes,     \* lengths offered to write
          ExtExact, ExtNoHint, ExtUnder, ExtOver,   \* lengths yielded by the iterator given to extend, per kind of size_hint
          AdvSizes,  \* lengths for advance / scribble
          Avails,    \* bytes available in the reader of read_buffer
          CapAts,    \* arguments of cap_at
          CapAts2,   \* chains of two different cap_at arguments out of this set
          OverKinds, \* counts above what is left: subset of {"plus1", "total", "total1"} (remaining + 1, size of the
                     \* view when it already holds bytes, size of the view + 1)
          TouchCaps  \* cap_at arguments for intermediates dropped without use (besides the uncapped one)

Fresh(n) == [j \in 1..n |-> 10 * (ops + 1) + j]
Mem0(c, l) == [i \in 1..c |-> IF i <= l THEN 100 + i ELSE 200 + i]
Chains == {<<>>} \cup {<<k>> : k \in CapAts}
          \cup {<<p[1], p[2]>> : p \in {q \in CapAts2 \X CapAts2 : q[1] # q[2]}}

NSetup == /\ phase = "idle"
          /\ \E k \in MCKinds, c \in Caps, l \in Len0s :
               l <= c /\ Step([a |-> "setup", kind |-> k, cap |-> c, len0 |-> l, mem0 |-> Mem0(c, l)])
NOpen == ops < MaxOps /\ \E ks \in Chains : Step([a |-> "open", ks |-> ks])
NWrite == ops < MaxOps /\ \E n \in Sizes : Step([a |-> "write", bs |-> Fresh(n)])
ExtCases == {<<n, "exact">> : n \in ExtExact} \cup {<<n, "nohint">> : n \in ExtNoHint}
            \cup {<<n, "under">> : n \in ExtUnder} \cup {<<n, "over">> : n \in ExtOver}
NExtend == ops < MaxOps /\ \E c \in ExtCases : Step([a |-> "extend", bs |-> Fresh(c[1]), it |-> c[2]])
NAdvance == ops < MaxOps /\ \E n \in AdvSizes : Step([a |-> "advance", bs |-> Fresh(n)])
NScribble == ops < MaxOps /\ \E n \in AdvSizes : n > 0 /\ Step([a |-> "scribble", bs |-> Fresh(n)])
NClose == Step([a |-> "close"])                      \* always possible: every view is released in the end
NCloseInit == ops < MaxOps /\ Step([a |-> "closeinit"])
NUnwind == ops < MaxOps /\ Step([a |-> "unwind"])
NRead == ops < MaxOps /\ \E n \in Avails, ks \in Chains : Step([a |-> "read", bs |-> Fresh(n), ks |-> ks])
NReadClose == ops < MaxOps /\ \E n \in Avails : Step([a |-> "readclose", bs |-> Fresh(n), claim |-> 0])
OverCounts == IF phase = "open"
              THEN {c \in ({Rem(Top) + 1 : x \in OverKinds \cap {"plus1"}} \cup {Top.spare : x \in OverKinds \cap {"total"}}
                           \cup {Top.spare + 1 : x \in OverKinds \cap {"total1"}}) : c > Rem(Top)}
              ELSE {}
NOverAdvance == ops < MaxOps /\ \E c \in OverCounts : Step([a |-> "overadvance", n |-> c])
NReadOver == ops < MaxOps /\ \E c \in OverCounts : Step([a |-> "readclose", bs |-> Fresh(2), claim |-> c])
NTouch == ops < MaxOps /\ \E ks \in {<<>>} \cup {<<k>> : k \in TouchCaps} : Step([a |-> "touch", ks |-> ks])
NFinal == Step([a |-> "final"])

Next == \/ NSetup \/ NOpen \/ NWrite \/ NExtend \/ NAdvance \/ NScribble
        \/ NClose \/ NCloseInit \/ NUnwind \/ NRead \/ NReadClose \/ NOverAdvance \/ NReadOver \/ NTouch \/ NFinal

Spec == Init /\ [][Next]_vars

View == <<phase, kind, cap, len0, mem, olen, views, ops>>

\* ---- export of every transition of the graph (ACTION_CONSTRAINT; -workers 1)
St == [phase |-> phase, kind |-> kind, cap |-> cap, len0 |-> len0, mem |-> mem, olen |-> olen,
       views |-> views, ops |-> ops]
StP == [phase |-> phase', kind |-> kind', cap |-> cap', len0 |-> len0', mem |-> mem', olen |-> olen',
        views |-> views', ops |-> ops']
Export == /\ IF TLCGet(1) # St THEN PrintT(<<"S", ToJson(St)>>) /\ TLCSet(1, St) ELSE TRUE
          /\ PrintT(<<"T", ToJson(act'), ToJson(out'), ToJson(det'), ToJson(StP)>>)
ASSUME TLCSet(1, [phase |-> "none"])
=============================================================================
