SPECIFICATION Spec
CONSTANTS
  MaxOps = 3
  MaxDepth = 3
  MCKinds = {"vec", "arrayvec", "slice", "sliceref"}
  Caps = {0, 3}
  Len0s = {0, 1}
  Sizes = {1}
  ExtExact = {}
  ExtNoHint = {}
  ExtUnder = {}
  ExtOver = {}
  AdvSizes = {}
  ScrSizes = {}
  Avails = {}
  CapAts = {1}
  CapAts2 = {}
  RelCaps = {}
  OverKinds = {}
  TouchCaps = {}
  TouchOn = FALSE
  CloseInitOn = TRUE
  UnwindOn = TRUE
  ViaSet = {"packer"}
  ViaCaps = {2}
  Readers = {}
  RdAvails = {}
  RdCaps = {}
  UserWho = {"huffd", "strbytes"}
  UserSizes = {0, 1, 3}
  UserCaps = {1}
  PkKinds = {"raw", "string", "int", "data"}
  PkSizes = {0, 2}
  PkInts = {5, 64}
  PkNegInts = {1}
  GrowBy = {}
  RawDirtyNs = {}
VIEW View
INVARIANTS InitLeSpare Nested Contents OwnerBytes Untouched
PROPERTIES Frame FrameTop WriteBack Refusal SliceReported RefusedCounts UserCounts
CHECK_DEADLOCK FALSE
