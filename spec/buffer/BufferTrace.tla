---------------------------- MODULE BufferTrace ----------------------------
(* Direction B for C19: a trace recorded from the real libtw2_buffer API    *)
(* (NDJSON, one {"act":..,"out":..} per call) must be a behaviour of        *)
(* Buffer.tla: every logged call is a step of the specification with the    *)
(* logged arguments, and what the code let the caller observe is what the   *)
(* specification says.  The invariants and action properties of Buffer.tla  *)
(* are evaluated on every step of the real execution.                       *)
EXTENDS Buffer, Json, IOUtils, TLCExt

Rec == ndJsonDeserialize(IOEnv.TRACE)

VARIABLE l
tvars == <<vars, l>>

MemOk(s, o) == Len(s) = Len(o) /\ \A i \in 1..Len(s) : s[i] = DC \/ s[i] = o[i]
Match(s, o) == /\ DOMAIN s = DOMAIN o
               /\ \A f \in DOMAIN s \ {"mem"} : s[f] = o[f]
               /\ ("mem" \in DOMAIN s) => MemOk(s.mem, o.mem)

TraceInit == Init /\ l = 1
TraceNext ==
  /\ l <= Len(Rec)
  /\ Step(Rec[l].act)
  /\ Match(out', Rec[l].out)
  /\ l' = l + 1
  /\ (det' \/ PrintT(<<"TRACE DRIFT at event", l, Rec[l]>>))
TraceSpec == TraceInit /\ [][TraceNext]_tvars

TraceAccepted ==
  LET d == TLCGet("stats").diameter IN
  IF d - 1 = Len(Rec) THEN TRUE
  ELSE Print(<<"TRACE REJECTED at event", d, Rec[d]>>, FALSE)
=============================================================================
