------------------------------ MODULE MapCases ------------------------------
EXTENDS MapGen
V4 == {4}
V34 == {3, 4}
NoPairs == {}
\* << item, word, word, values, values >>: group start/num; layer type x tilemap flags;
\* tilemap version x flags; tilemap flags x item version of the teleport layer
IdxVals == {-2, -1, 0, 1, 2, 3, 4, MINI, MAXI}
PairsT == { << 6, 6, 7, IdxVals, IdxVals >>,
            << 7, 6, 7, IdxVals, IdxVals >>,
            << 8, 2, 7, {2, 3, 9, 10, 11}, {0, 1, 2, 4, 8, 16, 32, 3, 64} >>,
            << 8, 4, 7, {0, 1, 2, 3, 4}, {0, 1, 2, 4, 8, 16, 32, 3} >>,
            << 10, 4, 7, {0, 1, 2, 3, 4}, {0, 1, 2, 4, 8, 16, 32, 3} >>,
            << 10, 5, 6, {-1, 0, 1, 2, 3, MAXI}, {-1, 0, 1, 2, 3, MAXI} >>,
            << 9, 2, 4, {2, 3, 9, 10}, {0, 1, 2, 3} >> }
=============================================================================
