------------------------------- MODULE MapGen -------------------------------
(***************************************************************************)
(* Structured generator of map-shaped datafiles (doc/map.md item layouts:  *)
(* version, info, images, envelope, groups, layers (tilemap / quads /      *)
(* sounds), envelope points, sound).  Every generated file is a WELL-FORMED *)
(* datafile (laid out by Datafile!Layout); what is swept is the content of *)
(* the map items: every word of every item over boundary values (index     *)
(* fields: -2, -1, 0 .. one past the end, MIN, MAX; versions, flags and    *)
(* layer types over their whole small ranges), every item truncated to     *)
(* every shorter length, and selected pairs of fields.                     *)
(*                                                                         *)
(* The map layer has no specification beyond index validity: TLC is a      *)
(* generator here, the claim is "total on everything generated", and the   *)
(* recorded calls are judged by MapTrace.tla (no panic/hang; every index    *)
(* handed out lies inside the range it refers to).                         *)
(***************************************************************************)
EXTENDS Datafile, Json

CONSTANTS Versions, Pairs

VARIABLES v, sw
vars == << v, sw >>

N3 == << 0, 0, 0 >>

\* group 0 = layers 0..2 (game tilemap, quads, teleport tilemap), group 1 = layer 3 (a normal
\* tilemap with image and colour envelope); the five trailing words of a tilemap are the DDNet
\* extension indices tele, speedup, front, switch, tune
BaseItems == <<
  [t |-> 0, id |-> 0, w |-> << 1 >>],
  [t |-> 1, id |-> 0, w |-> << 1, 0, -1, -1, -1, 4 >>],
  [t |-> 2, id |-> 0, w |-> << 1, 2, 2, 0, 1, 2 >>],
  [t |-> 2, id |-> 1, w |-> << 1, 2, 2, 1, 1, -1 >>],
  [t |-> 3, id |-> 0, w |-> << 2, 4, 0, 1, 0, 0, 0, 0, 0, 0, 0, 0, 0 >>],
  [t |-> 4, id |-> 0, w |-> << 3, 0, 0, 100, 100, 0, 3, 0, 0, 0, 0, 0 >> \o N3],
  [t |-> 4, id |-> 1, w |-> << 3, 0, 0, 100, 100, 3, 1, 1, 0, 0, 64, 64 >> \o N3],
  [t |-> 5, id |-> 0, w |-> << 0, 2, 0, 3, 2, 2, 1, 255, 255, 255, 255, -1, 0, -1, 3 >> \o N3 \o << 5, 6, 3, 3, 5 >>],
  [t |-> 5, id |-> 1, w |-> << 0, 3, 1, 2, 1, 2, 0 >> \o N3],
  [t |-> 5, id |-> 2, w |-> << 0, 2, 0, 3, 2, 2, 2, 255, 255, 255, 255, -1, 0, -1, 3 >> \o N3 \o << 5, 6, 3, 3, 5 >>],
  [t |-> 5, id |-> 3, w |-> << 0, 2, 1, 3, 2, 2, 0, 255, 128, 0, 255, 0, 0, 0, 3 >> \o N3],
  [t |-> 6, id |-> 0, w |-> << 0, 0, 1024, 0, 0, 0 >>],
  [t |-> 7, id |-> 0, w |-> << 1, 0, 1, 2, 16 >>] >>

\* 0 author string, 1 image name, 2 image / quads data, 3 tiles (2x2x4 bytes), 4 settings,
\* 5 tele / tune tiles (2x2x2), 6 speedup tiles (2x2x6)
BaseData == <<
  << 97, 0 >>,
  << 105, 109, 103, 0 >>,
  << 1, 2, 3, 4, 5, 6, 7, 8, 9, 10, 11, 12, 13, 14, 15, 16 >>,
  << 1, 0, 0, 0, 0, 0, 0, 0, 3, 0, 0, 0, 0, 0, 0, 0 >>,
  << 120, 0, 121, 122, 0 >>,
  << 1, 26, 0, 0, 2, 27, 0, 0 >>,
  << 1, 2, 28, 0, 90, 0, 0, 0, 0, 0, 0, 0, 0, 0, 0, 0, 0, 0, 0, 0, 0, 0, 0, 0 >>,
  << >> >>       \* 7: a zero-length block (every index field is swept onto it: SweepVals has 7)

BaseTypes == << 0, 1, 2, 3, 4, 5, 6, 7 >>

SweepVals == {-2, -1, 0, 1, 2, 3, 4, 5, 6, 7, 8, 9, 10, 16, 32, 64, 255, 256, MINI, MAXI}

NoSweep == [kind |-> "none", k |-> 0, j |-> 0, x |-> 0, j2 |-> 0, x2 |-> 0]

Sweeps ==
  UNION { UNION { { [kind |-> "word", k |-> k, j |-> j, x |-> x, j2 |-> 0, x2 |-> 0]
                    : x \in SweepVals \ {BaseItems[k].w[j]} }
                  : j \in 1..Len(BaseItems[k].w) }
          : k \in 1..Len(BaseItems) }
  \cup UNION { { [kind |-> "trunc", k |-> k, j |-> n, x |-> 0, j2 |-> 0, x2 |-> 0]
                 : n \in 0..(Len(BaseItems[k].w) - 1) }
               : k \in 1..Len(BaseItems) }
  \* every data block shortened to 0 bytes, 1 byte and by its last byte (a zero-length string,
  \* settings block, image, tile array ... behind an otherwise unchanged, valid index)
  \cup UNION { { [kind |-> "data", k |-> k, j |-> n, x |-> 0, j2 |-> 0, x2 |-> 0]
                 : n \in {0, 1, Len(BaseData[k]) - 1} \cap 0..(Len(BaseData[k]) - 1) }
               : k \in 1..Len(BaseData) }
  \cup UNION { { [kind |-> "pair", k |-> p[1], j |-> p[2], x |-> x, j2 |-> p[3], x2 |-> x2]
                 : x \in p[4], x2 \in p[5] }
               : p \in Pairs }

ItemsOf(s) ==
  Strict([k \in 1..Len(BaseItems) |->
     IF k # s.k THEN BaseItems[k]
     ELSE CASE s.kind = "word" -> [BaseItems[k] EXCEPT !.w[s.j] = s.x]
            [] s.kind = "trunc" -> [BaseItems[k] EXCEPT !.w = SubSeq(@, 1, s.j)]
            [] s.kind = "pair" -> [BaseItems[k] EXCEPT !.w[s.j] = s.x, !.w[s.j2] = s.x2]
            [] OTHER -> BaseItems[k]])

DataOf(s) ==
  IF s.kind = "data" THEN [BaseData EXCEPT ![s.k] = SubSeq(@, 1, s.j)] ELSE BaseData

DfOf(s) == [types |-> BaseTypes, items |-> ItemsOf(s), data |-> DataOf(s)]

Init == v \in Versions /\ sw = NoSweep
Next == sw = NoSweep /\ sw' \in Sweeps /\ UNCHANGED v
Spec == Init /\ [][Next]_vars

\* Every generated file is a well-formed datafile with exactly the swept content: the law is
\* evaluated on the base map and on every truncation (the word sweeps change content only).
Emit ==
  LET df == DfOf(sw)
      L == Layout(v, df)
  IN /\ sw.kind \in {"none", "trunc", "data"} =>
          LET B == FileBytes(L)
              R == Read(B, << >>)
          IN /\ R.open = "ok" /\ R.items = df.items /\ ValidDoc(B, << >>)
             /\ \A k \in 1..Len(df.data) : R.data[k] = [r |-> "ok", b |-> df.data[k]]
     /\ PrintT(<< "M", ToJson([kind |-> "map", v |-> v, sw |-> sw, L |-> L]) >>)
=============================================================================
