------------------------------- MODULE MapGen -------------------------------
(***************************************************************************)
(* Generator of map-shaped datafiles and of what the map reader must       *)
(* answer on them (Map.tla).                                               *)
(*                                                                         *)
(* A profile p (a record of small choices: item versions of info / image / *)
(* envelope / group / tilemap / quads / sounds layer, which DDNet physics  *)
(* layers exist, clipping, detail, external image, colour envelope, names, *)
(* dimensions ...) is turned into a typed, WELL-FORMED abstract map        *)
(* MkMap(p); Map!MapDf lays it out as items and data blocks.  Initial      *)
(* states: the base profiles (a DDNet map, a vanilla 0.7-style map, an old *)
(* race map with version 1 groups and version 2 tilemaps) and every        *)
(* single-choice deviation from them, in both datafile versions.  One      *)
(* step: one corruption of the laid-out map of a base profile: every word  *)
(* of every item over boundary values, every truncation of every item,     *)
(* data blocks shortened, selected pairs of fields.                        *)
(*                                                                         *)
(* Laws checked in every state (invariant Emit):                           *)
(*   * a well-formed map is read back exactly as stored:                   *)
(*       StoredAgree(T, Calls(RofDf(MapDf(T)))) /\ MapValid                *)
(*   * the laid-out file is a well-formed datafile with that content       *)
(*       (Datafile!Read o FileBytes o Layout) -- on the uncorrupted maps,  *)
(*       truncations and shortened data blocks;                            *)
(*   * totality: every expected call is in {ok, err} (TLC would stop on    *)
(*     any out-of-domain application inside the reader operators).         *)
(* Each state is printed as a case: the layout, the expected calls         *)
(* (accessor, argument, ok/err, value), the expected item parts, wf, valid.*)
(***************************************************************************)
EXTENDS Map, Json

CONSTANTS Versions,     \* datafile versions
          Variants,     \* BOOLEAN: also every single-choice deviation of the base profiles
          SweepLevel,   \* 0: no corruptions, 1: reduced value set on the secondary profiles, 2: full
          Pairs         \* BOOLEAN: pair sweeps

VARIABLES v, p, sw
vars == << v, p, sw >>

----------------------------------------------------------------------------
(* profiles *)

AllPhys == {"tele", "speedup", "front", "switch", "tune"}
PhysFlag(k) == CASE k = "tele" -> 2 [] k = "speedup" -> 4 [] k = "front" -> 8 [] k = "switch" -> 16 [] k = "tune" -> 32
PhysOrder == << "tele", "speedup", "front", "switch", "tune" >>

NameGame == << 71, 97, 109, 101 >>
NameFull == << 255, 128, 1, 127, 200, 65, 66, 67, 68, 69, 70 >>      \* 11 bytes, high and low values

Ddnet == [ info |-> "full", imgv |-> 1, ext0 |-> FALSE, ev |-> "2", npts |-> 2, gv |-> 3, clip |-> TRUE,
           tv |-> 3, qv |-> 2, sl |-> "v2", phys |-> AllPhys, x5 |-> TRUE, dim |-> << 2, 2 >>,
           detail |-> 1, env |-> TRUE, img |-> TRUE, name |-> NameGame, off |-> 0,
           color |-> << 255, 128, 0, 255 >>, nq |-> 0, ns |-> 0, garbage |-> -1 ]

Vanilla == [ info |-> "nos", imgv |-> 2, ext0 |-> FALSE, ev |-> "3", npts |-> 1, gv |-> 3, clip |-> FALSE,
             tv |-> 3, qv |-> 2, sl |-> "none", phys |-> {}, x5 |-> FALSE, dim |-> << 3, 2 >>,
             detail |-> 0, env |-> FALSE, img |-> TRUE, name |-> NameFull, off |-> 0,
             color |-> << 255, 255, 255, 255 >>, nq |-> 1, ns |-> 0, garbage |-> 0 ]

OldRace == [ info |-> "min", imgv |-> 1, ext0 |-> TRUE, ev |-> "1l", npts |-> 0, gv |-> 1, clip |-> FALSE,
             tv |-> 2, qv |-> 1, sl |-> "legacy", phys |-> {"tele", "speedup"}, x5 |-> TRUE, dim |-> << 1, 1 >>,
             detail |-> 0, env |-> TRUE, img |-> FALSE, name |-> << >>, off |-> 0,
             color |-> << 0, 0, 0, 0 >>, nq |-> 0, ns |-> 1, garbage |-> 305419896 ]

BaseProfiles == << Ddnet, Vanilla, OldRace >>

ChoiceDom == [ info |-> {"min", "nos", "full"}, imgv |-> {1, 2}, ext0 |-> BOOLEAN, ev |-> {"1l", "1", "2", "3"},
             npts |-> {0, 1, 2}, gv |-> {1, 2, 3}, clip |-> BOOLEAN, tv |-> {2, 3}, qv |-> {1, 2},
             sl |-> {"none", "legacy", "v2"},
             phys |-> {{}, AllPhys, {"tele"}, {"speedup"}, {"front"}, {"switch"}, {"tune"}},
             x5 |-> BOOLEAN, dim |-> {<< 1, 1 >>, << 2, 2 >>, << 3, 2 >>, << 1, 3 >>}, detail |-> {0, 1},
             env |-> BOOLEAN, img |-> BOOLEAN, name |-> {<< >>, NameGame, NameFull}, off |-> {0, MINI, MAXI},
             color |-> {<< 0, 0, 0, 0 >>, << 255, 255, 255, 255 >>, << 255, 128, 0, 1 >>}, nq |-> {0, 1, 2},
             ns |-> {0, 1}, garbage |-> {-1, 0, MINI} ]

VariantsOf(b) ==
  {b} \cup UNION { { [b EXCEPT ![f] = x] : x \in ChoiceDom[f] } : f \in DOMAIN ChoiceDom }

----------------------------------------------------------------------------
(* profile -> typed well-formed map *)

PatBytes(seed, n) == Strict([j \in 1..n |-> (seed * 31 + j * 7) % 256])

\* the data table: key, present?, typed entry; indices are positions among the present ones
Blocks(q) ==
  LET w == q.dim[1] h == q.dim[2] n == w * h
      Str(s) == [k |-> "str", s |-> s, cmds |-> << >>, b |-> << >>]
      Byt(b) == [k |-> "bytes", s |-> << >>, cmds |-> << >>, b |-> b]
      B(key, on, e) == [key |-> key, on |-> on, e |-> e]
      strs == q.info # "min"
      snd == q.sl # "none"
      srcsize == IF q.sl = "legacy" THEN 36 ELSE 52
  IN << B("author", strs, Str(<< 97 >>)),
        B("mapver", strs, Str(<< 49, 46, 48 >>)),
        B("credits", strs, Str(<< >>)),
        B("license", strs, Str(<< 77, 73, 84 >>)),
        B("settings", q.info = "full",
          [k |-> "settings", s |-> << >>, cmds |-> << << 120 >>, << 121, 32, 49 >>, << >> >>, b |-> << >>]),
        B("img0name", TRUE, Str(<< 105, 109, 103 >>)),
        B("img0pix", ~q.ext0, Byt(PatBytes(1, 16))),
        B("img1name", TRUE, Str(<< 103, 114, 97, 115, 115, 95, 109, 97, 105, 110 >>)),
        B("game", TRUE, Byt(PatBytes(2, 4 * n))),
        B("zero", q.phys # {}, Byt(Zeros(4 * n))),
        B("tele", "tele" \in q.phys, Byt(PatBytes(3, 2 * n))),
        B("speedup", "speedup" \in q.phys, Byt(PatBytes(4, 6 * n))),
        B("front", "front" \in q.phys, Byt(PatBytes(5, 4 * n))),
        B("switch", "switch" \in q.phys, Byt(PatBytes(6, 4 * n))),
        B("tune", "tune" \in q.phys, Byt(PatBytes(7, 2 * n))),
        B("tiles", TRUE, Byt(PatBytes(8, 4 * n))),
        B("quads", TRUE, Byt(PatBytes(9, 152 * q.nq))),
        B("sources", snd, Byt(PatBytes(10, srcsize * q.ns))),
        B("snd0name", snd, Str(<< 115 >>)),
        B("snd0data", snd, Byt(<< 79, 103, 103, 83, 0 >>)),
        B("empty", TRUE, Byt(<< >>)) >>

DIdx(q, key) ==
  LET bs == Blocks(q)
      pos == CHOOSE j \in 1..Len(bs) : bs[j].key = key
  IN IF ~bs[pos].on THEN -1 ELSE Cardinality({j \in 1..(pos - 1) : bs[j].on})

MkMap(q) ==
  LET w == q.dim[1] h == q.dim[2]
      bs == Blocks(q)
      D(key) == DIdx(q, key)
      physSeq == SelectSeq(PhysOrder, LAMBDA k : k \in q.phys)
      hasX5 == q.x5 \/ q.phys # {}
      X5 == IF hasX5 THEN [j \in 1..5 |-> D(PhysOrder[j])] ELSE << >>
      NoX5 == IF hasX5 THEN << -1, -1, -1, -1, -1 >> ELSE << >>
      nameOK(ver, min) == IF ver >= min THEN q.name ELSE << >>
      Tile(flags, data, x5, env, image, color) ==
        [ kind |-> "tilemap", garbage |-> q.garbage, detail |-> q.detail, lv |-> q.tv, name |-> nameOK(q.tv, 3),
          w |-> w, h |-> h, flags |-> flags, color |-> color, env |-> env, envoff |-> IF env = -1 THEN 0 ELSE 7,
          image |-> image, data |-> data, x5 |-> x5, n |-> 0, ref |-> -1, legacy |-> FALSE ]
      gameL == Tile(1, D("game"), NoX5, -1, -1, << 255, 255, 255, 255 >>)
      physL == [j \in 1..Len(physSeq) |->
                  Tile(PhysFlag(physSeq[j]), D("zero"),
                       [i \in 1..5 |-> IF PhysOrder[i] = physSeq[j] THEN D(physSeq[j]) ELSE -1],
                       -1, -1, << 255, 255, 255, 255 >>)]
      tilesL == Tile(0, D("tiles"), NoX5, IF q.env THEN 0 ELSE -1, IF q.img THEN 0 ELSE -1, q.color)
      quadsL == [ kind |-> "quads", garbage |-> q.garbage, detail |-> q.detail, lv |-> q.qv, name |-> nameOK(q.qv, 2),
                  w |-> 0, h |-> 0, flags |-> 0, color |-> << >>, env |-> -1, envoff |-> 0,
                  image |-> IF q.img THEN 1 ELSE -1, data |-> D("quads"), x5 |-> << >>, n |-> q.nq, ref |-> -1,
                  legacy |-> FALSE ]
      soundsL == [ kind |-> "sounds", garbage |-> q.garbage, detail |-> q.detail,
                   lv |-> IF q.sl = "legacy" THEN 1 ELSE 2, name |-> q.name,
                   w |-> 0, h |-> 0, flags |-> 0, color |-> << >>, env |-> -1, envoff |-> 0, image |-> -1,
                   data |-> D("sources"), x5 |-> << >>, n |-> q.ns, ref |-> 0, legacy |-> q.sl = "legacy" ]
      layers == << gameL >> \o physL \o << tilesL, quadsL >> \o (IF q.sl # "none" THEN << soundsL >> ELSE << >>)
      nG == 1 + Len(physSeq)
      evn == CASE q.ev = "1l" -> 1 [] q.ev = "1" -> 1 [] q.ev = "2" -> 2 [] q.ev = "3" -> 3
      psize == IF evn = 3 THEN 22 ELSE 6
      Env(ch, start, nm) == [ ev |-> evn, legacy |-> q.ev = "1l", channels |-> ch, start |-> start, num |-> q.npts,
                              name |-> IF q.ev = "1l" THEN << >> ELSE nm, sync |-> 1 ]
      Group(start, num, clip, nm, o, par) ==
        [ gv |-> q.gv, ox |-> o, oy |-> (IF o = MINI THEN MAXI ELSE IF o = MAXI THEN MINI ELSE 3), px |-> par, py |-> par, start |-> start,
          num |-> num, clip |-> IF q.gv >= 2 THEN clip ELSE << >>, name |-> nameOK(q.gv, 3) ]
  IN [ version |-> 1,
       info |-> [ author |-> D("author"), mapver |-> D("mapver"), credits |-> D("credits"),
                  license |-> D("license"), sfield |-> q.info # "min", settings |-> D("settings") ],
       images |-> << [ iv |-> q.imgv, w |-> 2, h |-> 2, ext |-> q.ext0, name |-> D("img0name"),
                       data |-> D("img0pix"), variant |-> 1 ],
                     [ iv |-> q.imgv, w |-> 1024, h |-> 1024, ext |-> TRUE, name |-> D("img1name"),
                       data |-> -1, variant |-> 0 ] >>,
       envs |-> << Env(4, 0, << 99, 111, 108 >>), Env(3, q.npts, NameFull \o NameFull \o << 1, 2, 3, 4, 5, 6, 7, 8, 9 >>) >>,
       points |-> [j \in 1..(2 * q.npts) |-> [i \in 1..psize |-> IF i = 1 THEN 1000 * j ELSE IF i = 2 THEN j % 6 ELSE ((i * j) % 7) - 3]],
       groups |-> << Group(0, nG, << >>, NameGame, 0, 100),
                     Group(nG, Len(layers) - nG, IF q.clip THEN << -5, MAXI, 640, MINI >> ELSE << >>, q.name, q.off, 50) >>,
       layers |-> layers,
       sounds |-> IF q.sl # "none"
                  THEN << [ name |-> D("snd0name"), data |-> D("snd0data"), size |-> 5 ] >> ELSE << >>,
       data |-> [j \in 1..Len(SelectSeq(bs, LAMBDA x : x.on)) |-> SelectSeq(bs, LAMBDA x : x.on)[j].e],
       gamegroup |-> 1 ]

----------------------------------------------------------------------------
(* corruptions of the laid-out map (always a well-formed datafile) *)

SweepValsFull == {-2, -1, 0, 1, 2, 3, 4, 5, 6, 7, 8, 9, 10, 12, 15, 16, 17, 20, 21, 32, 64, 255, 256, MINI, MAXI}
SweepValsMain == {-2, -1, 0, 1, 2, 3, 4, 8, 16, 20, 21, 32, 256, MINI, MAXI}
SweepValsSmall == {-1, 0, 1, 2, 3, 256, MINI, MAXI}

NoSweep == [kind |-> "none", k |-> 0, j |-> 0, x |-> 0, j2 |-> 0, x2 |-> 0]

\* << type, id, word, word, values, values >>: group start x num; layer type x tilemap flags; tilemap
\* version x flags; width x height; image external x data
IdxVals == {-2, -1, 0, 1, 2, 3, 4, MINI, MAXI}
PairList == << << 4, 0, 6, 7, IdxVals, IdxVals >>,
               << 4, 1, 6, 7, IdxVals \cup {5, 6, 7, 8, 9}, IdxVals \cup {5, 6, 7, 8, 9} >>,
               << 5, 1, 2, 7, {2, 3, 9, 10, 11}, {0, 1, 2, 4, 8, 16, 32, 3, 64} >>,
               << 5, 1, 4, 7, {0, 1, 2, 3, 4}, {0, 1, 2, 4, 8, 16, 32, 3} >>,
               << 5, 0, 4, 7, {0, 1, 2, 3, 4}, {0, 1, 2, 4, 8, 16, 32, 3} >>,
               << 5, 0, 5, 6, {-1, 0, 1, 2, 3, 65536, MAXI}, {-1, 0, 1, 2, 3, 65536, MAXI} >>,
               << 5, 1, 5, 6, {-1, 0, 1, 2, 4, MAXI}, {-1, 0, 1, 2, 4, MAXI} >>,
               << 2, 0, 4, 6, {-1, 0, 1, 2, MINI}, IdxVals \cup {20, 21} >> >>

ItemIx(df, t, id) ==
  LET hits == {k \in 1..Len(df.items) : df.items[k].t = t /\ df.items[k].id = id} IN
  IF hits = {} THEN 0 ELSE CHOOSE k \in hits : TRUE

\* picks: an intermediate state per item / data block / pair family, so that the corruptions of
\* one base are spread over TLC's workers (a pick state is not a case)
Picks(df) ==
  { [kind |-> "pick", k |-> k, j |-> 0, x |-> 0, j2 |-> 0, x2 |-> 0] : k \in 1..Len(df.items) }
  \cup { [kind |-> "pick", k |-> k, j |-> 1, x |-> 0, j2 |-> 0, x2 |-> 0] : k \in 1..Len(df.data) }
  \cup (IF Pairs THEN { [kind |-> "pick", k |-> n, j |-> 2, x |-> 0, j2 |-> 0, x2 |-> 0] : n \in 1..Len(PairList) }
        ELSE {})

ItemSweeps(df, k, vals) ==
  UNION { { [kind |-> "word", k |-> k, j |-> j, x |-> x, j2 |-> 0, x2 |-> 0]
            : x \in vals \ {df.items[k].w[j]} }
          : j \in 1..Len(df.items[k].w) }
  \cup { [kind |-> "trunc", k |-> k, j |-> n, x |-> 0, j2 |-> 0, x2 |-> 0]
         : n \in 0..(Len(df.items[k].w) - 1) }

\* a data block shortened to 0 bytes, 1 byte and by its last byte, and its last byte changed
DataSweeps(df, k) ==
  { [kind |-> "data", k |-> k, j |-> n, x |-> 0, j2 |-> 0, x2 |-> 0]
    : n \in {0, 1, Len(df.data[k]) - 1} \cap 0..(Len(df.data[k]) - 1) }
  \cup (IF Len(df.data[k]) = 0 THEN {}
        ELSE { [kind |-> "dbyte", k |-> k, j |-> Len(df.data[k]), x |-> x, j2 |-> 0, x2 |-> 0]
               : x \in {0, 47, 255} \ {df.data[k][Len(df.data[k])]} })

PairSweeps(df, n) ==
  LET q == PairList[n]
      k == ItemIx(df, q[1], q[2])
  IN IF k = 0 THEN {} ELSE IF Len(df.items[k].w) < q[4] THEN {}
     ELSE { [kind |-> "pair", k |-> k, j |-> q[3], x |-> x, j2 |-> q[4], x2 |-> x2] : x \in q[5], x2 \in q[6] }

SweepsOf(df, pick, vals) ==
  CASE pick.j = 0 -> ItemSweeps(df, pick.k, vals)
    [] pick.j = 1 -> DataSweeps(df, pick.k)
    [] OTHER -> PairSweeps(df, pick.k)

ApplySweep(df, s) ==
  CASE s.kind = "word" -> [df EXCEPT !.items[s.k].w[s.j] = s.x]
    [] s.kind = "trunc" -> [df EXCEPT !.items[s.k].w = SubSeq(@, 1, s.j)]
    [] s.kind = "pair" -> [df EXCEPT !.items[s.k].w[s.j] = s.x, !.items[s.k].w[s.j2] = s.x2]
    [] s.kind = "data" -> [df EXCEPT !.data[s.k] = SubSeq(@, 1, s.j)]
    [] s.kind = "dbyte" -> [df EXCEPT !.data[s.k][s.j] = s.x]
    [] OTHER -> df

----------------------------------------------------------------------------
IsBase == \E n \in 1..Len(BaseProfiles) : p = BaseProfiles[n]

Init == /\ v \in Versions
        /\ sw = NoSweep
        /\ p \in (IF Variants THEN UNION {VariantsOf(BaseProfiles[n]) : n \in 1..Len(BaseProfiles)}
                  ELSE {BaseProfiles[n] : n \in 1..Len(BaseProfiles)})

Next == /\ IsBase
        /\ SweepLevel > 0
        /\ LET df == MapDf(MkMap(p)) IN
           \/ sw = NoSweep /\ sw' \in Picks(df)
           \/ sw.kind = "pick"
              /\ sw' \in SweepsOf(df, sw, IF SweepLevel >= 2 THEN SweepValsFull
                                        ELSE IF p = BaseProfiles[1] THEN SweepValsMain ELSE SweepValsSmall)
        /\ UNCHANGED << v, p >>

Spec == Init /\ [][Next]_vars

\* what is exported as expectation: the item accessors always; the data accessors and the item
\* structs on everything for an uncorrupted map, otherwise only for the corrupted block / item
\* (they are functions of that block / item alone)
Emit ==
  sw.kind = "pick" \/
  LET T == MkMap(p)
      df0 == MapDf(T)
      df == ApplySweep(df0, sw)
      L == Layout(v, df)
      R == RofDf(df)
      ic == Strict(ItemCalls(R))
      dc == IF sw.kind = "none" THEN Concat([d \in 1..ND(R) |-> DataCalls(R, d - 1)])
            ELSE IF sw.kind \in {"data", "dbyte"} THEN DataCalls(R, sw.k - 1) ELSE << >>
      pc == IF sw.kind = "none" THEN Parts(R)
            ELSE IF sw.kind \in {"word", "trunc", "pair"} THEN PartsOfItem(R, sw.k - 1) ELSE << >>
      cs == ic \o dc
      wf == sw.kind = "none"
      valid == MapValidFrom(R, ic)
  IN /\ wf => (StoredAgree(T, cs) /\ valid)
     /\ \A j \in 1..Len(cs) : cs[j].out \in {"ok", "err"}
     /\ sw.kind \in {"none", "trunc", "data"} =>
          LET B == FileBytes(L)
              RR == Read(B, << >>)
          IN /\ RR.open = "ok" /\ RR.items = df.items /\ RR.types = R.types /\ RR.ranges = R.ranges
             /\ RR.data = R.data /\ ValidDoc(B, << >>)
     /\ PrintT(<< "M", ToJson([kind |-> "map", v |-> v, p |-> p, sw |-> sw, wf |-> wf, valid |-> valid, L |-> L,
                                exp |-> cs, parts |-> pc]) >>)
=============================================================================
