------------------------------ MODULE Datafile ------------------------------
(***************************************************************************)
(* The Teeworlds datafile format, versions 3 and 4, transcribed from       *)
(* /repo/doc/datafile.md, in both directions:                               *)
(*                                                                         *)
(*   writer  Layout(v, df)  : abstract datafile -> the field values of the *)
(*           file (header, type table, offset tables, data sizes, items,   *)
(*           data), FileBytes(L) : field values -> byte image;             *)
(*   reader  Read(B, Z)     : ANY byte string -> verdict                   *)
(*           {ok(version, types, items, data) , error(kind)} -- a total    *)
(*           function; the order of the error kinds follows                *)
(*           datafile/src/{format,raw}.rs (Header::read, HeaderRest::check,*)
(*           check_size_and_swaplen, Reader::new, Reader::check);          *)
(*   ValidDoc(B, Z)         : the declarative well-formedness predicate of *)
(*           the document ("must" sentences), independent of Read.         *)
(*                                                                         *)
(* Laws checked by TLC (DatafileMC): Read(FileBytes(Layout(v,df))) =       *)
(* ok(df) for both versions; ValidDoc(B) => Read(B) accepts; Read is total *)
(* on every single-field corruption.                                       *)
(*                                                                         *)
(* zlib: version 4 stores each data block as a zlib stream.  The spec      *)
(* defines the "stored" (uncompressed deflate block) form exactly          *)
(* (ZStored / Adler32) and otherwise treats the compressor as an           *)
(* uninterpreted injective function given as a dictionary Z of             *)
(* (image, payload) pairs recorded when the file was written.  A block     *)
(* that is neither is "unspec": any non-panicking answer is allowed.       *)
(*                                                                         *)
(* TLC integers are 32 bit and trap on overflow: every sum that can exceed *)
(* 2^31-1 is computed with AddC/MulC (sentinel -1 = "does not fit").       *)
(***************************************************************************)
EXTENDS Integers, Sequences, FiniteSets, SequencesExt, TLC

MAXI == 2147483647
MINI == -MAXI - 1

MagicDATA == 1096040772   \* 'D','A','T','A' read as a little-endian word
MagicATAD == 1145132097   \* 'A','T','A','D'

----------------------------------------------------------------------------
(* bytes and words *)

BytesOfI32(x) ==
  LET lo == x % 65536
      hi == (x \div 65536) % 65536
  IN << lo % 256, lo \div 256, hi % 256, hi \div 256 >>

I32OfBytes(b0, b1, b2, b3) ==
  (IF b3 >= 128 THEN b3 - 256 ELSE b3) * 16777216 + b2 * 65536 + b1 * 256 + b0

ByteOfI32(x, j) ==          \* j-th byte (0 = least significant) of the two's complement image
  LET lo == x % 65536
      hi == (x \div 65536) % 65536
  IN CASE j = 0 -> lo % 256 [] j = 1 -> lo \div 256 [] j = 2 -> hi % 256 [] OTHER -> hi \div 256

\* (FlattenSeq of the community modules is a recursive function: quadratic and deep; the
\* sequences here are built with function constructors and folds instead)
Concat(seqs) == FoldLeft(LAMBDA acc, x : acc \o x, << >>, seqs)

\* the item header word  type_id__id  (upper 16 bit type_id, lower 16 bit id)
TidId(tid, id) == (IF tid >= 32768 THEN tid - 65536 ELSE tid) * 65536 + id
TidOf(x) == (x \div 65536) % 65536
IdOf(x) == x % 65536

\* checked arithmetic on non-negative numbers; -1 = does not fit an i32
AddC(a, b) == IF a < 0 \/ b < 0 THEN -1 ELSE IF a > MAXI - b THEN -1 ELSE a + b
MulC(k, a) == IF a < 0 THEN -1 ELSE IF a > MAXI \div k THEN -1 ELSE k * a

SumSeq(s) == FoldLeft(LAMBDA acc, x : acc + x, 0, s)

\* TLC evaluates [k \in 1..n |-> e] lazily and re-evaluates e at every application; the
\* concatenation forces a concrete tuple (semantically the identity on sequences).
Strict(s) == s \o << >>

WordsToBytes(ws) == Strict([i \in 1..(4 * Len(ws)) |-> ByteOfI32(ws[(i - 1) \div 4 + 1], (i - 1) % 4)])

----------------------------------------------------------------------------
(* zlib: Adler-32 and the stored-block form *)

Adler32(bs) ==
  LET r == FoldLeft(LAMBDA acc, b :
                      LET a2 == (acc[1] + b) % 65521 IN << a2, (acc[2] + a2) % 65521 >>,
                    << 1, 0 >>, bs)
  IN << r[2] \div 256, r[2] % 256, r[1] \div 256, r[1] % 256 >>   \* big endian  b:a

\* zlib header 78 01, one final stored block, Adler-32 trailer (payload < 64 KiB)
ZStored(p) ==
  LET n == Len(p) IN
  << 120, 1, 1, n % 256, n \div 256, 255 - (n % 256), 255 - (n \div 256) >> \o p \o Adler32(p)

NoPayload == [ok |-> FALSE, p |-> << >>]

InflateStored(s) ==
  IF Len(s) < 11 THEN NoPayload
  ELSE IF ~(s[1] = 120 /\ s[2] = 1 /\ s[3] = 1) THEN NoPayload
  ELSE LET n == s[4] + 256 * s[5] IN
       IF ~(s[6] = 255 - s[4] /\ s[7] = 255 - s[5] /\ Len(s) = n + 11) THEN NoPayload
       ELSE LET p == SubSeq(s, 8, 7 + n) IN
            IF SubSeq(s, 8 + n, 11 + n) = Adler32(p) THEN [ok |-> TRUE, p |-> p] ELSE NoPayload

\* Z: sequence of [img |-> bytes, p |-> bytes] recorded by the writer (uninterpreted compressor)
Inflate(s, Z) ==
  LET st == InflateStored(s) IN
  IF st.ok THEN st
  ELSE LET hits == SelectSeq(Z, LAMBDA e : e.img = s) IN
       IF Len(hits) > 0 THEN [ok |-> TRUE, p |-> hits[1].p] ELSE NoPayload

----------------------------------------------------------------------------
(* writer: abstract datafile -> field values                                *)
(* df = [types |-> ascending sequence of type ids,                          *)
(*       items |-> sequence of [t, id, w] sorted by t (t in types),         *)
(*       data  |-> sequence of byte sequences]                              *)

ItemBytes(it) == 8 + 4 * Len(it.w)

Layout(v, df) ==
  LET items == Strict(df.items)
      ni == Len(items)
      nit == Len(df.types)
      nd == Len(df.data)
      imgs == Strict([k \in 1..nd |-> IF v = 3 THEN Strict(df.data[k]) ELSE ZStored(df.data[k])])
      isz == Strict([k \in 1..ni |-> ItemBytes(items[k])])
      si == SumSeq(isz)
      sd == SumSeq([k \in 1..nd |-> Len(imgs[k])])
      total == 36 + 12 * nit + 4 * ni + 4 * nd + (IF v = 3 THEN 0 ELSE 4 * nd) + si + sd
      Before(t) == Cardinality({k \in 1..ni : items[k].t < t})
      Of(t) == Cardinality({k \in 1..ni : items[k].t = t})
  IN [ magic |-> MagicDATA, version |-> v,
       size |-> total - 16, swaplen |-> total - 16 - sd,
       nit |-> nit, ni |-> ni, nd |-> nd, si |-> si, sd |-> sd,
       types |-> Strict([k \in 1..nit |-> [type_id |-> df.types[k], start |-> Before(df.types[k]),
                                            num |-> Of(df.types[k])]]),
       ioffs |-> Strict([k \in 1..ni |-> SumSeq(SubSeq(isz, 1, k - 1))]),
       doffs |-> Strict([k \in 1..nd |-> SumSeq([j \in 1..(k - 1) |-> Len(imgs[j])])]),
       dsizes |-> IF v = 3 THEN << >> ELSE Strict([k \in 1..nd |-> Len(df.data[k])]),
       items |-> Strict([k \in 1..ni |-> [tid |-> items[k].t, id |-> items[k].id,
                                           size |-> 4 * Len(items[k].w), w |-> Strict(items[k].w)]]),
       data |-> imgs ]

HdrWords(L) == << L.magic, L.version, L.size, L.swaplen, L.nit, L.ni, L.nd, L.si, L.sd >>
TypeWords(L) == Concat([k \in 1..Len(L.types) |->
                              << L.types[k].type_id, L.types[k].start, L.types[k].num >>])
ItemWords(L) == Concat([k \in 1..Len(L.items) |->
                              << TidId(L.items[k].tid, L.items[k].id), L.items[k].size >> \o L.items[k].w])
Words(L) == HdrWords(L) \o TypeWords(L) \o L.ioffs \o L.doffs \o L.dsizes \o ItemWords(L)
FileBytes(L) == WordsToBytes(Words(L)) \o Concat(L.data)

----------------------------------------------------------------------------
(* reader: any byte string -> verdict *)

OpenKinds == {"ok", "TooShortHeaderVersion", "WrongMagic", "UnsupportedVersion", "TooShortHeader",
              "MalformedHeader", "TooShort", "Malformed"}
DataKinds == {"ok", "CompressionError", "CompressionWrongSize", "unspec"}

ErrV(kind) == [open |-> kind, ver |-> "-", types |-> << >>, ranges |-> << >>, items |-> << >>,
               data |-> << >>]

\* View of the tables of a file whose header passed the size checks and which is long
\* enough (so that every index below is inside B and no sum overflows).
View(B) ==
  LET W(k) == I32OfBytes(B[4 * k - 3], B[4 * k - 2], B[4 * k - 1], B[4 * k])
      v == W(2) nit == W(5) ni == W(6) nd == W(7) si == W(8) sd == W(9)
      ioffBase == 9 + 3 * nit
      doffBase == ioffBase + ni
      dsBase == doffBase + nd
      itemsBase == dsBase + (IF v = 4 THEN nd ELSE 0)
  IN [ v |-> v, nit |-> nit, ni |-> ni, nd |-> nd, si |-> si, sd |-> sd,
       types |-> Strict([i \in 1..nit |-> [type_id |-> W(9 + 3 * (i - 1) + 1), start |-> W(9 + 3 * (i - 1) + 2),
                                            num |-> W(9 + 3 * (i - 1) + 3)]]),
       ioffs |-> Strict([i \in 1..ni |-> W(ioffBase + i)]),
       doffs |-> Strict([i \in 1..nd |-> W(doffBase + i)]),
       dsizes |-> IF v = 4 THEN Strict([i \in 1..nd |-> W(dsBase + i)]) ELSE << >>,
       itemsBase |-> itemsBase,                 \* in words
       dataStart |-> 4 * itemsBase + si ]       \* in bytes

\* the word at byte offset `off` (a multiple of 4) of the item area
ItemWord(B, V, off) ==
  LET k == V.itemsBase + off \div 4 + 1 IN I32OfBytes(B[4 * k - 3], B[4 * k - 2], B[4 * k - 1], B[4 * k])

TotalSize(v, nit, ni, nd, si, sd) ==
  AddC(AddC(AddC(AddC(AddC(AddC(36, MulC(12, nit)), MulC(4, ni)), MulC(4, nd)),
                 IF v = 4 THEN MulC(4, nd) ELSE 0), si), sd)

\* Reader::check, first block: the type table
TypesOK(V) ==
  LET r == FoldLeft(LAMBDA acc, t :
             IF ~acc.ok THEN acc
             ELSE IF ~(0 <= t.type_id /\ t.type_id < 65536) THEN [acc EXCEPT !.ok = FALSE]
             ELSE IF ~(t.type_id > acc.prev) THEN [acc EXCEPT !.ok = FALSE]
             ELSE IF t.start # acc.exp THEN [acc EXCEPT !.ok = FALSE]      \* hence 0 <= start <= ni
             ELSE IF ~(0 <= t.num /\ t.num <= V.ni - t.start) THEN [acc EXCEPT !.ok = FALSE]
             ELSE [ok |-> TRUE, prev |-> t.type_id, exp |-> acc.exp + t.num],
             [ok |-> TRUE, prev |-> -1, exp |-> 0], V.types)
  IN r.ok /\ r.exp = V.ni

\* second block: item offsets and sizes; the document requires every size to be a multiple of 4
ItemsOK(B, V) ==
  LET r == FoldLeft(LAMBDA acc, o :
             IF ~acc.ok THEN acc
             ELSE IF o < 0 \/ o # acc.off THEN [acc EXCEPT !.ok = FALSE]
             ELSE IF acc.off + 8 > V.si THEN [acc EXCEPT !.ok = FALSE]
             ELSE LET sz == ItemWord(B, V, acc.off + 4) IN
                  IF sz < 0 \/ sz % 4 # 0 THEN [acc EXCEPT !.ok = FALSE]
                  ELSE IF sz > V.si - (acc.off + 8) THEN [acc EXCEPT !.ok = FALSE]
                  ELSE [ok |-> TRUE, off |-> acc.off + 8 + sz],
             [ok |-> TRUE, off |-> 0], V.ioffs)
  IN r.ok /\ r.off = V.si

\* third block: data offsets (and uncompressed sizes in version 4)
DataOK(V) ==
  LET r == FoldLeft(LAMBDA acc, i :
             IF ~acc.ok THEN acc
             ELSE IF V.v = 4 /\ V.dsizes[i] < 0 THEN [acc EXCEPT !.ok = FALSE]
             ELSE IF V.doffs[i] < 0 \/ V.doffs[i] > V.sd THEN [acc EXCEPT !.ok = FALSE]
             ELSE IF acc.prev > V.doffs[i] THEN [acc EXCEPT !.ok = FALSE]
             ELSE [ok |-> TRUE, prev |-> V.doffs[i]],
             [ok |-> TRUE, prev |-> 0], [i \in 1..V.nd |-> i])
  IN r.ok

ItemAt(B, V, k) ==
  LET off == V.ioffs[k]
      h == ItemWord(B, V, off)
      sz == ItemWord(B, V, off + 4)
  IN [t |-> TidOf(h), id |-> IdOf(h), w |-> Strict([j \in 1..(sz \div 4) |-> ItemWord(B, V, off + 4 + 4 * j)])]

\* fourth block: every item of a type-table range carries that type id
ItemTypesOK(B, V) ==
  \A i \in 1..V.nit :
     \A k \in (V.types[i].start + 1)..(V.types[i].start + V.types[i].num) :
        TidOf(ItemWord(B, V, V.ioffs[k])) = V.types[i].type_id

DataSlice(B, V, k) ==
  LET from == V.dataStart + V.doffs[k]
      to == V.dataStart + (IF k < V.nd THEN V.doffs[k + 1] ELSE V.sd)
  IN SubSeq(B, from + 1, to)

DataVerdict(B, V, k, Z) ==
  LET s == DataSlice(B, V, k) IN
  IF V.v = 3 THEN [r |-> "ok", b |-> s]
  ELSE LET inf == Inflate(s, Z) IN
       IF ~inf.ok THEN [r |-> "unspec", b |-> << >>]
       ELSE IF Len(inf.p) = V.dsizes[k] THEN [r |-> "ok", b |-> inf.p]
       \* zlib's uncompress() inflates into a 1-byte dummy when the output buffer is empty and
       \* cannot report the overflow reliably (a 1-byte payload "fits"): not specified
       ELSE IF V.dsizes[k] = 0 THEN [r |-> "unspec", b |-> << >>]
       ELSE IF Len(inf.p) > V.dsizes[k] THEN [r |-> "CompressionError", b |-> << >>]   \* buffer too small
       ELSE [r |-> "CompressionWrongSize", b |-> << >>]

Read(B, Z) ==
  LET n == Len(B)
      W(k) == I32OfBytes(B[4 * k - 3], B[4 * k - 2], B[4 * k - 1], B[4 * k])
  IN
  IF n < 8 THEN ErrV("TooShortHeaderVersion")
  ELSE IF W(1) \notin {MagicDATA, MagicATAD} THEN ErrV("WrongMagic")
  ELSE IF W(2) \notin {3, 4} THEN ErrV("UnsupportedVersion")
  ELSE IF n < 36 THEN ErrV("TooShortHeader")
  ELSE
  LET v == W(2) size == W(3) swaplen == W(4) nit == W(5) ni == W(6) nd == W(7) si == W(8) sd == W(9) IN
  IF size < 0 \/ swaplen < 0 \/ nit < 0 \/ ni < 0 \/ nd < 0 \/ si < 0 \/ sd < 0 \/ si % 4 # 0
  THEN ErrV("MalformedHeader")
  ELSE
  LET total == TotalSize(v, nit, ni, nd, si, sd) IN
  IF total < 0 THEN ErrV("MalformedHeader")                        \* 2 GiB or more
  ELSE
  LET size0 == total - 16
      size1 == total - 16 - 4 * nd            \* "crude" version 4 writers forgot the data sizes
  IN
  IF size # size0 /\ size # size1 THEN ErrV("MalformedHeader")
  ELSE IF swaplen # size0 - sd /\ swaplen # size1 - sd THEN ErrV("MalformedHeader")
  ELSE IF n < total THEN ErrV("TooShort")
  ELSE
  LET V == View(B) IN
  IF ~TypesOK(V) THEN ErrV("Malformed")
  ELSE IF ~ItemsOK(B, V) THEN ErrV("Malformed")
  ELSE IF ~DataOK(V) THEN ErrV("Malformed")
  ELSE IF ~ItemTypesOK(B, V) THEN ErrV("Malformed")
  ELSE [ open |-> "ok",
         ver |-> IF v = 3 THEN "V3" ELSE IF size = size0 THEN "V4" ELSE "V4Crude",
         types |-> Strict([i \in 1..nit |-> V.types[i].type_id]),
         ranges |-> Strict([i \in 1..nit |-> [start |-> V.types[i].start, num |-> V.types[i].num]]),
         items |-> Strict([k \in 1..ni |-> ItemAt(B, V, k)]),
         data |-> Strict([k \in 1..nd |-> DataVerdict(B, V, k, Z)]) ]

\* what the accessors must return for an accepted file
ItemsOfType(R, t) ==
  LET hits == {i \in 1..Len(R.types) : R.types[i] = t} IN
  IF hits = {} THEN << >>
  ELSE LET i == CHOOSE x \in hits : \A y \in hits : x <= y IN
       SubSeq(R.items, R.ranges[i].start + 1, R.ranges[i].start + R.ranges[i].num)

Find(R, t, id) ==
  LET c == SelectSeq(ItemsOfType(R, t), LAMBDA it : it.id = id) IN
  IF Len(c) = 0 THEN [found |-> FALSE, w |-> << >>] ELSE [found |-> TRUE, w |-> c[1].w]

----------------------------------------------------------------------------
(* the document's well-formedness predicate, stated declaratively.          *)
(* (The ascending order of the type table is what the reference writer      *)
(* produces and what this reader requires; the document only says           *)
(* "unique".)                                                               *)

ValidDoc(B, Z) ==
  /\ Len(B) >= 36
  /\ LET W(k) == I32OfBytes(B[4 * k - 3], B[4 * k - 2], B[4 * k - 1], B[4 * k])
         v == W(2) nit == W(5) ni == W(6) nd == W(7) si == W(8) sd == W(9)
         total == TotalSize(v, nit, ni, nd, si, sd)
     IN
     /\ W(1) \in {MagicDATA, MagicATAD}
     /\ v \in {3, 4}
     /\ nit >= 0 /\ ni >= 0 /\ nd >= 0 /\ si >= 0 /\ sd >= 0
     /\ si % 4 = 0
     /\ total >= 0
     /\ Len(B) = total
     /\ W(3) = total - 16
     /\ W(4) = total - 16 - sd
     /\ LET V == View(B)
            HdrReadable(k) == V.ioffs[k] >= 0 /\ V.ioffs[k] % 4 = 0 /\ V.ioffs[k] <= si - 8
            Size(k) == ItemWord(B, V, V.ioffs[k] + 4)
            Tid(k) == TidOf(ItemWord(B, V, V.ioffs[k]))
            Id(k) == IdOf(ItemWord(B, V, V.ioffs[k]))
        IN
        \* item types: unique 16-bit ids, ascending; contiguous ranges covering all items
        /\ \A i \in 1..nit : V.types[i].type_id \in 0..65535 /\ V.types[i].num >= 0
        /\ \A i \in 1..nit : \A j \in 1..nit : i < j => V.types[i].type_id < V.types[j].type_id
        /\ \A i \in 1..nit : V.types[i].start >= 0 /\ V.types[i].start <= ni
                             /\ V.types[i].num <= ni - V.types[i].start
        /\ nit > 0 => V.types[1].start = 0
        /\ \A i \in 1..(nit - 1) : V.types[i + 1].start = V.types[i].start + V.types[i].num
        /\ IF nit = 0 THEN ni = 0 ELSE V.types[nit].start + V.types[nit].num = ni
        \* items: offsets are the positions, sizes are multiples of four, the area is filled exactly
        /\ \A k \in 1..ni : HdrReadable(k)
        /\ \A k \in 1..ni : Size(k) >= 0 /\ Size(k) % 4 = 0 /\ Size(k) <= si - 8 - V.ioffs[k]
        /\ ni > 0 => V.ioffs[1] = 0
        /\ \A k \in 1..(ni - 1) : V.ioffs[k + 1] = V.ioffs[k] + 8 + Size(k)
        /\ IF ni = 0 THEN si = 0 ELSE V.ioffs[ni] + 8 + Size(ni) = si
        \* every item of a range has the range's type; (type, id) is unique
        /\ \A i \in 1..nit : \A k \in (V.types[i].start + 1)..(V.types[i].start + V.types[i].num) :
              Tid(k) = V.types[i].type_id
        /\ \A k \in 1..ni : \A l \in 1..ni : k < l => ~(Tid(k) = Tid(l) /\ Id(k) = Id(l))
        \* data: offsets are the positions of the blocks; version 4 blocks are zlib streams of the
        \* declared uncompressed size
        /\ nd > 0 => V.doffs[1] = 0
        /\ nd = 0 => sd = 0
        /\ \A k \in 1..nd : V.doffs[k] >= 0 /\ V.doffs[k] <= sd
        /\ \A k \in 1..(nd - 1) : V.doffs[k] <= V.doffs[k + 1]
        /\ v = 4 => \A k \in 1..nd :
              LET inf == Inflate(DataSlice(B, V, k), Z) IN inf.ok /\ Len(inf.p) = V.dsizes[k]

=============================================================================
