SPECIFICATION Spec
CONSTANTS
  TypeIds <- TypeIdsT
  Ids <- IdsQ
  WordSeqs <- WordSeqsQ
  Blocks <- BlocksQ
  MaxLen = 4
INVARIANT Emit
