------------------------------ MODULE DfBuffer ------------------------------
(***************************************************************************)
(* datafile::buffer::Buffer -- the in-memory datafile builder of the       *)
(* datafile crate (the crate has no file writer).  A history is a sequence *)
(* of add_item(type, id, words) / add_data(bytes) calls; the buffer keeps  *)
(* the items sorted by (type, id), refuses a second item with the same     *)
(* (type, id) without changing anything, and appends data blocks.          *)
(*                                                                         *)
(* What the buffer holds after a history is an abstract datafile df (the   *)
(* argument of Datafile!Layout): the law checked in every state is that    *)
(* this df is always in writer form (types ascending, items grouped by     *)
(* type, (type, id) unique) and that Read(FileBytes(Layout(v, df))) gives  *)
(* it back in both versions -- the writer -> reader round trip against the *)
(* specification's own Layout.  Every state is printed as a case and       *)
(* executed on the real Buffer (results of every call, every accessor),    *)
(* laid out by the harness' independent writer from the buffer's content   *)
(* and read back with the real readers.                                    *)
(***************************************************************************)
EXTENDS Datafile, Json

CONSTANTS TypeIds, Ids, WordSeqs, Blocks, MaxLen

VARIABLE hist
vars == << hist >>

Ops == { [k |-> "item", t |-> t, id |-> id, w |-> w, b |-> << >>] : t \in TypeIds, id \in Ids, w \in WordSeqs }
       \cup { [k |-> "data", t |-> 0, id |-> 0, w |-> << >>, b |-> b] : b \in Blocks }

Less(a, b) == a.t < b.t \/ (a.t = b.t /\ a.id < b.id)

\* state: [items (sorted by (t, id)), data, res (result of every call: "ok" / "err" / data index)]
Step(st, op) ==
  IF op.k = "data"
  THEN [st EXCEPT !.data = Append(@, op.b), !.res = Append(@, [r |-> "ok", i |-> Len(st.data)])]
  ELSE IF \E j \in 1..Len(st.items) : st.items[j].t = op.t /\ st.items[j].id = op.id
       THEN [st EXCEPT !.res = Append(@, [r |-> "err", i |-> 0])]
       ELSE LET new == [t |-> op.t, id |-> op.id, w |-> op.w]
                before == SelectSeq(st.items, LAMBDA x : Less(x, new))
                after == SelectSeq(st.items, LAMBDA x : Less(new, x))
            IN [st EXCEPT !.items = before \o << new >> \o after, !.res = Append(@, [r |-> "ok", i |-> 0])]

After(h) == FoldLeft(Step, [items |-> << >>, data |-> << >>, res |-> << >>], h)

TypesOf(items) ==
  LET ts == {items[j].t : j \in 1..Len(items)} IN
  SetToSortSeq(ts, LAMBDA a, b : a < b)

DfOf(st) == [types |-> TypesOf(st.items), items |-> st.items, data |-> st.data]

WriterForm(df) ==
  /\ \A i \in 1..(Len(df.types) - 1) : df.types[i] < df.types[i + 1]
  /\ \A j \in 1..(Len(df.items) - 1) : Less(df.items[j], df.items[j + 1])
  /\ \A j \in 1..Len(df.items) : \E i \in 1..Len(df.types) : df.types[i] = df.items[j].t

RoundTripB(B, df) ==
  LET R == Read(B, << >>)
  IN /\ R.open = "ok" /\ R.types = df.types /\ R.items = df.items
     /\ \A k \in 1..Len(df.data) : R.data[k] = [r |-> "ok", b |-> df.data[k]]
     /\ ValidDoc(B, << >>)

Init == hist = << >>
Next == /\ Len(hist) < MaxLen
        /\ \E op \in Ops : hist' = Append(hist, op)
Spec == Init /\ [][Next]_vars

Emit ==
  LET st == After(hist)
      df == DfOf(st)
      B3 == FileBytes(Layout(3, df))
      B4 == FileBytes(Layout(4, df))
  IN /\ WriterForm(df)
     /\ RoundTripB(B3, df) /\ RoundTripB(B4, df)
     /\ PrintT(<< "U", ToJson([ops |-> hist, res |-> st.res, df |-> df,
                                ranges |-> [i \in 1..Len(df.types) |->
                                   [start |-> Cardinality({j \in 1..Len(df.items) : df.items[j].t < df.types[i]}),
                                    num |-> Cardinality({j \in 1..Len(df.items) : df.items[j].t = df.types[i]})]],
                                n3 |-> Len(B3), sum3 |-> Adler32(B3), n4 |-> Len(B4), sum4 |-> Adler32(B4)]) >>)
=============================================================================
