---------------------------- MODULE DatafileTrace ----------------------------
(***************************************************************************)
(* Direction B: validation of a trace recorded from the real readers.      *)
(*                                                                         *)
(* One event per file the driver produced:                                 *)
(*   bytes   the file image (array of bytes)                               *)
(*   z       dictionary of the zlib images the writer obtained from the    *)
(*           repository's compressor: [img, p] (uninterpreted function)    *)
(*   wf      TRUE iff the file is the unmodified output of the independent *)
(*           writer;  stored = the abstract content it wrote               *)
(*   probes  (type, id) pairs looked up with find_item                     *)
(*   file / raw / off   what datafile::Reader::open, raw::Reader::new and  *)
(*           datafile::Reader::new(File at an offset) did: the projected   *)
(*           verdict record; open = "panic" / "hang" when the call did not *)
(*           return normally                                               *)
(*                                                                         *)
(* The verdict alphabet of the property is {ok(items, data), error(kind)}: *)
(* an event with a panic or hang matches no action.  A well-formed file    *)
(* must be read back exactly as stored (judged against `stored`, not       *)
(* against Read); a file that is well-formed by the document (ValidDoc)    *)
(* and accepted must have exactly the content Read defines.  Any other     *)
(* difference from the detailed reader model is printed as DRIFT and       *)
(* accepted.                                                               *)
(***************************************************************************)
EXTENDS Datafile, Json, IOUtils

Rec == ndJsonDeserialize(IOEnv.TRACE)

VARIABLE i
vars == << i >>

NoCrash(o) == o.open \notin {"panic", "hang"}

DataEq(od, rd) ==
  /\ Len(od) = Len(rd)
  /\ \A k \in 1..Len(rd) : rd[k].r = "unspec" \/ (od[k].r = rd[k].r /\ od[k].b = rd[k].b)

\* the observation o shows exactly the content R (an accepting verdict of Read)
ContentEq(o, R, probes) ==
  /\ o.types = R.types
  /\ o.ranges = R.ranges
  /\ o.items = R.items
  /\ Len(o.by_type) = Len(R.types)
  /\ \A t \in 1..Len(R.types) : o.by_type[t] = ItemsOfType(R, R.types[t])
  /\ o.absent = ItemsOfType(R, 9)
  /\ Len(o.find) = Len(probes)
  /\ \A k \in 1..Len(probes) : o.find[k] = Find(R, probes[k][1], probes[k][2])
  /\ DataEq(o.data, R.data)
  /\ o.data_iter_same           \* data_iter() yielded exactly what read_data(k) returned

\* the unmodified output of the writer is read back as stored
StoredBack(o, st) ==
  /\ o.open = "ok"
  /\ o.types = st.types
  /\ o.items = st.items
  /\ Len(o.data) = Len(st.data)
  /\ \A k \in 1..Len(st.data) : o.data[k] = [r |-> "ok", b |-> st.data[k]]
  /\ o.data_iter_same

\* ce = ContentEq(o, R, e.probes), evaluated once per observation
PropertyOK(e, o, ce, doc) ==
  /\ NoCrash(o)
  /\ e.wf => StoredBack(o, e.stored)
  /\ (doc /\ o.open = "ok") => ce

\* (the name of the version variant -- V3 / V4 / V4Crude -- is a detail, not content)
Detailed(o, R, ce) ==
  /\ o.open = R.open
  /\ R.open = "ok" => (ce /\ o.ver = R.ver)

\* the spec's own law on the real-size file: what the writer stored is what Read defines
SpecRoundTrip(e, R, doc) ==
  e.wf => /\ R.open = "ok"
          /\ R.types = e.stored.types
          /\ R.items = e.stored.items
          /\ \A k \in 1..Len(e.stored.data) : R.data[k] = [r |-> "ok", b |-> e.stored.data[k]]
          /\ doc

\* the harness projects "raw::Reader answered exactly as datafile::Reader" as raw_same = TRUE
\* (and then logs the observation once)
RawObs(e) == IF e.raw_same THEN e.file ELSE e.raw
\* the same file embedded behind foreign bytes and opened with Reader::new(File) at that offset
OffObs(e) == IF e.off_same THEN e.file ELSE e.off

Accept(e, n) ==
  LET R == Read(e.bytes, e.z)
      doc == ValidDoc(e.bytes, e.z)
      ceF == IF e.file.open = "ok" /\ R.open = "ok" THEN ContentEq(e.file, R, e.probes) ELSE FALSE
      ceR == IF e.raw_same THEN ceF
             ELSE IF e.raw.open = "ok" /\ R.open = "ok" THEN ContentEq(e.raw, R, e.probes) ELSE FALSE
      ceO == IF e.off_same THEN ceF
             ELSE IF e.off.open = "ok" /\ R.open = "ok" THEN ContentEq(e.off, R, e.probes) ELSE FALSE
  \* (IF, not \/ : TLC would split a disjunction of an action into sub-actions)
  IN /\ IF SpecRoundTrip(e, R, doc) THEN TRUE ELSE PrintT(<< "SPEC-LAW-FAIL roundtrip", n >>) /\ FALSE
     /\ IF doc => R.open = "ok" THEN TRUE ELSE PrintT(<< "SPEC-LAW-FAIL doc=>accept", n >>) /\ FALSE
     /\ e.redundant_ok
     /\ PropertyOK(e, e.file, ceF, doc)
     /\ PropertyOK(e, RawObs(e), ceR, doc)
     /\ PropertyOK(e, OffObs(e), ceO, doc)
     /\ IF Detailed(e.file, R, ceF) THEN TRUE ELSE PrintT(<< "DRIFT", n, "file", R.open, e.file.open >>)
     /\ IF Detailed(RawObs(e), R, ceR) THEN TRUE ELSE PrintT(<< "DRIFT", n, "raw", R.open, RawObs(e).open >>)
     /\ IF Detailed(OffObs(e), R, ceO) THEN TRUE ELSE PrintT(<< "DRIFT", n, "offset", R.open, OffObs(e).open >>)
     /\ PrintT(<< "EV", n, R.open, doc, e.wf >>)

Init == i = 0

Next == /\ i < Len(Rec)
        /\ Accept(Rec[i + 1], i + 1)
        /\ i' = i + 1

Spec == Init /\ [][Next]_vars

\* every event was consumed
Post ==
  LET d == TLCGet("stats").diameter IN
  IF d - 1 = Len(Rec) THEN TRUE
  ELSE /\ PrintT(<< "TRACE REJECTED at event", d, "of", Len(Rec) >>)
       /\ PrintT(<< "REJECTED-EVENT", ToJson([n |-> d, mut |-> Rec[d].mut,
                                                file_open |-> Rec[d].file.open,
                                                raw_open |-> RawObs(Rec[d]).open,
                                                off_open |-> OffObs(Rec[d]).open]) >>)
       /\ TRUE
=============================================================================
